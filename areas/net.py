"""network/network_{read,write,accept,connect}.c and netbuf/netbuf_{read,write}.c.

Three things happen to every case line (grammar: model/net_main.ml):
  1. harness/drv_net.c runs it on the real events*.c + network_*.c + netbuf_*.c with the scripted
     kernel of harness/wrap_net.c (ASan/UBSan build, one forked child per case);
  2. the extracted model (coq/Net/NetWorld.v, NetConnect.v) runs it; the two logs are diffed;
  3. an independent checker (this file; it shares no code with the model) evaluates the property
     predicates of C06 / C07 directly on the IMPLEMENTATION's log: exactly-once, byte-exactness
     against the peer stream, min <= n <= buflen, every recv/send asked for exactly the rest of the
     buffer at the current offset, no transfer after completion / cancel / failure, prefix
     property of the writer, window bounds of the reader, first-success for connect.

netbuf_read.c / netbuf_write.c have two transport branches with duplicated argument computations:
the plain-socket one (network_read / network_write on R->s / W->s) and the context one used for
TLS (R->ssl / W->ssl != NULL: calls through netbuf_{read,write}_ssl_func and ..._cancel_func).
Every netbuf scenario is therefore run in BOTH modes: as "sc ..." (netbuf_read_init(fd)) and as
"scx ..." (netbuf_read_init2(-1, ctx), with a context transport in drv_net.c that forwards
unchanged to network_read / network_write on fd).  The model is transport-agnostic at this level
(the transport contract is C06's), so it gets the plain form and both implementation logs are
compared with its one log; the independent checker evaluates both logs.
"""
import re
import vlib

ERRNO = ["EAGAIN", "EWOULDBLOCK", "EINTR", "ECONNABORTED", "ECONNRESET", "EPIPE", "ECONNREFUSED",
         "ETIMEDOUT", "EMFILE", "ENOMEM", "EBADF", "EIO", "ENFILE", "EPROTO", "ENOBUFS",
         "EHOSTUNREACH", "ENETUNREACH", "EINPROGRESS", "EPERM", "ENOTCONN"]
RETRY_RW = {"EAGAIN", "EWOULDBLOCK", "EINTR"}
RETRY_ACC = RETRY_RW | {"ECONNABORTED"}
HARD_RW = ["ECONNRESET", "EPIPE", "ETIMEDOUT", "EIO", "ENOTCONN", "ENOBUFS"]
HARD_ACC = ["EMFILE", "ENFILE", "ENOMEM", "EPROTO", "ENOBUFS", "EPERM"]
RBUF = 4096          # initial reader buffer / WBUFLEN as the property text names them
SIZES = [0, 1, 4095, 4096, 4097, 8192, 100000]

SRC = ["events/events.c", "events/events_immediate.c", "events/events_network.c",
       "events/events_network_selectstats.c", "events/events_timer.c",
       "network/network_read.c", "network/network_write.c", "network/network_accept.c",
       "network/network_connect.c", "netbuf/netbuf_read.c", "netbuf/netbuf_write.c",
       "util/sock.c", "util/sock_util.c", "util/asprintf.c", "util/warnp.c",
       "datastruct/elasticarray.c", "datastruct/ptrheap.c", "datastruct/timerqueue.c"]
WRAPS = ["recv", "send", "accept", "connect", "socket", "close", "poll", "getsockopt", "setsockopt",
         "fcntl", "fcntl64", "malloc", "calloc", "realloc", "free", "signal", "__sysv_signal"]
ASAN_ENV = {"ASAN_OPTIONS": "detect_leaks=1:abort_on_error=0:exitcode=1", "UBSAN_OPTIONS": "halt_on_error=1:exitcode=1"}


# ------------------------------------------------------------------ byte patterns and rendering
def pat(salt, p):
    return (p * 131 + (p >> 8) * 17 + salt * 29 + 7) & 255


def pat_bytes(salt, pos, n):
    return bytes(pat(salt, pos + i) for i in range(n))


def fnv(b):
    h = 0xcbf29ce484222325
    for x in b:
        h = ((h ^ x) * 0x100000001b3) & 0xFFFFFFFFFFFFFFFF
    return "%016x" % h


def show(b):
    if len(b) == 0:
        return "-"
    return b.hex() if len(b) <= 16 else "#" + fnv(b)


def lshow(b):
    return "%d:%s" % (len(b), show(b))


# ------------------------------------------------------------------ build / run
# network_write.c has two build configurations: the one every POSIX.1-2008 host selects (send with
# MSG_NOSIGNAL) and -DPOSIXFAIL_MSG_NOSIGNAL (platforms without the flag: send with flag 0 between
# signal(SIGPIPE, SIG_IGN) and a restoring signal(), errno saved over the latter).  The second one
# is not selected on this machine but compiles and runs here; harness/net_no_msg_nosignal.h makes
# <sys/socket.h> look as on such a platform.  The write machine of NetRW.v is the function of the
# send() answers that BOTH configurations have to implement, so both drivers are compared with the
# one model log and judged by the same predicates.
CONFIGS = {"default": {},
           "posixfail": {"network/network_write.c": ["-DPOSIXFAIL_MSG_NOSIGNAL", "-include",
                                                     __import__("os").path.join(vlib.VERIF, "harness", "net_no_msg_nosignal.h")]}}
_built = {}


def build_driver(ctx, config):
    # one build directory per property: C06 / C07 / C14 may be checked concurrently
    name = "drv_net_asan_" + ("" if config == "default" else config + "_") + ctx.pid
    return vlib.build_c(name, "drv_net.c", SRC, extra_sources=["wrap_net.c"], wraps=WRAPS, asan=True,
                        per_file_flags=CONFIGS[config])


def build(ctx, sub, configs=("default",)):
    """-> (exe of the default configuration, model exe[, {config: exe}] when more configs are asked for)"""
    import threading
    res = {}
    ths = [threading.Thread(target=lambda c=c: res.__setitem__(c, build_driver(ctx, c))) for c in configs]
    for t in ths:
        t.start()
    for t in ths:
        t.join()
    exes = {}
    for c in configs:
        exe, err = res.get(c, (None, "build thread died"))
        if not exe:
            ctx.fail(sub, "build", "", "C driver (%s configuration) does not build: %s" % (c, (err or "")[-1500:]))
            return (None, None) if len(configs) == 1 else (None, None, {})
        exes[c] = exe
    mexe, err = vlib.build_model("net")
    if not mexe:
        ctx.fail(sub, "tie", "", err)
    if len(configs) == 1:
        return exes[configs[0]], mexe
    return exes[configs[0]], mexe, exes


def split_impl(line):
    """-> (core text up to and including 'end', extra tokens after it, status tokens !SIG.. etc)."""
    toks = line.split()
    status = [t for t in toks if t.startswith("!")]
    toks = [t for t in toks if not t.startswith("!")]
    if "end" in toks:
        i = toks.index("end")
        return " ".join(toks[:i + 1]), toks[i + 1:], status
    return " ".join(toks), [], status


# ------------------------------------------------------------------ script parser (independent of the OCaml one)
class Op:
    def __init__(self, kind, **kw):
        self.kind = kind
        self.cont = []
        self.__dict__.update(kw)


def parse_sc(toks):
    """-> (ops tree, info) where info has requests by id, feeds per (fd, dir) in textual order and
    the writer ops with their pattern positions (clamped like the drivers do)."""
    info = {"req": {}, "feeds": {}, "feedorder": [], "wops": [], "nr_fd": None, "nw_fd": None}
    pos = [0]
    app = {"pos": 0, "res": None, "nw": False}
    peer = {}

    def block(top):
        ops = []
        while pos[0] < len(toks):
            t = toks[pos[0]]
            if t == "}":
                if top:
                    raise ValueError("stray }")
                pos[0] += 1
                return ops
            pos[0] += 1
            f = t.split(":")
            o = None
            if f[0] == "r" and len(f) == 5:
                o = Op("r", id=int(f[1]), fd=int(f[2]), buflen=int(f[3]), min=int(f[4]))
                info["req"][o.id] = o
            elif f[0] == "w" and len(f) == 5:
                o = Op("w", id=int(f[1]), fd=int(f[2]), buflen=int(f[3]), min=int(f[4]))
                info["req"][o.id] = o
            elif f[0] in ("R", "W") and len(f) == 5:
                # a request over gigabytes (an unbacked buffer on the C side: counts only, no contents)
                o = Op(f[0].lower(), id=int(f[1]), fd=int(f[2]), buflen=int(f[3]), min=int(f[4]), huge=True)
                info["req"][o.id] = o
            elif f[0] == "a" and len(f) == 3:
                o = Op("a", id=int(f[1]), fd=int(f[2]))
                info["req"][o.id] = o
            elif f[0] == "x" and len(f) == 2:
                o = Op("x", id=int(f[1]))
            elif f[0] == "k" and len(f) == 4 and top:
                fd, wr = int(f[1]), f[2] == "w"
                evs = []
                for e in f[3].split(","):
                    if e[0] in "dD":
                        n = int(e[1:])
                        p = peer.get(fd, 0)
                        peer[fd] = p + n
                        evs.append(["d", p, n])
                    elif e[0] == "z":
                        evs.append(["d", 0, 0])
                    elif e[0] == "n":
                        evs.append(["n", int(e[1:])])
                    elif e[0] == "c":
                        evs.append(["c"])
                    elif e[0] == "e":
                        evs.append(["e", e[1:]])
                    else:
                        raise ValueError(e)
                if (fd, wr) not in info["feeds"]:
                    info["feeds"][(fd, wr)] = []
                    info["feedorder"].append((fd, wr))
                info["feeds"][(fd, wr)] += evs
                o = Op("k", fd=fd, wr=wr, evs=evs)
            elif t == "run":
                o = Op("run")
            elif f[0] == "nri" and len(f) == 2:
                o = Op("nri", fd=int(f[1]))
                if info["nr_fd"] is None:
                    info["nr_fd"] = o.fd
            elif f[0] == "nrw" and len(f) == 2:
                o = Op("nrw", k=int(f[1]))
            elif f[0] == "nrh" and len(f) == 2:
                o = Op("nrh", k=int(f[1]))
            elif f[0] == "nrc" and len(f) == 2:
                o = Op("nrc", j=int(f[1]))
            elif t == "nrx":
                o = Op("nrx")
            elif t == "nrp":
                o = Op("nrp")
            elif f[0] == "nwi" and len(f) == 2 and top:
                o = Op("nwi", fd=int(f[1]))
                if info["nw_fd"] is None:
                    info["nw_fd"] = o.fd
                app["nw"] = True
            elif f[0] == "nwo" and len(f) == 2 and top:
                o = Op("nwo", p=int(f[1]))
                app["pos"] = o.p
            elif f[0] == "nww" and len(f) == 2 and top:
                o = Op("nww", n=int(f[1]), pos=app["pos"])
                app["pos"] += o.n
                info["wops"].append(o)
            elif f[0] == "nwr" and len(f) == 2 and top:
                o = Op("nwr", n=int(f[1]))
                if app["nw"] and app["res"] is None:
                    app["res"] = o.n
                info["wops"].append(o)
            elif f[0] == "nwc" and len(f) == 2 and top:
                j = int(f[1])
                if app["res"] is not None and j > app["res"]:
                    j = app["res"]
                o = Op("nwc", j=j, pos=app["pos"])
                app["pos"] += j
                app["res"] = None
                info["wops"].append(o)
            else:
                raise ValueError("bad token " + t)
            if o.kind in ("r", "w", "a", "nrw") and pos[0] < len(toks) and toks[pos[0]] == "{":
                pos[0] += 1
                o.cont = block(False)
            ops.append(o)
        if not top:
            raise ValueError("unterminated block")
        return ops

    ops = block(True)
    return ops, info


# ------------------------------------------------------------------ the scripted kernel, re-implemented for the checker
class KQ:
    """Answer queue of one (fd, direction) in feed order; answer(len) gives what the scripted
    kernel returns to a recv/send/accept asking for len bytes."""

    def __init__(self, evs):
        self.q = [list(e) for e in evs]

    def empty(self):
        return not self.q

    def recv(self, ln):
        if not self.q:
            return ("E", "EAGAIN", None)
        e = self.q[0]
        if e[0] == "d":
            n = min(e[2], ln)
            a = e[1]
            if n == e[2]:
                self.q.pop(0)
            else:
                e[1] += n
                e[2] -= n
            return ("N", n, a)
        self.q.pop(0)
        if e[0] == "e":
            return ("E", e[1], None)
        return ("E", "EAGAIN", None)

    def send(self, ln):
        if not self.q:
            return ("E", "EAGAIN")
        e = self.q.pop(0)
        if e[0] == "n":
            return ("N", min(e[1], ln))
        if e[0] == "e":
            return ("E", e[1])
        return ("E", "EAGAIN")

    def accept(self):
        if not self.q:
            return ("E", "EAGAIN")
        e = self.q.pop(0)
        if e[0] == "c":
            return ("S",)
        if e[0] == "e":
            return ("E", e[1])
        return ("E", "EAGAIN")

    def data_left(self):
        return sum(e[2] for e in self.q if e[0] == "d")


# ------------------------------------------------------------------ independent checker for "sc" cases
RX_RS = re.compile(r"^([RS])(\d+):(u(\d+)|nb|\?):(\d+):(\d+):(\d+)=(\S+)$")
RX_ACC = re.compile(r"^A(\d+):(-?\d+)=(\S+)$")
RX_CB = re.compile(r"^cb(\d+)=(-?\d+)(?::(\S+))?$")
RX_START = re.compile(r"^([rwa])(\d+)=(ok|null)$")
RX_NRW = re.compile(r"^nrw(\d+)=(-?\d+)$")
RX_NRH = re.compile(r"^nrh(\d+)=(-?\d+|skip)$")
RX_NRCB = re.compile(r"^nrcb=(-?\d+):(\d+):(\S+)$")
RX_NRC = re.compile(r"^nrc(\d+)$")
RX_NW = re.compile(r"^(nww|nwr|nwc)(\d+)=(\S+)$")

SIG_CANCEL_LOSS = "netbuf_read.cancel_partial_loss"
SIG_EOF_LOSS = "netbuf_read.eof_partial_loss"


def check_sc(case, toks, allocfail=False):
    """Evaluate the C06 / C07 predicates on the implementation's log (tokens up to 'end').
    Returns (violations, known): violations = list of strings for anything that is wrong and NOT
    explained by a listed finding; known = list of (signature, description), one entry per finding
    of the strict reading of C07 that this log exhibits and that explains a discrepancy completely:
    'bytes lost by cancelling a wait after a partial arrival' (F9) and 'bytes received inside a
    wait that then ends with EOF / an error are not shown to the application'."""
    bad = []

    def V(msg):
        if len(bad) < 6:
            bad.append(msg)

    try:
        _, info = parse_sc(case.split()[1:])
    except Exception as e:  # generator bug
        return ["checker cannot parse case: %s" % e], None
    if not toks or toks[-1] != "end":
        return ["log does not reach 'end' (crash or abort): ... " + " ".join(toks[-6:])], None
    kq = {k: KQ(v) for k, v in info["feeds"].items()}
    req = {}        # id -> state
    slot = {}       # (fd, wr) -> id of the user request holding the registration
    maybe_free = set()   # slots whose holder may have lost its registration (a refused re-registration inside the loop)
    expect = None   # ("cb", id, value) | ("fail",) | ("nrcb", status): what the next token must be
    wire = {}       # fd -> bytearray of the bytes the checker believes were handed to send
    ghost = {}      # fd -> number of bytes handed to send from buffers of gigabytes (counted, not looked at)
    nsock = 0
    known = []
    # buffered reader, as the application is entitled to see it
    nr = {"fd": info["nr_fd"], "wait": None, "visible": bytearray(), "pending": bytearray(), "consumed": 0,
          "ended": False, "imm": False, "lost": 0}
    # buffered writer
    nw = {"fd": info["nw_fd"], "accepted": bytearray(), "failed": False, "nfail": 0, "wi": 0,
          "sent": 0, "fl_len": None, "fl_pos": 0}
    wops = info["wops"]

    def getkq(fd, wr):
        if (fd, wr) not in kq:
            kq[(fd, wr)] = KQ([])
        return kq[(fd, wr)]

    def observe_reader(t, shown, tail=b""):
        """a peek of the reader: shown = '<len>:<show>'.  tail: bytes the kernel delivered inside
        the wait that is just now reporting EOF / an error; the strict reading of 'exactly the
        bytes the peer sent up to the point where end-of-stream or an error is reported' wants
        them shown, the code drops them (network_read reports 0 / -1, not the partial count)."""
        if nr["ended"]:
            return      # after EOF / error nothing more is promised
        lossy = bytes(nr["visible"][nr["consumed"]:])
        strict = bytes((nr["visible"] + tail)[nr["consumed"]:])
        if tail and shown == lshow(strict) and strict != lossy:
            return      # the strict behaviour is of course accepted
        if shown == lshow(lossy):
            if nr["lost"] > 0 and not any(k[0] == SIG_CANCEL_LOSS for k in known):
                known.append((SIG_CANCEL_LOSS, "%s: %d byte(s) received by a cancelled wait are missing from the stream "
                              "the application sees" % (t, nr["lost"])))
            if tail and strict != lossy and not any(k[0] == SIG_EOF_LOSS for k in known):
                known.append((SIG_EOF_LOSS, "%s: the peer sent %d more byte(s) before the end-of-stream / error that this "
                              "wait reports; the reader received them and does not show them (it shows %s)"
                              % (t, len(tail), lshow(lossy))))
            return
        V("%s: reader should show the %d unconsumed byte(s) of the peer stream (%s)" % (t, len(lossy), lshow(lossy)))

    for ti, t in enumerate(toks[:-1]):
        if expect is not None:
            ok = False
            if expect[0] == "cb":
                m = RX_CB.match(t)
                ok = bool(m) and int(m.group(1)) == expect[1]
            elif expect[0] == "fail":
                ok = (t == "fail")
            elif expect[0] == "nrcb":
                ok = bool(RX_NRCB.match(t))
            if not ok:
                V("after a terminal kernel answer the next event must be the %s, got %s" % (
                    {"cb": "callback of request %s" % (expect[1],), "fail": "fail callback", "nrcb": "wait callback"}[expect[0]], t))
                expect = None
        m = RX_START.match(t)
        if m:
            kind, rid, ok = m.group(1), int(m.group(2)), m.group(3) == "ok"
            o = info["req"].get(rid)
            if o is None or o.kind != kind:
                V("start of unknown request " + t)
                continue
            key = (o.fd, kind == "w")
            if ok:
                if key in slot and key not in maybe_free:
                    V("request %d registered although %d still holds (fd %d, %s)" % (rid, slot[key], o.fd, kind))
                maybe_free.discard(key)
                slot[key] = rid
                req[rid] = {"o": o, "st": "pending", "pos": 0, "got": bytearray()}
            else:
                if key not in slot and not allocfail and not (
                        (nr["fd"] == o.fd and kind != "w" and nr["wait"] is not None) or
                        (nw["fd"] == o.fd and kind == "w" and nw["fl_len"] is not None)):
                    V("request %d refused although (fd %d, %s) is free" % (rid, o.fd, kind))
                if rid not in req:
                    req[rid] = {"o": o, "st": "refused", "pos": 0, "got": bytearray()}
            continue
        m = RX_RS.match(t)
        if m:
            isw = m.group(1) == "S"
            fd, who, blk, off, ln, ret = int(m.group(2)), m.group(3), int(m.group(5)), int(m.group(6)), int(m.group(7)), m.group(8)
            q = getkq(fd, isw)
            if off + ln > blk:
                V("%s: range [%d, %d) leaves the %d-byte block" % (t, off, off + ln, blk))
            if ln == 0:
                V("%s: zero-length transfer requested" % t)
            if who == "?":
                V("%s: transfer outside any known buffer" % t)
                continue
            a = q.send(ln) if isw else q.recv(ln)
            if ret != str(a[1]):
                V("%s: the scripted kernel answers %s here" % (t, a[1]))
            if who.startswith("u"):
                rid = int(m.group(4))
                r = req.get(rid)
                if r is None or r["st"] != "pending":
                    V("%s: transfer for request %d which is %s" % (t, rid, r["st"] if r else "unknown"))
                    continue
                o = r["o"]
                if o.fd != fd or (o.kind == "w") != isw:
                    V("%s: wrong descriptor/direction for request %d" % (t, rid))
                if blk != o.buflen or off != r["pos"] or off + ln != o.buflen:
                    V("%s: request %d must ask for exactly buflen-bufpos=%d bytes at offset %d" % (t, rid, o.buflen - r["pos"], r["pos"]))
                if isw:
                    wire.setdefault(fd, bytearray())
                    if a[0] == "N":
                        n = a[1]
                        if getattr(o, "huge", False):
                            ghost[fd] = ghost.get(fd, 0) + n
                        else:
                            wire[fd] += pat_bytes(100 + rid, off, n)
                        r["pos"] += n
                        if r["pos"] >= o.min:
                            expect = ("cb", rid, r["pos"])
                    elif a[1] not in RETRY_RW:
                        expect = ("cb", rid, -1)
                else:
                    if a[0] == "N":
                        n = a[1]
                        if n == 0:
                            expect = ("cb", rid, 0)
                        else:
                            if not getattr(o, "huge", False):
                                r["got"] += pat_bytes(fd, a[2], n)
                            r["pos"] += n
                            if r["pos"] >= o.min:
                                expect = ("cb", rid, r["pos"])
                    elif a[1] not in RETRY_RW:
                        expect = ("cb", rid, -1)
            elif isw:
                # a buffer of the buffered writer
                wire.setdefault(fd, bytearray())
                if nw["fd"] != fd:
                    V("%s: send from an internal buffer on a descriptor without a writer" % t)
                    continue
                if nw["failed"]:
                    V("%s: send after the writer failed" % t)
                if nw["fl_len"] is None:
                    # a new network_write: offset 0, length = the whole buffer contents
                    if off != 0:
                        V("%s: a new in-flight buffer must start at offset 0" % t)
                    nw["fl_len"], nw["fl_pos"] = off + ln, off
                    if nw["sent"] + nw["fl_len"] > len(nw["accepted"]):
                        V("%s: buffer of %d bytes exceeds the %d accepted and unsent bytes" % (t, nw["fl_len"], len(nw["accepted"]) - nw["sent"]))
                elif off != nw["fl_pos"] or off + ln != nw["fl_len"]:
                    V("%s: in-flight buffer of %d bytes is at offset %d" % (t, nw["fl_len"], nw["fl_pos"]))
                if blk < RBUF:
                    V("%s: writer buffer smaller than WBUFLEN" % t)
                if a[0] == "N":
                    n = a[1]
                    wire[fd] += nw["accepted"][nw["sent"]:nw["sent"] + n]
                    nw["sent"] += n
                    nw["fl_pos"] += n
                    if nw["fl_pos"] >= nw["fl_len"]:
                        nw["fl_len"] = None
                elif a[1] not in RETRY_RW:
                    nw["fl_len"] = None
                    expect = ("fail",)
            else:
                # the buffered reader's network_read
                if nr["fd"] != fd or nr["wait"] is None:
                    V("%s: recv into an internal buffer while no wait is pending" % t)
                    continue
                if off + ln != blk:
                    V("%s: the reader must offer the whole tail of its buffer" % t)
                if blk < RBUF:
                    V("%s: reader buffer smaller than %d" % (t, RBUF))
                # what is still missing is fixed when the wait is made (bytes the application
                # consumes while its own wait is pending are its own business)
                missing = nr["need"] - len(nr["pending"])
                if ln < missing:
                    V("%s: asks for %d bytes but %d are still needed" % (t, ln, missing))
                if a[0] == "N" and a[1] > 0:
                    nr["pending"] += pat_bytes(fd, a[2], a[1])
                    if a[1] >= missing:
                        expect = ("nrcb", 0)
                elif a[0] == "N":
                    expect = ("nrcb", 1)
                elif a[1] not in RETRY_RW:
                    expect = ("nrcb", -1)
            continue
        m = RX_ACC.match(t)
        if m:
            fd, rid, ret = int(m.group(1)), int(m.group(2)), m.group(3)
            r = req.get(rid)
            if r is None or r["st"] != "pending" or r["o"].kind != "a" or r["o"].fd != fd:
                V("%s: accept(2) for a request that is not pending" % t)
                continue
            a = getkq(fd, False).accept()
            if a[0] == "S":
                if ret != "s%d" % nsock:
                    V("%s: expected descriptor ordinal s%d" % (t, nsock))
                expect = ("cb", rid, nsock)
                nsock += 1
            else:
                if ret != a[1]:
                    V("%s: the scripted kernel answers %s here" % (t, a[1]))
                if a[1] not in RETRY_ACC:
                    expect = ("cb", rid, -1)
            continue
        m = RX_CB.match(t)
        if m:
            rid, v, sh = int(m.group(1)), int(m.group(2)), m.group(3)
            r = req.get(rid)
            if r is None or r["st"] != "pending":
                V("%s: callback for request %d which is %s" % (t, rid, r["st"] if r else "unknown"))
                expect = None
                continue
            if expect is None or expect[0] != "cb" or expect[1] != rid:
                if not (allocfail and v == -1):
                    V("%s: callback without a terminal kernel answer (spurious or repeated)" % t)
            elif expect[2] != v and not (allocfail and v == -1):
                V("%s: callback value should be %d" % (t, expect[2]))
            expect = None
            o = r["o"]
            r["st"] = "done"
            if slot.get((o.fd, o.kind == "w")) == rid:
                del slot[(o.fd, o.kind == "w")]
            if o.kind == "r":
                if v > 0 and not (o.min <= v <= o.buflen and v == r["pos"]):
                    V("%s: n must satisfy min=%d <= n <= buflen=%d and equal the %d bytes received" % (t, o.min, o.buflen, r["pos"]))
                want = "untouched" if getattr(o, "huge", False) else show(bytes(r["got"]) + b"\xee" * (o.buflen - len(r["got"])))
                if sh != want:
                    V("%s: buffer should hold exactly the next %d bytes of the peer stream and nothing else (%s)" % (t, len(r["got"]), want))
            elif o.kind == "w":
                if v > 0 and not (o.min <= v <= o.buflen and v == r["pos"]):
                    V("%s: n must satisfy min <= n <= buflen and equal the bytes handed to send" % t)
            continue
        if t.startswith("x") and t[1:].isdigit():
            rid = int(t[1:])
            r = req.get(rid)
            if r is None or r["st"] != "pending":
                V("%s: cancel logged for a request that is not pending" % t)
                continue
            r["st"] = "cancelled"
            o = r["o"]
            if slot.get((o.fd, o.kind == "w")) == rid:
                del slot[(o.fd, o.kind == "w")]
            continue
        if t.startswith("pend"):
            rid = int(t[4:])
            r = req.get(rid)
            if r is None or r["st"] != "pending":
                V("%s: listed as pending but is %s" % (t, r["st"] if r else "unknown"))
            else:
                r["listed"] = True
                o = r["o"]
                if not getkq(o.fd, o.kind == "w").empty() and not allocfail:
                    V("request %d still pending although the kernel has answers queued for fd %d" % (rid, o.fd))
            continue
        if t.startswith("wire"):
            fd, rest = t[4:].split("=", 1)
            fd = int(fd)
            want = lshow(bytes(wire.get(fd, b"")))
            if ghost.get(fd):
                want = "%d:untouched" % (len(wire.get(fd, b"")) + ghost[fd])
            if rest != want:
                V("%s: bytes received by the wrapped send should be %s" % (t, want))
            wire["seen%d" % fd] = True
            continue
        if t.startswith("left"):
            fd, n = t[4:].split("=")
            if int(n) != getkq(int(fd), False).data_left():
                V("%s: %d bytes of the peer stream are still in the kernel" % (t, getkq(int(fd), False).data_left()))
            continue
        # ---- buffered reader
        if t.startswith("nri="):
            continue
        m = RX_NRW.match(t)
        if m:
            k, rc = int(m.group(1)), int(m.group(2))
            if rc == 0:
                if nr["wait"] is not None:
                    V("%s: wait accepted while another is pending" % t)
                nr["wait"] = k
                nr["pending"] = bytearray()
                nr["imm"] = (len(nr["visible"]) - nr["consumed"] >= k)
                nr["need"] = k - (len(nr["visible"]) - nr["consumed"])
                nr["consumed_in_wait"] = False
            elif not allocfail:
                V("%s: wait failed without an allocation failure" % t)
            continue
        m = RX_NRH.match(t)
        if m:
            # a wait for a length that no buffer can have (>= 2^47): the allocation is refused by the
            # allocator itself; netbuf.h's contract for that is -1, no callback, reader unchanged
            k, rc = int(m.group(1)), m.group(2)
            if rc == "skip":
                if nr["wait"] is None and nr["fd"] is not None and "nri=ok" in toks[:ti]:
                    V("%s: the driver skipped a wait although none is pending" % t)
            elif rc != "-1":
                V("%s: a wait for %d bytes (= SIZE_MAX - %d) was accepted with %d byte(s) buffered after %d consumed: "
                  "no buffer of that size can be allocated, the documented answer is -1 (an accepted wait goes on to "
                  "report 'success', i.e. that many bytes buffered)" % (t, k, 2 ** 64 - 1 - k, len(nr["visible"]) - nr["consumed"], nr["consumed"]))
            elif nr["wait"] is not None:
                V("%s: wait attempted while another is pending" % t)
            continue
        m = RX_NRCB.match(t)
        if m:
            st, ln, sh = int(m.group(1)), int(m.group(2)), m.group(3)
            if nr["wait"] is None:
                V("%s: wait callback while no wait is pending" % t)
                expect = None
                continue
            k = nr["wait"]
            if nr["imm"]:
                if st != 0 or len(nr["pending"]) > 0 or expect is not None:
                    V("%s: a wait for %d with %d bytes buffered completes by an immediate event with status 0" % (t, k, len(nr["visible"]) - nr["consumed"]))
            elif expect is None or expect[0] != "nrcb":
                if not (allocfail and st == -1):
                    V("%s: wait callback without a terminal kernel answer" % t)
            elif expect[1] != st and not (allocfail and st == -1):
                V("%s: status should be %d" % (t, expect[1]))
            expect = None
            tail = b""
            if st == 0:
                nr["visible"] += nr["pending"]
            else:
                tail = bytes(nr["pending"])     # arrived inside this wait, before the EOF / error
            nr["pending"] = bytearray()
            nr["wait"] = None
            if st == 0 and ln < k and not nr.get("consumed_in_wait"):
                V("%s: success reported with %d < %d bytes buffered" % (t, ln, k))
            observe_reader(t, "%d:%s" % (ln, sh), tail)
            if st != 0:
                nr["ended"] = True      # EOF / error reported: nothing is promised from here on
            continue
        m = RX_NRC.match(t)
        if m:
            j = int(m.group(1))
            if j > len(nr["visible"]) - nr["consumed"] and not nr["ended"]:
                V("%s: consumes more than is buffered" % t)
            nr["consumed"] += j
            if nr["wait"] is not None and j > 0:
                nr["consumed_in_wait"] = True
            continue
        if t == "nrx":
            if nr["wait"] is not None and len(nr["pending"]) > 0:
                nr["lost"] += len(nr["pending"])     # strict reading: these bytes must not vanish
            nr["wait"] = None
            nr["pending"] = bytearray()
            continue
        if t.startswith("peek="):
            observe_reader(t, t[5:])
            continue
        # ---- buffered writer
        if t.startswith("nwi="):
            continue
        m = RX_NW.match(t)
        if m:
            kind, n, rc = m.group(1), int(m.group(2)), m.group(3)
            while nw["wi"] < len(wops) and not (wops[nw["wi"]].kind == kind and
                                                (wops[nw["wi"]].j if kind == "nwc" else wops[nw["wi"]].n) == n):
                nw["wi"] += 1
            if nw["wi"] >= len(wops):
                V("%s: no such writer operation in the script" % t)
                continue
            o = wops[nw["wi"]]
            if not (allocfail and rc in ("null", "-1") and kind in ("nwr",)):
                nw["wi"] += 1
            if kind == "nwr":
                if rc != "ok" and not allocfail:
                    V("%s: reserve failed without an allocation failure" % t)
                continue
            if rc not in ("0", "-1") or (rc == "-1" and not allocfail):
                V("%s: unexpected return value" % t)
            if nw["failed"]:
                if rc != "0":
                    V("%s: writes after a failure must return 0" % t)
            elif not (kind == "nww" and rc == "-1" and allocfail == "reserve"):
                nw["accepted"] += pat_bytes(200, o.pos, n)
            continue
        if t == "fail":
            nw["nfail"] += 1
            if expect is None or expect[0] != "fail":
                if not allocfail:
                    V("fail callback without a transport failure")
                nw["fl_len"] = None
            if nw["nfail"] > 1:
                V("fail callback fired more than once")
            expect = None
            nw["failed"] = True
            continue
        if t.startswith("nfail="):
            if int(t[6:]) != nw["nfail"]:
                V("%s: %d fail callbacks were logged" % (t, nw["nfail"]))
            continue
        if t.startswith("run="):
            if not allocfail:
                V("%s: event loop reported an error" % t)
            else:
                # an allocation was refused inside the loop: a request that was told "try again" by the
                # kernel could not register itself again (network_accept.c / network_read.c / network_write.c
                # return the registration's failure).  Such a request is still the caller's to cancel but
                # holds no registration any more - C14: "a failed ... registration leaves nothing
                # registered ... and the same registration can be made again" - so a new request for the
                # same descriptor and direction may now succeed.
                maybe_free.update(slot.keys())
            continue
        if t == "skip":
            continue
        V("unexpected token " + t)
    for rid, r in req.items():
        if r["st"] == "pending" and not r.get("listed"):
            V("request %d neither completed, cancelled nor listed as pending" % rid)
    if expect is not None:
        V("terminal kernel answer without the %s that must follow" % expect[0])
    for fd in [k for k in wire if isinstance(k, int)]:
        if not wire.get("seen%d" % fd):
            V("no wire%d= line for bytes handed to send" % fd)
    if nw["fd"] is not None and not nw["failed"] and not allocfail:
        # whole stream when the transport never fails: anything accepted and not on the wire must
        # be explained by the kernel having no room left
        unsent = len(nw["accepted"]) - nw["sent"]
        if unsent > 0 and not getkq(nw["fd"], True).empty() and case.split()[-1] == "run" and \
                not any(o.kind == "nwr" for o in wops):
            V("writer holds %d unsent byte(s) although the kernel still has room scripted" % unsent)
    return bad, known


def extras_ok(extra, status, allocfail=False, config="default"):
    """impl-only tokens after 'end' and the parent's !status tokens -> list of violations"""
    bad = []
    for s in status:
        bad.append({"!LEAK": "LeakSanitizer: memory leaked by this case",
                    "!EXIT1": "sanitizer report (AddressSanitizer / UBSan / leak at exit)",
                    "!SIG6": "abort (failed assert)",
                    "!SIG13": "killed by SIGPIPE"}.get(s, ("%s block(s) allocated by the library are still live after a fatal event-loop "
                                                             "error and the library's own exit handlers (leak)" % s[5:]) if s.startswith("!LIVE")
                                                          else ("the buffer of request %s was written to after the request had completed or been "
                                                                "cancelled (it belongs to the caller again from then on)" % s[9:])
                                                          if s.startswith("!BUFTOUCH") else "child process died: " + s))
    kv = {}
    for t in extra:
        if t.startswith("nfds=") and t != "nfds=0":
            bad.append("descriptors still registered with the event loop after cleanup: " + t)
        if t == "late-activity":
            bad.append("a callback or system call happened after everything was cancelled / completed")
        if t.startswith("cbs=") and int(t[4:]) > 1:
            bad.append("connect callback invoked %s times" % t[4:])
        if "=" in t and t.split("=")[0] in ("sends", "nosig", "ign", "sigrest"):
            kv[t.split("=")[0]] = int(t.split("=")[1])
    # MSG_NOSIGNAL handling: a write to a connection the peer has shut down must not raise SIGPIPE
    if "sends" in kv:
        n = kv["sends"]
        if config == "default":
            if kv.get("nosig") != n:
                bad.append("send() called without MSG_NOSIGNAL (%d of %d calls carry the flag): a write to a closed "
                           "connection would raise SIGPIPE" % (kv.get("nosig", 0), n))
            if kv.get("sigrest") != 1:
                bad.append("the SIGPIPE disposition was changed and not put back")
        else:
            if kv.get("nosig") != 0:
                bad.append("the build for platforms without MSG_NOSIGNAL passed the flag to send()")
            if kv.get("ign") != n:
                bad.append("send() called while SIGPIPE was not ignored (%d of %d calls protected) on a platform "
                           "without MSG_NOSIGNAL" % (kv.get("ign", 0), n))
            if kv.get("sigrest") != 1:
                bad.append("the SIGPIPE disposition found before send() was not restored afterwards")
    return bad


# ------------------------------------------------------------------ independent checker for "conn" cases
PENDING = {"A": "ECONNREFUSED", "B": "ETIMEDOUT", "T": None, "K": 0, "I": 0, "J": 0}
CONNRET = {"F": "ECONNREFUSED", "H": "EHOSTUNREACH", "A": "EINPROGRESS", "B": "EINTR", "T": "EINPROGRESS",
           "K": "EINPROGRESS", "I": "0", "J": "EINTR"}


def check_conn(case, toks, extra, allocfail=False):
    bad = []

    def V(msg):
        if len(bad) < 6:
            bad.append(msg)

    _, timeo, outs, cops = case.split()
    outs = "" if outs == "-" else outs
    cops = "" if cops == "-" else cops
    if not toks or toks[-1] != "end":
        return ["log does not reach 'end' (crash or abort): ... " + " ".join(toks[-6:])]
    socks = {}          # ordinal -> {"addr":, "closed": n}
    next_addr = 0       # attempts must visit addresses 0, 1, 2, ... in order
    cbs = []
    for t in toks[:-1] + extra:
        m = re.match(r"^sockfail:a(\d+)$", t)
        if m:
            a = int(m.group(1))
            if a != next_addr:
                V("%s: addresses must be tried in list order (expected a%d)" % (t, next_addr))
            if a < len(outs) and outs[a] != "S":
                V("%s: socket() is scripted to succeed for this address" % t)
            next_addr = a + 1
            continue
        m = re.match(r"^sock(\d+):a(\d+)$", t)
        if m:
            s, a = int(m.group(1)), int(m.group(2))
            if a != next_addr:
                V("%s: addresses must be tried in list order (expected a%d)" % (t, next_addr))
            if cbs:
                V("%s: connection attempt after the callback" % t)
            next_addr = a + 1
            socks[s] = {"addr": a, "closed": 0, "gso": None}
            continue
        m = re.match(r"^fcntlfail(\d+)$", t)
        if m:
            continue
        m = re.match(r"^conn(\d+):a(\d+)=(\S+)$", t)
        if m:
            s, a, ret = int(m.group(1)), int(m.group(2)), m.group(3)
            if s not in socks or socks[s]["addr"] != a:
                V("%s: connect on a descriptor not created for this address" % t)
            elif CONNRET.get(outs[a]) != ret:
                V("%s: scripted answer is %s" % (t, CONNRET.get(outs[a])))
            continue
        m = re.match(r"^close(\d+)(:EBADF)?$", t)
        if m:
            s = int(m.group(1))
            if m.group(2) or s not in socks:
                V("%s: close of a descriptor that is not open (closed twice?)" % t)
                continue
            socks[s]["closed"] += 1
            if socks[s]["closed"] > 1:
                V("%s: descriptor closed twice" % t)
            if cbs and cbs[0] == s:
                V("%s: the descriptor handed to the callback was closed by the library" % t)
            continue
        m = re.match(r"^gso(\d+)=(\S+)$", t)
        if m:
            s, e = int(m.group(1)), m.group(2)
            if s in socks:
                socks[s]["gso"] = e
            continue
        m = re.match(r"^cb=(-?\d+)$", t)
        if m:
            v = int(m.group(1))
            cbs.append(v)
            if len(cbs) > 1:
                V("%s: second callback" % t)
                continue
            if v >= 0:
                if v not in socks or socks[v]["closed"]:
                    V("%s: callback with a descriptor that is not open" % t)
                else:
                    a = socks[v]["addr"]
                    if outs[a] not in "KIJ" or socks[v]["gso"] != "0":
                        V("%s: address a%d did not connect successfully" % (t, a))
                    if any(c in "KIJ" for c in outs[:a]):
                        V("%s: an earlier address of the list connects; the first one must win" % t)
            else:
                if next_addr < len(outs) and not allocfail:
                    V("%s: -1 reported before every address was tried (a%d .. untried)" % (t, next_addr))
                if any(c in "KIJ" for c in outs) and not allocfail:
                    # -1 is right only if the successful address was never reached, which cannot be:
                    # every earlier address fails, so it is reached
                    V("%s: -1 reported although address a%d connects" % (t, min(i for i, c in enumerate(outs) if c in "KIJ")))
            continue
        if t.startswith("start=") or t.startswith("fin=") or t.startswith("open=") or t.startswith("nfds=") or \
                t.startswith("cbs=") or t.startswith("allocs=") or t.startswith("refused=") or t.startswith("failop=") or \
                t.startswith("run=") or t == "late-activity":
            continue
        V("unexpected token " + t)
    # every descriptor except the one handed to the application is closed exactly once
    for s, d in socks.items():
        won = bool(cbs) and cbs[0] == s
        if won and d["closed"]:
            V("descriptor s%d was handed to the callback and closed" % s)
        if not won and d["closed"] != 1:
            V("descriptor s%d of a failed / abandoned attempt closed %d times" % (s, d["closed"]))
    # exactly once: how many events does the script need to deliver before completion?
    need = 0
    done_possible = True
    for c in outs:
        if c in "SNFH":
            continue
        need += 1
        if c == "T" and timeo == "0":
            done_possible = False
            break
        if c in "KIJ":
            break
    else:
        # list exhausted: the immediate event runs in the same event-loop run as the last failure,
        # or in the first run when no address ever got as far as a pending connect
        need = max(need, 1)
    steps = 0
    for c in cops:
        if c == "x":
            break
        steps += 1
    was_cancelled_early = ("x" in cops) and steps < need
    if not allocfail:
        if done_possible and steps >= need and not cbs:
            V("no callback although %d event(s) were delivered and %d suffice" % (steps, need))
        if (was_cancelled_early or steps < need or not done_possible) and cbs:
            V("callback although the attempt was cancelled / not finished")
    return bad


# ------------------------------------------------------------------ generators
def _retry_burst(r, names=("EAGAIN", "EWOULDBLOCK", "EINTR")):
    return ["e" + r.choice(names) for _ in range(r.choice([0, 0, 0, 1, 1, 2, 3]))]


def _read_feed(r, buflen, total, terminal):
    """kernel events delivering `total` bytes in random pieces with retry bursts, then terminal"""
    evs = []
    left = total
    while left > 0:
        evs += _retry_burst(r)
        n = r.choice([1, 1, 2, 3, max(1, buflen - 1), buflen, buflen + 1, 2 * buflen, r.randrange(1, left + 1), left])
        n = max(1, min(n, left))
        evs.append("d%d" % n)
        left -= n
    evs += _retry_burst(r)
    if terminal == "eof":
        evs.append("z")
    elif terminal == "err":
        evs.append("e" + r.choice(HARD_RW))
    return evs


def _write_feed(r, buflen, total, terminal):
    evs = []
    left = total
    while left > 0:
        evs += _retry_burst(r)
        n = r.choice([1, 1, 2, 3, max(1, buflen - 1), buflen, buflen + 1, 2 * buflen, r.randrange(1, left + 1), left])
        n = max(1, n)
        evs.append("n%d" % n)
        left -= min(n, left)
    evs += _retry_burst(r)
    if terminal == "err":
        evs.append("e" + r.choice(HARD_RW))
    return evs


def _chunks(r, evs):
    """split an event list into 1..3 feed+run groups"""
    k = r.choice([1, 1, 2, 3])
    cuts = sorted(r.randrange(0, len(evs) + 1) for _ in range(k - 1))
    out, a = [], 0
    for c in cuts + [len(evs)]:
        out.append(evs[a:c])
        a = c
    return out


BUFLENS = [1, 2, 3, 8, 16, 17, 64, 100, 1000, 5000]


def _pick_bm(r):
    b = r.choice(BUFLENS)
    m = r.choice([0, 1, b // 2, max(0, b - 1), b, b, r.randrange(0, b + 1)])
    return b, min(m, b)


def gen_rw(ctx, n):
    r = ctx.rng
    cases = []
    for _ in range(n):
        kind = r.choice(["read", "read", "write", "write", "chain", "both", "busy", "cbcancel", "recancel"])
        ctx.count("rw." + kind)
        toks = []
        if kind in ("read", "write"):
            b, m = _pick_bm(r)
            fd = r.choice([5, 6, 7])
            term = r.choice(["none", "none", "eof" if kind == "read" else "none", "err"])
            need = max(m, 1)
            if term == "none":
                total = r.choice([need, need, need + 1, b, b + 3, max(0, need - 1)])
            else:
                total = r.choice([0, 0, max(0, need - 1), r.randrange(0, need), need])
            ctx.count("rw.term." + term)
            evs = (_read_feed if kind == "read" else _write_feed)(r, b, total, term)
            toks.append("%s:1:%d:%d:%d" % ("r" if kind == "read" else "w", fd, b, m))
            groups = _chunks(r, evs)
            cancel_at = r.choice([None, None, None] + list(range(len(groups) + 1)))
            for gi, g in enumerate(groups):
                if cancel_at == gi:
                    toks.append("x:1")
                    ctx.count("rw.cancel")
                    if r.random() < 0.6:
                        b2, m2 = _pick_bm(r)
                        toks.append("%s:2:%d:%d:%d" % ("r" if kind == "read" else "w", fd, b2, m2))
                        ctx.count("rw.restart_after_cancel")
                if g:
                    toks.append("k:%d:%s:%s" % (fd, "r" if kind == "read" else "w", ",".join(g)))
                toks.append("run")
            if cancel_at == len(groups):
                toks.append("x:1")
        elif kind == "chain":
            fd = r.choice([5, 6])
            depth = r.choice([2, 2, 3, 4])
            rd = r.random() < 0.6
            total = 0
            spec = []
            for i in range(depth):
                b, m = _pick_bm(r)
                spec.append((b, m))
                total += r.choice([max(m, 1), b])
            s = ""
            for i, (b, m) in enumerate(spec):
                s += "%s:%d:%d:%d:%d { " % ("r" if rd else "w", i + 1, fd, b, m)
            s = s.rstrip("{ ").rstrip() + " }" * (depth - 1)
            toks += s.split()
            evs = (_read_feed if rd else _write_feed)(r, r.choice([b for b, _ in spec]), total + r.choice([0, 0, 5]),
                                                      r.choice(["none", "none", "eof" if rd else "none", "err"]))
            for g in _chunks(r, evs):
                if g:
                    toks.append("k:%d:%s:%s" % (fd, "r" if rd else "w", ",".join(g)))
                toks.append("run")
        elif kind == "both":
            fd = r.choice([5, 6])
            b1, m1 = _pick_bm(r)
            b2, m2 = _pick_bm(r)
            toks += ["r:1:%d:%d:%d" % (fd, b1, m1), "w:2:%d:%d:%d" % (fd, b2, m2)]
            ra = _chunks(r, _read_feed(r, b1, max(m1, 1), r.choice(["none", "eof", "err"])))
            wa = _chunks(r, _write_feed(r, b2, max(m2, 1), r.choice(["none", "none", "err"])))
            for i in range(max(len(ra), len(wa))):
                if i < len(ra) and ra[i]:
                    toks += ["k:%d:r:%s" % (fd, ",".join(ra[i])), "run"]
                if i < len(wa) and wa[i]:
                    toks += ["k:%d:w:%s" % (fd, ",".join(wa[i])), "run"]
        elif kind == "busy":
            fd = 5
            d = r.choice(["r", "w"])
            b, m = _pick_bm(r)
            toks += ["%s:1:%d:%d:%d" % (d, fd, b, m), "%s:2:%d:4:1" % (d, fd)]
            evs = (_read_feed if d == "r" else _write_feed)(r, b, max(m, 1), "none")
            toks += ["k:%d:%s:%s" % (fd, d, ",".join(evs)), "run", "%s:3:%d:4:1" % (d, fd)]
            toks += ["k:%d:%s:%s" % (fd, d, "d9" if d == "r" else "n9"), "run"]
        elif kind == "cbcancel":
            b, m = _pick_bm(r)
            toks += ["r:2:6:8:8", "r:1:5:%d:%d" % (b, m), "{", "x:2", "r:3:6:4:2", "}"]
            toks += ["k:6:r:d3", "run", "k:5:r:" + ",".join(_read_feed(r, b, max(m, 1), "none")), "run",
                     "k:6:r:d7", "run"]
        else:  # recancel: cancel, restart on the same descriptor several times
            fd = 7
            d = r.choice(["r", "w"])
            for i in range(1, 4):
                b, m = _pick_bm(r)
                toks.append("%s:%d:%d:%d:%d" % (d, i, fd, b, m))
                part = r.choice([0, 1, max(0, min(m, b) - 1)])
                if part:
                    toks += ["k:%d:%s:%s%d" % (fd, d, "d" if d == "r" else "n", part), "run"]
                if i < 3 or r.random() < 0.5:
                    toks.append("x:%d" % i)
        cases.append("sc " + " ".join(toks))
    return cases


GIB = 1 << 30
LINUX_MAX_RW = 0x7ffff000       # what one send()/recv() moves at most on Linux


def gen_rw_gigabytes(ctx, n):
    """single requests that complete with 2^31 bytes or more (network.h allows buflen up to SSIZE_MAX;
    a multi-gigabyte mmap()ed file written with one request): the callback's count is the true count."""
    r = ctx.rng
    cases = []
    lens = [2 ** 31 - 1, 2 ** 31, 2 ** 31 + 1, 3 * GIB, 2 ** 32 - 1, 2 ** 32, 2 ** 32 + 1, 2 ** 32 + 100, 5 * GIB,
            2 ** 33 + 7, 2 ** 32 + 2 ** 31, 2 ** 36]
    for i in range(n):
        wr = (i % 3 != 2)
        b = r.choice(lens) if r.random() < 0.85 else r.randrange(2 ** 31, 2 ** 34)
        m = r.choice([b, b, b, 1, b // 2, 2 ** 31, 2 ** 32, 2 ** 32 + 1, b - 1, r.randrange(1, b + 1)])
        m = max(1, min(m, b))
        fd = r.choice([5, 6, 7])
        style = r.choice(["linux", "linux", "one", "pieces", "pieces"])
        evs, left = [], m if r.random() < 0.7 else b
        while left > 0 and len(evs) < 60:
            evs += _retry_burst(r)
            if style == "linux":
                k = LINUX_MAX_RW
            elif style == "one":
                k = r.choice([b, b + 5, 2 ** 40])
            else:
                k = r.choice([1, 4096, 2 ** 31 - 1, 2 ** 31, 2 ** 32, GIB, r.randrange(1, 2 ** 32), left])
            k = max(1, k)
            evs.append(("n%d" if wr else "D%d") % (k if wr else min(k, left + r.choice([0, 0, 9]))))
            left -= k
        term = r.choice(["none"] * 5 + ["err", "eof"])
        if term == "err":
            evs.insert(r.randrange(0, len(evs) + 1), "e" + r.choice(HARD_RW))
        elif term == "eof" and not wr:
            evs.insert(r.randrange(0, len(evs) + 1), "z")
        toks = ["%s:1:%d:%d:%d" % ("W" if wr else "R", fd, b, m)]
        if r.random() < 0.3:
            toks += ["{", "%s:2:%d:%d:%d" % ("w" if wr else "r", fd, 8, r.choice([1, 8])), "}"]
        groups = _chunks(r, evs)
        cancel_at = r.choice([None] * 6 + [0, 1])
        for gi, g in enumerate(groups):
            if cancel_at == gi:
                toks.append("x:1")
            if g:
                toks.append("k:%d:%s:%s" % (fd, "w" if wr else "r", ",".join(g)))
            toks.append("run")
        ctx.count("rw.gigabytes." + ("write" if wr else "read"))
        cases.append("sc " + " ".join(toks))
    return cases


def gen_accept(ctx, n):
    r = ctx.rng
    cases = []
    for _ in range(n):
        toks = []
        depth = r.choice([1, 1, 2, 3])
        s = ""
        for i in range(depth):
            s += "a:%d:7 { " % (i + 1)
        s = s.rstrip("{ ").rstrip() + " }" * (depth - 1)
        toks += s.split()
        evs = []
        for i in range(depth + r.choice([0, 0, 1])):
            evs += _retry_burst(r, ("EAGAIN", "EWOULDBLOCK", "ECONNABORTED", "EINTR"))
            evs.append(r.choice(["c", "c", "c", "e" + r.choice(HARD_ACC)]))
        evs += _retry_burst(r, ("EAGAIN", "ECONNABORTED", "EINTR"))
        groups = _chunks(r, evs)
        cancel_at = r.choice([None, None, None, 0, 1, 2])
        for gi, g in enumerate(groups):
            if cancel_at == gi:
                toks.append("x:%d" % r.randrange(1, depth + 1))
                ctx.count("accept.cancel")
                if r.random() < 0.5:
                    toks.append("a:9:7")
            if g:
                toks.append("k:7:r:" + ",".join(g))
            toks.append("run")
        for e in evs:
            ctx.count("accept.ev." + (e[1:] if e[0] == "e" else "conn"))
        cases.append("sc " + " ".join(toks))
    return cases


def gen_connect(ctx, n):
    r = ctx.rng
    cases = []
    small = "SFATK"
    # every address list up to length 3 over the five basic outcomes, with and without timeout
    lists = [""]
    for ln in (1, 2, 3):
        lists += ["".join(x) for x in __import__("itertools").product(small, repeat=ln)]
    for outs in lists:
        for timeo in "01":
            cases.append("conn %s %s %s" % (timeo, outs or "-", "s" * (len(outs) + 1)))
    ctx.count("connect.exhaustive_len<=3", len(cases))
    full = "SNFHABTKIJ"
    for _ in range(n):
        ln = r.choice([1, 2, 3, 4, 5, 6, 8])
        outs = "".join(r.choice(full) for _ in range(ln))
        if r.random() < 0.3:       # make sure long all-fail lists occur
            outs = "".join(r.choice("SNFHABT") for _ in range(ln))
        timeo = r.choice("011")
        steps = ln + 1
        ops = [r.choice("sssr") for _ in range(r.choice([steps, steps, steps, r.randrange(0, steps + 1)]))]
        if r.random() < 0.35:
            ops.insert(r.randrange(0, len(ops) + 1), "x")
            ctx.count("connect.cancel")
        if "r" in ops:
            ctx.count("connect.race")
        cases.append("conn %s %s %s" % (timeo, outs, "".join(ops) or "-"))
    return cases


def _nbr_block(r, depth, state):
    """ops executed inside a wait callback: consume something, maybe wait again"""
    toks = []
    if r.random() < 0.85:
        toks.append("nrc:%d" % r.choice([0, 1, state["k"], max(0, state["k"] - 1), state["k"] + 7, 100000]))
    if r.random() < 0.15:
        toks.append("nrp")
    if depth > 0 and r.random() < 0.8:
        k = r.choice(state["sizes"])
        state["k"] = k
        state["total"] += k
        toks.append("nrw:%d" % k)
        inner = _nbr_block(r, depth - 1, state)
        if inner:
            toks += ["{"] + inner + ["}"]
    return toks


def gen_nbr(ctx, n, big_every=8):
    r = ctx.rng
    cases = []
    for i in range(n):
        big = (i % big_every == 0)
        sizes = [0, 1, 1, 2, 100, 4095, 4096, 4097, 8192] + ([100000] if big else [])
        if not big:
            sizes += [r.randrange(1, 9000)]
        state = {"k": 0, "total": 0, "sizes": sizes}
        toks = ["nri:5"]
        nwaits = r.choice([1, 2, 3, 4])
        feeds = []
        for w in range(nwaits):
            k = r.choice(sizes)
            state["k"] = k
            state["total"] += k
            toks.append("nrw:%d" % k)
            blk = _nbr_block(r, r.choice([0, 1, 2, 3]), state)
            if blk:
                toks += ["{"] + blk + ["}"]
            # arrival pattern for what has been asked so far
            total = state["total"] + r.choice([0, 0, 1, 4096, 5000])
            state["total"] = 0
            term = r.choice(["none"] * 6 + ["eof", "err"])
            ctx.count("nbr.term." + term)
            evs = []
            left = total
            while left > 0:
                evs += _retry_burst(r)
                piece = r.choice([1, 2, 100, 4095, 4096, 4097, 8192, 50000, 100000, left, r.randrange(1, left + 1)])
                piece = max(1, min(piece, left))
                evs.append("d%d" % piece)
                left -= piece
                if len(evs) > 60:
                    evs.append("d%d" % left) if left else None
                    left = 0
            if term == "eof":
                evs.insert(r.randrange(0, len(evs) + 1), "z")
            elif term == "err":
                evs.insert(r.randrange(0, len(evs) + 1), "e" + r.choice(HARD_RW))
            groups = _chunks(r, evs)
            cancel_at = r.choice([None] * 5 + [0, 1])
            for gi, g in enumerate(groups):
                if cancel_at == gi:
                    toks.append("nrx")
                    ctx.count("nbr.cancel")
                    if r.random() < 0.7:
                        toks.append("nrw:%d" % r.choice(sizes))
                if g:
                    toks.append("k:5:r:" + ",".join(g))
                toks.append("run")
            if r.random() < 0.3:
                toks.append("nrp")
            if r.random() < 0.3:
                toks.append("nrc:%d" % r.choice([0, 1, 50, 4096, 100000]))
        ctx.count("nbr.big" if big else "nbr.small")
        c = "sc " + " ".join(toks)
        if i % 4 == 1:
            c = with_huge_waits(r, c)
            ctx.count("nbr.unsatisfiable_wait", c.count(" nrh:"))
        cases.append(c)
    return cases


def gen_nbw(ctx, n, big_every=8):
    r = ctx.rng
    cases = []
    for i in range(n):
        big = (i % big_every == 0)
        sizes = [0, 0, 1, 1, 2, 100, 4095, 4096, 4097, 8192] + ([100000] if big else [r.randrange(0, 9000)])
        toks = ["nwi:6"]
        total = 0
        nops = r.choice([1, 2, 3, 5, 8])
        term = r.choice(["none"] * 5 + ["err", "err"])
        ctx.count("nbw.term." + term)
        for j in range(nops):
            c = r.random()
            if c < 0.6:
                k = r.choice(sizes)
                toks.append("nww:%d" % k)
                total += k
                ctx.count("nbw.write0" if k == 0 else "nbw.write")
            else:
                k = r.choice(sizes)
                jn = r.choice([0, k, k, k // 2, max(0, k - 1)])
                toks += ["nwr:%d" % k, "nwc:%d" % jn]
                total += jn
                ctx.count("nbw.consume0" if jn == 0 else "nbw.consume")
            if r.random() < 0.5:
                # let the transport make some progress now
                room = r.choice([1, 100, 4095, 4096, 4097, 10000, 200000])
                evs = _retry_burst(r) + ["n%d" % room]
                if term == "err" and r.random() < 0.3:
                    evs.append("e" + r.choice(HARD_RW))
                    term = "done"
                toks += ["k:6:w:" + ",".join(evs), "run"]
        evs = []
        left = total + 10
        while left > 0 and len(evs) < 80:
            evs += _retry_burst(r)
            room = r.choice([1, 7, 4095, 4096, 4097, 100000, 200000, left])
            evs.append("n%d" % max(1, room))
            left -= room
        if term == "err":
            evs.insert(r.randrange(0, len(evs) + 1), "e" + r.choice(HARD_RW))
        toks += ["k:6:w:" + ",".join(evs), "run"]
        if r.random() < 0.4:
            toks += ["nww:%d" % r.choice(sizes), "run"]
        cases.append("sc " + " ".join(toks))
    return cases


def corpus_cases(prefixes):
    """corpus/net/<prefix>*.case, one case per line; run before the generated cases"""
    import glob
    import os
    out = []
    for p in sorted(glob.glob(os.path.join(vlib.VERIF, "corpus", "net", "*.case"))):
        if not os.path.basename(p).startswith(tuple(prefixes)):
            continue
        for line in open(p):
            line = line.strip()
            if line and not line.startswith("#"):
                out.append(line)
    return out


# ------------------------------------------------------------------ the sub-checks
def _replay_cases(ctx, sub):
    """./check <id> --replay <file>: only the cases of this sub-check recorded in the replay file"""
    rep = getattr(ctx, "replay", None)
    if not rep:
        return None
    return [f["case"] for f in rep.get("failures", []) if f.get("sub") == sub and f.get("case")]


def to_ctx_mode(case):
    """sc ... -> scx ...: the same scenario with the netbuf objects on the context transport"""
    t = case.split(None, 1)
    return case if t[0] != "sc" else "scx" + (" " + t[1] if len(t) > 1 else "")


def to_plain_mode(case):
    t = case.split(None, 1)
    return case if t[0] != "scx" else "sc" + (" " + t[1] if len(t) > 1 else "")


HUGE_MIN = 1 << 47      # lengths from here on cannot be allocated on this platform (wrap_net.c FK_UNSATISFIABLE)


def strip_huge(case):
    """the scenario without its nrh:<len> operations.  The model's lengths are unary numbers, so it is
    not asked about a wait for 2^64-1 bytes; what it does define (NetbufRead.nbr_wait with the
    allocation refused: `Ok None => Ok (R, None)`, proved as wait_failure_lemma) is that such a wait
    returns -1 and leaves the reader as it was.  So: the implementation's log of the scenario, minus
    its nrh tokens (each of which must read -1), has to be the model's log of the scenario without
    those operations."""
    if " nrh:" not in case:
        return case
    return " ".join(t for t in case.split() if not t.startswith("nrh:"))


def no_model(case):
    """requests over gigabytes (R: / W:): the model defines them (its counts are unbounded) but its runner
    would have to build the byte lists; these cases are judged by the independent evaluator alone,
    which checks the same clauses (exactly one callback, its value = the bytes moved, min <= n <=
    buflen, every recv / send asks for exactly the rest at the current offset)"""
    return " R:" in case or " W:" in case


def strip_huge_log(core):
    if " nrh" not in core:
        return core
    return " ".join(t for t in core.split() if not RX_NRH.match(t))


def _huge_len(r, consumed):
    """a wait length that cannot be buffered: SIZE_MAX - j around what has been consumed, and other
    landmarks of size_t"""
    top = 2 ** 64 - 1
    c = consumed
    return r.choice([top, top, top - 1, top - 2, top - 3, top - 7, top - r.randrange(0, 64),
                     top - max(0, c - 1), top - c, top - (c + 1), top - r.randrange(0, max(1, c)),
                     top - 4095, top - 4096, top - 100000, top - (2 ** 32), 2 ** 64 - 2 ** 32, 2 ** 63, 2 ** 63 - 1,
                     2 ** 63 + 1, 2 ** 63 + c, 2 ** 62, 2 ** 48, 2 ** 47, 2 ** 47 + r.randrange(0, 5000)])


def with_huge_waits(r, case, p=0.5):
    """insert nrh:<len> after consume operations (top level and inside callback blocks: places where
    the read pointer has usually moved) and before other reader operations"""
    out = []
    consumed = 0
    for t in case.split():
        if t.startswith("nrw:") and r.random() < p * 0.3:
            out.append("nrh:%d" % _huge_len(r, consumed))
        out.append(t)
        if t.startswith("nrc:"):
            consumed = int(t[4:])
            if r.random() < p:
                out.append("nrh:%d" % _huge_len(r, consumed))
                if r.random() < 0.2:
                    out.append("nrh:%d" % _huge_len(r, consumed))
    return " ".join(out)


CONFIG_TEXT = {"default": "", "posixfail": " [network_write.c built -DPOSIXFAIL_MSG_NOSIGNAL]"}
BOTH_CONFIGS = ("; every plain scenario is also run on a second build of the driver with network_write.c compiled "
                "-DPOSIXFAIL_MSG_NOSIGNAL on a host made to look as if it had no MSG_NOSIGNAL (send flag 0, SIGPIPE "
                "ignored around send, errno saved over the restoring signal()); the scripted poll()/signal() leave a "
                "rotating errno behind, so a send() failure classified on a stale errno is visible; flags of every "
                "send() checked per configuration; same model log for both")


def _run(ctx, sub, cases, checker, rule, also_ctx=(), configs=("default",)):
    """also_ctx: the (plain) cases that are run a second time over the context transport.
    configs: build configurations of network_write.c the plain cases are run on (the context-mode
    repeats run on the first one only)."""
    if len(configs) == 1:
        exe, mexe = build(ctx, sub)
        exes = {configs[0]: exe}
    else:
        exe, mexe, exes = build(ctx, sub, configs)
    if not exe or not mexe:
        return
    cases = list(cases) + [to_ctx_mode(c) for c in also_ctx]
    rc = _replay_cases(ctx, sub)
    if rc is not None:
        if not rc:
            return
        cases = list(dict.fromkeys(rc))
    if also_ctx or rc is not None:
        ctx.count(sub + ".mode.plain", sum(1 for c in cases if not c.startswith("scx ")))
        ctx.count(sub + ".mode.context", sum(1 for c in cases if c.startswith("scx ")))
    # one model log per scenario, whatever the transport mode / build configuration of the implementation run
    plain = [strip_huge(to_plain_mode(c)) for c in cases]
    uniq = list(dict.fromkeys(c for c in plain if not no_model(c)))
    import threading
    runs = {}

    def impl_run(cfg, cs):
        runs[cfg] = vlib.run_sharded(exes[cfg], cs, env=ASAN_ENV)

    per_cfg = {cfg: (cases if (i == 0 or rc is not None) else [c for c in cases if not c.startswith("scx ")])
               for i, cfg in enumerate(configs)}
    ths = [threading.Thread(target=impl_run, args=(cfg, per_cfg[cfg])) for cfg in configs]
    ths.append(threading.Thread(target=lambda: runs.__setitem__("model", vlib.run_sharded(mexe, uniq))))
    for t in ths:
        t.start()
    for t in ths:
        t.join()
    mout, _ = runs["model"]
    if len(mout) != len(uniq):
        ctx.fail(sub, "crash", "", "output count mismatch model=%d cases=%d" % (len(mout), len(uniq)))
        return
    mlog = dict(zip(uniq, mout))
    nd = 0
    nk = {}
    nontrivial = set()
    for cfg in configs:
        ccases = per_cfg[cfg]
        impl, st = runs[cfg]
        tag = CONFIG_TEXT.get(cfg, " [" + cfg + "]")
        if len(configs) > 1:
            ctx.count(sub + ".config." + cfg, len(ccases))
        for c, a in zip(ccases, impl):
            core, extra, status = split_impl(a)
            m = core if no_model(c) else mlog[strip_huge(to_plain_mode(c))]
            toks = core.split()
            viol, known = checker(c, toks, extra)
            viol = list(viol) + extras_ok(extra, status, config=cfg)
            nontrivial.add((c.split()[0], re.sub(r"\d+", "#", core)[:400]))
            if viol:
                nd += 1
                if nd <= 4:
                    ctx.fail(sub, "property", c, "; ".join(viol[:3]) + tag + " || impl=" + a[:400], property_fails=True)
            elif strip_huge_log(core) != m:
                nd += 1
                if nd <= 4:
                    ctx.fail(sub, "diff", c, "impl%s=%s model=%s" % (tag, core[:500], m[:500]), property_fails=False)
            for sig, text in (known or []):
                nk[sig] = nk.get(sig, 0) + 1
                if nk[sig] <= 1:
                    ctx.fail(sub, "property", c, text + " || impl=" + a[:300], property_fails=True, signature=sig)
        if len(impl) != len(ccases):
            ctx.fail(sub, "crash", "", "output count mismatch impl%s=%d cases=%d" % (tag, len(impl), len(ccases)))
        for r, err in st:
            if r != 0:
                ctx.fail(sub, "crash", "", "driver%s exit rc=%d: %s" % (tag, r, err[-300:]), property_fails=True)
    ctx.count(sub + ".disagreements", nd)
    for sig, k in nk.items():
        ctx.count("nbr." + sig.split(".")[-1], k)
    allc = [c for cfg in configs for c in per_cfg[cfg]]
    ctx.record(sub, allc, nontrivial, rule, samples=[cases[0], cases[-1]])


def _sc_checker(c, toks, extra):
    return check_sc(c, toks)


def _conn_checker(c, toks, extra):
    return check_conn(c, toks, extra), []


def check_net_rw(ctx):
    cases = corpus_cases(("rw_",)) + gen_rw(ctx, ctx.n(1500, 40000)) + gen_rw_gigabytes(ctx, ctx.n(150, 3000))
    _run(ctx, "net_rw", cases, _sc_checker,
         "network_read / network_write requests with (buflen, min) from a boundary list, kernel answers in random "
         "pieces with EAGAIN/EWOULDBLOCK/EINTR bursts, EOF and hard errors at any offset, cancel at chosen instants, "
         "back-to-back requests from inside callbacks, read+write on one descriptor; single requests of 2^31-1 .. 2^36 bytes "
         "(unbacked buffers, a kernel that moves at most 0x7ffff000 bytes per call or everything at once; these are judged "
         "by the independent evaluator only); impl log diffed against the "
         "extracted model and checked by an independent predicate evaluator; non-trivial = distinct log shape" +
         BOTH_CONFIGS, configs=("default", "posixfail"))


def check_net_connect(ctx):
    cases = corpus_cases(("conn_",)) + gen_connect(ctx, ctx.n(700, 20000))
    _run(ctx, "net_connect", cases, _conn_checker,
         "network_connect / network_connect_timeo over every address list of length <= 3 on {fail-now (socket), "
         "fail-now (connect), async error, timeout, ok} and random longer lists on 10 outcome kinds, steps / timer "
         "races / cancel at every instant; sockets closed, attempts, callbacks checked independently")


def check_net_accept(ctx):
    cases = corpus_cases(("acc_",)) + gen_accept(ctx, ctx.n(500, 12000))
    _run(ctx, "net_accept", cases, _sc_checker,
         "network_accept with retry bursts (EAGAIN, EWOULDBLOCK, ECONNABORTED, EINTR), hard errors, chained accepts "
         "from inside the callback, cancel")


def _second_mode(ctx, corpus, gen):
    """the cases that are run over the context transport as well: the whole corpus and CTX_SHARE
    of the generated cases (every CTX_STRIDE-th is left out in the quick tier to bound the time)"""
    if ctx.quick and CTX_STRIDE_QUICK > 1:
        gen = [c for i, c in enumerate(gen) if i % CTX_STRIDE_QUICK != CTX_STRIDE_QUICK - 1]
    return corpus + gen


CTX_STRIDE_QUICK = 1     # 1 = every generated case in both modes also in the quick tier

BOTH_MODES = ("; every scenario is run twice, with the object attached to a descriptor (network_read / "
              "network_write branch) and to a context transport (netbuf_*_init2(-1, ctx): the "
              "netbuf_*_ssl_func branch used for TLS), both logs against the one model log")


def check_netbuf_read(ctx):
    corpus, gen = corpus_cases(("nbr_", "cancel_partial_loss", "eof_partial_loss")), gen_nbr(ctx, ctx.n(700, 20000))
    _run(ctx, "netbuf_read", corpus + gen, _sc_checker,
         "netbuf reader: wait/peek/consume/cancel scripts (also from inside the wait callback) with k from "
         "{0,1,4095,4096,4097,8192,100000,random} against arrival segmentations down to one byte, EOF and errors at "
         "any position; every peek compared with the peer stream by an independent evaluator" + BOTH_MODES,
         also_ctx=_second_mode(ctx, corpus, gen))


def check_netbuf_write(ctx):
    corpus, gen = corpus_cases(("nbw_",)), gen_nbw(ctx, ctx.n(700, 20000))
    _run(ctx, "netbuf_write", corpus + gen, _sc_checker,
         "netbuf writer: write / reserve+consume with sizes {0,1,4095,4096,4097,8192,100000,random}, partial sends, "
         "retry bursts, transport failure at any position; wire = prefix of concat(writes), fail callback once" +
         BOTH_MODES + BOTH_CONFIGS, also_ctx=_second_mode(ctx, corpus, gen), configs=("default", "posixfail"))


# ------------------------------------------------------------------ two writers alive at the same time
MW_FDS = (6, 8)
MW_POS1 = 1000000        # stream position at which the second writer's pattern starts (the streams differ)


def gen_multi_writer(ctx, n):
    """two buffered writers on two descriptors, operations interleaved: in particular reservations that
    overlap in time (W0.reserve W1.reserve W0.consume W1.consume and the other orders), with data
    queued or in flight before, sizes below and above the 4096-byte buffer, a transport failure on
    one of them.  Well-formed by construction (no operation is skipped by the driver): a writer is
    not written to while it holds a reservation, the event loop is not run while any does."""
    r = ctx.rng
    cases = []
    for i in range(n):
        sizes = [0, 1, 2, 50, 100, 150, 4000, 4095, 4096, 4097, 8192, r.randrange(0, 9000)] + ([100000] if i % 8 == 0 else [])
        fds = list(MW_FDS) if r.random() < 0.7 else list(MW_FDS[::-1])     # which descriptor polls first
        pfx = ["n", "m"]
        toks = ["nwi:%d" % fds[0], "mwi:%d" % fds[1], "mwo:%d" % MW_POS1]
        res = [None, None]
        total = [0, 0]
        failing = r.choice([None] * 4 + [0, 1])

        def feed(k, final=False):
            evs = _retry_burst(r)
            left = (total[k] + 10) if final else r.choice([1, 100, 4095, 4096, 4097, 10000, 200000])
            while left > 0 and len(evs) < 40:
                room = r.choice([1, 7, 4095, 4096, 4097, 100000, left]) if final else left
                evs.append("n%d" % max(1, room))
                left -= max(1, room)
                evs += _retry_burst(r)
            return "k:%d:w:%s" % (fds[k], ",".join(evs))

        def consume(k):
            kk = res[k]
            j = r.choice([kk, kk, kk, kk // 2, max(0, kk - 1), 0])
            toks.append("%swc:%d" % (pfx[k], j))
            total[k] += j
            res[k] = None

        shape = r.choice(["overlap", "overlap", "overlap", "random", "random"])
        ctx.count("multi_writer." + shape)
        if shape == "overlap":
            # optional preamble: data queued / in flight on either writer
            for k in (0, 1):
                if r.random() < 0.5:
                    a = r.choice(sizes)
                    toks.append("%sww:%d" % (pfx[k], a))
                    total[k] += a
            if r.random() < 0.4:
                toks += [feed(0), feed(1), "run"]
            for rep in range(r.choice([1, 1, 2, 3])):
                order = r.choice([(0, 1, 0, 1), (0, 1, 1, 0), (1, 0, 0, 1), (1, 0, 1, 0)])
                for k in order[:2]:
                    res[k] = r.choice(sizes)
                    toks.append("%swr:%d" % (pfx[k], res[k]))
                for k in order[2:]:
                    consume(k)
                    if r.random() < 0.3 and res[1 - k] is not None:
                        pass
                if r.random() < 0.6:
                    toks += [feed(0), feed(1), "run"]
        else:
            for step in range(r.choice([3, 5, 8, 12])):
                k = r.choice([0, 1])
                c = r.random()
                if res[k] is not None:
                    consume(k)
                elif c < 0.45:
                    res[k] = r.choice(sizes)
                    toks.append("%swr:%d" % (pfx[k], res[k]))
                elif c < 0.8:
                    a = r.choice(sizes)
                    toks.append("%sww:%d" % (pfx[k], a))
                    total[k] += a
                elif res[0] is None and res[1] is None:
                    toks += [feed(r.choice([0, 1])), "run"]
        for k in (0, 1):
            if res[k] is not None:
                consume(k)
        for k in r.choice([(0, 1), (1, 0)]):
            f = feed(k, final=True)
            if failing == k:
                evs = f.split(":", 3)[3].split(",")
                evs.insert(r.randrange(0, len(evs) + 1), "e" + r.choice(HARD_RW))
                f = "k:%d:w:%s" % (fds[k], ",".join(evs))
                ctx.count("multi_writer.transport_failure")
            toks.append(f)
        toks.append("run")
        if r.random() < 0.3:
            k = r.choice([0, 1])
            toks += ["%sww:%d" % (pfx[k], r.choice(sizes)), "k:%d:w:n200000" % fds[k], "run"]
        cases.append("sc " + " ".join(toks))
    return cases


def mw_solo(case, k):
    """the scenario of writer k alone, in the single-writer grammar: its own operations, the kernel
    script of its own descriptor, every run of the event loop"""
    toks = case.split()
    fd = None
    for t in toks:
        if t.startswith(("nwi:", "mwi:")[k]):
            fd = int(t[4:])
    out = [toks[0]]
    for t in toks[1:]:
        if t == "run":
            out.append(t)
        elif t.startswith("k:"):
            if int(t.split(":")[1]) == fd:
                out.append(t)
        elif t[:2] == ("nw", "mw")[k] and t[3:4] == ":":
            out.append("n" + t[1:])
        elif t[:2] in ("nw", "mw") and t[3:4] == ":":
            pass
        else:
            out.append(t)        # anything else belongs to both (there is nothing else in generated cases)
    return " ".join(out), fd


def mw_project(core, k, fds):
    """the part of the implementation's log that speaks about writer k (on descriptor fds[k])"""
    out = []
    for t in core.split():
        m = re.match(r"^[SR](\d+):", t) or re.match(r"^wire(\d+)=", t) or re.match(r"^left(\d+)=", t)
        if m:
            if int(m.group(1)) == fds[k]:
                out.append(t)
            elif int(m.group(1)) != fds[1 - k]:
                out.append(t)
            continue
        if re.match(r"^nw[iwrc]", t) or t == "fail" or t.startswith("nfail="):
            if k == 0:
                out.append(t)
            continue
        if re.match(r"^mw[iwrc]", t) or t == "mfail" or t.startswith("mnfail="):
            if k == 1:
                out.append("n" + t[1:] if t.startswith("mw") else t[1:])
            continue
        out.append(t)
    return " ".join(out)


def check_netbuf_multi(ctx):
    sub = "netbuf_multi"
    exe, mexe = build(ctx, sub)
    if not exe or not mexe:
        return
    cases = corpus_cases(("nbm_",)) + gen_multi_writer(ctx, ctx.n(500, 15000))
    cases += [to_ctx_mode(c) for c in cases]
    rc = _replay_cases(ctx, sub)
    if rc is not None:
        if not rc:
            return
        cases = list(dict.fromkeys(rc))
    solos = {}
    for c in cases:
        for k in (0, 1):
            sc_, fd = mw_solo(to_plain_mode(c), k)
            solos[(c, k)] = (sc_, fd)
    uniq = list(dict.fromkeys(v[0] for v in solos.values()))
    import threading
    runs = {}
    ths = [threading.Thread(target=lambda: runs.__setitem__("impl", vlib.run_sharded(exe, cases, env=ASAN_ENV))),
           threading.Thread(target=lambda: runs.__setitem__("model", vlib.run_sharded(mexe, uniq)))]
    for t in ths:
        t.start()
    for t in ths:
        t.join()
    impl, st = runs["impl"]
    mout, _ = runs["model"]
    if len(mout) != len(uniq) or len(impl) != len(cases):
        ctx.fail(sub, "crash", "", "output count mismatch impl=%d/%d model=%d/%d" % (len(impl), len(cases), len(mout), len(uniq)))
        return
    mlog = dict(zip(uniq, mout))
    nd = 0
    keys = set()
    for c, a in zip(cases, impl):
        core, extra, status = split_impl(a)
        viol = extras_ok(extra, status)
        fds = (solos[(c, 0)][1], solos[(c, 1)][1])
        diff = None
        if "skip" in core.split():
            viol.append("the driver skipped an operation of a well-formed two-writer scenario")
        for k in (0, 1):
            solo, fd = solos[(c, k)]
            proj = mw_project(core, k, fds)
            v, known = check_sc(solo, proj.split())
            viol += ["writer %d (fd %d): %s" % (k, fd, x) for x in v]
            if not v and proj != mlog[solo] and diff is None:
                diff = "writer %d (fd %d), which the other writer must not influence: its part of the log=%s || model of this writer alone (%s)=%s" % (
                    k, fd, proj[:400], solo[:300], mlog[solo][:400])
        keys.add((c.split()[0], re.sub(r"\d+", "#", core)[:400]))
        if viol:
            nd += 1
            if nd <= 4:
                ctx.fail(sub, "property", c, "; ".join(viol[:3]) + " || impl=" + a[:500], property_fails=True)
        elif diff:
            nd += 1
            if nd <= 4:
                ctx.fail(sub, "diff", c, diff, property_fails=False)
    for r_, err in st:
        if r_ != 0:
            ctx.fail(sub, "crash", "", "driver exit rc=%d: %s" % (r_, err[-300:]), property_fails=True)
    ctx.count(sub + ".disagreements", nd)
    ctx.record(sub, cases, keys,
               "two buffered writers alive at the same time on two descriptors, operations interleaved - reservations that "
               "overlap in time in every order (W0.reserve W1.reserve W0.consume W1.consume ...), data queued or in flight, "
               "sizes around WBUFLEN, a transport failure on one of them; both transports.  The log is projected on each writer "
               "(its calls, the sends on its descriptor, its wire, its failure callback) and each projection is compared with "
               "the extracted model's run of that writer alone and judged by the independent evaluator: each peer receives "
               "exactly its own writer's bytes", samples=[cases[0], cases[-1]])


SUBCHECKS = {"C06": [check_net_rw, check_net_connect, check_net_accept],
             "C07": [check_netbuf_read, check_netbuf_write, check_netbuf_multi]}


# ------------------------------------------------------------------ C14: fail the k-th allocation
AF_BASE = [
    "sc r:1:5:10:3 k:5:r:d2,eEAGAIN,d4 run",
    "sc w:1:6:20:20 k:6:w:n5,eEAGAIN,n100 run",
    "sc r:1:5:10:10 { r:2:5:4:4 } k:5:r:d7,eEINTR,d9 run k:5:r:z run",
    "sc r:1:5:8:8 w:2:5:6:6 k:5:r:d3 run x:1 r:3:5:4:1 k:5:r:d9 run k:5:w:n6 run",
    "sc a:1:7 { a:2:7 } k:7:r:eECONNABORTED,eEINTR,c run k:7:r:eEMFILE run",
    "sc nri:5 nrw:10 { nrc:10 nrw:5000 { nrc:4000 } } k:5:r:d6,d6 run k:5:r:d4096,d4096 run nrw:1 run",
    "sc nri:5 nrw:4090 { nrc:4090 nrw:100 } k:5:r:d4095 run k:5:r:d1000 run nrx nrw:3 run",
    "sc nwi:6 nww:10 nww:0 nww:5000 nwr:100 nwc:50 k:6:w:n10,n4096,n100000 run k:6:w:n100000 run",
    # F6: a write in flight, then an allocation refused in reserve, then the completion
    "sc nwi:6 nww:10 nww:5000 k:6:w:n10,n5000 run nww:3 k:6:w:n3 run",
    "sc nwi:6 nww:4096 nwr:1 nwc:1 nww:9000 k:6:w:n4096,eEAGAIN,n1,n9000 run",
    "sc nwi:6 nww:10 nww:20 k:6:w:eECONNRESET run nww:5 nwr:5000 nwc:10 run",
    "conn 1 SFAK ssss", "conn 0 - s", "conn 1 TTK sss", "conn 0 AK ss", "conn 1 NHBJ sx",
    "conn 1 AAK rrr", "conn 0 K x", "conn 1 FFF s",
]

AF_RETRY = [("r", "=null", "=ok"), ("w", "=null", "=ok"), ("a", "=null", "=ok"), ("nri", "=null", "=ok"),
            ("nrw", "=-1", "=0"), ("nwr", "=null", "=ok"), ("nwi", "=null", "=ok"), ("start", "=null", "=ok")]


def _collapse_retry(toks):
    """drop a reported failure that is immediately followed by the successful retry of the same op"""
    out, i = [], 0
    while i < len(toks):
        t = toks[i]
        if i + 1 < len(toks):
            for pre, bad, good in AF_RETRY:
                if t.startswith(pre) and t.endswith(bad) and toks[i + 1] in (t[:-len(bad)] + good, t):
                    t = None
                    break
        if t is not None:
            out.append(t)
        i += 1
    return out


def _unsatisfiable_waits(ctx, sub, exe, q):
    """allocations refused by the allocator itself rather than by injection: netbuf_read_wait for
    lengths of 2^47 .. SIZE_MAX bytes at every state of the reader (read pointer moved, buffer grown,
    inside callbacks).  Expected: -1 from the call, no callback for it, and the rest of the run
    exactly the run of the same scenario without these calls (reader unchanged and usable)."""
    r = q.rng
    hb = corpus_cases(("nbr_huge",)) + [with_huge_waits(r, c, p=0.9) for c in gen_nbr(q, ctx.n(80, 1500), big_every=10 ** 9)]
    hb = [c for c in hb if " nrh:" in c]
    hb += [to_ctx_mode(c) for c in hb]
    rc = _replay_cases(ctx, sub)
    if rc is not None:
        hb = [c for c in hb if c in rc] + [c for c in rc if " nrh:" in c and not c.startswith("af=")]
        hb = list(dict.fromkeys(hb))
    if not hb:
        return
    out, st = vlib.run_sharded(exe, hb + [strip_huge(c) for c in hb], env=ASAN_ENV)
    if len(out) != 2 * len(hb):
        ctx.fail(sub, "crash", "", "output count mismatch (unsatisfiable waits) %d for %d cases" % (len(out), 2 * len(hb)))
        return
    nd = 0
    keys = set()
    for c, a, b in zip(hb, out[:len(hb)], out[len(hb):]):
        core, extra_t, status = split_impl(a)
        bcore, _, bstatus = split_impl(b)
        viol, _ = check_sc(c, core.split())
        viol = list(viol) + extras_ok(extra_t, status)
        if not viol and not bstatus and strip_huge_log(core) != bcore:
            viol.append("apart from the refused waits the run differs from the run of the same scenario without them "
                        "(a refused wait must leave the reader as it was): without=" + bcore[:300])
        keys.add(re.sub(r"\d+", "#", core)[:300])
        ctx.count("allocfail.unsatisfiable_wait", core.count("=-1"))
        if viol:
            nd += 1
            if nd <= 3:
                ctx.fail(sub, "property", c, "; ".join(viol[:3]) + " || impl=" + a[:500], property_fails=True)
    for rc_, err in st:
        if rc_ != 0:
            ctx.fail(sub, "crash", "", "driver exit rc=%d: %s" % (rc_, err[-300:]), property_fails=True)
    ctx.record(sub + ".unsatisfiable", hb, keys,
               "netbuf_read_wait for lengths the allocator itself refuses (2^47 .. SIZE_MAX, SIZE_MAX - j around the number of "
               "bytes consumed) at every state of a reader - read pointer moved, buffer grown, inside callbacks, both transports: "
               "-1, no callback, rest of the run equal to the run without these calls", samples=hb[:1])


def check_net_allocfail(ctx):
    sub = "net_allocfail"
    exe, mexe = build(ctx, sub)
    if not exe:
        return
    r = ctx.rng
    base = list(AF_BASE)
    # a few generated small scenarios as well
    class Quiet:
        rng = r

        def count(self, *a, **k):
            pass
    q = Quiet()
    extra = gen_rw(q, 12) + gen_accept(q, 4) + gen_nbw(q, 40, big_every=10 ** 9)[:8] + gen_nbr(q, 40, big_every=10 ** 9)[:8]
    extra = [c for c in extra if len(c) < 400 and "100000" not in c]
    base += extra + gen_connect(q, 6)[-6:]
    # the netbuf scenarios a second time over the context transport (the other branch of
    # netbuf_read.c / netbuf_write.c; the forwarding transport allocates nothing itself)
    nplain = len(base)
    base += [to_ctx_mode(c) for c in base if c.startswith("sc ") and ("nri:" in c or "nwi:" in c)]
    ctx.count("allocfail.base_cases.context_transport", len(base) - nplain)
    base_out, st0 = vlib.run_sharded(exe, base, env=ASAN_ENV)
    plain_base = {c: a for c, a in zip(base[:nplain], base_out[:nplain])}
    cases, ref = [], []
    for c, a in zip(base, base_out):
        core, extra_t, status = split_impl(a)
        if c.startswith("scx ") and a != plain_base.get(to_plain_mode(c)):
            ctx.fail(sub, "property", c, "the run over the context transport differs from the run of the same scenario "
                     "on a descriptor: ctx=%s || plain=%s" % (a[:300], (plain_base.get(to_plain_mode(c)) or "")[:300]),
                     property_fails=True)
        m = re.search(r"allocs=(\d+)", a)
        if status or not m:
            ctx.fail(sub, "crash", c, "baseline run failed: " + a[-300:], property_fails=True)
            continue
        n = int(m.group(1))
        ks = list(range(1, n + 1))
        if ctx.quick and len(ks) > 14:
            ks = sorted(r.sample(ks, 14))
        for k in ks:
            cases.append("af=%d %s" % (k, c))
            ref.append((c, core))
        for k in ([1, max(1, n // 2)] if ctx.quick else ks[::2]):
            cases.append("af=%dp %s" % (k, c))
            ref.append((c, core))
        ctx.count("allocfail.base_cases")
    _unsatisfiable_waits(ctx, sub, exe, q)
    rc = _replay_cases(ctx, sub)
    if rc is not None:
        keep = [i for i, ac in enumerate(cases) if ac in rc]
        cases, ref = [cases[i] for i in keep], [ref[i] for i in keep]
        if not cases:
            return
    out, st = vlib.run_sharded(exe, cases, env=ASAN_ENV)
    nd = 0
    nontrivial = set()
    for ac, (c, base_core), a in zip(cases, ref, out):
        core, extra_t, status = split_impl(a)
        toks = core.split()
        persist = ac.split()[0].endswith("p")
        viol = extras_ok(extra_t, status)
        m = re.search(r"refused=(\d+) failop=(-?\d+)", a)
        if "abandon" in toks:
            ctx.count("allocfail.abandon")
            if status:
                viol.append("crash after a fatal event-loop error")
        elif not m:
            viol.append("no trailer (crash?)")
        else:
            refused, failop = int(m.group(1)), int(m.group(2))
            if refused == 0:
                ctx.count("allocfail.not_reached")
                if core != base_core:
                    viol.append("run without any refusal differs from the baseline")
            else:
                where = "eventloop" if failop == -2 else "api"
                ctx.count("allocfail." + ("persistent" if persist else where))
                if c.startswith("conn"):
                    ctoks = toks
                    if "start=null" in toks and not persist:
                        # the refused network_connect: whatever it opened must be closed again; the
                        # retried call is then judged on its own (descriptor ordinals renumbered)
                        i = toks.index("start=null")
                        pre, ctoks = toks[:i], toks[i + 1:]
                        opened = [int(x) for t in pre for x in re.findall(r"^sock(\d+):", t)]
                        closed = [int(x) for t in pre for x in re.findall(r"^close(\d+)$", t)]
                        if sorted(opened) != sorted(closed):
                            viol.append("the refused network_connect left descriptors open: opened %s closed %s" % (opened, closed))
                        off = len(opened)
                        ctoks = [re.sub(r"^(sock|conn|close|gso|fcntlfail|cb=)(\d+)", lambda m: m.group(1) + str(int(m.group(2)) - off), t)
                                 for t in ctoks]
                        if ctoks != base_core.split():
                            viol.append("after the refused network_connect was retried the run differs from the baseline: " + " ".join(ctoks)[:200])
                    viol += check_conn(c, ctoks, extra_t, allocfail=True)
                    reported = ("start=null" in toks) or any(t.startswith("run=") for t in toks) or "cb=-1" in toks
                else:
                    v1, _ = check_sc(c, toks, allocfail="accept")
                    if v1:
                        v2, _ = check_sc(c, toks, allocfail="reserve")
                        v1 = v2 if not v2 else v1
                    viol += v1
                    reported = any(t.endswith("=null") or t.endswith("=-1") or t == "fail" or re.match(r"^(cb\d+=-1|nrcb=-1)", t) for t in toks)
                if not reported and not persist:
                    # a refusal that nobody reports must at least be harmless: same behaviour
                    if _collapse_retry(toks) != base_core.split():
                        viol.append("an allocation was refused, nothing reported it and the behaviour changed")
                if where == "api" and not persist and c.startswith("sc") and "nww" not in c and "nwc" not in c:
                    # failure reported by a registration-type call: after the retry everything is as
                    # in the run without failure (nothing was left registered, state unchanged)
                    if _collapse_retry(toks) != base_core.split():
                        viol.append("after the failed call was retried the run differs from the baseline: " +
                                    " ".join(_collapse_retry(toks))[:200])
        nontrivial.add(re.sub(r"\d+", "#", core)[:300])
        if viol:
            nd += 1
            if nd <= 4:
                ctx.fail(sub, "property", ac, "; ".join(viol[:3]) + " || impl=" + a[:500], property_fails=True)
    for rc, err in st:
        if rc != 0:
            ctx.fail(sub, "crash", "", "driver exit rc=%d: %s" % (rc, err[-300:]), property_fails=True)
    ctx.count(sub + ".disagreements", nd)
    ctx.record(sub, cases, nontrivial,
               "for %d scenarios (read/write/accept/connect/netbuf reader/writer, the netbuf ones on a descriptor "
               "and over the context transport): fail the k-th library "
               "allocation for every k (quick: up to 14 sampled k per scenario) and persistently from k on; "
               "checked: failure reported (NULL/-1/callback -1/run -1), no abort, no sanitizer report, no leak "
               "(LeakSanitizer per case), nothing left registered, retried call gives the baseline run" % len(base),
               samples=[cases[0], cases[-1]] if cases else [])


SUBCHECKS["C14"] = [check_net_allocfail]
