"""util/json.c (json_find): correspondence of the C with the extracted model and the spec.

C15  check_json_safety : arbitrary / truncated / mutated byte strings in exact-size heap blocks under
                         ASan+UBSan; result must be an offset in [0, len] and equal the model's
                         (which is proved never to fault, JsonSafe.v).
C17  check_json_find   : generated valid objects with explicit layout (whitespace at every place the
                         grammar allows, escape choices, \\u, duplicate/prefix keys, nesting <= 6);
                         impl = model = find_spec (Coq spec evaluated on the abstract document whose
                         Coq rendering must be the very bytes given to the C) = the generator's own
                         bookkeeping; strict documents are also validated with Python's json module.
"""
import glob
import json as pyjson
import os

import vlib

WS = b" \t\r\n"
ESC = {0x22: 0x22, 0x5C: 0x5C, 0x2F: 0x2F, 0x62: 8, 0x66: 12, 0x6E: 10, 0x72: 13, 0x74: 9}   # escape char -> value
REV = {v: k for k, v in ESC.items()}                                                     # value -> escape char
NUMCH = b"+-0123456789.eE"


def hx(bs):
    bs = bytes(bs)
    return bs.hex() if bs else "-"


# ----------------------------------------------------------------------------------------------
# abstract documents with layout (mirrors JsonSpec.jvalue)
#   ('L', 'F'|'Z'|'T') | ('N', bytes) | ('S', items) | ('A', w, [(wb, v, wa)]) | ('O', w, [(wb, name, wn, wv, v, wa)])
#   items = [('R', c) | ('X', e) | ('U', bytes4)]

LIT = {"F": b"false", "Z": b"null", "T": b"true"}


def r_items(items):
    out = bytearray()
    for k, x in items:
        if k == "R":
            out.append(x)
        elif k == "X":
            out += bytes([0x5C, x])
        else:
            out += b"\\u" + bytes(x)
    return bytes(out)


def r_string(items):
    return b'"' + r_items(items) + b'"'


def render(v):
    t = v[0]
    if t == "L":
        return LIT[v[1]]
    if t == "N":
        return bytes(v[1])
    if t == "S":
        return r_string(v[1])
    if t == "A":
        return b"[" + v[1] + b",".join(wb + render(x) + wa for wb, x, wa in v[2]) + b"]"
    return b"{" + v[1] + b",".join(wb + r_string(nm) + wn + b":" + wv + render(x) + wa
                                   for wb, nm, wn, wv, x, wa in v[2]) + b"}"


def t_hex(bs):
    return bytes(bs).hex() + ";"


def t_items(items):
    out = []
    for k, x in items:
        if k == "R":
            out.append("R%02x" % x)
        elif k == "X":
            out.append("X%02x" % x)
        else:
            out.append("U" + bytes(x).hex())
    return "".join(out) + ";"


def token(v):
    t = v[0]
    if t == "L":
        return v[1]
    if t == "N":
        return "N" + t_hex(v[1])
    if t == "S":
        return "S" + t_items(v[1])
    if t == "A":
        return "A" + t_hex(v[1]) + "".join("E" + t_hex(wb) + token(x) + t_hex(wa) for wb, x, wa in v[2]) + "]"
    return "O" + t_hex(v[1]) + "".join("M" + t_hex(wb) + t_items(nm) + t_hex(wn) + t_hex(wv) + token(x) + t_hex(wa)
                                       for wb, nm, wn, wv, x, wa in v[2]) + "}"


def decode(items):
    """The name a string denotes, or None if written with a \\u escape."""
    out = bytearray()
    for k, x in items:
        if k == "R":
            out.append(x)
        elif k == "X":
            out.append(ESC[x])
        else:
            return None
    return bytes(out)


def expected_offset(lead, obj, trail, key):
    """Generator's own bookkeeping of the documented answer (independent of the Coq spec)."""
    off = len(lead) + 1 + len(obj[1])
    for wb, nm, wn, wv, x, wa in obj[2]:
        off += len(wb) + len(r_string(nm)) + len(wn) + 1 + len(wv)
        if decode(nm) == key:
            return off
        off += len(render(x)) + len(wa) + 1
    return len(lead) + len(render(obj)) + len(trail)


class DocGen:
    def __init__(self, rng, strict):
        self.r = rng
        self.strict = strict

    def ws(self, p=0.35):
        r = self.r
        if r.random() >= p:
            return b""
        return bytes(r.choice(WS) for _ in range(r.choice([1, 1, 1, 2, 3])))

    def number(self):
        r = self.r
        if not self.strict and r.random() < 0.5:
            return bytes(r.choice(NUMCH) for _ in range(r.randrange(1, 7)))
        s = r.choice(["0", "7", "12", "305", "1234567890"])
        if r.random() < 0.3:
            s = "-" + s
        if r.random() < 0.3:
            s += "." + r.choice(["0", "5", "25", "001"])
        if r.random() < 0.3:
            s += r.choice("eE") + r.choice(["", "+", "-"]) + r.choice(["0", "3", "10"])
        return s.encode()

    def items_for(self, name, allow_u=True):
        """Write the byte string `name` as string items (escape choices)."""
        r = self.r
        out = []
        i = 0
        while i < len(name):
            c = name[i]
            if allow_u and c < 0x80 and r.random() < 0.04:
                h = ("%04x" if r.random() < 0.5 else "%04X") % c
                out.append(("U", h.encode()))
            elif c in (0x22, 0x5C):
                out.append(("X", REV[c]))
            elif c in REV and c != 0x2F:          # \b \f \n \r \t
                if self.strict or r.random() < 0.7:
                    out.append(("X", REV[c]))
                else:
                    out.append(("R", c))
            elif c == 0x2F:
                out.append(("X", 0x2F) if r.random() < 0.5 else ("R", c))
            elif c < 0x20:
                if self.strict:
                    out.append(("U", ("%04x" % c).encode()))
                else:
                    out.append(("R", c))
            else:
                out.append(("R", c))
            i += 1
        return out

    def rand_name(self):
        r = self.r
        alpha = [b"a", b"b", b"c", b"k", b"y", b"0", b" ", b'"', b"\\", b"/", b"\b", b"\f", b"\n", b"\r", b"\t",
                 b"u", b"n", b"\xc3\xa9", b"\xe2\x82\xac", b":", b",", b"{", b"}", b"[", b"]"]
        if not self.strict:
            alpha += [b"\x01", b"\x1f", b"\x7f"]
        return b"".join(r.choice(alpha) for _ in range(r.choice([0, 1, 1, 2, 2, 3, 4, 6])))

    def string_value(self):
        r = self.r
        items = self.items_for(self.rand_name())
        if not self.strict and r.random() < 0.2:
            # \u followed by four arbitrary bytes (never quote/backslash issue: the skipper jumps over them)
            items.insert(r.randrange(len(items) + 1), ("U", bytes(r.randrange(256) for _ in range(4))))
        return ("S", items)

    def value(self, depth, budget):
        r = self.r
        k = r.random()
        if depth >= 6 or budget[0] <= 0:
            k *= 0.6
        budget[0] -= 1
        if k < 0.15:
            return ("L", r.choice("FZT"))
        if k < 0.4:
            return ("N", self.number())
        if k < 0.6:
            return self.string_value()
        if k < 0.8:
            n = r.choice([0, 0, 1, 2, 2, 3])
            return ("A", self.ws(), [(self.ws(), self.value(depth + 1, budget), self.ws()) for _ in range(n)])
        return self.obj(depth + 1, budget, None)

    def obj(self, depth, budget, pool):
        r = self.r
        n = r.choice([0, 1, 1, 2, 2, 3, 4]) if pool is None else r.choice([0, 1, 2, 3, 4, 5, 6])
        ms = []
        for _ in range(n):
            nm = r.choice(pool) if pool and r.random() < 0.85 else self.rand_name()
            ms.append((self.ws(), self.items_for(nm), self.ws(), self.ws(), self.value(depth, budget), self.ws()))
        return ("O", self.ws(), ms)

    def chain(self, depth):
        """nesting exactly `depth` deep, alternating arrays and objects, blanks after commas"""
        v = ("N", b"1")
        for d in range(depth):
            if (d + self.r.randrange(2)) % 2:
                v = ("A", self.ws(), [(self.ws(0.6), ("N", b"0"), self.ws(0.6)), (self.ws(0.8), v, self.ws(0.6))])
            else:
                v = ("O", self.ws(), [(self.ws(0.6), self.items_for(b"p"), self.ws(), self.ws(), ("L", "T"), self.ws(0.6)),
                                      (self.ws(0.8), self.items_for(b"q"), self.ws(), self.ws(), v, self.ws(0.6))])
        return v

    def top(self):
        """(lead, object, trail, key, pool)"""
        r = self.r
        base = r.choice([b"a", b"key", b"ab", b"x/y", b'q"', b"t\tb", b"\\", b"\xc3\xa9", b"nul", b"\b\f\n\r\t/\\\""])
        pool = [base, base + r.choice([b"b", b"x", b"\\", b'"']), base[:-1], self.rand_name()]
        if r.random() < 0.3:
            pool.append(b"")
        obj = self.obj(1, [r.choice([3, 8, 15])], pool)
        if r.random() < 0.15:
            d = r.randrange(1, 6)
            obj[2].insert(r.randrange(len(obj[2]) + 1),
                          (self.ws(), self.items_for(r.choice(pool)), self.ws(), self.ws(), self.chain(d), self.ws()))
        lead = self.ws(0.2)
        k = r.random()
        if k < 0.7:
            trail = b""
        elif k < 0.85:
            trail = self.ws(1.0)
        else:
            trail = bytes(r.randrange(256) for _ in range(r.randrange(1, 5)))
        names = [decode(m[1]) for m in obj[2]]
        real = [n for n in names if n is not None]
        k = r.random()
        if real and k < 0.5:
            key = r.choice(real)
        elif real and k < 0.6:
            key = r.choice(real)[:-1]
        elif real and k < 0.7:
            key = r.choice(real) + r.choice([b"a", b"\\", b'"', b" "])
        elif k < 0.75:
            key = b""
        elif k < 0.9:
            key = r.choice(pool)
        else:
            key = self.rand_name()
        return lead, obj, trail, key


def doc_token(lead, obj, trail):
    return t_hex(lead) + token(obj) + t_hex(trail)


def py_oracle(lead, obj, trail, key, off):
    """Validate a strict document with Python's json module; returns an error string or None."""
    text_b = lead + render(obj) + trail
    try:
        text = text_b.decode("utf-8")
    except UnicodeDecodeError:     # a truncated multi-byte name: not Python's business
        return "skip"
    try:
        pairs = pyjson.loads(text, object_pairs_hook=list)
    except Exception as e:  # the generator claimed this document was valid RFC 8259
        return "python json rejects a generated strict document: %s" % e
    if any(decode(m[1]) is None for m in obj[2]):
        return None
    try:
        k = key.decode("utf-8")
    except UnicodeDecodeError:
        return None
    want = [v for n, v in pairs if n == k]
    total = len(text_b)
    if not want:
        return None if off == total else "python json: key absent but expected offset %d != %d" % (off, total)
    if off >= total:
        return "python json: key present but expected offset is the end"
    coff = len(text_b[:off].decode("utf-8"))
    try:
        val, _ = pyjson.JSONDecoder(object_pairs_hook=list).raw_decode(text, coff)
    except Exception as e:
        return "python json cannot decode a value at offset %d: %s" % (off, e)
    return None if val == want[0] else "python json: value at offset %d is not the first member named %r" % (off, k)


# ----------------------------------------------------------------------------------------------
# running

def _build(ctx, sub):
    # -fno-builtin-memcmp: gcc otherwise folds memcmp(buf, "null", 4) into one unchecked 32-bit load,
    # hiding an over-read of the literal tests from ASan; as a call it goes through ASan's interceptor
    exe, err = vlib.build_c("drv_json_asan", "drv_json.c", ["util/json.c"], asan=True,
                            cflags=["-fno-builtin-memcmp", "-fno-builtin-strchr"])
    if not exe:
        ctx.fail(sub, "build", "", "C driver does not build: " + err)
        return None, None
    mexe, err = vlib.build_model("json")
    if not mexe:
        ctx.fail(sub, "tie", "", err)
        return None, None
    return exe, mexe


def _corpus():
    out = []
    for p in sorted(glob.glob(os.path.join(vlib.VERIF, "corpus", "json", "*.cases"))):
        for line in open(p):
            line = line.strip()
            if line and not line.startswith("#"):
                out.append(line)
    return out


def _replay_cases(ctx):
    """`find` cases named in a replay file given with --replay (run first, against the model)."""
    rep = getattr(ctx, "replay", None) or {}
    out = []
    for f in [rep.get("failing_input")] + list(rep.get("failures", [])):
        if f and str(f.get("sub", "")).startswith("json.") and str(f.get("case", "")).startswith("find "):
            if f["case"] not in out:
                out.append(f["case"])
    return out


def _run_impl(ctx, sub, exe, cases):
    """Run the ASan build; a sanitizer stop loses the rest of its shard, so re-run what is left.
    Returns outputs aligned with cases ('fault' for a case that raised a sanitizer report)."""
    import re
    out = [None] * len(cases)
    todo = list(range(len(cases)))
    reports = 0
    for _round in range(8):
        if not todo:
            break
        sub_cases = [cases[i] for i in todo]
        res, st = vlib.run_sharded(exe, sub_cases, env={"ASAN_OPTIONS": "detect_leaks=1:abort_on_error=0"})
        n = len(sub_cases)
        shards = max(1, min(vlib.NCPU, n))
        per = (n + shards - 1) // shards
        nxt = []
        for k, (rc, err) in enumerate(st):
            lo, hi = k * per, min(n, (k + 1) * per)
            crashed = None
            for j in range(lo, hi):
                if res[j].startswith("<no-output"):
                    crashed = j
                    break
                out[todo[j]] = res[j]
            if crashed is None:
                if rc != 0 or "LeakSanitizer" in err:
                    m = re.search(r"(ERROR: [A-Za-z]*Sanitizer[^\n]*|[^\n]*runtime error:[^\n]*)", err)
                    ctx.fail(sub, "sanitizer", "", m.group(1) if m else "driver exit rc=%d: %s" % (rc, err[-300:]),
                             property_fails=True)
                continue
            m = re.search(r"(ERROR: AddressSanitizer[^\n]*|[^\n]*runtime error:[^\n]*)", err)
            loc = re.search(r"#\d+ 0x[0-9a-f]+ in (\w+) [^\n]*?(json\.c:\d+)", err)
            detail = (m.group(1) if m else "driver died rc=%d: %s" % (rc, err[-300:])) + (" at %s %s" % loc.groups() if loc else "")
            out[todo[crashed]] = "fault"
            reports += 1
            if reports <= 4:
                ctx.fail(sub, "sanitizer" if m else "crash", cases[todo[crashed]], detail, property_fails=True)
            nxt += [todo[j] for j in range(crashed + 1, hi)]
        todo = nxt
    for i in todo:
        out[i] = "<not-run>"
    ctx.count(sub + ".sanitizer_reports", reports)
    if todo:
        ctx.count(sub + ".not_run_after_many_sanitizer_stops", len(todo))
    return out


def _drop_not_run(cases, impl, *others):
    """Cases the ASan build never reached (too many sanitizer stops before them) are left out of the comparison."""
    keep = [i for i, a in enumerate(impl) if a != "<not-run>"]
    return [[x[i] for i in keep] for x in (cases, impl) + others]


# ----------------------------------------------------------------------------------------------
# C17: valid objects

def gen_valid(ctx, n):
    """-> list of (case, spec_case, lead, obj, trail, key, strict)"""
    r = ctx.rng
    out = []
    fixed = [
        # F5 witnesses (blank after a comma inside a nested container)
        (b"", ("O", b"", [(b"", [("R", 0x78)], b"", b"", ("A", b"", [(b"", ("N", b"1"), b""), (b" ", ("N", b"2"), b"")]), b""),
                         (b"", [("R", 0x79)], b"", b"", ("N", b"3"), b"")]), b"", b"y"),
        (b"", ("O", b"", [(b"", [("R", 0x78)], b"", b"", ("O", b"", [(b"", [("R", 0x61)], b"", b"", ("N", b"1"), b""),
                                                                   (b" ", [("R", 0x62)], b"", b"", ("N", b"2"), b"")]), b""),
                         (b"", [("R", 0x79)], b"", b"", ("N", b"3"), b"")]), b"", b"y"),
        (b" ", ("O", b" ", []), b" ", b"a"),
        (b"", ("O", b"", [(b"", [("X", 0x62)], b"", b"", ("L", "T"), b"")]), b"", b"\b"),
    ]
    for lead, obj, trail, key in fixed:
        out.append((lead, obj, trail, key, True))
    for i in range(n):
        strict = r.random() < 0.7
        g = DocGen(r, strict)
        lead, obj, trail, key = g.top()
        if len(render(obj)) > 1500:
            continue
        out.append((lead, obj, trail, key, strict))
    # a few big ones: many members, deep nesting (beyond the 6 of the ordinary generator)
    for i in range(ctx.n(8, 300)):
        strict = r.random() < 0.7
        g = DocGen(r, strict)
        pool = [b"k%d" % j for j in range(12)] + [b"k", b"k1x", b""]
        obj = g.obj(1, [r.choice([40, 120])], pool)
        for _ in range(r.randrange(0, 30)):
            obj[2].append((g.ws(), g.items_for(r.choice(pool)), g.ws(), g.ws(), g.value(2, [10]), g.ws()))
        obj[2].insert(r.randrange(len(obj[2]) + 1),
                      (g.ws(), g.items_for(r.choice(pool)), g.ws(), g.ws(), g.chain(r.randrange(7, 40)), g.ws()))
        key = r.choice(pool + [b"absent"])
        if len(render(obj)) <= 8000:
            out.append((g.ws(0.3), obj, g.ws(0.3), key, strict))
            ctx.count("json.find.big_document")
    return out


def check_json_find(ctx):
    sub = "json.find"
    exe, mexe = _build(ctx, sub)
    if not exe:
        return
    docs = gen_valid(ctx, ctx.n(8000, 160000))
    cases, specs, want = [], [], []
    for lead, obj, trail, key, strict in docs:
        text = lead + render(obj) + trail
        c = "find %s %s" % (hx(text), hx(key))
        cases.append(c)
        specs.append("spec %s %s" % (c, doc_token(lead, obj, trail)))
        off = expected_offset(lead, obj, trail, key)
        want.append("ok %d" % off)
        names = [decode(m[1]) for m in obj[2]]
        ctx.count("json.find." + ("found" if off < len(text) else "absent"))
        if names.count(key) > 1:
            ctx.count("json.find.duplicate_key")
        if any(n is None for n in names):
            ctx.count("json.find.name_with_u_escape")
        if any(n is not None and n != key and (n.startswith(key) or key.startswith(n)) for n in names):
            ctx.count("json.find.prefix_related_name")
        ctx.count("json.find." + ("strict_rfc8259" if strict else "liberal_wf"))
        if strict and all(t in WS for t in trail):
            e = py_oracle(lead, obj, trail, key, off)
            if e == "skip":
                e = None
            else:
                ctx.count("json.find.python_json_validated")
            if e:
                ctx.fail(sub, "tie", c, e)
    # replayed / corpus cases have no abstract document: C against the model only (proved = spec)
    extra = _replay_cases(ctx) + [c for c in _corpus() if c.startswith("find ")]
    if extra:
        ei = _run_impl(ctx, sub, exe, extra)
        em, _ = vlib.run_sharded(mexe, extra)
        vlib.tri_compare(ctx, sub, extra, ei, em, None)
        ctx.count("json.find.corpus", len(extra))
    impl = _run_impl(ctx, sub, exe, cases)
    model, _ = vlib.run_sharded(mexe, cases)
    spec, _ = vlib.run_sharded(mexe, specs)
    # the spec's validity predicates against Python's json: every document is wf; rfc_valid <=> Python accepts
    info, _ = vlib.run_sharded(mexe, ["specinfo " + sp.split()[-1] for sp in specs])
    nbad = 0
    for (lead, obj, trail, key, strict), inf in zip(docs, info):
        text = lead + render(obj)
        problem = None
        if "wf=1" not in inf:
            problem = "generated document is not wf for the Coq spec: " + inf
        elif strict and "rfc=1" not in inf:
            problem = "strict document is not rfc_valid for the Coq spec: " + inf
        else:
            try:
                t = text.decode("utf-8")
                try:
                    pyjson.loads(t)
                    py = True
                except ValueError:
                    py = False
                ctx.count("json.find.rfc_valid_vs_python_" + ("accept" if py else "reject"))
                if py != ("rfc=1" in inf):
                    problem = "rfc_valid (%s) disagrees with Python json (%s)" % (inf, "accepts" if py else "rejects")
            except UnicodeDecodeError:
                pass
        if problem:
            nbad += 1
            if nbad <= 3:
                ctx.fail(sub, "tie", "specinfo " + hx(text), problem)
    docs = None
    cases, impl, model, spec, want = _drop_not_run(cases, impl, model, spec, want)
    # the Coq spec and the generator's bookkeeping must agree (else the spec side is not what we think)
    bad = [(c, s, w) for c, s, w in zip(cases, spec, want) if s != w]
    for c, s, w in bad[:3]:
        ctx.fail(sub, "tie", c, "find_spec says %s, generator bookkeeping says %s" % (s, w))
    vlib.tri_compare(ctx, sub, cases, impl, model, spec)
    ctx.record(sub, cases, set(zip(cases, impl)),
               "generated objects (nesting<=6, 0-7 members from a pool with duplicates/prefixes/extensions, all escapes, \\u, "
               "blanks at every ws place, trailing garbage) x keys (present/prefix/extension/empty/absent): "
               "C json_find = extracted model = Coq find_spec on the abstract document (its Coq rendering = the bytes) "
               "= generator bookkeeping; strict documents validated by Python json; non-trivial = distinct (case, result)",
               samples=[cases[0][:200], cases[-1][:200]])


# ----------------------------------------------------------------------------------------------
# C17: valid objects of large magnitude - deep nesting, very many members / elements, very long tokens

DEEP_DEPTHS = [62, 63, 64, 65, 66, 100, 127, 128, 129, 255, 256, 257, 1000]
DEEP_DEPTHS_THOROUGH = [2000, 4096, 5000]       # the ASan build needs well under 8 MiB of stack for 20000 levels (check_json_depth)


def deep_value(kind, d, leaf):
    """A value whose containers nest exactly d levels: arrays, objects, or alternating; no blanks."""
    v = leaf
    for lvl in range(d):
        arr = kind == "arrays" or (kind == "mixed" and lvl % 2 == 0) or (kind == "mixed2" and lvl % 3 != 0)
        if arr:
            v = ("A", b"", [(b"", v, b"")])
        else:
            v = ("O", b"", [(b"", [("R", 0x61)], b"", b"", v, b"")])
    return v


def gen_deep(ctx):
    """-> [(lead, obj, trail, key)]: a deep value BEFORE the wanted member, AFTER it, AS its value, inside a
    member's object next to an inner member of the same name, and with the key absent."""
    r = ctx.rng
    g = DocGen(r, True)
    out = []

    def name(b):
        return [("R", c) for c in b]

    def mem(nm, v):
        return (g.ws(0.2), name(nm), g.ws(0.2), g.ws(0.2), v, g.ws(0.2))
    depths = DEEP_DEPTHS + ([] if ctx.quick else DEEP_DEPTHS_THOROUGH)
    for d in depths:
        for kind in ("arrays", "objects", "mixed", "mixed2"):
            leaf = r.choice([("N", b"1"), ("A", b"", []), ("O", b"", []), ("S", name(b"want")), ("L", "Z")])
            dv = deep_value(kind, d, leaf)
            one = ("N", b"1")
            shapes = [
                (("O", b"", [mem(b"a", dv), mem(b"want", one)]), b"want"),                       # before the key
                (("O", b"", [mem(b"want", one), mem(b"a", dv)]), b"want"),                       # after the key
                (("O", b"", [mem(b"x", one), mem(b"want", dv), mem(b"z", one)]), b"want"),       # the key's own value
                (("O", b"", [mem(b"x", one), mem(b"want", dv), mem(b"z", one)]), b"z"),
                (("O", b"", [mem(b"a", dv)]), b"want"),                                          # absent
                (("O", b"", [mem(b"a", ("O", b"", [mem(b"b", dv), mem(b"want", ("N", b"2"))])),
                             mem(b"b", ("A", b"", [(b"", one, b""), (b" ", dv, b"")])), mem(b"want", one)]), b"want"),
            ]
            if d > 300:
                shapes = [shapes[0], shapes[r.randrange(1, len(shapes))]]
            for obj, key in shapes:
                out.append((g.ws(0.2), obj, r.choice([b"", b"", b" ", b"\n"]), key))
            ctx.count("json.large.deep.%s" % kind, len(shapes))
    # laid-out chains (blanks, siblings before the deep element) around the same depths
    for d in [60, 63, 64, 65, 70, 100] + ([] if ctx.quick else [128, 200, 256, 300]):
        for _ in range(ctx.n(2, 6)):
            dv = g.chain(d)
            out.append((b"", ("O", g.ws(), [mem(b"p", dv), mem(b"want", ("L", "T")), mem(b"q", g.chain(d + 1))]), b"", b"want"))
            ctx.count("json.large.deep.laid_out")
    return out


def gen_wide(ctx):
    """-> [(description, text, key, expected offset)] documents with very many members / elements and very
    long strings, numbers, names and keys; built as bytes, offsets by direct bookkeeping."""
    r = ctx.rng
    nmem = ctx.n(3000, 100000)
    nlong = ctx.n(30000, 1000000)
    out = []

    def doc(members, key, desc):
        """members: [(name bytes without quotes (no escapes), value bytes)]"""
        parts, off, found = [], 1, None
        for i, (nm, val) in enumerate(members):
            head = b'"' + nm + b'":'
            if found is None and nm == key:
                found = off + len(head)
            parts.append(head + val)
            off += len(head) + len(val) + 1
        text = b"{" + b",".join(parts) + b"}"
        out.append((desc, text, key, found if found is not None else len(text)))
        ctx.count("json.large.wide")
    many = [(b"k%d" % i, r.choice([b"0", b"true", b'"s"', b"[1,2]", b'{"want":0}', b"null", b"-1.5e3"])) for i in range(nmem)]
    doc(many + [(b"want", b"1")], b"want", "%d members before the key" % nmem)
    doc(many, b"want", "%d members, key absent" % nmem)
    doc(many, b"k%d" % (nmem - 1), "%d members, key is the last" % nmem)
    doc([(b"a", b"[" + b",".join(b"%d" % (i % 10) for i in range(nmem)) + b"]"), (b"want", b"1")], b"want",
        "array of %d elements before the key" % nmem)
    doc([(b"a", b"{" + b",".join(b'"want":%d' % (i % 10) for i in range(nmem)) + b"}"), (b"want", b"1")], b"want",
        "object of %d members (all named like the key) before the key" % nmem)
    doc([(b"a", b"[" + b",".join(b'["want",{"want":[]}]' for i in range(nmem // 4)) + b"]"), (b"want", b"1")], b"want",
        "array of %d small containers before the key" % (nmem // 4))
    body = bytes(r.choice(b"abcxyz ,:{}[]0189\xc3\xa9") for _ in range(1000))
    longs = (body * (nlong // 1000 + 1))[:nlong]
    esc = b"".join(r.choice([b'\\"', b"\\\\", b"\\n", b"x", b"want", b'\\"want\\":1,']) for _ in range(nlong // 4))
    for n in sorted({65535, 65536, 65537, nlong} if not ctx.quick else {nlong}):
        doc([(b"a", b'"' + longs[:n] + b'"'), (b"want", b"1")], b"want", "string of %d bytes before the key" % n)
    doc([(b"a", b'"' + esc + b'"'), (b"want", b"1")], b"want", "string of %d bytes full of escapes before the key" % len(esc))
    doc([(b"a", b"-" + b"1234567890" * (nlong // 10) + b".5e+10"), (b"want", b"1")], b"want", "number of %d digits before the key" % nlong)
    nm = longs.replace(b'"', b"q").replace(b"\\", b"b")
    doc([(nm, b"0"), (b"want", b"1")], b"want", "name of %d bytes before the key" % nlong)
    doc([(nm[:-1], b"0"), (nm, b"1"), (b"want", b"2")], nm, "key of %d bytes, preceded by a name one byte shorter" % nlong)
    doc([(b"want", b'"' + longs + b'"'), (b"z", b"1")], b"z", "the member before the key has a %d-byte string value" % nlong)
    return out


def check_json_find_large(ctx):
    """json_find on valid objects of large magnitude.  The extracted model and the spec evaluator are list
    programs (quadratic in the document size), so: documents up to MODEL_MAX bytes go through model and
    spec, up to SPEC_MAX bytes through the spec evaluator, all of them are compared with the generator's
    own bookkeeping of the documented answer (expected_offset / the offsets counted while the bytes were
    put together) - a python-side oracle of exactly "the start of the value of the first member named key,
    else the end"."""
    import sys
    sub = "json.find-large"
    exe, mexe = _build(ctx, sub)
    if not exe:
        return
    MODEL_MAX, SPEC_MAX = ctx.n(2600, 8000), ctx.n(9000, 20000)
    old = sys.getrecursionlimit()
    sys.setrecursionlimit(max(old, 60000))
    try:
        cases, want, mcase, scase = [], [], [], []
        for lead, obj, trail, key in gen_deep(ctx):
            text = lead + render(obj) + trail
            c = "find %s %s" % (hx(text), hx(key))
            cases.append(c)
            want.append("ok %d" % expected_offset(lead, obj, trail, key))
            mcase.append(c if len(text) <= MODEL_MAX else None)
            scase.append("spec %s %s" % (c, doc_token(lead, obj, trail)) if len(text) <= SPEC_MAX else None)
    finally:
        sys.setrecursionlimit(old)
    ndeep = len(cases)
    for desc, text, key, off in gen_wide(ctx):
        cases.append("find %s %s" % (hx(text), hx(key)))
        want.append("ok %d" % off)
        mcase.append(None)
        scase.append(None)
    impl = _run_impl(ctx, sub, exe, cases)
    mi = [i for i, c in enumerate(mcase) if c is not None]
    si = [i for i, c in enumerate(scase) if c is not None]
    mout, _ = vlib.run_sharded(mexe, [mcase[i] for i in mi])
    sout, _ = vlib.run_sharded(mexe, [scase[i] for i in si])
    model, spec = list(want), list(want)
    for i, o in zip(mi, mout):
        model[i] = o
    for i, o in zip(si, sout):
        if o != want[i]:
            ctx.fail(sub, "tie", cases[i][:300], "find_spec says %s, generator bookkeeping says %s" % (o, want[i]))
        spec[i] = o
    ctx.count(sub + ".through_model", len(mi))
    ctx.count(sub + ".through_spec_evaluator", len(si))
    ctx.count(sub + ".bookkeeping_only", len(cases) - len(set(mi) | set(si)))
    cases, impl, model, spec = _drop_not_run(cases, impl, model, spec)
    vlib.tri_compare(ctx, sub, cases, impl, model, spec)
    ctx.record(sub, cases, set(zip((c[:64] + str(len(c)) for c in cases), impl)),
               "valid objects in which a member before / after / equal to the wanted one has a value nested 62..1000 "
               "(thorough: ..5000) levels deep (arrays, objects, mixed; compact and laid out), %d deep documents; objects, "
               "arrays with up to 1e5 members / elements and strings, numbers, names, keys of up to 1e6 bytes (quick tier: "
               "3000 / 30000): C json_find = generator bookkeeping; = extracted model for documents up to %d bytes, = Coq "
               "find_spec up to %d bytes" % (ndeep, MODEL_MAX, SPEC_MAX),
               samples=[cases[0][:200]])


# ----------------------------------------------------------------------------------------------
# C15: arbitrary bytes

TAILS = [b"\\", b"\\u12", b"\\u", b"\\u123", b",", b":", b'"', b'"\\', b"[", b"{", b',"', b', ', b": ", b"\x00", b"nul", b"tru", b"fals",
         b"-", b"1e", b'{"', b'["', b"]", b"}", b" "]
TOKENS = [b"{", b"}", b"[", b"]", b",", b":", b'"', b"\\", b"u", b"1", b"e", b"t", b"true", b"null", b"false", b"a", b" ", b"\n",
          b"\x00", b'"a"', b'"a":', b"\\u0041", b"\\\"", b"-1.5", b"\xff", b"n", b"f"]


def gen_hostile(ctx, n):
    r = ctx.rng
    cases = []

    def add(buf, key, cls):
        cases.append("find %s %s" % (hx(buf), hx(key)))
        ctx.count("json.safety." + cls)

    # witness of the repaired over-read and friends
    for buf, key in [(b'{"x":{"a":1,', b"y"), (b'{"x":{"a":1, ', b"y"), (b'{"x":[1,', b"y"), (b"", b"a"), (b"{", b""), (b'{"', b""),
                     (b'{"a', b"a"), (b'{"a"', b"a"), (b'{"a":', b"a"), (b'{"a":nul', b"b"), (b'{"a":tru', b"b"), (b'{"a":fals', b"b"),
                     (b'{"a":"\\u123', b"b"), (b'{"\\u123', b"b"), (b'{"\\', b"b"), (b'{"a":"\\', b"b"), (b'{"a":\x00\x00,"b":1}', b"b")]:
        add(buf, key, "fixed")
    # every prefix of valid documents (smaller ones), with a present and an absent key
    docs = []
    while len(docs) < n // 60 + 4:
        g = DocGen(r, r.random() < 0.6)
        lead, obj, trail, key = g.top()
        text = lead + render(obj) + trail
        if 2 <= len(text) <= 120:
            docs.append((text, key))
    for text, key in docs:
        for i in range(len(text) + 1):
            add(text[:i], key, "prefix")
        other = r.choice([b"", b"zz", key + b"x", key[:-1]])
        for i in range(0, len(text) + 1, 3):
            add(text[:i], other, "prefix")
    # truncation + hostile tail
    for _ in range(n // 6):
        text, key = r.choice(docs)
        add(text[:r.randrange(len(text) + 1)] + r.choice(TAILS), key, "tail")
    # byte mutations incl. NUL
    for _ in range(n // 3):
        text, key = r.choice(docs)
        bs = bytearray(text)
        for _k in range(r.choice([1, 1, 2, 3])):
            op = r.randrange(4)
            pos = r.randrange(len(bs) + 1)
            if op == 0 and bs:
                bs[pos % len(bs)] = r.choice([0, 0, r.randrange(256), r.choice(b'{}[],:"\\u \t')])
            elif op == 1:
                bs.insert(pos, r.choice([0, r.randrange(256), r.choice(b'{}[],:"\\u \t')]))
            elif op == 2 and bs:
                del bs[pos % len(bs)]
            elif bs:
                bs = bs[:pos]
        add(bytes(bs), key if r.random() < 0.8 else b"", "mutation")
    # token soup: unbalanced / nested structure
    for _ in range(n // 4):
        k = r.randrange(1, 14)
        body = b"".join(r.choice(TOKENS) for _ in range(k))
        add((b"{" if r.random() < 0.7 else b"") + (b'"k":' if r.random() < 0.5 else b"") + body, r.choice([b"k", b"a", b"", b"A"]), "soup")
    # deep nesting, unbalanced
    for d in [1, 2, 7, 40, 200] + ([3000] if not ctx.quick else []):
        add(b'{"a":' + b"[" * d, b"b", "deep")
        add(b'{"a":' + b'{"a":' * d, b"b", "deep")
        add(b'{"a":' + b"[" * d + b"]" * (d - 1) + b',"b":1}', b"b", "deep")
        add(b'{"a":' + b"[1," * d, b"b", "deep")
        add(b'{"a":' + b'{"a":1,' * d, b"b", "deep")
    # random bytes
    for _ in range(n // 10):
        add(bytes(r.randrange(256) for _ in range(r.randrange(0, 24))), bytes(r.randrange(1, 256) for _ in range(r.randrange(0, 3))), "random")
    return cases


def check_json_safety(ctx):
    sub = "json.safety"
    exe, mexe = _build(ctx, sub)
    if not exe:
        return
    corpus = _replay_cases(ctx) + [c for c in _corpus() if c.startswith("find ")]
    cases = corpus + gen_hostile(ctx, ctx.n(10000, 250000))
    ctx.count("json.safety.corpus", len(corpus))
    impl = _run_impl(ctx, sub, exe, cases)
    model, _ = vlib.run_sharded(mexe, cases)
    cases, impl, model = _drop_not_run(cases, impl, model)
    # the contract: an offset in [0, len]
    nbad = 0
    for c, a in zip(cases, impl):
        tok = c.split()
        ln = 0 if tok[1] == "-" else len(tok[1]) // 2
        ok = a.startswith("ok ") and a[3:].isdigit() and 0 <= int(a[3:]) <= ln
        if not ok and a != "fault":      # 'fault' = sanitizer report, already recorded with its case
            nbad += 1
            if nbad <= 3:
                ctx.fail(sub, "property", c, "returned pointer not inside [buf, end]: " + a, property_fails=True)
    # a differing in-range offset does not violate C15 itself, but the safety theorem is about the
    # model, so it no longer transfers to the code: correspondence break without failing input
    nd = vlib.compare(ctx, sub, cases, impl, model, property_pred=lambda c, a, m: (False, None), max_report=4)
    ctx.count(sub + ".disagreements", nd)
    ctx.record(sub, cases, set(zip(cases, impl)),
               "every prefix of generated documents, truncation + hostile tails (backslash, \\u12, comma, colon, ...), byte "
               "mutations incl. NUL, token soup, deep unbalanced nesting, random bytes; exact-size malloc under ASan+UBSan; "
               "result must be an offset in [0,len] and equal the extracted model (proved fault-free); non-trivial = distinct (case, result)",
               samples=[cases[0][:200], cases[-1][:200]])


DEPTH_SIG = "json-nesting-depth-stack-exhaustion"      # known finding F11 (known_findings.json)
STACK_LIMIT = 8 * 1024 * 1024


def _run_limited(exe, case, timeout=120):
    """Run one case in a child whose stack limit is exactly 8 MiB (independent of the caller's ulimit).
    -> (returncode, stdout lines, stderr)"""
    import resource
    import subprocess

    def limit():
        resource.setrlimit(resource.RLIMIT_STACK, (STACK_LIMIT, STACK_LIMIT))
    p = subprocess.Popen([exe], stdin=subprocess.PIPE, stdout=subprocess.PIPE, stderr=subprocess.PIPE, preexec_fn=limit)
    try:
        o, e = p.communicate((case + "\n").encode(), timeout=timeout)
    except subprocess.TimeoutExpired:
        p.kill()
        o, e = p.communicate()
        return 124, o.decode("utf-8", "replace").splitlines(), "timeout"
    return p.returncode, o.decode("utf-8", "replace").splitlines(), e.decode("utf-8", "replace")


def check_json_depth(ctx):
    """Nesting depth on the real code (the Gallina model has no stack, so the theorems say nothing here;
    the extracted model is also quadratic in the document size, so the expected answers below come from
    the generator's own bookkeeping).

    skip_value <-> skip_array/skip_object recurse once per nesting level without a limit; the -O2 build
    uses 32 bytes of stack per level, so about 262,144 unclosed brackets exhaust an 8 MiB stack.
      depth  20,000 (ASan build and -O2 build): must return the right offset       -> ordinary violation if not
      depth 100,000 (-O2 build, 8 MiB stack):   must return                        -> ordinary violation if not
                                                (stack use per level would have more than doubled)
      depth 262,500 (-O2 build, 8 MiB stack):   dies by SIGSEGV today              -> known finding F11, signature DEPTH_SIG;
                                                nothing is emitted if it returns (e.g. after a depth limit was added)."""
    sub = "json.depth"
    aexe, err = vlib.build_c("drv_json_asan", "drv_json.c", ["util/json.c"], asan=True,
                             cflags=["-fno-builtin-memcmp", "-fno-builtin-strchr"])
    exe, err2 = vlib.build_c("drv_json_plain", "drv_json.c", ["util/json.c"], asan=False)
    if not aexe or not exe:
        ctx.fail(sub, "build", "", "C driver does not build: " + (err or err2 or ""))
        return

    def run(e, desc, doc, key, want, signature=None, ordinary=True):
        rc, out, er = _run_limited(e, "find %s %s" % (hx(doc), hx(key)))
        ctx.evaluations += 1
        ctx.traces_validated += 1
        ctx.count("json.depth.cases")
        died = rc != 0 or not out
        if died:
            if signature or ordinary:
                ctx.fail(sub, "crash", desc, "driver rc=%d, no result (rc<0 = killed by that signal; 8 MiB stack): %s"
                         % (rc, (er.strip().splitlines() or [""])[0][:160]), property_fails=True, signature=signature)
            return False
        if want is not None and out[0] != want:
            ctx.fail(sub, "property", desc, "impl=%s expected=%s" % (out[0], want), property_fails=True)
            return False
        ctx.nontrivial.add(sub + ":" + desc)
        return True

    d = 20000
    opened = b'{"a":' + b"[" * d                                   # unbalanced: nothing found, end returned
    closed = b'{"a":' + b"[" * d + b"]" * d + b' , "b":1}'          # balanced: b found behind the deep value
    objs = b'{"a":' + b'{"a":' * d + b"1" + b"}" * d + b',"b":1}'
    for e, nm in ((aexe, "ASan build"), (exe, "-O2 build")):
        run(e, "find <'{\"a\":' + 20000 x '['> b  (%s)" % nm, opened, b"b", "ok %d" % len(opened))
        run(e, "find <'{\"a\":' + 20000 x '[' + 20000 x ']' + ' , \"b\":1}'> b  (%s)" % nm, closed, b"b", "ok %d" % (len(closed) - 2))
        run(e, "find <'{\"a\":' + 20000 x '{\"a\":' + '1' + 20000 x '}' + ',\"b\":1}'> b  (%s)" % nm, objs, b"b", "ok %d" % (len(objs) - 2))
    doc = b'{"a":' + b"[" * 100000
    ok = run(exe, "find <'{\"a\":' + 100000 x '['> b  (-O2 build, 8 MiB stack)", doc, b"b", "ok %d" % len(doc))
    if ok:
        doc = b'{"a":' + b"[" * 262500
        run(exe, "find <'{\"a\":' + 262500 x '['> b  (-O2 build, 8 MiB stack; see corpus/json/deep_nesting.gen)", doc, b"b", None,
            signature=DEPTH_SIG, ordinary=False)
    ctx.rules.append(sub + ": nesting 20000 (both builds, expected offsets from the generator), 100000 and 262500 (known finding F11) "
                     "on the -O2 build in a child with RLIMIT_STACK = 8 MiB")


SUBCHECKS = {"C15": [check_json_safety, check_json_depth], "C17": [check_json_find, check_json_find_large]}
