(* C03, SHA-256 part: the SSE2 and the SHA-NI block transforms compute the same function as the
   portable transform and as the FIPS 180-4 compression function, for every 8-word state and every
   64-byte block.  Only statements, each closed by [exact], with Print Assumptions.

   sha256_transform_sse2 / sha256_transform_shani are the statement-by-statement models of
   SHA256_Transform_sse2 (alg/sha256_sse2.c: mm_bswap_epi32, MSG4 with SPAN_ONE_THREE / s0_128 /
   s1_128_low / s1_128_high, scalar RNDr rounds) and SHA256_Transform_shani (alg/sha256_shani.c:
   be32dec_128, RND4 with two SHA256RNDS2, MSG4 with SHA256MSG1 / PALIGNR / SHA256MSG2, sixteen RNDMSG)
   over the instruction semantics of Accel/X86Vec.v (Intel SDM operation sections), INSTANTIATED WITH
   THE SEQUENCES REGENERATED from the C text on this run (Gen/Repo_accel.v via Accel/Sse2ShaRepo.v and
   Accel/ShaNiRepo.v): round constants, every immediate / shift count / shuffle selector, load and
   store offsets, the MSG4 call rows, the RNDMSG rows, loop bounds.  sha256_transform is the portable
   model instantiated from alg/sha256.c (Alg/HashRepo.v, property C01).  The regenerated data are tied
   to the constants the proofs are about by vm_compute (Accel/ShaRepoProofs.v), so a changed
   immediate, offset, row or constant in either C file breaks this file.

   The block is a list of bytes (each < 256, what uint8_t guarantees); the state is any list of 8
   naturals (no range assumption is needed).  Alignment does not enter: both files use unaligned
   loads / stores only (MOVDQU), which the models reflect.

   Whole computations (call partition): Accel/ShaCfg.v models the `switch (hwaccel)` at the top of
   SHA256_Transform (rows regenerated from alg/sha256.c), hwtest / hwaccel_init (regenerated
   CPUSUPPORT_VALIDATE rows) and SHA256_Update_internal / SHA256_Pad / SHA256_Final / SHA256_Buf with
   the transform so selected; C03_sha256_stream_* state that every value of hwaccel gives the FIPS
   180-4 digest for every partition of every byte message - hence the same digest as every other
   configuration.  The per-configuration behaviour of the compiled library is additionally run by
   areas/shacfg.py. *)
From Coq Require Import NArith List.
From LCP Require Import Alg.Words Alg.Sha256Spec Alg.Sha256Model Alg.Sha256Proofs Alg.HashRepo Accel.Sse2ShaRepo Accel.ShaNiRepo Accel.ShaRepoProofs Accel.ShaCfg Accel.ShaCfgProofs.
Import ListNotations.
Local Open Scope N_scope.

(* the regenerated instruction sequences are the ones the proofs are about *)
Theorem C03_sha_repo_sequences_tied :
  sha256_transform_sse2 = Accel.Sse2Sha.transform_sse2 (Accel.Sse2ShaLanes.sse2_std K256) /\
  sha256_transform_shani = Accel.ShaNi.transform_shani (Accel.ShaNiProofs.shani_std K256).
Proof. exact (conj sha256_transform_sse2_eq_std sha256_transform_shani_eq_std). Qed.
Print Assumptions C03_sha_repo_sequences_tied.

(* SSE2 path = portable path *)
Theorem C03_sha256_sse2_eq_portable :
  forall st blk, length st = 8%nat -> length blk = 64%nat -> Forall (fun b => b < 256) blk ->
  sha256_transform_sse2 st blk = sha256_transform st blk.
Proof. exact sha256_transform_sse2_eq_portable. Qed.
Print Assumptions C03_sha256_sse2_eq_portable.

(* SSE2 path = FIPS 180-4 6.2.2 *)
Theorem C03_sha256_sse2_eq_fips180 :
  forall st blk, length st = 8%nat -> length blk = 64%nat -> Forall (fun b => b < 256) blk ->
  sha256_transform_sse2 st blk = f256_compress st blk.
Proof. exact sha256_transform_sse2_eq_fips. Qed.
Print Assumptions C03_sha256_sse2_eq_fips180.

(* SHA-NI path = portable path *)
Theorem C03_sha256_shani_eq_portable :
  forall st blk, length st = 8%nat -> length blk = 64%nat -> Forall (fun b => b < 256) blk ->
  sha256_transform_shani st blk = sha256_transform st blk.
Proof. exact sha256_transform_shani_eq_portable. Qed.
Print Assumptions C03_sha256_shani_eq_portable.

(* SHA-NI path = FIPS 180-4 6.2.2 *)
Theorem C03_sha256_shani_eq_fips180 :
  forall st blk, length st = 8%nat -> length blk = 64%nat -> Forall (fun b => b < 256) blk ->
  sha256_transform_shani st blk = f256_compress st blk.
Proof. exact sha256_transform_shani_eq_fips. Qed.
Print Assumptions C03_sha256_shani_eq_fips180.

(* ---- whole computations, any value of hwaccel ---- *)
(* the switch of SHA256_Transform: every selectable transform is the FIPS 180-4 compression function *)
Theorem C03_sha256_transform_any_hw :
  forall hw st blk, length st = 8%nat -> length blk = 64%nat -> Forall (fun b => b < 256) blk ->
  sha256_transform_hw hw st blk = f256_compress st blk.
Proof. exact sha256_transform_hw_agrees. Qed.
Print Assumptions C03_sha256_transform_any_hw.

(* SHA256_Init; SHA256_Update on each part; SHA256_Final = FIPS 180-4, for every hwaccel, every
   partition (empty parts included) and every length (length field = bit length mod 2^64) *)
Theorem C03_sha256_stream_any_hw_is_fips180 :
  forall hw parts, Forall (Forall (fun b => b < 256)) parts ->
  sha256_stream_hw hw parts = SHA256_spec (concat parts).
Proof. exact sha256_stream_hw_is_spec. Qed.
Print Assumptions C03_sha256_stream_any_hw_is_fips180.

(* ... = the portable model of property C01, under any other partition of the same bytes *)
Theorem C03_sha256_stream_any_hw_eq_portable :
  forall hw parts parts', Forall (Forall (fun b => b < 256)) parts -> concat parts = concat parts' ->
  sha256_stream_hw hw parts = fst (sha256_final (fold_left sha256_update parts' sha256_init)).
Proof. exact sha256_stream_hw_eq_portable. Qed.
Print Assumptions C03_sha256_stream_any_hw_eq_portable.

(* two configurations, two partitions of the same message: the same digest *)
Theorem C03_sha256_stream_any_two_configs :
  forall hw1 hw2 parts1 parts2,
  Forall (Forall (fun b => b < 256)) parts1 -> Forall (Forall (fun b => b < 256)) parts2 ->
  concat parts1 = concat parts2 ->
  sha256_stream_hw hw1 parts1 = sha256_stream_hw hw2 parts2.
Proof. exact sha256_stream_any_two_configs. Qed.
Print Assumptions C03_sha256_stream_any_two_configs.

(* continuing from ANY context SHA256_Update can leave (8 state words, 64 buffer bytes, whole bytes
   counted): the standard's padding and compression continued from it, whatever hwaccel is *)
Theorem C03_sha256_resume_any_hw :
  forall hw c parts, wf256 c -> Forall (fun b => b < 256) (c256_buf c) ->
  Forall (Forall (fun b => b < 256)) parts ->
  fst (sha256_final_hw hw (fold_left (sha256_update_hw hw) parts c)) =
  SHA256_resume (c256_state c) (c256_count c) (c256_buf c) (concat parts).
Proof. exact sha256_resume_hw. Qed.
Print Assumptions C03_sha256_resume_any_hw.

(* SHA256_Buf *)
Theorem C03_sha256_buf_any_hw_is_fips180 :
  forall hw m, Forall (fun b => b < 256) m -> sha256_buf_hw hw m = SHA256_spec m.
Proof. exact sha256_buf_hw_is_spec. Qed.
Print Assumptions C03_sha256_buf_any_hw_is_fips180.

(* hwtest() passes in the model for the software, SHA-NI and SSE2 function codes, so hwaccel_init()
   selects by build flags and CPU feature bits only: SHA-NI+SSSE3 first, then SSE2, else software *)
Theorem C03_sha256_hwaccel_init_by_feature :
  forall built_shani_ssse3 built_sse2 cpu_shani cpu_ssse3 cpu_sse2,
  sha256_hwaccel_init built_shani_ssse3 built_sse2 cpu_shani cpu_ssse3 cpu_sse2 =
  if (built_shani_ssse3 && (cpu_shani && cpu_ssse3))%bool then HW_X86_SHANI
  else if (built_sse2 && cpu_sse2)%bool then HW_X86_SSE2 else HW_SOFTWARE.
Proof. exact sha256_hwaccel_init_by_feature. Qed.
Print Assumptions C03_sha256_hwaccel_init_by_feature.
