(* Allocation oracle and allocation events for the data-structure models (C12 / C14).
   An oracle answers one malloc/realloc request per element, in program order; when the list is
   exhausted the default answer is used (so "fail from k on" = k-1 times true, default false).
   Every model function that allocates returns the events it produced; the live blocks are a
   ghost multiset of block sizes obtained by replaying the events. *)
From Coq Require Import NArith List Bool.
Import ListNotations.
Local Open Scope N_scope.

Record oracle : Type := { ans : list bool; dflt : bool }.

Definition next (o : oracle) : bool * oracle :=
  match ans o with
  | [] => (dflt o, o)
  | b :: r => (b, {| ans := r; dflt := dflt o |})
  end.

Definition all_grant : oracle := {| ans := []; dflt := true |}.
Definition all_refuse : oracle := {| ans := []; dflt := false |}.

(* old block of a realloc: None = NULL *)
Inductive aev : Type :=
| AMalloc (sz : N) (ok : bool)
| ARealloc (old : option N) (sz : N) (ok : bool)
| AFree (sz : N).

Definition ev_refused (e : aev) : bool :=
  match e with
  | AMalloc _ ok => negb ok
  | ARealloc _ _ ok => negb ok
  | AFree _ => false
  end.

(* did the allocator refuse anything during this list of events? *)
Definition refused (evs : list aev) : bool := existsb ev_refused evs.

Definition ev_is_request (e : aev) : bool :=
  match e with AFree _ => false | _ => true end.

(* the allocation requests (sizes) in program order *)
Definition requests (evs : list aev) : list N :=
  flat_map (fun e => match e with
                     | AMalloc sz _ => [sz]
                     | ARealloc _ sz _ => [sz]
                     | AFree _ => []
                     end) evs.

(* ghost heap: multiset of the sizes of live blocks *)
Fixpoint remove1 (x : N) (h : list N) : option (list N) :=
  match h with
  | [] => None
  | y :: r => if x =? y then Some r
              else match remove1 x r with Some r' => Some (y :: r') | None => None end
  end.

(* None = the event frees / reallocs a block that is not live (double free) *)
Definition heap_apply (h : list N) (e : aev) : option (list N) :=
  match e with
  | AMalloc sz true => Some (sz :: h)
  | AMalloc _ false => Some h
  | ARealloc None sz true => Some (sz :: h)
  | ARealloc None _ false => Some h
  | ARealloc (Some o) sz true =>
    match remove1 o h with Some h' => Some (sz :: h') | None => None end
  | ARealloc (Some o) _ false =>
    match remove1 o h with Some _ => Some h | None => None end
  | AFree sz => remove1 sz h
  end.

Fixpoint heap_run (h : list N) (evs : list aev) : option (list N) :=
  match evs with
  | [] => Some h
  | e :: r => match heap_apply h e with Some h' => heap_run h' r | None => None end
  end.
