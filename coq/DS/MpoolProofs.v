(* Proofs about the object-pool model (C12 M5). *)
From Coq Require Import NArith ZArith List Bool Lia Arith Permutation.
From LCP Require Import Base.CheckedMem.
From LCP Require Import DS.AllocOracle.
From LCP Require Import DS.ElasticArray.
From LCP Require Import DS.Mpool.
Import ListNotations.
Local Open Scope N_scope.
Local Open Scope res_scope.
Ltac Zify.zify_post_hook ::= Z.to_euclidean_division_equations.

Lemma W64_val : W64 = 18446744073709551616.
Proof. reflexivity. Qed.
Global Opaque W64.

(* ------------------------------------------------------------------ *)
(* list helpers *)

Lemma remove_nth_perm {A} (l : list A) : forall k p,
  nth_error l k = Some p -> Permutation l (p :: remove_nth l k).
Proof.
  induction l as [|x l IH]; intros k p H; destruct k; cbn in H; try discriminate.
  - inversion H; subst. apply Permutation_refl.
  - cbn [remove_nth]. eapply Permutation_trans; [apply perm_skip, (IH _ _ H)|]. apply perm_swap.
Qed.

Lemma remove_ids_nil l : remove_ids l [] = l.
Proof. unfold remove_ids. induction l as [|x l IH]; cbn; [reflexivity|]. f_equal. exact IH. Qed.

Lemma filter_perm {A} (f : A -> bool) l l' : Permutation l l' -> Permutation (filter f l) (filter f l').
Proof.
  induction 1; cbn [filter].
  - apply Permutation_refl.
  - destruct (f x); [apply perm_skip|]; assumption.
  - destruct (f x), (f y); try apply Permutation_refl. apply perm_swap.
  - eapply Permutation_trans; eassumption.
Qed.

Lemma remove_ids_perm l l' ids : Permutation l l' -> Permutation (remove_ids l ids) (remove_ids l' ids).
Proof. apply filter_perm. Qed.

Lemma remove_ids_disjoint l ids : (forall x, In x l -> ~ In x ids) -> remove_ids l ids = l.
Proof.
  intros H. unfold remove_ids. induction l as [|x l IH]; cbn [filter]; [reflexivity|].
  assert (E : existsb (N.eqb x) ids = false).
  { apply not_true_is_false. intros Hex. apply existsb_exists in Hex. destruct Hex as (y & Hy & He).
    apply N.eqb_eq in He. subst y. apply (H x); [left; reflexivity|exact Hy]. }
  rewrite E. cbn [negb]. f_equal. apply IH. intros y Hy. apply H. right. exact Hy.
Qed.

Lemma remove_ids_all l : remove_ids l l = [].
Proof.
  unfold remove_ids. assert (G : forall ids, (forall x, In x l -> In x ids) ->
    filter (fun x => negb (existsb (N.eqb x) ids)) l = []).
  { induction l as [|x l IH]; intros ids H; cbn [filter]; [reflexivity|].
    assert (E : existsb (N.eqb x) ids = true).
    { apply existsb_exists. exists x. split; [apply H; left; reflexivity|apply N.eqb_refl]. }
    rewrite E. cbn [negb]. apply IH. intros y Hy. apply H. right. exact Hy. }
  apply G. auto.
Qed.

Lemma remove_ids_app l1 l2 ids : remove_ids (l1 ++ l2) ids = remove_ids l1 ids ++ remove_ids l2 ids.
Proof. apply filter_app. Qed.

(* ------------------------------------------------------------------ *)
(* invariant: cached and held objects are distinct blocks the allocator has already issued;
   the live objects are exactly those *)

Definition mp_core (w : mp_world) : Prop :=
  NoDup (mp_stack (w_pool w) ++ w_held w) /\
  (forall x, In x (mp_stack (w_pool w) ++ w_held w) -> 0 < x < mp_nextid (w_pool w)) /\
  0 < mp_nextid (w_pool w) /\
  mp_stacklen (w_pool w) <= mp_allocsize (w_pool w) /\
  mp_slots (w_pool w) = mp_allocsize (w_pool w) /\ 0 < mp_allocsize (w_pool w) /\
  Permutation (w_live w) (mp_stack (w_pool w) ++ w_held w).

(* the exit handler is registered (M->state = 1, set together with the atexit() call) as soon as
   the underlying allocator has been asked for anything: a pool whose handler is not registered
   has never obtained a block - no object, no stack *)
Definition mp_reg (w : mp_world) : Prop :=
  mp_state (w_pool w) = 1 \/
  (mp_state (w_pool w) = 0 /\ mp_nextid (w_pool w) = 1 /\ mp_static (w_pool w) = true).

Definition mp_inv (w : mp_world) : Prop := mp_core w /\ mp_reg w.

(* hence: anything cached, held or live, or an allocated stack -> the handler is registered *)
Lemma mp_inv_registered w :
  mp_inv w ->
  (mp_stack (w_pool w) <> [] \/ w_held w <> [] \/ w_live w <> [] \/
   mp_static (w_pool w) = false \/ mp_nextid (w_pool w) <> 1) ->
  mp_state (w_pool w) = 1.
Proof.
  intros ((Hnd & Hrg & Hnx & Hsl & Hslots & Hpos & Hlive) & [H1|(H0 & Hn & Hs)]) Hused; [exact H1|].
  exfalso.
  assert (Hempty : mp_stack (w_pool w) ++ w_held w = []).
  { destruct (mp_stack (w_pool w) ++ w_held w) as [|x l] eqn:E; [reflexivity|].
    specialize (Hrg x (or_introl eq_refl)). lia. }
  apply app_eq_nil in Hempty. destruct Hempty as [E1 E2].
  destruct Hused as [H|[H|[H|[H|H]]]]; try contradiction.
  - rewrite E1, E2 in Hlive. apply Permutation_sym, Permutation_nil in Hlive. contradiction.
  - rewrite Hs in H. discriminate.
Qed.

Definition mp_count (w : mp_world) : N := N.of_nat (length (mp_stack (w_pool w)) + length (w_held w)).

(* the objects the client holds after an operation *)
Definition next_held (op : mp_op) (x : mp_out) (held : list N) : list N :=
  match op, x with
  | PMalloc, POut p _ => if p =? 0 then held else held ++ [p]
  | PFree k, _ => remove_nth held (N.to_nat k)
  | _, _ => held
  end.

Lemma remove_nth_none {A} (l : list A) : forall k, nth_error l k = None -> remove_nth l k = l.
Proof.
  induction l as [|x l IH]; intros k H; destruct k; cbn in *; try discriminate; try reflexivity.
  f_equal. apply IH. exact H.
Qed.

(* what one step guarantees *)
Definition mp_post (op : mp_op) (w : mp_world) (x : mp_out) (w' : mp_world) : Prop :=
  mp_core w' /\
  (* no double handout: what malloc returns is NULL or not among the objects the client holds *)
  (forall p reg, x = POut p reg -> p = 0 \/ ~ In p (w_held w)) /\
  (* the client's objects afterwards; malloc returns a pointer, free returns nothing *)
  (w_held w' = next_held op x (w_held w) /\
   match op with PMalloc => exists p reg, x = POut p reg | _ => x = PUnit end) /\
  (mp_allocsize (w_pool w') = mp_allocsize (w_pool w) \/
   mp_allocsize (w_pool w') = 2 * mp_allocsize (w_pool w) /\
   mp_allocsize (w_pool w) = mp_stacklen (w_pool w)) /\
  mp_count w' <= mp_count w + 1.

Section Steps.
  Variables shift olen : N.

  Lemma mp_malloc_step w o :
    mp_core w ->
    exists x w' o' ev,
      mp_step shift 2 8 olen PMalloc w o = Ok (x, w', o', ev) /\ mp_post PMalloc w x w'.
  Proof.
    intros (Hnd & Hrg & Hnx & Hsl & Hslots & Hpos & Hlive).
    cbn [mp_step]. unfold mp_malloc.
    destruct (mp_stack (w_pool w)) as [|p r] eqn:Est.
    - (* the cache is empty: ask the allocator *)
      destruct (next o) as [ok o1]. cbn [bind]. destruct ok.
      + (* a fresh block *)
        cbn [mp_nextid]. destruct (N.eqb_spec (mp_nextid (w_pool w)) 0) as [|_]; [lia|].
        destruct (N.eqb_spec (mp_nextid (w_pool w) + 1) (mp_nextid (w_pool w))) as [|_]; [lia|].
        cbn [negb]. eexists _, _, _, _. split; [reflexivity|].
        assert (Hfresh : ~ In (mp_nextid (w_pool w)) (w_held w)).
        { intros Hin. specialize (Hrg _ (in_or_app _ _ _ (or_intror Hin))). lia. }
        unfold mp_post, mp_core, mp_count, mp_stacklen in *;
          cbn [w_pool w_held w_live mp_stack mp_allocsize mp_slots mp_nextid app length] in *.
        split; [|split; [|split; [|split]]].
        * split; [|split; [|split; [|split; [|split; [|split]]]]]; try assumption; try lia.
          -- eapply Permutation_NoDup; [apply Permutation_cons_append|].
             constructor; assumption.
          -- intros x Hin. apply in_app_or in Hin. destruct Hin as [Hin|[<-|[]]]; [|lia].
             specialize (Hrg x Hin). lia.
          -- eapply Permutation_trans; [apply perm_skip, Hlive|]. apply Permutation_cons_append.
        * intros p reg Hx. inversion Hx; subst. right. exact Hfresh.
        * split; [|eauto]. cbn [next_held]. destruct (N.eqb_spec (mp_nextid (w_pool w)) 0); [lia|reflexivity].
        * left. reflexivity.
        * rewrite app_length. cbn [length]. lia.
      + (* refused: NULL *)
        cbn [N.eqb]. rewrite N.eqb_refl. cbn [negb].
        eexists _, _, _, _. split; [reflexivity|].
        unfold mp_post, mp_core, mp_count, mp_stacklen in *;
          cbn [w_pool w_held w_live mp_stack mp_allocsize mp_slots mp_nextid app length] in *.
        split; [|split; [|split; [|split]]].
        * repeat split; try assumption; try lia; apply Hrg; assumption.
        * intros p reg Hx. inversion Hx; subst. left. reflexivity.
        * split; [reflexivity|eauto].
        * left. reflexivity.
        * lia.
    - (* take the object on top of the stack *)
      unfold mp_stacklen in *. rewrite Est in *. cbn [length app] in *.
      destruct (N.ltb_spec (mp_slots (w_pool w)) (N.of_nat (S (length r)))) as [Hbad|_]; [lia|].
      cbn [bind mp_nextid]. rewrite N.eqb_refl. cbn [negb].
      assert (Hp : 0 < p < mp_nextid (w_pool w)) by (apply Hrg; left; reflexivity).
      destruct (N.eqb_spec p 0) as [|_]; [lia|].
      eexists _, _, _, _. split; [reflexivity|].
      assert (Hperm : Permutation (p :: r ++ w_held w) (r ++ w_held w ++ [p])).
      { rewrite app_assoc. apply Permutation_cons_append. }
      unfold mp_post, mp_core, mp_count, mp_stacklen;
        cbn [w_pool w_held w_live mp_stack mp_allocsize mp_slots mp_nextid app length].
      split; [|split; [|split; [|split]]].
      * split; [|split; [|split; [|split; [|split; [|split]]]]]; try assumption; try lia.
        -- eapply Permutation_NoDup; [exact Hperm|exact Hnd].
        -- intros x Hin. apply Hrg. eapply Permutation_in; [apply Permutation_sym; exact Hperm|exact Hin].
        -- eapply Permutation_trans; [exact Hlive|exact Hperm].
      * intros p' reg Hx. inversion Hx; subst. right. intros Hin.
        inversion Hnd as [|? ? Hnotin _]; subst. apply Hnotin. apply in_or_app. right. exact Hin.
      * split; [|eauto]. cbn [next_held]. destruct (N.eqb_spec p 0); [lia|reflexivity].
      * left. reflexivity.
      * rewrite Est, app_length. cbn [length]. lia.
  Qed.

  Lemma remove_nth_in {A} (l : list A) : forall k x, In x (remove_nth l k) -> In x l.
  Proof.
    induction l as [|y l IH]; intros k x H; destruct k; cbn in *; auto.
    destruct H as [->|H]; [left; reflexivity|right; eapply IH; eauto].
  Qed.

  Lemma mp_free_step w o k :
    mp_core w -> mp_allocsize (w_pool w) * 16 < W64 ->
    exists x w' o' ev,
      mp_step shift 2 8 olen (PFree k) w o = Ok (x, w', o', ev) /\ mp_post (PFree k) w x w'.
  Proof.
    intros Hinv Hbig. pose proof Hinv as (Hnd & Hrg & Hnx & Hsl & Hslots & Hpos & Hlive).
    cbn [mp_step]. destruct (nth_error (w_held w) (N.to_nat k)) as [p|] eqn:Ek.
    2:{ (* the client does not hold that many objects: nothing happens *)
        eexists _, _, _, _. split; [reflexivity|]. unfold mp_post. split; [exact Hinv|].
        split; [discriminate|]. split; [split; [cbn [next_held]; rewrite remove_nth_none by exact Ek|]; reflexivity|].
        split; [left; reflexivity|lia]. }
    pose proof (remove_nth_perm _ _ _ Ek) as Hk.
    assert (Hp : 0 < p < mp_nextid (w_pool w)).
    { apply Hrg. apply in_or_app. right. eapply nth_error_In. exact Ek. }
    set (held' := remove_nth (w_held w) (N.to_nat k)) in *.
    (* all objects, with p in front *)
    assert (Hall : Permutation (mp_stack (w_pool w) ++ w_held w) (p :: mp_stack (w_pool w) ++ held')).
    { eapply Permutation_trans; [apply Permutation_app_head, Hk|]. apply Permutation_sym, Permutation_middle. }
    assert (Hnd' : NoDup (p :: mp_stack (w_pool w) ++ held')) by (eapply Permutation_NoDup; eassumption).
    assert (Hrg' : forall x, In x (p :: mp_stack (w_pool w) ++ held') -> 0 < x < mp_nextid (w_pool w)).
    { intros x Hin. apply Hrg. eapply Permutation_in; [apply Permutation_sym; exact Hall|exact Hin]. }
    (* p given back to free(): the live objects lose exactly p *)
    assert (Hfreed : Permutation (remove_ids (w_live w) [p]) (mp_stack (w_pool w) ++ held')).
    { eapply Permutation_trans; [apply remove_ids_perm; eapply Permutation_trans; [exact Hlive|exact Hall]|].
      change (p :: mp_stack (w_pool w) ++ held') with ([p] ++ (mp_stack (w_pool w) ++ held')).
      rewrite remove_ids_app, remove_ids_all. cbn [app].
      rewrite remove_ids_disjoint; [apply Permutation_refl|].
      intros x Hin [<-|[]]. inversion Hnd'; contradiction. }
    unfold mp_free. destruct (N.eqb_spec p 0) as [|_]; [lia|].
    unfold mp_stacklen in *.
    destruct (N.ltb_spec (N.of_nat (length (mp_stack (w_pool w)))) (mp_allocsize (w_pool w))) as [Hroom|Hfull].
    - (* room in the stack: cache it *)
      unfold mp_push, mp_stacklen. rewrite Hslots.
      destruct (N.ltb_spec (N.of_nat (length (mp_stack (w_pool w)))) (mp_allocsize (w_pool w))); [|lia].
      cbn [bind]. eexists _, _, _, _. split; [reflexivity|].
      unfold mp_post, mp_core, mp_count, mp_stacklen;
        cbn [w_pool w_held w_live mp_stack mp_allocsize mp_slots mp_nextid app length].
      rewrite remove_ids_nil.
      split; [|split; [discriminate|split; [split; reflexivity|split; [left; reflexivity|]]]].
      + split; [exact Hnd'|]. split; [exact Hrg'|]. split; [exact Hnx|]. split; [lia|].
        split; [first [exact Hslots|reflexivity]|]. split; [exact Hpos|].
        eapply Permutation_trans; [exact Hlive|exact Hall].
      + apply Permutation_length in Hk. cbn [length] in Hk. fold held'. lia.
    - destruct (N.ltb_spec (N.shiftr (mp_nallocs (w_pool w)) shift) (mp_nempties (w_pool w))) as [Htune|Hno].
      + (* autotuning says: double the stack *)
        destruct (N.eqb_spec (mp_allocsize (w_pool w)) 0) as [|_]; [lia|].
        rewrite W64_val in *.
        assert (Hb : ((mp_allocsize (w_pool w) * 2) mod 18446744073709551616 * 8) mod 18446744073709551616
                     = mp_allocsize (w_pool w) * 16).
        { rewrite (N.mod_small (mp_allocsize (w_pool w) * 2)) by lia. rewrite N.mod_small by lia. lia. }
        rewrite Hb.
        destruct (next o) as [ok o1]. destruct ok.
        * rewrite (N.mod_small (mp_allocsize (w_pool w) * 8)) by lia.
          rewrite (N.mod_small (mp_allocsize (w_pool w) * 2)) by lia.
          destruct (N.ltb_spec (mp_allocsize (w_pool w) * 16) (mp_allocsize (w_pool w) * 8)); [lia|].
          destruct (N.ltb_spec (mp_slots (w_pool w) * 8) (mp_allocsize (w_pool w) * 8)); [lia|].
          cbn [orb]. unfold mp_push, mp_stacklen; cbn [mp_stack mp_slots].
          replace (mp_allocsize (w_pool w) * 16 / 8) with (mp_allocsize (w_pool w) * 2) by lia.
          destruct (N.ltb_spec (N.of_nat (length (mp_stack (w_pool w)))) (mp_allocsize (w_pool w) * 2)); [|lia].
          cbn [bind]. eexists _, _, _, _. split; [reflexivity|].
          unfold mp_post, mp_core, mp_count, mp_stacklen, mp_reset_stats;
            cbn [w_pool w_held w_live mp_stack mp_allocsize mp_slots mp_nextid app length].
          rewrite remove_ids_nil.
          split; [|split; [discriminate|split; [split; reflexivity|split; [right; split; lia|]]]].
          -- split; [exact Hnd'|]. split; [intros x Hin; specialize (Hrg' x Hin); lia|].
             split; [lia|]. split; [lia|]. split; [reflexivity|]. split; [lia|].
             eapply Permutation_trans; [exact Hlive|exact Hall].
          -- apply Permutation_length in Hk. cbn [length] in Hk. fold held'. lia.
        * (* the new stack is refused: the object goes back to free() *)
          eexists _, _, _, _. split; [reflexivity|].
          unfold mp_post, mp_core, mp_count, mp_stacklen, mp_reset_stats;
            cbn [w_pool w_held w_live mp_stack mp_allocsize mp_slots mp_nextid app length].
          split; [|split; [discriminate|split; [split; reflexivity|split; [left; reflexivity|]]]].
          -- split; [inversion Hnd'; assumption|].
             split; [intros x Hin; apply Hrg'; right; exact Hin|].
             split; [exact Hnx|]. split; [lia|]. split; [exact Hslots|]. split; [exact Hpos|exact Hfreed].
          -- apply Permutation_length in Hk. cbn [length] in Hk. fold held'. lia.
      + (* no doubling: the object goes back to free() *)
        eexists _, _, _, _. split; [reflexivity|].
        unfold mp_post, mp_core, mp_count, mp_stacklen, mp_reset_stats;
          cbn [w_pool w_held w_live mp_stack mp_allocsize mp_slots mp_nextid app length].
        split; [|split; [discriminate|split; [split; reflexivity|split; [left; reflexivity|]]]].
        * split; [inversion Hnd'; assumption|].
          split; [intros x Hin; apply Hrg'; right; exact Hin|].
          split; [exact Hnx|]. split; [lia|]. split; [exact Hslots|]. split; [exact Hpos|exact Hfreed].
        * apply Permutation_length in Hk. cbn [length] in Hk. fold held'. lia.
  Qed.

  Lemma mp_freenull_step w o :
    mp_core w ->
    exists x w' o' ev,
      mp_step shift 2 8 olen PFreeNull w o = Ok (x, w', o', ev) /\ mp_post PFreeNull w x w'.
  Proof.
    intros Hinv. cbn [mp_step]. unfold mp_free. cbn [N.eqb bind].
    eexists _, _, _, _. split; [reflexivity|]. unfold mp_post. rewrite remove_ids_nil.
    destruct w as [pool held live]; cbn [w_pool w_held w_live] in *.
    split; [exact Hinv|]. split; [discriminate|]. split; [split; reflexivity|]. split; [left; reflexivity|lia].
  Qed.

  (* C12 M5 (one step) *)
  Theorem mp_step_ok op w o :
    mp_core w -> mp_allocsize (w_pool w) * 16 < W64 ->
    exists x w' o' ev, mp_step shift 2 8 olen op w o = Ok (x, w', o', ev) /\ mp_post op w x w'.
  Proof.
    intros Hinv Hbig. destruct op.
    - apply mp_malloc_step; assumption.
    - apply mp_free_step; assumption.
    - apply mp_freenull_step; assumption.
  Qed.
End Steps.

(* ------------------------------------------------------------------ *)
(* registration of the exit handler *)

(* did this operation call atexit()? *)
Definition out_reg (x : mp_out) : bool := match x with POut _ r => r | PUnit => false end.

Lemma mp_free_state shift olen m p o m1 o1 ev fr :
  mp_free shift 2 8 olen m p o = Ok (m1, o1, ev, fr) ->
  mp_state m1 = mp_state m /\ (p = 0 -> m1 = m).
Proof.
  unfold mp_free, mp_push, mp_reset_stats. intros H.
  destruct (N.eqb_spec p 0) as [Hp|Hp].
  - inversion H; subst. split; [reflexivity|auto].
  - split; [|intros; contradiction].
    repeat match type of H with
           | context [if ?c then _ else _] => destruct c; cbn [bind] in H; try discriminate
           | context [let (_, _) := next ?o in _] => destruct (next o); cbn [bind] in H
           end;
    inversion H; subst; reflexivity.
Qed.

(* one step: the registration conjunct is preserved, and M->state counts the atexit() calls *)
Lemma mp_reg_step shift olen op w o x w' o' ev :
  mp_core w -> mp_reg w ->
  mp_step shift 2 8 olen op w o = Ok (x, w', o', ev) ->
  mp_reg w' /\
  mp_state (w_pool w') = mp_state (w_pool w) + (if out_reg x then 1 else 0).
Proof.
  intros (Hnd & Hrg & Hnx & Hsl & Hslots & Hpos & Hlive) Hreg Hs.
  destruct op; cbn [mp_step] in Hs.
  - (* malloc *)
    unfold mp_malloc in Hs. destruct (mp_stack (w_pool w)) as [|p r] eqn:Est.
    + destruct (next o) as [ok o1]. cbn [bind] in Hs. inversion Hs; subst; clear Hs.
      unfold mp_reg; cbn [w_pool mp_state mp_nextid mp_static out_reg].
      destruct Hreg as [H1|(H0 & Hn & Hst)].
      * rewrite H1. cbn. split; [left|]; reflexivity.
      * rewrite H0. cbn. split; [left|]; reflexivity.
    + destruct (mp_slots (w_pool w) <? mp_stacklen (w_pool w)); [discriminate|].
      cbn [bind] in Hs. inversion Hs; subst; clear Hs.
      unfold mp_reg; cbn [w_pool mp_state mp_nextid mp_static out_reg].
      rewrite N.add_0_r. split; [|reflexivity].
      destruct Hreg as [H1|(H0 & Hn & Hst)]; [left; exact H1|].
      exfalso. specialize (Hrg p (or_introl eq_refl)). lia.
  - (* free of a held object *)
    destruct (nth_error (w_held w) (N.to_nat k)) as [p|] eqn:Ek.
    2:{ inversion Hs; subst. cbn [out_reg]. rewrite N.add_0_r. split; [exact Hreg|reflexivity]. }
    assert (Hp : 0 < p < mp_nextid (w_pool w)).
    { apply Hrg. apply in_or_app. right. eapply nth_error_In. exact Ek. }
    destruct (mp_free shift 2 8 olen (w_pool w) p o) as [[[[m1 o1] ev1] fr]| | |] eqn:Ef;
      cbn [bind] in Hs; try discriminate.
    inversion Hs; subst; clear Hs. apply mp_free_state in Ef. destruct Ef as [Est _].
    unfold mp_reg; cbn [w_pool out_reg]. rewrite N.add_0_r, Est. split; [|reflexivity].
    destruct Hreg as [H1|(H0 & Hn & Hst)]; [left; exact H1|lia].
  - (* free(NULL) *)
    destruct (mp_free shift 2 8 olen (w_pool w) 0 o) as [[[[m1 o1] ev1] fr]| | |] eqn:Ef;
      cbn [bind] in Hs; try discriminate.
    inversion Hs; subst; clear Hs. apply mp_free_state in Ef. destruct Ef as [_ Em].
    rewrite (Em eq_refl). unfold mp_reg; cbn [w_pool out_reg]. rewrite N.add_0_r.
    split; [exact Hreg|reflexivity].
Qed.


(* ------------------------------------------------------------------ *)
(* whole programs *)

Definition ptr_out (t : mp_out * mp_world * list aev) : mp_out := fst (fst t).
Definition ptr_w (t : mp_out * mp_world * list aev) : mp_world := snd (fst t).
Definition out_ptr (x : mp_out) : N := match x with POut p _ => p | PUnit => 0 end.

Lemma mp_new_inv size : 0 < size -> mp_inv (mp_world0 size).
Proof.
  intros H. split.
  - unfold mp_core, mp_world0, mp_new, mp_stacklen; cbn.
    repeat split; try lia; try constructor; try (intros x []); try (destruct H0).
  - right. cbn. repeat split.
Qed.

(* C12 M5: for every program on a pool created with [size] > 0 (short enough for the stack's byte
   count to stay below 2^64) and every oracle: no Fault / AssertFail, and the spec predicate holds
   on the pointers returned - malloc never returns an object the client still holds *)
Theorem mp_run_ok shift olen size ops : forall w o k,
  mp_inv w -> mp_count w <= k -> mp_allocsize (w_pool w) <= N.max size (2 * k) ->
  N.max size (2 * (k + N.of_nat (length ops))) * 16 < W64 ->
  exists tr,
    mp_run shift 2 8 olen ops w o = Ok tr /\
    Forall (fun t => mp_inv (ptr_w t)) tr /\
    mp_spec_ok ops (map (fun t => out_ptr (ptr_out t)) tr) (w_held w) = true.
Proof.
  induction ops as [|op ops IH]; intros w o k [Hinv Hreg] Hcnt Hsz Hbig.
  - exists []. repeat split. constructor.
  - cbn [length] in Hbig.
    assert (Hb1 : mp_allocsize (w_pool w) * 16 < W64) by lia.
    destruct (mp_step_ok shift olen op w o Hinv Hb1) as (x & w1 & o1 & ev & Hs & Hcore1 & Hho & (Hheld & Hshape) & Hal & Hc1).
    destruct (mp_reg_step shift olen op w o x w1 o1 ev Hinv Hreg Hs) as [Hreg1 _].
    assert (Hinv1 : mp_inv w1) by (split; assumption).
    assert (A1 : mp_count w1 <= k + 1) by lia.
    assert (A2 : mp_allocsize (w_pool w1) <= N.max size (2 * (k + 1))).
    { destruct Hal as [->|(-> & Heq)]; [lia|]. unfold mp_count in Hcnt. unfold mp_stacklen in Heq. lia. }
    assert (A3 : N.max size (2 * (k + 1 + N.of_nat (length ops))) * 16 < W64).
    { replace (k + 1 + N.of_nat (length ops)) with (k + N.of_nat (S (length ops))) by lia. exact Hbig. }
    destruct (IH w1 o1 (k + 1) Hinv1 A1 A2 A3) as (tr & Hr & Hf & Hspec).
    cbn [mp_run]. rewrite Hs. cbn [bind]. rewrite Hr. cbn [bind].
    eexists. split; [reflexivity|]. split; [constructor; assumption|].
    cbn [map]. unfold ptr_out at 1; cbn [fst snd]. rewrite Hheld in Hspec.
    destruct op; cbn [mp_spec_ok next_held] in *.
    + destruct Hshape as (p & reg & ->). cbn [out_ptr next_held] in *.
      destruct (N.eqb_spec p 0) as [->|Hp]; [exact Hspec|].
      destruct (Hho p reg eq_refl) as [|Hnotin]; [contradiction|].
      assert (E : existsb (N.eqb p) (w_held w) = false).
      { apply not_true_is_false. intros Hex. apply existsb_exists in Hex. destruct Hex as (y & Hy & He).
        apply N.eqb_eq in He. subst y. contradiction. }
      rewrite E. exact Hspec.
    + exact Hspec.
    + exact Hspec.
Qed.

(* from the pool as MPOOL(name, type, size) creates it *)
Corollary mp_no_double_handout shift olen size ops o :
  0 < size -> N.max size (2 * N.of_nat (length ops)) * 16 < W64 ->
  exists tr,
    mp_run shift 2 8 olen ops (mp_world0 size) o = Ok tr /\
    mp_spec_ok ops (map (fun t => out_ptr (ptr_out t)) tr) [] = true.
Proof.
  intros Hs Hbig.
  destruct (mp_run_ok shift olen size ops (mp_world0 size) o 0) as (tr & Hr & _ & Hspec).
  - apply mp_new_inv. exact Hs.
  - cbn. lia.
  - cbn. lia.
  - exact Hbig.
  - exists tr. split; assumption.
Qed.

(* C12 M5 (exit): the handler registered with atexit gives every cached object back to free()
   - afterwards the live objects are exactly those the client still holds - and frees the stack
   if it was allocated *)
Theorem mp_atexit_frees_all psz olen w :
  mp_inv w ->
  let '(pool', ev, freed) := mp_atexit psz olen (w_pool w) in
  freed = mp_stack (w_pool w) /\ mp_stack pool' = [] /\
  Permutation (remove_ids (w_live w) freed) (w_held w) /\
  ev = map (fun _ => AFree olen) (mp_stack (w_pool w)) ++
       (if mp_static (w_pool w) then [] else [AFree (mp_slots (w_pool w) * psz)]).
Proof.
  intros ((Hnd & Hrg & Hnx & Hsl & Hslots & Hpos & Hlive) & _). unfold mp_atexit.
  split; [reflexivity|]. split; [reflexivity|]. split; [|reflexivity].
  eapply Permutation_trans; [apply remove_ids_perm, Hlive|].
  rewrite remove_ids_app, remove_ids_all. cbn [app].
  rewrite remove_ids_disjoint; [apply Permutation_refl|].
  intros x Hin Hin'. clear -Hnd Hin Hin'.
  induction (mp_stack (w_pool w)) as [|y l IH]; [destruct Hin'|].
  cbn [app] in Hnd. inversion Hnd as [|? ? Hnotin Hnd']; subst.
  destruct Hin' as [->|Hin']; [apply Hnotin; apply in_or_app; right; exact Hin|auto].
Qed.

(* ------------------------------------------------------------------ *)
(* the exit handler is registered in time, exactly once, and returns everything *)

(* number of atexit() calls made during a trace *)
Definition reg_calls (tr : list (mp_out * mp_world * list aev)) : N :=
  N.of_nat (length (filter (fun t => out_reg (ptr_out t)) tr)).

Lemma reg_calls_cons t tr :
  reg_calls (t :: tr) = (if out_reg (ptr_out t) then 1 else 0) + reg_calls tr.
Proof. unfold reg_calls. cbn [filter]. destruct (out_reg (ptr_out t)); cbn [length]; lia. Qed.

Lemma mp_state_01 w : mp_inv w -> mp_state (w_pool w) = 0 \/ mp_state (w_pool w) = 1.
Proof. intros [_ [H|(H & _)]]; auto. Qed.

Lemma mp_run_cons_inv shift olen op ops w o tr :
  mp_run shift 2 8 olen (op :: ops) w o = Ok tr ->
  exists x w1 o1 ev tr',
    mp_step shift 2 8 olen op w o = Ok (x, w1, o1, ev) /\
    mp_run shift 2 8 olen ops w1 o1 = Ok tr' /\ tr = (x, w1, ev) :: tr'.
Proof.
  cbn [mp_run]. intros H.
  destruct (mp_step shift 2 8 olen op w o) as [[[[x w1] o1] ev]| | |]; cbn [bind] in H; try discriminate.
  destruct (mp_run shift 2 8 olen ops w1 o1) as [tr'| | |] eqn:Er; cbn [bind] in H; try discriminate.
  inversion H; subst. exists x, w1, o1, ev, tr'. split; [reflexivity|]. split; [exact Er|reflexivity].
Qed.

(* along any run whose states satisfy the invariant: after every operation M->state is the state
   at the start plus the number of atexit() calls so far, and it is 1 from the first operation
   that returned an object on *)
Lemma mp_run_states shift olen : forall ops w o tr,
  mp_inv w ->
  mp_run shift 2 8 olen ops w o = Ok tr ->
  Forall (fun t => mp_inv (ptr_w t)) tr ->
  forall pre t post, tr = pre ++ t :: post ->
    mp_state (w_pool (ptr_w t)) = mp_state (w_pool w) + reg_calls (pre ++ [t]) /\
    ((exists t', In t' (pre ++ [t]) /\ out_ptr (ptr_out t') <> 0) -> mp_state (w_pool (ptr_w t)) = 1).
Proof.
  induction ops as [|op ops IH]; intros w o tr Hinv Hr Hall pre t post Htr.
  - cbn in Hr. inversion Hr; subst. destruct pre; discriminate.
  - apply mp_run_cons_inv in Hr. destruct Hr as (x & w1 & o1 & ev & tr' & Hs & Hr' & ->).
    inversion Hall as [|? ? Hinv1 Hall']; subst. cbn [ptr_w fst snd] in Hinv1.
    destruct Hinv as [Hcore Hreg].
    destruct (mp_reg_step shift olen op w o x w1 o1 ev Hcore Hreg Hs) as [_ Hst].
    (* an object returned by this very operation -> registered *)
    assert (Hnow : out_ptr x <> 0 -> mp_state (w_pool w1) = 1).
    { intros Hx. apply mp_inv_registered; [exact Hinv1|]. right. left.
      destruct op; cbn [mp_step] in Hs.
      - destruct (mp_malloc olen (w_pool w) o) as [[[[[p reg] m1] o2] ev2]| | |]; cbn [bind] in Hs;
          try discriminate.
        inversion Hs; subst. cbn [out_ptr] in Hx. cbn [w_held].
        destruct (N.eqb_spec p 0); [contradiction|]. intros E. apply app_eq_nil in E. destruct E; discriminate.
      - exfalso. apply Hx. destruct (nth_error (w_held w) (N.to_nat k)).
        + destruct (mp_free shift 2 8 olen (w_pool w) n o) as [[[[? ?] ?] ?]| | |]; cbn [bind] in Hs;
            try discriminate. inversion Hs; reflexivity.
        + inversion Hs; reflexivity.
      - exfalso. apply Hx.
        destruct (mp_free shift 2 8 olen (w_pool w) 0 o) as [[[[? ?] ?] ?]| | |]; cbn [bind] in Hs;
          try discriminate. inversion Hs; reflexivity. }
    destruct pre as [|t0 pre].
    + cbn [app] in Htr. inversion Htr; subst. cbn [ptr_w fst snd app].
      rewrite reg_calls_cons. unfold reg_calls at 1. cbn [filter length ptr_out fst].
      split; [rewrite Hst; lia|].
      intros (t' & [<-|[]] & Hp). apply Hnow. exact Hp.
    + cbn [app] in Htr. inversion Htr; subst.
      destruct (IH w1 o1 _ Hinv1 Hr' Hall' pre t post eq_refl) as [Heq Hex].
      assert (Ht : mp_inv (ptr_w t)).
      { rewrite Forall_forall in Hall'. apply Hall'. apply in_or_app. right. left. reflexivity. }
      pose proof (mp_state_01 _ Ht) as H01.
      cbn [app]. rewrite reg_calls_cons. cbn [ptr_out fst].
      split; [rewrite Heq, Hst; lia|].
      intros (t' & [<-|Hin] & Hp).
      * cbn [ptr_out fst] in Hp. specialize (Hnow Hp). lia.
      * apply Hex. exists t'. split; assumption.
Qed.

(* C12 M5 (registration): for every program on a pool created by MPOOL(name, type, size), under
   every oracle: after every operation the invariant holds (so: anything cached, held or live ->
   M->state = 1), the number of atexit() calls made so far equals M->state (0 or 1: the handler is
   registered at most once), and from the first malloc that returned an object on it is 1 *)
Theorem mp_exit_handler_registered shift olen size ops o :
  0 < size -> N.max size (2 * N.of_nat (length ops)) * 16 < W64 ->
  exists tr,
    mp_run shift 2 8 olen ops (mp_world0 size) o = Ok tr /\
    forall pre t post, tr = pre ++ t :: post ->
      mp_inv (ptr_w t) /\
      reg_calls (pre ++ [t]) = mp_state (w_pool (ptr_w t)) /\
      ((exists t', In t' (pre ++ [t]) /\ out_ptr (ptr_out t') <> 0) -> reg_calls (pre ++ [t]) = 1).
Proof.
  intros Hs Hbig.
  destruct (mp_run_ok shift olen size ops (mp_world0 size) o 0) as (tr & Hr & Hall & _).
  - apply mp_new_inv. exact Hs.
  - cbn. lia.
  - cbn. lia.
  - exact Hbig.
  - exists tr. split; [exact Hr|]. intros pre t post Htr.
    destruct (mp_run_states shift olen ops _ o tr (mp_new_inv size Hs) Hr Hall pre t post Htr) as [Heq Hex].
    cbn [mp_world0 w_pool mp_new mp_state] in Heq. rewrite N.add_0_l in Heq.
    split; [|split].
    + rewrite Forall_forall in Hall. apply Hall. subst tr. apply in_or_app. right. left. reflexivity.
    + symmetry. exact Heq.
    + intros H. rewrite <- Heq. apply Hex. exact H.
Qed.

(* the state a program ends in *)
Definition mp_final (w0 : mp_world) (tr : list (mp_out * mp_world * list aev)) : mp_world :=
  ptr_w (last tr (PUnit, w0, [])).

(* process exit in a world satisfying the invariant: nothing stays cached, the live objects are
   exactly those the client holds, the events are one free() per cached object plus the stack if
   it was allocated - whether or not the handler had to be registered *)
Lemma mp_exit_spec psz olen w :
  mp_inv w ->
  let '(w', ev) := mp_exit psz olen w in
  mp_stack (w_pool w') = [] /\ w_held w' = w_held w /\
  Permutation (w_live w') (w_held w) /\
  ev = map (fun _ => AFree olen) (mp_stack (w_pool w)) ++
       (if mp_static (w_pool w) then [] else [AFree (mp_slots (w_pool w) * psz)]).
Proof.
  intros Hinv. unfold mp_exit. destruct (N.eqb_spec (mp_state (w_pool w)) 0) as [H0|H1].
  - (* not registered: then nothing was ever obtained from the allocator *)
    assert (Hs : mp_stack (w_pool w) = []).
    { destruct (mp_stack (w_pool w)) eqn:E; [reflexivity|].
      assert (mp_state (w_pool w) = 1) by (apply mp_inv_registered; [exact Hinv|left; rewrite E; discriminate]). lia. }
    assert (Hst : mp_static (w_pool w) = true).
    { destruct (mp_static (w_pool w)) eqn:E; [reflexivity|].
      assert (mp_state (w_pool w) = 1) by (apply mp_inv_registered; [exact Hinv|right; right; right; left; exact E]). lia. }
    rewrite Hst. cbn [w_pool]. rewrite Hs. cbn [map app]. split; [reflexivity|]. split; [reflexivity|]. split; [|reflexivity].
    destruct Hinv as ((_ & _ & _ & _ & _ & _ & Hlive) & _). rewrite Hs in Hlive. exact Hlive.
  - pose proof (mp_atexit_frees_all psz olen w Hinv) as H.
    destruct (mp_atexit psz olen (w_pool w)) as [[m1 ev] freed]. cbn [w_pool w_held w_live].
    destruct H as (Hf & Hst & Hp & Hev). repeat split; assumption.
Qed.

(* C12 M5 (exit): after ANY program on a pool created by MPOOL(name, type, size), process exit -
   the handler runs iff atexit() was called for it - returns every cached object: afterwards the
   cache is empty and the live objects are exactly those the client still holds *)
Theorem mp_exit_returns_all shift olen size ops o :
  0 < size -> N.max size (2 * N.of_nat (length ops)) * 16 < W64 ->
  exists tr,
    mp_run shift 2 8 olen ops (mp_world0 size) o = Ok tr /\
    let wf := mp_final (mp_world0 size) tr in
    reg_calls tr = mp_state (w_pool wf) /\
    let '(w', ev) := mp_exit 8 olen wf in
    mp_stack (w_pool w') = [] /\ w_held w' = w_held wf /\
    Permutation (w_live w') (w_held wf) /\
    ev = map (fun _ => AFree olen) (mp_stack (w_pool wf)) ++
         (if mp_static (w_pool wf) then [] else [AFree (mp_slots (w_pool wf) * 8)]).
Proof.
  intros Hs Hbig.
  destruct (mp_exit_handler_registered shift olen size ops o Hs Hbig) as (tr & Hr & Hall).
  exists tr. split; [exact Hr|]. cbv zeta. unfold mp_final.
  destruct tr as [|t0 tr0] using rev_ind.
  - cbn [last ptr_w fst snd]. split; [reflexivity|]. apply mp_exit_spec. apply mp_new_inv. exact Hs.
  - clear IHtr0. rewrite last_last.
    destruct (Hall tr0 t0 [] eq_refl) as (Hinv & Hcnt & _).
    split; [exact Hcnt|]. apply mp_exit_spec. exact Hinv.
Qed.

(* ------------------------------------------------------------------ *)
(* examples *)

(* pool of size 2: three objects freed -> the third free doubles the stack (3 > 3 >> 8);
   the next mallocs hand the cached objects out again in LIFO order, never one still held *)
Definition pex_prog : list mp_op :=
  [PMalloc; PMalloc; PMalloc; PFree 1; PMalloc; PFree 0; PFree 0; PFree 0; PMalloc; PMalloc; PFreeNull].

Example pex_runs :
  exists tr, mp_run 8 2 8 24 pex_prog (mp_world0 2) all_grant = Ok tr /\
             map (fun t => out_ptr (ptr_out t)) tr = [1; 2; 3; 0; 2; 0; 0; 0; 2; 3; 0] /\
             mp_spec_ok pex_prog (map (fun t => out_ptr (ptr_out t)) tr) [] = true /\
             mp_allocsize (w_pool (ptr_w (last tr (PUnit, mp_world0 2, [])))) = 4.
Proof.
  eexists. split; [vm_compute; reflexivity|]. split; [vm_compute; reflexivity|].
  split; vm_compute; reflexivity.
Qed.

(* the spec predicate is not trivially true: handing out object 1 twice is rejected *)
Example pex_spec_rejects : mp_spec_ok [PMalloc; PMalloc] [1; 1] [] = false.
Proof. reflexivity. Qed.

(* a pool whose cache never overflows: the handler is registered by the very first malloc and the
   exit returns both cached objects *)
Example pex_exit :
  exists tr, mp_run 8 2 8 24 [PMalloc; PMalloc; PFree 0; PFree 0] (mp_world0 4) all_grant = Ok tr /\
             map (fun t => out_reg (ptr_out t)) tr = [true; false; false; false] /\
             reg_calls tr = 1 /\
             snd (mp_exit 8 24 (mp_final (mp_world0 4) tr)) = [AFree 24; AFree 24].
Proof. eexists. split; [vm_compute; reflexivity|]. repeat split; vm_compute; reflexivity. Qed.
