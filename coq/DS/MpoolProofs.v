(* Proofs about the object-pool model (C12 M5). *)
From Coq Require Import NArith ZArith List Bool Lia Arith Permutation.
From LCP Require Import Base.CheckedMem.
From LCP Require Import DS.AllocOracle.
From LCP Require Import DS.ElasticArray.
From LCP Require Import DS.Mpool.
Import ListNotations.
Local Open Scope N_scope.
Local Open Scope res_scope.
Ltac Zify.zify_post_hook ::= Z.to_euclidean_division_equations.

Lemma W64_val : W64 = 18446744073709551616.
Proof. reflexivity. Qed.
Global Opaque W64.

(* ------------------------------------------------------------------ *)
(* list helpers *)

Lemma remove_nth_perm {A} (l : list A) : forall k p,
  nth_error l k = Some p -> Permutation l (p :: remove_nth l k).
Proof.
  induction l as [|x l IH]; intros k p H; destruct k; cbn in H; try discriminate.
  - inversion H; subst. apply Permutation_refl.
  - cbn [remove_nth]. eapply Permutation_trans; [apply perm_skip, (IH _ _ H)|]. apply perm_swap.
Qed.

Lemma remove_ids_nil l : remove_ids l [] = l.
Proof. unfold remove_ids. induction l as [|x l IH]; cbn; [reflexivity|]. f_equal. exact IH. Qed.

Lemma filter_perm {A} (f : A -> bool) l l' : Permutation l l' -> Permutation (filter f l) (filter f l').
Proof.
  induction 1; cbn [filter].
  - apply Permutation_refl.
  - destruct (f x); [apply perm_skip|]; assumption.
  - destruct (f x), (f y); try apply Permutation_refl. apply perm_swap.
  - eapply Permutation_trans; eassumption.
Qed.

Lemma remove_ids_perm l l' ids : Permutation l l' -> Permutation (remove_ids l ids) (remove_ids l' ids).
Proof. apply filter_perm. Qed.

Lemma remove_ids_disjoint l ids : (forall x, In x l -> ~ In x ids) -> remove_ids l ids = l.
Proof.
  intros H. unfold remove_ids. induction l as [|x l IH]; cbn [filter]; [reflexivity|].
  assert (E : existsb (N.eqb x) ids = false).
  { apply not_true_is_false. intros Hex. apply existsb_exists in Hex. destruct Hex as (y & Hy & He).
    apply N.eqb_eq in He. subst y. apply (H x); [left; reflexivity|exact Hy]. }
  rewrite E. cbn [negb]. f_equal. apply IH. intros y Hy. apply H. right. exact Hy.
Qed.

Lemma remove_ids_all l : remove_ids l l = [].
Proof.
  unfold remove_ids. assert (G : forall ids, (forall x, In x l -> In x ids) ->
    filter (fun x => negb (existsb (N.eqb x) ids)) l = []).
  { induction l as [|x l IH]; intros ids H; cbn [filter]; [reflexivity|].
    assert (E : existsb (N.eqb x) ids = true).
    { apply existsb_exists. exists x. split; [apply H; left; reflexivity|apply N.eqb_refl]. }
    rewrite E. cbn [negb]. apply IH. intros y Hy. apply H. right. exact Hy. }
  apply G. auto.
Qed.

Lemma remove_ids_app l1 l2 ids : remove_ids (l1 ++ l2) ids = remove_ids l1 ids ++ remove_ids l2 ids.
Proof. apply filter_app. Qed.

(* ------------------------------------------------------------------ *)
(* invariant: cached and held objects are distinct blocks the allocator has already issued;
   the live objects are exactly those *)

Definition mp_inv (w : mp_world) : Prop :=
  NoDup (mp_stack (w_pool w) ++ w_held w) /\
  (forall x, In x (mp_stack (w_pool w) ++ w_held w) -> 0 < x < mp_nextid (w_pool w)) /\
  0 < mp_nextid (w_pool w) /\
  mp_stacklen (w_pool w) <= mp_allocsize (w_pool w) /\
  mp_slots (w_pool w) = mp_allocsize (w_pool w) /\ 0 < mp_allocsize (w_pool w) /\
  Permutation (w_live w) (mp_stack (w_pool w) ++ w_held w).

Definition mp_count (w : mp_world) : N := N.of_nat (length (mp_stack (w_pool w)) + length (w_held w)).

(* the objects the client holds after an operation *)
Definition next_held (op : mp_op) (x : mp_out) (held : list N) : list N :=
  match op, x with
  | PMalloc, POut p _ => if p =? 0 then held else held ++ [p]
  | PFree k, _ => remove_nth held (N.to_nat k)
  | _, _ => held
  end.

Lemma remove_nth_none {A} (l : list A) : forall k, nth_error l k = None -> remove_nth l k = l.
Proof.
  induction l as [|x l IH]; intros k H; destruct k; cbn in *; try discriminate; try reflexivity.
  f_equal. apply IH. exact H.
Qed.

(* what one step guarantees *)
Definition mp_post (op : mp_op) (w : mp_world) (x : mp_out) (w' : mp_world) : Prop :=
  mp_inv w' /\
  (* no double handout: what malloc returns is NULL or not among the objects the client holds *)
  (forall p reg, x = POut p reg -> p = 0 \/ ~ In p (w_held w)) /\
  (* the client's objects afterwards; malloc returns a pointer, free returns nothing *)
  (w_held w' = next_held op x (w_held w) /\
   match op with PMalloc => exists p reg, x = POut p reg | _ => x = PUnit end) /\
  (mp_allocsize (w_pool w') = mp_allocsize (w_pool w) \/
   mp_allocsize (w_pool w') = 2 * mp_allocsize (w_pool w) /\
   mp_allocsize (w_pool w) = mp_stacklen (w_pool w)) /\
  mp_count w' <= mp_count w + 1.

Section Steps.
  Variables shift olen : N.

  Lemma mp_malloc_step w o :
    mp_inv w ->
    exists x w' o' ev,
      mp_step shift 2 8 olen PMalloc w o = Ok (x, w', o', ev) /\ mp_post PMalloc w x w'.
  Proof.
    intros (Hnd & Hrg & Hnx & Hsl & Hslots & Hpos & Hlive).
    cbn [mp_step]. unfold mp_malloc.
    destruct (mp_stack (w_pool w)) as [|p r] eqn:Est.
    - (* the cache is empty: ask the allocator *)
      destruct (next o) as [ok o1]. cbn [bind]. destruct ok.
      + (* a fresh block *)
        cbn [mp_nextid]. destruct (N.eqb_spec (mp_nextid (w_pool w)) 0) as [|_]; [lia|].
        destruct (N.eqb_spec (mp_nextid (w_pool w) + 1) (mp_nextid (w_pool w))) as [|_]; [lia|].
        cbn [negb]. eexists _, _, _, _. split; [reflexivity|].
        assert (Hfresh : ~ In (mp_nextid (w_pool w)) (w_held w)).
        { intros Hin. specialize (Hrg _ (in_or_app _ _ _ (or_intror Hin))). lia. }
        unfold mp_post, mp_inv, mp_count, mp_stacklen in *;
          cbn [w_pool w_held w_live mp_stack mp_allocsize mp_slots mp_nextid app length] in *.
        split; [|split; [|split; [|split]]].
        * split; [|split; [|split; [|split; [|split; [|split]]]]]; try assumption; try lia.
          -- eapply Permutation_NoDup; [apply Permutation_cons_append|].
             constructor; assumption.
          -- intros x Hin. apply in_app_or in Hin. destruct Hin as [Hin|[<-|[]]]; [|lia].
             specialize (Hrg x Hin). lia.
          -- eapply Permutation_trans; [apply perm_skip, Hlive|]. apply Permutation_cons_append.
        * intros p reg Hx. inversion Hx; subst. right. exact Hfresh.
        * split; [|eauto]. cbn [next_held]. destruct (N.eqb_spec (mp_nextid (w_pool w)) 0); [lia|reflexivity].
        * left. reflexivity.
        * rewrite app_length. cbn [length]. lia.
      + (* refused: NULL *)
        cbn [N.eqb]. rewrite N.eqb_refl. cbn [negb].
        eexists _, _, _, _. split; [reflexivity|].
        unfold mp_post, mp_inv, mp_count, mp_stacklen in *;
          cbn [w_pool w_held w_live mp_stack mp_allocsize mp_slots mp_nextid app length] in *.
        split; [|split; [|split; [|split]]].
        * repeat split; try assumption; try lia; apply Hrg; assumption.
        * intros p reg Hx. inversion Hx; subst. left. reflexivity.
        * split; [reflexivity|eauto].
        * left. reflexivity.
        * lia.
    - (* take the object on top of the stack *)
      unfold mp_stacklen in *. rewrite Est in *. cbn [length app] in *.
      destruct (N.ltb_spec (mp_slots (w_pool w)) (N.of_nat (S (length r)))) as [Hbad|_]; [lia|].
      cbn [bind mp_nextid]. rewrite N.eqb_refl. cbn [negb].
      assert (Hp : 0 < p < mp_nextid (w_pool w)) by (apply Hrg; left; reflexivity).
      destruct (N.eqb_spec p 0) as [|_]; [lia|].
      eexists _, _, _, _. split; [reflexivity|].
      assert (Hperm : Permutation (p :: r ++ w_held w) (r ++ w_held w ++ [p])).
      { rewrite app_assoc. apply Permutation_cons_append. }
      unfold mp_post, mp_inv, mp_count, mp_stacklen;
        cbn [w_pool w_held w_live mp_stack mp_allocsize mp_slots mp_nextid app length].
      split; [|split; [|split; [|split]]].
      * split; [|split; [|split; [|split; [|split; [|split]]]]]; try assumption; try lia.
        -- eapply Permutation_NoDup; [exact Hperm|exact Hnd].
        -- intros x Hin. apply Hrg. eapply Permutation_in; [apply Permutation_sym; exact Hperm|exact Hin].
        -- eapply Permutation_trans; [exact Hlive|exact Hperm].
      * intros p' reg Hx. inversion Hx; subst. right. intros Hin.
        inversion Hnd as [|? ? Hnotin _]; subst. apply Hnotin. apply in_or_app. right. exact Hin.
      * split; [|eauto]. cbn [next_held]. destruct (N.eqb_spec p 0); [lia|reflexivity].
      * left. reflexivity.
      * rewrite Est, app_length. cbn [length]. lia.
  Qed.

  Lemma remove_nth_in {A} (l : list A) : forall k x, In x (remove_nth l k) -> In x l.
  Proof.
    induction l as [|y l IH]; intros k x H; destruct k; cbn in *; auto.
    destruct H as [->|H]; [left; reflexivity|right; eapply IH; eauto].
  Qed.

  Lemma mp_free_step w o k :
    mp_inv w -> mp_allocsize (w_pool w) * 16 < W64 ->
    exists x w' o' ev,
      mp_step shift 2 8 olen (PFree k) w o = Ok (x, w', o', ev) /\ mp_post (PFree k) w x w'.
  Proof.
    intros Hinv Hbig. pose proof Hinv as (Hnd & Hrg & Hnx & Hsl & Hslots & Hpos & Hlive).
    cbn [mp_step]. destruct (nth_error (w_held w) (N.to_nat k)) as [p|] eqn:Ek.
    2:{ (* the client does not hold that many objects: nothing happens *)
        eexists _, _, _, _. split; [reflexivity|]. unfold mp_post. split; [exact Hinv|].
        split; [discriminate|]. split; [split; [cbn [next_held]; rewrite remove_nth_none by exact Ek|]; reflexivity|].
        split; [left; reflexivity|lia]. }
    pose proof (remove_nth_perm _ _ _ Ek) as Hk.
    assert (Hp : 0 < p < mp_nextid (w_pool w)).
    { apply Hrg. apply in_or_app. right. eapply nth_error_In. exact Ek. }
    set (held' := remove_nth (w_held w) (N.to_nat k)) in *.
    (* all objects, with p in front *)
    assert (Hall : Permutation (mp_stack (w_pool w) ++ w_held w) (p :: mp_stack (w_pool w) ++ held')).
    { eapply Permutation_trans; [apply Permutation_app_head, Hk|]. apply Permutation_sym, Permutation_middle. }
    assert (Hnd' : NoDup (p :: mp_stack (w_pool w) ++ held')) by (eapply Permutation_NoDup; eassumption).
    assert (Hrg' : forall x, In x (p :: mp_stack (w_pool w) ++ held') -> 0 < x < mp_nextid (w_pool w)).
    { intros x Hin. apply Hrg. eapply Permutation_in; [apply Permutation_sym; exact Hall|exact Hin]. }
    (* p given back to free(): the live objects lose exactly p *)
    assert (Hfreed : Permutation (remove_ids (w_live w) [p]) (mp_stack (w_pool w) ++ held')).
    { eapply Permutation_trans; [apply remove_ids_perm; eapply Permutation_trans; [exact Hlive|exact Hall]|].
      change (p :: mp_stack (w_pool w) ++ held') with ([p] ++ (mp_stack (w_pool w) ++ held')).
      rewrite remove_ids_app, remove_ids_all. cbn [app].
      rewrite remove_ids_disjoint; [apply Permutation_refl|].
      intros x Hin [<-|[]]. inversion Hnd'; contradiction. }
    unfold mp_free. destruct (N.eqb_spec p 0) as [|_]; [lia|].
    unfold mp_stacklen in *.
    destruct (N.ltb_spec (N.of_nat (length (mp_stack (w_pool w)))) (mp_allocsize (w_pool w))) as [Hroom|Hfull].
    - (* room in the stack: cache it *)
      unfold mp_push, mp_stacklen. rewrite Hslots.
      destruct (N.ltb_spec (N.of_nat (length (mp_stack (w_pool w)))) (mp_allocsize (w_pool w))); [|lia].
      cbn [bind]. eexists _, _, _, _. split; [reflexivity|].
      unfold mp_post, mp_inv, mp_count, mp_stacklen;
        cbn [w_pool w_held w_live mp_stack mp_allocsize mp_slots mp_nextid app length].
      rewrite remove_ids_nil.
      split; [|split; [discriminate|split; [split; reflexivity|split; [left; reflexivity|]]]].
      + split; [exact Hnd'|]. split; [exact Hrg'|]. split; [exact Hnx|]. split; [lia|].
        split; [first [exact Hslots|reflexivity]|]. split; [exact Hpos|].
        eapply Permutation_trans; [exact Hlive|exact Hall].
      + apply Permutation_length in Hk. cbn [length] in Hk. fold held'. lia.
    - destruct (N.ltb_spec (N.shiftr (mp_nallocs (w_pool w)) shift) (mp_nempties (w_pool w))) as [Htune|Hno].
      + (* autotuning says: double the stack *)
        destruct (N.eqb_spec (mp_allocsize (w_pool w)) 0) as [|_]; [lia|].
        rewrite W64_val in *.
        assert (Hb : ((mp_allocsize (w_pool w) * 2) mod 18446744073709551616 * 8) mod 18446744073709551616
                     = mp_allocsize (w_pool w) * 16).
        { rewrite (N.mod_small (mp_allocsize (w_pool w) * 2)) by lia. rewrite N.mod_small by lia. lia. }
        rewrite Hb.
        destruct (next o) as [ok o1]. destruct ok.
        * rewrite (N.mod_small (mp_allocsize (w_pool w) * 8)) by lia.
          rewrite (N.mod_small (mp_allocsize (w_pool w) * 2)) by lia.
          destruct (N.ltb_spec (mp_allocsize (w_pool w) * 16) (mp_allocsize (w_pool w) * 8)); [lia|].
          destruct (N.ltb_spec (mp_slots (w_pool w) * 8) (mp_allocsize (w_pool w) * 8)); [lia|].
          cbn [orb]. unfold mp_push, mp_stacklen; cbn [mp_stack mp_slots].
          replace (mp_allocsize (w_pool w) * 16 / 8) with (mp_allocsize (w_pool w) * 2) by lia.
          destruct (N.ltb_spec (N.of_nat (length (mp_stack (w_pool w)))) (mp_allocsize (w_pool w) * 2)); [|lia].
          cbn [bind]. eexists _, _, _, _. split; [reflexivity|].
          unfold mp_post, mp_inv, mp_count, mp_stacklen, mp_reset_stats;
            cbn [w_pool w_held w_live mp_stack mp_allocsize mp_slots mp_nextid app length].
          rewrite remove_ids_nil.
          split; [|split; [discriminate|split; [split; reflexivity|split; [right; split; lia|]]]].
          -- split; [exact Hnd'|]. split; [intros x Hin; specialize (Hrg' x Hin); lia|].
             split; [lia|]. split; [lia|]. split; [reflexivity|]. split; [lia|].
             eapply Permutation_trans; [exact Hlive|exact Hall].
          -- apply Permutation_length in Hk. cbn [length] in Hk. fold held'. lia.
        * (* the new stack is refused: the object goes back to free() *)
          eexists _, _, _, _. split; [reflexivity|].
          unfold mp_post, mp_inv, mp_count, mp_stacklen, mp_reset_stats;
            cbn [w_pool w_held w_live mp_stack mp_allocsize mp_slots mp_nextid app length].
          split; [|split; [discriminate|split; [split; reflexivity|split; [left; reflexivity|]]]].
          -- split; [inversion Hnd'; assumption|].
             split; [intros x Hin; apply Hrg'; right; exact Hin|].
             split; [exact Hnx|]. split; [lia|]. split; [exact Hslots|]. split; [exact Hpos|exact Hfreed].
          -- apply Permutation_length in Hk. cbn [length] in Hk. fold held'. lia.
      + (* no doubling: the object goes back to free() *)
        eexists _, _, _, _. split; [reflexivity|].
        unfold mp_post, mp_inv, mp_count, mp_stacklen, mp_reset_stats;
          cbn [w_pool w_held w_live mp_stack mp_allocsize mp_slots mp_nextid app length].
        split; [|split; [discriminate|split; [split; reflexivity|split; [left; reflexivity|]]]].
        * split; [inversion Hnd'; assumption|].
          split; [intros x Hin; apply Hrg'; right; exact Hin|].
          split; [exact Hnx|]. split; [lia|]. split; [exact Hslots|]. split; [exact Hpos|exact Hfreed].
        * apply Permutation_length in Hk. cbn [length] in Hk. fold held'. lia.
  Qed.

  Lemma mp_freenull_step w o :
    mp_inv w ->
    exists x w' o' ev,
      mp_step shift 2 8 olen PFreeNull w o = Ok (x, w', o', ev) /\ mp_post PFreeNull w x w'.
  Proof.
    intros Hinv. cbn [mp_step]. unfold mp_free. cbn [N.eqb bind].
    eexists _, _, _, _. split; [reflexivity|]. unfold mp_post. rewrite remove_ids_nil.
    destruct w as [pool held live]; cbn [w_pool w_held w_live] in *.
    split; [exact Hinv|]. split; [discriminate|]. split; [split; reflexivity|]. split; [left; reflexivity|lia].
  Qed.

  (* C12 M5 (one step) *)
  Theorem mp_step_ok op w o :
    mp_inv w -> mp_allocsize (w_pool w) * 16 < W64 ->
    exists x w' o' ev, mp_step shift 2 8 olen op w o = Ok (x, w', o', ev) /\ mp_post op w x w'.
  Proof.
    intros Hinv Hbig. destruct op.
    - apply mp_malloc_step; assumption.
    - apply mp_free_step; assumption.
    - apply mp_freenull_step; assumption.
  Qed.
End Steps.


(* ------------------------------------------------------------------ *)
(* whole programs *)

Definition ptr_out (t : mp_out * mp_world * list aev) : mp_out := fst (fst t).
Definition ptr_w (t : mp_out * mp_world * list aev) : mp_world := snd (fst t).
Definition out_ptr (x : mp_out) : N := match x with POut p _ => p | PUnit => 0 end.

Lemma mp_new_inv size : 0 < size -> mp_inv (mp_world0 size).
Proof.
  intros H. unfold mp_inv, mp_world0, mp_new, mp_stacklen; cbn.
  repeat split; try lia; try constructor; try (intros x []); try (destruct H0).
Qed.

(* C12 M5: for every program on a pool created with [size] > 0 (short enough for the stack's byte
   count to stay below 2^64) and every oracle: no Fault / AssertFail, and the spec predicate holds
   on the pointers returned - malloc never returns an object the client still holds *)
Theorem mp_run_ok shift olen size ops : forall w o k,
  mp_inv w -> mp_count w <= k -> mp_allocsize (w_pool w) <= N.max size (2 * k) ->
  N.max size (2 * (k + N.of_nat (length ops))) * 16 < W64 ->
  exists tr,
    mp_run shift 2 8 olen ops w o = Ok tr /\
    Forall (fun t => mp_inv (ptr_w t)) tr /\
    mp_spec_ok ops (map (fun t => out_ptr (ptr_out t)) tr) (w_held w) = true.
Proof.
  induction ops as [|op ops IH]; intros w o k Hinv Hcnt Hsz Hbig.
  - exists []. repeat split. constructor.
  - cbn [length] in Hbig.
    assert (Hb1 : mp_allocsize (w_pool w) * 16 < W64) by lia.
    destruct (mp_step_ok shift olen op w o Hinv Hb1) as (x & w1 & o1 & ev & Hs & Hinv1 & Hho & (Hheld & Hshape) & Hal & Hc1).
    assert (A1 : mp_count w1 <= k + 1) by lia.
    assert (A2 : mp_allocsize (w_pool w1) <= N.max size (2 * (k + 1))).
    { destruct Hal as [->|(-> & Heq)]; [lia|]. unfold mp_count in Hcnt. unfold mp_stacklen in Heq. lia. }
    assert (A3 : N.max size (2 * (k + 1 + N.of_nat (length ops))) * 16 < W64).
    { replace (k + 1 + N.of_nat (length ops)) with (k + N.of_nat (S (length ops))) by lia. exact Hbig. }
    destruct (IH w1 o1 (k + 1) Hinv1 A1 A2 A3) as (tr & Hr & Hf & Hspec).
    cbn [mp_run]. rewrite Hs. cbn [bind]. rewrite Hr. cbn [bind].
    eexists. split; [reflexivity|]. split; [constructor; assumption|].
    cbn [map]. unfold ptr_out at 1; cbn [fst snd]. rewrite Hheld in Hspec.
    destruct op; cbn [mp_spec_ok next_held] in *.
    + destruct Hshape as (p & reg & ->). cbn [out_ptr next_held] in *.
      destruct (N.eqb_spec p 0) as [->|Hp]; [exact Hspec|].
      destruct (Hho p reg eq_refl) as [|Hnotin]; [contradiction|].
      assert (E : existsb (N.eqb p) (w_held w) = false).
      { apply not_true_is_false. intros Hex. apply existsb_exists in Hex. destruct Hex as (y & Hy & He).
        apply N.eqb_eq in He. subst y. contradiction. }
      rewrite E. exact Hspec.
    + exact Hspec.
    + exact Hspec.
Qed.

(* from the pool as MPOOL(name, type, size) creates it *)
Corollary mp_no_double_handout shift olen size ops o :
  0 < size -> N.max size (2 * N.of_nat (length ops)) * 16 < W64 ->
  exists tr,
    mp_run shift 2 8 olen ops (mp_world0 size) o = Ok tr /\
    mp_spec_ok ops (map (fun t => out_ptr (ptr_out t)) tr) [] = true.
Proof.
  intros Hs Hbig.
  destruct (mp_run_ok shift olen size ops (mp_world0 size) o 0) as (tr & Hr & _ & Hspec).
  - apply mp_new_inv. exact Hs.
  - cbn. lia.
  - cbn. lia.
  - exact Hbig.
  - exists tr. split; assumption.
Qed.

(* C12 M5 (exit): the handler registered with atexit gives every cached object back to free()
   - afterwards the live objects are exactly those the client still holds - and frees the stack
   if it was allocated *)
Theorem mp_atexit_frees_all psz olen w :
  mp_inv w ->
  let '(pool', ev, freed) := mp_atexit psz olen (w_pool w) in
  freed = mp_stack (w_pool w) /\ mp_stack pool' = [] /\
  Permutation (remove_ids (w_live w) freed) (w_held w) /\
  ev = map (fun _ => AFree olen) (mp_stack (w_pool w)) ++
       (if mp_static (w_pool w) then [] else [AFree (mp_slots (w_pool w) * psz)]).
Proof.
  intros (Hnd & Hrg & Hnx & Hsl & Hslots & Hpos & Hlive). unfold mp_atexit.
  split; [reflexivity|]. split; [reflexivity|]. split; [|reflexivity].
  eapply Permutation_trans; [apply remove_ids_perm, Hlive|].
  rewrite remove_ids_app, remove_ids_all. cbn [app].
  rewrite remove_ids_disjoint; [apply Permutation_refl|].
  intros x Hin Hin'. clear -Hnd Hin Hin'.
  induction (mp_stack (w_pool w)) as [|y l IH]; [destruct Hin'|].
  cbn [app] in Hnd. inversion Hnd as [|? ? Hnotin Hnd']; subst.
  destruct Hin' as [->|Hin']; [apply Hnotin; apply in_or_app; right; exact Hin|auto].
Qed.

(* ------------------------------------------------------------------ *)
(* examples *)

(* pool of size 2: three objects freed -> the third free doubles the stack (3 > 3 >> 8);
   the next mallocs hand the cached objects out again in LIFO order, never one still held *)
Definition pex_prog : list mp_op :=
  [PMalloc; PMalloc; PMalloc; PFree 1; PMalloc; PFree 0; PFree 0; PFree 0; PMalloc; PMalloc; PFreeNull].

Example pex_runs :
  exists tr, mp_run 8 2 8 24 pex_prog (mp_world0 2) all_grant = Ok tr /\
             map (fun t => out_ptr (ptr_out t)) tr = [1; 2; 3; 0; 2; 0; 0; 0; 2; 3; 0] /\
             mp_spec_ok pex_prog (map (fun t => out_ptr (ptr_out t)) tr) [] = true /\
             mp_allocsize (w_pool (ptr_w (last tr (PUnit, mp_world0 2, [])))) = 4.
Proof.
  eexists. split; [vm_compute; reflexivity|]. split; [vm_compute; reflexivity|].
  split; vm_compute; reflexivity.
Qed.

(* the spec predicate is not trivially true: handing out object 1 twice is rejected *)
Example pex_spec_rejects : mp_spec_ok [PMalloc; PMalloc] [1; 1] [] = false.
Proof. reflexivity. Qed.
