(* datastruct/timerqueue.c: proofs about DS/TimerQueue.v on top of the heap theorems. *)
From Coq Require Import NArith ZArith List Bool Arith Lia ZifyNat Permutation FMapPositive.
From LCP Require Import Base.CheckedMem DS.AllocOracle DS.PtrHeap DS.PtrHeapProofs DS.PtrHeapOps DS.TimerQueue.
Import ListNotations.
Local Open Scope res_scope.

(* ---- the order on times, written independently of tvcmp ---- *)
Definition tv_le (x y : timeval) : Prop :=
  (tv_sec x < tv_sec y)%Z \/ (tv_sec x = tv_sec y /\ (tv_usec x <= tv_usec y)%Z).

Lemma tvcmp_le x y : (tvcmp x y <= 0)%Z <-> tv_le x y.
Proof.
  unfold tvcmp, tv_le.
  destruct (Z.gtb_spec (tv_sec x) (tv_sec y)); [lia|].
  destruct (Z.ltb_spec (tv_sec x) (tv_sec y)); [lia|].
  destruct (Z.gtb_spec (tv_usec x) (tv_usec y)); [lia|].
  destruct (Z.ltb_spec (tv_usec x) (tv_usec y)); lia.
Qed.

Lemma tvcmp_ge x y : (tvcmp x y >= 0)%Z <-> tv_le y x.
Proof.
  unfold tvcmp, tv_le.
  destruct (Z.gtb_spec (tv_sec x) (tv_sec y)); [lia|].
  destruct (Z.ltb_spec (tv_sec x) (tv_sec y)); [lia|].
  destruct (Z.gtb_spec (tv_usec x) (tv_usec y)); [lia|].
  destruct (Z.ltb_spec (tv_usec x) (tv_usec y)); lia.
Qed.

Lemma tvcmp_gt x y : (tvcmp x y >? 0)%Z = true <-> ~ tv_le x y.
Proof. rewrite <- tvcmp_le. rewrite Z.gtb_lt. lia. Qed.

Lemma tv_le_trans x y z : tv_le x y -> tv_le y z -> tv_le x z.
Proof. unfold tv_le. lia. Qed.
Lemma tv_le_refl x : tv_le x x.
Proof. unfold tv_le. lia. Qed.
Lemma tv_le_total x y : tv_le x y \/ tv_le y x.
Proof. unfold tv_le. lia. Qed.

Definition rle (m : recmap) (a b : N) : Prop := tv_le (tvof m a) (tvof m b).

Lemma rle_ok m : compar_ok (reccmp m) (rle m).
Proof.
  split; unfold rle, reccmp.
  - intros x y z. apply tv_le_trans.
  - intros. apply tvcmp_le.
  - intros. apply tvcmp_ge.
Qed.

(* ---- the record map ---- *)
Lemma rkey_inj a b : rkey a = rkey b -> a = b.
Proof.
  unfold rkey. intros H. apply N.succ_inj. rewrite <- !N.succ_pos_spec. rewrite H. reflexivity.
Qed.

Lemma rfind_radd_same m id r : rfind (radd m id r) id = Some r.
Proof. unfold rfind, radd. apply PositiveMap.gss. Qed.
Lemma rfind_radd_other m id r x : x <> id -> rfind (radd m id r) x = rfind m x.
Proof. intros H. unfold rfind, radd. apply PositiveMap.gso. intro E. apply H. apply rkey_inj. auto. Qed.
Lemma rfind_rdel_same m id : rfind (rdel m id) id = None.
Proof. unfold rfind, rdel. apply PositiveMap.grs. Qed.
Lemma rfind_rdel_other m id x : x <> id -> rfind (rdel m id) x = rfind m x.
Proof. intros H. unfold rfind, rdel. apply PositiveMap.gro. intro E. apply H. apply rkey_inj. auto. Qed.
Lemma rfind_empty x : rfind (PositiveMap.empty _) x = None.
Proof. unfold rfind. apply PositiveMap.gempty. Qed.

(* what setreccookie may change: only rc *)
Definition same_payload (a b : option timerrec) : Prop :=
  option_map r_tv a = option_map r_tv b /\ option_map r_ptr a = option_map r_ptr b.

Lemma same_payload_refl a : same_payload a a.
Proof. split; reflexivity. Qed.
Lemma same_payload_trans a b c : same_payload a b -> same_payload b c -> same_payload a c.
Proof. intros [A1 A2] [B1 B2]. split; congruence. Qed.

Lemma set_rc_payload m nt x : same_payload (rfind (set_rc m nt) x) (rfind m x).
Proof.
  unfold set_rc. destruct (rfind m (fst nt)) as [r|] eqn:E; [|apply same_payload_refl].
  destruct (N.eq_dec x (fst nt)) as [->|Hne].
  - rewrite rfind_radd_same, E. split; reflexivity.
  - rewrite rfind_radd_other by auto. apply same_payload_refl.
Qed.

Lemma set_rcs_payload : forall ns m x, same_payload (rfind (set_rcs m ns) x) (rfind m x).
Proof.
  induction ns as [|nt ns IH]; intros m x; [apply same_payload_refl|].
  change (set_rcs m (nt :: ns)) with (set_rcs (set_rc m nt) ns).
  eapply same_payload_trans; [apply IH | apply set_rc_payload].
Qed.

Lemma payload_tvof m1 m2 x : same_payload (rfind m1 x) (rfind m2 x) -> tvof m1 x = tvof m2 x.
Proof.
  intros [H _]. unfold tvof. destruct (rfind m1 x), (rfind m2 x); simpl in H; congruence.
Qed.

Lemma payload_dom a b : same_payload a b -> (a = None <-> b = None).
Proof. intros [H _]. destruct a, b; simpl in H; split; intros; congruence. Qed.

Definition tq_pos (m : recmap) : N -> option nat := fun x => option_map r_rc (rfind m x).

Lemma apply_notes_ext : forall ns p1 p2 x, p1 x = p2 x -> apply_notes p1 ns x = apply_notes p2 ns x.
Proof.
  induction ns as [|nt ns IH]; intros p1 p2 x H; auto.
  change (apply_notes p1 (nt :: ns)) with (apply_notes (pos_upd p1 nt) ns).
  change (apply_notes p2 (nt :: ns)) with (apply_notes (pos_upd p2 nt) ns).
  apply IH. unfold pos_upd. destruct (x =? fst nt)%N; auto.
Qed.

Lemma set_rcs_pos : forall ns m x, rfind m x <> None ->
  tq_pos (set_rcs m ns) x = apply_notes (tq_pos m) ns x.
Proof.
  induction ns as [|nt ns IH]; intros m x Hx; auto.
  change (set_rcs m (nt :: ns)) with (set_rcs (set_rc m nt) ns).
  change (apply_notes (tq_pos m) (nt :: ns)) with (apply_notes (pos_upd (tq_pos m) nt) ns).
  rewrite IH.
  - apply apply_notes_ext. unfold tq_pos, pos_upd, set_rc.
    destruct (N.eqb_spec x (fst nt)) as [E|E].
    + subst x. destruct (rfind m (fst nt)) eqn:F; [|contradiction]. rewrite rfind_radd_same. reflexivity.
    + destruct (rfind m (fst nt)); auto. rewrite rfind_radd_other by auto. reflexivity.
  - intro F. apply Hx. apply (payload_dom _ _ (set_rc_payload m nt x)). exact F.
Qed.

(* ---- the invariant ---- *)
Record tq_inv (q : tqueue) : Prop := {
  ti_heap : heap_inv (rle (tq_recs q)) (tq_heap q);
  (* every record in the heap carries its own position (the handle is the record) *)
  ti_rc : handles (tq_pos (tq_recs q)) (tq_heap q);
  (* the live records are exactly the heap's elements *)
  ti_dom : forall id, rfind (tq_recs q) id <> None -> In id (elems (tq_heap q))
}.

Lemma live_rec q id : tq_inv q -> In id (elems (tq_heap q)) ->
  exists r, rfind (tq_recs q) id = Some r /\ r_rc r < length (elems (tq_heap q)) /\
            el (elems (tq_heap q)) (r_rc r) = id.
Proof.
  intros I Hin. destruct (In_el _ _ Hin) as (i & Hi & E).
  assert (P := ti_rc q I i Hi). rewrite E in P. unfold tq_pos in P.
  destruct (rfind (tq_recs q) id) as [r|]; [|discriminate]. simpl in P. injection P as P.
  exists r. rewrite P. auto.
Qed.

Lemma tvof_radd_other m id r x : x <> id -> tvof (radd m id r) x = tvof m x.
Proof. intros. unfold tvof. rewrite rfind_radd_other by auto. reflexivity. Qed.
Lemma tvof_radd_same m id r : tvof (radd m id r) id = r_tv r.
Proof. unfold tvof. rewrite rfind_radd_same. reflexivity. Qed.
Lemma tvof_set_rcs m ns x : tvof (set_rcs m ns) x = tvof m x.
Proof. apply payload_tvof. apply set_rcs_payload. Qed.
Lemma tvof_rdel_other m id x : x <> id -> tvof (rdel m id) x = tvof m x.
Proof. intros. unfold tvof. rewrite rfind_rdel_other by auto. reflexivity. Qed.

Section TQ.
  Variables qsz rsz : N.

  Definition qsmall (q : tqueue) : Prop := small (length (elems (tq_heap q))).

  (* ---- add ---- *)
  Theorem tq_add_spec q id tv ptr o : tq_inv q -> rfind (tq_recs q) id = None -> qsmall q ->
    exists c q' o' ev,
      timerqueue_add std_tc std_hc rsz q id tv ptr o = Ok (c, q', o', ev) /\
      (c = None -> q' = q /\ refused ev = true) /\
      (c <> None -> c = Some id /\ refused ev = false /\ tq_inv q' /\
         Permutation (elems (tq_heap q')) (id :: elems (tq_heap q)) /\
         (exists r, rfind (tq_recs q') id = Some r /\ r_tv r = tv /\ r_ptr r = ptr) /\
         (forall x, x <> id -> same_payload (rfind (tq_recs q') x) (rfind (tq_recs q) x))).
  Proof.
    intros I Hfresh Hs. unfold timerqueue_add.
    destruct (next o) as [okR o1]. destruct okR; cbn [negb].
    2:{ do 4 eexists. split; [reflexivity|]. split; [auto | intros H; contradiction H; reflexivity]. }
    set (m1 := radd (tq_recs q) id {| r_tv := tv; r_rc := 0; r_ptr := ptr |}).
    assert (Hnot : ~ In id (elems (tq_heap q))).
    { intros Hin. destruct (live_rec q id I Hin) as (r & F & _). congruence. }
    assert (HI1 : heap_inv (rle m1) (tq_heap q)).
    { apply heap_inv_ext with (le1 := rle (tq_recs q)); [|apply (ti_heap q I)].
      intros a b Ha Hb. unfold rle, m1. rewrite !tvof_radd_other by (intro; subst; contradiction). auto. }
    destruct (add_spec (reccmp m1) (rle m1) (rle_ok m1) true (tq_heap q) id o1 HI1 Hs)
      as (ok & h' & ns & o' & ev & E & Hfail & Hok).
    rewrite E. cbn [bind]. destruct ok; cbn [negb].
    - destruct (Hok eq_refl) as (Href & HI' & HP & HH).
      do 4 eexists. split; [reflexivity|]. split; [discriminate|]. intros _.
      split; [reflexivity|]. split.
      { unfold refused in *. cbn. exact Href. }
      assert (Hdom1 : forall x, In x (elems h') -> rfind m1 x <> None).
      { intros x Hx. apply (Permutation_in _ HP) in Hx. destruct Hx as [<-|Hx].
        - unfold m1. rewrite rfind_radd_same. discriminate.
        - unfold m1. destruct (live_rec q x I Hx) as (r & F & _).
          rewrite rfind_radd_other by (intro; subst; contradiction). congruence. }
      split; [|split; [|split]]; cbn [tq_heap tq_recs].
      + split; cbn [tq_heap tq_recs].
        * apply heap_inv_ext with (le1 := rle m1); auto.
          intros a b _ _. unfold rle. rewrite !tvof_set_rcs. auto.
        * intros i Hi. rewrite set_rcs_pos by (apply Hdom1; apply el_In; auto).
          apply HH; auto.
          intros j Hj. unfold tq_pos, m1.
          rewrite rfind_radd_other by (intro Ej; apply Hnot; rewrite <- Ej; apply el_In; auto).
          apply (ti_rc q I j Hj).
        * intros x Hx. apply (Permutation_in _ (Permutation_sym HP)).
          assert (Hx1 : rfind m1 x <> None).
          { intro F. apply Hx. apply (payload_dom _ _ (set_rcs_payload ns m1 x)). exact F. }
          destruct (N.eq_dec x id) as [->|Hne]; [left; auto|right].
          unfold m1 in Hx1. rewrite rfind_radd_other in Hx1 by auto. apply (ti_dom q I). auto.
      + exact HP.
      + destruct (set_rcs_payload ns m1 id) as [P1 P2].
        assert (F1 : rfind m1 id = Some {| r_tv := tv; r_rc := 0; r_ptr := ptr |}) by (unfold m1; apply rfind_radd_same).
        rewrite F1 in P1, P2. simpl in P1, P2.
        destruct (rfind (set_rcs m1 ns) id) as [r|]; [|discriminate].
        exists r. simpl in P1, P2. split; auto. split; congruence.
      + intros x Hne. eapply same_payload_trans; [apply set_rcs_payload|].
        unfold m1. rewrite rfind_radd_other by auto. apply same_payload_refl.
    - destruct (Hfail eq_refl) as (-> & -> & Href).
      do 4 eexists. split; [reflexivity|]. split; [|intros H; contradiction H; reflexivity].
      intros _. split; auto. unfold refused in *. cbn. rewrite existsb_app, Href. reflexivity.
  Qed.

  (* ---- removing the record [id] whose stored position is used as the handle ---- *)
  Lemma tq_remove q id r o : tq_inv q -> qsmall q -> In id (elems (tq_heap q)) ->
    rfind (tq_recs q) id = Some r ->
    exists h' ns o' ev,
      ptrheap_delete std_tc std_hc (reccmp (tq_recs q)) true (tq_heap q) (r_rc r) o = Ok (h', ns, o', ev) /\
      let q' := {| tq_heap := h'; tq_recs := rdel (set_rcs (tq_recs q) ns) id |} in
      tq_inv q' /\ Permutation (id :: elems h') (elems (tq_heap q)) /\
      rfind (tq_recs q') id = None /\
      (forall x, x <> id -> same_payload (rfind (tq_recs q') x) (rfind (tq_recs q) x)).
  Proof.
    intros I Hs Hin F. destruct (live_rec q id I Hin) as (r' & F' & Hrc & Eid).
    assert (r' = r) by congruence. subst r'.
    destruct (ti_heap q I) as [Hn HO].
    destruct (delete_spec (reccmp (tq_recs q)) (rle (tq_recs q)) (rle_ok _) true (tq_heap q) (r_rc r) o
                (ti_heap q I) Hs ltac:(lia)) as (h' & ns & o' & ev & E & HI' & HP & HH & _).
    rewrite Eid in HP. exists h', ns, o', ev. split; [exact E|]. cbv zeta. cbn [tq_heap tq_recs].
    assert (ND : NoDup (id :: elems h')).
    { eapply Permutation_NoDup; [apply Permutation_sym; exact HP|]. eapply handles_NoDup. apply (ti_rc q I). }
    apply NoDup_cons_iff in ND. destruct ND as [Hnot ND'].
    assert (Hne : forall x, In x (elems h') -> x <> id) by (intros x Hx ->; contradiction).
    split; [|split; [|split]].
    - split; cbn [tq_heap tq_recs].
      + apply heap_inv_ext with (le1 := rle (tq_recs q)); auto.
        intros a b Ha Hb. unfold rle. rewrite !tvof_rdel_other, !tvof_set_rcs by auto. auto.
      + intros i Hi. assert (Hx : In (el (elems h') i) (elems h')) by (apply el_In; auto).
        unfold tq_pos. rewrite rfind_rdel_other by auto. fold (tq_pos (set_rcs (tq_recs q) ns) (el (elems h') i)).
        rewrite set_rcs_pos.
        * apply HH; auto. apply (ti_rc q I).
        * assert (Hx' : In (el (elems h') i) (elems (tq_heap q))) by (apply (Permutation_in _ HP); right; auto).
          destruct (live_rec q _ I Hx') as (rr & Fr & _). congruence.
      + intros x Hx. destruct (N.eq_dec x id) as [->|Hxne]; [rewrite rfind_rdel_same in Hx; contradiction|].
        rewrite rfind_rdel_other in Hx by auto.
        assert (Hx1 : rfind (tq_recs q) x <> None).
        { intro F0. apply Hx. apply (payload_dom _ _ (set_rcs_payload ns (tq_recs q) x)). exact F0. }
        apply (ti_dom q I) in Hx1. apply (Permutation_in _ (Permutation_sym HP)) in Hx1.
        destruct Hx1; [congruence|auto].
    - exact HP.
    - apply rfind_rdel_same.
    - intros x Hx. rewrite rfind_rdel_other by auto. apply set_rcs_payload.
  Qed.

  (* ---- delete by cookie ---- *)
  Theorem tq_delete_spec q id o : tq_inv q -> qsmall q -> In id (elems (tq_heap q)) ->
    exists q' o' ev,
      timerqueue_delete std_tc std_hc rsz q id o = Ok (q', o', ev) /\
      tq_inv q' /\ Permutation (id :: elems (tq_heap q')) (elems (tq_heap q)) /\
      rfind (tq_recs q') id = None /\
      (forall x, x <> id -> same_payload (rfind (tq_recs q') x) (rfind (tq_recs q) x)).
  Proof.
    intros I Hs Hin. destruct (live_rec q id I Hin) as (r & F & _).
    unfold timerqueue_delete. rewrite F.
    destruct (tq_remove q id r o I Hs Hin F) as (h' & ns & o' & ev & E & HI' & HP & Hnone & Hoth).
    rewrite E. cbn [bind]. do 3 eexists. split; [reflexivity|]. auto.
  Qed.

  (* ---- getmin ---- *)
  Theorem tq_getmin_spec q : tq_inv q ->
    exists r, timerqueue_getmin q = Ok r /\
      match r with
      | None => elems (tq_heap q) = []
      | Some tv => exists id rec, In id (elems (tq_heap q)) /\ rfind (tq_recs q) id = Some rec /\
                     r_tv rec = tv /\
                     forall id' rec', In id' (elems (tq_heap q)) -> rfind (tq_recs q) id' = Some rec' ->
                                      tv_le tv (r_tv rec')
      end.
  Proof.
    intros I. unfold timerqueue_getmin.
    destruct (ptrheap_getmin (tq_heap q)) as [[id|]| | |] eqn:G;
      try (rewrite (getmin_run (rle (tq_recs q)) _ (ti_heap q I)) in G; discriminate).
    - cbn [bind].
      destruct (getmin_least (reccmp (tq_recs q)) (rle (tq_recs q)) (rle_ok _) _ id (ti_heap q I) G) as [Hin Hleast].
      destruct (live_rec q id I Hin) as (r & F & _). rewrite F.
      eexists. split; [reflexivity|]. exists id, r. split; auto. split; auto. split; auto.
      intros id' rec' Hin' F'. specialize (Hleast id' Hin'). unfold rle, tvof in Hleast.
      rewrite F, F' in Hleast. exact Hleast.
    - cbn [bind]. eexists. split; [reflexivity|].
      apply (getmin_none (rle (tq_recs q)) _ (ti_heap q I)). exact G.
  Qed.

  (* ---- getptr ---- *)
  Theorem tq_getptr_spec q tv o : tq_inv q -> qsmall q ->
    exists p q' o' ev,
      timerqueue_getptr std_tc std_hc rsz q tv o = Ok (p, q', o', ev) /\
      match p with
      | None =>
        (* nothing is due: no change *)
        q' = q /\ o' = o /\ ev = [] /\
        forall id rec, In id (elems (tq_heap q)) -> rfind (tq_recs q) id = Some rec -> ~ tv_le (r_tv rec) tv
      | Some ptr =>
        exists id rec, In id (elems (tq_heap q)) /\ rfind (tq_recs q) id = Some rec /\
          r_ptr rec = ptr /\                       (* exactly the pointer stored with the entry *)
          tv_le (r_tv rec) tv /\                    (* not later than the query time *)
          (forall id' rec', In id' (elems (tq_heap q)) -> rfind (tq_recs q) id' = Some rec' ->
                            tv_le (r_tv rec) (r_tv rec')) /\      (* a least entry *)
          tq_inv q' /\ Permutation (id :: elems (tq_heap q')) (elems (tq_heap q)) /\
          rfind (tq_recs q') id = None /\
          (forall x, x <> id -> same_payload (rfind (tq_recs q') x) (rfind (tq_recs q) x))
      end.
  Proof.
    intros I Hs. unfold timerqueue_getptr.
    destruct (ptrheap_getmin (tq_heap q)) as [[id|]| | |] eqn:G;
      try (rewrite (getmin_run (rle (tq_recs q)) _ (ti_heap q I)) in G; discriminate).
    - cbn [bind].
      destruct (getmin_least (reccmp (tq_recs q)) (rle (tq_recs q)) (rle_ok _) _ id (ti_heap q I) G) as [Hin Hleast].
      destruct (live_rec q id I Hin) as (r & F & Hrc & Eid). rewrite F.
      assert (Hmin : forall id' rec', In id' (elems (tq_heap q)) -> rfind (tq_recs q) id' = Some rec' ->
                                     tv_le (r_tv r) (r_tv rec')).
      { intros id' rec' Hin' F'. specialize (Hleast id' Hin'). unfold rle, tvof in Hleast.
        rewrite F, F' in Hleast. exact Hleast. }
      destruct (tvcmp (r_tv r) tv >? 0)%Z eqn:EC.
      + apply tvcmp_gt in EC. do 4 eexists. split; [reflexivity|]. split; auto. split; auto. split; auto.
        intros id' rec' Hin' F' L. apply EC. eapply tv_le_trans; [apply (Hmin id' rec'); auto | exact L].
      + assert (Hle : tv_le (r_tv r) tv).
        { apply tvcmp_le. rewrite Z.gtb_ltb in EC. apply Z.ltb_ge in EC. exact EC. }
        (* the minimum sits at position 0, and its record says so *)
        assert (Hr0 : r_rc r = 0).
        { rewrite (getmin_run (rle (tq_recs q)) _ (ti_heap q I)) in G.
          destruct (elems (tq_heap q)) as [|a l] eqn:EL; [discriminate|]. injection G as ->.
          assert (P0 := ti_rc q I 0). rewrite EL in P0. specialize (P0 ltac:(simpl; lia)).
          change (el (id :: l) 0) with id in P0. unfold tq_pos in P0. rewrite F in P0. simpl in P0. congruence. }
        unfold ptrheap_deletemin.
        destruct (tq_remove q id r o I Hs Hin F) as (h' & ns & o' & ev & E & HI' & HP & Hnone & Hoth).
        rewrite Hr0 in E. rewrite E. cbn [bind]. do 4 eexists. split; [reflexivity|].
        exists id, r. repeat (split; auto).
    - cbn [bind]. do 4 eexists. split; [reflexivity|]. split; auto. split; auto. split; auto.
      intros id rec Hin. apply (getmin_none (rle (tq_recs q)) _ (ti_heap q I)) in G. rewrite G in Hin. contradiction.
  Qed.

  (* ---- increase by cookie ---- *)
  Theorem tq_increase_spec q id tv : tq_inv q -> In id (elems (tq_heap q)) ->
    (forall r, rfind (tq_recs q) id = Some r -> tv_le (r_tv r) tv) ->
    exists q',
      timerqueue_increase std_tc q id tv = Ok q' /\
      tq_inv q' /\ Permutation (elems (tq_heap q')) (elems (tq_heap q)) /\
      (exists r r0, rfind (tq_recs q') id = Some r /\ rfind (tq_recs q) id = Some r0 /\
                    r_tv r = tv /\ r_ptr r = r_ptr r0) /\
      (forall x, x <> id -> same_payload (rfind (tq_recs q') x) (rfind (tq_recs q) x)).
  Proof.
    intros I Hin Hgrow. destruct (live_rec q id I Hin) as (r & F & Hrc & Eid).
    unfold timerqueue_increase. rewrite F.
    set (m1 := radd (tq_recs q) id {| r_tv := tv; r_rc := r_rc r; r_ptr := r_ptr r |}).
    destruct (ti_heap q I) as [Hn HO].
    assert (Hpos1 : forall x, tq_pos m1 x = tq_pos (tq_recs q) x).
    { intros x. unfold tq_pos, m1. destruct (N.eq_dec x id) as [->|Hne].
      - rewrite rfind_radd_same, F. reflexivity.
      - rewrite rfind_radd_other by auto. reflexivity. }
    assert (HA : adown (rle m1) 0 (nelems (tq_heap q)) (elems (tq_heap q)) (r_rc r)).
    { apply grew_adown with (le0 := rle (tq_recs q)) (x := id); auto; try lia.
      - intros a b c. apply tv_le_trans.
      - intros a b Ha Hb. unfold rle, m1. rewrite !tvof_radd_other by auto. reflexivity.
      - intros i j Hi Hj. eapply handles_inj; [apply (ti_rc q I) | lia | lia].
      - intros a La. unfold rle in *. unfold m1 at 2. rewrite tvof_radd_same. cbn [r_tv].
        destruct (N.eq_dec a id) as [->|Hne].
        + unfold m1. rewrite tvof_radd_same. apply tv_le_refl.
        + unfold m1. rewrite tvof_radd_other by auto. eapply tv_le_trans; [exact La|].
          unfold tvof. rewrite F. apply Hgrow. auto. }
    destruct (increase_spec (reccmp m1) (rle m1) (rle_ok m1) true (tq_heap q) (r_rc r) Hn HA)
      as (h' & ns & E & HI' & HP & _ & HH).
    rewrite E. cbn [bind]. eexists. split; [reflexivity|]. cbn [tq_heap tq_recs].
    assert (Hdom1 : forall x, In x (elems h') -> rfind m1 x <> None).
    { intros x Hx. apply (Permutation_in _ HP) in Hx. destruct (live_rec q x I Hx) as (rr & Fr & _).
      unfold m1. destruct (N.eq_dec x id) as [->|Hne]; [rewrite rfind_radd_same; discriminate|].
      rewrite rfind_radd_other by auto. congruence. }
    split; [|split; [|split]].
    - split; cbn [tq_heap tq_recs].
      + apply heap_inv_ext with (le1 := rle m1); auto.
        intros a b _ _. unfold rle. rewrite !tvof_set_rcs. auto.
      + intros i Hi. rewrite set_rcs_pos by (apply Hdom1; apply el_In; auto).
        apply HH; auto. intros j Hj. rewrite Hpos1. apply (ti_rc q I j Hj).
      + intros x Hx. apply (Permutation_in _ (Permutation_sym HP)). apply (ti_dom q I).
        assert (Hx1 : rfind m1 x <> None).
        { intro F0. apply Hx. apply (payload_dom _ _ (set_rcs_payload ns m1 x)). exact F0. }
        destruct (N.eq_dec x id) as [->|Hne]; [congruence|].
        unfold m1 in Hx1. rewrite rfind_radd_other in Hx1 by auto. exact Hx1.
    - exact HP.
    - destruct (set_rcs_payload ns m1 id) as [P1 P2].
      assert (F1 : rfind m1 id = Some {| r_tv := tv; r_rc := r_rc r; r_ptr := r_ptr r |})
        by (unfold m1; apply rfind_radd_same).
      rewrite F1 in P1, P2. simpl in P1, P2.
      destruct (rfind (set_rcs m1 ns) id) as [r1|]; [|discriminate].
      exists r1, r. simpl in P1, P2. split; auto. split; auto. split; congruence.
    - intros x Hne. eapply same_payload_trans; [apply set_rcs_payload|].
      unfold m1. rewrite rfind_radd_other by auto. apply same_payload_refl.
  Qed.

  (* ---- init ---- *)
  Theorem tq_init_spec o :
    exists oq o' ev, timerqueue_init std_tc std_hc qsz o = Ok (oq, o', ev) /\
      (oq = None -> refused ev = true) /\
      (forall q, oq = Some q -> refused ev = false /\ tq_inv q /\ elems (tq_heap q) = []).
  Proof.
    unfold timerqueue_init. destruct (next o) as [okQ o1]. destruct okQ; cbn [negb].
    2:{ do 3 eexists. split; [reflexivity|]. split; [auto|discriminate]. }
    unfold ptrheap_init.
    destruct (create_spec (reccmp (PositiveMap.empty _)) (rle (PositiveMap.empty _)) (rle_ok _) true [] o1)
      as (oh & ns & o' & ev & E & Hnone & Hsome).
    { unfold small. simpl. lia. }
    rewrite E. cbn [bind]. destruct oh as [h|].
    - destruct (Hsome h eq_refl) as (Href & HI & HP & _).
      do 3 eexists. split; [reflexivity|]. split; [discriminate|]. intros q [= <-].
      apply Permutation_sym, Permutation_nil in HP.
      split; [unfold refused in *; cbn; exact Href|]. split; [|exact HP].
      split; cbn [tq_heap tq_recs]; auto.
      + intros i Hi. rewrite HP in Hi. simpl in Hi. lia.
      + intros id Hid. rewrite rfind_empty in Hid. contradiction.
    - destruct (Hnone eq_refl) as (_ & Href).
      do 3 eexists. split; [reflexivity|]. split; [|discriminate]. intros _.
      unfold refused in *. cbn. rewrite existsb_app, Href. reflexivity.
  Qed.

  (* ---- entries are released in non-decreasing time order: whatever getptr hands out next
          (after any number of deletions, increases and fruitless polls that leave the entry
          alone) is not earlier, because it was queued when the first one was a least entry ---- *)
  Corollary tq_release_order q tv1 o1 p1 q1 o1' ev1 tv2 o2 p2 q2 o2' ev2 :
    tq_inv q -> qsmall q -> qsmall q1 ->
    timerqueue_getptr std_tc std_hc rsz q tv1 o1 = Ok (Some p1, q1, o1', ev1) ->
    timerqueue_getptr std_tc std_hc rsz q1 tv2 o2 = Ok (Some p2, q2, o2', ev2) ->
    exists id1 r1 id2 r2,
      rfind (tq_recs q) id1 = Some r1 /\ r_ptr r1 = p1 /\
      rfind (tq_recs q) id2 = Some r2 /\ r_ptr r2 = p2 /\ id1 <> id2 /\
      tv_le (r_tv r1) (r_tv r2).
  Proof.
    intros I Hs Hs1 G1 G2.
    destruct (tq_getptr_spec q tv1 o1 I Hs) as (p & q' & o' & ev & E & Hspec).
    rewrite G1 in E. injection E as <- <- <- <-.
    destruct Hspec as (id1 & r1 & Hin1 & F1 & Hp1 & _ & Hmin1 & I1 & HP1 & Hnone1 & Hoth1).
    destruct (tq_getptr_spec q1 tv2 o2 I1 Hs1) as (p & q' & o' & ev & E & Hspec).
    rewrite G2 in E. injection E as <- <- <- <-.
    destruct Hspec as (id2 & r2' & Hin2 & F2 & Hp2 & _ & _ & _).
    assert (Hne : id2 <> id1) by (intro; subst; congruence).
    destruct (Hoth1 id2 Hne) as [PT PP]. rewrite F2 in PT, PP.
    destruct (rfind (tq_recs q) id2) as [r2|] eqn:F2q; [|discriminate]. simpl in PT, PP.
    exists id1, r1, id2, r2.
    split; auto. split; auto. split; auto. split; [congruence|]. split; [auto|].
    apply (Hmin1 id2 r2); auto.
    apply (Permutation_in _ HP1). right. exact Hin2.
  Qed.
End TQ.
