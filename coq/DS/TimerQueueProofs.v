(* datastruct/timerqueue.c: proofs about DS/TimerQueue.v on top of the heap theorems. *)
From Coq Require Import NArith ZArith List Bool Arith Lia ZifyNat Permutation FMapPositive.
From LCP Require Import Base.CheckedMem DS.AllocOracle DS.PtrHeap DS.PtrHeapProofs DS.PtrHeapOps DS.TimerQueue.
Import ListNotations.
Local Open Scope res_scope.

(* ---- the order on times, written independently of tvcmp ---- *)
Definition tv_le (x y : timeval) : Prop :=
  (tv_sec x < tv_sec y)%Z \/ (tv_sec x = tv_sec y /\ (tv_usec x <= tv_usec y)%Z).

Lemma tvcmp_le x y : (tvcmp x y <= 0)%Z <-> tv_le x y.
Proof.
  unfold tvcmp, tv_le.
  destruct (Z.gtb_spec (tv_sec x) (tv_sec y)); [lia|].
  destruct (Z.ltb_spec (tv_sec x) (tv_sec y)); [lia|].
  destruct (Z.gtb_spec (tv_usec x) (tv_usec y)); [lia|].
  destruct (Z.ltb_spec (tv_usec x) (tv_usec y)); lia.
Qed.

Lemma tvcmp_ge x y : (tvcmp x y >= 0)%Z <-> tv_le y x.
Proof.
  unfold tvcmp, tv_le.
  destruct (Z.gtb_spec (tv_sec x) (tv_sec y)); [lia|].
  destruct (Z.ltb_spec (tv_sec x) (tv_sec y)); [lia|].
  destruct (Z.gtb_spec (tv_usec x) (tv_usec y)); [lia|].
  destruct (Z.ltb_spec (tv_usec x) (tv_usec y)); lia.
Qed.

Lemma tvcmp_gt x y : (tvcmp x y >? 0)%Z = true <-> ~ tv_le x y.
Proof. rewrite <- tvcmp_le. rewrite Z.gtb_lt. lia. Qed.

Lemma tv_le_trans x y z : tv_le x y -> tv_le y z -> tv_le x z.
Proof. unfold tv_le. lia. Qed.
Lemma tv_le_refl x : tv_le x x.
Proof. unfold tv_le. lia. Qed.
Lemma tv_le_total x y : tv_le x y \/ tv_le y x.
Proof. unfold tv_le. lia. Qed.

Definition rle (m : recmap) (a b : N) : Prop := tv_le (tvof m a) (tvof m b).

Lemma rle_ok m : compar_ok (reccmp m) (rle m).
Proof.
  split; unfold rle, reccmp.
  - intros x y z. apply tv_le_trans.
  - intros. apply tvcmp_le.
  - intros. apply tvcmp_ge.
Qed.

(* ---- the record map ---- *)
Lemma rkey_inj a b : rkey a = rkey b -> a = b.
Proof.
  unfold rkey. intros H. apply N.succ_inj. rewrite <- !N.succ_pos_spec. rewrite H. reflexivity.
Qed.

Lemma rfind_radd_same m id r : rfind (radd m id r) id = Some r.
Proof. unfold rfind, radd. apply PositiveMap.gss. Qed.
Lemma rfind_radd_other m id r x : x <> id -> rfind (radd m id r) x = rfind m x.
Proof. intros H. unfold rfind, radd. apply PositiveMap.gso. intro E. apply H. apply rkey_inj. auto. Qed.
Lemma rfind_rdel_same m id : rfind (rdel m id) id = None.
Proof. unfold rfind, rdel. apply PositiveMap.grs. Qed.
Lemma rfind_rdel_other m id x : x <> id -> rfind (rdel m id) x = rfind m x.
Proof. intros H. unfold rfind, rdel. apply PositiveMap.gro. intro E. apply H. apply rkey_inj. auto. Qed.
Lemma rfind_empty x : rfind (PositiveMap.empty _) x = None.
Proof. unfold rfind. apply PositiveMap.gempty. Qed.

(* what setreccookie may change: only rc *)
Definition same_payload (a b : option timerrec) : Prop :=
  option_map r_tv a = option_map r_tv b /\ option_map r_ptr a = option_map r_ptr b.

Lemma same_payload_refl a : same_payload a a.
Proof. split; reflexivity. Qed.
Lemma same_payload_trans a b c : same_payload a b -> same_payload b c -> same_payload a c.
Proof. intros [A1 A2] [B1 B2]. split; congruence. Qed.

Lemma set_rc_payload m nt x : same_payload (rfind (set_rc m nt) x) (rfind m x).
Proof.
  unfold set_rc. destruct (rfind m (fst nt)) as [r|] eqn:E; [|apply same_payload_refl].
  destruct (N.eq_dec x (fst nt)) as [->|Hne].
  - rewrite rfind_radd_same, E. split; reflexivity.
  - rewrite rfind_radd_other by auto. apply same_payload_refl.
Qed.

Lemma set_rcs_payload : forall ns m x, same_payload (rfind (set_rcs m ns) x) (rfind m x).
Proof.
  induction ns as [|nt ns IH]; intros m x; [apply same_payload_refl|].
  change (set_rcs m (nt :: ns)) with (set_rcs (set_rc m nt) ns).
  eapply same_payload_trans; [apply IH | apply set_rc_payload].
Qed.

Lemma payload_tvof m1 m2 x : same_payload (rfind m1 x) (rfind m2 x) -> tvof m1 x = tvof m2 x.
Proof.
  intros [H _]. unfold tvof. destruct (rfind m1 x), (rfind m2 x); simpl in H; congruence.
Qed.

Lemma payload_dom a b : same_payload a b -> (a = None <-> b = None).
Proof. intros [H _]. destruct a, b; simpl in H; split; intros; congruence. Qed.

Definition tq_pos (m : recmap) : N -> option nat := fun x => option_map r_rc (rfind m x).

Lemma apply_notes_ext : forall ns p1 p2 x, p1 x = p2 x -> apply_notes p1 ns x = apply_notes p2 ns x.
Proof.
  induction ns as [|nt ns IH]; intros p1 p2 x H; auto.
  change (apply_notes p1 (nt :: ns)) with (apply_notes (pos_upd p1 nt) ns).
  change (apply_notes p2 (nt :: ns)) with (apply_notes (pos_upd p2 nt) ns).
  apply IH. unfold pos_upd. destruct (x =? fst nt)%N; auto.
Qed.

Lemma set_rcs_pos : forall ns m x, rfind m x <> None ->
  tq_pos (set_rcs m ns) x = apply_notes (tq_pos m) ns x.
Proof.
  induction ns as [|nt ns IH]; intros m x Hx; auto.
  change (set_rcs m (nt :: ns)) with (set_rcs (set_rc m nt) ns).
  change (apply_notes (tq_pos m) (nt :: ns)) with (apply_notes (pos_upd (tq_pos m) nt) ns).
  rewrite IH.
  - apply apply_notes_ext. unfold tq_pos, pos_upd, set_rc.
    destruct (N.eqb_spec x (fst nt)) as [E|E].
    + subst x. destruct (rfind m (fst nt)) eqn:F; [|contradiction]. rewrite rfind_radd_same. reflexivity.
    + destruct (rfind m (fst nt)); auto. rewrite rfind_radd_other by auto. reflexivity.
  - intro F. apply Hx. apply (payload_dom _ _ (set_rc_payload m nt x)). exact F.
Qed.
