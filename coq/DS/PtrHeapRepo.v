(* Tie: the constants regenerated from datastruct/ptrheap.c, timerqueue.c and elasticarray.c are the
   ones the theorems are about; restatement of the operation theorems for the instantiated model
   (the functions that are extracted and run against the C). *)
From Coq Require Import NArith ZArith List Bool Arith Lia Permutation.
From LCP Require Import Base.CheckedMem DS.AllocOracle Gen.Repo_heap DS.PtrHeap DS.TimerQueue DS.PtrHeapInst DS.PtrHeapProofs DS.PtrHeapOps DS.PtrHeapAlloc DS.PtrHeapHistory DS.TimerQueueProofs DS.TimerQueueAlloc.
Import ListNotations.

Lemma repo_tc_std : repo_tc = std_tc.
Proof. reflexivity. Qed.
Lemma repo_hc_std : repo_hc = std_hc.
Proof. reflexivity. Qed.

Ltac repo_std := unfold ph_create, ph_add, ph_getmin, ph_delete, ph_deletemin, ph_decrease, ph_increase,
  ph_increasemin, ph_free_ev, tq_init, tq_add, tq_delete, tq_increase, tq_getmin, tq_getptr, tq_free;
  rewrite ?repo_tc_std, ?repo_hc_std.

(* ---------------- non-vacuity ---------------- *)
(* a comparison with ties: ids are compared by id / 2 *)
Definition ex_cmp (x y : N) : Z := (Z.of_N (x / 2) - Z.of_N (y / 2))%Z.
Definition ex_le (x y : N) : Prop := (x / 2 <= y / 2)%N.

Example ex_compar_ok : compar_ok ex_cmp ex_le.
Proof. split; unfold ex_cmp, ex_le; intros; lia. Qed.

Definition ex_heap : heap := mkheap [2; 3; 7; 6; 9]%N 5 256.
Definition ex_pos (x : N) : option nat :=
  match x with 2%N => Some 0 | 3%N => Some 1 | 7%N => Some 2 | 6%N => Some 3 | 9%N => Some 4 | _ => None end.

Example ex_heap_inv : heap_inv ex_le ex_heap.
Proof.
  split; [reflexivity|]. intros j Hj _. unfold ex_le. cbn [nelems ex_heap elems] in *.
  destruct j as [|[|[|[|[|j]]]]]; try lia; vm_compute; discriminate.
Qed.

Example ex_handles : handles ex_pos ex_heap.
Proof. intros i Hi. simpl in Hi. destruct i as [|[|[|[|[|i]]]]]; try lia; reflexivity. Qed.

Example ex_small : small (length (elems ex_heap)).
Proof. unfold small. simpl. lia. Qed.

(* interior deletion with the stale last slot: delete the element at position 1 (id 3), with
   ties (2 and 3 have equal keys, 6 and 7 too); the notifications are the ones the C makes; the
   allocator refuses the shrinking realloc and the deletion succeeds all the same *)
Example ex_delete_runs :
  ptrheap_delete std_tc std_hc ex_cmp true ex_heap 1 all_refuse =
  Ok (mkheap [2; 6; 7; 9]%N 4 256, [(9%N, 1); (9%N, 3); (6%N, 1)], all_refuse,
      [ARealloc (Some 256%N) 64 false]).
Proof. vm_compute. reflexivity. Qed.

(* the precondition of increase after the key of the element at position 0 grew: ids 2 -> 12 *)
Example ex_adown : adown ex_le 0 5 [12; 3; 7; 6; 9]%N 0.
Proof.
  split; [split|].
  - intros j Hj _ Hj0 Hp. unfold ex_le. destruct j as [|[|[|[|[|j]]]]]; try lia; try (vm_compute; discriminate);
      exfalso; apply Hp; reflexivity.
  - intros; lia.
  - intros; lia.
Qed.

Example ex_aup : aup ex_le 5 [2; 3; 7; 6; 0]%N 4.
Proof.
  split; [split|].
  - intros j Hj _ Hj0 Hp. unfold ex_le. destruct j as [|[|[|[|[|j]]]]]; try lia; vm_compute; discriminate.
  - intros j Hj Hp. unfold par in Hp. lia.
  - intros j Hj Hp. unfold par in Hp. lia.
Qed.

(* a history from the empty heap, with an allocation refused in the middle *)
Definition ex_s0 : hstate Z :=
  {| hs_h := mkheap [] 0 0; hs_pos := fun _ => None; hs_key := fun _ => 0%Z;
     hs_o := {| ans := [true; false]; dflt := true |}; hs_ms := [] |}.

Example ex_hinv0 : hinv Z Z.le ex_s0.
Proof.
  split; cbn.
  - split; [reflexivity|]. intros j Hj. cbn in Hj. lia.
  - intros i Hi. simpl in Hi. lia.
  - apply Permutation_refl.
Qed.

Definition ex_zcmp (a b : Z) : Z := (a - b)%Z.

Definition ex_ops : list (hop Z) :=
  [OAdd 1%N 5; OAdd 2%N 5; OAdd 3%N 1; OAdd 4%N 5; OAdd 5%N 0; OIncrease 5%N 7; ODecrease 4%N (-2);
   ODelete 3%N; OIncreaseMin 6; ODeleteMin]%Z.

(* the refused second allocation makes "add 2" fail and leaves the heap as it was *)
Example ex_history :
  match hrun Z ex_zcmp ex_s0 ex_ops with
  | Ok s => (elems (hs_h s), hs_ms s, map (hs_pos s) [1; 4; 5]%N)
  | _ => ([], [], [])
  end = ([4; 5]%N, [5; 4]%N, [Some 0; Some 0; Some 1]).
Proof. vm_compute. reflexivity. Qed.

(* timer queue: the empty queue satisfies the invariant, and so does what add makes of it *)
Definition ex_q0 : tqueue := {| tq_heap := mkheap [] 0 0; tq_recs := FMapPositive.PositiveMap.empty _ |}.

Example ex_tq_inv0 : tq_inv ex_q0.
Proof.
  split; cbn.
  - split; [reflexivity|]. intros j Hj. cbn in Hj. lia.
  - intros i Hi. simpl in Hi. lia.
  - intros id H. rewrite rfind_empty in H. contradiction.
Qed.

Example ex_tq_run :
  let tv s u := {| tv_sec := s; tv_usec := u |} in
  match timerqueue_add std_tc std_hc 32 ex_q0 10 (tv 5 0)%Z 100 all_grant with
  | Ok (_, q1, _, _) =>
    match timerqueue_add std_tc std_hc 32 q1 11 (tv 3 7)%Z 101 all_grant with
    | Ok (_, q2, _, _) =>
      match timerqueue_add std_tc std_hc 32 q2 12 (tv 3 7)%Z 102 all_grant with
      | Ok (_, q3, _, _) =>
        match timerqueue_getptr std_tc std_hc 32 q3 (tv 3 6)%Z all_grant,
              timerqueue_getptr std_tc std_hc 32 q3 (tv 3 7)%Z all_grant with
        | Ok (p1, _, _, _), Ok (p2, q4, _, _) => (p1, p2, elems (tq_heap q4))
        | _, _ => (None, None, [])
        end
      | _ => (None, None, [])
      end
    | _ => (None, None, [])
    end
  | _ => (None, None, [])
  end = (None, Some 101%N, [12; 10]%N).
Proof. vm_compute. reflexivity. Qed.
