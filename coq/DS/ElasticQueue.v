(* datastruct/elasticqueue.c: MODEL on top of the elastic-array model (offset/len window, the
   move-to-front loop as written, record copies through checked memory) and SPEC (ideal FIFO of
   records).  No proofs here. *)
From Coq Require Import NArith List Bool.
From LCP Require Import Base.CheckedMem DS.AllocOracle DS.ElasticArray.
Import ListNotations.
Local Open Scope N_scope.
Local Open Scope res_scope.

Record equeue : Type := { eq_ea : ea; eq_offset : N; eq_len : N; eq_reclen : N }.

Section Model.
  Variables gmul sdiv smul : N.
  Variable ssz : N.                 (* sizeof(struct elasticarray) *)
  Variable qsz : N.                 (* sizeof(struct elasticqueue) *)

  (* elasticqueue_init *)
  Definition eq_init (reclen : N) (o : oracle) : res (option equeue * oracle * list aev) :=
    if reclen =? 0 then AssertFail
    else
      let (ok, o1) := next o in
      if negb ok then Ok (None, o1, [AMalloc qsz false])
      else
        let* (r, o2, ev) := ea_init gmul sdiv smul ssz 0 reclen o1 in
        match r with
        | None => Ok (None, o2, AMalloc qsz true :: ev ++ [AFree qsz])
        | Some e => Ok (Some {| eq_ea := e; eq_offset := 0; eq_len := 0; eq_reclen := reclen |},
                        o2, AMalloc qsz true :: ev)
        end.

  (* elasticqueue_add *)
  Definition eq_add (q : equeue) (rec : list N) (o : oracle) : res (bool * equeue * oracle * list aev) :=
    let* (ok, e1, o1, ev) := ea_append gmul sdiv smul (eq_ea q) rec 1 (eq_reclen q) o in
    if ok then
      Ok (true, {| eq_ea := e1; eq_offset := eq_offset q; eq_len := (eq_len q + 1) mod W;
                   eq_reclen := eq_reclen q |}, o1, ev)
    else
      Ok (false, {| eq_ea := e1; eq_offset := eq_offset q; eq_len := eq_len q;
                    eq_reclen := eq_reclen q |}, o1, ev).

  (* one iteration of  for (i = 0; i < EQ->len; i++) memcpy(get(i), get(i + offset), reclen) *)
  Definition eq_move_step (e : ea) (off reclen : N) (st : res (N * list N)) : res (N * list N) :=
    let* (i, b) := st in
    let newpos := ea_get e i reclen in
    let oldpos := ea_get e ((i + off) mod W) reclen in
    let* r := mem_read b oldpos reclen in
    let* b' := mem_write b newpos r in
    Ok ((i + 1) mod W, b').

  Definition eq_move (e : ea) (off len reclen : N) : res (list N) :=
    let* (_, b) := N.iter len (eq_move_step e off reclen) (Ok (0, ea_buf e)) in Ok b.

  (* elasticqueue_delete *)
  Definition eq_delete (q : equeue) (o : oracle) : res (equeue * oracle * list aev) :=
    if eq_len q =? 0 then Ok (q, o, [])
    else
      let off1 := (eq_offset q + 1) mod W in
      let len1 := eq_len q - 1 in
      if len1 <? off1 then
        let* b := eq_move (eq_ea q) off1 len1 (eq_reclen q) in
        let e1 := {| ea_size := ea_size (eq_ea q); ea_alloc := ea_alloc (eq_ea q); ea_buf := b |} in
        let* (e2, o1, ev) := ea_shrink gmul sdiv smul e1 off1 (eq_reclen q) o in
        Ok ({| eq_ea := e2; eq_offset := 0; eq_len := len1; eq_reclen := eq_reclen q |}, o1, ev)
      else
        Ok ({| eq_ea := eq_ea q; eq_offset := off1; eq_len := len1; eq_reclen := eq_reclen q |}, o, []).

  Definition eq_getlen (q : equeue) : N := eq_len q.

  (* elasticqueue_get: None = NULL, Some off = pointer to byte offset off of the array's buffer *)
  Definition eq_get (q : equeue) (pos : N) : option N :=
    if eq_len q <=? pos then None
    else Some (ea_get (eq_ea q) ((pos + eq_offset q) mod W) (eq_reclen q)).

  Definition eq_free_ev (q : equeue) : list aev := ea_free_ev ssz (eq_ea q) ++ [AFree qsz].

  (* a client reading / storing one record through the pointer returned by elasticqueue_get *)
  Definition eq_peek (q : equeue) (pos : N) : res (option (list N)) :=
    match eq_get q pos with
    | None => Ok None
    | Some off => let* r := mem_read (ea_buf (eq_ea q)) off (eq_reclen q) in Ok (Some r)
    end.

  Definition eq_store (q : equeue) (pos : N) (rec : list N) : res equeue :=
    match eq_get q pos with
    | None => Fault                                   (* store through NULL *)
    | Some off =>
      let* b := mem_write (ea_buf (eq_ea q)) off rec in
      Ok {| eq_ea := {| ea_size := ea_size (eq_ea q); ea_alloc := ea_alloc (eq_ea q); ea_buf := b |};
            eq_offset := eq_offset q; eq_len := eq_len q; eq_reclen := eq_reclen q |}
    end.

  (* ---------- client programs ---------- *)
  Inductive eq_op : Type :=
  | QInit (reclen : N)
  | QAdd (rec : list N)
  | QDelete
  | QGetlen
  | QGet (pos : N)                  (* get + read the record (or see NULL) *)
  | QSet (pos : N) (rec : list N)   (* store a record through get's pointer when it is not NULL *)
  | QFree.

  Inductive eq_out : Type :=
  | YNoObj
  | YRc (ok : bool)
  | YUnit
  | YSize (n : N)
  | YRec (r : option (list N)).

  Definition eq_step (op : eq_op) (st : option equeue) (o : oracle)
    : res (eq_out * option equeue * oracle * list aev) :=
    match op, st with
    | QInit reclen, None =>
      let* (r, o1, ev) := eq_init reclen o in
      Ok (YRc (match r with Some _ => true | None => false end), r, o1, ev)
    | QInit _, Some _ => Ok (YNoObj, st, o, [])
    | _, None => Ok (YNoObj, None, o, [])
    | QAdd rec, Some q =>
      let* (ok, q1, o1, ev) := eq_add q rec o in Ok (YRc ok, Some q1, o1, ev)
    | QDelete, Some q =>
      let* (q1, o1, ev) := eq_delete q o in Ok (YUnit, Some q1, o1, ev)
    | QGetlen, Some q => Ok (YSize (eq_getlen q), st, o, [])
    | QGet pos, Some q => let* r := eq_peek q pos in Ok (YRec r, st, o, [])
    | QSet pos rec, Some q =>
      match eq_get q pos with
      | None => Ok (YUnit, st, o, [])
      | Some _ => let* q1 := eq_store q pos rec in Ok (YUnit, Some q1, o, [])
      end
    | QFree, Some q => Ok (YUnit, None, o, eq_free_ev q)
    end.

  Fixpoint eq_run (ops : list eq_op) (st : option equeue) (o : oracle)
    : res (list (eq_out * option equeue * list aev)) :=
    match ops with
    | [] => Ok []
    | op :: r =>
      let* (x, st1, o1, ev) := eq_step op st o in
      let* t := eq_run r st1 o1 in
      Ok ((x, st1, ev) :: t)
    end.

  (* everything a client can see of a queue: its length and every record, head first *)
  Fixpoint eq_view_from (q : equeue) (pos : N) (n : nat) : res (list (list N)) :=
    match n with
    | O => Ok []
    | S k =>
      let* r := eq_peek q pos in
      match r with
      | None => Fault
      | Some rec => let* t := eq_view_from q (pos + 1) k in Ok (rec :: t)
      end
    end.
  Definition eq_view (q : equeue) : res (list (list N)) := eq_view_from q 0 (N.to_nat (eq_getlen q)).
End Model.

(* ---------------- spec: ideal FIFO of records ---------------- *)
(* state: record length and the records, head first *)
Definition fifo : Type := (N * list (list N))%type.

Fixpoint set_nth {A} (l : list A) (n : nat) (x : A) : list A :=
  match l, n with
  | [], _ => []
  | _ :: r, O => x :: r
  | y :: r, S k => y :: set_nth r k x
  end.

Definition eq_spec_step (op : eq_op) (st : option fifo) (refused : bool) : eq_out * option fifo :=
  match op, st with
  | QInit reclen, None => if refused then (YRc false, None) else (YRc true, Some (reclen, []))
  | QInit _, Some _ => (YNoObj, st)
  | _, None => (YNoObj, None)
  | QAdd rec, Some (rl, l) =>
    if refused then (YRc false, st) else (YRc true, Some (rl, l ++ [firstn (N.to_nat rl) rec]))
  | QDelete, Some (rl, l) => (YUnit, Some (rl, tl l))
  | QGetlen, Some (rl, l) => (YSize (N.of_nat (length l)), st)
  | QGet pos, Some (rl, l) =>
    (YRec (if pos <? N.of_nat (length l) then nth_error l (N.to_nat pos) else None), st)
  | QSet pos rec, Some (rl, l) =>
    (YUnit, if pos <? N.of_nat (length l) then Some (rl, set_nth l (N.to_nat pos) rec) else st)
  | QFree, Some _ => (YUnit, None)
  end.

Fixpoint eq_spec_run (ops : list eq_op) (st : option fifo) (flags : list bool)
  : list (eq_out * option fifo) :=
  match ops with
  | [] => []
  | op :: r =>
    let f := match flags with [] => false | b :: _ => b end in
    let '(x, st1) := eq_spec_step op st f in
    (x, st1) :: eq_spec_run r st1 (tl flags)
  end.
