(* datastruct/ptrheap.c: MODEL.  Mirrors the C as it is:
     - the pointer array (ptrlist, an elastic array of void * ) is a list of element ids read and
       written through checked accesses (outside the array = Fault);
     - compar(cookie, x, y) is a function [cmp] on ids returning the C int (only its sign is used);
       the keys live outside the heap and may change between calls (increase / decrease);
     - every call of setreccookie(cookie, ptr, pos) is emitted as a note (ptr, pos), in call order;
     - swap, heapifyup, heapify, create, add, getmin, delete, deletemin, decrease, increase,
       increasemin follow the C statement by statement (same comparison order, same strictness,
       N = nelems still counting the stale last slot during delete);
     - the array's allocation policy (static resize() of elasticarray.c) is mirrored on block sizes
       only, with the allocation oracle of DS/AllocOracle.v; sizes are bytes, size_t wraps mod 2^64.
   Not modelled: the overflow guards of elasticarray_append/resize (nrec > SIZE_MAX / reclen), which
   need more than 2^60 elements.  Index arithmetic is on nat (no wrap below 2^63 elements); the one
   place where the C relies on unsigned wrap-around (the loop guard of ptrheap_create) is explicit.
   No proofs in this file. *)
From Coq Require Import NArith ZArith List Bool Arith.
From LCP Require Import Base.CheckedMem DS.AllocOracle.
Import ListNotations.
Local Open Scope res_scope.

Definition note : Type := (N * nat)%type.          (* setreccookie(cookie, ptr, pos) *)

(* checked access to the pointer array *)
Definition getp (l : list N) (i : nat) : res N :=
  match nth_error l i with Some x => Ok x | None => Fault end.

Fixpoint upd (l : list N) (i : nat) (v : N) : list N :=
  match l, i with
  | [], _ => []
  | _ :: r, O => v :: r
  | x :: r, S i' => x :: upd r i' v
  end.

Definition putp (l : list N) (i : nat) (v : N) : res (list N) :=
  if i <? length l then Ok (upd l i v) else Fault.

(* index arithmetic of the implicit tree, constants regenerated from the C text *)
Record treeconsts : Type := { t_psub : nat; t_pdiv : nat; t_cmul : nat; t_c1 : nat; t_c2 : nat }.

(* sizes and policy constants (regenerated) *)
Record heapconsts : Type := {
  c_hsz : N;        (* sizeof(struct ptrheap) *)
  c_easz : N;       (* sizeof(struct elasticarray) *)
  c_reclen : N;     (* sizeof(void * ) *)
  c_gmul : N; c_sdiv : N; c_smul : N   (* resize(): alloc * 2, alloc / 4, nsize * 2 *)
}.

Definition W64 : N := (2 ^ 64)%N.

(* struct ptrheap: elems (its contents and the allocation size of its buffer) and nelems *)
Record heap : Type := mkheap { elems : list N; nelems : nat; h_alloc : N }.

Section Model.
  Variable tc : treeconsts.
  Variable hc : heapconsts.
  Variable cmp : N -> N -> Z.

  Definition parent (i : nat) : nat := (i - t_psub tc) / t_pdiv tc.
  Definition child1 (i : nat) : nat := t_cmul tc * i + t_c1 tc.
  Definition child2 (i : nat) : nat := t_cmul tc * i + t_c2 tc.

  (* static void swap(elems, i, j, setreccookie, cookie) *)
  Definition swap (l : list N) (i j : nat) (setrc : bool) : res (list N * list note) :=
    let* tmp := getp l i in
    let* xj := getp l j in
    let* l1 := putp l i xj in
    let* l2 := putp l1 j tmp in
    if setrc then
      let* a := getp l2 i in
      let* b := getp l2 j in
      Ok (l2, [(a, i); (b, j)])
    else Ok (l2, []).

  (* static void heapifyup(elems, i, compar, setreccookie, cookie) *)
  Fixpoint heapifyup (fuel : nat) (l : list N) (i : nat) (setrc : bool) {struct fuel}
    : res (list N * list note) :=
    match fuel with
    | O => OutOfFuel
    | S f =>
      if i =? 0 then Ok (l, [])
      else
        let* x := getp l i in
        let* p := getp l (parent i) in
        if (cmp x p >=? 0)%Z then Ok (l, [])
        else
          let* (l1, n1) := swap l i (parent i) setrc in
          let* (l2, n2) := heapifyup f l1 (parent i) setrc in
          Ok (l2, n1 ++ n2)
    end.

  (* one "is this bigger than element c?" step of heapify *)
  Definition pick (l : list N) (n min c : nat) : res nat :=
    if c <? n then
      let* a := getp l min in
      let* b := getp l c in
      Ok (if (cmp a b >? 0)%Z then c else min)
    else Ok min.

  (* static void heapify(elems, i, N, compar, setreccookie, cookie) *)
  Fixpoint heapify (fuel : nat) (l : list N) (i n : nat) (setrc : bool) {struct fuel}
    : res (list N * list note) :=
    match fuel with
    | O => OutOfFuel
    | S f =>
      let* m1 := pick l n i (child1 i) in
      let* m2 := pick l n m1 (child2 i) in
      if m2 =? i then Ok (l, [])
      else
        let* (l1, n1) := swap l m2 i setrc in
        let* (l2, n2) := heapify f l1 m2 n setrc in
        Ok (l2, n1 ++ n2)
    end.

  (* ---- the elastic array's static resize(), on block sizes only ---- *)
  Definition blk (alloc : N) : option N := if (alloc =? 0)%N then None else Some alloc.
  Definition free_buf_ev (alloc : N) : list aev :=
    match blk alloc with None => [] | Some a => [AFree a] end.

  (* returns (succeeded, new alloc, oracle, events) *)
  Definition ea_resize (alloc nsize : N) (o : oracle) : res (bool * N * oracle * list aev) :=
    let nalloc :=
      (if alloc <? nsize then
         let na := (alloc * c_gmul hc) mod W64 in if na <? nsize then nsize else na
       else if nsize <? alloc / c_sdiv hc then (nsize * c_smul hc) mod W64
       else alloc)%N in
    if (nalloc =? 0)%N then
      if (nsize =? 0)%N then Ok (true, 0%N, o, free_buf_ev alloc) else AssertFail
    else if negb (nalloc =? alloc)%N then
      let (ok, o') := next o in
      if ok then Ok (true, nalloc, o', [ARealloc (blk alloc) nalloc true])
      else Ok (false, alloc, o', [ARealloc (blk alloc) nalloc false])
    else Ok (true, alloc, o, []).

  Definition bytes (n : nat) : N := (N.of_nat n * c_reclen hc) mod W64.

  (* ---- ptrheap_create ---- *)
  (* "for (i = N - 1; i < N; i--)": the index after the decrement of 0 is SIZE_MAX (here None),
     for which the guard i < N is false; N - 1 with N = 0 is SIZE_MAX as well *)
  Definition dec_wrap (i : nat) : option nat := match i with O => None | S j => Some j end.

  Fixpoint create_loop (fuel : nat) (l : list N) (i : option nat) (n : nat) {struct fuel}
    : res (list N) :=
    match fuel with
    | O => OutOfFuel
    | S f =>
      match i with
      | None => Ok l
      | Some i =>
        if i <? n then
          let* (l1, _) := heapify (S (length l)) l i n false in
          create_loop f l1 (dec_wrap i) n
        else Ok l
      end
    end.

  Fixpoint notify_all (l : list N) (i : nat) : list note :=
    match l with [] => [] | x :: r => (x, i) :: notify_all r (S i) end.

  (* None = returned NULL *)
  Definition ptrheap_create (setrc : bool) (ptrs : list N) (o : oracle)
    : res (option heap * list note * oracle * list aev) :=
    let n := length ptrs in
    let (okH, o1) := next o in
    if negb okH then Ok (None, [], o1, [AMalloc (c_hsz hc) false])
    else
      (* ptrlist_init(N) = elasticarray_init(N, sizeof(void * )) *)
      let (okE, o2) := next o1 in
      if negb okE then
        Ok (None, [], o2, [AMalloc (c_hsz hc) true; AMalloc (c_easz hc) false; AFree (c_hsz hc)])
      else
        let* (okR, alloc, o3, ev) := ea_resize 0%N (bytes n) o2 in
        if negb okR then
          Ok (None, [], o3, [AMalloc (c_hsz hc) true; AMalloc (c_easz hc) true] ++ ev
                             ++ free_buf_ev alloc ++ [AFree (c_easz hc); AFree (c_hsz hc)])
        else
          let* l1 := create_loop (S n) ptrs (dec_wrap n) n in
          let ns := if setrc then notify_all l1 0 else [] in
          Ok (Some (mkheap l1 n alloc), ns, o3,
              [AMalloc (c_hsz hc) true; AMalloc (c_easz hc) true] ++ ev)
    .

  Definition ptrheap_init (setrc : bool) (o : oracle) := ptrheap_create setrc [] o.

  (* ---- ptrheap_add: false = returned -1 ---- *)
  Definition ptrheap_add (setrc : bool) (h : heap) (x : N) (o : oracle)
    : res (bool * heap * list note * oracle * list aev) :=
    let* (ok, alloc, o1, ev) :=
       ea_resize (h_alloc h) ((bytes (length (elems h)) + c_reclen hc) mod W64)%N o in
    if negb ok then Ok (false, h, [], o1, ev)
    else
      let l := elems h ++ [x] in
      let n := nelems h + 1 in
      let n0 := if setrc then [(x, n - 1)] else [] in
      let* (l1, ns) := heapifyup (S (length l)) l (n - 1) setrc in
      Ok (true, mkheap l1 n alloc, n0 ++ ns, o1, ev).

  (* ---- ptrheap_getmin: None = NULL ---- *)
  Definition ptrheap_getmin (h : heap) : res (option N) :=
    if nelems h =? 0 then Ok None else let* x := getp (elems h) 0 in Ok (Some x).

  (* ptrlist_shrink(elems, 1): a refused realloc is ignored, the new size is recorded anyway *)
  Definition shrink1 (l : list N) (alloc : N) (o : oracle) : res (list N * N * oracle * list aev) :=
    let sz := bytes (length l) in
    let nsize := (if sz <? c_reclen hc then 0 else sz - c_reclen hc)%N in
    let* (_, alloc1, o1, ev) := ea_resize alloc nsize o in
    Ok (removelast l, alloc1, o1, ev).

  (* ---- ptrheap_delete ---- *)
  (* the body of "if (rc != H->nelems - 1) { ... }" *)
  Definition delete_sift (setrc : bool) (l : list N) (n rc : nat) : res (list N * list note) :=
    let* last := getp l (n - 1) in
    let* l1 := putp l rc last in
    let* n0 := (if setrc then let* y := getp l1 rc in Ok [(y, rc)] else Ok []) in
    let* up := (if 0 <? rc then
                  let* a := getp l1 rc in
                  let* b := getp l1 (parent rc) in
                  Ok (cmp a b <? 0)%Z
                else Ok false) in
    if up then
      let* (l2, n1) := swap l1 rc (parent rc) setrc in
      let* (l3, n2) := heapifyup (S (length l2)) l2 (parent rc) setrc in
      Ok (l3, n0 ++ n1 ++ n2)
    else
      let* (l2, n1) := heapify (S (length l1)) l1 rc n setrc in
      Ok (l2, n0 ++ n1).

  Definition ptrheap_delete (setrc : bool) (h : heap) (rc : nat) (o : oracle)
    : res (heap * list note * oracle * list aev) :=
    let l := elems h in
    let n := nelems h in
    if n =? 0 then Fault            (* nelems - 1 = SIZE_MAX: the array is read far outside *)
    else
      let* (l1, ns) := (if negb (rc =? n - 1) then delete_sift setrc l n rc else Ok (l, [])) in
      let* (l2, alloc, o1, ev) := shrink1 l1 (h_alloc h) o in
      Ok (mkheap l2 (n - 1) alloc, ns, o1, ev).

  Definition ptrheap_deletemin (setrc : bool) (h : heap) (o : oracle) := ptrheap_delete setrc h 0 o.

  (* ---- ptrheap_decrease / increase / increasemin ---- *)
  Definition ptrheap_decrease (setrc : bool) (h : heap) (rc : nat) : res (heap * list note) :=
    let* (l1, ns) := heapifyup (S (length (elems h))) (elems h) rc setrc in
    Ok (mkheap l1 (nelems h) (h_alloc h), ns).

  Definition ptrheap_increase (setrc : bool) (h : heap) (rc : nat) : res (heap * list note) :=
    let* (l1, ns) := heapify (S (length (elems h))) (elems h) rc (nelems h) setrc in
    Ok (mkheap l1 (nelems h) (h_alloc h), ns).

  Definition ptrheap_increasemin (setrc : bool) (h : heap) : res (heap * list note) :=
    ptrheap_increase setrc h 0.

  (* ---- ptrheap_free: ptrlist_free (free(buf); free(EA)); free(H) ---- *)
  Definition ptrheap_free_ev (h : heap) : list aev :=
    free_buf_ev (h_alloc h) ++ [AFree (c_easz hc); AFree (c_hsz hc)].
End Model.

(* The position table a caller keeps: the last position notified for each id. *)
Definition pos_upd (pos : N -> option nat) (nt : note) : N -> option nat :=
  fun x => if (x =? fst nt)%N then Some (snd nt) else pos x.
Definition apply_notes (pos : N -> option nat) (ns : list note) : N -> option nat :=
  fold_left pos_upd ns pos.
