(* datastruct/timerqueue.c: MODEL on top of DS/PtrHeap.v.
   A struct timerrec is a record (tv, rc, ptr) stored under its id (the address malloc returned,
   supplied by the environment and assumed distinct from the live ones).  compar reads only tv,
   setreccookie writes only rc; the heap model returns the notifications of one call as a list and
   they are applied to the records right after the call, which for these two callbacks is the same
   as applying them during the call.  Accessing a record that is not live (a freed cookie) = Fault. *)
From Coq Require Import NArith ZArith List Bool Arith FMapPositive.
From LCP Require Import Base.CheckedMem DS.AllocOracle DS.PtrHeap.
Import ListNotations.
Local Open Scope res_scope.

Record timeval : Type := { tv_sec : Z; tv_usec : Z }.
Record timerrec : Type := { r_tv : timeval; r_rc : nat; r_ptr : N }.

(* static int tvcmp(x, y) *)
Definition tvcmp (x y : timeval) : Z :=
  if (tv_sec x >? tv_sec y)%Z then 1%Z
  else if (tv_sec x <? tv_sec y)%Z then (-1)%Z
  else if (tv_usec x >? tv_usec y)%Z then 1%Z
  else if (tv_usec x <? tv_usec y)%Z then (-1)%Z
  else 0%Z.

Definition recmap : Type := PositiveMap.t timerrec.
Definition rkey (id : N) : positive := N.succ_pos id.
Definition rfind (m : recmap) (id : N) : option timerrec := PositiveMap.find (rkey id) m.
Definition radd (m : recmap) (id : N) (r : timerrec) : recmap := PositiveMap.add (rkey id) r m.
Definition rdel (m : recmap) (id : N) : recmap := PositiveMap.remove (rkey id) m.

(* static int compar(cookie, x, y): only ever called on records in the heap, which are live; the
   timeval read through a pointer to a freed record is unspecified (here 0.0) *)
Definition tvof (m : recmap) (x : N) : timeval :=
  match rfind m x with Some r => r_tv r | None => {| tv_sec := 0; tv_usec := 0 |} end.
Definition reccmp (m : recmap) (x y : N) : Z := tvcmp (tvof m x) (tvof m y).

(* static void setreccookie(cookie, ptr, rc) *)
Definition set_rc (m : recmap) (nt : note) : recmap :=
  match rfind m (fst nt) with
  | Some r => radd m (fst nt) {| r_tv := r_tv r; r_rc := snd nt; r_ptr := r_ptr r |}
  | None => m
  end.
Definition set_rcs (m : recmap) (ns : list note) : recmap := fold_left set_rc ns m.

(* struct timerqueue: the heap and (ghost for the C, state here) the live records *)
Record tqueue : Type := { tq_heap : heap; tq_recs : recmap }.

Section Model.
  Variable tc : treeconsts.
  Variable hc : heapconsts.
  Variable qsz rsz : N.     (* sizeof(struct timerqueue), sizeof(struct timerrec) *)

  (* timerqueue_init: None = NULL *)
  Definition timerqueue_init (o : oracle) : res (option tqueue * oracle * list aev) :=
    let (okQ, o1) := next o in
    if negb okQ then Ok (None, o1, [AMalloc qsz false])
    else
      let* (oh, _, o2, ev) := ptrheap_init tc hc (reccmp (PositiveMap.empty _)) true o1 in
      match oh with
      | None => Ok (None, o2, [AMalloc qsz true] ++ ev ++ [AFree qsz])
      | Some h => Ok (Some {| tq_heap := h; tq_recs := PositiveMap.empty _ |}, o2, [AMalloc qsz true] ++ ev)
      end.

  (* timerqueue_add(Q, tv, ptr): [id] is the address malloc hands out if it succeeds;
     None = NULL, Some id = the cookie *)
  Definition timerqueue_add (q : tqueue) (id : N) (tv : timeval) (ptr : N) (o : oracle)
    : res (option N * tqueue * oracle * list aev) :=
    let (okR, o1) := next o in
    if negb okR then Ok (None, q, o1, [AMalloc rsz false])
    else
      (* r->rc is not initialised here; ptrheap_add's first notification fills it in *)
      let m1 := radd (tq_recs q) id {| r_tv := tv; r_rc := 0; r_ptr := ptr |} in
      let* (ok, h1, ns, o2, ev) := ptrheap_add tc hc (reccmp m1) true (tq_heap q) id o1 in
      if negb ok then Ok (None, q, o2, [AMalloc rsz true] ++ ev ++ [AFree rsz])
      else Ok (Some id, {| tq_heap := h1; tq_recs := set_rcs m1 ns |}, o2, [AMalloc rsz true] ++ ev).

  (* timerqueue_delete(Q, cookie) *)
  Definition timerqueue_delete (q : tqueue) (id : N) (o : oracle) : res (tqueue * oracle * list aev) :=
    match rfind (tq_recs q) id with
    | None => Fault
    | Some r =>
      let* (h1, ns, o1, ev) := ptrheap_delete tc hc (reccmp (tq_recs q)) true (tq_heap q) (r_rc r) o in
      Ok ({| tq_heap := h1; tq_recs := rdel (set_rcs (tq_recs q) ns) id |}, o1, ev ++ [AFree rsz])
    end.

  (* timerqueue_increase(Q, cookie, tv) *)
  Definition timerqueue_increase (q : tqueue) (id : N) (tv : timeval) : res tqueue :=
    match rfind (tq_recs q) id with
    | None => Fault
    | Some r =>
      let m1 := radd (tq_recs q) id {| r_tv := tv; r_rc := r_rc r; r_ptr := r_ptr r |} in
      let* (h1, ns) := ptrheap_increase tc (reccmp m1) true (tq_heap q) (r_rc r) in
      Ok {| tq_heap := h1; tq_recs := set_rcs m1 ns |}
    end.

  (* timerqueue_getmin: None = NULL *)
  Definition timerqueue_getmin (q : tqueue) : res (option timeval) :=
    let* om := ptrheap_getmin (tq_heap q) in
    match om with
    | None => Ok None
    | Some id => match rfind (tq_recs q) id with Some r => Ok (Some (r_tv r)) | None => Fault end
    end.

  (* timerqueue_getptr(Q, tv): None = NULL (nothing released) *)
  Definition timerqueue_getptr (q : tqueue) (tv : timeval) (o : oracle)
    : res (option N * tqueue * oracle * list aev) :=
    let* om := ptrheap_getmin (tq_heap q) in
    match om with
    | None => Ok (None, q, o, [])
    | Some id =>
      match rfind (tq_recs q) id with
      | None => Fault
      | Some r =>
        if (tvcmp (r_tv r) tv >? 0)%Z then Ok (None, q, o, [])
        else
          let* (h1, ns, o1, ev) := ptrheap_deletemin tc hc (reccmp (tq_recs q)) true (tq_heap q) o in
          Ok (Some (r_ptr r), {| tq_heap := h1; tq_recs := rdel (set_rcs (tq_recs q) ns) id |},
              o1, ev ++ [AFree rsz])
      end
    end.

  (* timerqueue_free: while ((r = getmin) != NULL) { free(r); deletemin; }  ptrheap_free; free(Q) *)
  Fixpoint timerqueue_free (fuel : nat) (q : tqueue) (o : oracle) {struct fuel}
    : res (oracle * list aev) :=
    match fuel with
    | O => OutOfFuel
    | S f =>
      let* om := ptrheap_getmin (tq_heap q) in
      match om with
      | None => Ok (o, ptrheap_free_ev hc (tq_heap q) ++ [AFree qsz])
      | Some id =>
        match rfind (tq_recs q) id with
        | None => Fault
        | Some r =>
          (* the record is already freed here; deletemin still compares other live records and
             notifies them, and may notify nothing about the freed one (it is in the last-slot /
             root position being removed) *)
          let* (h1, ns, o1, ev) := ptrheap_deletemin tc hc (reccmp (tq_recs q)) true (tq_heap q) o in
          let* (o2, ev2) := timerqueue_free f {| tq_heap := h1; tq_recs := rdel (set_rcs (tq_recs q) ns) id |} o1 in
          Ok (o2, [AFree rsz] ++ ev ++ ev2)
        end
      end
    end.
End Model.
