(* datastruct/elasticarray.c: MODEL (mirrors the C: same branches, size_t arithmetic written out
   mod 2^64, checked memory for the memcpy's, allocation oracle) and SPEC (an ideal resizable
   byte sequence, unbounded arithmetic, written from elasticarray.h).  No proofs here. *)
From Coq Require Import NArith List Bool.
From LCP Require Import Base.CheckedMem DS.AllocOracle.
Import ListNotations.
Local Open Scope N_scope.
Local Open Scope res_scope.

Definition W : N := 2 ^ 64.              (* SIZE_MAX + 1 *)
Definition SIZE_MAX : N := W - 1.

(* ---------------- checked memory on one block ---------------- *)
(* memcpy out of a block: [len] bytes at byte offset [off] *)
Definition mem_read (buf : list N) (off len : N) : res (list N) :=
  if off + len <=? N.of_nat (length buf)
  then Ok (firstn (N.to_nat len) (skipn (N.to_nat off) buf))
  else Fault.

(* memcpy into a block *)
Definition mem_write (buf : list N) (off : N) (data : list N) : res (list N) :=
  if off + N.of_nat (length data) <=? N.of_nat (length buf)
  then Ok (firstn (N.to_nat off) buf ++ data ++ skipn (N.to_nat off + length data) buf)
  else Fault.

(* successful realloc(buf, n): keeps the common prefix; new bytes are unspecified (0 here) *)
Definition realloc_buf (buf : list N) (n : N) : list N :=
  firstn (N.to_nat n) buf ++ repeat 0 (N.to_nat n - length buf).

(* ---------------- model ---------------- *)
Record ea : Type := { ea_size : N; ea_alloc : N; ea_buf : list N }.   (* buf = [] <-> NULL *)

Definition ea_blk (e : ea) : option N := if ea_alloc e =? 0 then None else Some (ea_alloc e).
Definition ea_free_buf_ev (e : ea) : list aev :=
  match ea_blk e with None => [] | Some a => [AFree a] end.

Section Model.
  Variables gmul sdiv smul : N.     (* "* 2", "/ 4", "* 2" of resize(), regenerated from the C *)
  Variable ssz : N.                 (* sizeof(struct elasticarray) *)

  (* static int resize(EA, nsize) *)
  Definition resize_m (e : ea) (nsize : N) (o : oracle) : res (bool * ea * oracle * list aev) :=
    let nalloc :=
      if ea_alloc e <? nsize then
        let na := (ea_alloc e * gmul) mod W in
        if na <? nsize then nsize else na
      else if nsize <? ea_alloc e / sdiv then (nsize * smul) mod W
      else ea_alloc e in
    if nalloc =? 0 then
      if nsize =? 0 then
        Ok (true, {| ea_size := nsize; ea_alloc := 0; ea_buf := [] |}, o, ea_free_buf_ev e)
      else AssertFail
    else if negb (nalloc =? ea_alloc e) then
      let (ok, o') := next o in
      if ok then
        Ok (true, {| ea_size := nsize; ea_alloc := nalloc; ea_buf := realloc_buf (ea_buf e) nalloc |},
            o', [ARealloc (ea_blk e) nalloc true])
      else Ok (false, e, o', [ARealloc (ea_blk e) nalloc false])
    else Ok (true, {| ea_size := nsize; ea_alloc := ea_alloc e; ea_buf := ea_buf e |}, o, []).

  (* elasticarray_resize *)
  Definition ea_resize (e : ea) (nrec reclen : N) (o : oracle) : res (bool * ea * oracle * list aev) :=
    if reclen =? 0 then Fault                        (* division by zero *)
    else if SIZE_MAX / reclen <? nrec then Ok (false, e, o, [])   (* errno = ENOMEM *)
    else resize_m e ((nrec * reclen) mod W) o.

  (* elasticarray_free: free(EA->buf); free(EA) *)
  Definition ea_free_ev (e : ea) : list aev := ea_free_buf_ev e ++ [AFree ssz].

  (* elasticarray_init: None = NULL *)
  Definition ea_init (nrec reclen : N) (o : oracle) : res (option ea * oracle * list aev) :=
    if reclen =? 0 then AssertFail
    else
      let (ok, o1) := next o in
      if negb ok then Ok (None, o1, [AMalloc ssz false])
      else
        let e0 := {| ea_size := 0; ea_alloc := 0; ea_buf := [] |} in
        let* (ok2, e1, o2, ev2) := ea_resize e0 nrec reclen o1 in
        if ok2 then Ok (Some e1, o2, AMalloc ssz true :: ev2)
        else Ok (None, o2, AMalloc ssz true :: ev2 ++ ea_free_ev e1).

  (* elasticarray_getsize *)
  Definition ea_getsize (e : ea) (reclen : N) : res N :=
    if reclen =? 0 then Fault else Ok (ea_size e / reclen).

  (* elasticarray_get: byte offset of the returned pointer inside buf *)
  Definition ea_get (e : ea) (pos reclen : N) : N := (pos * reclen) mod W.

  (* elasticarray_append; [data] is the caller's buffer *)
  Definition ea_append (e : ea) (data : list N) (nrec reclen : N) (o : oracle)
    : res (bool * ea * oracle * list aev) :=
    if reclen =? 0 then Fault
    else
      let bufpos := ea_size e in
      if (SIZE_MAX / reclen <? nrec) || (SIZE_MAX - ea_size e <? (nrec * reclen) mod W)
      then Ok (false, e, o, [])
      else
        let nsize := (ea_size e + (nrec * reclen) mod W) mod W in
        let* (ok, e1, o1, ev) := resize_m e nsize o in
        if negb ok then Ok (false, e1, o1, ev)
        else if 0 <? nrec then
          if nsize =? 0 then AssertFail
          else
            let* src := mem_read data 0 ((nrec * reclen) mod W) in
            let* b := mem_write (ea_buf e1) bufpos src in
            Ok (true, {| ea_size := ea_size e1; ea_alloc := ea_alloc e1; ea_buf := b |}, o1, ev)
        else Ok (true, e1, o1, ev).

  (* elasticarray_shrink *)
  Definition ea_shrink (e : ea) (nrec reclen : N) (o : oracle) : res (ea * oracle * list aev) :=
    if reclen =? 0 then Fault
    else
      let nsize :=
        if (SIZE_MAX / reclen <? nrec) || (ea_size e <? (nrec * reclen) mod W) then 0
        else ea_size e - (nrec * reclen) mod W in
      let* (ok, e1, o1, ev) := resize_m e nsize o in
      if ok then Ok (e1, o1, ev)
      else Ok ({| ea_size := nsize; ea_alloc := ea_alloc e1; ea_buf := ea_buf e1 |}, o1, ev).

  (* elasticarray_truncate *)
  Definition ea_truncate (e : ea) (o : oracle) : res (bool * ea * oracle * list aev) :=
    if ea_size e =? 0 then
      Ok (true, {| ea_size := ea_size e; ea_alloc := 0; ea_buf := [] |}, o, ea_free_buf_ev e)
    else if ea_size e <? ea_alloc e then
      let (ok, o') := next o in
      if ok then
        Ok (true, {| ea_size := ea_size e; ea_alloc := ea_size e;
                     ea_buf := realloc_buf (ea_buf e) (ea_size e) |},
            o', [ARealloc (ea_blk e) (ea_size e) true])
      else Ok (false, e, o', [ARealloc (ea_blk e) (ea_size e) false])
    else Ok (true, e, o, []).

  (* elasticarray_export: on success the structure is freed and (buf, nrec) handed out;
     on failure the array is returned intact *)
  Definition ea_export (e : ea) (reclen : N) (o : oracle)
    : res (option (list N * N) * option ea * oracle * list aev) :=
    let* (ok, e1, o1, ev) := ea_truncate e o in
    if negb ok then Ok (None, Some e1, o1, ev)
    else
      let* n := ea_getsize e1 reclen in
      Ok (Some (ea_buf e1, n), None, o1, ev ++ [AFree ssz]).

  (* elasticarray_exportdup *)
  Definition ea_exportdup (e : ea) (reclen : N) (o : oracle)
    : res (option (list N * N) * oracle * list aev) :=
    let (ok, o1) := next o in
    if negb ok then Ok (None, o1, [AMalloc (ea_size e) false])
    else
      let* cp := mem_read (ea_buf e) 0 (ea_size e) in
      let* n := ea_getsize e reclen in
      Ok (Some (cp, n), o1, [AMalloc (ea_size e) true]).

  (* what a client sees: getsize(EA, 1) bytes read through get(EA, 0, 1) *)
  Definition ea_contents (e : ea) : res (list N) := mem_read (ea_buf e) (ea_get e 0 1) (ea_size e).

  (* a client storing [data] through the pointer get(EA, pos, reclen) *)
  Definition ea_poke (e : ea) (pos reclen : N) (data : list N) : res ea :=
    let* b := mem_write (ea_buf e) (ea_get e pos reclen) data in
    Ok {| ea_size := ea_size e; ea_alloc := ea_alloc e; ea_buf := b |}.

  (* ---------- operations of a client program and the step function ---------- *)
  Inductive ea_op : Type :=
  | OInit (nrec reclen fill : N)       (* init, then the client fills the uninitialised records *)
  | OResize (nrec reclen fill : N)     (* resize, then the client fills the new records *)
  | OAppend (data : list N) (nrec reclen : N)
  | OShrink (nrec reclen : N)
  | OTruncate
  | OGet (pos reclen : N)              (* getsize; if pos is below it: get + read the record *)
  | OGetsize (reclen : N)
  | OExport (reclen : N)
  | OExportdup (reclen : N)
  | OFree.

  Inductive ea_out : Type :=
  | XNoObj                              (* skipped: there is no array (or there already is one) *)
  | XRc (ok : bool)                     (* 0 / -1 (non-NULL / NULL for init); errno = ENOMEM on -1 *)
  | XUnit
  | XSize (n : N)
  | XRec (bytes : list N)
  | XExport (ok : bool) (buf : list N) (nrec : N).

  (* the client fills bytes [from, size) through get(EA, from, 1) *)
  Definition ea_fill_from (e : ea) (from fill : N) : res ea :=
    if from <? ea_size e
    then ea_poke e from 1 (repeat fill (N.to_nat (ea_size e - from)))
    else Ok e.

  Definition ea_step (op : ea_op) (st : option ea) (o : oracle)
    : res (ea_out * option ea * oracle * list aev) :=
    match op, st with
    | OInit nrec reclen fill, None =>
      let* (r, o1, ev) := ea_init nrec reclen o in
      match r with
      | None => Ok (XRc false, None, o1, ev)
      | Some e => let* e' := ea_fill_from e 0 fill in Ok (XRc true, Some e', o1, ev)
      end
    | OInit _ _ _, Some e => Ok (XNoObj, st, o, [])
    | _, None => Ok (XNoObj, None, o, [])
    | OResize nrec reclen fill, Some e =>
      let* (ok, e1, o1, ev) := ea_resize e nrec reclen o in
      if ok then let* e' := ea_fill_from e1 (ea_size e) fill in Ok (XRc true, Some e', o1, ev)
      else Ok (XRc false, Some e1, o1, ev)
    | OAppend data nrec reclen, Some e =>
      let* (ok, e1, o1, ev) := ea_append e data nrec reclen o in
      Ok (XRc ok, Some e1, o1, ev)
    | OShrink nrec reclen, Some e =>
      let* (e1, o1, ev) := ea_shrink e nrec reclen o in
      Ok (XUnit, Some e1, o1, ev)
    | OTruncate, Some e =>
      let* (ok, e1, o1, ev) := ea_truncate e o in
      Ok (XRc ok, Some e1, o1, ev)
    | OGet pos reclen, Some e =>
      (* the client asks getsize first and only looks at records that exist *)
      let* n := ea_getsize e reclen in
      if pos <? n then
        let* r := mem_read (ea_buf e) (ea_get e pos reclen) reclen in
        Ok (XRec r, st, o, [])
      else Ok (XNoObj, st, o, [])
    | OGetsize reclen, Some e =>
      let* n := ea_getsize e reclen in Ok (XSize n, st, o, [])
    | OExport reclen, Some e =>
      let* (r, st1, o1, ev) := ea_export e reclen o in
      match r with
      | None => Ok (XExport false [] 0, st1, o1, ev)
      | Some (b, n) => Ok (XExport true b n, st1, o1, ev)
      end
    | OExportdup reclen, Some e =>
      let* (r, o1, ev) := ea_exportdup e reclen o in
      match r with
      | None => Ok (XExport false [] 0, st, o1, ev)
      | Some (b, n) => Ok (XExport true b n, st, o1, ev)
      end
    | OFree, Some e => Ok (XUnit, None, o, ea_free_ev e)
    end.

  (* run a program; the trace records, per operation, the output, the state reached and the
     allocation events of that operation *)
  Fixpoint ea_run (ops : list ea_op) (st : option ea) (o : oracle)
    : res (list (ea_out * option ea * list aev)) :=
    match ops with
    | [] => Ok []
    | op :: r =>
      let* (x, st1, o1, ev) := ea_step op st o in
      let* t := ea_run r st1 o1 in
      Ok ((x, st1, ev) :: t)
    end.
End Model.

(* ---------------- spec: an ideal resizable byte sequence ---------------- *)
(* Sizes are size_t: a request whose byte count is not below 2^64 cannot be represented and must
   be refused (ENOMEM) with nothing changed; an operation that may fail does so exactly when the
   allocator refused a request made on its behalf ([refused]); shrink cannot fail. *)
Definition representable (n : N) : bool := n <? 2 ^ 64.

Definition pad_to (l : list N) (n : N) (fill : N) : list N :=
  firstn (N.to_nat n) l ++ repeat fill (N.to_nat n - length l).

Definition ideal_len (l : list N) : N := N.of_nat (length l).

Definition ea_spec_step (op : ea_op) (st : option (list N)) (refused : bool)
  : ea_out * option (list N) :=
  match op, st with
  | OInit nrec reclen fill, None =>
    if refused || negb (representable (nrec * reclen)) then (XRc false, None)
    else (XRc true, Some (repeat fill (N.to_nat (nrec * reclen))))
  | OInit _ _ _, Some _ => (XNoObj, st)
  | _, None => (XNoObj, None)
  | OResize nrec reclen fill, Some l =>
    if refused || negb (representable (nrec * reclen)) then (XRc false, st)
    else (XRc true, Some (pad_to l (nrec * reclen) fill))
  | OAppend data nrec reclen, Some l =>
    if refused || negb (representable (nrec * reclen))
       || negb (representable (ideal_len l + nrec * reclen))
    then (XRc false, st)
    else (XRc true, Some (l ++ firstn (N.to_nat (nrec * reclen)) data))
  | OShrink nrec reclen, Some l =>
    (XUnit, Some (firstn (N.to_nat (ideal_len l - nrec * reclen)) l))
  | OTruncate, Some l => (XRc (negb refused), st)
  | OGet pos reclen, Some l =>
    if pos <? ideal_len l / reclen
    then (XRec (firstn (N.to_nat reclen) (skipn (N.to_nat (pos * reclen)) l)), st)
    else (XNoObj, st)
  | OGetsize reclen, Some l => (XSize (ideal_len l / reclen), st)
  | OExport reclen, Some l =>
    if refused then (XExport false [] 0, st) else (XExport true l (ideal_len l / reclen), None)
  | OExportdup reclen, Some l =>
    if refused then (XExport false [] 0, st) else (XExport true l (ideal_len l / reclen), st)
  | OFree, Some l => (XUnit, None)
  end.

Fixpoint ea_spec_run (ops : list ea_op) (st : option (list N)) (flags : list bool)
  : list (ea_out * option (list N)) :=
  match ops with
  | [] => []
  | op :: r =>
    let f := match flags with [] => false | b :: _ => b end in
    let '(x, st1) := ea_spec_step op st f in
    (x, st1) :: ea_spec_run r st1 (tl flags)
  end.

(* the documented storage bound, with the code's integer quarter (DESIGN.md section 6) *)
Definition cap_ok (size alloc : N) : bool := alloc / 4 <=? size.
Definition cap_after_grow_ok (size alloc : N) : bool := (alloc <=? 2 * size) || (alloc =? size).
(* the reading without rounding, refuted by init(7,1); shrink(6,1) *)
Definition cap_strict (size alloc : N) : bool := alloc <=? 4 * size.
