(* The theorems of ElasticArrayProofs / ElasticQueueProofs / SeqPtrMapProofs / MpoolProofs restated
   for the models instantiated with the constants regenerated from /repo (DS/ElasticArrayRepo.v).
   Every proof is by conversion: it goes through exactly when Gen/Repo_ds.v still says
   "* 2", "/ 4", "* 2" (resize), 8-byte pointers, and stack doubling by 2. *)
From Coq Require Import NArith ZArith List Bool Permutation.
From LCP Require Import Base.CheckedMem.
From LCP Require Import Gen.Repo_ds.
From LCP Require Import DS.AllocOracle.
From LCP Require Import DS.ElasticArray.
From LCP Require Import DS.ElasticQueue.
From LCP Require Import DS.SeqPtrMap.
From LCP Require Import DS.Mpool.
From LCP Require Import DS.ElasticArrayRepo.
From LCP Require Import DS.ElasticArrayProofs.
From LCP Require Import DS.ElasticQueueProofs.
From LCP Require Import DS.SeqPtrMapProofs.
From LCP Require Import DS.MpoolProofs.
Import ListNotations.
Local Open Scope N_scope.

Lemma repo_ds_consts :
  ea_grow_mul = 2 /\ ea_shrink_div = 4 /\ ea_shrink_mul = 2 /\ spm_reclen = 8 /\
  mpool_grow_mul = 2 /\ mpool_ptr_size = 8.
Proof. repeat split; reflexivity. Qed.

(* ---------------- elastic array ---------------- *)
Lemma r_ea_run_refines ops st o :
  st_inv st -> Forall ea_op_ok ops ->
  exists tr,
    r_ea_run ops st o = Ok tr /\
    Forall (fun t => st_inv (tr_st t)) tr /\
    tr_obs tr = ea_spec_run ops (st_abs st) (tr_flags tr).
Proof. exact (ea_run_refines ea_struct_size ops st o). Qed.

Lemma r_ea_export_exact e reclen o b n st' o' ev :
  ea_inv e -> 0 < reclen ->
  r_ea_step (OExport reclen) (Some e) o = Ok (XExport true b n, st', o', ev) ->
  b = ea_abs e /\ n = ea_size e / reclen /\ st' = None /\ refused ev = false.
Proof. exact (ea_export_exact ea_struct_size e reclen o b n st' o' ev). Qed.

Lemma r_ea_run_capacity ops st o tr :
  st_inv st -> Forall ea_op_ok ops -> st_cap st ->
  r_ea_run ops st o = Ok tr ->
  Forall (fun t => refused (tr_ev t) = false) tr ->
  Forall (fun t => st_cap (tr_st t)) tr.
Proof. exact (ea_run_capacity ea_struct_size ops st o tr). Qed.

Lemma r_ea_capacity_step op st o x st' o' ev :
  st_inv st -> ea_op_ok op ->
  r_ea_step op st o = Ok (x, st', o', ev) ->
  (establishes_cap op x ev -> st_cap st') /\ (refused ev = false -> st_cap st -> st_cap st').
Proof. exact (ea_capacity_step ea_struct_size op st o x st' o' ev). Qed.

Lemma r_ea_grow_bound e nsize o e' o' ev :
  ea_inv e -> nsize < W ->
  r_resize e nsize o = Ok (true, e', o', ev) ->
  ea_alloc e < ea_alloc e' -> ea_alloc e' <= 2 * ea_size e' /\ ea_alloc e' / 4 <= ea_size e'.
Proof. exact (ea_grow_bound e nsize o e' o' ev). Qed.

Lemma r_ea_capacity_strict_refuted :
  exists tr e,
    r_ea_run [OInit 7 1 0; OShrink 6 1] None all_grant = Ok tr /\
    tr_final None tr = Some e /\ ea_size e = 1 /\ ea_alloc e = 7 /\
    cap_strict (ea_size e) (ea_alloc e) = false /\ cap_ok (ea_size e) (ea_alloc e) = true.
Proof. eexists. eexists. repeat split; vm_compute; reflexivity. Qed.

Lemma r_ea_fail_unchanged op st o x st' o' ev :
  st_inv st -> ea_op_ok op ->
  r_ea_step op st o = Ok (x, st', o', ev) ->
  refused ev = true -> is_shrink op = false ->
  st' = st /\ x = ea_err_out op /\ st_inv st'.
Proof. exact (ea_fail_unchanged ea_struct_size op st o x st' o' ev). Qed.

Lemma r_ea_infallible op e o :
  ea_inv e -> ea_op_ok op -> (is_shrink op = true \/ op = OFree) ->
  exists st' o' ev,
    r_ea_step op (Some e) o = Ok (XUnit, st', o', ev) /\ st_inv st' /\
    st_abs st' = snd (ea_spec_step op (Some (ea_abs e)) false).
Proof. exact (ea_infallible ea_struct_size op e o). Qed.

Lemma r_ea_step_no_leak op st o x st' o' ev rest :
  st_inv st -> ea_op_ok op ->
  r_ea_step op st o = Ok (x, st', o', ev) ->
  exists h, heap_run (st_owned ea_struct_size st ++ rest) ev = Some h /\
            Permutation h (st_owned ea_struct_size st' ++ handed op x st ++ rest).
Proof. exact (ea_step_no_leak ea_struct_size op st o x st' o' ev rest). Qed.

Lemma r_ea_run_no_leak ops st o tr rest :
  st_inv st -> Forall ea_op_ok ops ->
  r_ea_run ops st o = Ok tr ->
  exists h, heap_run (st_owned ea_struct_size st ++ rest) (concat (map tr_ev tr)) = Some h /\
            Permutation h (st_owned ea_struct_size (tr_final st tr) ++ tr_handed ops st tr ++ rest).
Proof. exact (ea_run_no_leak ea_struct_size ops st o tr rest). Qed.

(* ---------------- elastic queue ---------------- *)
Lemma r_eq_run_refines rl ops st o :
  qst_inv rl st -> Forall (eq_op_ok rl) ops ->
  (q_used st + N.of_nat (length ops)) * rl < W ->
  exists tr,
    r_eq_run ops st o = Ok tr /\
    Forall (fun t => qst_inv rl (qtr_st t)) tr /\
    qtr_obs tr = eq_spec_run ops (qst_abs st) (qtr_flags tr).
Proof. exact (eq_run_refines ea_struct_size eq_struct_size rl ops st o). Qed.

Lemma r_eq_fail_unchanged rl op st o x st' o' ev :
  qst_inv rl st -> eq_op_ok rl op -> (q_used st + 1) * rl < W ->
  r_eq_step op st o = Ok (x, st', o', ev) ->
  refused ev = true -> op <> QDelete ->
  st' = st /\ x = YRc false /\ qst_inv rl st'.
Proof. exact (eq_fail_unchanged ea_struct_size eq_struct_size rl op st o x st' o' ev). Qed.

Lemma r_eq_delete_infallible rl q o :
  eq_inv q -> eq_reclen q = rl -> (eq_offset q + eq_len q + 1) * rl < W ->
  exists q' o' ev,
    r_eq_step QDelete (Some q) o = Ok (YUnit, Some q', o', ev) /\
    eq_inv q' /\ eq_abs q' = (rl, tl (eq_recs q)).
Proof. exact (eq_delete_infallible ea_struct_size eq_struct_size rl q o). Qed.

Lemma r_eq_step_no_leak rl op st o x st' o' ev rest :
  qst_inv rl st -> eq_op_ok rl op -> (q_used st + 1) * rl < W ->
  r_eq_step op st o = Ok (x, st', o', ev) ->
  exists h, heap_run (qst_owned ea_struct_size eq_struct_size st ++ rest) ev = Some h /\
            Permutation h (qst_owned ea_struct_size eq_struct_size st' ++ rest).
Proof. exact (eq_step_no_leak ea_struct_size eq_struct_size rl op st o x st' o' ev rest). Qed.

(* ---------------- sequential pointer map ---------------- *)
Lemma r_spm_run_refines ops st o :
  mst_inv st -> Forall spm_op_ok ops ->
  m_used st + N.of_nat (length ops) < 2 ^ 60 ->
  (m_next st + Z.of_nat (length ops) < 2 ^ 60)%Z ->
  exists tr,
    r_spm_run ops st o = Ok tr /\
    Forall (fun t => mst_inv (mtr_st t)) tr /\
    mtr_obs tr = spm_spec_run ops (mst_abs st) (mtr_flags tr).
Proof. exact (spm_run_refines ea_struct_size eq_struct_size spm_struct_size ops st o). Qed.

Lemma r_spm_fail_unchanged op st o x st' o' ev :
  mst_inv st -> spm_op_ok op -> (m_used st + 1) * 8 < W -> (m_next st < INT64_MAX)%Z ->
  r_spm_step op st o = Ok (x, st', o', ev) ->
  refused ev = true -> is_sdelete op = false ->
  st' = st /\ x = spm_err_out op /\ mst_inv st'.
Proof. exact (spm_fail_unchanged ea_struct_size eq_struct_size spm_struct_size op st o x st' o' ev). Qed.

Lemma r_spm_delete_infallible m i o :
  spm_inv m -> spm_trimmed m -> (- 2 ^ 63 <= i <= INT64_MAX)%Z ->
  exists m' o' ev,
    r_spm_step (SDelete i) (Some m) o = Ok (ZUnit, Some m', o', ev) /\
    spm_inv m' /\ spm_trimmed m' /\
    spm_abs m' = {| am_next := am_next (spm_abs m); am_live := am_remove (am_live (spm_abs m)) i |}.
Proof. exact (spm_delete_infallible ea_struct_size eq_struct_size spm_struct_size m i o). Qed.

Lemma r_spm_step_no_leak op st o x st' o' ev rest :
  mst_inv st -> spm_op_ok op -> (m_used st + 1) * 8 < W -> (m_next st < INT64_MAX)%Z ->
  r_spm_step op st o = Ok (x, st', o', ev) ->
  exists h, heap_run (mst_owned ea_struct_size eq_struct_size spm_struct_size st ++ rest) ev = Some h /\
            Permutation h (mst_owned ea_struct_size eq_struct_size spm_struct_size st' ++ rest).
Proof.
  exact (spm_step_no_leak ea_struct_size eq_struct_size spm_struct_size op st o x st' o' ev rest).
Qed.

(* ---------------- object pool ---------------- *)
Lemma r_mp_no_double_handout olen size ops o :
  0 < size -> N.max size (2 * N.of_nat (length ops)) * 16 < W64 ->
  exists tr,
    r_mp_run olen ops (mp_world0 size) o = Ok tr /\
    mp_spec_ok ops (map (fun t => out_ptr (ptr_out t)) tr) [] = true.
Proof. exact (mp_no_double_handout mpool_tune_shift olen size ops o). Qed.

Lemma r_mp_run_ok olen size ops w o k :
  mp_inv w -> mp_count w <= k -> mp_allocsize (w_pool w) <= N.max size (2 * k) ->
  N.max size (2 * (k + N.of_nat (length ops))) * 16 < W64 ->
  exists tr,
    r_mp_run olen ops w o = Ok tr /\
    Forall (fun t => mp_inv (ptr_w t)) tr /\
    mp_spec_ok ops (map (fun t => out_ptr (ptr_out t)) tr) (w_held w) = true.
Proof. exact (mp_run_ok mpool_tune_shift olen size ops w o k). Qed.

Lemma r_mp_atexit_frees_all olen w :
  mp_inv w ->
  let '(pool', ev, freed) := r_mp_atexit olen (w_pool w) in
  freed = mp_stack (w_pool w) /\ mp_stack pool' = [] /\
  Permutation (remove_ids (w_live w) freed) (w_held w) /\
  ev = map (fun _ => AFree olen) (mp_stack (w_pool w)) ++
       (if mp_static (w_pool w) then [] else [AFree (mp_slots (w_pool w) * mpool_ptr_size)]).
Proof. exact (mp_atexit_frees_all mpool_ptr_size olen w). Qed.

Lemma r_mp_inv_registered w :
  mp_inv w ->
  (mp_stack (w_pool w) <> [] \/ w_held w <> [] \/ w_live w <> [] \/
   mp_static (w_pool w) = false \/ mp_nextid (w_pool w) <> 1) ->
  mp_state (w_pool w) = 1.
Proof. exact (mp_inv_registered w). Qed.

Lemma r_mp_exit_handler_registered olen size ops o :
  0 < size -> N.max size (2 * N.of_nat (length ops)) * 16 < W64 ->
  exists tr,
    r_mp_run olen ops (mp_world0 size) o = Ok tr /\
    forall pre t post, tr = pre ++ t :: post ->
      mp_inv (ptr_w t) /\
      reg_calls (pre ++ [t]) = mp_state (w_pool (ptr_w t)) /\
      ((exists t', In t' (pre ++ [t]) /\ out_ptr (ptr_out t') <> 0) -> reg_calls (pre ++ [t]) = 1).
Proof. exact (mp_exit_handler_registered mpool_tune_shift olen size ops o). Qed.

Lemma r_mp_exit_returns_all olen size ops o :
  0 < size -> N.max size (2 * N.of_nat (length ops)) * 16 < W64 ->
  exists tr,
    r_mp_run olen ops (mp_world0 size) o = Ok tr /\
    let wf := mp_final (mp_world0 size) tr in
    reg_calls tr = mp_state (w_pool wf) /\
    let '(w', ev) := r_mp_exit olen wf in
    mp_stack (w_pool w') = [] /\ w_held w' = w_held wf /\
    Permutation (w_live w') (w_held wf) /\
    ev = map (fun _ => AFree olen) (mp_stack (w_pool wf)) ++
         (if mp_static (w_pool wf) then [] else [AFree (mp_slots (w_pool wf) * mpool_ptr_size)]).
Proof. exact (mp_exit_returns_all mpool_tune_shift olen size ops o). Qed.

(* ---------------- C14: exact failure conditions, whole-run accounting ---------------- *)
Lemma r_ea_fail_iff op st o x st' o' ev :
  st_inv st -> ea_op_ok op ->
  r_ea_step op st o = Ok (x, st', o', ev) ->
  is_shrink op = false ->
  (x = ea_err_out op <-> refused ev = true \/ ea_unrep op (st_abs st) = true).
Proof. exact (ea_fail_iff ea_struct_size op st o x st' o' ev). Qed.

(* the converse of "refused -> error value" is false for the array: resize to 2^63 records of
   4 bytes returns -1 (ENOMEM) although no request was made, let alone refused *)
Lemma r_ea_error_without_refusal :
  let e := {| ea_size := 0; ea_alloc := 0; ea_buf := [] |} in
  r_ea_step (OResize (2 ^ 63) 4 0) (Some e) all_grant = Ok (XRc false, Some e, all_grant, []).
Proof. vm_compute. reflexivity. Qed.

Lemma r_eq_fail_iff rl op st o x st' o' ev :
  qst_inv rl st -> eq_op_ok rl op -> (q_used st + 1) * rl < W ->
  r_eq_step op st o = Ok (x, st', o', ev) ->
  op <> QDelete ->
  (refused ev = true <-> x = YRc false).
Proof. exact (eq_fail_iff ea_struct_size eq_struct_size rl op st o x st' o' ev). Qed.

Lemma r_spm_fail_iff op st o x st' o' ev :
  mst_inv st -> spm_op_ok op -> (m_used st + 1) * 8 < W -> (m_next st < INT64_MAX)%Z ->
  r_spm_step op st o = Ok (x, st', o', ev) ->
  is_sdelete op = false ->
  (refused ev = true <-> x = spm_err_out op).
Proof. exact (spm_fail_iff ea_struct_size eq_struct_size spm_struct_size op st o x st' o' ev). Qed.

Lemma r_eq_run_no_leak rl ops st o tr rest :
  qst_inv rl st -> Forall (eq_op_ok rl) ops ->
  (q_used st + N.of_nat (length ops)) * rl < W ->
  r_eq_run ops st o = Ok tr ->
  exists h, heap_run (qst_owned ea_struct_size eq_struct_size st ++ rest) (concat (map qtr_ev tr)) = Some h /\
            Permutation h (qst_owned ea_struct_size eq_struct_size (qtr_final st tr) ++ rest).
Proof. exact (eq_run_no_leak ea_struct_size eq_struct_size rl ops st o tr rest). Qed.

Lemma r_spm_run_no_leak ops st o tr rest :
  mst_inv st -> Forall spm_op_ok ops ->
  m_used st + N.of_nat (length ops) < 2 ^ 60 ->
  (m_next st + Z.of_nat (length ops) < 2 ^ 60)%Z ->
  r_spm_run ops st o = Ok tr ->
  exists h, heap_run (mst_owned ea_struct_size eq_struct_size spm_struct_size st ++ rest)
                     (concat (map mtr_ev tr)) = Some h /\
            Permutation h (mst_owned ea_struct_size eq_struct_size spm_struct_size (mtr_final st tr) ++ rest).
Proof. exact (spm_run_no_leak ea_struct_size eq_struct_size spm_struct_size ops st o tr rest). Qed.
