(* C13, timer queue over whole histories: any finite sequence of add / delete(cookie) /
   increase(cookie) / getptr calls, each made only under its documented precondition (fresh record
   address; cookie of a queued entry; new time not earlier than the old one), under any allocation
   oracle: the model never Faults and the invariant [tq_inv] (heap order on the times, every queued
   record knows its position, live records = queued records) holds after every prefix - which is
   what keeps every outstanding cookie valid. *)
From Coq Require Import NArith ZArith List Bool Arith Lia ZifyNat Permutation FMapPositive.
From LCP Require Import Base.CheckedMem DS.AllocOracle DS.PtrHeap DS.PtrHeapProofs DS.PtrHeapOps DS.PtrHeapHistory DS.TimerQueue DS.TimerQueueProofs.
Import ListNotations.
Local Open Scope res_scope.

Inductive top : Type :=
| TAdd (id : N) (tv : timeval) (ptr : N)
| TDelete (id : N)
| TIncrease (id : N) (tv : timeval)
| TGetptr (tv : timeval).

Section TQHistory.
  Variable rsz : N.

  Definition tstep (q : tqueue) (o : oracle) (op : top) : res (tqueue * oracle) :=
    match op with
    | TAdd id tv ptr =>
      match rfind (tq_recs q) id with
      | Some _ => Ok (q, o)             (* malloc never returns the address of a live record *)
      | None => let* (_, q', o', _) := timerqueue_add std_tc std_hc rsz q id tv ptr o in Ok (q', o')
      end
    | TDelete id =>
      if memb id (elems (tq_heap q)) then
        let* (q', o', _) := timerqueue_delete std_tc std_hc rsz q id o in Ok (q', o')
      else Ok (q, o)
    | TIncrease id tv =>
      match rfind (tq_recs q) id with
      | Some r =>
        if memb id (elems (tq_heap q)) && (tvcmp (r_tv r) tv <=? 0)%Z then
          let* q' := timerqueue_increase std_tc q id tv in Ok (q', o)
        else Ok (q, o)
      | None => Ok (q, o)
      end
    | TGetptr tv =>
      let* (_, q', o', _) := timerqueue_getptr std_tc std_hc rsz q tv o in Ok (q', o')
    end.

  Fixpoint trun (q : tqueue) (o : oracle) (ops : list top) : res (tqueue * oracle) :=
    match ops with
    | [] => Ok (q, o)
    | op :: r => let* (q', o') := tstep q o op in trun q' o' r
    end.

  Lemma tstep_inv q o op : tq_inv q -> qsmall q ->
    exists q' o', tstep q o op = Ok (q', o') /\ tq_inv q' /\
                  length (elems (tq_heap q')) <= S (length (elems (tq_heap q))).
  Proof.
    intros I Hs. destruct op as [id tv ptr|id|id tv|tv]; cbn [tstep].
    - destruct (rfind (tq_recs q) id) eqn:F; [exists q, o; auto|].
      destruct (tq_add_spec rsz q id tv ptr o I F Hs) as (c & q' & o' & ev & E & Hn & Hsome).
      rewrite E. cbn [bind]. exists q', o'. split; auto. destruct c as [x|].
      + destruct (Hsome ltac:(discriminate)) as (_ & _ & I' & HP & _). split; auto.
        apply Permutation_length in HP. simpl in HP. lia.
      + destruct (Hn eq_refl) as (-> & _). auto.
    - destruct (memb id (elems (tq_heap q))) eqn:M; [|exists q, o; auto]. apply memb_true in M.
      destruct (tq_delete_spec rsz q id o I Hs M) as (q' & o' & ev & E & I' & HP & _).
      rewrite E. cbn [bind]. exists q', o'. split; auto. split; auto.
      apply Permutation_length in HP. simpl in HP. lia.
    - destruct (rfind (tq_recs q) id) as [r|] eqn:F; [|exists q, o; auto].
      destruct (memb id (elems (tq_heap q)) && (tvcmp (r_tv r) tv <=? 0)%Z) eqn:C; [|exists q, o; auto].
      apply andb_true_iff in C. destruct C as [M C]. apply memb_true in M. apply Z.leb_le, tvcmp_le in C.
      destruct (tq_increase_spec q id tv I M) as (q' & E & I' & HP & _).
      { intros r' F'. assert (r' = r) by congruence. subst. exact C. }
      rewrite E. cbn [bind]. exists q', o. split; auto. split; auto.
      apply Permutation_length in HP. lia.
    - destruct (tq_getptr_spec rsz q tv o I Hs) as (p & q' & o' & ev & E & Hp).
      rewrite E. cbn [bind]. exists q', o'. split; auto. destruct p.
      + destruct Hp as (id & rec & _ & _ & _ & _ & _ & I' & HP & _). split; auto.
        apply Permutation_length in HP. simpl in HP. lia.
      + destruct Hp as (-> & _). auto.
  Qed.

  Theorem trun_inv : forall ops q o, tq_inv q -> small (length (elems (tq_heap q)) + length ops) ->
    exists q' o', trun q o ops = Ok (q', o') /\ tq_inv q'.
  Proof.
    induction ops as [|op ops IH]; intros q o I Hs; cbn [trun]; [exists q, o; auto|].
    destruct (tstep_inv q o op I) as (q1 & o1 & E & I1 & HL).
    { eapply small_mono; [|exact Hs]. lia. }
    rewrite E. cbn [bind]. apply IH; auto.
    eapply small_mono; [|exact Hs]. simpl. lia.
  Qed.
End TQHistory.
