(* C14 for datastruct/timerqueue.c: block accounting (see DS/PtrHeapAlloc.v for [acct]). *)
From Coq Require Import NArith ZArith List Bool Arith Lia ZifyNat Permutation FMapPositive.
From LCP Require Import Base.CheckedMem DS.AllocOracle DS.PtrHeap DS.PtrHeapProofs DS.PtrHeapOps DS.PtrHeapAlloc DS.TimerQueue DS.TimerQueueProofs.
Import ListNotations.
Local Open Scope res_scope.

Lemma acct_mid A B B' C ev :
  (forall R, acct (B ++ R) ev (B' ++ R)) -> acct (A ++ B ++ C) ev (A ++ B' ++ C).
Proof.
  intros H. eapply acct_perm; [apply Permutation_app_swap_app | apply Permutation_app_swap_app | apply H].
Qed.

Lemma tq_min_rec q id : tq_inv q -> ptrheap_getmin (tq_heap q) = Ok (Some id) ->
  In id (elems (tq_heap q)) /\ exists r, rfind (tq_recs q) id = Some r /\ r_rc r = 0.
Proof.
  intros I G. rewrite (getmin_run (rle (tq_recs q)) _ (ti_heap q I)) in G.
  destruct (elems (tq_heap q)) as [|a l] eqn:EL; [discriminate|]. injection G as ->.
  assert (Hin : In id (elems (tq_heap q))) by (rewrite EL; left; auto).
  rewrite <- EL. split; auto.
  destruct (live_rec q id I Hin) as (r & F & _). exists r. split; auto.
  assert (P0 := ti_rc q I 0). rewrite EL in P0. specialize (P0 ltac:(simpl; lia)).
  change (el (id :: l) 0) with id in P0. unfold tq_pos in P0. rewrite F in P0. simpl in P0. congruence.
Qed.

Section TQAcct.
  Variables qsz rsz : N.

  (* the blocks a timer queue owns: one record per entry, the heap's blocks, its own header *)
  Definition tq_blocks (q : tqueue) : list N :=
    repeat rsz (length (elems (tq_heap q))) ++ heap_blocks (tq_heap q) ++ [qsz].

  Theorem tq_add_acct q id tv ptr o c q' o' ev R :
    tq_inv q -> rfind (tq_recs q) id = None -> qsmall q ->
    timerqueue_add std_tc std_hc rsz q id tv ptr o = Ok (c, q', o', ev) ->
    acct (tq_blocks q ++ R) ev (tq_blocks q' ++ R).
  Proof.
    intros I Hfresh Hs. unfold timerqueue_add.
    destruct (next o) as [okR o1]. destruct okR; cbn [negb].
    2:{ intros [= <- <- <- <-]. apply (acct_malloc _ rsz false). }
    set (m1 := radd (tq_recs q) id {| r_tv := tv; r_rc := 0; r_ptr := ptr |}).
    assert (Hnot : ~ In id (elems (tq_heap q))).
    { intros Hin. destruct (live_rec q id I Hin) as (r & F & _). congruence. }
    assert (HI1 : heap_inv (rle m1) (tq_heap q)).
    { apply heap_inv_ext with (le1 := rle (tq_recs q)); [|apply (ti_heap q I)].
      intros a b Ha Hb. unfold rle, m1. rewrite !tvof_radd_other by (intro; subst; contradiction). auto. }
    destruct (add_spec (reccmp m1) (rle m1) (rle_ok m1) true (tq_heap q) id o1 HI1 Hs)
      as (ok & h' & ns & o2 & ev0 & E & Hfail & Hok).
    assert (A := fun R => add_acct (reccmp m1) (rle m1) true (tq_heap q) id o1 ok h' ns o2 ev0 R HI1 Hs E).
    rewrite E. cbn [bind]. destruct ok; cbn [negb]; intros [= <- <- <- <-].
    - destruct (Hok eq_refl) as (_ & _ & HP & _). apply Permutation_length in HP. simpl in HP.
      unfold tq_blocks. cbn [tq_heap]. rewrite HP. rewrite <- !app_assoc.
      apply (acct_app _ [AMalloc rsz true] (rsz :: repeat rsz (length (elems (tq_heap q))) ++ heap_blocks (tq_heap q) ++ [qsz] ++ R) ev0);
        [apply (acct_malloc _ rsz true)|].
      change (rsz :: repeat rsz (length (elems (tq_heap q))) ++ heap_blocks (tq_heap q) ++ [qsz] ++ R)
        with (repeat rsz (S (length (elems (tq_heap q)))) ++ heap_blocks (tq_heap q) ++ [qsz] ++ R).
      apply acct_mid. exact A.
    - destruct (Hfail eq_refl) as (-> & _ & _).
      apply (acct_app _ [AMalloc rsz true] (rsz :: tq_blocks q ++ R) (ev0 ++ [AFree rsz]));
        [apply (acct_malloc _ rsz true)|].
      eapply acct_app; [|apply acct_free].
      unfold tq_blocks. rewrite <- !app_assoc.
      change (rsz :: repeat rsz (length (elems (tq_heap q))) ++ heap_blocks (tq_heap q) ++ [qsz] ++ R)
        with (repeat rsz (S (length (elems (tq_heap q)))) ++ heap_blocks (tq_heap q) ++ [qsz] ++ R).
      apply acct_mid. exact A.
  Qed.

  (* shared by delete and getptr *)
  Lemma tq_remove_acct q id r o h' ns o' ev R : tq_inv q -> qsmall q -> In id (elems (tq_heap q)) ->
    rfind (tq_recs q) id = Some r ->
    ptrheap_delete std_tc std_hc (reccmp (tq_recs q)) true (tq_heap q) (r_rc r) o = Ok (h', ns, o', ev) ->
    acct (tq_blocks q ++ R) (ev ++ [AFree rsz])
         (tq_blocks {| tq_heap := h'; tq_recs := rdel (set_rcs (tq_recs q) ns) id |} ++ R).
  Proof.
    intros I Hs Hin F E.
    destruct (tq_remove q id r o I Hs Hin F) as (h1 & ns1 & o1 & ev1 & E1 & _ & HP & _).
    rewrite E in E1. injection E1 as <- <- <- <-.
    destruct (live_rec q id I Hin) as (r' & F' & Hrc & _). assert (r' = r) by congruence. subst r'.
    destruct (ti_heap q I) as [Hn _].
    assert (A := fun R => delete_acct (reccmp (tq_recs q)) (rle (tq_recs q)) (rle_ok _) true (tq_heap q) (r_rc r) o
                            h' ns o' ev R (ti_heap q I) Hs ltac:(lia) E).
    apply Permutation_length in HP. simpl in HP.
    unfold tq_blocks. cbn [tq_heap]. rewrite <- HP. rewrite <- !app_assoc.
    eapply acct_app; [apply acct_mid; exact A|]. apply acct_free.
  Qed.

  Theorem tq_delete_acct q id o q' o' ev R : tq_inv q -> qsmall q -> In id (elems (tq_heap q)) ->
    timerqueue_delete std_tc std_hc rsz q id o = Ok (q', o', ev) ->
    acct (tq_blocks q ++ R) ev (tq_blocks q' ++ R).
  Proof.
    intros I Hs Hin. destruct (live_rec q id I Hin) as (r & F & _).
    unfold timerqueue_delete. rewrite F.
    destruct (tq_remove q id r o I Hs Hin F) as (h1 & ns1 & o1 & ev1 & E1 & _).
    rewrite E1. cbn [bind]. intros [= <- <- <-]. eapply tq_remove_acct; eauto.
  Qed.

  Theorem tq_getptr_acct q tv o p q' o' ev R : tq_inv q -> qsmall q ->
    timerqueue_getptr std_tc std_hc rsz q tv o = Ok (p, q', o', ev) ->
    acct (tq_blocks q ++ R) ev (tq_blocks q' ++ R).
  Proof.
    intros I Hs. unfold timerqueue_getptr.
    destruct (ptrheap_getmin (tq_heap q)) as [[id|]| | |] eqn:G; cbn [bind]; try discriminate.
    - destruct (tq_min_rec q id I G) as (Hin & r & F & Hr0). rewrite F.
      destruct (tvcmp (r_tv r) tv >? 0)%Z.
      + intros [= <- <- <- <-]. apply acct_nil.
      + unfold ptrheap_deletemin.
        destruct (tq_remove q id r o I Hs Hin F) as (h1 & ns1 & o1 & ev1 & E1 & _).
        rewrite Hr0 in E1. rewrite E1. cbn [bind]. intros [= <- <- <- <-].
        eapply tq_remove_acct; eauto. rewrite Hr0. exact E1.
    - intros [= <- <- <- <-]. apply acct_nil.
  Qed.

  Theorem tq_init_acct o oq o' ev R :
    timerqueue_init std_tc std_hc qsz o = Ok (oq, o', ev) ->
    acct R ev (match oq with Some q => tq_blocks q ++ R | None => R end).
  Proof.
    unfold timerqueue_init. destruct (next o) as [okQ o1]. destruct okQ; cbn [negb].
    2:{ intros [= <- <- <-]. apply (acct_malloc R qsz false). }
    unfold ptrheap_init.
    destruct (create_spec (reccmp (PositiveMap.empty _)) (rle (PositiveMap.empty _)) (rle_ok _) true [] o1)
      as (oh & ns & o2 & ev0 & E & Hnone & Hsome).
    { unfold small. simpl. lia. }
    assert (A := fun R => create_acct (reccmp (PositiveMap.empty _)) true [] o1 oh ns o2 ev0 R
                            ltac:(unfold small; simpl; lia) E).
    rewrite E. cbn [bind]. destruct oh as [h|]; intros [= <- <- <-].
    - destruct (Hsome h eq_refl) as (_ & _ & HP & _). apply Permutation_sym, Permutation_nil in HP.
      unfold tq_blocks. cbn [tq_heap]. rewrite HP. cbn [length repeat app]. rewrite <- app_assoc.
      apply (acct_app R [AMalloc qsz true] (qsz :: R) ev0); [apply (acct_malloc R qsz true)|].
      eapply acct_perm; [apply Permutation_refl | | apply (A (qsz :: R))].
      cbn. apply Permutation_app_head. apply Permutation_refl.
    - apply (acct_app R [AMalloc qsz true] (qsz :: R) (ev0 ++ [AFree qsz])); [apply (acct_malloc R qsz true)|].
      eapply acct_app; [apply (A (qsz :: R))|]. apply acct_free.
  Qed.

  (* timerqueue_free releases everything the queue owns *)
  Theorem tq_free_acct : forall fuel q o, tq_inv q -> qsmall q -> length (elems (tq_heap q)) < fuel ->
    exists o' ev, timerqueue_free std_tc std_hc qsz rsz fuel q o = Ok (o', ev) /\
                  forall R, acct (tq_blocks q ++ R) ev R.
  Proof.
    induction fuel; intros q o I Hs Hf. lia.
    cbn [timerqueue_free].
    destruct (ptrheap_getmin (tq_heap q)) as [[id|]| | |] eqn:G;
      try (rewrite (getmin_run (rle (tq_recs q)) _ (ti_heap q I)) in G; discriminate); cbn [bind].
    - destruct (tq_min_rec q id I G) as (Hin & r & F & Hr0). rewrite F.
      unfold ptrheap_deletemin.
      destruct (tq_remove q id r o I Hs Hin F) as (h1 & ns1 & o1 & ev1 & E1 & I1 & HP & _).
      destruct (live_rec q id I Hin) as (r' & F' & Hrc & _). assert (r' = r) by congruence. subst r'.
      assert (A := fun R => delete_acct (reccmp (tq_recs q)) (rle (tq_recs q)) (rle_ok _) true (tq_heap q) (r_rc r) o
                              h1 ns1 o1 ev1 R (ti_heap q I) Hs ltac:(destruct (ti_heap q I); lia) E1).
      rewrite Hr0 in E1. rewrite E1. cbn [bind].
      set (q1 := {| tq_heap := h1; tq_recs := rdel (set_rcs (tq_recs q) ns1) id |}) in *.
      assert (HL : S (length (elems h1)) = length (elems (tq_heap q))) by (apply Permutation_length in HP; exact HP).
      destruct (IHfuel q1 o1 I1) as (o2 & ev2 & E2 & A2).
      { unfold qsmall, small in *. cbn [tq_heap q1]. lia. }
      { cbn [tq_heap q1]. lia. }
      rewrite E2. cbn [bind]. do 2 eexists. split; [reflexivity|]. intros R.
      (* the C frees the record first, then deletemin, then goes on *)
      unfold tq_blocks at 1. rewrite <- HL. cbn [repeat]. rewrite <- !app_assoc. rewrite <- app_comm_cons.
      eapply acct_app; [apply acct_free|].
      eapply acct_app; [apply acct_mid; exact A|].
      assert (EB : repeat rsz (length (elems h1)) ++ heap_blocks h1 ++ [qsz] ++ R = tq_blocks q1 ++ R).
      { unfold tq_blocks. cbn [tq_heap q1]. rewrite <- !app_assoc. reflexivity. }
      rewrite EB. apply A2.
    - do 2 eexists. split; [reflexivity|]. intros R.
      apply (getmin_none (rle (tq_recs q)) _ (ti_heap q I)) in G.
      unfold tq_blocks. rewrite G. cbn [length repeat app]. rewrite <- app_assoc.
      eapply acct_app; [apply free_acct|]. apply acct_free.
  Qed.

  Theorem tq_init_fail o :
    exists oq o' ev, timerqueue_init std_tc std_hc qsz o = Ok (oq, o', ev) /\ (refused ev = true <-> oq = None).
  Proof.
    destruct (tq_init_spec qsz o) as (oq & o' & ev & E & Hn & Hsome).
    exists oq, o', ev. split; auto. split.
    - intros Hr. destruct oq as [q|]; auto. destruct (Hsome q eq_refl) as (Hf & _). congruence.
    - intros ->. auto.
  Qed.

  Theorem tq_add_fail q id tv ptr o : tq_inv q -> rfind (tq_recs q) id = None -> qsmall q ->
    exists c q' o' ev,
      timerqueue_add std_tc std_hc rsz q id tv ptr o = Ok (c, q', o', ev) /\
      (refused ev = true <-> c = None) /\ (c = None -> q' = q).
  Proof.
    intros I Hf Hs. destruct (tq_add_spec rsz q id tv ptr o I Hf Hs) as (c & q' & o' & ev & E & Hn & Hsome).
    exists c, q', o', ev. split; auto. split; [split|].
    - intros Hr. destruct c as [x|]; auto.
      destruct (Hsome ltac:(discriminate)) as (_ & Hr' & _). congruence.
    - intros ->. apply Hn. auto.
    - intros H. apply Hn. auto.
  Qed.

  Theorem tq_delete_infallible q id : tq_inv q -> qsmall q -> In id (elems (tq_heap q)) ->
    exists q' o' ev,
      timerqueue_delete std_tc std_hc rsz q id all_refuse = Ok (q', o', ev) /\
      tq_inv q' /\ Permutation (id :: elems (tq_heap q')) (elems (tq_heap q)) /\
      rfind (tq_recs q') id = None.
  Proof.
    intros I Hs Hin. destruct (tq_delete_spec rsz q id all_refuse I Hs Hin) as (q' & o' & ev & E & A & B & C & _).
    exists q', o', ev. auto.
  Qed.

  Theorem tq_getptr_infallible q tv : tq_inv q -> qsmall q ->
    exists p q' o' ev, timerqueue_getptr std_tc std_hc rsz q tv all_refuse = Ok (p, q', o', ev) /\ tq_inv q'.
  Proof.
    intros I Hs. destruct (tq_getptr_spec rsz q tv all_refuse I Hs) as (p & q' & o' & ev & E & Hp).
    exists p, q', o', ev. split; auto. destruct p.
    - destruct Hp as (id & rec & _ & _ & _ & _ & _ & I' & _). exact I'.
    - destruct Hp as (-> & _). exact I.
  Qed.
End TQAcct.
