(* C13 over whole histories: a caller that keeps a key per element and the position table written
   by the record-cookie callback, and issues ANY finite sequence of add / deletemin / delete by
   handle / increase / decrease by handle / increasemin calls (each under its documented
   precondition, otherwise the call is not made), under ANY allocation oracle.  After every prefix:
   the model never Faults, heap order holds for the current keys, the handles are consistent and the
   heap's contents are exactly the abstract multiset [hs_ms] maintained by the specification
   (add inserts, delete removes that element, deletemin removes the element getmin reported). *)
From Coq Require Import NArith ZArith List Bool Arith Lia ZifyNat Permutation.
From LCP Require Import Base.CheckedMem DS.AllocOracle DS.PtrHeap DS.PtrHeapProofs DS.PtrHeapOps.
Import ListNotations.
Local Open Scope res_scope.

Section History.
  Variable K : Type.
  Variable kle : K -> K -> Prop.
  Variable kcompar : K -> K -> Z.
  Hypothesis kle_trans : forall a b c, kle a b -> kle b c -> kle a c.
  Hypothesis kcompar_le : forall a b, (kcompar a b <= 0)%Z <-> kle a b.
  Hypothesis kcompar_ge : forall a b, (kcompar a b >= 0)%Z <-> kle b a.

  Definition cmp_of (key : N -> K) (x y : N) : Z := kcompar (key x) (key y).
  Definition le_of (key : N -> K) (x y : N) : Prop := kle (key x) (key y).

  Lemma cmp_of_ok key : compar_ok (cmp_of key) (le_of key).
  Proof.
    split; unfold cmp_of, le_of.
    - intros x y z. apply kle_trans.
    - intros. apply kcompar_le.
    - intros. apply kcompar_ge.
  Qed.

  Lemma kle_refl a : kle a a.
  Proof. destruct (Z_le_gt_dec (kcompar a a) 0); [apply kcompar_le | apply kcompar_ge]; lia. Qed.

  Inductive hop : Type :=
  | OAdd (x : N) (k : K)
  | ODeleteMin
  | ODelete (x : N)
  | OIncrease (x : N) (k : K)
  | ODecrease (x : N) (k : K)
  | OIncreaseMin (k : K).

  Record hstate : Type := {
    hs_h : heap;
    hs_pos : N -> option nat;      (* written by the callback *)
    hs_key : N -> K;               (* the caller's records *)
    hs_o : oracle;
    hs_ms : list N                 (* specification: elements inserted and not yet deleted *)
  }.

  Definition memb (x : N) (l : list N) : bool := existsb (N.eqb x) l.
  Definition setkey (key : N -> K) (x : N) (k : K) : N -> K := fun y => if (y =? x)%N then k else key y.
  Fixpoint rem1 (x : N) (l : list N) : list N :=
    match l with [] => [] | y :: r => if (x =? y)%N then r else y :: rem1 x r end.

  Definition hstep (s : hstate) (op : hop) : res hstate :=
    let h := hs_h s in
    match op with
    | OAdd x k =>
      if memb x (elems h) then Ok s
      else
        let key' := setkey (hs_key s) x k in
        let* (ok, h', ns, o', _) := ptrheap_add std_tc std_hc (cmp_of key') true h x (hs_o s) in
        if ok then Ok {| hs_h := h'; hs_pos := apply_notes (hs_pos s) ns; hs_key := key'; hs_o := o';
                         hs_ms := x :: hs_ms s |}
        else Ok {| hs_h := h'; hs_pos := hs_pos s; hs_key := hs_key s; hs_o := o'; hs_ms := hs_ms s |}
    | ODeleteMin =>
      let* m := ptrheap_getmin h in
      match m with
      | None => Ok s
      | Some x =>
        let* (h', ns, o', _) := ptrheap_deletemin std_tc std_hc (cmp_of (hs_key s)) true h (hs_o s) in
        Ok {| hs_h := h'; hs_pos := apply_notes (hs_pos s) ns; hs_key := hs_key s; hs_o := o';
              hs_ms := rem1 x (hs_ms s) |}
      end
    | ODelete x =>
      if memb x (elems h) then
        match hs_pos s x with
        | None => Fault
        | Some p =>
          let* (h', ns, o', _) := ptrheap_delete std_tc std_hc (cmp_of (hs_key s)) true h p (hs_o s) in
          Ok {| hs_h := h'; hs_pos := apply_notes (hs_pos s) ns; hs_key := hs_key s; hs_o := o';
                hs_ms := rem1 x (hs_ms s) |}
        end
      else Ok s
    | OIncrease x k =>
      if memb x (elems h) && (kcompar (hs_key s x) k <=? 0)%Z then
        match hs_pos s x with
        | None => Fault
        | Some p =>
          let key' := setkey (hs_key s) x k in
          let* (h', ns) := ptrheap_increase std_tc (cmp_of key') true h p in
          Ok {| hs_h := h'; hs_pos := apply_notes (hs_pos s) ns; hs_key := key'; hs_o := hs_o s;
                hs_ms := hs_ms s |}
        end
      else Ok s
    | ODecrease x k =>
      if memb x (elems h) && (kcompar (hs_key s x) k >=? 0)%Z then
        match hs_pos s x with
        | None => Fault
        | Some p =>
          let key' := setkey (hs_key s) x k in
          let* (h', ns) := ptrheap_decrease std_tc (cmp_of key') true h p in
          Ok {| hs_h := h'; hs_pos := apply_notes (hs_pos s) ns; hs_key := key'; hs_o := hs_o s;
                hs_ms := hs_ms s |}
        end
      else Ok s
    | OIncreaseMin k =>
      let* m := ptrheap_getmin h in
      match m with
      | None => Ok s
      | Some x =>
        if (kcompar (hs_key s x) k <=? 0)%Z then
          let key' := setkey (hs_key s) x k in
          let* (h', ns) := ptrheap_increasemin std_tc (cmp_of key') true h in
          Ok {| hs_h := h'; hs_pos := apply_notes (hs_pos s) ns; hs_key := key'; hs_o := hs_o s;
                hs_ms := hs_ms s |}
        else Ok s
      end
    end.

  Fixpoint hrun (s : hstate) (ops : list hop) : res hstate :=
    match ops with
    | [] => Ok s
    | op :: r => let* s' := hstep s op in hrun s' r
    end.

  Record hinv (s : hstate) : Prop := {
    hi_heap : heap_inv (le_of (hs_key s)) (hs_h s);
    hi_handles : handles (hs_pos s) (hs_h s);
    hi_ms : Permutation (elems (hs_h s)) (hs_ms s)
  }.

  Lemma memb_true x l : memb x l = true <-> In x l.
  Proof.
    unfold memb. rewrite existsb_exists. split.
    - intros (y & Hy & E). apply N.eqb_eq in E. subst. auto.
    - intros H. exists x. split; auto. apply N.eqb_refl.
  Qed.
  Lemma memb_false x l : memb x l = false -> ~ In x l.
  Proof. intros H Hin. apply memb_true in Hin. congruence. Qed.

  Lemma rem1_perm x l : In x l -> Permutation (x :: rem1 x l) l.
  Proof.
    induction l as [|y l IH]; intros H; [contradiction|]. simpl.
    destruct (N.eqb_spec x y) as [->|Hne]; [apply Permutation_refl|].
    destruct H as [->|H]; [contradiction|].
    eapply perm_trans; [apply perm_swap|]. apply perm_skip. auto.
  Qed.

  Lemma perm_rem1 x l' l ms : Permutation (x :: l') l -> Permutation l ms -> Permutation l' (rem1 x ms).
  Proof.
    intros P1 P2. apply Permutation_cons_inv with (a := x).
    eapply perm_trans; [exact P1|]. eapply perm_trans; [exact P2|].
    apply Permutation_sym, rem1_perm. apply (Permutation_in _ P2). apply (Permutation_in _ P1). left. auto.
  Qed.

  Lemma setkey_same key x k : setkey key x k x = k.
  Proof. unfold setkey. rewrite N.eqb_refl. reflexivity. Qed.
  Lemma setkey_other key x k y : y <> x -> setkey key x k y = key y.
  Proof. intros H. unfold setkey. destruct (N.eqb_spec y x); [contradiction|reflexivity]. Qed.

  Lemma others_agree key x k a b : a <> x -> b <> x ->
    (le_of (setkey key x k) a b <-> le_of key a b).
  Proof. intros. unfold le_of. rewrite !setkey_other by auto. reflexivity. Qed.

  Lemma handle_of s x : hinv s -> In x (elems (hs_h s)) ->
    exists p, hs_pos s x = Some p /\ p < nelems (hs_h s) /\ el (elems (hs_h s)) p = x.
  Proof.
    intros I Hin. destruct (In_el _ _ Hin) as (i & Hi & E). exists i.
    destruct (hi_heap s I) as [Hn _]. split; [rewrite <- E; apply (hi_handles s I); auto|]. split; [lia|auto].
  Qed.

  (* one call: never a Fault, the invariant is kept, the heap grows by at most one element *)
  Lemma hstep_inv s op : hinv s -> small (length (elems (hs_h s))) ->
    exists s', hstep s op = Ok s' /\ hinv s' /\ length (elems (hs_h s')) <= S (length (elems (hs_h s))).
  Proof.
    intros I Hs. destruct (hi_heap s I) as [Hn HO]. destruct op as [x k| |x|x k|x k|k]; cbn [hstep].
    - (* add *)
      destruct (memb x (elems (hs_h s))) eqn:M; [exists s; auto|]. apply memb_false in M.
      set (key' := setkey (hs_key s) x k).
      assert (HI1 : heap_inv (le_of key') (hs_h s)).
      { apply heap_inv_ext with (le1 := le_of (hs_key s)); [|apply (hi_heap s I)].
        intros a b Ha Hb. apply others_agree; intro; subst; contradiction. }
      destruct (add_spec (cmp_of key') (le_of key') (cmp_of_ok key') true (hs_h s) x (hs_o s) HI1 Hs)
        as (ok & h' & ns & o' & ev & E & Hfail & Hok).
      rewrite E. cbn [bind]. destruct ok.
      + destruct (Hok eq_refl) as (_ & HI' & HP & HH).
        eexists. split; [reflexivity|]. split; [split; cbn|cbn].
        * exact HI'.
        * apply HH; auto. apply (hi_handles s I).
        * eapply perm_trans; [exact HP|]. apply perm_skip. apply (hi_ms s I).
        * apply Permutation_length in HP. simpl in HP. lia.
      + destruct (Hfail eq_refl) as (-> & _ & _).
        eexists. split; [reflexivity|]. split; [split; cbn|cbn; lia]; apply I.
    - (* deletemin *)
      rewrite (getmin_run (le_of (hs_key s)) _ (hi_heap s I)).
      destruct (elems (hs_h s)) as [|x l] eqn:EL; cbn [bind]; [exists s; split; auto; split; auto; rewrite EL; simpl; lia|].
      unfold ptrheap_deletemin.
      destruct (delete_spec (cmp_of (hs_key s)) (le_of (hs_key s)) (cmp_of_ok _) true (hs_h s) 0 (hs_o s) (hi_heap s I))
        as (h' & ns & o' & ev & E & HI' & HP & HH & _); [rewrite EL; exact Hs | rewrite Hn; simpl; lia |].
      rewrite E. cbn [bind]. rewrite EL in HP. change (el (x :: l) 0) with x in HP.
      eexists. split; [reflexivity|]. split; [split; cbn|cbn].
      + exact HI'.
      + apply HH; auto. apply (hi_handles s I).
      + eapply perm_rem1; [exact HP|]. rewrite <- EL. apply (hi_ms s I).
      + apply Permutation_length in HP. simpl in HP. lia.
    - (* delete by handle *)
      destruct (memb x (elems (hs_h s))) eqn:M; [|exists s; auto]. apply memb_true in M.
      destruct (handle_of s x I M) as (p & Ep & Hp & Ex). rewrite Ep.
      destruct (delete_spec (cmp_of (hs_key s)) (le_of (hs_key s)) (cmp_of_ok _) true (hs_h s) p (hs_o s)
                  (hi_heap s I) Hs Hp) as (h' & ns & o' & ev & E & HI' & HP & HH & _).
      rewrite E. cbn [bind]. rewrite Ex in HP.
      eexists. split; [reflexivity|]. split; [split; cbn|cbn].
      + exact HI'.
      + apply HH; auto. apply (hi_handles s I).
      + eapply perm_rem1; [exact HP|]. apply (hi_ms s I).
      + apply Permutation_length in HP. simpl in HP. lia.
    - (* increase by handle *)
      destruct (memb x (elems (hs_h s)) && (kcompar (hs_key s x) k <=? 0)%Z) eqn:C; [|exists s; auto].
      apply andb_true_iff in C. destruct C as [M C]. apply memb_true in M. apply Z.leb_le, kcompar_le in C.
      destruct (handle_of s x I M) as (p & Ep & Hp & Ex). rewrite Ep.
      set (key' := setkey (hs_key s) x k).
      assert (HA : adown (le_of key') 0 (nelems (hs_h s)) (elems (hs_h s)) p).
      { apply grew_adown with (le0 := le_of (hs_key s)) (x := x); auto; try lia.
        - intros a b c. apply kle_trans.
        - intros a b Ha Hb. apply others_agree; auto.
        - intros i j Hi Hj. eapply handles_inj; [apply (hi_handles s I) | lia | lia].
        - intros a La. unfold le_of in *. unfold key'. rewrite setkey_same.
          destruct (N.eq_dec a x) as [->|Hne]; [rewrite setkey_same; apply kle_refl|].
          rewrite setkey_other by auto. eapply kle_trans; eauto. }
      destruct (increase_spec (cmp_of key') (le_of key') (cmp_of_ok key') true (hs_h s) p Hn HA)
        as (h' & ns & E & HI' & HP & _ & HH).
      rewrite E. cbn [bind]. eexists. split; [reflexivity|]. split; [split; cbn|cbn].
      + exact HI'.
      + apply HH; auto. apply (hi_handles s I).
      + eapply perm_trans; [exact HP|]. apply (hi_ms s I).
      + apply Permutation_length in HP. lia.
    - (* decrease by handle *)
      destruct (memb x (elems (hs_h s)) && (kcompar (hs_key s x) k >=? 0)%Z) eqn:C; [|exists s; auto].
      apply andb_true_iff in C. destruct C as [M C]. apply memb_true in M.
      apply Z.geb_le in C. assert (C' : kle k (hs_key s x)) by (apply kcompar_ge; lia).
      destruct (handle_of s x I M) as (p & Ep & Hp & Ex). rewrite Ep.
      set (key' := setkey (hs_key s) x k).
      assert (HA : aup (le_of key') (nelems (hs_h s)) (elems (hs_h s)) p).
      { apply shrank_aup with (le0 := le_of (hs_key s)) (x := x); auto; try lia.
        - intros a b c. apply kle_trans.
        - intros a b Ha Hb. apply others_agree; auto.
        - intros i j Hi Hj. eapply handles_inj; [apply (hi_handles s I) | lia | lia].
        - intros a La. unfold le_of in *. unfold key'. rewrite setkey_same.
          destruct (N.eq_dec a x) as [->|Hne]; [rewrite setkey_same; apply kle_refl|].
          rewrite setkey_other by auto. eapply kle_trans; eauto. }
      destruct (decrease_spec (cmp_of key') (le_of key') (cmp_of_ok key') true (hs_h s) p Hn Hp HA)
        as (h' & ns & E & HI' & HP & _ & HH).
      rewrite E. cbn [bind]. eexists. split; [reflexivity|]. split; [split; cbn|cbn].
      + exact HI'.
      + apply HH; auto. apply (hi_handles s I).
      + eapply perm_trans; [exact HP|]. apply (hi_ms s I).
      + apply Permutation_length in HP. lia.
    - (* increasemin *)
      rewrite (getmin_run (le_of (hs_key s)) _ (hi_heap s I)).
      destruct (elems (hs_h s)) as [|x l] eqn:EL; cbn [bind]; [exists s; split; auto; split; auto; rewrite EL; simpl; lia|].
      destruct (kcompar (hs_key s x) k <=? 0)%Z eqn:C; [|exists s; split; auto; split; auto; rewrite EL; simpl; lia].
      apply Z.leb_le, kcompar_le in C.
      set (key' := setkey (hs_key s) x k).
      assert (Hlen : 0 < nelems (hs_h s)) by (rewrite Hn; simpl; lia).
      destruct (hi_heap s I) as [Hn' _].
      assert (HA : adown (le_of key') 0 (nelems (hs_h s)) (elems (hs_h s)) 0).
      { apply grew_adown with (le0 := le_of (hs_key s)) (x := x); auto; try lia.
        - intros a b c. apply kle_trans.
        - intros a b Ha Hb. apply others_agree; auto.
        - rewrite EL. reflexivity.
        - intros i j Hi Hj. eapply handles_inj; [apply (hi_handles s I) | lia | lia].
        - intros a La. unfold le_of in *. unfold key'. rewrite setkey_same.
          destruct (N.eq_dec a x) as [->|Hne]; [rewrite setkey_same; apply kle_refl|].
          rewrite setkey_other by auto. eapply kle_trans; eauto.
        - rewrite EL. exact HO. }
      destruct (increasemin_spec (cmp_of key') (le_of key') (cmp_of_ok key') true (hs_h s) Hn' HA)
        as (h' & ns & E & HI' & HP & _ & HH).
      rewrite E. cbn [bind]. rewrite <- EL. eexists. split; [reflexivity|]. split; [split; cbn|cbn].
      + exact HI'.
      + apply HH; auto. apply (hi_handles s I).
      + eapply perm_trans; [exact HP|]. apply (hi_ms s I).
      + apply Permutation_length in HP. lia.
  Qed.

  Lemma small_mono a b : a <= b -> small b -> small a.
  Proof. unfold small. lia. Qed.

  (* any history *)
  Theorem hrun_inv : forall ops s, hinv s -> small (length (elems (hs_h s)) + length ops) ->
    exists s', hrun s ops = Ok s' /\ hinv s'.
  Proof.
    induction ops as [|op ops IH]; intros s I Hs; cbn [hrun]; [exists s; auto|].
    destruct (hstep_inv s op I) as (s1 & E & I1 & HL).
    { eapply small_mono; [|exact Hs]. lia. }
    rewrite E. cbn [bind]. apply IH; auto.
    eapply small_mono; [|exact Hs]. simpl. lia.
  Qed.

  (* ... and in every state reached, getmin is a least element of the specification's multiset *)
  Theorem hrun_getmin_least ops s s' x : hinv s -> small (length (elems (hs_h s)) + length ops) ->
    hrun s ops = Ok s' -> ptrheap_getmin (hs_h s') = Ok (Some x) ->
    In x (hs_ms s') /\ forall y, In y (hs_ms s') -> kle (hs_key s' x) (hs_key s' y).
  Proof.
    intros I Hs R G. destruct (hrun_inv ops s I Hs) as (s1 & E & I1). rewrite R in E. injection E as <-.
    destruct (getmin_least (cmp_of (hs_key s')) (le_of (hs_key s')) (cmp_of_ok _) (hs_h s') x (hi_heap s' I1) G)
      as [Hin Hl].
    split; [apply (Permutation_in _ (hi_ms s' I1)); auto|].
    intros y Hy. apply Hl. apply (Permutation_in _ (Permutation_sym (hi_ms s' I1))). auto.
  Qed.

  Theorem hrun_getmin_none ops s s' : hinv s -> small (length (elems (hs_h s)) + length ops) ->
    hrun s ops = Ok s' -> (ptrheap_getmin (hs_h s') = Ok None <-> hs_ms s' = []).
  Proof.
    intros I Hs R. destruct (hrun_inv ops s I Hs) as (s1 & E & I1). rewrite R in E. injection E as <-.
    rewrite (getmin_none (le_of (hs_key s')) _ (hi_heap s' I1)). split; intros H.
    - assert (P := hi_ms s' I1). rewrite H in P. apply Permutation_nil in P. auto.
    - assert (P := hi_ms s' I1). rewrite H in P. apply Permutation_sym, Permutation_nil in P. auto.
  Qed.
End History.

Arguments hs_h {K} _.
Arguments hs_pos {K} _ _.
Arguments hs_key {K} _ _.
Arguments hs_o {K} _.
Arguments hs_ms {K} _.
Arguments OAdd {K} _ _.
Arguments ODeleteMin {K}.
Arguments ODelete {K} _.
Arguments OIncrease {K} _ _.
Arguments ODecrease {K} _ _.
Arguments OIncreaseMin {K} _.
