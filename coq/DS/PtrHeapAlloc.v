(* C14 for datastruct/ptrheap.c: block accounting of every operation of the model.
   [acct L ev L'] : replaying the allocation events [ev] on a ghost heap whose live blocks are the
   multiset L never frees or reallocs a block that is not live, and ends with the multiset L'. *)
From Coq Require Import NArith ZArith List Bool Arith Lia ZifyNat Permutation.
From LCP Require Import Base.CheckedMem DS.AllocOracle DS.PtrHeap DS.PtrHeapProofs DS.PtrHeapOps.
Import ListNotations.
Local Open Scope res_scope.

Lemma remove1_some : forall L x L1, remove1 x L = Some L1 -> Permutation L (x :: L1).
Proof.
  induction L as [|y L IH]; intros x L1 H; simpl in H; [discriminate|].
  destruct (N.eqb_spec x y) as [->|Hne].
  - injection H as <-. apply Permutation_refl.
  - destruct (remove1 x L) as [r|] eqn:E; [|discriminate]. injection H as <-.
    eapply perm_trans; [apply perm_skip; apply (IH x r E)|]. apply perm_swap.
Qed.

Lemma remove1_in : forall L x, In x L -> exists L1, remove1 x L = Some L1.
Proof.
  induction L as [|y L IH]; intros x H; [contradiction|]. simpl.
  destruct (N.eqb_spec x y) as [->|Hne]; [eexists; reflexivity|].
  destruct H as [->|H]; [contradiction|]. destruct (IH x H) as (L1 & E). rewrite E. eexists; reflexivity.
Qed.

Lemma remove1_perm L x L' : Permutation L (x :: L') ->
  exists L1, remove1 x L = Some L1 /\ Permutation L1 L'.
Proof.
  intros P. assert (Hin : In x L) by (apply (Permutation_in _ (Permutation_sym P)); left; auto).
  destruct (remove1_in L x Hin) as (L1 & E). exists L1. split; auto.
  apply remove1_some in E. apply Permutation_cons_inv with (a := x).
  eapply perm_trans; [apply Permutation_sym; exact E | exact P].
Qed.

Lemma heap_run_app : forall a L b,
  heap_run L (a ++ b) = match heap_run L a with Some L' => heap_run L' b | None => None end.
Proof.
  induction a as [|e a IH]; intros L b; simpl; auto.
  destruct (heap_apply L e); auto.
Qed.

Definition acct (L : list N) (ev : list aev) (L' : list N) : Prop :=
  forall L0, Permutation L0 L -> exists L1, heap_run L0 ev = Some L1 /\ Permutation L1 L'.

Lemma acct_nil L : acct L [] L.
Proof. intros L0 P. exists L0. auto. Qed.

Lemma acct_app L e1 L' e2 L'' : acct L e1 L' -> acct L' e2 L'' -> acct L (e1 ++ e2) L''.
Proof.
  intros A1 A2 L0 P. destruct (A1 L0 P) as (L1 & E1 & P1). destruct (A2 L1 P1) as (L2 & E2 & P2).
  exists L2. rewrite heap_run_app, E1. auto.
Qed.

Lemma acct_perm L ev L' M M' : Permutation M L -> Permutation L' M' -> acct L ev L' -> acct M ev M'.
Proof.
  intros PM PM' A L0 P. destruct (A L0 (perm_trans P PM)) as (L1 & E & P1).
  exists L1. split; auto. eapply perm_trans; eauto.
Qed.

Lemma acct_malloc L s ok : acct L [AMalloc s ok] (if ok then s :: L else L).
Proof. intros L0 P. destruct ok; simpl; eexists; split; eauto. Qed.

Lemma acct_free L s : acct (s :: L) [AFree s] L.
Proof.
  intros L0 P. simpl. destruct (remove1_perm L0 s L P) as (L1 & E & P1). rewrite E. eauto.
Qed.

Definition blkl (a : N) : list N := match blk a with None => [] | Some b => [b] end.

Lemma acct_realloc L a n ok : acct (blkl a ++ L) [ARealloc (blk a) n ok] (if ok then n :: L else blkl a ++ L).
Proof.
  intros L0 P. unfold blkl in *. simpl. destruct (blk a) as [b|].
  - simpl in P. destruct (remove1_perm L0 b L P) as (L1 & E & P1). rewrite E.
    destruct ok; eexists; split; eauto.
  - simpl in P. destruct ok; eexists; split; eauto.
Qed.

Lemma acct_free_buf L a : acct (blkl a ++ L) (free_buf_ev a) L.
Proof.
  unfold free_buf_ev, blkl. destruct (blk a); simpl; [apply acct_free | apply acct_nil].
Qed.

Lemma blkl_nonzero n : n <> 0%N -> blkl n = [n].
Proof. intros H. unfold blkl, blk. destruct (N.eqb_spec n 0); [contradiction|reflexivity]. Qed.
Lemma blkl_zero : blkl 0 = [].
Proof. reflexivity. Qed.

(* resize(): whatever happens, the buffer block is the only thing that changes, and a refused
   realloc changes nothing *)
Lemma resize_acct alloc nsize o ok a' o' ev L :
  resize_res alloc nsize o (ok, a', o', ev) -> acct (blkl alloc ++ L) ev (blkl a' ++ L).
Proof.
  intros RR. inversion RR; subst.
  - apply acct_nil.
  - rewrite blkl_zero. apply acct_free_buf.
  - match goal with |- acct _ [ARealloc _ ?n true] _ => rewrite (blkl_nonzero n) by auto end.
    apply (acct_realloc L _ _ true).
  - apply (acct_realloc L _ _ false).
Qed.

Lemma resize_refused alloc nsize o ok a' o' ev :
  resize_res alloc nsize o (ok, a', o', ev) -> refused ev = negb ok.
Proof.
  intros RR. inversion RR; subst; try reflexivity.
  unfold free_buf_ev. destruct (blk _); reflexivity.
Qed.

(* the blocks a heap owns: its buffer (if any), the elastic array header, the heap header *)
Definition heap_blocks (h : heap) : list N := blkl (h_alloc h) ++ [24%N; 40%N].

Section Acct.
  Variable cmp : N -> N -> Z.
  Variable le : N -> N -> Prop.
  Hypothesis CO : compar_ok cmp le.

  Theorem add_acct setrc h x o ok h' ns o' ev R : heap_inv le h -> small (length (elems h)) ->
    ptrheap_add std_tc std_hc cmp setrc h x o = Ok (ok, h', ns, o', ev) ->
    acct (heap_blocks h ++ R) ev (heap_blocks h' ++ R).
  Proof.
    intros HI Hs E. apply (add_events cmp le setrc h x o ok h' ns o' ev HI Hs) in E.
    unfold heap_blocks. rewrite <- !app_assoc. eapply resize_acct. exact E.
  Qed.

  Theorem delete_acct setrc h rc o h' ns o' ev R : heap_inv le h -> small (length (elems h)) ->
    rc < nelems h ->
    ptrheap_delete std_tc std_hc cmp setrc h rc o = Ok (h', ns, o', ev) ->
    acct (heap_blocks h ++ R) ev (heap_blocks h' ++ R).
  Proof.
    intros HI Hs Hrc E.
    destruct (delete_spec cmp le CO setrc h rc o HI Hs Hrc) as (h1 & ns1 & o1 & ev1 & E1 & _ & _ & _ & (ok & RR)).
    rewrite E1 in E. injection E as <- <- <- <-.
    unfold heap_blocks. rewrite <- !app_assoc. eapply resize_acct. exact RR.
  Qed.

  Theorem create_acct setrc ptrs o oh ns o' ev R : small (length ptrs) ->
    ptrheap_create std_tc std_hc cmp setrc ptrs o = Ok (oh, ns, o', ev) ->
    acct R ev (match oh with Some h => heap_blocks h ++ R | None => R end).
  Proof.
    intros Hs. unfold ptrheap_create. cbv zeta.
    destruct (next o) as [okH o1]. destruct okH; cbn [negb].
    2:{ intros [= <- <- <- <-]. apply (acct_malloc R 40 false). }
    destruct (next o1) as [okE o2]. destruct okE; cbn [negb].
    2:{ intros [= <- <- <- <-]. cbn [c_hsz c_easz std_hc].
        apply (acct_app _ [AMalloc 40 true] (40%N :: R)); [apply (acct_malloc R 40 true)|].
        apply (acct_app _ [AMalloc 24 false] (40%N :: R)); [apply (acct_malloc _ 24 false)|].
        apply acct_free. }
    rewrite bytes_small by auto.
    destruct (ea_resize_cases 0%N (N.of_nat (length ptrs) * 8) o2) as ([[[ok a] o3] ev0] & Er & RR).
    { unfold small in Hs. lia. }
    rewrite Er. cbn [bind]. cbn [c_hsz c_easz std_hc].
    assert (A0 : acct R [AMalloc 40 true; AMalloc 24 true] (24%N :: 40%N :: R)).
    { apply (acct_app _ [AMalloc 40 true] (40%N :: R) [AMalloc 24 true]); [apply (acct_malloc R 40 true)|].
      apply (acct_malloc _ 24 true). }
    assert (A1 : acct (24%N :: 40%N :: R) ev0 (blkl a ++ 24%N :: 40%N :: R)).
    { apply (resize_acct 0 _ o2 ok a o3 ev0 (24%N :: 40%N :: R)) in RR. exact RR. }
    destruct ok; cbn [negb].
    - destruct (create_loop std_tc cmp (S (length ptrs)) ptrs (dec_wrap (length ptrs)) (length ptrs)) as [l1| | |];
        cbn [bind]; try discriminate.
      intros [= <- <- <- <-]. unfold heap_blocks. cbn [h_alloc]. rewrite <- app_assoc.
      apply (acct_app R [AMalloc 40 true; AMalloc 24 true] _ ev0 _ A0 A1).
    - intros [= <- <- <- <-].
      apply (acct_app R [AMalloc 40 true; AMalloc 24 true] _ (ev0 ++ free_buf_ev a ++ [AFree 24; AFree 40]) _ A0).
      eapply acct_app; [exact A1|].
      eapply acct_app; [apply acct_free_buf|].
      apply (acct_app _ [AFree 24] (40%N :: R) [AFree 40]); apply acct_free.
  Qed.

  Theorem free_acct h R : acct (heap_blocks h ++ R) (ptrheap_free_ev std_hc h) R.
  Proof.
    unfold ptrheap_free_ev, heap_blocks. rewrite <- app_assoc. cbn [c_hsz c_easz std_hc].
    eapply acct_app; [apply acct_free_buf|].
    apply (acct_app _ [AFree 24] (40%N :: R) [AFree 40]); apply acct_free.
  Qed.

  (* fail_unchanged / infallible, read off the operation theorems *)
  Theorem create_fail setrc ptrs o : small (length ptrs) ->
    exists oh ns o' ev,
      ptrheap_create std_tc std_hc cmp setrc ptrs o = Ok (oh, ns, o', ev) /\
      (refused ev = true <-> oh = None) /\ (oh = None -> ns = []).
  Proof.
    intros Hs. destruct (create_spec cmp le CO setrc ptrs o Hs) as (oh & ns & o' & ev & E & Hn & Hsome).
    exists oh, ns, o', ev. split; auto. split; [split|].
    - intros Hr. destruct oh as [h|]; auto. destruct (Hsome h eq_refl) as (Hf & _). congruence.
    - intros ->. apply Hn. auto.
    - intros H. apply Hn. auto.
  Qed.

  Theorem add_fail setrc h x o : heap_inv le h -> small (length (elems h)) ->
    exists ok h' ns o' ev,
      ptrheap_add std_tc std_hc cmp setrc h x o = Ok (ok, h', ns, o', ev) /\
      (refused ev = true <-> ok = false) /\ (ok = false -> h' = h /\ ns = []).
  Proof.
    intros HI Hs. destruct (add_spec cmp le CO setrc h x o HI Hs) as (ok & h' & ns & o' & ev & E & Hf & Hok).
    exists ok, h', ns, o', ev. split; auto. split; [split|].
    - intros Hr. destruct ok; auto. destruct (Hok eq_refl) as (Hr' & _). congruence.
    - intros ->. apply Hf. auto.
    - intros H. destruct (Hf H) as (A & B & _). auto.
  Qed.

  Theorem delete_infallible setrc h rc : heap_inv le h -> small (length (elems h)) -> rc < nelems h ->
    exists h' ns o' ev,
      ptrheap_delete std_tc std_hc cmp setrc h rc all_refuse = Ok (h', ns, o', ev) /\
      heap_inv le h' /\ Permutation (el (elems h) rc :: elems h') (elems h) /\
      (setrc = true -> forall pos, handles pos h -> handles (apply_notes pos ns) h').
  Proof.
    intros HI Hs Hrc.
    destruct (delete_spec cmp le CO setrc h rc all_refuse HI Hs Hrc) as (h' & ns & o' & ev & E & A & B & C & _).
    exists h', ns, o', ev. auto.
  Qed.
End Acct.
