(* The four data-structure models instantiated with the constants regenerated from /repo
   (Gen/Repo_ds.v).  These are the functions that are extracted and that the property theorems
   are stated about. *)
From Coq Require Import NArith List.
From LCP Require Import Base.CheckedMem.
From LCP Require Import Gen.Repo_ds.
From LCP Require Import DS.AllocOracle.
From LCP Require Import DS.ElasticArray.
From LCP Require Import DS.ElasticQueue.
From LCP Require Import DS.SeqPtrMap.
From LCP Require Import DS.Mpool.

Definition r_resize := resize_m ea_grow_mul ea_shrink_div ea_shrink_mul.
Definition r_ea_step := ea_step ea_grow_mul ea_shrink_div ea_shrink_mul ea_struct_size.
Definition r_ea_run := ea_run ea_grow_mul ea_shrink_div ea_shrink_mul ea_struct_size.

Definition r_eq_step :=
  eq_step ea_grow_mul ea_shrink_div ea_shrink_mul ea_struct_size eq_struct_size.
Definition r_eq_run :=
  eq_run ea_grow_mul ea_shrink_div ea_shrink_mul ea_struct_size eq_struct_size.
Definition r_eq_view := eq_view.

Definition r_spm_step :=
  spm_step ea_grow_mul ea_shrink_div ea_shrink_mul ea_struct_size eq_struct_size spm_struct_size
           spm_reclen.
Definition r_spm_run :=
  spm_run ea_grow_mul ea_shrink_div ea_shrink_mul ea_struct_size eq_struct_size spm_struct_size
          spm_reclen.

Definition r_mp_step := mp_step mpool_tune_shift mpool_grow_mul mpool_ptr_size.
Definition r_mp_run := mp_run mpool_tune_shift mpool_grow_mul mpool_ptr_size.
Definition r_mp_atexit := mp_atexit mpool_ptr_size.
Definition r_mp_exit := mp_exit mpool_ptr_size.
