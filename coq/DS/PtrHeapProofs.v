(* datastruct/ptrheap.c: proofs about the model DS/PtrHeap.v.
   Part A: list facts, pure (monad-free) renditions of the sift loops and the lemma that the
           checked model equals them whenever the indices are inside the array (so it never
           Faults and the fuel suffices).
   Part B: heap order (parametric in a total preorder [le] with a C-style three-way [cmp]).
   Part C: multiset (Permutation) and frame facts.
   Part D: handles (last notified position).
   Part E: the operations. *)
From Coq Require Import NArith ZArith List Bool Arith Lia ZifyNat Permutation.
From LCP Require Import Base.CheckedMem DS.AllocOracle DS.PtrHeap.
Import ListNotations.
Local Open Scope res_scope.

Ltac Zify.zify_post_hook ::= Z.div_mod_to_equations.

(* the tree arithmetic the theorems are about *)
Definition std_tc : treeconsts := {| t_psub := 1; t_pdiv := 2; t_cmul := 2; t_c1 := 1; t_c2 := 2 |}.
Definition par (i : nat) : nat := (i - 1) / 2.

Lemma parent_std i : parent std_tc i = par i. Proof. reflexivity. Qed.
Lemma child1_std i : child1 std_tc i = 2 * i + 1. Proof. reflexivity. Qed.
Lemma child2_std i : child2 std_tc i = 2 * i + 2. Proof. reflexivity. Qed.

Lemma par_lt i : 0 < i -> par i < i.
Proof. unfold par. intros. lia. Qed.
Lemma par_child j i : 0 < j -> (par j = i <-> j = 2 * i + 1 \/ j = 2 * i + 2).
Proof. unfold par. intros. lia. Qed.

(* ---------------- Part A: lists ---------------- *)
Definition el (l : list N) (i : nat) : N := nth i l 0%N.

Lemma getp_ok l i : i < length l -> getp l i = Ok (el l i).
Proof.
  intros H. unfold getp, el. destruct (nth_error l i) eqn:E.
  - erewrite nth_error_nth; eauto.
  - apply nth_error_None in E. lia.
Qed.

Lemma length_upd l : forall i v, length (upd l i v) = length l.
Proof. induction l; intros [|i] v; simpl; auto. Qed.

Lemma putp_ok l i v : i < length l -> putp l i v = Ok (upd l i v).
Proof. intros H. unfold putp. apply Nat.ltb_lt in H. rewrite H. reflexivity. Qed.

Lemma el_upd_same l : forall i v, i < length l -> el (upd l i v) i = v.
Proof. unfold el. induction l; intros [|i] v H; simpl in *; try lia; auto; try (apply IHl; lia). Qed.

Lemma el_upd_other l : forall i j v, i <> j -> el (upd l i v) j = el l j.
Proof.
  unfold el. induction l; intros [|i] [|j] v H; simpl; auto; try lia; try (apply IHl; lia).
Qed.

Lemma el_upd l i j v : i < length l -> el (upd l i v) j = if j =? i then v else el l j.
Proof.
  intros. destruct (Nat.eqb_spec j i); subst.
  - apply el_upd_same; auto.
  - apply el_upd_other; auto.
Qed.

Definition swap_p (l : list N) (i j : nat) : list N := upd (upd l i (el l j)) j (el l i).
Definition swap_notes (l : list N) (i j : nat) (setrc : bool) : list note :=
  if setrc then [(el l j, i); (el l i, j)] else [].

Lemma length_swap l i j : length (swap_p l i j) = length l.
Proof. unfold swap_p. rewrite !length_upd. reflexivity. Qed.

Lemma el_swap l i j k : i < length l -> j < length l ->
  el (swap_p l i j) k = if k =? j then el l i else if k =? i then el l j else el l k.
Proof.
  intros Hi Hj. unfold swap_p. rewrite el_upd by (rewrite length_upd; auto).
  destruct (k =? j); auto. rewrite el_upd by auto. reflexivity.
Qed.

Lemma swap_ok l i j setrc : i < length l -> j < length l ->
  swap l i j setrc = Ok (swap_p l i j, swap_notes l i j setrc).
Proof.
  intros Hi Hj. unfold swap. rewrite !getp_ok by auto. cbn [bind].
  rewrite putp_ok by auto. cbn [bind]. rewrite putp_ok by (rewrite length_upd; auto). cbn [bind].
  fold (swap_p l i j). unfold swap_notes. destruct setrc; auto.
  rewrite !getp_ok by (rewrite length_swap; auto). cbn [bind].
  rewrite !el_swap by auto. rewrite !Nat.eqb_refl.
  destruct (Nat.eqb_spec i j); subst; auto.
Qed.

Lemma el_app_l (l r : list N) i : i < length l -> el (l ++ r) i = el l i.
Proof. intros. unfold el. apply app_nth1. auto. Qed.
Lemma el_app_last (l : list N) x : el (l ++ [x]) (length l) = x.
Proof. unfold el. rewrite app_nth2 by lia. rewrite Nat.sub_diag. reflexivity. Qed.

Lemma el_removelast (l : list N) i : i < length l - 1 -> el (removelast l) i = el l i.
Proof.
  intros H. destruct (exists_last (l := l)) as (a & x & ->).
  { intro; subst; simpl in H; lia. }
  rewrite removelast_last. rewrite app_length in H. simpl in H. rewrite el_app_l by lia. reflexivity.
Qed.

Lemma length_removelast (l : list N) : length (removelast l) = length l - 1.
Proof.
  destruct l as [|y l']. reflexivity.
  destruct (exists_last (l := y :: l')) as (a & x & E). discriminate.
  rewrite E, removelast_last, app_length. simpl. lia.
Qed.

Lemma list_ext_el (l1 l2 : list N) : length l1 = length l2 ->
  (forall i, i < length l1 -> el l1 i = el l2 i) -> l1 = l2.
Proof.
  intros HL H. apply nth_ext with (d := 0%N) (d' := 0%N); auto.
Qed.

(* ---------------- pure sift loops ---------------- *)
Section Pure.
  Variable cmp : N -> N -> Z.
  Variable setrc : bool.

  Fixpoint up_p (fuel : nat) (l : list N) (i : nat) {struct fuel} : list N * list note :=
    match fuel with
    | O => (l, [])
    | S f =>
      if i =? 0 then (l, [])
      else if (cmp (el l i) (el l (par i)) >=? 0)%Z then (l, [])
      else let r := up_p f (swap_p l i (par i)) (par i) in
           (fst r, swap_notes l i (par i) setrc ++ snd r)
    end.

  Definition pick_p (l : list N) (n min c : nat) : nat :=
    if c <? n then (if (cmp (el l min) (el l c) >? 0)%Z then c else min) else min.
  Definition pick2 (l : list N) (n i : nat) : nat :=
    pick_p l n (pick_p l n i (2 * i + 1)) (2 * i + 2).

  Fixpoint down_p (fuel : nat) (l : list N) (i n : nat) {struct fuel} : list N * list note :=
    match fuel with
    | O => (l, [])
    | S f =>
      let m := pick2 l n i in
      if m =? i then (l, [])
      else let r := down_p f (swap_p l m i) m n in
           (fst r, swap_notes l m i setrc ++ snd r)
    end.

  Lemma heapifyup_eq : forall fuel l i, i < fuel -> i < length l ->
    heapifyup std_tc cmp fuel l i setrc = Ok (up_p fuel l i).
  Proof.
    induction fuel; intros l i Hf Hl. lia.
    cbn [heapifyup up_p]. destruct (Nat.eqb_spec i 0); auto.
    rewrite parent_std. assert (par i < i) by (apply par_lt; lia).
    rewrite !getp_ok by lia. cbn [bind].
    destruct (cmp (el l i) (el l (par i)) >=? 0)%Z; auto.
    rewrite swap_ok by lia. cbn [bind].
    rewrite IHfuel by (rewrite ?length_swap; lia). cbn [bind].
    destruct (up_p fuel (swap_p l i (par i)) (par i)); reflexivity.
  Qed.

  Lemma pick_eq l n min c : n <= length l -> min < n \/ n <= c ->
    pick cmp l n min c = Ok (pick_p l n min c).
  Proof.
    intros Hn Hm. unfold pick, pick_p. destruct (Nat.ltb_spec c n); auto.
    rewrite !getp_ok by lia. reflexivity.
  Qed.

  Lemma pick_p_cases l n min c : pick_p l n min c = min \/ (pick_p l n min c = c /\ c < n).
  Proof.
    unfold pick_p. destruct (Nat.ltb_spec c n); auto.
    destruct (cmp (el l min) (el l c) >? 0)%Z; auto.
  Qed.

  Lemma pick2_cases l n i :
    pick2 l n i = i \/ (pick2 l n i = 2 * i + 1 /\ 2 * i + 1 < n) \/ (pick2 l n i = 2 * i + 2 /\ 2 * i + 2 < n).
  Proof.
    unfold pick2.
    destruct (pick_p_cases l n (pick_p l n i (2 * i + 1)) (2 * i + 2)) as [E | [E H]]; rewrite E; auto.
    destruct (pick_p_cases l n i (2 * i + 1)) as [E' | [E' H']]; rewrite E'; auto.
  Qed.

  Lemma heapify_eq : forall fuel l i n, n - i < fuel -> n <= length l ->
    heapify std_tc cmp fuel l i n setrc = Ok (down_p fuel l i n).
  Proof.
    induction fuel; intros l i n Hf Hn. lia.
    cbn [heapify down_p]. rewrite child1_std, child2_std.
    assert (Hi : i < n \/ n <= 2 * i + 1) by lia.
    rewrite pick_eq by auto. cbn [bind].
    assert (H1 : pick_p l n i (2 * i + 1) < n \/ n <= 2 * i + 2).
    { destruct (pick_p_cases l n i (2 * i + 1)) as [E | [E H]]; rewrite E; lia. }
    rewrite pick_eq by auto. cbn [bind]. fold (pick2 l n i).
    destruct (Nat.eqb_spec (pick2 l n i) i); auto.
    assert (Hm : pick2 l n i < n /\ i < pick2 l n i /\ i < n).
    { destruct (pick2_cases l n i) as [E | [[E H] | [E H]]]; lia. }
    rewrite swap_ok by lia. cbn [bind].
    rewrite IHfuel by (rewrite ?length_swap; lia). cbn [bind].
    destruct (down_p fuel (swap_p l (pick2 l n i) i) (pick2 l n i) n); reflexivity.
  Qed.

  Lemma length_up_p : forall fuel l i, length (fst (up_p fuel l i)) = length l.
  Proof.
    induction fuel; intros; cbn [up_p]; auto.
    destruct (i =? 0); auto. destruct (cmp _ _ >=? 0)%Z; auto.
    cbn [fst]. rewrite IHfuel, length_swap. reflexivity.
  Qed.

  Lemma length_down_p : forall fuel l i n, length (fst (down_p fuel l i n)) = length l.
  Proof.
    induction fuel; intros; cbn [down_p]; auto.
    destruct (_ =? i); auto. cbn [fst]. rewrite IHfuel, length_swap. reflexivity.
  Qed.
End Pure.

(* ---------------- Part B: heap order ---------------- *)
(* compar(cookie, x, y) is a C-style three-way comparison for the total preorder [le] *)
Record compar_ok (cmp : N -> N -> Z) (le : N -> N -> Prop) : Prop := {
  co_trans : forall x y z, le x y -> le y z -> le x z;
  co_le : forall x y, (cmp x y <= 0)%Z <-> le x y;
  co_ge : forall x y, (cmp x y >= 0)%Z <-> le y x
}.

Section Order.
  Variable cmp : N -> N -> Z.
  Variable le : N -> N -> Prop.
  Hypothesis CO : compar_ok cmp le.
  Variable setrc : bool.

  Lemma le_refl x : le x x.
  Proof. destruct (Z_le_gt_dec (cmp x x) 0); [apply (co_le _ _ CO) | apply (co_ge _ _ CO)]; lia. Qed.
  Lemma le_total x y : le x y \/ le y x.
  Proof. destruct (Z_le_gt_dec (cmp x y) 0); [left; apply (co_le _ _ CO) | right; apply (co_ge _ _ CO)]; lia. Qed.
  Lemma le_trans x y z : le x y -> le y z -> le x z.
  Proof. apply (co_trans _ _ CO). Qed.
  Lemma gtb_true x y : (cmp x y >? 0)%Z = true -> le y x /\ ~ le x y.
  Proof.
    intros H. apply Z.gtb_lt in H. split.
    - apply (co_ge _ _ CO). lia.
    - intro L. apply (co_le _ _ CO) in L. lia.
  Qed.
  Lemma gtb_false x y : (cmp x y >? 0)%Z = false -> le x y.
  Proof. intros H. apply (co_le _ _ CO). rewrite Z.gtb_ltb in H. apply Z.ltb_ge in H. lia. Qed.
  Lemma geb_true x y : (cmp x y >=? 0)%Z = true -> le y x.
  Proof. intros H. apply (co_ge _ _ CO). apply Z.geb_le in H. lia. Qed.
  Lemma geb_false x y : (cmp x y >=? 0)%Z = false -> le x y /\ ~ le y x.
  Proof.
    intros H. rewrite Z.geb_leb in H. apply Z.leb_gt in H. split.
    - apply (co_le _ _ CO). lia.
    - intro L. apply (co_ge _ _ CO) in L. lia.
  Qed.
  Lemma ltb_true x y : (cmp x y <? 0)%Z = true -> le x y /\ ~ le y x.
  Proof.
    intros H. apply Z.ltb_lt in H. split.
    - apply (co_le _ _ CO). lia.
    - intro L. apply (co_ge _ _ CO) in L. lia.
  Qed.
  Lemma ltb_false x y : (cmp x y <? 0)%Z = false -> le y x.
  Proof. intros H. apply Z.ltb_ge in H. apply (co_ge _ _ CO). lia. Qed.

  (* order holds between every node j < n and its parent, for parents at index >= k *)
  Definition ord (k n : nat) (l : list N) : Prop :=
    forall j, 0 < j < n -> k <= par j -> le (el l (par j)) (el l j).
  Definition heap_upto (n : nat) (l : list N) : Prop := ord 0 n l.

  (* ... except possibly around node i *)
  Definition almostk (k n : nat) (l : list N) (i : nat) : Prop :=
    (forall j, 0 < j < n -> k <= par j -> j <> i -> par j <> i -> le (el l (par j)) (el l j)) /\
    (forall j, 0 < j < n -> par j = i -> 0 < i -> k <= par i -> le (el l (par i)) (el l j)).
  (* i may be larger than its children *)
  Definition adown (k n : nat) (l : list N) (i : nat) : Prop :=
    almostk k n l i /\ (0 < i -> i < n -> k <= par i -> le (el l (par i)) (el l i)).
  (* i may be smaller than its parent *)
  Definition aup (n : nat) (l : list N) (i : nat) : Prop :=
    almostk 0 n l i /\ (forall j, 0 < j < n -> par j = i -> le (el l i) (el l j)).

  Lemma ord_adown k n l i : ord k n l -> adown k n l i.
  Proof.
    intros H. split; [split|].
    - intros j Hj Hk _ _. apply H; auto.
    - intros j Hj Hp Hi Hk. subst i.
      assert (par (par j) < par j) by (apply par_lt; auto).
      assert (par j < j) by (apply par_lt; lia).
      apply le_trans with (el l (par j)); apply H; lia.
    - intros. apply H; auto.
  Qed.

  Lemma ord_aup n l i : ord 0 n l -> aup n l i.
  Proof.
    intros H. split.
    - apply (ord_adown 0 n l i H).
    - intros j Hj Hp. subst i. apply H; auto. lia.
  Qed.

  Lemma pick2_spec l n i :
    let m := pick2 cmp l n i in
    (m = i /\ (2 * i + 1 < n -> le (el l i) (el l (2 * i + 1))) /\
              (2 * i + 2 < n -> le (el l i) (el l (2 * i + 2)))) \/
    (m <> i /\ (m = 2 * i + 1 \/ m = 2 * i + 2) /\ m < n /\ le (el l m) (el l i) /\
     (2 * i + 1 < n -> le (el l m) (el l (2 * i + 1))) /\
     (2 * i + 2 < n -> le (el l m) (el l (2 * i + 2)))).
  Proof.
    cbv zeta. unfold pick2, pick_p.
    destruct (Nat.ltb_spec (2 * i + 1) n) as [H1|H1]; destruct (Nat.ltb_spec (2 * i + 2) n) as [H2|H2]; try lia.
    - destruct (cmp (el l i) (el l (2 * i + 1)) >? 0)%Z eqn:E1.
      + apply gtb_true in E1. destruct E1 as [E1 _].
        destruct (cmp (el l (2 * i + 1)) (el l (2 * i + 2)) >? 0)%Z eqn:E2.
        * apply gtb_true in E2. destruct E2 as [E2 _]. right.
          split; [lia|]. split; [lia|]. split; [lia|]. split; [eapply le_trans; eauto|].
          split; intros _; auto using le_refl.
        * apply gtb_false in E2. right.
          split; [lia|]. split; [lia|]. split; [lia|]. split; [auto|].
          split; intros _; auto using le_refl.
      + apply gtb_false in E1.
        destruct (cmp (el l i) (el l (2 * i + 2)) >? 0)%Z eqn:E2.
        * apply gtb_true in E2. destruct E2 as [E2 _]. right.
          split; [lia|]. split; [lia|]. split; [lia|]. split; [auto|].
          split; intros _; [eapply le_trans; eauto | apply le_refl].
        * apply gtb_false in E2. left. auto.
    - destruct (cmp (el l i) (el l (2 * i + 1)) >? 0)%Z eqn:E1.
      + apply gtb_true in E1. destruct E1 as [E1 _]. right.
        split; [lia|]. split; [lia|]. split; [lia|]. split; [auto|].
        split; intros; [apply le_refl | lia].
      + apply gtb_false in E1. left. split; [auto|]. split; intros; [auto | lia].
  Qed.

  Lemma down_ord : forall fuel l i n k, n - i < fuel -> n <= length l -> k <= i ->
    adown k n l i -> ord k n (fst (down_p cmp setrc fuel l i n)).
  Proof.
    induction fuel; intros l i n k Hf Hn Hk [[A1 A2] AD]. lia.
    cbn [down_p]. destruct (pick2_spec l n i) as [(Em & C1 & C2) | (Nm & Ec & Hm & Lmi & C1 & C2)].
    - rewrite Em, Nat.eqb_refl. cbn [fst].
      intros j Hj Hkj. destruct (Nat.eq_dec (par j) i) as [E|E].
      + rewrite E. apply par_child in E; [|lia]. destruct E; subst j; [apply C1 | apply C2]; lia.
      + destruct (Nat.eq_dec j i); [subst j; apply AD; lia | apply A1; auto].
    - set (m := pick2 cmp l n i) in *.
      destruct (Nat.eqb_spec m i); [contradiction|]. cbn [fst].
      assert (Him : i < m /\ par m = i) by (unfold par; lia).
      destruct Him as [Him Hpm].
      apply IHfuel; try lia. { rewrite length_swap. lia. }
      assert (EL : forall x, el (swap_p l m i) x = if x =? i then el l m else if x =? m then el l i else el l x).
      { intros. apply el_swap; lia. }
      split; [split|].
      + (* A1 *)
        intros j Hj Hkj Hjm Hpj. rewrite !EL.
        destruct (Nat.eqb_spec j i) as [->|Hji].
        * (* j = i: parent of i against the former child *)
          assert (par i < i) by (apply par_lt; lia).
          destruct (Nat.eqb_spec (par i) i); [lia|]. destruct (Nat.eqb_spec (par i) m); [lia|].
          apply A2; auto; lia.
        * destruct (Nat.eqb_spec j m); [contradiction|].
          destruct (Nat.eqb_spec (par j) i) as [Epj|Epj].
          -- (* the sibling of m *)
             apply par_child in Epj; [|lia]. destruct Epj; subst j; [apply C1 | apply C2]; lia.
          -- destruct (Nat.eqb_spec (par j) m); [contradiction|]. apply A1; auto.
      + (* A2: children of m against the new parent of m, which is the old l[m] at i *)
        intros j Hj Hpj H0m Hkm. rewrite Hpm, !EL, Nat.eqb_refl.
        assert (m < j) by (rewrite <- Hpj; apply par_lt; lia).
        destruct (Nat.eqb_spec j i); [lia|]. destruct (Nat.eqb_spec j m); [lia|].
        rewrite <- Hpj. apply A1; auto; lia.
      + intros _ _ _. rewrite Hpm, !EL, Nat.eqb_refl.
        destruct (Nat.eqb_spec m i); [lia|]. rewrite Nat.eqb_refl. exact Lmi.
  Qed.

  Lemma up_ord : forall fuel l i n, i < fuel -> i < n -> n <= length l ->
    aup n l i -> ord 0 n (fst (up_p cmp setrc fuel l i)).
  Proof.
    induction fuel; intros l i n Hf Hi Hn [[A1 A2] AU]. lia.
    cbn [up_p]. destruct (Nat.eqb_spec i 0) as [->|Hi0].
    - cbn [fst]. intros j Hj _. destruct (Nat.eq_dec (par j) 0) as [E|E].
      + rewrite E. apply AU; auto.
      + apply A1; auto; lia.
    - assert (Hp : par i < i) by (apply par_lt; lia).
      destruct (cmp (el l i) (el l (par i)) >=? 0)%Z eqn:E.
      + apply geb_true in E. cbn [fst]. intros j Hj _.
        destruct (Nat.eq_dec j i) as [->|Hji]; auto.
        destruct (Nat.eq_dec (par j) i) as [Epj|Epj]; [rewrite Epj; apply AU; auto | apply A1; auto; lia].
      + apply geb_false in E. destruct E as [E _]. cbn [fst].
        apply IHfuel with (n := n); try lia. { rewrite length_swap. lia. }
        set (p := par i) in *.
        assert (EL : forall x, el (swap_p l i p) x = if x =? p then el l i else if x =? i then el l p else el l x).
        { intros. apply el_swap; lia. }
        split; [split|].
        * intros j Hj _ Hjp Hpjp. rewrite !EL.
          destruct (Nat.eqb_spec (par j) p); [contradiction|].
          destruct (Nat.eqb_spec j p); [contradiction|].
          destruct (Nat.eqb_spec j i) as [->|Hji]; [contradiction|].
          destruct (Nat.eqb_spec (par j) i) as [Epj|Epj].
          -- apply A2; auto; lia.
          -- apply A1; auto; lia.
        * intros j Hj Hpj H0p _. rewrite !EL.
          assert (par p < p) by (apply par_lt; lia).
          destruct (Nat.eqb_spec (par p) p); [lia|]. destruct (Nat.eqb_spec (par p) i); [lia|].
          assert (p < j) by (rewrite <- Hpj; apply par_lt; lia).
          destruct (Nat.eqb_spec j p); [lia|].
          assert (Lpp : le (el l (par p)) (el l p)) by (apply A1; auto; lia).
          destruct (Nat.eqb_spec j i); auto.
          eapply le_trans; [exact Lpp|]. rewrite <- Hpj. apply A1; auto; lia.
        * intros j Hj Hpj. rewrite !EL, Nat.eqb_refl.
          assert (p < j) by (rewrite <- Hpj; apply par_lt; lia).
          destruct (Nat.eqb_spec j p); [lia|].
          destruct (Nat.eqb_spec j i); auto.
          eapply le_trans; [exact E|]. rewrite <- Hpj. apply A1; auto; lia.
  Qed.

  (* the root is a least element *)
  Lemma root_least n l : heap_upto n l -> forall j, j < n -> le (el l 0) (el l j).
  Proof.
    intros H j. induction j as [j IH] using lt_wf_ind. intros Hj.
    destruct (Nat.eq_dec j 0) as [->|]; [apply le_refl|].
    eapply le_trans; [apply IH | apply H]; try lia.
    - apply par_lt; lia.
    - assert (par j < j) by (apply par_lt; lia). lia.
  Qed.
End Order.

(* ---------------- Part C: multiset and frame ---------------- *)
Lemma upd_perm : forall l i v, i < length l -> Permutation (el l i :: upd l i v) (v :: l).
Proof.
  induction l as [|a l IH]; intros [|i] v H; simpl in H; try lia.
  - unfold el. simpl. apply perm_swap.
  - change (el (a :: l) (S i)) with (el l i). change (upd (a :: l) (S i) v) with (a :: upd l i v).
    eapply perm_trans; [apply perm_swap|]. eapply perm_trans; [|apply perm_swap].
    apply perm_skip. apply IH. lia.
Qed.

Lemma swap_perm l i j : i < length l -> j < length l -> Permutation (swap_p l i j) l.
Proof.
  intros Hi Hj. unfold swap_p.
  assert (P1 := upd_perm l i (el l j) Hi).
  assert (Hj' : j < length (upd l i (el l j))) by (rewrite length_upd; auto).
  assert (P2 := upd_perm (upd l i (el l j)) j (el l i) Hj').
  assert (E : el (upd l i (el l j)) j = el l j).
  { rewrite el_upd by auto. destruct (j =? i); auto. }
  rewrite E in P2. eapply Permutation_cons_inv with (a := el l j).
  eapply perm_trans; [exact P2|]. exact P1.
Qed.

Section Frame.
  Variable cmp : N -> N -> Z.
  Variable setrc : bool.

  Lemma up_perm : forall fuel l i, i < length l -> Permutation (fst (up_p cmp setrc fuel l i)) l.
  Proof.
    induction fuel; intros l i Hi; cbn [up_p]; auto.
    destruct (Nat.eqb_spec i 0); auto. destruct (cmp _ _ >=? 0)%Z; auto. cbn [fst].
    assert (par i < i) by (apply par_lt; lia).
    eapply perm_trans; [apply IHfuel | apply swap_perm]; rewrite ?length_swap; lia.
  Qed.

  Lemma down_perm : forall fuel l i n, n <= length l -> Permutation (fst (down_p cmp setrc fuel l i n)) l.
  Proof.
    induction fuel; intros l i n Hn; cbn [down_p]; auto.
    destruct (Nat.eqb_spec (pick2 cmp l n i) i); auto. cbn [fst].
    destruct (pick2_cases cmp l n i) as [E | [[E H] | [E H]]]; try contradiction;
      (eapply perm_trans; [apply IHfuel | apply swap_perm]; rewrite ?length_swap; lia).
  Qed.

  Lemma up_frame : forall fuel l i k, i < length l -> i < k -> el (fst (up_p cmp setrc fuel l i)) k = el l k.
  Proof.
    induction fuel; intros l i k Hi Hk; cbn [up_p]; auto.
    destruct (Nat.eqb_spec i 0); auto. destruct (cmp _ _ >=? 0)%Z; auto. cbn [fst].
    assert (par i < i) by (apply par_lt; lia).
    rewrite IHfuel by (rewrite ?length_swap; lia). rewrite el_swap by lia.
    destruct (Nat.eqb_spec k (par i)); [lia|]. destruct (Nat.eqb_spec k i); [lia|]. reflexivity.
  Qed.

  Lemma down_frame : forall fuel l i n k, n <= length l -> n <= k ->
    el (fst (down_p cmp setrc fuel l i n)) k = el l k.
  Proof.
    induction fuel; intros l i n k Hn Hk; cbn [down_p]; auto.
    destruct (Nat.eqb_spec (pick2 cmp l n i) i); auto. cbn [fst].
    assert (pick2 cmp l n i < n /\ i < n).
    { destruct (pick2_cases cmp l n i) as [E | [[E H] | [E H]]]; try contradiction; lia. }
    rewrite IHfuel by (rewrite ?length_swap; lia). rewrite el_swap by lia.
    destruct (Nat.eqb_spec k i); [lia|]. destruct (Nat.eqb_spec k (pick2 cmp l n i)); [lia|]. reflexivity.
  Qed.
End Frame.

(* ptrheap_delete calls heapify with N = nelems although slot nelems - 1 is a stale copy of the
   element being sifted: the copy is never chosen (strict comparisons), so the call behaves exactly
   like heapify on the nelems - 1 elements that remain *)
Section Stale.
  Variable cmp : N -> N -> Z.
  Variable le : N -> N -> Prop.
  Hypothesis CO : compar_ok cmp le.
  Variable setrc : bool.

  Lemma cmp_refl_gtb x : (cmp x x >? 0)%Z = false.
  Proof.
    destruct (cmp x x >? 0)%Z eqn:E; auto. apply (gtb_true cmp le CO) in E. destruct E as [L NL]. contradiction.
  Qed.

  Lemma pick2_stale l n i : 0 < n -> i < n - 1 -> el l (n - 1) = el l i ->
    pick2 cmp l n i = pick2 cmp l (n - 1) i.
  Proof.
    intros Hn Hi E. unfold pick2, pick_p.
    destruct (Nat.ltb_spec (2 * i + 1) (n - 1)) as [H1|H1].
    - destruct (Nat.ltb_spec (2 * i + 1) n); [|lia].
      destruct (Nat.ltb_spec (2 * i + 2) (n - 1)) as [H2|H2].
      + destruct (Nat.ltb_spec (2 * i + 2) n); [|lia]. reflexivity.
      + destruct (Nat.ltb_spec (2 * i + 2) n) as [H3|H3]; auto.
        assert (E2 : 2 * i + 2 = n - 1) by lia. rewrite E2, E.
        destruct (cmp (el l i) (el l (2 * i + 1)) >? 0)%Z eqn:C1.
        * apply (gtb_true cmp le CO) in C1. destruct C1 as [L _].
          destruct (cmp (el l (2 * i + 1)) (el l i) >? 0)%Z eqn:C2; auto.
          apply (gtb_true cmp le CO) in C2. destruct C2 as [_ NL]. contradiction.
        * rewrite cmp_refl_gtb. reflexivity.
    - destruct (Nat.ltb_spec (2 * i + 2) (n - 1)); [lia|].
      destruct (Nat.ltb_spec (2 * i + 2) n); [lia|].
      destruct (Nat.ltb_spec (2 * i + 1) n) as [H3|H3]; auto.
      assert (E1 : 2 * i + 1 = n - 1) by lia. rewrite E1, E, cmp_refl_gtb. reflexivity.
  Qed.

  Lemma down_stale : forall fuel l i n, 0 < n -> n <= length l -> i < n - 1 -> el l (n - 1) = el l i ->
    down_p cmp setrc fuel l i n = down_p cmp setrc fuel l i (n - 1).
  Proof.
    induction fuel; intros l i n Hn Hl Hi E; cbn [down_p]; auto.
    rewrite <- pick2_stale by auto.
    destruct (Nat.eqb_spec (pick2 cmp l n i) i); auto.
    assert (Hm : pick2 cmp l n i < n - 1 /\ i < pick2 cmp l n i).
    { rewrite pick2_stale in * by auto.
      destruct (pick2_cases cmp l (n - 1) i) as [E' | [[E' H] | [E' H]]]; try contradiction; lia. }
    rewrite IHfuel; auto.
    - rewrite length_swap. auto.
    - lia.
    - rewrite !el_swap by lia.
      destruct (Nat.eqb_spec (n - 1) i); [lia|].
      destruct (Nat.eqb_spec (n - 1) (pick2 cmp l n i)); [lia|].
      destruct (Nat.eqb_spec (pick2 cmp l n i) i); [lia|]. rewrite Nat.eqb_refl. auto.
  Qed.
End Stale.

(* ---------------- Part D: handles ---------------- *)
(* [pos] is the caller's table: the position most recently passed to setreccookie for each id *)
Definition handles_upto (m : nat) (pos : N -> option nat) (l : list N) : Prop :=
  forall i, i < m -> pos (el l i) = Some i.

Lemma apply_notes_app pos a b : apply_notes pos (a ++ b) = apply_notes (apply_notes pos a) b.
Proof. unfold apply_notes. apply fold_left_app. Qed.

Lemma handles_inj m pos l i j : handles_upto m pos l -> i < m -> j < m -> el l i = el l j -> i = j.
Proof.
  intros H Hi Hj E. assert (A := H i Hi). assert (B := H j Hj). rewrite E in A. congruence.
Qed.

Lemma handles_swap m pos l i j : handles_upto m pos l -> i < m -> j < m -> m <= length l ->
  handles_upto m (apply_notes pos (swap_notes l i j true)) (swap_p l i j).
Proof.
  intros H Hi Hj Hm k Hk. unfold swap_notes, apply_notes. cbn [fold_left]. unfold pos_upd. cbn [fst snd].
  rewrite el_swap by lia.
  destruct (Nat.eqb_spec k j) as [->|Hkj].
  - rewrite N.eqb_refl. reflexivity.
  - destruct (Nat.eqb_spec k i) as [->|Hki].
    + destruct (N.eqb_spec (el l j) (el l i)) as [E|E].
      * exfalso. apply Hkj. symmetry. eapply handles_inj; eauto.
      * rewrite N.eqb_refl. reflexivity.
    + destruct (N.eqb_spec (el l k) (el l i)) as [E|E].
      { exfalso. apply Hki. eapply handles_inj; eauto. }
      destruct (N.eqb_spec (el l k) (el l j)) as [E'|E'].
      { exfalso. apply Hkj. eapply handles_inj; eauto. }
      apply H; auto.
Qed.

Section Handles.
  Variable cmp : N -> N -> Z.

  Lemma up_handles : forall fuel l i m pos, handles_upto m pos l -> i < m -> m <= length l ->
    handles_upto m (apply_notes pos (snd (up_p cmp true fuel l i))) (fst (up_p cmp true fuel l i)).
  Proof.
    induction fuel; intros l i m pos H Hi Hm; cbn [up_p]; auto.
    destruct (Nat.eqb_spec i 0); auto. destruct (cmp _ _ >=? 0)%Z; auto. cbn [fst snd].
    assert (par i < i) by (apply par_lt; lia).
    rewrite apply_notes_app. apply IHfuel; rewrite ?length_swap; try lia.
    apply handles_swap; auto; lia.
  Qed.

  Lemma down_handles : forall fuel l i n m pos, handles_upto m pos l -> n <= m -> m <= length l ->
    handles_upto m (apply_notes pos (snd (down_p cmp true fuel l i n))) (fst (down_p cmp true fuel l i n)).
  Proof.
    induction fuel; intros l i n m pos H Hn Hm; cbn [down_p]; auto.
    destruct (Nat.eqb_spec (pick2 cmp l n i) i); auto. cbn [fst snd].
    assert (pick2 cmp l n i < n /\ i < n).
    { destruct (pick2_cases cmp l n i) as [E | [[E H'] | [E H']]]; try contradiction; lia. }
    rewrite apply_notes_app. apply IHfuel; rewrite ?length_swap; try lia.
    apply handles_swap; auto; lia.
  Qed.
End Handles.

Lemma apply_notes_notin : forall ns pos x, ~ In x (map fst ns) -> apply_notes pos ns x = pos x.
Proof.
  induction ns as [|[a p] ns IH]; intros pos x H; auto.
  change (apply_notes pos ((a, p) :: ns)) with (apply_notes (pos_upd pos (a, p)) ns).
  rewrite IH by (intro; apply H; right; auto).
  unfold pos_upd. cbn [fst snd]. destruct (N.eqb_spec x a); auto. subst. exfalso. apply H. left. reflexivity.
Qed.

Lemma notify_all_fst : forall l k, map fst (notify_all l k) = l.
Proof. induction l; intros; simpl; auto. rewrite IHl. reflexivity. Qed.

Lemma notify_all_handles : forall l k pos, NoDup l ->
  forall i, i < length l -> apply_notes pos (notify_all l k) (el l i) = Some (k + i).
Proof.
  induction l as [|a l IH]; intros k pos ND i Hi; simpl in Hi. lia.
  inversion ND as [|? ? Hnot ND']; subst.
  change (apply_notes pos (notify_all (a :: l) k)) with (apply_notes (pos_upd pos (a, k)) (notify_all l (S k))).
  destruct i as [|i].
  - change (el (a :: l) 0) with a. rewrite apply_notes_notin by (rewrite notify_all_fst; auto).
    unfold pos_upd. cbn [fst snd]. rewrite N.eqb_refl. f_equal. lia.
  - change (el (a :: l) (S i)) with (el l i). rewrite IH by (auto; lia). f_equal. lia.
Qed.

Lemma el_In (l : list N) i : i < length l -> In (el l i) l.
Proof. intros. unfold el. apply nth_In. auto. Qed.

Lemma In_el (l : list N) x : In x l -> exists i, i < length l /\ el l i = x.
Proof. intros H. destruct (In_nth l x 0%N H) as (i & Hi & E). exists i. auto. Qed.

(* what a caller relies on: the position last notified for an element of the heap holds it *)
Lemma handles_lookup pos l x : handles_upto (length l) pos l -> In x l ->
  exists p, pos x = Some p /\ nth_error l p = Some x.
Proof.
  intros H Hx. destruct (In_el l x Hx) as (i & Hi & E). exists i. split.
  - rewrite <- E. apply H. auto.
  - rewrite <- E. unfold el. apply nth_error_nth'. auto.
Qed.

(* ---------------- Part E: the operations ---------------- *)
Definition std_hc : heapconsts :=
  {| c_hsz := 40; c_easz := 24; c_reclen := 8; c_gmul := 2; c_sdiv := 4; c_smul := 2 |}.

Local Open Scope N_scope.

(* the outcomes of the array's resize() for requests below 2^63 bytes: never an assertion failure *)
Inductive resize_res (alloc nsize : N) (o : oracle) : bool * N * oracle * list aev -> Prop :=
| RR_keep : alloc <> 0 -> nsize <= alloc -> resize_res alloc nsize o (true, alloc, o, [])
| RR_zero : nsize = 0 -> resize_res alloc nsize o (true, 0, o, free_buf_ev alloc)
| RR_ok nalloc : nalloc <> 0 -> nalloc <> alloc -> nsize <= nalloc -> fst (next o) = true ->
    resize_res alloc nsize o (true, nalloc, snd (next o), [ARealloc (blk alloc) nalloc true])
| RR_fail nalloc : nalloc <> 0 -> nalloc <> alloc -> fst (next o) = false ->
    resize_res alloc nsize o (false, alloc, snd (next o), [ARealloc (blk alloc) nalloc false]).

Lemma ea_resize_cases alloc nsize o : nsize < 2 ^ 63 ->
  exists r, ea_resize std_hc alloc nsize o = Ok r /\ resize_res alloc nsize o r.
Proof.
  intros Hs. unfold ea_resize. cbn [c_gmul c_sdiv c_smul std_hc].
  set (nalloc := if alloc <? nsize then
                   (if (alloc * 2) mod W64 <? nsize then nsize else (alloc * 2) mod W64)
                 else if nsize <? alloc / 4 then (nsize * 2) mod W64 else alloc).
  assert (HW : W64 = 2 ^ 64) by reflexivity.
  assert (Hn : nsize <= nalloc /\ (nalloc = 0 -> nsize = 0)).
  { unfold nalloc. destruct (N.ltb_spec alloc nsize).
    - destruct (N.ltb_spec ((alloc * 2) mod W64) nsize); lia.
    - destruct (N.ltb_spec nsize (alloc / 4)).
      + rewrite N.mod_small by (rewrite HW; lia). lia.
      + lia. }
  destruct Hn as [Hle Hz].
  destruct (N.eqb_spec nalloc 0) as [E0|E0].
  - rewrite (Hz E0), N.eqb_refl. eexists. split; [reflexivity|]. apply RR_zero. auto.
  - destruct (N.eqb_spec nalloc alloc) as [Ea|Ea]; cbn [negb].
    + eexists. split; [reflexivity|]. rewrite <- Ea. apply RR_keep; lia.
    + destruct (next o) as [ok o'] eqn:En. destruct ok.
      * eexists. split; [reflexivity|].
        replace o' with (snd (next o)) by (rewrite En; reflexivity).
        apply RR_ok; auto. rewrite En. reflexivity.
      * eexists. split; [reflexivity|].
        replace o' with (snd (next o)) by (rewrite En; reflexivity).
        apply RR_fail; auto. rewrite En. reflexivity.
Qed.

Local Close Scope N_scope.

Definition small (n : nat) : Prop := (N.of_nat n * 8 + 8 < 2 ^ 63)%N.

Lemma bytes_small n : small n -> bytes std_hc n = (N.of_nat n * 8)%N.
Proof.
  intros H. unfold bytes, small in *. cbn [c_reclen std_hc]. apply N.mod_small.
  change W64 with (2 ^ 64)%N. lia.
Qed.
