(* datastruct/mpool.h: MODEL (LIFO cache of object ids over a fresh-id allocator, statistics,
   the >> 8 tuning test and stack doubling as written) and SPEC (set of live objects).
   Object ids are the ordinals of the successful allocations; 0 is NULL.  No proofs here. *)
From Coq Require Import NArith List Bool.
From LCP Require Import Base.CheckedMem DS.AllocOracle DS.ElasticArray.
Import ListNotations.
Local Open Scope N_scope.
Local Open Scope res_scope.

Record mpool : Type := {
  mp_stack : list N;        (* M->allocs[0 .. stacklen), top of the stack first *)
  mp_allocsize : N;
  mp_slots : N;             (* ghost: number of pointer slots in the block M->allocs points to *)
  mp_nallocs : N;
  mp_nempties : N;
  mp_state : N;
  mp_static : bool;         (* M->allocs == M->allocs_static *)
  mp_nextid : N             (* ghost: id of the block the underlying malloc returns next *)
}.

Definition W64 : N := 2 ^ 64.

Section Model.
  Variable shift : N.       (* the 8 of  nallocs >> 8 *)
  Variable gm : N.          (* the 2 of  allocsize * 2 *)
  Variable psz : N.         (* sizeof(void * ) *)
  Variable olen : N.        (* sizeof(type) of the pooled objects *)

  (* MPOOL(name, type, size): the static record *)
  Definition mp_new (size : N) : mpool :=
    {| mp_stack := []; mp_allocsize := size; mp_slots := size; mp_nallocs := 0; mp_nempties := 0;
       mp_state := 0; mp_static := true; mp_nextid := 1 |}.

  Definition mp_stacklen (m : mpool) : N := N.of_nat (length (mp_stack m)).

  (* M->allocs[M->stacklen++] = p *)
  Definition mp_push (m : mpool) (p : N) : res mpool :=
    if mp_stacklen m <? mp_slots m then
      Ok {| mp_stack := p :: mp_stack m; mp_allocsize := mp_allocsize m; mp_slots := mp_slots m;
            mp_nallocs := mp_nallocs m; mp_nempties := mp_nempties m; mp_state := mp_state m;
            mp_static := mp_static m; mp_nextid := mp_nextid m |}
    else Fault.

  (* mpool_malloc: (pointer, atexit() called now, pool, oracle, events) *)
  Definition mp_malloc (m : mpool) (o : oracle) : res (N * bool * mpool * oracle * list aev) :=
    let na := (mp_nallocs m + 1) mod W64 in
    match mp_stack m with
    | p :: r =>
      if mp_slots m <? mp_stacklen m then Fault
      else Ok (p, false,
               {| mp_stack := r; mp_allocsize := mp_allocsize m; mp_slots := mp_slots m;
                  mp_nallocs := na; mp_nempties := mp_nempties m; mp_state := mp_state m;
                  mp_static := mp_static m; mp_nextid := mp_nextid m |}, o, [])
    | [] =>
      let ne := (mp_nempties m + 1) mod W64 in
      let reg := mp_state m =? 0 in
      let st := if reg then 1 else mp_state m in
      let (ok, o1) := next o in
      let p := if ok then mp_nextid m else 0 in
      Ok (p, reg,
          {| mp_stack := []; mp_allocsize := mp_allocsize m; mp_slots := mp_slots m;
             mp_nallocs := na; mp_nempties := ne; mp_state := st;
             mp_static := mp_static m;
             mp_nextid := if ok then mp_nextid m + 1 else mp_nextid m |},
          o1, [AMalloc olen ok])
    end.

  Definition mp_reset_stats (m : mpool) : mpool :=
    {| mp_stack := mp_stack m; mp_allocsize := mp_allocsize m; mp_slots := mp_slots m;
       mp_nallocs := 0; mp_nempties := 0; mp_state := mp_state m;
       mp_static := mp_static m; mp_nextid := mp_nextid m |}.

  (* mpool_free: (pool, oracle, events, ids of the objects given back to free()) *)
  Definition mp_free (m : mpool) (p : N) (o : oracle) : res (mpool * oracle * list aev * list N) :=
    if p =? 0 then Ok (m, o, [], [])
    else if mp_stacklen m <? mp_allocsize m then
      let* m1 := mp_push m p in Ok (m1, o, [], [])
    else if N.shiftr (mp_nallocs m) shift <? mp_nempties m then
      if mp_allocsize m =? 0 then AssertFail
      else
        let bytes := (((mp_allocsize m * gm) mod W64) * psz) mod W64 in
        let (ok, o1) := next o in
        if ok then
          (* memcpy(allocs_new, M->allocs, M->allocsize * sizeof(void * )) *)
          let cp := (mp_allocsize m * psz) mod W64 in
          if (bytes <? cp) || (mp_slots m * psz <? cp) then Fault
          else
            let evf := if mp_static m then [] else [AFree (mp_slots m * psz)] in
            let m1 := {| mp_stack := mp_stack m; mp_allocsize := (mp_allocsize m * gm) mod W64;
                         mp_slots := bytes / psz; mp_nallocs := mp_nallocs m;
                         mp_nempties := mp_nempties m; mp_state := mp_state m;
                         mp_static := false; mp_nextid := mp_nextid m + 1 |} in
            let* m2 := mp_push m1 p in
            Ok (mp_reset_stats m2, o1, AMalloc bytes true :: evf, [])
        else Ok (mp_reset_stats m, o1, [AMalloc bytes false; AFree olen], [p])
    else Ok (mp_reset_stats m, o, [AFree olen], [p]).

  (* mpool_atexit: (events, ids freed) *)
  Definition mp_atexit (m : mpool) : mpool * list aev * list N :=
    ({| mp_stack := []; mp_allocsize := mp_allocsize m; mp_slots := mp_slots m;
        mp_nallocs := mp_nallocs m; mp_nempties := mp_nempties m; mp_state := mp_state m;
        mp_static := mp_static m; mp_nextid := mp_nextid m |},
     map (fun _ => AFree olen) (mp_stack m)
         ++ (if mp_static m then [] else [AFree (mp_slots m * psz)]),
     mp_stack m).

  (* ---------- client programs: the client holds a list of objects ---------- *)
  Inductive mp_op : Type :=
  | PMalloc
  | PFree (k : N)           (* give back the k-th object the client holds (if it holds that many) *)
  | PFreeNull.

  Inductive mp_out : Type :=
  | POut (p : N) (registered : bool)     (* malloc result (0 = NULL), atexit() called *)
  | PUnit.

  Record mp_world : Type := { w_pool : mpool; w_held : list N; w_live : list N }.

  Fixpoint remove_nth {A} (l : list A) (n : nat) : list A :=
    match l, n with
    | [], _ => []
    | _ :: r, O => r
    | x :: r, S k => x :: remove_nth r k
    end.

  Definition remove_ids (live : list N) (ids : list N) : list N :=
    filter (fun x => negb (existsb (N.eqb x) ids)) live.

  Definition mp_step (op : mp_op) (w : mp_world) (o : oracle)
    : res (mp_out * mp_world * oracle * list aev) :=
    match op with
    | PMalloc =>
      let* (p, reg, m1, o1, ev) := mp_malloc (w_pool w) o in
      let fresh := negb (mp_nextid m1 =? mp_nextid (w_pool w)) in
      Ok (POut p reg,
          {| w_pool := m1;
             w_held := if p =? 0 then w_held w else w_held w ++ [p];
             w_live := if fresh then p :: w_live w else w_live w |}, o1, ev)
    | PFree k =>
      match nth_error (w_held w) (N.to_nat k) with
      | None => Ok (PUnit, w, o, [])
      | Some p =>
        let* (m1, o1, ev, freed) := mp_free (w_pool w) p o in
        Ok (PUnit, {| w_pool := m1; w_held := remove_nth (w_held w) (N.to_nat k);
                      w_live := remove_ids (w_live w) freed |}, o1, ev)
      end
    | PFreeNull =>
      let* (m1, o1, ev, freed) := mp_free (w_pool w) 0 o in
      Ok (PUnit, {| w_pool := m1; w_held := w_held w; w_live := remove_ids (w_live w) freed |}, o1, ev)
    end.

  Fixpoint mp_run (ops : list mp_op) (w : mp_world) (o : oracle)
    : res (list (mp_out * mp_world * list aev)) :=
    match ops with
    | [] => Ok []
    | op :: r =>
      let* (x, w1, o1, ev) := mp_step op w o in
      let* t := mp_run r w1 o1 in
      Ok ((x, w1, ev) :: t)
    end.

  Definition mp_world0 (size : N) : mp_world :=
    {| w_pool := mp_new size; w_held := []; w_live := [] |}.

  (* process exit: the pool's handler runs iff it was registered with atexit() (M->state != 0);
     (world afterwards, events) *)
  Definition mp_exit (w : mp_world) : mp_world * list aev :=
    if mp_state (w_pool w) =? 0 then (w, [])
    else
      let '(m1, ev, freed) := mp_atexit (w_pool w) in
      ({| w_pool := m1; w_held := w_held w; w_live := remove_ids (w_live w) freed |}, ev).
End Model.

(* ---------------- spec ---------------- *)
(* [outs] has one entry per operation (the pointer returned by malloc, anything for the others):
   the client is never handed an object it still holds. *)
Fixpoint mp_spec_ok (ops : list mp_op) (outs : list N) (held : list N) : bool :=
  match ops, outs with
  | [], _ => true
  | _, [] => false
  | PMalloc :: r, p :: outs' =>
    if p =? 0 then mp_spec_ok r outs' held
    else negb (existsb (N.eqb p) held) && mp_spec_ok r outs' (held ++ [p])
  | PFree k :: r, _ :: outs' => mp_spec_ok r outs' (remove_nth held (N.to_nat k))
  | PFreeNull :: r, _ :: outs' => mp_spec_ok r outs' held
  end.
