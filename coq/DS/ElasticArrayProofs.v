(* Proofs about the elastic-array model (C12 M1, M2; C14 for the array). *)
From Coq Require Import NArith ZArith List Bool Lia Arith Permutation.
From LCP Require Import Base.CheckedMem.
From LCP Require Import DS.AllocOracle.
From LCP Require Import DS.ElasticArray.
Import ListNotations.
Local Open Scope N_scope.
Local Open Scope res_scope.

Ltac Zify.zify_post_hook ::= Z.to_euclidean_division_equations.

Lemma W_val : W = 18446744073709551616.
Proof. reflexivity. Qed.
Lemma SIZE_MAX_val : SIZE_MAX = 18446744073709551615.
Proof. reflexivity. Qed.
Global Opaque W SIZE_MAX.

(* ------------------------------------------------------------------ *)
(* checked memory *)

Lemma mem_read_ok buf off len :
  off + len <= N.of_nat (length buf) ->
  mem_read buf off len = Ok (firstn (N.to_nat len) (skipn (N.to_nat off) buf)).
Proof. intros H. unfold mem_read. apply N.leb_le in H. rewrite H. reflexivity. Qed.

Lemma mem_read_inv buf off len r :
  mem_read buf off len = Ok r ->
  off + len <= N.of_nat (length buf) /\ r = firstn (N.to_nat len) (skipn (N.to_nat off) buf).
Proof.
  unfold mem_read. destruct (off + len <=? N.of_nat (length buf)) eqn:E; [|discriminate].
  intros H. inversion H. apply N.leb_le in E. auto.
Qed.

Lemma mem_write_ok buf off data :
  off + N.of_nat (length data) <= N.of_nat (length buf) ->
  mem_write buf off data =
  Ok (firstn (N.to_nat off) buf ++ data ++ skipn (N.to_nat off + length data) buf).
Proof. intros H. unfold mem_write. apply N.leb_le in H. rewrite H. reflexivity. Qed.

Lemma mem_write_inv buf off data b :
  mem_write buf off data = Ok b ->
  off + N.of_nat (length data) <= N.of_nat (length buf) /\
  b = firstn (N.to_nat off) buf ++ data ++ skipn (N.to_nat off + length data) buf.
Proof.
  unfold mem_write. destruct (_ <=? _) eqn:E; [|discriminate].
  intros H. inversion H. apply N.leb_le in E. auto.
Qed.

Lemma write_length (buf data : list N) (off : nat) :
  (off + length data <= length buf)%nat ->
  length (firstn off buf ++ data ++ skipn (off + length data) buf) = length buf.
Proof. intros H. rewrite !app_length, firstn_length, skipn_length. lia. Qed.

Lemma realloc_buf_length buf n : length (realloc_buf buf n) = N.to_nat n.
Proof. unfold realloc_buf. rewrite app_length, firstn_length, repeat_length. lia. Qed.

Lemma firstn_realloc_buf buf n k :
  (k <= N.to_nat n)%nat -> (k <= length buf)%nat ->
  firstn k (realloc_buf buf n) = firstn k buf.
Proof.
  intros H1 H2. unfold realloc_buf.
  rewrite firstn_app, firstn_firstn, firstn_length.
  replace (k - Nat.min (N.to_nat n) (length buf))%nat with 0%nat by lia.
  rewrite firstn_O, app_nil_r. f_equal. lia.
Qed.

(* ------------------------------------------------------------------ *)
(* oracle *)
Lemma next_cases o : exists b o', next o = (b, o').
Proof. destruct (next o) as [b o']. eauto. Qed.

(* ------------------------------------------------------------------ *)
(* invariant and abstraction *)

Definition ea_inv (e : ea) : Prop :=
  ea_size e <= ea_alloc e /\ N.of_nat (length (ea_buf e)) = ea_alloc e /\ ea_alloc e < W.

(* the ideal byte sequence an array stands for *)
Definition ea_abs (e : ea) : list N := firstn (N.to_nat (ea_size e)) (ea_buf e).

Lemma ea_abs_length e : ea_inv e -> N.of_nat (length (ea_abs e)) = ea_size e.
Proof. intros (H1 & H2 & _). unfold ea_abs. rewrite firstn_length. lia. Qed.

Definition ea0 : ea := {| ea_size := 0; ea_alloc := 0; ea_buf := [] |}.
Lemma ea0_inv : ea_inv ea0.
Proof. unfold ea_inv, ea0; cbn. rewrite W_val. lia. Qed.

(* live blocks an array owns (ghost heap, sizes) *)
Definition ea_owned (ssz : N) (e : ea) : list N :=
  match ea_blk e with None => [ssz] | Some a => [a; ssz] end.
Definition ea_owned_buf (e : ea) : list N :=
  match ea_blk e with None => [] | Some a => [a] end.

(* ------------------------------------------------------------------ *)
(* resize() with the constants 2, 4, 2 *)

Lemma ea_blk_spec e : ea_blk e = if ea_alloc e =? 0 then None else Some (ea_alloc e).
Proof. reflexivity. Qed.

Lemma heap_free_buf e rest :
  heap_run (ea_owned_buf e ++ rest) (ea_free_buf_ev e) = Some rest.
Proof.
  unfold ea_owned_buf, ea_free_buf_ev. destruct (ea_blk e) as [a|]; cbn; [|reflexivity].
  rewrite N.eqb_refl. reflexivity.
Qed.

Lemma heap_realloc e n rest b :
  n <> 0 ->
  heap_run (ea_owned_buf e ++ rest) [ARealloc (ea_blk e) n b] =
  Some (if b then n :: rest else ea_owned_buf e ++ rest).
Proof.
  intros Hn. unfold ea_owned_buf. destruct (ea_blk e) as [a|]; destruct b; cbn;
    rewrite ?N.eqb_refl; reflexivity.
Qed.

Lemma resize_spec e nsize o :
  ea_inv e -> nsize < W ->
  exists ok e' o' ev,
    resize_m 2 4 2 e nsize o = Ok (ok, e', o', ev) /\
    (ok = true ->
       ea_inv e' /\ ea_size e' = nsize /\
       (forall k, (k <= N.to_nat (ea_size e))%nat -> (k <= N.to_nat nsize)%nat ->
                  firstn k (ea_buf e') = firstn k (ea_buf e)) /\
       ea_alloc e' / 4 <= nsize /\
       (ea_alloc e < ea_alloc e' -> ea_alloc e' <= 2 * nsize) /\
       refused ev = false) /\
    (ok = false -> e' = e /\ refused ev = true) /\
    (forall rest, heap_run (ea_owned_buf e ++ rest) ev = Some (ea_owned_buf e' ++ rest)).
Proof.
  intros (Hsz & Hlen & Hal) Hn. unfold resize_m. rewrite W_val in *.
  set (nalloc := if ea_alloc e <? nsize then _ else _).
  assert (Hna : nalloc < 18446744073709551616 /\ nsize <= nalloc /\ nalloc / 4 <= nsize /\
                (nalloc = 0 -> nsize = 0) /\ (ea_alloc e < nalloc -> nalloc <= 2 * nsize)).
  { subst nalloc.
    assert (M1 : (ea_alloc e * 2) mod 18446744073709551616 <= ea_alloc e * 2) by (apply N.mod_le; lia).
    assert (M3 : (ea_alloc e * 2) mod 18446744073709551616 < 18446744073709551616) by (apply N.mod_lt; lia).
    assert (M4 : (nsize * 2) mod 18446744073709551616 < 18446744073709551616) by (apply N.mod_lt; lia).
    assert (M2 : (nsize * 2) mod 18446744073709551616 <= nsize * 2) by (apply N.mod_le; lia).
    destruct (N.ltb_spec (ea_alloc e) nsize) as [H1|H1].
    - destruct (N.ltb_spec ((ea_alloc e * 2) mod 18446744073709551616) nsize) as [H2|H2]; lia.
    - destruct (N.ltb_spec nsize (ea_alloc e / 4)) as [H2|H2]; lia. }
  destruct Hna as (Hna1 & Hna2 & Hna3 & Hna4 & Hna5).
  destruct (N.eqb_spec nalloc 0) as [Hz|Hz].
  - specialize (Hna4 Hz). subst nsize. cbn [N.eqb].
    eexists _, _, _, _. split; [reflexivity|]. split; [|split].
    + intros _. unfold ea_inv; cbn [ea_size ea_alloc ea_buf length]. rewrite W_val. repeat split; try lia.
      * intros k Hk1 Hk2. replace k with 0%nat by lia. reflexivity.
      * unfold ea_free_buf_ev. destruct (ea_blk e); reflexivity.
    + discriminate.
    + intros rest. rewrite heap_free_buf. reflexivity.
  - destruct (N.eqb_spec nalloc (ea_alloc e)) as [He|He]; cbn [negb].
    + eexists _, _, _, _. split; [reflexivity|]. split; [|split].
      * intros _. unfold ea_inv; cbn [ea_size ea_alloc ea_buf length]. rewrite W_val. repeat split; try lia.
      * discriminate.
      * intros rest. cbn. unfold ea_owned_buf, ea_blk. cbn. reflexivity.
    + destruct (next o) as [b o'] eqn:Eo. destruct b.
      * eexists _, _, _, _. split; [reflexivity|]. split; [|split].
        -- intros _. unfold ea_inv; cbn [ea_size ea_alloc ea_buf length]. rewrite realloc_buf_length, W_val. repeat split; try lia.
           intros k Hk1 Hk2. apply firstn_realloc_buf; lia.
        -- discriminate.
        -- intros rest. rewrite heap_realloc by exact Hz.
           unfold ea_owned_buf, ea_blk. cbn [ea_alloc]. destruct (N.eqb_spec nalloc 0); [contradiction|].
           reflexivity.
      * eexists _, _, _, _. split; [reflexivity|]. split; [|split].
        -- discriminate.
        -- intros _. split; reflexivity.
        -- intros rest. rewrite heap_realloc by exact Hz. reflexivity.
Qed.
