(* Proofs about the elastic-array model (C12 M1, M2; C14 for the array). *)
From Coq Require Import NArith ZArith List Bool Lia Arith Permutation.
From LCP Require Import Base.CheckedMem.
From LCP Require Import DS.AllocOracle.
From LCP Require Import DS.ElasticArray.
Import ListNotations.
Local Open Scope N_scope.
Local Open Scope res_scope.

Ltac Zify.zify_post_hook ::= Z.to_euclidean_division_equations.

Lemma W_val : W = 18446744073709551616.
Proof. reflexivity. Qed.
Lemma SIZE_MAX_val : SIZE_MAX = 18446744073709551615.
Proof. reflexivity. Qed.
Global Opaque W SIZE_MAX.

(* ------------------------------------------------------------------ *)
(* checked memory *)

Lemma mem_read_ok buf off len :
  off + len <= N.of_nat (length buf) ->
  mem_read buf off len = Ok (firstn (N.to_nat len) (skipn (N.to_nat off) buf)).
Proof. intros H. unfold mem_read. apply N.leb_le in H. rewrite H. reflexivity. Qed.

Lemma mem_read_inv buf off len r :
  mem_read buf off len = Ok r ->
  off + len <= N.of_nat (length buf) /\ r = firstn (N.to_nat len) (skipn (N.to_nat off) buf).
Proof.
  unfold mem_read. destruct (off + len <=? N.of_nat (length buf)) eqn:E; [|discriminate].
  intros H. inversion H. apply N.leb_le in E. auto.
Qed.

Lemma mem_write_ok buf off data :
  off + N.of_nat (length data) <= N.of_nat (length buf) ->
  mem_write buf off data =
  Ok (firstn (N.to_nat off) buf ++ data ++ skipn (N.to_nat off + length data) buf).
Proof. intros H. unfold mem_write. apply N.leb_le in H. rewrite H. reflexivity. Qed.

Lemma mem_write_inv buf off data b :
  mem_write buf off data = Ok b ->
  off + N.of_nat (length data) <= N.of_nat (length buf) /\
  b = firstn (N.to_nat off) buf ++ data ++ skipn (N.to_nat off + length data) buf.
Proof.
  unfold mem_write. destruct (_ <=? _) eqn:E; [|discriminate].
  intros H. inversion H. apply N.leb_le in E. auto.
Qed.

Lemma write_length (buf data : list N) (off : nat) :
  (off + length data <= length buf)%nat ->
  length (firstn off buf ++ data ++ skipn (off + length data) buf) = length buf.
Proof. intros H. rewrite !app_length, firstn_length, skipn_length. lia. Qed.

Lemma realloc_buf_length buf n : length (realloc_buf buf n) = N.to_nat n.
Proof. unfold realloc_buf. rewrite app_length, firstn_length, repeat_length. lia. Qed.

Lemma firstn_realloc_buf buf n k :
  (k <= N.to_nat n)%nat -> (k <= length buf)%nat ->
  firstn k (realloc_buf buf n) = firstn k buf.
Proof.
  intros H1 H2. unfold realloc_buf.
  rewrite firstn_app, firstn_firstn, firstn_length.
  replace (k - Nat.min (N.to_nat n) (length buf))%nat with 0%nat by lia.
  rewrite firstn_O, app_nil_r. f_equal. lia.
Qed.

(* ------------------------------------------------------------------ *)
(* oracle *)
Lemma next_cases o : exists b o', next o = (b, o').
Proof. destruct (next o) as [b o']. eauto. Qed.

(* ------------------------------------------------------------------ *)
(* invariant and abstraction *)

Definition ea_inv (e : ea) : Prop :=
  ea_size e <= ea_alloc e /\ N.of_nat (length (ea_buf e)) = ea_alloc e /\ ea_alloc e < W.

(* the ideal byte sequence an array stands for *)
Definition ea_abs (e : ea) : list N := firstn (N.to_nat (ea_size e)) (ea_buf e).

Lemma ea_abs_length e : ea_inv e -> N.of_nat (length (ea_abs e)) = ea_size e.
Proof. intros (H1 & H2 & _). unfold ea_abs. rewrite firstn_length. lia. Qed.

Definition ea0 : ea := {| ea_size := 0; ea_alloc := 0; ea_buf := [] |}.
Lemma ea0_inv : ea_inv ea0.
Proof. unfold ea_inv, ea0; cbn. rewrite W_val. lia. Qed.

(* live blocks an array owns (ghost heap, sizes) *)
Definition ea_owned (ssz : N) (e : ea) : list N :=
  match ea_blk e with None => [ssz] | Some a => [a; ssz] end.
Definition ea_owned_buf (e : ea) : list N :=
  match ea_blk e with None => [] | Some a => [a] end.

(* ------------------------------------------------------------------ *)
(* resize() with the constants 2, 4, 2 *)

Lemma ea_blk_spec e : ea_blk e = if ea_alloc e =? 0 then None else Some (ea_alloc e).
Proof. reflexivity. Qed.

Lemma heap_free_buf e rest :
  heap_run (ea_owned_buf e ++ rest) (ea_free_buf_ev e) = Some rest.
Proof.
  unfold ea_owned_buf, ea_free_buf_ev. destruct (ea_blk e) as [a|]; cbn; [|reflexivity].
  rewrite N.eqb_refl. reflexivity.
Qed.

Lemma heap_realloc e n rest b :
  n <> 0 ->
  heap_run (ea_owned_buf e ++ rest) [ARealloc (ea_blk e) n b] =
  Some (if b then n :: rest else ea_owned_buf e ++ rest).
Proof.
  intros Hn. unfold ea_owned_buf. destruct (ea_blk e) as [a|]; destruct b; cbn;
    rewrite ?N.eqb_refl; reflexivity.
Qed.

Lemma resize_spec e nsize o :
  ea_inv e -> nsize < W ->
  exists ok e' o' ev,
    resize_m 2 4 2 e nsize o = Ok (ok, e', o', ev) /\
    (ok = true ->
       ea_inv e' /\ ea_size e' = nsize /\
       (forall k, (k <= N.to_nat (ea_size e))%nat -> (k <= N.to_nat nsize)%nat ->
                  firstn k (ea_buf e') = firstn k (ea_buf e)) /\
       ea_alloc e' / 4 <= nsize /\
       (ea_alloc e < ea_alloc e' -> ea_alloc e' <= 2 * nsize) /\
       refused ev = false) /\
    (ok = false -> e' = e /\ refused ev = true) /\
    (forall rest, heap_run (ea_owned_buf e ++ rest) ev = Some (ea_owned_buf e' ++ rest)).
Proof.
  intros (Hsz & Hlen & Hal) Hn. unfold resize_m. rewrite W_val in *.
  set (nalloc := if ea_alloc e <? nsize then _ else _).
  assert (Hna : nalloc < 18446744073709551616 /\ nsize <= nalloc /\ nalloc / 4 <= nsize /\
                (nalloc = 0 -> nsize = 0) /\ (ea_alloc e < nalloc -> nalloc <= 2 * nsize)).
  { subst nalloc.
    assert (M1 : (ea_alloc e * 2) mod 18446744073709551616 <= ea_alloc e * 2) by (apply N.mod_le; lia).
    assert (M3 : (ea_alloc e * 2) mod 18446744073709551616 < 18446744073709551616) by (apply N.mod_lt; lia).
    assert (M4 : (nsize * 2) mod 18446744073709551616 < 18446744073709551616) by (apply N.mod_lt; lia).
    assert (M2 : (nsize * 2) mod 18446744073709551616 <= nsize * 2) by (apply N.mod_le; lia).
    destruct (N.ltb_spec (ea_alloc e) nsize) as [H1|H1].
    - destruct (N.ltb_spec ((ea_alloc e * 2) mod 18446744073709551616) nsize) as [H2|H2]; lia.
    - destruct (N.ltb_spec nsize (ea_alloc e / 4)) as [H2|H2]; lia. }
  destruct Hna as (Hna1 & Hna2 & Hna3 & Hna4 & Hna5).
  destruct (N.eqb_spec nalloc 0) as [Hz|Hz].
  - specialize (Hna4 Hz). subst nsize. cbn [N.eqb].
    eexists _, _, _, _. split; [reflexivity|]. split; [|split].
    + intros _. unfold ea_inv; cbn [ea_size ea_alloc ea_buf length]. rewrite W_val. repeat split; try lia.
      * intros k Hk1 Hk2. replace k with 0%nat by lia. reflexivity.
      * unfold ea_free_buf_ev. destruct (ea_blk e); reflexivity.
    + discriminate.
    + intros rest. rewrite heap_free_buf. reflexivity.
  - destruct (N.eqb_spec nalloc (ea_alloc e)) as [He|He]; cbn [negb].
    + eexists _, _, _, _. split; [reflexivity|]. split; [|split].
      * intros _. unfold ea_inv; cbn [ea_size ea_alloc ea_buf length]. rewrite W_val. repeat split; try lia.
      * discriminate.
      * intros rest. cbn. unfold ea_owned_buf, ea_blk. cbn. reflexivity.
    + destruct (next o) as [b o'] eqn:Eo. destruct b.
      * eexists _, _, _, _. split; [reflexivity|]. split; [|split].
        -- intros _. unfold ea_inv; cbn [ea_size ea_alloc ea_buf length]. rewrite realloc_buf_length, W_val. repeat split; try lia.
           intros k Hk1 Hk2. apply firstn_realloc_buf; lia.
        -- discriminate.
        -- intros rest. rewrite heap_realloc by exact Hz.
           unfold ea_owned_buf, ea_blk. cbn [ea_alloc]. destruct (N.eqb_spec nalloc 0); [contradiction|].
           reflexivity.
      * eexists _, _, _, _. split; [reflexivity|]. split; [|split].
        -- discriminate.
        -- intros _. split; reflexivity.
        -- intros rest. rewrite heap_realloc by exact Hz. reflexivity.
Qed.
(* ------------------------------------------------------------------ *)
(* the overflow tests *)

Lemma representable_spec n : representable n = true <-> n < W.
Proof. unfold representable. rewrite W_val. change (2 ^ 64) with 18446744073709551616. apply N.ltb_lt. Qed.

Lemma overflow_test nrec reclen :
  0 < reclen -> (SIZE_MAX / reclen <? nrec) = negb (representable (nrec * reclen)).
Proof.
  intros Hr. unfold representable. change (2 ^ 64) with 18446744073709551616. rewrite SIZE_MAX_val.
  destruct (N.ltb_spec (nrec * reclen) 18446744073709551616) as [H|H]; cbn [negb].
  - apply N.ltb_ge. apply N.div_le_lower_bound; lia.
  - apply N.ltb_lt. apply N.div_lt_upper_bound; lia.
Qed.

(* ------------------------------------------------------------------ *)
(* elasticarray_resize *)

Definition resize_post (e : ea) (nsize : N) (ok : bool) (e' : ea) (ev : list aev) : Prop :=
  (ok = true ->
     ea_inv e' /\ ea_size e' = nsize /\
     (forall k, (k <= N.to_nat (ea_size e))%nat -> (k <= N.to_nat nsize)%nat ->
                firstn k (ea_buf e') = firstn k (ea_buf e)) /\
     ea_alloc e' / 4 <= nsize /\
     (ea_alloc e < ea_alloc e' -> ea_alloc e' <= 2 * nsize) /\
     refused ev = false) /\
  (ok = false -> e' = e /\ refused ev = true) /\
  (forall rest, heap_run (ea_owned_buf e ++ rest) ev = Some (ea_owned_buf e' ++ rest)).

Lemma resize_spec' e nsize o :
  ea_inv e -> nsize < W ->
  exists ok e' o' ev, resize_m 2 4 2 e nsize o = Ok (ok, e', o', ev) /\ resize_post e nsize ok e' ev.
Proof. intros H1 H2. destruct (resize_spec e nsize o H1 H2) as (ok & e' & o' & ev & H & P). eauto 10. Qed.

Lemma ea_resize_spec e nrec reclen o :
  ea_inv e -> 0 < reclen ->
  exists ok e' o' ev,
    ea_resize 2 4 2 e nrec reclen o = Ok (ok, e', o', ev) /\
    ((representable (nrec * reclen) = false /\ ok = false /\ e' = e /\ ev = [] /\ o' = o) \/
     (representable (nrec * reclen) = true /\ resize_post e (nrec * reclen) ok e' ev)).
Proof.
  intros Hi Hr. unfold ea_resize.
  destruct (N.eqb_spec reclen 0) as [->|_]; [lia|].
  rewrite overflow_test by exact Hr.
  destruct (representable (nrec * reclen)) eqn:E; cbn [negb].
  - apply representable_spec in E.
    rewrite (N.mod_small _ _ E).
    destruct (resize_spec' e (nrec * reclen) o Hi E) as (ok & e' & o' & ev & H & P).
    exists ok, e', o', ev. split; [exact H|]. right. split; [reflexivity|exact P].
  - exists false, e, o, []. split; [reflexivity|]. left. repeat split; reflexivity.
Qed.
(* ------------------------------------------------------------------ *)
(* list helpers *)

Lemma firstn_two {A} (a b c : list A) n :
  n = (length a + length b)%nat -> firstn n (a ++ b ++ c) = a ++ b.
Proof.
  intros ->. rewrite app_assoc, firstn_app, app_length.
  rewrite firstn_all2 by (rewrite app_length; lia).
  replace (length a + length b - (length a + length b))%nat with 0%nat by lia.
  rewrite firstn_O, app_nil_r. reflexivity.
Qed.

Lemma firstn_firstn_le {A} (l : list A) i j : (i <= j)%nat -> firstn i (firstn j l) = firstn i l.
Proof. intros H. rewrite firstn_firstn. f_equal. lia. Qed.

(* ------------------------------------------------------------------ *)
(* the client filling new records *)

Lemma ea_get_small e pos reclen : pos * reclen < W -> ea_get e pos reclen = pos * reclen.
Proof. intros H. unfold ea_get. apply N.mod_small. exact H. Qed.

Lemma ea_fill_spec e from fill :
  ea_inv e -> from <= ea_size e ->
  exists e', ea_fill_from e from fill = Ok e' /\ ea_inv e' /\ ea_size e' = ea_size e /\
             ea_alloc e' = ea_alloc e /\
             ea_abs e' = firstn (N.to_nat from) (ea_buf e) ++ repeat fill (N.to_nat (ea_size e - from)).
Proof.
  intros (Hs & Hl & Ha) Hf. unfold ea_fill_from.
  destruct (N.ltb_spec from (ea_size e)) as [H|H].
  - unfold ea_poke. rewrite ea_get_small by lia. rewrite N.mul_1_r.
    rewrite mem_write_ok by (rewrite repeat_length; lia).
    cbn [bind]. eexists. split; [reflexivity|]. unfold ea_inv, ea_abs; cbn [ea_size ea_alloc ea_buf].
    rewrite write_length by (rewrite repeat_length; lia).
    repeat split; try assumption.
    apply firstn_two. rewrite firstn_length, repeat_length. lia.
  - exists e. split; [reflexivity|]. repeat split; try assumption.
    unfold ea_abs. replace (ea_size e - from) with 0 by lia. cbn [N.to_nat repeat].
    rewrite app_nil_r. f_equal. lia.
Qed.

(* ------------------------------------------------------------------ *)
(* elasticarray_append *)

Definition fits (size nrec reclen : N) : bool :=
  representable (nrec * reclen) && representable (size + nrec * reclen).

Lemma ea_append_spec e data nrec reclen o :
  ea_inv e -> 0 < reclen ->
  (nrec * reclen < W -> nrec * reclen <= N.of_nat (length data)) ->
  exists ok e' o' ev,
    ea_append 2 4 2 e data nrec reclen o = Ok (ok, e', o', ev) /\
    ((fits (ea_size e) nrec reclen = false /\ ok = false /\ e' = e /\ ev = [] /\ o' = o) \/
     (fits (ea_size e) nrec reclen = true /\ ok = false /\ e' = e /\ refused ev = true /\
      (forall rest, heap_run (ea_owned_buf e ++ rest) ev = Some (ea_owned_buf e' ++ rest))) \/
     (fits (ea_size e) nrec reclen = true /\ ok = true /\ refused ev = false /\ ea_inv e' /\
      ea_abs e' = ea_abs e ++ firstn (N.to_nat (nrec * reclen)) data /\
      ea_size e' = ea_size e + nrec * reclen /\
      ea_alloc e' / 4 <= ea_size e' /\
      (ea_alloc e < ea_alloc e' -> ea_alloc e' <= 2 * ea_size e') /\
      (forall rest, heap_run (ea_owned_buf e ++ rest) ev = Some (ea_owned_buf e' ++ rest)))).
Proof.
  intros Hi Hr Hd. unfold ea_append, fits.
  destruct (N.eqb_spec reclen 0) as [->|_]; [lia|].
  rewrite overflow_test by exact Hr.
  destruct (representable (nrec * reclen)) eqn:E1; cbn [negb orb andb].
  2:{ exists false, e, o, []. split; [reflexivity|]. left. repeat split; reflexivity. }
  apply representable_spec in E1. rewrite (N.mod_small _ _ E1).
  assert (E2 : (SIZE_MAX - ea_size e <? nrec * reclen) = negb (representable (ea_size e + nrec * reclen))).
  { unfold representable. change (2 ^ 64) with 18446744073709551616. rewrite SIZE_MAX_val.
    destruct Hi as (Hs & Hl & Ha). rewrite W_val in *.
    destruct (N.ltb_spec (ea_size e + nrec * reclen) 18446744073709551616); cbn [negb];
      [apply N.ltb_ge | apply N.ltb_lt]; lia. }
  rewrite E2.
  destruct (representable (ea_size e + nrec * reclen)) eqn:E3; cbn [negb].
  2:{ exists false, e, o, []. split; [reflexivity|]. left. repeat split; reflexivity. }
  apply representable_spec in E3. rewrite (N.mod_small _ _ E3).
  destruct (resize_spec' e (ea_size e + nrec * reclen) o Hi E3) as (ok & e1 & o1 & ev & H & P1 & P2 & P3).
  rewrite H. cbn [bind].
  destruct ok; cbn [negb].
  - destruct (P1 eq_refl) as (Hi1 & Hs1 & Hp & Hc & Hg & Hrf). clear P2.
    destruct (N.ltb_spec 0 nrec) as [Hn|Hn].
    + destruct (N.eqb_spec (ea_size e + nrec * reclen) 0) as [Hz|_]; [nia|].
      specialize (Hd E1).
      rewrite mem_read_ok by lia. cbn [bind N.to_nat skipn].
      destruct Hi as (Hs & Hl & Ha). destruct Hi1 as (Hs1' & Hl1 & Ha1).
      assert (Hlen : length (firstn (N.to_nat (nrec * reclen)) data) = N.to_nat (nrec * reclen))
        by (rewrite firstn_length; lia).
      rewrite mem_write_ok by (rewrite Hlen; lia). cbn [bind].
      eexists true, _, o1, ev. split; [reflexivity|]. right. right.
      unfold ea_inv, ea_abs; cbn [ea_size ea_alloc ea_buf].
      rewrite write_length by (rewrite Hlen; lia).
      repeat split; try assumption; try lia.
      rewrite Hs1. rewrite firstn_two by (rewrite firstn_length, Hlen; lia).
      f_equal. apply Hp; lia.
    + assert (nrec = 0) by lia. subst nrec.
      exists true, e1, o1, ev. split; [reflexivity|]. right. right.
      rewrite N.mul_0_l in *. rewrite N.add_0_r in *.
      destruct Hi1 as (Hs1' & Hl1 & Ha1).
      repeat split; try assumption; try lia.
      cbn [N.to_nat firstn]. rewrite app_nil_r. unfold ea_abs. rewrite Hs1. apply Hp; lia.
  - destruct (P2 eq_refl) as (-> & Hrf).
    exists false, e, o1, ev. split; [reflexivity|]. right. left. repeat split; try assumption.
Qed.
(* ------------------------------------------------------------------ *)
(* elasticarray_shrink: cannot fail *)

Lemma ea_shrink_spec e nrec reclen o :
  ea_inv e -> 0 < reclen ->
  exists e' o' ev,
    ea_shrink 2 4 2 e nrec reclen o = Ok (e', o', ev) /\ ea_inv e' /\
    ea_size e' = ea_size e - nrec * reclen /\
    ea_abs e' = firstn (N.to_nat (ea_size e - nrec * reclen)) (ea_abs e) /\
    (refused ev = false -> ea_alloc e' / 4 <= ea_size e') /\
    (forall rest, heap_run (ea_owned_buf e ++ rest) ev = Some (ea_owned_buf e' ++ rest)).
Proof.
  intros Hi Hr. unfold ea_shrink.
  destruct (N.eqb_spec reclen 0) as [->|_]; [lia|].
  rewrite overflow_test by exact Hr.
  match goal with |- context [resize_m _ _ _ _ ?n _] => set (nsize := n) end.
  assert (Hn : nsize = ea_size e - nrec * reclen).
  { subst nsize. destruct Hi as (Hs & Hl & Ha).
    destruct (representable (nrec * reclen)) eqn:E1; cbn [negb orb].
    - apply representable_spec in E1. rewrite (N.mod_small _ _ E1).
      destruct (N.ltb_spec (ea_size e) (nrec * reclen)); lia.
    - assert (~ nrec * reclen < W) by (rewrite <- representable_spec; congruence). lia. }
  assert (HnW : nsize < W) by (destruct Hi as (Hs & Hl & Ha); lia).
  destruct (resize_spec' e nsize o Hi HnW) as (ok & e1 & o1 & ev & H & P1 & P2 & P3).
  rewrite H. cbn [bind]. destruct ok.
  - destruct (P1 eq_refl) as (Hi1 & Hs1 & Hp & Hc & Hg & Hrf).
    exists e1, o1, ev. split; [reflexivity|]. rewrite <- Hn.
    destruct Hi as (Hs & Hl & Ha). destruct Hi1 as (Hs1' & Hl1 & Ha1).
    repeat split; try assumption; try lia.
    unfold ea_abs. rewrite Hs1. rewrite firstn_firstn_le by lia. apply Hp; lia.
  - destruct (P2 eq_refl) as (-> & Hrf).
    eexists _, o1, ev. split; [reflexivity|]. rewrite <- Hn.
    destruct Hi as (Hs & Hl & Ha).
    unfold ea_inv, ea_abs; cbn [ea_size ea_alloc ea_buf].
    repeat split; try assumption; try lia.
    + rewrite firstn_firstn_le by lia. reflexivity.
    + congruence.
Qed.

(* ------------------------------------------------------------------ *)
(* elasticarray_truncate *)

Lemma ea_truncate_spec e o :
  ea_inv e ->
  exists ok e' o' ev,
    ea_truncate e o = Ok (ok, e', o', ev) /\
    (ok = true -> refused ev = false /\ ea_inv e' /\ ea_size e' = ea_size e /\
                  ea_alloc e' = ea_size e /\ ea_buf e' = ea_abs e) /\
    (ok = false -> e' = e /\ refused ev = true) /\
    (forall rest, heap_run (ea_owned_buf e ++ rest) ev = Some (ea_owned_buf e' ++ rest)).
Proof.
  intros (Hs & Hl & Ha). unfold ea_truncate.
  destruct (N.eqb_spec (ea_size e) 0) as [Hz|Hz].
  - eexists true, _, o, _. split; [reflexivity|]. split; [|split].
    + intros _. unfold ea_inv, ea_abs; cbn [ea_size ea_alloc ea_buf length]. rewrite Hz.
      repeat split; try lia; try (rewrite W_val; lia).
      unfold ea_free_buf_ev. destruct (ea_blk e); reflexivity.
    + discriminate.
    + intros rest. rewrite heap_free_buf. reflexivity.
  - destruct (N.ltb_spec (ea_size e) (ea_alloc e)) as [Hlt|Hge].
    + destruct (next o) as [b o'] eqn:Eo. destruct b.
      * eexists true, _, o', _. split; [reflexivity|]. split; [|split].
        -- intros _. unfold ea_inv, ea_abs; cbn [ea_size ea_alloc ea_buf].
           rewrite realloc_buf_length. repeat split; try lia.
           unfold realloc_buf. replace (N.to_nat (ea_size e) - length (ea_buf e))%nat with 0%nat by lia.
           cbn [repeat]. apply app_nil_r.
        -- discriminate.
        -- intros rest. rewrite heap_realloc by exact Hz.
           unfold ea_owned_buf, ea_blk. cbn [ea_alloc].
           destruct (N.eqb_spec (ea_size e) 0); [contradiction|reflexivity].
      * eexists false, e, o', _. split; [reflexivity|]. split; [|split].
        -- discriminate.
        -- intros _. split; reflexivity.
        -- intros rest. rewrite heap_realloc by exact Hz. reflexivity.
    + eexists true, e, o, []. split; [reflexivity|]. split; [|split].
      * intros _. unfold ea_inv, ea_abs. repeat split; try lia.
        rewrite firstn_all2 by lia. reflexivity.
      * discriminate.
      * intros rest. reflexivity.
Qed.

(* ------------------------------------------------------------------ *)
(* getsize, get, export, exportdup *)

Lemma ea_getsize_ok e reclen : 0 < reclen -> ea_getsize e reclen = Ok (ea_size e / reclen).
Proof. intros H. unfold ea_getsize. destruct (N.eqb_spec reclen 0); [lia|reflexivity]. Qed.

(* a record that getsize says exists lies inside the storage, and is the ideal record *)
Lemma ea_get_record e pos reclen :
  ea_inv e -> 0 < reclen -> pos < ea_size e / reclen ->
  ea_get e pos reclen + reclen <= ea_alloc e /\
  mem_read (ea_buf e) (ea_get e pos reclen) reclen =
  Ok (firstn (N.to_nat reclen) (skipn (N.to_nat (pos * reclen)) (ea_abs e))).
Proof.
  intros (Hs & Hl & Ha) Hr Hp.
  assert (Hb : (pos + 1) * reclen <= ea_size e).
  { assert (pos + 1 <= ea_size e / reclen) by lia.
    transitivity (ea_size e / reclen * reclen); [nia|]. rewrite N.mul_comm. apply N.mul_div_le. lia. }
  rewrite ea_get_small by lia. split; [lia|].
  rewrite mem_read_ok by lia. f_equal. unfold ea_abs.
  rewrite skipn_firstn_comm. rewrite firstn_firstn_le by lia. reflexivity.
Qed.
(* ------------------------------------------------------------------ *)
(* events *)

Lemma refused_app a b : refused (a ++ b) = refused a || refused b.
Proof. unfold refused. apply existsb_app. Qed.

Lemma heap_run_app h a b :
  heap_run h (a ++ b) = match heap_run h a with Some h' => heap_run h' b | None => None end.
Proof.
  revert h. induction a as [|e a IH]; intros h; cbn [app heap_run]; [reflexivity|].
  destruct (heap_apply h e); [apply IH|reflexivity].
Qed.

Lemma ea_owned_split ssz e : ea_owned ssz e = ea_owned_buf e ++ [ssz].
Proof. unfold ea_owned, ea_owned_buf. destruct (ea_blk e); reflexivity. Qed.

Lemma remove1_head x h : remove1 x (x :: h) = Some h.
Proof. cbn. rewrite N.eqb_refl. reflexivity. Qed.

(* remove1 of an element that is present: a permutation *)
Lemma remove1_in x a b : exists h, remove1 x (a ++ x :: b) = Some h /\ Permutation h (a ++ b).
Proof.
  induction a as [|y a IH]; cbn [app].
  - exists b. rewrite remove1_head. split; [reflexivity|apply Permutation_refl].
  - destruct IH as (h & H1 & H2). cbn [remove1]. destruct (N.eqb_spec x y) as [->|Hne].
    + exists (a ++ y :: b). split; [reflexivity|]. apply Permutation_sym, Permutation_middle.
    + rewrite H1. exists (y :: h). split; [reflexivity|]. apply perm_skip. exact H2.
Qed.

(* ------------------------------------------------------------------ *)
(* one operation of a client program *)

Definition ea_op_ok (op : ea_op) : Prop :=
  match op with
  | OInit _ reclen _ | OResize _ reclen _ | OShrink _ reclen | OGet _ reclen
  | OGetsize reclen | OExport reclen | OExportdup reclen => 0 < reclen
  | OAppend data nrec reclen =>
    0 < reclen /\ (nrec * reclen < W -> nrec * reclen <= N.of_nat (length data))
  | OTruncate | OFree => True
  end.

Definition st_inv (st : option ea) : Prop := match st with Some e => ea_inv e | None => True end.
Definition st_abs (st : option ea) : option (list N) := option_map ea_abs st.
Definition st_cap (st : option ea) : Prop :=
  match st with Some e => ea_alloc e / 4 <= ea_size e | None => True end.
Definition st_owned (ssz : N) (st : option ea) : list N :=
  match st with Some e => ea_owned ssz e | None => [] end.

(* the value by which an operation reports failure *)
Definition ea_err_out (op : ea_op) : ea_out :=
  match op with
  | OExport _ | OExportdup _ => XExport false [] 0
  | _ => XRc false
  end.

Definition is_shrink (op : ea_op) : bool := match op with OShrink _ _ => true | _ => false end.

(* operations after whose success the storage bound is promised whatever happened before *)
Definition establishes_cap (op : ea_op) (x : ea_out) (ev : list aev) : Prop :=
  match op with
  | OInit _ _ _ | OResize _ _ _ | OAppend _ _ _ | OTruncate => x = XRc true
  | OShrink _ _ => refused ev = false
  | _ => False
  end.

(* blocks handed to the client by export / exportdup *)
Definition handed (op : ea_op) (x : ea_out) (st : option ea) : list N :=
  match op, x, st with
  | OExport _, XExport true b _, Some _ => if N.of_nat (length b) =? 0 then [] else [N.of_nat (length b)]
  | OExportdup _, XExport true b _, Some _ => [N.of_nat (length b)]
  | _, _, _ => []
  end.

Definition step_post (ssz : N) (op : ea_op) (st : option ea) (x : ea_out) (st' : option ea)
           (ev : list aev) : Prop :=
  st_inv st' /\
  ea_spec_step op (st_abs st) (refused ev) = (x, st_abs st') /\
  (refused ev = true -> is_shrink op = false -> st' = st /\ x = ea_err_out op) /\
  (refused ev = false -> st_cap st -> st_cap st') /\
  (establishes_cap op x ev -> st_cap st') /\
  (forall rest, exists h, heap_run (st_owned ssz st ++ rest) ev = Some h /\
                          Permutation h (st_owned ssz st' ++ handed op x st ++ rest)).

Lemma ideal_len_abs e : ea_inv e -> ideal_len (ea_abs e) = ea_size e.
Proof. apply ea_abs_length. Qed.

Lemma pad_to_shrink l n fill : n <= N.of_nat (length l) -> pad_to l n fill = firstn (N.to_nat n) l.
Proof.
  intros H. unfold pad_to. replace (N.to_nat n - length l)%nat with 0%nat by lia.
  cbn [repeat]. apply app_nil_r.
Qed.

Lemma pad_to_grow l n fill :
  N.of_nat (length l) <= n -> pad_to l n fill = l ++ repeat fill (N.to_nat (n - N.of_nat (length l))).
Proof.
  intros H. unfold pad_to. rewrite firstn_all2 by lia. f_equal. f_equal. lia.
Qed.
(* ------------------------------------------------------------------ *)
(* the step theorem, operation by operation *)

Ltac perm_refl := eexists; split; [reflexivity | apply Permutation_refl].
Ltac post6 :=
  unfold step_post;
  cbn [st_inv st_abs option_map ea_spec_step st_cap st_owned handed app establishes_cap is_shrink
       ea_err_out];
  refine (conj _ (conj _ (conj _ (conj _ (conj _ _))))).

Lemma step_init ssz nrec reclen fill o :
  0 < reclen ->
  exists x st' o' ev,
    ea_step 2 4 2 ssz (OInit nrec reclen fill) None o = Ok (x, st', o', ev) /\
    step_post ssz (OInit nrec reclen fill) None x st' ev.
Proof.
  intros Hr. cbn [ea_step]. unfold ea_init.
  destruct (N.eqb_spec reclen 0) as [->|_]; [lia|].
  destruct (next o) as [b o1] eqn:Eo. destruct b; cbn [negb].
  2:{ cbn [bind]. eexists _, _, _, _. split; [reflexivity|]. post6.
      - exact I.
      - reflexivity.
      - intros _ _. split; reflexivity.
      - intros _ _. exact I.
      - discriminate.
      - intros rest. cbn [heap_run heap_apply]. perm_refl. }
  destruct (ea_resize_spec ea0 nrec reclen o1 ea0_inv Hr) as (ok & e1 & o2 & ev2 & H & P).
  fold ea0. rewrite H. cbn [bind].
  destruct P as [(Hrep & -> & -> & -> & ->) | (Hrep & P1 & P2 & P3)].
  - (* size not representable *)
    cbn [bind]. eexists _, _, _, _. split; [reflexivity|]. post6.
    + exact I.
    + match goal with |- context [refused ?l] => assert (Hrf : refused l = false) by reflexivity end.
      rewrite Hrf, Hrep. reflexivity.
    + intros _ _. split; reflexivity.
    + intros _ _. exact I.
    + discriminate.
    + intros rest. cbn. rewrite N.eqb_refl. perm_refl.
  - destruct ok.
    + destruct (P1 eq_refl) as (Hi1 & Hs1 & Hp & Hc & Hg & Hrf). clear P2.
      destruct (ea_fill_spec e1 0 fill Hi1 ltac:(lia)) as (e2 & Hf & Hi2 & Hs2 & Ha2 & Habs).
      cbn [bind]. rewrite Hf. cbn [bind]. eexists _, _, _, _. split; [reflexivity|].
      assert (Hrf' : refused (AMalloc ssz true :: ev2) = false) by (cbn; exact Hrf).
      post6.
      * exact Hi2.
      * rewrite Hrf', Hrep. cbn [negb orb]. rewrite Habs. cbn [N.to_nat firstn app].
        rewrite Hs1, N.sub_0_r. reflexivity.
      * rewrite Hrf'. discriminate.
      * intros _ _. lia.
      * intros _. lia.
      * intros rest. cbn [heap_run heap_apply].
        specialize (P3 (ssz :: rest)). change (ea_owned_buf ea0) with (@nil N) in P3.
        cbn [app] in P3. rewrite P3.
        eexists; split; [reflexivity|].
        rewrite ea_owned_split.
        replace (ea_owned_buf e2) with (ea_owned_buf e1)
          by (unfold ea_owned_buf, ea_blk; rewrite Ha2; reflexivity).
        rewrite <- app_assoc. apply Permutation_refl.
    + destruct (P2 eq_refl) as (-> & Hrf). clear P1.
      cbn [bind]. eexists _, _, _, _. split; [reflexivity|].
      assert (Hrf' : refused (AMalloc ssz true :: ev2 ++ ea_free_ev ssz ea0) = true).
      { change (refused ([AMalloc ssz true] ++ ev2 ++ ea_free_ev ssz ea0) = true).
        rewrite !refused_app, Hrf. apply orb_true_r. }
      post6.
      * exact I.
      * rewrite Hrf'. reflexivity.
      * intros _ _. split; reflexivity.
      * intros _ _. exact I.
      * discriminate.
      * intros rest. cbn [heap_run heap_apply]. rewrite heap_run_app.
        specialize (P3 (ssz :: rest)). change (ea_owned_buf ea0) with (@nil N) in P3.
        cbn [app] in P3. rewrite P3. cbn. rewrite N.eqb_refl. perm_refl.
Qed.
Lemma owned_same_alloc ssz e e' : ea_alloc e' = ea_alloc e -> ea_owned ssz e' = ea_owned ssz e.
Proof. intros H. unfold ea_owned, ea_blk. rewrite H. reflexivity. Qed.

Lemma heap_owned ssz e e' ev rest :
  (forall r, heap_run (ea_owned_buf e ++ r) ev = Some (ea_owned_buf e' ++ r)) ->
  heap_run (ea_owned ssz e ++ rest) ev = Some (ea_owned ssz e' ++ rest).
Proof. intros H. rewrite !ea_owned_split, <- !app_assoc. apply H. Qed.

Lemma step_resize ssz e nrec reclen fill o :
  ea_inv e -> 0 < reclen ->
  exists x st' o' ev,
    ea_step 2 4 2 ssz (OResize nrec reclen fill) (Some e) o = Ok (x, st', o', ev) /\
    step_post ssz (OResize nrec reclen fill) (Some e) x st' ev.
Proof.
  intros Hi Hr. cbn [ea_step].
  destruct (ea_resize_spec e nrec reclen o Hi Hr) as (ok & e1 & o1 & ev & H & P).
  rewrite H. cbn [bind].
  destruct P as [(Hrep & -> & -> & -> & ->) | (Hrep & P1 & P2 & P3)].
  - eexists _, _, _, _. split; [reflexivity|]. post6.
    + exact Hi.
    + cbn [refused existsb orb]. rewrite Hrep. reflexivity.
    + discriminate.
    + intros _ Hc. exact Hc.
    + discriminate.
    + intros rest. cbn [heap_run]. perm_refl.
  - destruct ok.
    + destruct (P1 eq_refl) as (Hi1 & Hs1 & Hp & Hc & Hg & Hrf). clear P2.
      pose proof Hi as (Hs & Hl & Ha). pose proof Hi1 as (Hs1' & Hl1 & Ha1).
      destruct (N.le_gt_cases (ea_size e) (ea_size e1)) as [Hle|Hgt].
      * destruct (ea_fill_spec e1 (ea_size e) fill Hi1 Hle) as (e2 & Hf & Hi2 & Hs2 & Ha2 & Habs).
        rewrite Hf. cbn [bind]. eexists _, _, _, _. split; [reflexivity|]. post6.
        -- exact Hi2.
        -- rewrite Hrf, Hrep. cbn [negb orb]. do 2 f_equal. rewrite Habs.
           rewrite pad_to_grow by (rewrite ea_abs_length by exact Hi; lia).
           rewrite ea_abs_length by exact Hi. rewrite Hs1. f_equal.
           unfold ea_abs. symmetry. apply Hp; lia.
        -- rewrite Hrf. discriminate.
        -- intros _ _. lia.
        -- intros _. lia.
        -- intros rest. rewrite (heap_owned ssz e e1) by exact P3.
           rewrite (owned_same_alloc ssz e1 e2 Ha2). perm_refl.
      * assert (Hf : ea_fill_from e1 (ea_size e) fill = Ok e1).
        { unfold ea_fill_from. destruct (N.ltb_spec (ea_size e) (ea_size e1)); [lia|reflexivity]. }
        rewrite Hf. cbn [bind]. eexists _, _, _, _. split; [reflexivity|]. post6.
        -- exact Hi1.
        -- rewrite Hrf, Hrep. cbn [negb orb]. do 2 f_equal.
           rewrite pad_to_shrink by (rewrite ea_abs_length by exact Hi; lia).
           unfold ea_abs. rewrite Hs1. rewrite firstn_firstn_le by lia. symmetry. apply Hp; lia.
        -- rewrite Hrf. discriminate.
        -- intros _ _. lia.
        -- intros _. lia.
        -- intros rest. rewrite (heap_owned ssz e e1) by exact P3. perm_refl.
    + destruct (P2 eq_refl) as (-> & Hrf). clear P1.
      eexists _, _, _, _. split; [reflexivity|]. post6.
      * exact Hi.
      * rewrite Hrf. reflexivity.
      * intros _ _. split; reflexivity.
      * rewrite Hrf. discriminate.
      * discriminate.
      * intros rest. rewrite (heap_owned ssz e e) by exact P3. perm_refl.
Qed.

Lemma step_append ssz e data nrec reclen o :
  ea_inv e -> ea_op_ok (OAppend data nrec reclen) ->
  exists x st' o' ev,
    ea_step 2 4 2 ssz (OAppend data nrec reclen) (Some e) o = Ok (x, st', o', ev) /\
    step_post ssz (OAppend data nrec reclen) (Some e) x st' ev.
Proof.
  intros Hi (Hr & Hd). cbn [ea_step].
  destruct (ea_append_spec e data nrec reclen o Hi Hr Hd) as (ok & e1 & o1 & ev & H & P).
  rewrite H. cbn [bind]. unfold fits in P. rewrite <- (ea_abs_length e Hi) in P.
  fold (ideal_len (ea_abs e)) in P.
  destruct P as [(Hf & -> & -> & -> & ->) | [(Hf & -> & -> & Hrf & Hh) | (Hf & -> & Hrf & Hi1 & Habs & Hs1 & Hc & Hg & Hh)]];
    eexists _, _, _, _; (split; [reflexivity|]); post6.
  - exact Hi.
  - cbn [refused existsb orb]. rewrite <- negb_andb, Hf. reflexivity.
  - discriminate.
  - intros _ Hc. exact Hc.
  - discriminate.
  - intros rest. cbn [heap_run]. perm_refl.
  - exact Hi.
  - rewrite Hrf. reflexivity.
  - intros _ _. split; reflexivity.
  - rewrite Hrf. discriminate.
  - discriminate.
  - intros rest. rewrite (heap_owned ssz e e) by exact Hh. perm_refl.
  - exact Hi1.
  - rewrite Hrf. cbn [orb]. rewrite <- negb_andb, Hf. cbn [negb]. rewrite Habs. reflexivity.
  - rewrite Hrf. discriminate.
  - intros _ _. exact Hc.
  - intros _. exact Hc.
  - intros rest. rewrite (heap_owned ssz e e1) by exact Hh. perm_refl.
Qed.

Lemma step_shrink ssz e nrec reclen o :
  ea_inv e -> 0 < reclen ->
  exists x st' o' ev,
    ea_step 2 4 2 ssz (OShrink nrec reclen) (Some e) o = Ok (x, st', o', ev) /\
    step_post ssz (OShrink nrec reclen) (Some e) x st' ev.
Proof.
  intros Hi Hr. cbn [ea_step].
  destruct (ea_shrink_spec e nrec reclen o Hi Hr) as (e1 & o1 & ev & H & Hi1 & Hs1 & Habs & Hc & Hh).
  rewrite H. cbn [bind]. eexists _, _, _, _. split; [reflexivity|]. post6.
  - exact Hi1.
  - rewrite Habs. unfold ideal_len. rewrite ea_abs_length by exact Hi. reflexivity.
  - discriminate.
  - intros Hrf _. exact (Hc Hrf).
  - exact Hc.
  - intros rest. rewrite (heap_owned ssz e e1) by exact Hh. perm_refl.
Qed.
Lemma step_truncate ssz e o :
  ea_inv e ->
  exists x st' o' ev,
    ea_step 2 4 2 ssz OTruncate (Some e) o = Ok (x, st', o', ev) /\
    step_post ssz OTruncate (Some e) x st' ev.
Proof.
  intros Hi. cbn [ea_step].
  destruct (ea_truncate_spec e o Hi) as (ok & e1 & o1 & ev & H & P1 & P2 & P3).
  rewrite H. cbn [bind]. eexists _, _, _, _. split; [reflexivity|].
  destruct ok.
  - destruct (P1 eq_refl) as (Hrf & Hi1 & Hs1 & Ha1 & Hb1). post6.
    + exact Hi1.
    + rewrite Hrf. cbn [negb]. do 2 f_equal. symmetry. unfold ea_abs at 1. rewrite Hs1, Hb1.
      unfold ea_abs. apply firstn_firstn_le. lia.
    + rewrite Hrf. discriminate.
    + intros _ _. rewrite Ha1, Hs1. apply N.div_le_upper_bound; lia.
    + intros _. rewrite Ha1, Hs1. apply N.div_le_upper_bound; lia.
    + intros rest. rewrite (heap_owned ssz e e1) by exact P3. perm_refl.
  - destruct (P2 eq_refl) as (-> & Hrf). post6.
    + exact Hi.
    + rewrite Hrf. reflexivity.
    + intros _ _. split; reflexivity.
    + rewrite Hrf. discriminate.
    + discriminate.
    + intros rest. rewrite (heap_owned ssz e e) by exact P3. perm_refl.
Qed.

Lemma step_get ssz e pos reclen o :
  ea_inv e -> 0 < reclen ->
  exists x st' o' ev,
    ea_step 2 4 2 ssz (OGet pos reclen) (Some e) o = Ok (x, st', o', ev) /\
    step_post ssz (OGet pos reclen) (Some e) x st' ev.
Proof.
  intros Hi Hr. cbn [ea_step]. rewrite ea_getsize_ok by exact Hr. cbn [bind].
  destruct (N.ltb_spec pos (ea_size e / reclen)) as [Hp|Hp].
  - destruct (ea_get_record e pos reclen Hi Hr Hp) as (_ & Hrd). rewrite Hrd. cbn [bind].
    eexists _, _, _, _. split; [reflexivity|]. post6.
    + exact Hi.
    + rewrite ideal_len_abs by exact Hi. apply N.ltb_lt in Hp. rewrite Hp. reflexivity.
    + discriminate.
    + intros _ Hc. exact Hc.
    + intros [].
    + intros rest. cbn [heap_run]. perm_refl.
  - eexists _, _, _, _. split; [reflexivity|]. post6.
    + exact Hi.
    + rewrite ideal_len_abs by exact Hi. apply N.ltb_ge in Hp. rewrite Hp. reflexivity.
    + discriminate.
    + intros _ Hc. exact Hc.
    + intros [].
    + intros rest. cbn [heap_run]. perm_refl.
Qed.

Lemma step_getsize ssz e reclen o :
  ea_inv e -> 0 < reclen ->
  exists x st' o' ev,
    ea_step 2 4 2 ssz (OGetsize reclen) (Some e) o = Ok (x, st', o', ev) /\
    step_post ssz (OGetsize reclen) (Some e) x st' ev.
Proof.
  intros Hi Hr. cbn [ea_step]. rewrite ea_getsize_ok by exact Hr. cbn [bind].
  eexists _, _, _, _. split; [reflexivity|]. post6.
  - exact Hi.
  - rewrite ideal_len_abs by exact Hi. reflexivity.
  - discriminate.
  - intros _ Hc. exact Hc.
  - intros [].
  - intros rest. cbn [heap_run]. perm_refl.
Qed.

Lemma step_export ssz e reclen o :
  ea_inv e -> 0 < reclen ->
  exists x st' o' ev,
    ea_step 2 4 2 ssz (OExport reclen) (Some e) o = Ok (x, st', o', ev) /\
    step_post ssz (OExport reclen) (Some e) x st' ev.
Proof.
  intros Hi Hr. cbn [ea_step]. unfold ea_export.
  destruct (ea_truncate_spec e o Hi) as (ok & e1 & o1 & ev & H & P1 & P2 & P3).
  rewrite H. cbn [bind]. destruct ok; cbn [negb].
  - destruct (P1 eq_refl) as (Hrf & Hi1 & Hs1 & Ha1 & Hb1).
    rewrite ea_getsize_ok by exact Hr. cbn [bind].
    eexists _, _, _, _. split; [reflexivity|].
    assert (Hrf' : refused (ev ++ [AFree ssz]) = false) by (rewrite refused_app, Hrf; reflexivity).
    post6.
    + exact I.
    + rewrite Hrf'. rewrite ideal_len_abs by exact Hi. rewrite Hb1, Hs1. reflexivity.
    + rewrite Hrf'. discriminate.
    + intros _ _. exact I.
    + intros [].
    + intros rest. rewrite heap_run_app. rewrite (heap_owned ssz e e1) by exact P3.
      rewrite ea_owned_split, <- app_assoc. cbn [app].
      destruct (remove1_in ssz (ea_owned_buf e1) rest) as (h & Hh1 & Hh2).
      cbn [heap_run heap_apply]. rewrite Hh1. eexists; split; [reflexivity|].
      eapply Permutation_trans; [exact Hh2|]. apply Permutation_app_tail.
      unfold ea_owned_buf, ea_blk. rewrite Ha1.
      destruct Hi1 as (_ & Hl1 & _). rewrite Hl1, Ha1.
      destruct (ea_size e =? 0); apply Permutation_refl.
  - destruct (P2 eq_refl) as (-> & Hrf).
    eexists _, _, _, _. split; [reflexivity|]. post6.
    + exact Hi.
    + rewrite Hrf. reflexivity.
    + intros _ _. split; reflexivity.
    + rewrite Hrf. discriminate.
    + intros [].
    + intros rest. rewrite (heap_owned ssz e e) by exact P3. perm_refl.
Qed.

Lemma step_exportdup ssz e reclen o :
  ea_inv e -> 0 < reclen ->
  exists x st' o' ev,
    ea_step 2 4 2 ssz (OExportdup reclen) (Some e) o = Ok (x, st', o', ev) /\
    step_post ssz (OExportdup reclen) (Some e) x st' ev.
Proof.
  intros Hi Hr. cbn [ea_step]. unfold ea_exportdup.
  destruct (next o) as [b o1]. destruct b; cbn [negb].
  - pose proof Hi as (Hs & Hl & Ha).
    rewrite mem_read_ok by lia. cbn [bind N.to_nat skipn].
    rewrite ea_getsize_ok by exact Hr. cbn [bind].
    eexists _, _, _, _. split; [reflexivity|]. post6.
    + exact Hi.
    + cbn [refused existsb ev_refused negb orb]. rewrite ideal_len_abs by exact Hi. reflexivity.
    + discriminate.
    + intros _ Hc. exact Hc.
    + intros [].
    + intros rest. cbn [heap_run heap_apply]. eexists; split; [reflexivity|].
      fold (ea_abs e). rewrite ea_abs_length by exact Hi.
      cbn [app]. apply Permutation_middle.
  - cbn [bind]. eexists _, _, _, _. split; [reflexivity|]. post6.
    + exact Hi.
    + reflexivity.
    + intros _ _. split; reflexivity.
    + discriminate.
    + intros [].
    + intros rest. cbn [heap_run heap_apply]. perm_refl.
Qed.

Lemma step_free ssz e o :
  ea_inv e ->
  exists x st' o' ev,
    ea_step 2 4 2 ssz OFree (Some e) o = Ok (x, st', o', ev) /\
    step_post ssz OFree (Some e) x st' ev.
Proof.
  intros Hi. cbn [ea_step]. eexists _, _, _, _. split; [reflexivity|].
  assert (Hrf : refused (ea_free_ev ssz e) = false).
  { unfold ea_free_ev, ea_free_buf_ev. destruct (ea_blk e); reflexivity. }
  post6.
  - exact I.
  - reflexivity.
  - rewrite Hrf. discriminate.
  - intros _ _. exact I.
  - intros [].
  - intros rest. unfold ea_free_ev. rewrite heap_run_app.
    rewrite ea_owned_split, <- app_assoc. rewrite heap_free_buf.
    cbn. rewrite N.eqb_refl. perm_refl.
Qed.

(* ------------------------------------------------------------------ *)
(* C12 M1 (one step): no Fault / AssertFail, invariant kept, result and contents as the ideal
   array says, plus the C14 and capacity facts collected in [step_post] *)
Theorem ea_step_ok ssz op st o :
  st_inv st -> ea_op_ok op ->
  exists x st' o' ev,
    ea_step 2 4 2 ssz op st o = Ok (x, st', o', ev) /\ step_post ssz op st x st' ev.
Proof.
  intros Hi Hok. destruct st as [e|].
  - destruct op; cbn [ea_op_ok st_inv] in *.
    + (* init on an existing array: skipped *)
      cbn [ea_step]. eexists _, _, _, _. split; [reflexivity|]. post6;
        [exact Hi | reflexivity | discriminate | intros _ Hc; exact Hc | discriminate
         | intros rest; cbn [heap_run]; perm_refl].
    + apply step_resize; assumption.
    + apply step_append; assumption.
    + apply step_shrink; assumption.
    + apply step_truncate; assumption.
    + apply step_get; assumption.
    + apply step_getsize; assumption.
    + apply step_export; assumption.
    + apply step_exportdup; assumption.
    + apply step_free; assumption.
  - destruct op; cbn [ea_op_ok] in *; try apply step_init; try assumption;
      (cbn [ea_step]; eexists _, _, _, _; (split; [reflexivity|]); post6;
        [exact I | reflexivity | discriminate | intros _ _; exact I | try discriminate; try (intros []); try (intros; exact I)
         | intros rest; cbn [heap_run]; perm_refl]).
Qed.
(* ------------------------------------------------------------------ *)
(* whole programs *)

Definition tr_out (t : ea_out * option ea * list aev) : ea_out := fst (fst t).
Definition tr_st (t : ea_out * option ea * list aev) : option ea := snd (fst t).
Definition tr_ev (t : ea_out * option ea * list aev) : list aev := snd t.

Definition tr_obs (tr : list (ea_out * option ea * list aev)) : list (ea_out * option (list N)) :=
  map (fun t => (tr_out t, st_abs (tr_st t))) tr.
Definition tr_flags (tr : list (ea_out * option ea * list aev)) : list bool :=
  map (fun t => refused (tr_ev t)) tr.

(* C12 M1: for every program and every oracle the model runs without Fault / AssertFail, keeps
   its invariant (size <= alloc = length of the storage) and shows the client exactly what the
   ideal array shows (the flags say in which operations the allocator refused a request) *)
Theorem ea_run_refines ssz ops : forall st o,
  st_inv st -> Forall ea_op_ok ops ->
  exists tr,
    ea_run 2 4 2 ssz ops st o = Ok tr /\
    Forall (fun t => st_inv (tr_st t)) tr /\
    tr_obs tr = ea_spec_run ops (st_abs st) (tr_flags tr).
Proof.
  induction ops as [|op ops IH]; intros st o Hi Hok.
  - exists []. repeat split. constructor.
  - inversion Hok as [|? ? Hop Hops]; subst.
    destruct (ea_step_ok ssz op st o Hi Hop) as (x & st1 & o1 & ev & Hs & Hi1 & Hspec & _).
    destruct (IH st1 o1 Hi1 Hops) as (tr & Hr & Hf & Hobs).
    cbn [ea_run]. rewrite Hs. cbn [bind]. rewrite Hr. cbn [bind].
    eexists. split; [reflexivity|]. split.
    + constructor; [exact Hi1|exact Hf].
    + cbn [tr_obs tr_flags map ea_spec_run tl]. unfold tr_out, tr_st, tr_ev; cbn [fst snd].
      rewrite Hspec. f_equal. exact Hobs.
Qed.

(* C12 M2: when no request is refused the storage bound holds after every operation *)
Theorem ea_run_capacity ssz ops : forall st o tr,
  st_inv st -> Forall ea_op_ok ops -> st_cap st ->
  ea_run 2 4 2 ssz ops st o = Ok tr ->
  Forall (fun t => refused (tr_ev t) = false) tr ->
  Forall (fun t => st_cap (tr_st t)) tr.
Proof.
  induction ops as [|op ops IH]; intros st o tr Hi Hok Hc Hr Hnf.
  - cbn in Hr. inversion Hr. constructor.
  - inversion Hok as [|? ? Hop Hops]; subst.
    destruct (ea_step_ok ssz op st o Hi Hop) as (x & st1 & o1 & ev & Hs & Hi1 & _ & _ & Hcap & _).
    cbn [ea_run] in Hr. rewrite Hs in Hr. cbn [bind] in Hr.
    destruct (ea_run 2 4 2 ssz ops st1 o1) as [tr1| | |] eqn:E; cbn [bind] in Hr; try discriminate.
    inversion Hr; subst tr. inversion Hnf as [|? ? Hnf1 Hnf2]; subst.
    unfold tr_ev in Hnf1; cbn [snd] in Hnf1.
    constructor.
    + unfold tr_st; cbn [fst snd]. apply Hcap; assumption.
    + eapply IH; eauto.
Qed.

(* the ghost heap is a multiset: replaying events commutes with permutations *)
Lemma remove1_perm_cons x h k : remove1 x h = Some k -> Permutation h (x :: k).
Proof.
  revert k. induction h as [|y h IH]; intros k H; cbn [remove1] in H; [discriminate|].
  destruct (N.eqb_spec x y) as [->|Hne].
  - inversion H; subst. apply Permutation_refl.
  - destruct (remove1 x h) as [k'|] eqn:E; [|discriminate]. inversion H; subst.
    eapply Permutation_trans; [apply perm_skip, IH; reflexivity|]. apply perm_swap.
Qed.

Lemma remove1_some x h : In x h -> exists k, remove1 x h = Some k.
Proof.
  induction h as [|y h IH]; intros Hin; [destruct Hin|]. cbn [remove1].
  destruct (N.eqb_spec x y) as [->|Hne]; [eauto|].
  destruct Hin as [->|Hin]; [congruence|]. destruct (IH Hin) as (k & ->). eauto.
Qed.

Lemma remove1_perm x h h' k :
  Permutation h h' -> remove1 x h = Some k ->
  exists k', remove1 x h' = Some k' /\ Permutation k k'.
Proof.
  intros Hp H. pose proof (remove1_perm_cons _ _ _ H) as H1.
  assert (Hin : In x h') by (eapply Permutation_in; [exact Hp|]; eapply Permutation_in;
                             [apply Permutation_sym; exact H1 | left; reflexivity]).
  destruct (remove1_some _ _ Hin) as (k' & Hk'). exists k'. split; [exact Hk'|].
  pose proof (remove1_perm_cons _ _ _ Hk') as H2.
  apply (Permutation_cons_inv (a := x)).
  eapply Permutation_trans; [apply Permutation_sym; exact H1|].
  eapply Permutation_trans; [exact Hp|exact H2].
Qed.

Lemma heap_apply_perm h h' e k :
  Permutation h h' -> heap_apply h e = Some k ->
  exists k', heap_apply h' e = Some k' /\ Permutation k k'.
Proof.
  intros Hp H. destruct e as [sz ok|old sz ok|sz]; cbn [heap_apply] in *.
  - destruct ok; inversion H; subst; eexists; split; try reflexivity; auto.
  - destruct old as [o|].
    + destruct (remove1 o h) as [r|] eqn:E; [|destruct ok; discriminate].
      destruct (remove1_perm _ _ _ _ Hp E) as (r' & -> & Hr).
      destruct ok; inversion H; subst; eexists; split; try reflexivity; auto.
    + destruct ok; inversion H; subst; eexists; split; try reflexivity; auto.
  - eapply remove1_perm; eauto.
Qed.

Lemma heap_run_perm evs : forall h h' k,
  Permutation h h' -> heap_run h evs = Some k ->
  exists k', heap_run h' evs = Some k' /\ Permutation k k'.
Proof.
  induction evs as [|e evs IH]; intros h h' k Hp H; cbn [heap_run] in *.
  - inversion H; subst. eauto.
  - destruct (heap_apply h e) as [h1|] eqn:E; [|discriminate].
    destruct (heap_apply_perm _ _ _ _ Hp E) as (h1' & -> & Hp1). eapply IH; eauto.
Qed.

(* C14 M3 for whole programs: replaying the allocation events of a run on the ghost heap leaves
   exactly the blocks the array still owns plus those handed to the client *)
Fixpoint tr_handed (ops : list ea_op) (st : option ea) (tr : list (ea_out * option ea * list aev))
  : list N :=
  match ops, tr with
  | op :: ops', t :: tr' => handed op (tr_out t) st ++ tr_handed ops' (tr_st t) tr'
  | _, _ => []
  end.

Lemma last_cons_default {A} (l : list A) : forall x d d', last (x :: l) d = last (x :: l) d'.
Proof. induction l as [|y l IH]; intros x d d'; [reflexivity|]. cbn [last] in *. apply (IH y). Qed.

Lemma last_cons_cons {A} (l : list A) d1 d0 : last (d1 :: l) d0 = last l d1.
Proof. destruct l as [|a l]; [reflexivity|]. cbn [last]. apply (last_cons_default l a d0 d1). Qed.

Definition tr_final (st : option ea) (tr : list (ea_out * option ea * list aev)) : option ea :=
  last (map tr_st tr) st.

Theorem ea_run_no_leak ssz ops : forall st o tr rest,
  st_inv st -> Forall ea_op_ok ops ->
  ea_run 2 4 2 ssz ops st o = Ok tr ->
  exists h, heap_run (st_owned ssz st ++ rest) (concat (map tr_ev tr)) = Some h /\
            Permutation h (st_owned ssz (tr_final st tr) ++ tr_handed ops st tr ++ rest).
Proof.
  induction ops as [|op ops IH]; intros st o tr rest Hi Hok Hr.
  - cbn in Hr. inversion Hr; subst. cbn. perm_refl.
  - inversion Hok as [|? ? Hop Hops]; subst.
    destruct (ea_step_ok ssz op st o Hi Hop) as (x & st1 & o1 & ev & Hs & Hi1 & _ & _ & _ & _ & Hh).
    cbn [ea_run] in Hr. rewrite Hs in Hr. cbn [bind] in Hr.
    destruct (ea_run 2 4 2 ssz ops st1 o1) as [tr1| | |] eqn:E; cbn [bind] in Hr; try discriminate.
    inversion Hr; subst tr. clear Hr.
    destruct (Hh rest) as (h1 & Hh1 & Hp1).
    cbn [map concat tr_ev snd]. rewrite heap_run_app, Hh1.
    destruct (IH st1 o1 tr1 (handed op x st ++ rest) Hi1 Hops E) as (h2 & Hh2 & Hp2).
    destruct (heap_run_perm _ _ _ _ (Permutation_sym Hp1) Hh2) as (h3 & Hh3 & Hp3).
    exists h3. split; [exact Hh3|].
    eapply Permutation_trans; [apply Permutation_sym; exact Hp3|].
    eapply Permutation_trans; [exact Hp2|].
    unfold tr_final. cbn [map tr_st fst snd tr_handed tr_out].
    replace (last (st1 :: map tr_st tr1) st) with (last (map tr_st tr1) st1).
    2:{ symmetry. apply last_cons_cons. }
    rewrite <- app_assoc. apply Permutation_app_head.
    rewrite !app_assoc. apply Permutation_app_tail. apply Permutation_app_comm.
Qed.
(* ------------------------------------------------------------------ *)
(* corollaries in the form used by the property files *)

(* get: a record that exists lies inside the storage block and is the ideal record *)
Theorem ea_get_inside e pos reclen :
  ea_inv e -> 0 < reclen -> (pos + 1) * reclen <= ea_size e ->
  ea_get e pos reclen + reclen <= N.of_nat (length (ea_buf e)) /\
  mem_read (ea_buf e) (ea_get e pos reclen) reclen =
  Ok (firstn (N.to_nat reclen) (skipn (N.to_nat (pos * reclen)) (ea_abs e))).
Proof.
  intros Hi Hr Hp. pose proof Hi as (Hs & Hl & Ha).
  assert (pos < ea_size e / reclen).
  { assert (pos + 1 <= ea_size e / reclen) by (apply N.div_le_lower_bound; lia). lia. }
  rewrite Hl. apply ea_get_record; assumption.
Qed.

(* export hands over exactly the contents *)
Theorem ea_export_exact ssz e reclen o b n st' o' ev :
  ea_inv e -> 0 < reclen ->
  ea_step 2 4 2 ssz (OExport reclen) (Some e) o = Ok (XExport true b n, st', o', ev) ->
  b = ea_abs e /\ n = ea_size e / reclen /\ st' = None /\ refused ev = false.
Proof.
  intros Hi Hr H.
  destruct (ea_step_ok ssz (OExport reclen) (Some e) o Hi Hr) as (x & st1 & o1 & ev1 & Hs & _ & Hspec & _).
  rewrite H in Hs. inversion Hs; subst. cbn [ea_spec_step st_abs option_map] in Hspec.
  destruct (refused ev1); [discriminate|]. inversion Hspec; subst.
  rewrite ideal_len_abs by exact Hi. destruct st1; [discriminate|]. auto.
Qed.

(* C14 M1 for the array: a refused request makes the operation report failure and leaves the
   array - every field - exactly as it was; the invariant (hence every theorem above) still holds *)
Theorem ea_fail_unchanged ssz op st o x st' o' ev :
  st_inv st -> ea_op_ok op ->
  ea_step 2 4 2 ssz op st o = Ok (x, st', o', ev) ->
  refused ev = true -> is_shrink op = false ->
  st' = st /\ x = ea_err_out op /\ st_inv st'.
Proof.
  intros Hi Hok H Hrf Hns.
  destruct (ea_step_ok ssz op st o Hi Hok) as (x1 & st1 & o1 & ev1 & Hs & Hi1 & _ & Hfail & _).
  rewrite H in Hs. inversion Hs; subst. destruct (Hfail Hrf Hns). auto.
Qed.

(* C14 M1 for the array, the exact condition: the error value is returned exactly when the
   allocator refused a request OR the requested byte count is not representable in size_t
   (ENOMEM without any allocation attempted) *)
Definition ea_unrep (op : ea_op) (st : option (list N)) : bool :=
  match op, st with
  | OInit nrec reclen _, None => negb (representable (nrec * reclen))
  | OResize nrec reclen _, Some _ => negb (representable (nrec * reclen))
  | OAppend _ nrec reclen, Some l =>
    negb (representable (nrec * reclen)) || negb (representable (ideal_len l + nrec * reclen))
  | _, _ => false
  end.

Theorem ea_fail_iff ssz op st o x st' o' ev :
  st_inv st -> ea_op_ok op ->
  ea_step 2 4 2 ssz op st o = Ok (x, st', o', ev) ->
  is_shrink op = false ->
  (x = ea_err_out op <-> refused ev = true \/ ea_unrep op (st_abs st) = true).
Proof.
  intros Hi Hok H Hns.
  destruct (ea_step_ok ssz op st o Hi Hok) as (x1 & st1 & o1 & ev1 & Hs & _ & Hspec & Hfail & _).
  rewrite H in Hs. inversion Hs; subst. split.
  - intros Hx. destruct (refused ev1) eqn:Hrf; [left; reflexivity|]. right.
    rewrite Hx in Hspec.
    destruct op, st as [e|]; cbn [st_abs option_map ea_spec_step ea_err_out ea_unrep orb] in *;
      try discriminate;
      repeat match type of Hspec with
             | context [representable ?a] => destruct (representable a); cbn [negb orb] in *
             end; try discriminate; try reflexivity.
    destruct (_ <? _); discriminate.
  - intros [Hrf|Hun]; [destruct (Hfail Hrf Hns); assumption|].
    destruct op, st as [e|]; cbn [st_abs option_map ea_spec_step ea_err_out ea_unrep] in *;
      try discriminate.
    + rewrite Hun, Bool.orb_true_r in Hspec. inversion Hspec; reflexivity.
    + rewrite Hun, Bool.orb_true_r in Hspec. inversion Hspec; reflexivity.
    + rewrite <- Bool.orb_assoc, Hun, Bool.orb_true_r in Hspec. inversion Hspec; reflexivity.
Qed.

(* C14 M2 for the array: shrink and free return normally and do what the ideal array does,
   whatever the allocator answers (in particular when it refuses everything) *)
Theorem ea_infallible ssz op e o :
  ea_inv e -> ea_op_ok op -> (is_shrink op = true \/ op = OFree) ->
  exists st' o' ev,
    ea_step 2 4 2 ssz op (Some e) o = Ok (XUnit, st', o', ev) /\ st_inv st' /\
    st_abs st' = snd (ea_spec_step op (Some (ea_abs e)) false).
Proof.
  intros Hi Hok Hop.
  destruct (ea_step_ok ssz op (Some e) o Hi Hok) as (x & st1 & o1 & ev & Hs & Hi1 & Hspec & _).
  cbn [st_abs option_map] in Hspec.
  destruct Hop as [Hsh| ->].
  - destruct op; try discriminate. cbn [ea_spec_step] in *. inversion Hspec; subst.
    eexists _, _, _. split; [exact Hs|]. split; [exact Hi1|]. symmetry. assumption.
  - cbn [ea_spec_step] in *. inversion Hspec; subst.
    eexists _, _, _. split; [exact Hs|]. split; [exact Hi1|]. symmetry. assumption.
Qed.

(* C14 M3 for one operation: the blocks live after the operation are those the array owns now
   plus what was handed to the client; after a refused request (state unchanged) the same as before *)
Theorem ea_step_no_leak ssz op st o x st' o' ev rest :
  st_inv st -> ea_op_ok op ->
  ea_step 2 4 2 ssz op st o = Ok (x, st', o', ev) ->
  exists h, heap_run (st_owned ssz st ++ rest) ev = Some h /\
            Permutation h (st_owned ssz st' ++ handed op x st ++ rest).
Proof.
  intros Hi Hok H.
  destruct (ea_step_ok ssz op st o Hi Hok) as (x1 & st1 & o1 & ev1 & Hs & _ & _ & _ & _ & _ & Hh).
  rewrite H in Hs. inversion Hs; subst. apply Hh.
Qed.

(* C12 M2 for one operation *)
Theorem ea_capacity_step ssz op st o x st' o' ev :
  st_inv st -> ea_op_ok op ->
  ea_step 2 4 2 ssz op st o = Ok (x, st', o', ev) ->
  (establishes_cap op x ev -> st_cap st') /\ (refused ev = false -> st_cap st -> st_cap st').
Proof.
  intros Hi Hok H.
  destruct (ea_step_ok ssz op st o Hi Hok) as (x1 & st1 & o1 & ev1 & Hs & _ & _ & _ & Hc1 & Hc2 & _).
  rewrite H in Hs. inversion Hs; subst. auto.
Qed.

(* after a growing resize(): at most twice the contents (or exactly the contents) *)
Theorem ea_grow_bound e nsize o e' o' ev :
  ea_inv e -> nsize < W ->
  resize_m 2 4 2 e nsize o = Ok (true, e', o', ev) ->
  ea_alloc e < ea_alloc e' -> ea_alloc e' <= 2 * ea_size e' /\ ea_alloc e' / 4 <= ea_size e'.
Proof.
  intros Hi Hn H Hg.
  destruct (resize_spec e nsize o Hi Hn) as (ok & e1 & o1 & ev1 & Hs & P1 & _).
  rewrite H in Hs. inversion Hs; subst.
  destruct (P1 eq_refl) as (_ & Hs1 & _ & Hc & Hgb & _). rewrite Hs1. auto.
Qed.

(* ------------------------------------------------------------------ *)
(* examples: the hypotheses are satisfiable and the statements are not vacuous *)

Definition ex_prog : list ea_op :=
  [OInit 2 3 170; OAppend [1; 2; 3; 4] 2 2; OAppend [9] 9223372036854775808 2;
   OShrink 1 5; OResize 4 2 7; OGet 1 4; OTruncate; OExportdup 2; OExport 3].

Example ex_prog_ok : Forall ea_op_ok ex_prog.
Proof.
  unfold ex_prog. repeat constructor; cbn; try lia; rewrite W_val; intros; try lia.
Qed.

Example ex_prog_runs :
  exists tr, ea_run 2 4 2 24 ex_prog None all_grant = Ok tr /\
             map tr_out tr =
             [XRc true; XRc true; XRc false; XUnit; XRc true; XRec [170; 7; 7; 7]; XRc true;
              XExport true [170; 170; 170; 170; 170; 7; 7; 7] 4;
              XExport true [170; 170; 170; 170; 170; 7; 7; 7] 2].
Proof. eexists. split; vm_compute; reflexivity. Qed.

(* one refused request: the append fails and the array is the same afterwards *)
Example ex_refused :
  exists tr, ea_run 2 4 2 24 [OInit 1 1 5; OAppend [6; 7] 2 1; OGetsize 1] None
                    {| ans := [true; true; false]; dflt := true |} = Ok tr /\
             map tr_out tr = [XRc true; XRc false; XSize 1].
Proof. eexists. split; vm_compute; reflexivity. Qed.

(* the storage bound without rounding is false: init(7,1); shrink(6,1) leaves alloc 7, size 1 *)
Example ea_capacity_strict_refuted :
  exists tr e,
    ea_run 2 4 2 24 [OInit 7 1 0; OShrink 6 1] None all_grant = Ok tr /\
    tr_final None tr = Some e /\ ea_size e = 1 /\ ea_alloc e = 7 /\
    cap_strict (ea_size e) (ea_alloc e) = false /\ cap_ok (ea_size e) (ea_alloc e) = true.
Proof. eexists. eexists. repeat split; vm_compute; reflexivity. Qed.
