(* datastruct/ptrheap.c: the operations of the model satisfy C13 (heap order, multiset, handles).
   Every theorem also says that the operation returns [Ok] - no access outside the array, no failed
   assertion, enough fuel - under its documented precondition. *)
From Coq Require Import NArith ZArith List Bool Arith Lia ZifyNat Permutation.
From LCP Require Import Base.CheckedMem DS.AllocOracle DS.PtrHeap DS.PtrHeapProofs.
Import ListNotations.
Local Open Scope res_scope.

Section Ops.
  Variable cmp : N -> N -> Z.
  Variable le : N -> N -> Prop.
  Hypothesis CO : compar_ok cmp le.

  Definition heap_inv (h : heap) : Prop :=
    nelems h = length (elems h) /\ heap_upto le (nelems h) (elems h).
  Definition handles (pos : N -> option nat) (h : heap) : Prop :=
    handles_upto (length (elems h)) pos (elems h).

  (* ---- getmin ---- *)
  Lemma getmin_run h : heap_inv h ->
    ptrheap_getmin h = Ok (match elems h with [] => None | x :: _ => Some x end).
  Proof.
    intros [Hn _]. unfold ptrheap_getmin. rewrite Hn. destruct (elems h) as [|x l]; reflexivity.
  Qed.

  Lemma getmin_least h x : heap_inv h -> ptrheap_getmin h = Ok (Some x) ->
    In x (elems h) /\ forall y, In y (elems h) -> le x y.
  Proof.
    intros HI Hg. rewrite (getmin_run h HI) in Hg. destruct HI as [Hn HO].
    assert (Hx : x = el (elems h) 0 /\ 0 < length (elems h)).
    { destruct (elems h); [discriminate|]. injection Hg as <-. split; [reflexivity | simpl; lia]. }
    destruct Hx as [-> Hpos]. split; [apply el_In; auto|].
    intros y Hy. destruct (In_el _ _ Hy) as (i & Hi & <-).
    apply (root_least cmp le CO (nelems h)); auto. lia.
  Qed.

  Lemma getmin_none h : heap_inv h -> (ptrheap_getmin h = Ok None <-> elems h = []).
  Proof.
    intros HI. rewrite (getmin_run h HI). destruct (elems h); split; intros; auto; discriminate.
  Qed.

  (* ---- shrink ---- *)
  Lemma shrink1_run l alloc o : small (length l) ->
    exists ok a o1 ev, resize_res alloc (N.of_nat (length l - 1) * 8) o (ok, a, o1, ev) /\
      shrink1 std_hc l alloc o = Ok (removelast l, a, o1, ev).
  Proof.
    intros Hs. unfold shrink1. rewrite bytes_small by auto. cbn [c_reclen std_hc].
    set (nsize := (if (N.of_nat (length l) * 8 <? 8)%N then 0%N else (N.of_nat (length l) * 8 - 8)%N)).
    assert (E : nsize = (N.of_nat (length l - 1) * 8)%N).
    { unfold nsize. destruct (N.ltb_spec (N.of_nat (length l) * 8) 8); lia. }
    rewrite E. unfold small in Hs.
    destruct (ea_resize_cases alloc (N.of_nat (length l - 1) * 8) o) as ([[[ok a] o1] ev] & Er & RR); [lia|].
    exists ok, a, o1, ev. split; auto. rewrite Er. reflexivity.
  Qed.

  (* ---- add ---- *)
  Definition add_sift (setrc : bool) (h : heap) (x : N) : list N * list note :=
    up_p cmp setrc (S (length (elems h ++ [x]))) (elems h ++ [x]) (nelems h + 1 - 1).

  Lemma add_run setrc h x o : heap_inv h -> small (length (elems h)) ->
    exists ok a o1 ev,
      resize_res (h_alloc h) (N.of_nat (length (elems h)) * 8 + 8) o (ok, a, o1, ev) /\
      ptrheap_add std_tc std_hc cmp setrc h x o =
      Ok (if ok then (true, mkheap (fst (add_sift setrc h x)) (nelems h + 1) a,
                      (if setrc then [(x, nelems h + 1 - 1)] else []) ++ snd (add_sift setrc h x), o1, ev)
          else (false, h, [], o1, ev)).
  Proof.
    intros [Hn _] Hs. unfold ptrheap_add. rewrite bytes_small by auto. cbn [c_reclen std_hc].
    unfold small in Hs.
    rewrite N.mod_small by (change W64 with (2 ^ 64)%N; lia).
    destruct (ea_resize_cases (h_alloc h) (N.of_nat (length (elems h)) * 8 + 8) o) as ([[[ok a] o1] ev] & Er & RR); [lia|].
    exists ok, a, o1, ev. split; auto. rewrite Er. cbn [bind].
    destruct ok; cbn [negb]; auto.
    rewrite heapifyup_eq by (rewrite app_length; simpl; lia). cbn [bind].
    unfold add_sift. destruct (up_p _ _ _ _ _). reflexivity.
  Qed.

  Lemma aup_snoc l x n : n = length l -> heap_upto le n l -> aup le (n + 1) (l ++ [x]) n.
  Proof.
    intros Hn H. subst n. split; [split|].
    - intros j Hj _ Hjn Hpn. assert (par j < j) by (apply par_lt; lia).
      rewrite !el_app_l by lia. apply H; lia.
    - intros j Hj Hp. assert (par j < j) by (apply par_lt; lia). lia.
    - intros j Hj Hp. assert (par j < j) by (apply par_lt; lia). lia.
  Qed.

  Theorem add_spec setrc h x o : heap_inv h -> small (length (elems h)) ->
    exists ok h' ns o' ev,
      ptrheap_add std_tc std_hc cmp setrc h x o = Ok (ok, h', ns, o', ev) /\
      (ok = false -> h' = h /\ ns = [] /\ refused ev = true) /\
      (ok = true -> refused ev = false /\ heap_inv h' /\ Permutation (elems h') (x :: elems h) /\
         (setrc = true -> forall pos, handles pos h -> ~ In x (elems h) -> handles (apply_notes pos ns) h')).
  Proof.
    intros HI Hs. destruct (add_run setrc h x o HI Hs) as (ok & a & o1 & ev & RR & E).
    destruct HI as [Hn HO].
    destruct ok.
    - do 5 eexists. split; [exact E|]. split; [discriminate|]. intros _.
      assert (HL : length (elems h ++ [x]) = nelems h + 1) by (rewrite app_length; simpl; lia).
      split; [inversion RR; subst; try reflexivity; unfold free_buf_ev; destruct (blk _); reflexivity|].
      split; [|split].
      + split; cbn [elems nelems].
        * unfold add_sift. rewrite length_up_p. auto.
        * unfold add_sift. apply (up_ord cmp le CO); try lia.
          replace (nelems h + 1 - 1) with (nelems h) by lia. apply aup_snoc; auto.
      + cbn [elems]. unfold add_sift. eapply perm_trans; [apply up_perm; lia|].
        apply Permutation_sym, Permutation_cons_append.
      + intros -> pos HP Hx. unfold handles. cbn [elems]. unfold add_sift.
        rewrite length_up_p, apply_notes_app.
        apply up_handles; try lia.
        intros i Hi. unfold apply_notes. cbn [fold_left]. unfold pos_upd. cbn [fst snd].
        rewrite HL in Hi. destruct (Nat.eq_dec i (nelems h)) as [->|Hne].
        * rewrite Hn, el_app_last, N.eqb_refl. f_equal. lia.
        * rewrite el_app_l by lia. destruct (N.eqb_spec (el (elems h) i) x) as [Ex|Ex].
          { exfalso. apply Hx. rewrite <- Ex. apply el_In. lia. }
          apply HP. lia.
    - do 5 eexists. split; [exact E|]. split; [|discriminate]. intros _.
      split; auto. split; auto. inversion RR; subst. reflexivity.
  Qed.

  Lemma add_events setrc h x o ok h' ns o' ev : heap_inv h -> small (length (elems h)) ->
    ptrheap_add std_tc std_hc cmp setrc h x o = Ok (ok, h', ns, o', ev) ->
    resize_res (h_alloc h) (N.of_nat (length (elems h)) * 8 + 8) o (ok, h_alloc h', o', ev).
  Proof.
    intros HI Hs E. destruct (add_run setrc h x o HI Hs) as (ok0 & a & o1 & ev0 & RR & E0).
    rewrite E0 in E. destruct ok0; injection E as <- <- <- <- <-; cbn [h_alloc]; auto.
    inversion RR; subst. exact RR.
  Qed.

  (* ---- delete ---- *)
  Lemma last_split (l : list N) : l <> [] -> l = removelast l ++ [el l (length l - 1)].
  Proof.
    intros H. destruct (exists_last H) as (a & x & ->).
    rewrite removelast_last, app_length. simpl. replace (length a + 1 - 1) with (length a) by lia.
    rewrite el_app_last. reflexivity.
  Qed.

  Lemma removelast_upd l i v : i < length l - 1 -> removelast (upd l i v) = upd (removelast l) i v.
  Proof.
    intros H. apply list_ext_el.
    - rewrite !length_removelast, !length_upd, length_removelast. reflexivity.
    - intros k Hk. rewrite length_removelast, length_upd in Hk.
      rewrite el_removelast by (rewrite length_upd; lia).
      rewrite !el_upd by (rewrite ?length_removelast; lia).
      destruct (k =? i); auto. rewrite el_removelast by lia. reflexivity.
  Qed.

  Definition del_sift (setrc : bool) (l : list N) (n rc : nat) : list N * list note :=
    let l1 := upd l rc (el l (n - 1)) in
    let r := if (0 <? rc) && (cmp (el l1 rc) (el l1 (par rc)) <? 0)%Z
             then up_p cmp setrc (S (S (length l))) l1 rc
             else down_p cmp setrc (S (length l)) l1 rc n in
    (fst r, (if setrc then [(el l (n - 1), rc)] else []) ++ snd r).

  Lemma up_p_step setrc f l i : i <> 0 -> (cmp (el l i) (el l (par i)) <? 0)%Z = true ->
    up_p cmp setrc (S f) l i =
    (fst (up_p cmp setrc f (swap_p l i (par i)) (par i)),
     swap_notes l i (par i) setrc ++ snd (up_p cmp setrc f (swap_p l i (par i)) (par i))).
  Proof.
    intros Hi EC. cbn [up_p]. destruct (Nat.eqb_spec i 0); [contradiction|].
    replace (cmp (el l i) (el l (par i)) >=? 0)%Z with false
      by (rewrite Z.geb_leb; symmetry; apply Z.leb_gt; apply Z.ltb_lt; auto).
    reflexivity.
  Qed.

  Lemma delete_sift_run setrc l n rc : n = length l -> rc < n ->
    delete_sift std_tc cmp setrc l n rc = Ok (del_sift setrc l n rc).
  Proof.
    intros Hn Hrc. unfold delete_sift, del_sift. cbv zeta.
    rewrite getp_ok by lia. cbn [bind]. rewrite putp_ok by lia. cbn [bind].
    set (l1 := upd l rc (el l (n - 1))).
    assert (HL1 : length l1 = length l) by apply length_upd.
    assert (E1 : el l1 rc = el l (n - 1)) by (apply el_upd_same; lia).
    assert (En0 : (if setrc then let* y := getp l1 rc in Ok [(y, rc)] else Ok []) =
                  Ok (if setrc then [(el l (n - 1), rc)] else [])).
    { destruct setrc; auto. rewrite getp_ok by lia. rewrite E1. reflexivity. }
    rewrite En0. cbn [bind]. rewrite parent_std.
    destruct (Nat.ltb_spec 0 rc) as [H0|H0]; cbn [andb].
    - assert (par rc < rc) by (apply par_lt; auto).
      rewrite !getp_ok by lia. cbn [bind].
      destruct (cmp (el l1 rc) (el l1 (par rc)) <? 0)%Z eqn:EC.
      + rewrite swap_ok by lia. cbn [bind]. rewrite length_swap, HL1.
        rewrite heapifyup_eq by (rewrite ?length_swap; lia). cbn [bind].
        rewrite (up_p_step setrc (S (length l))) by (auto; lia).
        destruct (up_p cmp setrc (S (length l)) (swap_p l1 rc (par rc)) (par rc)). reflexivity.
      + rewrite HL1. rewrite heapify_eq by lia. cbn [bind].
        destruct (down_p cmp setrc (S (length l)) l1 rc n). reflexivity.
    - rewrite HL1. rewrite heapify_eq by lia. cbn [bind].
      destruct (down_p cmp setrc (S (length l)) l1 rc n). reflexivity.
  Qed.

  Lemma almost_upd n m l rc v : heap_upto le n l -> rc < m -> m <= n -> n <= length l ->
    almostk le 0 m (upd l rc v) rc.
  Proof.
    intros H Hrc Hm Hn. split.
    - intros j Hj _ Hjr Hpr. rewrite !el_upd_other by auto. apply H; lia.
    - intros j Hj Hpj H0 _. assert (par rc < rc) by (apply par_lt; auto).
      assert (par j < j) by (apply par_lt; lia).
      assert (L1 : le (el l (par rc)) (el l rc)) by (apply H; lia).
      assert (L2 : le (el l rc) (el l j)) by (rewrite <- Hpj; apply H; lia).
      rewrite !el_upd_other by lia. apply (le_trans cmp le CO) with (el l rc); auto.
  Qed.

  (* the sift phase of an interior deletion: heap order on the first n-1 slots, slot n-1 untouched *)
  Lemma del_sift_props setrc l n rc : n = length l -> rc < n - 1 -> heap_upto le n l ->
    let L := fst (del_sift setrc l n rc) in
    length L = n /\ el L (n - 1) = el l (n - 1) /\ heap_upto le (n - 1) L /\
    Permutation L (upd l rc (el l (n - 1))) /\
    (setrc = true -> forall pos, handles_upto n pos l ->
       handles_upto (n - 1) (apply_notes pos (snd (del_sift setrc l n rc))) L).
  Proof.
    intros Hn Hrc HO. unfold del_sift. cbv zeta. cbn [fst snd].
    set (x := el l (n - 1)). set (l1 := upd l rc x).
    assert (HL1 : length l1 = length l) by apply length_upd.
    assert (E1 : el l1 rc = x) by (apply el_upd_same; lia).
    assert (Elast : el l1 (n - 1) = x) by (unfold l1; rewrite el_upd_other by lia; reflexivity).
    assert (AK : almostk le 0 (n - 1) l1 rc) by (apply almost_upd with (n := n); auto; lia).
    assert (HP1 : setrc = true -> forall pos, handles_upto n pos l ->
                  handles_upto (n - 1) (apply_notes pos (if setrc then [(x, rc)] else [])) l1).
    { intros -> pos HP i Hi. unfold apply_notes. cbn [fold_left]. unfold pos_upd. cbn [fst snd].
      unfold l1. rewrite el_upd by lia. destruct (Nat.eqb_spec i rc) as [->|Hne].
      - rewrite N.eqb_refl. reflexivity.
      - destruct (N.eqb_spec (el l i) x) as [Ex|Ex].
        + exfalso. unfold x in Ex. assert (i = n - 1) by (eapply handles_inj; eauto; lia). lia.
        + apply HP. lia. }
    destruct ((0 <? rc) && (cmp (el l1 rc) (el l1 (par rc)) <? 0)%Z) eqn:EU.
    - (* sift up *)
      apply andb_true_iff in EU. destruct EU as [H0 EC]. apply Nat.ltb_lt in H0.
      assert (Hpar : par rc < rc) by (apply par_lt; auto).
      apply (ltb_true cmp le CO) in EC. destruct EC as [EC _].
      rewrite E1 in EC. unfold l1 in EC. rewrite el_upd_other in EC by lia. fold l1 in EC.
      split; [rewrite length_up_p; lia|].
      split; [rewrite up_frame by lia; auto|].
      split; [|split].
      + apply (up_ord cmp le CO); try lia. split; auto.
        intros j Hj Hpj. rewrite E1. unfold l1. rewrite el_upd_other by (assert (par j < j) by (apply par_lt; lia); lia).
        apply (le_trans cmp le CO) with (el l (par rc)); auto.
        apply (le_trans cmp le CO) with (el l rc); [apply HO; lia|]. rewrite <- Hpj. apply HO; lia.
      + apply up_perm. lia.
      + intros Hs pos HP. rewrite apply_notes_app. subst setrc. apply up_handles; try lia. apply HP1; auto.
    - (* sift down, with the stale slot *)
      rewrite (down_stale cmp le CO) by (try lia; rewrite E1, Elast; reflexivity).
      split; [rewrite length_down_p; lia|].
      split; [rewrite down_frame by lia; auto|].
      split; [|split].
      + apply (down_ord cmp le CO); try lia. split; auto.
        intros H0 _ _. apply andb_false_iff in EU. destruct EU as [EU|EU]; [apply Nat.ltb_ge in EU; lia|].
        apply (ltb_false cmp le CO) in EU. exact EU.
      + apply down_perm. lia.
      + intros Hs pos HP. rewrite apply_notes_app. subst setrc. apply down_handles; try lia. apply HP1; auto.
  Qed.

  Theorem delete_spec setrc h rc o : heap_inv h -> small (length (elems h)) -> rc < nelems h ->
    exists h' ns o' ev,
      ptrheap_delete std_tc std_hc cmp setrc h rc o = Ok (h', ns, o', ev) /\
      heap_inv h' /\ Permutation (el (elems h) rc :: elems h') (elems h) /\
      (setrc = true -> forall pos, handles pos h -> handles (apply_notes pos ns) h') /\
      (exists ok, resize_res (h_alloc h) (N.of_nat (nelems h - 1) * 8) o (ok, h_alloc h', o', ev)).
  Proof.
    intros [Hn HO] Hs Hrc. unfold ptrheap_delete. cbv zeta.
    destruct (Nat.eqb_spec (nelems h) 0) as [|Hnz]; [lia|].
    set (l := elems h) in *. set (n := nelems h) in *.
    assert (Hne : l <> []) by (intro E; rewrite E in Hn; simpl in Hn; lia).
    destruct (Nat.eqb_spec rc (n - 1)) as [Erc|Erc]; cbn [negb].
    - (* the last element: nothing moves *)
      cbn [bind]. destruct (shrink1_run l (h_alloc h) o Hs) as (ok & a & o1 & ev & RR & ES).
      rewrite ES. cbn [bind]. do 4 eexists. split; [reflexivity|].
      split; [|split; [|split]]; [| | |exists ok; cbn [h_alloc]; rewrite Hn; exact RR].
      + split; cbn [elems nelems]; [rewrite length_removelast; lia|].
        intros j Hj _. assert (par j < j) by (apply par_lt; lia).
        rewrite !el_removelast by lia. apply HO; lia.
      + cbn [elems]. rewrite Erc, Hn. eapply perm_trans; [apply Permutation_cons_append|].
        rewrite <- (last_split l Hne). apply Permutation_refl.
      + intros _ pos HP i Hi. cbn [elems] in *. rewrite length_removelast in Hi.
        rewrite el_removelast by lia. apply HP. fold l. lia.
    - rewrite delete_sift_run by lia.
      destruct (del_sift_props setrc l n rc Hn ltac:(lia) HO) as (HL & Elast & HO' & HPm & HH).
      destruct (del_sift setrc l n rc) as [L NS]. cbn [fst snd] in *. cbn [bind].
      assert (HsL : small (length L)) by (rewrite HL, Hn; auto).
      destruct (shrink1_run L (h_alloc h) o HsL) as (ok & a & o1 & ev & RR & ES).
      rewrite ES. cbn [bind]. do 4 eexists. split; [reflexivity|].
      split; [|split; [|split]]; [| | |exists ok; cbn [h_alloc]; rewrite <- HL; exact RR].
      + split; cbn [elems nelems]; [rewrite length_removelast; lia|].
        intros j Hj _. assert (par j < j) by (apply par_lt; lia).
        rewrite !el_removelast by lia. apply HO'; lia.
      + cbn [elems].
        assert (HLne : L <> []) by (intro E; rewrite E in HL; simpl in HL; lia).
        set (x := el l (n - 1)) in *.
        assert (P1 : Permutation (removelast L) (upd (removelast l) rc x)).
        { rewrite <- removelast_upd by lia.
          apply Permutation_app_inv_r with (l := [x]).
          assert (HL1 : length (upd l rc x) = n) by (rewrite length_upd; lia).
          assert (E1 : upd l rc x <> []) by (intro E; rewrite E in HL1; simpl in HL1; lia).
          rewrite (last_split L HLne) in HPm. rewrite (last_split _ E1) in HPm.
          rewrite HL, HL1, Elast in HPm. rewrite el_upd_other in HPm by lia. exact HPm. }
        eapply perm_trans; [apply perm_skip; exact P1|].
        replace (el l rc) with (el (removelast l) rc) by (apply el_removelast; lia).
        eapply perm_trans; [apply upd_perm; rewrite length_removelast; lia|].
        unfold x. rewrite Hn. eapply perm_trans; [apply Permutation_cons_append|].
        rewrite <- (last_split l Hne). apply Permutation_refl.
      + intros Hs' pos HP i Hi. cbn [elems] in *. rewrite length_removelast in Hi.
        rewrite el_removelast by lia. apply HH; auto; try lia. unfold handles in HP. fold l in HP. rewrite <- Hn in HP. exact HP.
  Qed.

  Corollary delete_by_handle h x o pos : heap_inv h -> small (length (elems h)) ->
    handles pos h -> In x (elems h) ->
    exists p h' ns o' ev,
      pos x = Some p /\ ptrheap_delete std_tc std_hc cmp true h p o = Ok (h', ns, o', ev) /\
      heap_inv h' /\ Permutation (x :: elems h') (elems h) /\ handles (apply_notes pos ns) h'.
  Proof.
    intros HI Hs HP Hin. destruct (In_el _ _ Hin) as (p & Hp & Ex).
    destruct (delete_spec true h p o HI Hs) as (h' & ns & o' & ev & E & HI' & HPm & HH & _).
    { destruct HI as [Hn _]. lia. }
    exists p, h', ns, o', ev. rewrite Ex in HPm. split; [rewrite <- Ex; apply HP; auto|].
    repeat (split; auto).
  Qed.

  (* ---- decrease / increase / increasemin ---- *)
  Theorem decrease_spec setrc h rc : nelems h = length (elems h) -> rc < nelems h ->
    aup le (nelems h) (elems h) rc ->
    exists h' ns,
      ptrheap_decrease std_tc cmp setrc h rc = Ok (h', ns) /\
      heap_inv h' /\ Permutation (elems h') (elems h) /\ h_alloc h' = h_alloc h /\
      (setrc = true -> forall pos, handles pos h -> handles (apply_notes pos ns) h').
  Proof.
    intros Hn Hrc HA. unfold ptrheap_decrease. rewrite heapifyup_eq by lia. cbn [bind].
    destruct (up_p cmp setrc (S (length (elems h))) (elems h) rc) as [L NS] eqn:E.
    assert (EL : L = fst (up_p cmp setrc (S (length (elems h))) (elems h) rc)) by (rewrite E; auto).
    assert (ENS : NS = snd (up_p cmp setrc (S (length (elems h))) (elems h) rc)) by (rewrite E; auto).
    do 2 eexists. split; [reflexivity|]. split; [|split; [|split]]; cbn [elems nelems h_alloc]; auto.
    - split; cbn [elems nelems]; subst L.
      + rewrite length_up_p. auto.
      + apply (up_ord cmp le CO); auto; lia.
    - subst L. apply up_perm. lia.
    - intros -> pos HP. unfold handles. cbn [elems]. subst L NS. rewrite length_up_p.
      apply up_handles; auto; lia.
  Qed.

  Theorem increase_spec setrc h rc : nelems h = length (elems h) ->
    adown le 0 (nelems h) (elems h) rc ->
    exists h' ns,
      ptrheap_increase std_tc cmp setrc h rc = Ok (h', ns) /\
      heap_inv h' /\ Permutation (elems h') (elems h) /\ h_alloc h' = h_alloc h /\
      (setrc = true -> forall pos, handles pos h -> handles (apply_notes pos ns) h').
  Proof.
    intros Hn HA. unfold ptrheap_increase. rewrite heapify_eq by lia. cbn [bind].
    destruct (down_p cmp setrc (S (length (elems h))) (elems h) rc (nelems h)) as [L NS] eqn:E.
    assert (EL : L = fst (down_p cmp setrc (S (length (elems h))) (elems h) rc (nelems h))) by (rewrite E; auto).
    assert (ENS : NS = snd (down_p cmp setrc (S (length (elems h))) (elems h) rc (nelems h))) by (rewrite E; auto).
    do 2 eexists. split; [reflexivity|]. split; [|split; [|split]]; cbn [elems nelems h_alloc]; auto.
    - split; cbn [elems nelems]; subst L.
      + rewrite length_down_p. auto.
      + apply (down_ord cmp le CO); auto; lia.
    - subst L. apply down_perm. lia.
    - intros -> pos HP. unfold handles. cbn [elems]. subst L NS. rewrite length_down_p.
      apply down_handles; auto; lia.
  Qed.

  Theorem increasemin_spec setrc h : nelems h = length (elems h) ->
    adown le 0 (nelems h) (elems h) 0 ->
    exists h' ns,
      ptrheap_increasemin std_tc cmp setrc h = Ok (h', ns) /\
      heap_inv h' /\ Permutation (elems h') (elems h) /\ h_alloc h' = h_alloc h /\
      (setrc = true -> forall pos, handles pos h -> handles (apply_notes pos ns) h').
  Proof. apply increase_spec. Qed.

  (* ---- create ---- *)
  Lemma create_loop_run : forall k fuel l n, n = length l -> k <= n -> k < fuel -> ord le k n l ->
    exists l', create_loop std_tc cmp fuel l (dec_wrap k) n = Ok l' /\ length l' = n /\
               ord le 0 n l' /\ Permutation l' l.
  Proof.
    induction k; intros fuel l n Hn Hk Hf HO; (destruct fuel; [lia|]); cbn [create_loop dec_wrap].
    - exists l. auto.
    - destruct (Nat.ltb_spec k n); [|lia].
      rewrite heapify_eq by lia. cbn [bind].
      destruct (down_p cmp false (S (length l)) l k n) as [l1 ns] eqn:E.
      assert (EL : l1 = fst (down_p cmp false (S (length l)) l k n)) by (rewrite E; auto).
      destruct (IHk fuel l1 n) as (l' & Er & Hl & HO' & HP); try lia.
      + subst l1. rewrite length_down_p. auto.
      + subst l1. apply (down_ord cmp le CO); try lia.
        split; [split|].
        * intros j Hj Hkj _ Hne. apply HO; lia.
        * intros j Hj Hpj H0 Hkk. assert (par k < k) by (apply par_lt; auto). lia.
        * intros H0 _ Hkk. assert (par k < k) by (apply par_lt; auto). lia.
      + exists l'. split; auto. split; auto. split; auto.
        eapply perm_trans; [exact HP|]. subst l1. apply down_perm. lia.
  Qed.

  Theorem create_spec setrc ptrs o : small (length ptrs) ->
    exists oh ns o' ev,
      ptrheap_create std_tc std_hc cmp setrc ptrs o = Ok (oh, ns, o', ev) /\
      (oh = None -> ns = [] /\ refused ev = true) /\
      (forall h, oh = Some h ->
         refused ev = false /\ heap_inv h /\ Permutation (elems h) ptrs /\
         (setrc = true -> NoDup ptrs -> forall pos, handles (apply_notes pos ns) h)).
  Proof.
    intros Hs. unfold ptrheap_create. cbv zeta.
    destruct (next o) as [okH o1]. destruct okH; cbn [negb].
    2:{ do 4 eexists. split; [reflexivity|]. split; [auto|discriminate]. }
    destruct (next o1) as [okE o2]. destruct okE; cbn [negb].
    2:{ do 4 eexists. split; [reflexivity|]. split; [auto|discriminate]. }
    rewrite bytes_small by auto.
    destruct (ea_resize_cases 0%N (N.of_nat (length ptrs) * 8) o2) as ([[[ok a] o3] ev] & Er & RR).
    { unfold small in Hs. lia. }
    rewrite Er. cbn [bind]. destruct ok; cbn [negb].
    - destruct (create_loop_run (length ptrs) (S (length ptrs)) ptrs (length ptrs)) as (l' & El & Hl & HO & HP); auto.
      { intros j Hj Hk. assert (par j < j) by (apply par_lt; lia). lia. }
      rewrite El. cbn [bind]. do 4 eexists. split; [reflexivity|]. split; [discriminate|].
      intros h [= <-]. split; [|split; [|split]].
      + inversion RR; subst; cbn; auto.
      + split; cbn [elems nelems]; auto.
      + exact HP.
      + intros -> ND pos. unfold handles. cbn [elems]. intros i Hi.
        rewrite notify_all_handles; auto. eapply Permutation_NoDup; [apply Permutation_sym; exact HP | exact ND].
    - do 4 eexists. split; [reflexivity|]. split; [|discriminate]. intros _. split; auto.
      inversion RR; subst. cbn. reflexivity.
  Qed.

  (* ---- the documented preconditions of increase / decrease, from "the key grew / shrank" ---- *)
  Section KeyChange.
    Variable le0 : N -> N -> Prop.          (* the order before the key of x changed *)
    Hypothesis le0_trans : forall a b c, le0 a b -> le0 b c -> le0 a c.
    Variable x : N.
    Hypothesis others : forall a b, a <> x -> b <> x -> (le a b <-> le0 a b).

    Lemma grew_adown n l rc : n <= length l -> rc < n -> el l rc = x ->
      (forall i j, i < n -> j < n -> el l i = el l j -> i = j) ->
      (forall a, le0 a x -> le a x) ->
      heap_upto le0 n l -> adown le 0 n l rc.
    Proof.
      intros Hn Hrc Ex Inj Hg HO.
      assert (NX : forall j, j < n -> j <> rc -> el l j <> x).
      { intros j Hj Hne E. apply Hne. apply Inj; auto. congruence. }
      split; [split|].
      - intros j Hj _ Hjr Hpr. assert (par j < j) by (apply par_lt; lia).
        apply others; [apply NX; lia | apply NX; lia |]. apply HO; lia.
      - intros j Hj Hpj H0 _. assert (par j < j) by (apply par_lt; lia).
        assert (par rc < rc) by (apply par_lt; lia).
        apply others; [apply NX; lia | apply NX; lia |].
        apply le0_trans with (el l rc); [apply HO; lia|]. rewrite <- Hpj. apply HO; lia.
      - intros H0 _ _. rewrite Ex. apply Hg. rewrite <- Ex. apply HO; lia.
    Qed.

    Lemma shrank_aup n l rc : n <= length l -> rc < n -> el l rc = x ->
      (forall i j, i < n -> j < n -> el l i = el l j -> i = j) ->
      (forall a, le0 x a -> le x a) ->
      heap_upto le0 n l -> aup le n l rc.
    Proof.
      intros Hn Hrc Ex Inj Hg HO.
      assert (NX : forall j, j < n -> j <> rc -> el l j <> x).
      { intros j Hj Hne E. apply Hne. apply Inj; auto. congruence. }
      split; [split|].
      - intros j Hj _ Hjr Hpr. assert (par j < j) by (apply par_lt; lia).
        apply others; [apply NX; lia | apply NX; lia |]. apply HO; lia.
      - intros j Hj Hpj H0 _. assert (par j < j) by (apply par_lt; lia).
        assert (par rc < rc) by (apply par_lt; lia).
        apply others; [apply NX; lia | apply NX; lia |].
        apply le0_trans with (el l rc); [apply HO; lia|]. rewrite <- Hpj. apply HO; lia.
      - intros j Hj Hpj. rewrite Ex. apply Hg. rewrite <- Ex, <- Hpj. apply HO; lia.
    Qed.
  End KeyChange.
End Ops.

Lemma heap_inv_ext (le1 le2 : N -> N -> Prop) h :
  (forall a b, In a (elems h) -> In b (elems h) -> le1 a b -> le2 a b) ->
  heap_inv le1 h -> heap_inv le2 h.
Proof.
  intros H [Hn HO]. split; auto. intros j Hj Hk. assert (par j < j) by (apply par_lt; lia).
  apply H; try (apply el_In; lia). apply HO; auto.
Qed.

Lemma handles_NoDup pos h : handles pos h -> NoDup (elems h).
Proof.
  intros H. apply (NoDup_nth (elems h) 0%N). intros i j Hi Hj E.
  eapply handles_inj; eauto.
Qed.

