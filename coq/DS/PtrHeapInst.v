(* The heap and timer-queue models instantiated with the constants regenerated from the C text. *)
From Coq Require Import NArith ZArith List.
From LCP Require Import Base.CheckedMem DS.AllocOracle Gen.Repo_heap DS.PtrHeap DS.TimerQueue.

Definition repo_tc : treeconsts :=
  {| t_psub := N.to_nat heap_parent_sub; t_pdiv := N.to_nat heap_parent_div;
     t_cmul := N.to_nat heap_child_mul; t_c1 := N.to_nat heap_child_off1; t_c2 := N.to_nat heap_child_off2 |}.

Definition repo_hc : heapconsts :=
  {| c_hsz := ptrheap_struct_size; c_easz := heap_ea_struct_size; c_reclen := ptrlist_reclen;
     c_gmul := heap_ea_grow_mul; c_sdiv := heap_ea_shrink_div; c_smul := heap_ea_shrink_mul |}.

Definition ph_create := ptrheap_create repo_tc repo_hc.
Definition ph_add := ptrheap_add repo_tc repo_hc.
Definition ph_getmin := ptrheap_getmin.
Definition ph_delete := ptrheap_delete repo_tc repo_hc.
Definition ph_deletemin := ptrheap_deletemin repo_tc repo_hc.
Definition ph_decrease := ptrheap_decrease repo_tc.
Definition ph_increase := ptrheap_increase repo_tc.
Definition ph_increasemin := ptrheap_increasemin repo_tc.
Definition ph_free_ev := ptrheap_free_ev repo_hc.

Definition tq_init := timerqueue_init repo_tc repo_hc timerqueue_struct_size.
Definition tq_add := timerqueue_add repo_tc repo_hc timerrec_struct_size.
Definition tq_delete := timerqueue_delete repo_tc repo_hc timerrec_struct_size.
Definition tq_increase := timerqueue_increase repo_tc.
Definition tq_getmin := timerqueue_getmin.
Definition tq_getptr := timerqueue_getptr repo_tc repo_hc timerrec_struct_size.
Definition tq_free := timerqueue_free repo_tc repo_hc timerqueue_struct_size timerrec_struct_size.
