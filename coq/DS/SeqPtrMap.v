(* datastruct/seqptrmap.c: MODEL on top of the elastic-queue model (pointers stored as 8-byte
   little-endian records, NULL tombstones, leading-tombstone trimming, int64_t offset) and SPEC
   (association list number -> pointer with the next number to issue).  No proofs here. *)
From Coq Require Import NArith ZArith List Bool.
From LCP Require Import Base.CheckedMem DS.AllocOracle DS.ElasticArray DS.ElasticQueue.
Import ListNotations.
Local Open Scope N_scope.
Local Open Scope res_scope.

Definition INT64_MAX : Z := (2 ^ 63 - 1)%Z.

(* a pointer value as the bytes of a void * object (little endian) and back *)
Fixpoint le_bytes (n : nat) (v : N) : list N :=
  match n with O => [] | S k => v mod 256 :: le_bytes k (v / 256) end.
Fixpoint le_val (bs : list N) : N :=
  match bs with [] => 0 | b :: r => b + 256 * le_val r end.

Record spmap : Type := { sp_ptrs : equeue; sp_offset : Z; sp_len : N }.

Section Model.
  Variables gmul sdiv smul : N.
  Variables ssz qsz : N.
  Variable msz : N.                 (* sizeof(struct seqptrmap) *)
  Variable psz : N.                 (* sizeof(void * ) *)

  (* seqptrmap_init *)
  Definition spm_init (o : oracle) : res (option spmap * oracle * list aev) :=
    let (ok, o1) := next o in
    if negb ok then Ok (None, o1, [AMalloc msz false])
    else
      let* (r, o2, ev) := eq_init gmul sdiv smul ssz qsz psz o1 in
      match r with
      | None => Ok (None, o2, AMalloc msz true :: ev ++ [AFree msz])
      | Some q => Ok (Some {| sp_ptrs := q; sp_offset := 0; sp_len := 0 |}, o2, AMalloc msz true :: ev)
      end.

  (* seqptrmap_add: None = -1 *)
  Definition spm_add (m : spmap) (ptr : N) (o : oracle) : res (option Z * spmap * oracle * list aev) :=
    let* (ok, q1, o1, ev) := eq_add gmul sdiv smul (sp_ptrs m) (le_bytes (N.to_nat psz) ptr) o in
    if negb ok then Ok (None, {| sp_ptrs := q1; sp_offset := sp_offset m; sp_len := sp_len m |}, o1, ev)
    else
      let len1 := (sp_len m + 1) mod W in
      if (INT64_MAX <? Z.of_N len1)%Z then AssertFail
      else if (INT64_MAX - Z.of_N len1 <? sp_offset m)%Z then AssertFail
      else Ok (Some (sp_offset m + Z.of_N len1 - 1)%Z,
               {| sp_ptrs := q1; sp_offset := sp_offset m; sp_len := len1 |}, o1, ev).

  (* (uint64_t)(i - M->offset) *)
  Definition spm_index (m : spmap) (i : Z) : N := Z.to_N ((i - sp_offset m) mod 2 ^ 64)%Z.

  (* *(void ** )elasticqueue_get(M->ptrs, pos) *)
  Definition spm_load (m : spmap) (pos : N) : res N :=
    let* r := eq_peek (sp_ptrs m) pos in
    match r with
    | None => Fault                                    (* dereferencing NULL *)
    | Some bs => Ok (le_val bs)
    end.

  (* seqptrmap_get: 0 = NULL *)
  Definition spm_get (m : spmap) (i : Z) : res N :=
    if (i <? sp_offset m)%Z then Ok 0
    else if sp_len m <=? spm_index m i then Ok 0
    else spm_load m (spm_index m i).

  (* seqptrmap_getmin *)
  Definition spm_getmin (m : spmap) : Z :=
    if eq_getlen (sp_ptrs m) =? 0 then (-1)%Z else sp_offset m.

  (* the while loop of seqptrmap_delete *)
  Fixpoint spm_trim (fuel : nat) (m : spmap) (o : oracle) (acc : list aev)
    : res (spmap * oracle * list aev) :=
    if eq_getlen (sp_ptrs m) =? 0 then Ok (m, o, acc)
    else
      let* p := spm_load m 0 in
      if negb (p =? 0) then Ok (m, o, acc)
      else
        match fuel with
        | O => OutOfFuel
        | S f =>
          let* (q1, o1, ev) := eq_delete gmul sdiv smul (sp_ptrs m) o in
          if (INT64_MAX <? sp_offset m + 1)%Z then Fault       (* signed overflow *)
          else
            spm_trim f {| sp_ptrs := q1; sp_offset := (sp_offset m + 1)%Z;
                          sp_len := (sp_len m + W - 1) mod W |} o1 (acc ++ ev)
        end.

  (* seqptrmap_delete *)
  Definition spm_delete (m : spmap) (i : Z) (o : oracle) : res (spmap * oracle * list aev) :=
    if (i <? sp_offset m)%Z then Ok (m, o, [])
    else if sp_len m <=? spm_index m i then Ok (m, o, [])
    else
      let* q1 := eq_store (sp_ptrs m) (spm_index m i) (le_bytes (N.to_nat psz) 0) in
      let m1 := {| sp_ptrs := q1; sp_offset := sp_offset m; sp_len := sp_len m |} in
      spm_trim (N.to_nat (eq_getlen q1)) m1 o [].

  Definition spm_free_ev (m : spmap) : list aev := eq_free_ev ssz qsz (sp_ptrs m) ++ [AFree msz].

  (* ---------- client programs ---------- *)
  Inductive spm_op : Type :=
  | SInit
  | SAdd (ptr : N)
  | SGet (i : Z)
  | SGetmin
  | SDelete (i : Z)
  | SFree.

  Inductive spm_out : Type :=
  | ZNoObj
  | ZRc (ok : bool)
  | ZUnit
  | ZNum (z : Z)             (* add: number issued or -1; getmin *)
  | ZPtr (p : N).            (* get: stored pointer or 0 *)

  Definition spm_step (op : spm_op) (st : option spmap) (o : oracle)
    : res (spm_out * option spmap * oracle * list aev) :=
    match op, st with
    | SInit, None =>
      let* (r, o1, ev) := spm_init o in
      Ok (ZRc (match r with Some _ => true | None => false end), r, o1, ev)
    | SInit, Some _ => Ok (ZNoObj, st, o, [])
    | _, None => Ok (ZNoObj, None, o, [])
    | SAdd p, Some m =>
      let* (r, m1, o1, ev) := spm_add m p o in
      Ok (ZNum (match r with Some z => z | None => (-1)%Z end), Some m1, o1, ev)
    | SGet i, Some m => let* p := spm_get m i in Ok (ZPtr p, st, o, [])
    | SGetmin, Some m => Ok (ZNum (spm_getmin m), st, o, [])
    | SDelete i, Some m =>
      let* (m1, o1, ev) := spm_delete m i o in Ok (ZUnit, Some m1, o1, ev)
    | SFree, Some m => Ok (ZUnit, None, o, spm_free_ev m)
    end.

  Fixpoint spm_run (ops : list spm_op) (st : option spmap) (o : oracle)
    : res (list (spm_out * option spmap * list aev)) :=
    match ops with
    | [] => Ok []
    | op :: r =>
      let* (x, st1, o1, ev) := spm_step op st o in
      let* t := spm_run r st1 o1 in
      Ok ((x, st1, ev) :: t)
    end.
End Model.

(* ---------------- spec: association list + next number ---------------- *)
Record amap : Type := { am_next : Z; am_live : list (Z * N) }.

Fixpoint am_lookup (l : list (Z * N)) (i : Z) : N :=
  match l with
  | [] => 0
  | (k, p) :: r => if (k =? i)%Z then p else am_lookup r i
  end.

Definition am_remove (l : list (Z * N)) (i : Z) : list (Z * N) :=
  filter (fun kp => negb (fst kp =? i)%Z) l.

(* least number that still has a pointer, or -1 *)
Definition am_min (l : list (Z * N)) : Z :=
  match l with
  | [] => (-1)%Z
  | (k, _) :: r => fold_left (fun a kp => Z.min a (fst kp)) r k
  end.

Definition spm_spec_step (op : spm_op) (st : option amap) (refused : bool) : spm_out * option amap :=
  match op, st with
  | SInit, None =>
    if refused then (ZRc false, None) else (ZRc true, Some {| am_next := 0; am_live := [] |})
  | SInit, Some _ => (ZNoObj, st)
  | _, None => (ZNoObj, None)
  | SAdd p, Some a =>
    if refused then (ZNum (-1), st)
    else (ZNum (am_next a),
          Some {| am_next := (am_next a + 1)%Z; am_live := am_live a ++ [(am_next a, p)] |})
  | SGet i, Some a => (ZPtr (am_lookup (am_live a) i), st)
  | SGetmin, Some a => (ZNum (am_min (am_live a)), st)
  | SDelete i, Some a => (ZUnit, Some {| am_next := am_next a; am_live := am_remove (am_live a) i |})
  | SFree, Some _ => (ZUnit, None)
  end.

Fixpoint spm_spec_run (ops : list spm_op) (st : option amap) (flags : list bool)
  : list (spm_out * option amap) :=
  match ops with
  | [] => []
  | op :: r =>
    let f := match flags with [] => false | b :: _ => b end in
    let '(x, st1) := spm_spec_step op st f in
    (x, st1) :: spm_spec_run r st1 (tl flags)
  end.
