(* Proofs about the elastic-queue model (C12 M3; C14 for the queue). *)
From Coq Require Import NArith ZArith List Bool Lia Arith Permutation.
From LCP Require Import Base.CheckedMem.
From LCP Require Import DS.AllocOracle.
From LCP Require Import DS.ElasticArray.
From LCP Require Import DS.ElasticArrayProofs.
From LCP Require Import DS.ElasticQueue.
Import ListNotations.
Local Open Scope N_scope.
Local Open Scope res_scope.
Ltac Zify.zify_post_hook ::= Z.to_euclidean_division_equations.

(* ------------------------------------------------------------------ *)
(* list helpers *)

Lemma skipn_add {A} (l : list A) : forall a b, skipn a (skipn b l) = skipn (b + a) l.
Proof.
  induction l as [|x l IH]; intros a b.
  - rewrite !skipn_nil. reflexivity.
  - destruct b as [|b]; [reflexivity|]. cbn [skipn Nat.add]. apply IH.
Qed.

Lemma firstn_add {A} (l : list A) a b : firstn (a + b) l = firstn a l ++ firstn b (skipn a l).
Proof.
  revert l. induction a as [|a IH]; intros l; [reflexivity|].
  destruct l as [|x l]; [cbn; rewrite firstn_nil; reflexivity|].
  cbn [Nat.add firstn skipn app]. f_equal. apply IH.
Qed.

Lemma firstn_app_exact {A} (a b : list A) n : n = length a -> firstn n (a ++ b) = a.
Proof. intros ->. rewrite firstn_app, Nat.sub_diag, firstn_O, app_nil_r. apply firstn_all. Qed.

Lemma skipn_app_exact {A} (a b : list A) n : n = length a -> skipn n (a ++ b) = b.
Proof. intros ->. rewrite skipn_app, Nat.sub_diag, skipn_all. reflexivity. Qed.

Lemma skipn_app_ge {A} (a b : list A) n : (length a <= n)%nat -> skipn n (a ++ b) = skipn (n - length a) b.
Proof. intros H. rewrite skipn_app. rewrite skipn_all2 by exact H. reflexivity. Qed.

(* records: the first n chunks of rl bytes *)
Fixpoint chunks (rl n : nat) (l : list N) : list (list N) :=
  match n with
  | O => []
  | S k => firstn rl l :: chunks rl k (skipn rl l)
  end.

Lemma chunks_length rl n l : length (chunks rl n l) = n.
Proof. revert l. induction n as [|n IH]; intros l; cbn [chunks length]; [reflexivity|]. rewrite IH. reflexivity. Qed.

Lemma chunks_firstn rl n : forall l m, (n * rl <= m)%nat -> chunks rl n (firstn m l) = chunks rl n l.
Proof.
  induction n as [|n IH]; intros l m H; cbn [chunks]; [reflexivity|].
  rewrite firstn_firstn. replace (Nat.min rl m) with rl by lia. f_equal.
  rewrite skipn_firstn_comm. apply IH. lia.
Qed.

Lemma chunks_snoc rl n : forall l r,
  length l = (n * rl)%nat -> chunks rl (S n) (l ++ r) = chunks rl n l ++ [firstn rl r].
Proof.
  induction n as [|n IH]; intros l r H.
  - destruct l; [|discriminate]. reflexivity.
  - change (chunks rl (S (S n)) (l ++ r)) with
        (firstn rl (l ++ r) :: chunks rl (S n) (skipn rl (l ++ r))).
    cbn [chunks app]. cbn [Nat.mul] in H.
    rewrite firstn_app. replace (rl - length l)%nat with 0%nat by lia. rewrite firstn_O, app_nil_r.
    f_equal. rewrite skipn_app. replace (rl - length l)%nat with 0%nat by lia. cbn [skipn].
    apply IH. rewrite skipn_length. lia.
Qed.

Lemma chunks_nth rl n : forall l i,
  (i < n)%nat -> nth_error (chunks rl n l) i = Some (firstn rl (skipn (i * rl) l)).
Proof.
  induction n as [|n IH]; intros l i H; [lia|]. cbn [chunks].
  destruct i as [|i]; [reflexivity|]. cbn [nth_error Nat.mul]. rewrite IH by lia.
  rewrite skipn_add. reflexivity.
Qed.

Lemma chunks_tl rl n l : tl (chunks rl (S n) l) = chunks rl n (skipn rl l).
Proof. reflexivity. Qed.

Lemma chunks_set rl n : forall l i r,
  (i < n)%nat -> length r = rl -> (n * rl <= length l)%nat ->
  chunks rl n (firstn (i * rl) l ++ r ++ skipn (i * rl + rl) l) = set_nth (chunks rl n l) i r.
Proof.
  induction n as [|n IH]; intros l i r Hi Hr Hl; [lia|].
  destruct i as [|i].
  - cbn [Nat.mul firstn app Nat.add chunks set_nth].
    rewrite firstn_app_exact by (symmetry; exact Hr).
    rewrite skipn_app_exact by (symmetry; exact Hr). reflexivity.
  - cbn [chunks set_nth]. cbn [Nat.mul] in *.
    pose proof (Nat.le_0_l (i * rl)) as Hir. pose proof (Nat.le_0_l (n * rl)) as Hnr.
    assert (i * rl + rl <= n * rl)%nat by nia.
    rewrite firstn_app. rewrite firstn_firstn. replace (Nat.min rl (rl + i * rl)) with rl by lia.
    rewrite firstn_length. replace (rl - Nat.min (rl + i * rl) (length l))%nat with 0%nat by lia.
    rewrite firstn_O, app_nil_r. f_equal.
    rewrite skipn_app, firstn_length.
    replace (rl - Nat.min (rl + i * rl) (length l))%nat with 0%nat by lia. cbn [skipn].
    rewrite skipn_firstn_comm. replace (rl + i * rl - rl)%nat with (i * rl)%nat by lia.
    assert (Hl' : (n * rl <= length (skipn rl l))%nat) by (rewrite skipn_length; lia).
    rewrite <- (IH (skipn rl l) i r ltac:(lia) Hr Hl').
    rewrite skipn_add. do 4 f_equal. lia.
Qed.

(* ------------------------------------------------------------------ *)
(* the move-to-front loop *)

(* the buffer after the first k records have been copied down from record off on *)
Definition moved (buf : list N) (k off rl : nat) : list N :=
  firstn (k * rl) (skipn (off * rl) buf) ++ skipn (k * rl) buf.

Lemma moved_length buf k off rl :
  (k * rl + off * rl <= length buf)%nat -> length (moved buf k off rl) = length buf.
Proof. intros H. unfold moved. rewrite app_length, firstn_length, !skipn_length. lia. Qed.

Lemma moved_step buf k off rl :
  (k < off)%nat -> (k * rl + off * rl + rl <= length buf)%nat ->
  firstn (k * rl) (moved buf k off rl)
    ++ firstn rl (skipn (k * rl + off * rl) (moved buf k off rl))
    ++ skipn (k * rl + rl) (moved buf k off rl)
  = moved buf (S k) off rl.
Proof.
  intros Hk Hl. unfold moved.
  assert (Hkl : (k * rl <= off * rl)%nat) by nia.
  set (a := (k * rl)%nat) in *. set (c := (off * rl)%nat) in *.
  assert (L1 : length (firstn a (skipn c buf)) = a) by (rewrite firstn_length, skipn_length; lia).
  rewrite firstn_app_exact by (symmetry; exact L1).
  rewrite (skipn_app_ge _ _ (a + c)) by lia. rewrite L1, skipn_add.
  rewrite (skipn_app_ge _ _ (a + rl)) by lia. rewrite L1, skipn_add.
  replace (S k * rl)%nat with (a + rl)%nat by (subst a; lia).
  rewrite firstn_add, skipn_add, <- app_assoc.
  replace (a + (a + c - a))%nat with (c + a)%nat by lia.
  replace (a + (a + rl - a))%nat with (a + rl)%nat by lia. reflexivity.
Qed.

Lemma eq_move_ok e off len rl :
  0 < rl -> len < off -> (off + len) * rl <= N.of_nat (length (ea_buf e)) -> (off + len) * rl < W ->
  eq_move e off len rl = Ok (moved (ea_buf e) (N.to_nat len) (N.to_nat off) (N.to_nat rl)).
Proof.
  intros Hrl Hlo Hfit HW. unfold eq_move.
  assert (Hind : forall k, k <= len ->
            N.iter k (eq_move_step e off rl) (Ok (0, ea_buf e)) =
            Ok (k, moved (ea_buf e) (N.to_nat k) (N.to_nat off) (N.to_nat rl))).
  { intros k. pattern k, (N.iter k (eq_move_step e off rl) (Ok (0, ea_buf e))).
    apply N.iter_ind.
    - intros _. unfold moved. cbn [N.to_nat Nat.mul firstn skipn app]. reflexivity.
    - intros n st IH Hn. rewrite IH by lia. unfold eq_move_step. cbn [bind].
      assert (Hn1 : (n + off + 1) * rl <= (off + len) * rl) by nia.
      assert (Hn2 : n * rl <= (n + off + 1) * rl) by nia.
      assert (Hn3 : (n + off) * rl + rl = (n + off + 1) * rl) by lia.
      assert (Hn4 : (n + off) * rl = n * rl + off * rl) by lia.
      rewrite (N.mod_small (n + off)) by nia.
      rewrite !ea_get_small by nia.
      assert (Hml : length (moved (ea_buf e) (N.to_nat n) (N.to_nat off) (N.to_nat rl)) = length (ea_buf e))
        by (apply moved_length; nia).
      rewrite mem_read_ok by (rewrite Hml; lia). cbn [bind].
      assert (Hrl' : length (firstn (N.to_nat rl)
                      (skipn (N.to_nat ((n + off) * rl))
                         (moved (ea_buf e) (N.to_nat n) (N.to_nat off) (N.to_nat rl)))) = N.to_nat rl).
      { rewrite firstn_length, skipn_length, Hml. lia. }
      rewrite mem_write_ok by (rewrite Hrl', Hml; lia). cbn [bind]. rewrite Hrl'.
      assert (Hn5 : n + 1 < W) by nia.
      rewrite N.mod_small by exact Hn5. f_equal. f_equal; [lia|].
      replace (N.to_nat (N.succ n)) with (S (N.to_nat n)) by lia.
      rewrite <- moved_step by nia.
      repeat f_equal; lia. }
  rewrite Hind by lia. reflexivity.
Qed.

(* ------------------------------------------------------------------ *)
(* invariant and abstraction *)

Definition eq_inv (q : equeue) : Prop :=
  ea_inv (eq_ea q) /\ 0 < eq_reclen q /\
  ea_size (eq_ea q) = (eq_offset q + eq_len q) * eq_reclen q.

(* the records of the queue, head first *)
Definition eq_recs (q : equeue) : list (list N) :=
  chunks (N.to_nat (eq_reclen q)) (N.to_nat (eq_len q))
         (skipn (N.to_nat (eq_offset q * eq_reclen q)) (ea_abs (eq_ea q))).

Definition eq_abs (q : equeue) : fifo := (eq_reclen q, eq_recs q).

Lemma eq_recs_length q : length (eq_recs q) = N.to_nat (eq_len q).
Proof. apply chunks_length. Qed.

(* the same records read from the storage itself *)
Lemma eq_recs_buf q :
  eq_inv q ->
  eq_recs q = chunks (N.to_nat (eq_reclen q)) (N.to_nat (eq_len q))
                     (skipn (N.to_nat (eq_offset q * eq_reclen q)) (ea_buf (eq_ea q))).
Proof.
  intros ((Hs & Hl & Ha) & Hr & Hsz). unfold eq_recs, ea_abs.
  rewrite skipn_firstn_comm. apply chunks_firstn. nia.
Qed.

(* blocks owned by a queue *)
Definition eq_owned (ssz qsz : N) (q : equeue) : list N := ea_owned ssz (eq_ea q) ++ [qsz].

(* ------------------------------------------------------------------ *)
(* elasticqueue_init *)

Lemma eq_init_spec ssz qsz reclen o :
  0 < reclen ->
  exists r o' ev,
    eq_init 2 4 2 ssz qsz reclen o = Ok (r, o', ev) /\
    match r with
    | Some q => refused ev = false /\ eq_inv q /\ eq_reclen q = reclen /\ eq_recs q = [] /\
                eq_offset q + eq_len q = 0 /\
                forall rest, exists h, heap_run rest ev = Some h /\ Permutation h (eq_owned ssz qsz q ++ rest)
    | None => refused ev = true /\ forall rest, exists h, heap_run rest ev = Some h /\ Permutation h rest
    end.
Proof.
  intros Hr. unfold eq_init. destruct (N.eqb_spec reclen 0) as [->|_]; [lia|].
  destruct (next o) as [b o1]. destruct b; cbn [negb].
  2:{ eexists _, _, _. split; [reflexivity|]. split; [reflexivity|]. intros rest. cbn. perm_refl. }
  destruct (step_init ssz 0 reclen 0 o1 Hr) as (x & st' & o2 & ev & Hs & Hi & Hspec & Hfail & _ & _ & Hh).
  cbn [ea_step] in Hs.
  destruct (ea_init 2 4 2 ssz 0 reclen o1) as [[[r o2'] ev']| | |] eqn:E; cbn [bind] in Hs; try discriminate.
  cbn [bind]. destruct r as [e|].
  - destruct (ea_fill_from e 0 0) as [e'| | |] eqn:Ef; cbn [bind] in Hs; try discriminate.
    inversion Hs; subst x st' o2' ev'. clear Hs.
    cbn [ea_spec_step st_abs option_map] in Hspec.
    destruct (refused ev) eqn:Erf; cbn [orb] in Hspec; [discriminate|].
    rewrite N.mul_0_l in Hspec. cbn in Hspec. inversion Hspec as [Habs].
    (* filling zero bytes does nothing *)
    assert (e' = e).
    { unfold ea_fill_from in Ef. cbn [st_inv] in Hi.
      destruct (N.ltb_spec 0 (ea_size e)) as [Hlt|Hge]; [|inversion Ef; reflexivity].
      exfalso. unfold ea_poke in Ef.
      destruct (mem_write (ea_buf e) (ea_get e 0 1) (repeat 0 (N.to_nat (ea_size e - 0)))) eqn:Ew;
        cbn [bind] in Ef; try discriminate. inversion Ef; subst e'.
      pose proof (ea_abs_length _ Hi) as Hlen. rewrite <- Habs in Hlen. cbn in Hlen. lia. }
    subst e'. cbn [st_inv] in Hi.
    pose proof (ea_abs_length _ Hi) as Hlen. rewrite <- Habs in Hlen. cbn in Hlen.
    eexists _, _, _. split; [reflexivity|].
    assert (Hrf : refused (AMalloc qsz true :: ev) = false) by (cbn; exact Erf).
    split; [exact Hrf|]. split; [|split; [reflexivity|split; [reflexivity|split; [reflexivity|]]]].
    + unfold eq_inv; cbn [eq_ea eq_reclen eq_offset eq_len].
      split; [exact Hi|]. split; [exact Hr|]. lia.
    + intros rest. cbn [heap_run heap_apply].
      destruct (Hh (qsz :: rest)) as (h & Hh1 & Hh2). cbn [st_owned handed app] in *.
      exists h. split; [exact Hh1|]. eapply Permutation_trans; [exact Hh2|].
      unfold eq_owned; cbn [eq_ea]. rewrite <- app_assoc. apply Permutation_refl.
  - inversion Hs; subst x st' o2' ev'. clear Hs.
    eexists _, _, _. split; [reflexivity|].
    cbn [ea_spec_step st_abs option_map] in Hspec.
    destruct (refused ev) eqn:Erf.
    + split. { change (refused ([AMalloc qsz true] ++ ev ++ [AFree qsz]) = true).
               rewrite !refused_app, Erf. apply orb_true_r. }
      intros rest. cbn [heap_run heap_apply]. rewrite heap_run_app.
      destruct (Hh (qsz :: rest)) as (h & Hh1 & Hh2). cbn [st_owned handed app] in *. rewrite Hh1.
      destruct (remove1_perm qsz (qsz :: rest) h rest (Permutation_sym Hh2) (remove1_head _ _))
        as (k & Hk1 & Hk2).
      cbn [heap_run heap_apply]. rewrite Hk1. eexists; split; [reflexivity|].
      apply Permutation_sym. exact Hk2.
    + cbn [orb] in Hspec. rewrite N.mul_0_l in Hspec. cbn in Hspec. discriminate.
Qed.

(* ------------------------------------------------------------------ *)
(* elasticqueue_add *)

Lemma equeue_eta q :
  {| eq_ea := eq_ea q; eq_offset := eq_offset q; eq_len := eq_len q; eq_reclen := eq_reclen q |} = q.
Proof. destruct q; reflexivity. Qed.

Lemma eq_add_spec q rec o :
  eq_inv q -> eq_reclen q <= N.of_nat (length rec) ->
  (eq_offset q + eq_len q + 1) * eq_reclen q < W ->
  exists ok q' o' ev,
    eq_add 2 4 2 q rec o = Ok (ok, q', o', ev) /\
    (ok = true -> refused ev = false /\ eq_inv q' /\ eq_reclen q' = eq_reclen q /\
                  eq_recs q' = eq_recs q ++ [firstn (N.to_nat (eq_reclen q)) rec] /\
                  eq_offset q' + eq_len q' = eq_offset q + eq_len q + 1) /\
    (ok = false -> q' = q /\ refused ev = true) /\
    (forall rest, heap_run (ea_owned_buf (eq_ea q) ++ rest) ev = Some (ea_owned_buf (eq_ea q') ++ rest)).
Proof.
  intros (Hi & Hr & Hsz) Hrec HW. unfold eq_add.
  assert (Hd : 1 * eq_reclen q < W -> 1 * eq_reclen q <= N.of_nat (length rec)) by lia.
  destruct (ea_append_spec (eq_ea q) rec 1 (eq_reclen q) o Hi Hr Hd) as (ok & e1 & o1 & ev & H & P).
  rewrite H. cbn [bind].
  assert (Hfit : fits (ea_size (eq_ea q)) 1 (eq_reclen q) = true).
  { unfold fits. apply andb_true_intro. split; apply representable_spec; nia. }
  destruct P as [(Hf & _) | [(_ & -> & -> & Hrf & Hh) | (_ & -> & Hrf & Hi1 & Habs & Hs1 & _ & _ & Hh)]].
  - congruence.
  - eexists false, _, o1, ev. split; [reflexivity|]. split; [discriminate|]. split.
    + intros _. split; [apply equeue_eta|exact Hrf].
    + exact Hh.
  - eexists true, _, o1, ev. split; [reflexivity|]. split; [|split; [discriminate|exact Hh]].
    intros _. split; [exact Hrf|].
    assert (Hlen1 : (eq_len q + 1) mod W = eq_len q + 1) by (apply N.mod_small; nia).
    rewrite Hlen1. split; [|split; [reflexivity|split]].
    + unfold eq_inv; cbn [eq_ea eq_offset eq_len eq_reclen]. split; [exact Hi1|]. split; [exact Hr|]. lia.
    + unfold eq_recs; cbn [eq_ea eq_offset eq_len eq_reclen]. rewrite Habs.
      pose proof (ea_abs_length _ Hi) as Hal.
      rewrite skipn_app. replace (N.to_nat (eq_offset q * eq_reclen q) - length (ea_abs (eq_ea q)))%nat
        with 0%nat by nia. cbn [skipn].
      replace (N.to_nat (eq_len q + 1)) with (S (N.to_nat (eq_len q))) by lia.
      rewrite chunks_snoc by (rewrite skipn_length; nia).
      rewrite N.mul_1_l, firstn_firstn, Nat.min_id. reflexivity.
    + cbn [eq_offset eq_len]. lia.
Qed.

(* ------------------------------------------------------------------ *)
(* elasticqueue_delete: cannot fail *)

Lemma chunks_skip_abs rl n k size (buf : list N) :
  (k + n * rl <= size)%nat -> chunks rl n (skipn k (firstn size buf)) = chunks rl n (skipn k buf).
Proof. intros H. rewrite skipn_firstn_comm. apply chunks_firstn. lia. Qed.

Lemma eq_delete_spec q o :
  eq_inv q ->
  exists q' o' ev,
    eq_delete 2 4 2 q o = Ok (q', o', ev) /\ eq_inv q' /\ eq_reclen q' = eq_reclen q /\
    eq_recs q' = tl (eq_recs q) /\ eq_len q' = eq_len q - 1 /\
    eq_offset q' + eq_len q' <= eq_offset q + eq_len q /\
    (forall rest, heap_run (ea_owned_buf (eq_ea q) ++ rest) ev = Some (ea_owned_buf (eq_ea q') ++ rest)).
Proof.
  intros Hq. pose proof Hq as (Hi & Hr & Hsz). pose proof Hi as (Hs & Hl & Ha).
  unfold eq_delete. destruct (N.eqb_spec (eq_len q) 0) as [Hz|Hz].
  - exists q, o, []. split; [reflexivity|]. split; [exact Hq|]. split; [reflexivity|].
    split; [unfold eq_recs; rewrite Hz; reflexivity|]. split; [lia|]. split; [lia|]. intros rest. reflexivity.
  - assert (Hoff1 : (eq_offset q + 1) mod W = eq_offset q + 1) by (apply N.mod_small; nia).
    rewrite Hoff1.
    set (rl := eq_reclen q) in *. set (off1 := eq_offset q + 1). set (len1 := eq_len q - 1).
    assert (Hsz1 : ea_size (eq_ea q) = (off1 + len1) * rl) by (subst off1 len1; rewrite Hsz; f_equal; lia).
    assert (Htl : tl (eq_recs q) =
                  chunks (N.to_nat rl) (N.to_nat len1) (skipn (N.to_nat (off1 * rl)) (ea_buf (eq_ea q)))).
    { rewrite eq_recs_buf by exact Hq. fold rl.
      replace (N.to_nat (eq_len q)) with (S (N.to_nat len1)) by (subst len1; lia).
      rewrite chunks_tl, skipn_add. do 2 f_equal. subst off1. lia. }
    destruct (N.ltb_spec len1 off1) as [Hmv|Hnm].
    + (* move everything to the front *)
      rewrite eq_move_ok by (try assumption; nia). cbn [bind].
      set (b := moved _ _ _ _).
      assert (Hbl : length b = length (ea_buf (eq_ea q))) by (subst b; apply moved_length; nia).
      set (e1 := {| ea_size := ea_size (eq_ea q); ea_alloc := ea_alloc (eq_ea q); ea_buf := b |}).
      assert (Hi1 : ea_inv e1) by (unfold ea_inv, e1; cbn [ea_size ea_alloc ea_buf]; rewrite Hbl; auto).
      destruct (ea_shrink_spec e1 off1 rl o Hi1 Hr) as (e2 & o1 & ev & H & Hi2 & Hs2 & Habs2 & _ & Hh).
      rewrite H. cbn [bind]. eexists _, o1, ev. split; [reflexivity|].
      cbn [ea_size e1] in Hs2, Habs2.
      assert (Hs2' : ea_size e2 = len1 * rl) by (rewrite Hs2, Hsz1; lia).
      split; [|split; [reflexivity|split; [|split; [reflexivity|split]]]].
      * unfold eq_inv; cbn [eq_ea eq_offset eq_len eq_reclen]. split; [exact Hi2|]. split; [exact Hr|]. lia.
      * rewrite Htl. unfold eq_recs; cbn [eq_ea eq_offset eq_len eq_reclen]. fold rl.
        rewrite N.mul_0_l. cbn [N.to_nat skipn]. rewrite Habs2.
        replace (ea_size (eq_ea q) - off1 * rl) with (len1 * rl) by lia.
        unfold ea_abs, e1; cbn [ea_size ea_buf].
        rewrite firstn_firstn_le by nia. subst b. unfold moved.
        rewrite firstn_app_exact by (rewrite firstn_length, skipn_length; nia).
        replace (N.to_nat len1 * N.to_nat rl)%nat with (N.to_nat (len1 * rl)) by lia.
        rewrite chunks_firstn by lia. do 2 f_equal. lia.
      * cbn [eq_offset eq_len]. subst len1. lia.
      * intros rest. specialize (Hh rest).
        unfold ea_owned_buf, ea_blk, e1 in Hh; cbn [ea_alloc] in Hh. exact Hh.
    + eexists _, o, []. split; [reflexivity|].
      split; [|split; [reflexivity|split; [|split; [reflexivity|split]]]].
      * unfold eq_inv; cbn [eq_ea eq_offset eq_len eq_reclen]. split; [exact Hi|]. split; [exact Hr|].
        exact Hsz1.
      * rewrite Htl. rewrite eq_recs_buf.
        -- cbn [eq_ea eq_offset eq_len eq_reclen]. reflexivity.
        -- unfold eq_inv; cbn [eq_ea eq_offset eq_len eq_reclen]. auto.
      * cbn [eq_offset eq_len]. subst off1 len1. lia.
      * intros rest. reflexivity.
Qed.

(* ------------------------------------------------------------------ *)
(* elasticqueue_get and access through its pointer *)

Lemma eq_get_spec q pos :
  eq_inv q ->
  (eq_len q <= pos -> eq_get q pos = None) /\
  (pos < eq_len q ->
   eq_get q pos = Some ((pos + eq_offset q) * eq_reclen q) /\
   (pos + eq_offset q) * eq_reclen q + eq_reclen q <= N.of_nat (length (ea_buf (eq_ea q)))).
Proof.
  intros ((Hs & Hl & Ha) & Hr & Hsz). unfold eq_get. split; intros Hp.
  - apply N.leb_le in Hp. rewrite Hp. reflexivity.
  - destruct (N.leb_spec (eq_len q) pos); [lia|].
    rewrite (N.mod_small (pos + eq_offset q)) by nia.
    rewrite ea_get_small by nia. split; [reflexivity|]. nia.
Qed.

Lemma eq_peek_spec q pos :
  eq_inv q ->
  eq_peek q pos = Ok (if pos <? eq_len q then nth_error (eq_recs q) (N.to_nat pos) else None).
Proof.
  intros Hq. destruct (eq_get_spec q pos Hq) as (H1 & H2). unfold eq_peek.
  destruct (N.ltb_spec pos (eq_len q)) as [Hp|Hp].
  - destruct (H2 Hp) as (-> & Hb). rewrite mem_read_ok by exact Hb. cbn [bind]. do 2 f_equal.
    rewrite eq_recs_buf by exact Hq. rewrite chunks_nth by lia. rewrite skipn_add. do 3 f_equal. lia.
  - rewrite (H1 Hp). reflexivity.
Qed.

Lemma eq_store_spec q pos rec :
  eq_inv q -> pos < eq_len q -> N.of_nat (length rec) = eq_reclen q ->
  exists q', eq_store q pos rec = Ok q' /\ eq_inv q' /\ eq_reclen q' = eq_reclen q /\
             eq_recs q' = set_nth (eq_recs q) (N.to_nat pos) rec /\
             eq_offset q' = eq_offset q /\ eq_len q' = eq_len q /\
             ea_alloc (eq_ea q') = ea_alloc (eq_ea q).
Proof.
  intros Hq Hp Hrec. pose proof Hq as ((Hs & Hl & Ha) & Hr & Hsz).
  destruct (eq_get_spec q pos Hq) as (_ & H2). destruct (H2 Hp) as (Hg & Hb).
  unfold eq_store. rewrite Hg. rewrite mem_write_ok by lia. cbn [bind].
  eexists. split; [reflexivity|].
  assert (Hq' : eq_inv {| eq_ea := {| ea_size := ea_size (eq_ea q); ea_alloc := ea_alloc (eq_ea q);
                                      ea_buf := firstn (N.to_nat ((pos + eq_offset q) * eq_reclen q)) (ea_buf (eq_ea q)) ++
                                                rec ++ skipn (N.to_nat ((pos + eq_offset q) * eq_reclen q) + length rec)
                                                             (ea_buf (eq_ea q)) |};
                           eq_offset := eq_offset q; eq_len := eq_len q; eq_reclen := eq_reclen q |}).
  { unfold eq_inv, ea_inv; cbn [eq_ea eq_offset eq_len eq_reclen ea_size ea_alloc ea_buf].
    rewrite write_length by lia. auto. }
  split; [exact Hq'|]. split; [reflexivity|]. split; [|auto].
  rewrite (eq_recs_buf _ Hq'). rewrite (eq_recs_buf _ Hq).
  cbn [eq_ea eq_offset eq_len eq_reclen ea_buf].
  set (rl := eq_reclen q) in *. set (off := eq_offset q) in *. set (buf := ea_buf (eq_ea q)) in *.
  rewrite <- chunks_set; try lia.
  2:{ rewrite skipn_length. nia. }
  f_equal.
  rewrite skipn_app. rewrite firstn_length.
  replace (N.to_nat (off * rl) - Nat.min (N.to_nat ((pos + off) * rl)) (length buf))%nat with 0%nat by nia.
  cbn [skipn]. rewrite skipn_firstn_comm. rewrite skipn_add.
  f_equal; [f_equal; nia|]. f_equal. f_equal. nia.
Qed.

(* ------------------------------------------------------------------ *)
(* one operation of a client program *)

(* all records of the program have the length rl the queue was created with *)
Definition eq_op_ok (rl : N) (op : eq_op) : Prop :=
  match op with
  | QInit r => r = rl /\ 0 < rl
  | QAdd rec => rl <= N.of_nat (length rec)
  | QSet _ rec => N.of_nat (length rec) = rl
  | _ => True
  end.

Definition qst_inv (rl : N) (st : option equeue) : Prop :=
  match st with Some q => eq_inv q /\ eq_reclen q = rl | None => True end.
Definition qst_abs (st : option equeue) : option fifo := option_map eq_abs st.
Definition q_used (st : option equeue) : N :=
  match st with Some q => eq_offset q + eq_len q | None => 0 end.
Definition qst_owned (ssz qsz : N) (st : option equeue) : list N :=
  match st with Some q => eq_owned ssz qsz q | None => [] end.

Definition qstep_post (ssz qsz rl : N) (op : eq_op) (st : option equeue) (x : eq_out)
           (st' : option equeue) (ev : list aev) : Prop :=
  qst_inv rl st' /\
  eq_spec_step op (qst_abs st) (refused ev) = (x, qst_abs st') /\
  (refused ev = true -> op <> QDelete -> st' = st /\ x = YRc false) /\
  q_used st' <= q_used st + 1 /\
  (forall rest, exists h, heap_run (qst_owned ssz qsz st ++ rest) ev = Some h /\
                          Permutation h (qst_owned ssz qsz st' ++ rest)).

Lemma heap_eq_owned ssz qsz q q' ev rest :
  (forall r, heap_run (ea_owned_buf (eq_ea q) ++ r) ev = Some (ea_owned_buf (eq_ea q') ++ r)) ->
  heap_run (eq_owned ssz qsz q ++ rest) ev = Some (eq_owned ssz qsz q' ++ rest).
Proof. intros H. unfold eq_owned. rewrite !ea_owned_split, <- !app_assoc. apply H. Qed.

Ltac qpost5 :=
  unfold qstep_post;
  cbn [qst_inv qst_abs option_map eq_spec_step q_used qst_owned app];
  refine (conj _ (conj _ (conj _ (conj _ _)))).

Theorem eq_step_ok ssz qsz rl op st o :
  qst_inv rl st -> eq_op_ok rl op -> (q_used st + 1) * rl < W ->
  exists x st' o' ev,
    eq_step 2 4 2 ssz qsz op st o = Ok (x, st', o', ev) /\ qstep_post ssz qsz rl op st x st' ev.
Proof.
  intros Hi Hok HW. destruct st as [q|].
  - destruct Hi as (Hq & Hrl). cbn [q_used] in HW. destruct op; cbn [eq_op_ok] in Hok; cbn [eq_step].
    + (* init on an existing queue: skipped *)
      eexists _, _, _, _. split; [reflexivity|]. qpost5.
      * auto.
      * reflexivity.
      * discriminate.
      * lia.
      * intros rest. cbn [heap_run]. perm_refl.
    + (* add *)
      rewrite <- Hrl in Hok, HW.
      destruct (eq_add_spec q rec o Hq Hok HW) as (ok & q1 & o1 & ev & H & P1 & P2 & P3).
      rewrite H. cbn [bind]. eexists _, _, _, _. split; [reflexivity|]. destruct ok.
      * destruct (P1 eq_refl) as (Hrf & Hq1 & Hr1 & Hrecs & Hu). qpost5.
        -- split; [exact Hq1|congruence].
        -- rewrite Hrf. unfold eq_abs. rewrite Hr1, Hrecs. reflexivity.
        -- rewrite Hrf. discriminate.
        -- lia.
        -- intros rest. rewrite (heap_eq_owned ssz qsz q q1) by exact P3. perm_refl.
      * destruct (P2 eq_refl) as (-> & Hrf). qpost5.
        -- auto.
        -- rewrite Hrf. reflexivity.
        -- intros _ _. split; reflexivity.
        -- lia.
        -- intros rest. rewrite (heap_eq_owned ssz qsz q q) by exact P3. perm_refl.
    + (* delete *)
      destruct (eq_delete_spec q o Hq) as (q1 & o1 & ev & H & Hq1 & Hr1 & Hrecs & _ & Hu & Hh).
      rewrite H. cbn [bind]. eexists _, _, _, _. split; [reflexivity|]. qpost5.
      * split; [exact Hq1|congruence].
      * unfold eq_abs. rewrite Hr1, Hrecs. reflexivity.
      * intros _ Hne. congruence.
      * lia.
      * intros rest. rewrite (heap_eq_owned ssz qsz q q1) by exact Hh. perm_refl.
    + (* getlen *)
      eexists _, _, _, _. split; [reflexivity|]. qpost5.
      * auto.
      * unfold eq_abs, eq_getlen. rewrite eq_recs_length, N2Nat.id. reflexivity.
      * discriminate.
      * lia.
      * intros rest. cbn [heap_run]. perm_refl.
    + (* get *)
      rewrite eq_peek_spec by exact Hq. cbn [bind].
      eexists _, _, _, _. split; [reflexivity|]. qpost5.
      * auto.
      * unfold eq_abs. rewrite eq_recs_length, N2Nat.id. reflexivity.
      * discriminate.
      * lia.
      * intros rest. cbn [heap_run]. perm_refl.
    + (* store through get *)
      destruct (eq_get_spec q pos Hq) as (H1 & H2).
      destruct (N.ltb_spec pos (eq_len q)) as [Hp|Hp].
      * destruct (H2 Hp) as (Hg & _). rewrite Hg.
        rewrite <- Hrl in Hok.
        destruct (eq_store_spec q pos rec Hq Hp Hok) as (q1 & Hst & Hq1 & Hr1 & Hrecs & Ho1 & Hl1 & Ha1).
        rewrite Hst. cbn [bind]. eexists _, _, _, _. split; [reflexivity|]. qpost5.
        -- split; [exact Hq1|congruence].
        -- unfold eq_abs. rewrite eq_recs_length, N2Nat.id.
           apply N.ltb_lt in Hp. rewrite Hp. rewrite Hr1, Hrecs. reflexivity.
        -- discriminate.
        -- lia.
        -- intros rest. cbn [heap_run]. eexists; split; [reflexivity|].
           unfold eq_owned. rewrite (owned_same_alloc ssz _ _ Ha1). apply Permutation_refl.
      * rewrite (H1 Hp). eexists _, _, _, _. split; [reflexivity|]. qpost5.
        -- auto.
        -- unfold eq_abs. rewrite eq_recs_length, N2Nat.id.
           apply N.ltb_ge in Hp. rewrite Hp. reflexivity.
        -- discriminate.
        -- lia.
        -- intros rest. cbn [heap_run]. perm_refl.
    + (* free *)
      eexists _, _, _, _. split; [reflexivity|].
      assert (Hrf : refused (eq_free_ev ssz qsz q) = false).
      { unfold eq_free_ev, ea_free_ev, ea_free_buf_ev. destruct (ea_blk (eq_ea q)); reflexivity. }
      qpost5.
      * exact I.
      * reflexivity.
      * rewrite Hrf. discriminate.
      * lia.
      * intros rest. unfold eq_free_ev, ea_free_ev, eq_owned. rewrite !heap_run_app.
        rewrite ea_owned_split, <- !app_assoc. rewrite heap_free_buf.
        cbn [app heap_run heap_apply]. rewrite remove1_head.
        cbn [app heap_run heap_apply]. rewrite remove1_head. perm_refl.
  - destruct op; cbn [eq_op_ok] in Hok; cbn [eq_step];
      try (eexists _, _, _, _; (split; [reflexivity|]); qpost5;
           [exact I | reflexivity | discriminate | lia | intros rest; cbn [heap_run]; perm_refl]).
    (* init *)
    destruct Hok as (-> & Hr).
    destruct (eq_init_spec ssz qsz rl o Hr) as (r & o1 & ev & H & P).
    rewrite H. cbn [bind]. eexists _, _, _, _. split; [reflexivity|]. destruct r as [q|].
    + destruct P as (Hrf & Hq & Hr1 & Hrecs & Hu & Hh). qpost5.
      * auto.
      * rewrite Hrf. unfold eq_abs. rewrite Hr1, Hrecs. reflexivity.
      * rewrite Hrf. discriminate.
      * lia.
      * exact Hh.
    + destruct P as (Hrf & Hh). qpost5.
      * exact I.
      * rewrite Hrf. reflexivity.
      * intros _ _. split; reflexivity.
      * lia.
      * exact Hh.
Qed.

(* ------------------------------------------------------------------ *)
(* whole programs *)

Definition qtr_out (t : eq_out * option equeue * list aev) : eq_out := fst (fst t).
Definition qtr_st (t : eq_out * option equeue * list aev) : option equeue := snd (fst t).
Definition qtr_ev (t : eq_out * option equeue * list aev) : list aev := snd t.
Definition qtr_obs (tr : list (eq_out * option equeue * list aev)) : list (eq_out * option fifo) :=
  map (fun t => (qtr_out t, qst_abs (qtr_st t))) tr.
Definition qtr_flags (tr : list (eq_out * option equeue * list aev)) : list bool :=
  map (fun t => refused (qtr_ev t)) tr.

(* C12 M3: for every program (records of length rl, short enough that the byte count stays
   below 2^64) and every oracle: no Fault / AssertFail, and the client sees an ideal FIFO *)
Theorem eq_run_refines ssz qsz rl ops : forall st o,
  qst_inv rl st -> Forall (eq_op_ok rl) ops ->
  (q_used st + N.of_nat (length ops)) * rl < W ->
  exists tr,
    eq_run 2 4 2 ssz qsz ops st o = Ok tr /\
    Forall (fun t => qst_inv rl (qtr_st t)) tr /\
    qtr_obs tr = eq_spec_run ops (qst_abs st) (qtr_flags tr).
Proof.
  induction ops as [|op ops IH]; intros st o Hi Hok HW.
  - exists []. repeat split. constructor.
  - inversion Hok as [|? ? Hop Hops]; subst.
    cbn [length] in HW.
    assert (HW1 : (q_used st + 1) * rl < W) by nia.
    destruct (eq_step_ok ssz qsz rl op st o Hi Hop HW1) as (x & st1 & o1 & ev & Hs & Hi1 & Hspec & _ & Hu & _).
    assert (HW2 : (q_used st1 + N.of_nat (length ops)) * rl < W) by nia.
    destruct (IH st1 o1 Hi1 Hops HW2) as (tr & Hr & Hf & Hobs).
    cbn [eq_run]. rewrite Hs. cbn [bind]. rewrite Hr. cbn [bind].
    eexists. split; [reflexivity|]. split.
    + constructor; [exact Hi1|exact Hf].
    + cbn [qtr_obs qtr_flags map eq_spec_run tl]. unfold qtr_out, qtr_st, qtr_ev; cbn [fst snd].
      rewrite Hspec. f_equal. exact Hobs.
Qed.

(* C14 M1 for the queue: init / add with a refused request report failure, nothing changes *)
Theorem eq_fail_unchanged ssz qsz rl op st o x st' o' ev :
  qst_inv rl st -> eq_op_ok rl op -> (q_used st + 1) * rl < W ->
  eq_step 2 4 2 ssz qsz op st o = Ok (x, st', o', ev) ->
  refused ev = true -> op <> QDelete ->
  st' = st /\ x = YRc false /\ qst_inv rl st'.
Proof.
  intros Hi Hok HW H Hrf Hnd.
  destruct (eq_step_ok ssz qsz rl op st o Hi Hok HW) as (x1 & st1 & o1 & ev1 & Hs & Hi1 & _ & Hfail & _).
  rewrite H in Hs. inversion Hs; subst. destruct (Hfail Hrf Hnd). auto.
Qed.

(* C14 M2 for the queue: delete (and free) succeed whatever the allocator answers *)
Theorem eq_delete_infallible ssz qsz rl q o :
  eq_inv q -> eq_reclen q = rl -> (eq_offset q + eq_len q + 1) * rl < W ->
  exists q' o' ev,
    eq_step 2 4 2 ssz qsz QDelete (Some q) o = Ok (YUnit, Some q', o', ev) /\
    eq_inv q' /\ eq_abs q' = (rl, tl (eq_recs q)).
Proof.
  intros Hq Hr HW.
  destruct (eq_step_ok ssz qsz rl QDelete (Some q) o (conj Hq Hr) I HW) as (x & st1 & o1 & ev & Hs & Hi1 & Hspec & _).
  cbn [eq_spec_step qst_abs option_map eq_abs] in Hspec.
  destruct st1 as [q1|]; cbn [option_map] in Hspec; [|discriminate].
  injection Hspec as Hx Habs. subst x. destruct Hi1 as (Hq1 & _).
  eexists _, _, _. split; [exact Hs|]. split; [exact Hq1|]. unfold eq_abs. rewrite <- Habs, Hr. f_equal. symmetry. assumption.
Qed.

(* C14 M3 for one queue operation *)
Theorem eq_step_no_leak ssz qsz rl op st o x st' o' ev rest :
  qst_inv rl st -> eq_op_ok rl op -> (q_used st + 1) * rl < W ->
  eq_step 2 4 2 ssz qsz op st o = Ok (x, st', o', ev) ->
  exists h, heap_run (qst_owned ssz qsz st ++ rest) ev = Some h /\
            Permutation h (qst_owned ssz qsz st' ++ rest).
Proof.
  intros Hi Hok HW H.
  destruct (eq_step_ok ssz qsz rl op st o Hi Hok HW) as (x1 & st1 & o1 & ev1 & Hs & _ & _ & _ & _ & Hh).
  rewrite H in Hs. inversion Hs; subst. apply Hh.
Qed.

(* C14 M1 for the queue, both directions: within the length bound (no byte count reaches 2^64)
   init / add report failure exactly when the allocator refused a request *)
Theorem eq_fail_iff ssz qsz rl op st o x st' o' ev :
  qst_inv rl st -> eq_op_ok rl op -> (q_used st + 1) * rl < W ->
  eq_step 2 4 2 ssz qsz op st o = Ok (x, st', o', ev) ->
  op <> QDelete ->
  (refused ev = true <-> x = YRc false).
Proof.
  intros Hi Hok HW H Hnd.
  destruct (eq_step_ok ssz qsz rl op st o Hi Hok HW) as (x1 & st1 & o1 & ev1 & Hs & _ & Hspec & Hfail & _).
  rewrite H in Hs. inversion Hs; subst. split.
  - intros Hrf. destruct (Hfail Hrf Hnd). assumption.
  - intros Hx. destruct (refused ev1); [reflexivity|]. exfalso.
    destruct op, st as [q|]; cbn [qst_abs option_map eq_abs eq_spec_step] in Hspec;
      inversion Hspec; subst; discriminate.
Qed.

(* C14 M3 for whole queue programs *)
Definition qtr_final (st : option equeue) (tr : list (eq_out * option equeue * list aev)) : option equeue :=
  last (map qtr_st tr) st.

Theorem eq_run_no_leak ssz qsz rl ops : forall st o tr rest,
  qst_inv rl st -> Forall (eq_op_ok rl) ops ->
  (q_used st + N.of_nat (length ops)) * rl < W ->
  eq_run 2 4 2 ssz qsz ops st o = Ok tr ->
  exists h, heap_run (qst_owned ssz qsz st ++ rest) (concat (map qtr_ev tr)) = Some h /\
            Permutation h (qst_owned ssz qsz (qtr_final st tr) ++ rest).
Proof.
  induction ops as [|op ops IH]; intros st o tr rest Hi Hok HW Hr.
  - cbn in Hr. inversion Hr; subst. cbn. perm_refl.
  - inversion Hok as [|? ? Hop Hops]; subst. cbn [length] in HW.
    assert (HW1 : (q_used st + 1) * rl < W) by nia.
    destruct (eq_step_ok ssz qsz rl op st o Hi Hop HW1) as (x & st1 & o1 & ev & Hs & Hi1 & _ & _ & Hu & Hh).
    assert (HW2 : (q_used st1 + N.of_nat (length ops)) * rl < W) by nia.
    cbn [eq_run] in Hr. rewrite Hs in Hr. cbn [bind] in Hr.
    destruct (eq_run 2 4 2 ssz qsz ops st1 o1) as [tr1| | |] eqn:E; cbn [bind] in Hr; try discriminate.
    inversion Hr; subst tr. clear Hr.
    destruct (Hh rest) as (h1 & Hh1 & Hp1).
    cbn [map concat qtr_ev snd]. rewrite heap_run_app, Hh1.
    destruct (IH st1 o1 tr1 rest Hi1 Hops HW2 E) as (h2 & Hh2 & Hp2).
    destruct (heap_run_perm _ _ _ _ (Permutation_sym Hp1) Hh2) as (h3 & Hh3 & Hp3).
    exists h3. split; [exact Hh3|].
    eapply Permutation_trans; [apply Permutation_sym; exact Hp3|].
    eapply Permutation_trans; [exact Hp2|].
    unfold qtr_final. cbn [map qtr_st fst snd].
    replace (last (st1 :: map qtr_st tr1) st) with (last (map qtr_st tr1) st1).
    2:{ symmetry. apply last_cons_cons. }
    apply Permutation_refl.
Qed.

(* everything a client can read through elasticqueue_get is the record list *)
Lemma eq_view_from_spec q : eq_inv q -> forall n pos,
  (N.to_nat pos + n = N.to_nat (eq_len q))%nat ->
  eq_view_from q pos n = Ok (skipn (N.to_nat pos) (eq_recs q)).
Proof.
  intros Hq. induction n as [|n IH]; intros pos Hn; cbn [eq_view_from].
  - rewrite skipn_all2 by (rewrite eq_recs_length; lia). reflexivity.
  - rewrite eq_peek_spec by exact Hq. cbn [bind].
    destruct (N.ltb_spec pos (eq_len q)) as [Hp|Hp]; [|lia].
    destruct (nth_error (eq_recs q) (N.to_nat pos)) as [r|] eqn:E.
    + rewrite IH by lia. cbn [bind]. f_equal.
      replace (N.to_nat (pos + 1)) with (S (N.to_nat pos)) by lia.
      clear -E. revert E. generalize (N.to_nat pos) as k. generalize (eq_recs q) as l.
      induction l as [|x l IHl]; intros k E; destruct k; cbn in *; try discriminate.
      * inversion E; reflexivity.
      * apply IHl. exact E.
    + apply nth_error_None in E. rewrite eq_recs_length in E. lia.
Qed.

Theorem eq_view_spec q : eq_inv q -> eq_view q = Ok (eq_recs q).
Proof. intros Hq. unfold eq_view, eq_getlen. rewrite (eq_view_from_spec q Hq) by (cbn; lia). reflexivity. Qed.

(* ------------------------------------------------------------------ *)
(* examples *)

Definition qex_prog : list eq_op :=
  [QInit 2; QAdd [1; 2]; QAdd [3; 4]; QAdd [5; 6]; QDelete; QGet 0; QDelete; QSet 0 [7; 8];
   QGet 0; QGet 1; QDelete; QDelete; QGetlen; QFree].

Example qex_prog_ok : Forall (eq_op_ok 2) qex_prog.
Proof. unfold qex_prog. repeat constructor; cbn; lia. Qed.

Example qex_prog_runs :
  exists tr, eq_run 2 4 2 24 32 qex_prog None all_grant = Ok tr /\
             map qtr_out tr =
             [YRc true; YRc true; YRc true; YRc true; YUnit; YRec (Some [3; 4]); YUnit; YUnit;
              YRec (Some [7; 8]); YRec None; YUnit; YUnit; YSize 0; YUnit].
Proof. eexists. split; vm_compute; reflexivity. Qed.

(* the second add is refused: it fails, the queue still holds exactly the first record *)
Example qex_refused :
  exists tr, eq_run 2 4 2 24 32 [QInit 1; QAdd [9]; QAdd [8]; QGetlen; QGet 0] None
                    {| ans := [true; true; true; false]; dflt := true |} = Ok tr /\
             map qtr_out tr = [YRc true; YRc true; YRc false; YSize 1; YRec (Some [9])].
Proof. eexists. split; vm_compute; reflexivity. Qed.
