(* Proofs about the elastic-queue model (C12 M3; C14 for the queue). *)
From Coq Require Import NArith ZArith List Bool Lia Arith Permutation.
From LCP Require Import Base.CheckedMem.
From LCP Require Import DS.AllocOracle.
From LCP Require Import DS.ElasticArray.
From LCP Require Import DS.ElasticArrayProofs.
From LCP Require Import DS.ElasticQueue.
Import ListNotations.
Local Open Scope N_scope.
Local Open Scope res_scope.
Ltac Zify.zify_post_hook ::= Z.to_euclidean_division_equations.

(* ------------------------------------------------------------------ *)
(* list helpers *)

Lemma skipn_add {A} (l : list A) : forall a b, skipn a (skipn b l) = skipn (b + a) l.
Proof.
  induction l as [|x l IH]; intros a b.
  - rewrite !skipn_nil. reflexivity.
  - destruct b as [|b]; [reflexivity|]. cbn [skipn Nat.add]. apply IH.
Qed.

Lemma firstn_add {A} (l : list A) a b : firstn (a + b) l = firstn a l ++ firstn b (skipn a l).
Proof.
  revert l. induction a as [|a IH]; intros l; [reflexivity|].
  destruct l as [|x l]; [cbn; rewrite firstn_nil; reflexivity|].
  cbn [Nat.add firstn skipn app]. f_equal. apply IH.
Qed.

Lemma firstn_app_exact {A} (a b : list A) n : n = length a -> firstn n (a ++ b) = a.
Proof. intros ->. rewrite firstn_app, Nat.sub_diag, firstn_O, app_nil_r. apply firstn_all. Qed.

Lemma skipn_app_exact {A} (a b : list A) n : n = length a -> skipn n (a ++ b) = b.
Proof. intros ->. rewrite skipn_app, Nat.sub_diag, skipn_all. reflexivity. Qed.

Lemma skipn_app_ge {A} (a b : list A) n : (length a <= n)%nat -> skipn n (a ++ b) = skipn (n - length a) b.
Proof. intros H. rewrite skipn_app. rewrite skipn_all2 by exact H. reflexivity. Qed.

(* records: the first n chunks of rl bytes *)
Fixpoint chunks (rl n : nat) (l : list N) : list (list N) :=
  match n with
  | O => []
  | S k => firstn rl l :: chunks rl k (skipn rl l)
  end.

Lemma chunks_length rl n l : length (chunks rl n l) = n.
Proof. revert l. induction n as [|n IH]; intros l; cbn [chunks length]; [reflexivity|]. rewrite IH. reflexivity. Qed.

Lemma chunks_firstn rl n : forall l m, (n * rl <= m)%nat -> chunks rl n (firstn m l) = chunks rl n l.
Proof.
  induction n as [|n IH]; intros l m H; cbn [chunks]; [reflexivity|].
  rewrite firstn_firstn. replace (Nat.min rl m) with rl by lia. f_equal.
  rewrite skipn_firstn_comm. apply IH. lia.
Qed.

Lemma chunks_snoc rl n : forall l r,
  length l = (n * rl)%nat -> chunks rl (S n) (l ++ r) = chunks rl n l ++ [firstn rl r].
Proof.
  induction n as [|n IH]; intros l r H.
  - destruct l; [|discriminate]. reflexivity.
  - change (chunks rl (S (S n)) (l ++ r)) with
        (firstn rl (l ++ r) :: chunks rl (S n) (skipn rl (l ++ r))).
    cbn [chunks app]. cbn [Nat.mul] in H.
    rewrite firstn_app. replace (rl - length l)%nat with 0%nat by lia. rewrite firstn_O, app_nil_r.
    f_equal. rewrite skipn_app. replace (rl - length l)%nat with 0%nat by lia. cbn [skipn].
    apply IH. rewrite skipn_length. lia.
Qed.

Lemma chunks_nth rl n : forall l i,
  (i < n)%nat -> nth_error (chunks rl n l) i = Some (firstn rl (skipn (i * rl) l)).
Proof.
  induction n as [|n IH]; intros l i H; [lia|]. cbn [chunks].
  destruct i as [|i]; [reflexivity|]. cbn [nth_error Nat.mul]. rewrite IH by lia.
  rewrite skipn_add. reflexivity.
Qed.

Lemma chunks_tl rl n l : tl (chunks rl (S n) l) = chunks rl n (skipn rl l).
Proof. reflexivity. Qed.

Lemma chunks_set rl n : forall l i r,
  (i < n)%nat -> length r = rl -> (n * rl <= length l)%nat ->
  chunks rl n (firstn (i * rl) l ++ r ++ skipn (i * rl + rl) l) = set_nth (chunks rl n l) i r.
Proof.
  induction n as [|n IH]; intros l i r Hi Hr Hl; [lia|].
  destruct i as [|i].
  - cbn [Nat.mul firstn app Nat.add chunks set_nth].
    rewrite firstn_app_exact by (symmetry; exact Hr).
    rewrite skipn_app_exact by (symmetry; exact Hr). reflexivity.
  - cbn [chunks set_nth]. cbn [Nat.mul] in *.
    pose proof (Nat.le_0_l (i * rl)) as Hir. pose proof (Nat.le_0_l (n * rl)) as Hnr.
    assert (i * rl + rl <= n * rl)%nat by nia.
    rewrite firstn_app. rewrite firstn_firstn. replace (Nat.min rl (rl + i * rl)) with rl by lia.
    rewrite firstn_length. replace (rl - Nat.min (rl + i * rl) (length l))%nat with 0%nat by lia.
    rewrite firstn_O, app_nil_r. f_equal.
    rewrite skipn_app, firstn_length.
    replace (rl - Nat.min (rl + i * rl) (length l))%nat with 0%nat by lia. cbn [skipn].
    rewrite skipn_firstn_comm. replace (rl + i * rl - rl)%nat with (i * rl)%nat by lia.
    assert (Hl' : (n * rl <= length (skipn rl l))%nat) by (rewrite skipn_length; lia).
    rewrite <- (IH (skipn rl l) i r ltac:(lia) Hr Hl').
    rewrite skipn_add. do 4 f_equal. lia.
Qed.

(* ------------------------------------------------------------------ *)
(* the move-to-front loop *)

(* the buffer after the first k records have been copied down from record off on *)
Definition moved (buf : list N) (k off rl : nat) : list N :=
  firstn (k * rl) (skipn (off * rl) buf) ++ skipn (k * rl) buf.

Lemma moved_length buf k off rl :
  (k * rl + off * rl <= length buf)%nat -> length (moved buf k off rl) = length buf.
Proof. intros H. unfold moved. rewrite app_length, firstn_length, !skipn_length. lia. Qed.

Lemma moved_step buf k off rl :
  (k < off)%nat -> (k * rl + off * rl + rl <= length buf)%nat ->
  firstn (k * rl) (moved buf k off rl)
    ++ firstn rl (skipn (k * rl + off * rl) (moved buf k off rl))
    ++ skipn (k * rl + rl) (moved buf k off rl)
  = moved buf (S k) off rl.
Proof.
  intros Hk Hl. unfold moved.
  assert (Hkl : (k * rl <= off * rl)%nat) by nia.
  set (a := (k * rl)%nat) in *. set (c := (off * rl)%nat) in *.
  assert (L1 : length (firstn a (skipn c buf)) = a) by (rewrite firstn_length, skipn_length; lia).
  rewrite firstn_app_exact by (symmetry; exact L1).
  rewrite (skipn_app_ge _ _ (a + c)) by lia. rewrite L1, skipn_add.
  rewrite (skipn_app_ge _ _ (a + rl)) by lia. rewrite L1, skipn_add.
  replace (S k * rl)%nat with (a + rl)%nat by (subst a; lia).
  rewrite firstn_add, skipn_add, <- app_assoc.
  replace (a + (a + c - a))%nat with (c + a)%nat by lia.
  replace (a + (a + rl - a))%nat with (a + rl)%nat by lia. reflexivity.
Qed.

Lemma eq_move_ok e off len rl :
  0 < rl -> len < off -> (off + len) * rl <= N.of_nat (length (ea_buf e)) -> (off + len) * rl < W ->
  eq_move e off len rl = Ok (moved (ea_buf e) (N.to_nat len) (N.to_nat off) (N.to_nat rl)).
Proof.
  intros Hrl Hlo Hfit HW. unfold eq_move.
  assert (Hind : forall k, k <= len ->
            N.iter k (eq_move_step e off rl) (Ok (0, ea_buf e)) =
            Ok (k, moved (ea_buf e) (N.to_nat k) (N.to_nat off) (N.to_nat rl))).
  { intros k. pattern k, (N.iter k (eq_move_step e off rl) (Ok (0, ea_buf e))).
    apply N.iter_ind.
    - intros _. unfold moved. cbn [N.to_nat Nat.mul firstn skipn app]. reflexivity.
    - intros n st IH Hn. rewrite IH by lia. unfold eq_move_step. cbn [bind].
      assert (Hn1 : (n + off + 1) * rl <= (off + len) * rl) by nia.
      assert (Hn2 : n * rl <= (n + off + 1) * rl) by nia.
      assert (Hn3 : (n + off) * rl + rl = (n + off + 1) * rl) by lia.
      assert (Hn4 : (n + off) * rl = n * rl + off * rl) by lia.
      rewrite (N.mod_small (n + off)) by nia.
      rewrite !ea_get_small by nia.
      assert (Hml : length (moved (ea_buf e) (N.to_nat n) (N.to_nat off) (N.to_nat rl)) = length (ea_buf e))
        by (apply moved_length; nia).
      rewrite mem_read_ok by (rewrite Hml; lia). cbn [bind].
      assert (Hrl' : length (firstn (N.to_nat rl)
                      (skipn (N.to_nat ((n + off) * rl))
                         (moved (ea_buf e) (N.to_nat n) (N.to_nat off) (N.to_nat rl)))) = N.to_nat rl).
      { rewrite firstn_length, skipn_length, Hml. lia. }
      rewrite mem_write_ok by (rewrite Hrl', Hml; lia). cbn [bind]. rewrite Hrl'.
      assert (Hn5 : n + 1 < W) by nia.
      rewrite N.mod_small by exact Hn5. f_equal. f_equal; [lia|].
      replace (N.to_nat (N.succ n)) with (S (N.to_nat n)) by lia.
      rewrite <- moved_step by nia.
      repeat f_equal; lia. }
  rewrite Hind by lia. reflexivity.
Qed.

(* ------------------------------------------------------------------ *)
(* invariant and abstraction *)

Definition eq_inv (q : equeue) : Prop :=
  ea_inv (eq_ea q) /\ 0 < eq_reclen q /\
  ea_size (eq_ea q) = (eq_offset q + eq_len q) * eq_reclen q.

(* the records of the queue, head first *)
Definition eq_recs (q : equeue) : list (list N) :=
  chunks (N.to_nat (eq_reclen q)) (N.to_nat (eq_len q))
         (skipn (N.to_nat (eq_offset q * eq_reclen q)) (ea_abs (eq_ea q))).

Definition eq_abs (q : equeue) : fifo := (eq_reclen q, eq_recs q).

Lemma eq_recs_length q : length (eq_recs q) = N.to_nat (eq_len q).
Proof. apply chunks_length. Qed.

(* the same records read from the storage itself *)
Lemma eq_recs_buf q :
  eq_inv q ->
  eq_recs q = chunks (N.to_nat (eq_reclen q)) (N.to_nat (eq_len q))
                     (skipn (N.to_nat (eq_offset q * eq_reclen q)) (ea_buf (eq_ea q))).
Proof.
  intros ((Hs & Hl & Ha) & Hr & Hsz). unfold eq_recs, ea_abs.
  rewrite skipn_firstn_comm. apply chunks_firstn. nia.
Qed.

(* blocks owned by a queue *)
Definition eq_owned (ssz qsz : N) (q : equeue) : list N := ea_owned ssz (eq_ea q) ++ [qsz].

(* ------------------------------------------------------------------ *)
(* elasticqueue_init *)

Lemma eq_init_spec ssz qsz reclen o :
  0 < reclen ->
  exists r o' ev,
    eq_init 2 4 2 ssz qsz reclen o = Ok (r, o', ev) /\
    match r with
    | Some q => refused ev = false /\ eq_inv q /\ eq_reclen q = reclen /\ eq_recs q = [] /\
                eq_offset q + eq_len q = 0 /\
                forall rest, exists h, heap_run rest ev = Some h /\ Permutation h (eq_owned ssz qsz q ++ rest)
    | None => refused ev = true /\ forall rest, exists h, heap_run rest ev = Some h /\ Permutation h rest
    end.
Proof.
  intros Hr. unfold eq_init. destruct (N.eqb_spec reclen 0) as [->|_]; [lia|].
  destruct (next o) as [b o1]. destruct b; cbn [negb].
  2:{ eexists _, _, _. split; [reflexivity|]. split; [reflexivity|]. intros rest. cbn. perm_refl. }
  destruct (step_init ssz 0 reclen 0 o1 Hr) as (x & st' & o2 & ev & Hs & Hi & Hspec & Hfail & _ & _ & Hh).
  cbn [ea_step] in Hs.
  destruct (ea_init 2 4 2 ssz 0 reclen o1) as [[[r o2'] ev']| | |] eqn:E; cbn [bind] in Hs; try discriminate.
  cbn [bind]. destruct r as [e|].
  - destruct (ea_fill_from e 0 0) as [e'| | |] eqn:Ef; cbn [bind] in Hs; try discriminate.
    inversion Hs; subst x st' o2' ev'. clear Hs.
    cbn [ea_spec_step st_abs option_map] in Hspec.
    destruct (refused ev) eqn:Erf; cbn [orb] in Hspec; [discriminate|].
    rewrite N.mul_0_l in Hspec. cbn in Hspec. inversion Hspec as [Habs].
    (* filling zero bytes does nothing *)
    assert (e' = e).
    { unfold ea_fill_from in Ef. cbn [st_inv] in Hi.
      destruct (N.ltb_spec 0 (ea_size e)) as [Hlt|Hge]; [|inversion Ef; reflexivity].
      exfalso. unfold ea_poke in Ef.
      destruct (mem_write (ea_buf e) (ea_get e 0 1) (repeat 0 (N.to_nat (ea_size e - 0)))) eqn:Ew;
        cbn [bind] in Ef; try discriminate. inversion Ef; subst e'.
      pose proof (ea_abs_length _ Hi) as Hlen. rewrite <- Habs in Hlen. cbn in Hlen. lia. }
    subst e'. cbn [st_inv] in Hi.
    pose proof (ea_abs_length _ Hi) as Hlen. rewrite <- Habs in Hlen. cbn in Hlen.
    eexists _, _, _. split; [reflexivity|].
    assert (Hrf : refused (AMalloc qsz true :: ev) = false) by (cbn; exact Erf).
    split; [exact Hrf|]. split; [|split; [reflexivity|split; [reflexivity|split; [reflexivity|]]]].
    + unfold eq_inv; cbn [eq_ea eq_reclen eq_offset eq_len].
      split; [exact Hi|]. split; [exact Hr|]. lia.
    + intros rest. cbn [heap_run heap_apply].
      destruct (Hh (qsz :: rest)) as (h & Hh1 & Hh2). cbn [st_owned handed app] in *.
      exists h. split; [exact Hh1|]. eapply Permutation_trans; [exact Hh2|].
      unfold eq_owned; cbn [eq_ea]. rewrite <- app_assoc. apply Permutation_refl.
  - inversion Hs; subst x st' o2' ev'. clear Hs.
    eexists _, _, _. split; [reflexivity|].
    cbn [ea_spec_step st_abs option_map] in Hspec.
    destruct (refused ev) eqn:Erf.
    + split. { change (refused ([AMalloc qsz true] ++ ev ++ [AFree qsz]) = true).
               rewrite !refused_app, Erf. apply orb_true_r. }
      intros rest. cbn [heap_run heap_apply]. rewrite heap_run_app.
      destruct (Hh (qsz :: rest)) as (h & Hh1 & Hh2). cbn [st_owned handed app] in *. rewrite Hh1.
      destruct (remove1_perm qsz (qsz :: rest) h rest (Permutation_sym Hh2) (remove1_head _ _))
        as (k & Hk1 & Hk2).
      cbn [heap_run heap_apply]. rewrite Hk1. eexists; split; [reflexivity|].
      apply Permutation_sym. exact Hk2.
    + cbn [orb] in Hspec. rewrite N.mul_0_l in Hspec. cbn in Hspec. discriminate.
Qed.
