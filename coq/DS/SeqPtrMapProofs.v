(* Proofs about the sequential-pointer-map model (C12 M4; C14 for the map). *)
From Coq Require Import NArith ZArith List Bool Lia Arith Permutation.
From LCP Require Import Base.CheckedMem.
From LCP Require Import DS.AllocOracle.
From LCP Require Import DS.ElasticArray.
From LCP Require Import DS.ElasticArrayProofs.
From LCP Require Import DS.ElasticQueue.
From LCP Require Import DS.ElasticQueueProofs.
From LCP Require Import DS.SeqPtrMap.
Import ListNotations.
Local Open Scope N_scope.
Local Open Scope res_scope.
Ltac Zify.zify_post_hook ::= Z.to_euclidean_division_equations.

(* ------------------------------------------------------------------ *)
(* pointers as 8-byte records *)

Lemma le_bytes_length n v : length (le_bytes n v) = n.
Proof. revert v. induction n as [|n IH]; intros v; cbn [le_bytes length]; [reflexivity|]. rewrite IH. reflexivity. Qed.

Lemma le_val_bytes n : forall v, le_val (le_bytes n v) = v mod 256 ^ N.of_nat n.
Proof.
  induction n as [|n IH]; intros v.
  - cbn. rewrite N.mod_1_r. reflexivity.
  - cbn [le_bytes le_val]. rewrite IH. rewrite Nat2N.inj_succ, N.pow_succ_r'.
    rewrite N.mod_mul_r by (try apply N.pow_nonzero; lia). reflexivity.
Qed.

Lemma le_val_ptr p : p < 2 ^ 64 -> le_val (le_bytes 8 p) = p.
Proof. intros H. rewrite le_val_bytes. apply N.mod_small. exact H. Qed.

Lemma le_val_null : le_val (le_bytes 8 0) = 0.
Proof. reflexivity. Qed.

(* ------------------------------------------------------------------ *)
(* the association list a pointer sequence stands for: number off + k holds the k-th pointer
   unless that is NULL (the tombstone) *)

Fixpoint live_of (off : Z) (ps : list N) : list (Z * N) :=
  match ps with
  | [] => []
  | p :: r => (if p =? 0 then [] else [(off, p)]) ++ live_of (off + 1) r
  end.

Lemma live_of_keys ps : forall off k p, In (k, p) (live_of off ps) -> (off <= k < off + Z.of_nat (length ps))%Z.
Proof.
  induction ps as [|q r IH]; intros off k p Hin; [destruct Hin|].
  cbn [live_of] in Hin. apply in_app_or in Hin. cbn [length]. destruct Hin as [Hin|Hin].
  - destruct (q =? 0); [destruct Hin|]. destruct Hin as [Heq|[]]. inversion Heq; subst. lia.
  - apply IH in Hin. lia.
Qed.

Lemma live_of_app a : forall off b,
  live_of off (a ++ b) = live_of off a ++ live_of (off + Z.of_nat (length a)) b.
Proof.
  induction a as [|p a IH]; intros off b; cbn [app live_of length].
  - f_equal. lia.
  - rewrite IH, <- app_assoc. do 3 f_equal. lia.
Qed.

Lemma am_lookup_out l i : (forall k p, In (k, p) l -> k <> i) -> am_lookup l i = 0.
Proof.
  induction l as [|[k p] l IH]; intros H; [reflexivity|]. cbn [am_lookup].
  destruct (Z.eqb_spec k i) as [->|_]; [exfalso; apply (H i p); [left; reflexivity|reflexivity]|].
  apply IH. intros k' p' Hin. apply (H k' p'). right. exact Hin.
Qed.

Lemma am_lookup_app_l a b i :
  (forall k p, In (k, p) b -> k <> i) -> am_lookup (a ++ b) i = am_lookup a i.
Proof.
  intros H. induction a as [|[k p] a IH]; cbn [app am_lookup]; [apply am_lookup_out; exact H|].
  destruct (k =? i)%Z; [reflexivity|exact IH].
Qed.

(* get: the stored pointer for a live number, NULL for every other number *)
Lemma live_of_lookup ps : forall off i,
  am_lookup (live_of off ps) i =
  if ((off <=? i) && (i <? off + Z.of_nat (length ps)))%Z
  then nth (Z.to_nat (i - off)) ps 0 else 0.
Proof.
  induction ps as [|p r IH]; intros off i.
  - cbn. destruct ((off <=? i)%Z && (i <? off + 0)%Z); [destruct (Z.to_nat (i - off))|]; reflexivity.
  - cbn [live_of length]. destruct (Z.eqb_spec off i) as [<-|Hne].
    + (* the head number *)
      rewrite am_lookup_app_l by (intros k q Hin; apply live_of_keys in Hin; lia).
      replace ((off <=? off)%Z && (off <? off + Z.of_nat (S (length r)))%Z) with true
        by (symmetry; apply andb_true_intro; split; [apply Z.leb_le|apply Z.ltb_lt]; lia).
      rewrite Z.sub_diag. cbn [Z.to_nat nth].
      destruct (N.eqb_spec p 0) as [->|_]; [reflexivity|]. cbn [am_lookup]. rewrite Z.eqb_refl. reflexivity.
    + assert (Hhd : forall l, am_lookup ((if p =? 0 then [] else [(off, p)]) ++ l) i = am_lookup l i).
      { intros l. destruct (p =? 0); [reflexivity|]. cbn [app am_lookup].
        destruct (Z.eqb_spec off i); [contradiction|reflexivity]. }
      rewrite Hhd, IH.
      destruct (Z.leb_spec off i), (Z.leb_spec (off + 1) i),
               (Z.ltb_spec i (off + 1 + Z.of_nat (length r))), (Z.ltb_spec i (off + Z.of_nat (S (length r))));
        cbn [andb]; try lia; try reflexivity.
      replace (Z.to_nat (i - off)) with (S (Z.to_nat (i - (off + 1)))) by lia. reflexivity.
Qed.

Lemma fold_min_id (l : list (Z * N)) : forall k,
  (forall kp, In kp l -> (k <= fst kp)%Z) -> fold_left (fun a kp => Z.min a (fst kp)) l k = k.
Proof.
  induction l as [|x l IH]; intros k H; [reflexivity|]. cbn [fold_left].
  rewrite Z.min_l by (apply H; left; reflexivity). apply IH. intros kp Hin. apply H. right. exact Hin.
Qed.

(* getmin: the least live number when the first pointer is not a tombstone, -1 when empty *)
Lemma live_of_min off p r : p <> 0 -> am_min (live_of off (p :: r)) = off.
Proof.
  intros Hp. cbn [live_of]. destruct (N.eqb_spec p 0); [contradiction|]. cbn [app am_min].
  apply fold_min_id. intros [k q] Hin. apply live_of_keys in Hin. cbn [fst]. lia.
Qed.

(* am_min really is the least key of the list *)
Lemma am_min_least l k p : In (k, p) l -> (am_min l <= k)%Z /\ exists q, In (am_min l, q) l.
Proof.
  destruct l as [|[k0 p0] l]; [intros []|]. cbn [am_min].
  assert (F : forall (l : list (Z * N)) a, (fold_left (fun a kp => Z.min a (fst kp)) l a <= a)%Z /\
                          (forall kp, In kp l -> (fold_left (fun a kp => Z.min a (fst kp)) l a <= fst kp)%Z) /\
                          (fold_left (fun a kp => Z.min a (fst kp)) l a = a \/
                           exists kp, In kp l /\ fold_left (fun a kp => Z.min a (fst kp)) l a = fst kp)).
  { induction l0 as [|x l0 IHl]; intros a; cbn [fold_left].
    - split; [lia|]. split; [intros ? []|]. left. reflexivity.
    - destruct (IHl (Z.min a (fst x))) as (I1 & I2 & I3). split; [lia|]. split.
      + intros kp [->|Hin]; [lia|]. apply I2. exact Hin.
      + destruct I3 as [I3|(kp & Hin & I3)].
        * destruct (Z.min_spec a (fst x)) as [(_ & Hm)|(_ & Hm)].
          -- left. rewrite I3. exact Hm.
          -- right. exists x. split; [left; reflexivity|]. rewrite I3. exact Hm.
        * right. exists kp. split; [right; exact Hin|exact I3]. }
  destruct (F l k0) as (F1 & F2 & F3). intros [Heq|Hin].
  - inversion Heq; subst. split; [exact F1|].
    destruct F3 as [->|((k1 & p1) & Hin1 & ->)]; [exists p; left; reflexivity|].
    exists p1. right. exact Hin1.
  - split; [apply (F2 (k, p)); exact Hin|].
    destruct F3 as [->|((k1 & p1) & Hin1 & ->)]; [exists p0; left; reflexivity|].
    exists p1. right. exact Hin1.
Qed.

(* ------------------------------------------------------------------ *)
(* deletion on the association list = writing a tombstone *)

Lemma am_remove_none l i : (forall k p, In (k, p) l -> k <> i) -> am_remove l i = l.
Proof.
  induction l as [|[k p] l IH]; intros H; [reflexivity|]. unfold am_remove in *. cbn [filter fst].
  destruct (Z.eqb_spec k i) as [->|_]; [exfalso; apply (H i p); [left; reflexivity|reflexivity]|].
  cbn [negb]. f_equal. apply IH. intros k' p' Hin. apply (H k' p'). right. exact Hin.
Qed.

Lemma live_of_remove ps : forall off i,
  (off <= i < off + Z.of_nat (length ps))%Z ->
  am_remove (live_of off ps) i = live_of off (set_nth ps (Z.to_nat (i - off)) 0).
Proof.
  induction ps as [|p r IH]; intros off i Hi; cbn [length] in Hi; [lia|].
  cbn [live_of]. unfold am_remove. rewrite filter_app. fold (am_remove (live_of (off + 1) r) i).
  destruct (Z.eqb_spec off i) as [<-|Hne].
  - rewrite Z.sub_diag. cbn [Z.to_nat set_nth live_of N.eqb app].
    rewrite am_remove_none by (intros k q Hin; apply live_of_keys in Hin; lia).
    destruct (p =? 0); [reflexivity|]. cbn [filter fst]. rewrite Z.eqb_refl. reflexivity.
  - replace (Z.to_nat (i - off)) with (S (Z.to_nat (i - (off + 1)))) by lia.
    cbn [set_nth live_of]. rewrite IH by lia. f_equal.
    destruct (p =? 0); [reflexivity|]. cbn [filter fst].
    destruct (Z.eqb_spec off i); [contradiction|reflexivity].
Qed.

(* trimming leading tombstones *)
Fixpoint drop0 (ps : list N) : list N :=
  match ps with
  | [] => []
  | p :: r => if p =? 0 then drop0 r else ps
  end.

Lemma drop0_length ps : (length (drop0 ps) <= length ps)%nat.
Proof. induction ps as [|p r IH]; cbn [drop0 length]; [lia|]. destruct (p =? 0); cbn [length]; lia. Qed.

Lemma live_of_drop0 ps : forall off,
  live_of (off + Z.of_nat (length ps - length (drop0 ps))) (drop0 ps) = live_of off ps.
Proof.
  induction ps as [|p r IH]; intros off; cbn [drop0 length live_of].
  - f_equal.
  - pose proof (drop0_length r). destruct (N.eqb_spec p 0) as [->|Hp].
    + cbn [app]. rewrite <- (IH (off + 1)%Z). f_equal. lia.
    + cbn [length]. replace (off + Z.of_nat (S (length r) - S (length r)))%Z with off by lia.
      cbn [live_of]. destruct (N.eqb_spec p 0); [contradiction|reflexivity].
Qed.

Lemma map_set_nth {A B} (f : A -> B) l : forall i x, map f (set_nth l i x) = set_nth (map f l) i (f x).
Proof.
  induction l as [|y l IH]; intros i x; [reflexivity|]. destruct i; cbn [set_nth map]; [reflexivity|].
  f_equal. apply IH.
Qed.

Lemma set_nth_length {A} (l : list A) : forall i x, length (set_nth l i x) = length l.
Proof. induction l as [|y l IH]; intros i x; [reflexivity|]. destruct i; cbn [set_nth length]; auto. Qed.

(* ------------------------------------------------------------------ *)
(* invariant and abstraction *)

Definition spm_ptrs (m : spmap) : list N := map le_val (eq_recs (sp_ptrs m)).

Definition spm_inv (m : spmap) : Prop :=
  eq_inv (sp_ptrs m) /\ eq_reclen (sp_ptrs m) = 8 /\ sp_len m = eq_len (sp_ptrs m) /\
  (0 <= sp_offset m)%Z /\ (sp_offset m + Z.of_N (sp_len m) <= INT64_MAX)%Z.

Definition spm_trimmed (m : spmap) : Prop :=
  match spm_ptrs m with p :: _ => p <> 0 | [] => True end.

Definition spm_abs (m : spmap) : amap :=
  {| am_next := (sp_offset m + Z.of_N (sp_len m))%Z; am_live := live_of (sp_offset m) (spm_ptrs m) |}.

Lemma spm_ptrs_length m : length (spm_ptrs m) = N.to_nat (eq_len (sp_ptrs m)).
Proof. unfold spm_ptrs. rewrite map_length. apply eq_recs_length. Qed.

Definition spm_owned (ssz qsz msz : N) (m : spmap) : list N := eq_owned ssz qsz (sp_ptrs m) ++ [msz].

Lemma INT64_MAX_val : INT64_MAX = 9223372036854775807%Z.
Proof. reflexivity. Qed.
Global Opaque INT64_MAX.

(* ------------------------------------------------------------------ *)
(* seqptrmap_get *)

Lemma spm_load_spec m pos :
  spm_inv m -> pos < sp_len m -> spm_load m pos = Ok (nth (N.to_nat pos) (spm_ptrs m) 0).
Proof.
  intros (Hq & Hr & Hl & _) Hp. unfold spm_load. rewrite eq_peek_spec by exact Hq. cbn [bind].
  rewrite Hl in Hp. apply N.ltb_lt in Hp. rewrite Hp. apply N.ltb_lt in Hp.
  destruct (nth_error (eq_recs (sp_ptrs m)) (N.to_nat pos)) as [r|] eqn:E.
  - f_equal. unfold spm_ptrs. symmetry. apply nth_error_nth. apply map_nth_error. exact E.
  - apply nth_error_None in E. rewrite eq_recs_length in E. lia.
Qed.

Lemma spm_index_spec m i :
  spm_inv m -> (sp_offset m <= i <= INT64_MAX)%Z -> spm_index m i = Z.to_N (i - sp_offset m).
Proof.
  intros (_ & _ & _ & Ho & _) Hi. unfold spm_index. rewrite INT64_MAX_val in Hi.
  rewrite Z.mod_small; [reflexivity|]. change (2 ^ 64)%Z with 18446744073709551616%Z. lia.
Qed.

Lemma spm_get_spec m i :
  spm_inv m -> (- 2 ^ 63 <= i <= INT64_MAX)%Z ->
  spm_get m i = Ok (am_lookup (am_live (spm_abs m)) i).
Proof.
  intros Hm Hi. pose proof Hm as (Hq & Hr & Hl & Ho & Hb). unfold spm_get, spm_abs; cbn [am_live].
  rewrite live_of_lookup, spm_ptrs_length, <- Hl.
  destruct (Z.ltb_spec i (sp_offset m)) as [Hlt|Hge].
  - destruct (Z.leb_spec (sp_offset m) i); [lia|]. reflexivity.
  - rewrite spm_index_spec by (try assumption; lia).
    destruct (Z.leb_spec (sp_offset m) i); [|lia]. cbn [andb].
    destruct (N.leb_spec (sp_len m) (Z.to_N (i - sp_offset m))) as [Hout|Hin].
    + destruct (Z.ltb_spec i (sp_offset m + Z.of_nat (N.to_nat (sp_len m)))); [lia|reflexivity].
    + destruct (Z.ltb_spec i (sp_offset m + Z.of_nat (N.to_nat (sp_len m)))); [|lia].
      rewrite spm_load_spec by assumption. do 2 f_equal. lia.
Qed.

(* seqptrmap_getmin *)
Lemma spm_getmin_spec m :
  spm_inv m -> spm_trimmed m -> spm_getmin m = am_min (am_live (spm_abs m)).
Proof.
  intros (Hq & Hr & Hl & Ho & Hb) Ht. unfold spm_getmin, spm_abs, eq_getlen; cbn [am_live].
  pose proof (spm_ptrs_length m) as Hpl. unfold spm_trimmed in Ht.
  destruct (spm_ptrs m) as [|p r] eqn:E; cbn [length] in Hpl.
  - destruct (N.eqb_spec (eq_len (sp_ptrs m)) 0); [reflexivity|lia].
  - destruct (N.eqb_spec (eq_len (sp_ptrs m)) 0); [lia|]. symmetry. apply live_of_min. exact Ht.
Qed.

(* ------------------------------------------------------------------ *)
(* seqptrmap_add *)

Lemma spm_add_spec m p o :
  spm_inv m -> spm_trimmed m -> 0 < p < 2 ^ 64 ->
  (eq_offset (sp_ptrs m) + eq_len (sp_ptrs m) + 1) * 8 < W ->
  (sp_offset m + Z.of_N (sp_len m) < INT64_MAX)%Z ->
  exists r m' o' ev,
    spm_add 2 4 2 8 m p o = Ok (r, m', o', ev) /\
    ((r = None /\ m' = m /\ refused ev = true) \/
     (r = Some (am_next (spm_abs m)) /\ refused ev = false /\ spm_inv m' /\ spm_trimmed m' /\
      am_next (spm_abs m') = (am_next (spm_abs m) + 1)%Z /\
      am_live (spm_abs m') = am_live (spm_abs m) ++ [(am_next (spm_abs m), p)] /\
      eq_offset (sp_ptrs m') + eq_len (sp_ptrs m') = eq_offset (sp_ptrs m) + eq_len (sp_ptrs m) + 1)) /\
    (forall rest, heap_run (ea_owned_buf (eq_ea (sp_ptrs m)) ++ rest) ev =
                  Some (ea_owned_buf (eq_ea (sp_ptrs m')) ++ rest)).
Proof.
  intros Hm Ht Hp HW Hnext. pose proof Hm as (Hq & Hr & Hl & Ho & Hb).
  unfold spm_add. change (N.to_nat 8) with 8%nat.
  assert (Hrec : eq_reclen (sp_ptrs m) <= N.of_nat (length (le_bytes 8 p))) by (rewrite le_bytes_length, Hr; lia).
  assert (HW' : (eq_offset (sp_ptrs m) + eq_len (sp_ptrs m) + 1) * eq_reclen (sp_ptrs m) < W) by (rewrite Hr; exact HW).
  destruct (eq_add_spec (sp_ptrs m) (le_bytes 8 p) o Hq Hrec HW') as (ok & q1 & o1 & ev & H & P1 & P2 & P3).
  rewrite H. cbn [bind]. destruct ok; cbn [negb].
  - destruct (P1 eq_refl) as (Hrf & Hq1 & Hr1 & Hrecs & Hu). clear P2.
    rewrite INT64_MAX_val in *.
    assert (Hlen1 : (sp_len m + 1) mod W = sp_len m + 1).
    { apply N.mod_small. rewrite W_val. lia. }
    rewrite Hlen1.
    destruct (Z.ltb_spec 9223372036854775807 (Z.of_N (sp_len m + 1))) as [Hbad|_]; [lia|].
    destruct (Z.ltb_spec (9223372036854775807 - Z.of_N (sp_len m + 1)) (sp_offset m)) as [Hbad|_]; [lia|].
    eexists _, _, _, _. split; [reflexivity|]. split; [|exact P3]. right.
    assert (Hptrs : spm_ptrs {| sp_ptrs := q1; sp_offset := sp_offset m; sp_len := sp_len m + 1 |}
                    = spm_ptrs m ++ [p]).
    { unfold spm_ptrs; cbn [sp_ptrs]. rewrite Hrecs, map_app. cbn [map]. rewrite Hr.
      change (N.to_nat 8) with 8%nat.
      rewrite firstn_all2 by (rewrite le_bytes_length; lia). rewrite le_val_ptr by lia. reflexivity. }
    assert (Hlen_q1 : eq_len q1 = eq_len (sp_ptrs m) + 1).
    { pose proof (f_equal (@length _) Hrecs) as HL. rewrite app_length, !eq_recs_length in HL. cbn in HL. lia. }
    split; [unfold spm_abs; cbn [am_next]; f_equal; lia|]. split; [exact Hrf|].
    split; [|split; [|split; [|split]]].
    + unfold spm_inv; cbn [sp_ptrs sp_offset sp_len]. rewrite INT64_MAX_val.
      split; [exact Hq1|]. split; [congruence|]. split; [lia|]. split; [exact Ho|]. lia.
    + unfold spm_trimmed. rewrite Hptrs. unfold spm_trimmed in Ht.
      destruct (spm_ptrs m); cbn [app]; [lia|exact Ht].
    + unfold spm_abs; cbn [am_next sp_offset sp_len]. lia.
    + unfold spm_abs; cbn [am_live am_next sp_offset sp_len]. rewrite Hptrs, live_of_app.
      cbn [live_of]. destruct (N.eqb_spec p 0); [lia|]. cbn [app].
      rewrite spm_ptrs_length. do 4 f_equal. lia.
    + cbn [sp_ptrs]. exact Hu.
  - destruct (P2 eq_refl) as (-> & Hrf). eexists _, _, _, _. split; [reflexivity|]. split; [|exact P3].
    left. split; [reflexivity|]. split; [destruct m; reflexivity|exact Hrf].
Qed.

(* ------------------------------------------------------------------ *)
(* the trimming loop of seqptrmap_delete *)

Lemma spm_trim_spec : forall fuel m o acc,
  spm_inv m -> (length (spm_ptrs m) <= fuel)%nat ->
  exists m' o' ev,
    spm_trim 2 4 2 fuel m o acc = Ok (m', o', acc ++ ev) /\
    spm_inv m' /\ spm_trimmed m' /\
    (sp_offset m' + Z.of_N (sp_len m') = sp_offset m + Z.of_N (sp_len m))%Z /\
    live_of (sp_offset m') (spm_ptrs m') = live_of (sp_offset m) (spm_ptrs m) /\
    eq_offset (sp_ptrs m') + eq_len (sp_ptrs m') <= eq_offset (sp_ptrs m) + eq_len (sp_ptrs m) /\
    (forall rest, heap_run (ea_owned_buf (eq_ea (sp_ptrs m)) ++ rest) ev =
                  Some (ea_owned_buf (eq_ea (sp_ptrs m')) ++ rest)).
Proof.
  induction fuel as [|f IH]; intros m o acc Hm Hfuel; pose proof Hm as (Hq & Hr & Hl & Ho & Hb);
    pose proof (spm_ptrs_length m) as Hpl.
  - (* no fuel: the queue must be empty *)
    assert (Hz : eq_len (sp_ptrs m) = 0) by lia.
    cbn [spm_trim]. unfold eq_getlen. rewrite Hz. cbn [N.eqb].
    exists m, o, []. rewrite app_nil_r. split; [reflexivity|]. split; [exact Hm|].
    split; [unfold spm_trimmed; destruct (spm_ptrs m); [exact I|cbn in Hfuel; lia]|].
    repeat split; try lia. 
  - cbn [spm_trim]. unfold eq_getlen.
    destruct (N.eqb_spec (eq_len (sp_ptrs m)) 0) as [Hz|Hnz].
    + exists m, o, []. rewrite app_nil_r. split; [reflexivity|]. split; [exact Hm|].
      split; [unfold spm_trimmed; destruct (spm_ptrs m); [exact I|cbn in Hpl; lia]|].
      repeat split; try lia.
    + rewrite spm_load_spec by (try assumption; lia). cbn [bind N.to_nat].
      destruct (spm_ptrs m) as [|p r] eqn:Eptrs; cbn [length] in Hpl; [lia|]. cbn [nth].
      destruct (N.eqb_spec p 0) as [->|Hp]; cbn [negb].
      * (* a leading tombstone: delete it and go on *)
        destruct (eq_delete_spec (sp_ptrs m) o Hq) as (q1 & o1 & ev1 & H & Hq1 & Hr1 & Hrecs & Hlen1 & Hu & Hh).
        rewrite H. cbn [bind]. rewrite INT64_MAX_val in *.
        destruct (Z.ltb_spec 9223372036854775807 (sp_offset m + 1)) as [Hbad|_]; [lia|].
        assert (Hlenm : (sp_len m + W - 1) mod W = sp_len m - 1).
        { rewrite W_val. replace (sp_len m + 18446744073709551616 - 1) with
              ((sp_len m - 1) + 1 * 18446744073709551616) by lia.
          rewrite N.mod_add by lia. apply N.mod_small. lia. }
        rewrite Hlenm.
        set (m1 := {| sp_ptrs := q1; sp_offset := (sp_offset m + 1)%Z; sp_len := sp_len m - 1 |}).
        assert (Hm1 : spm_inv m1).
        { unfold spm_inv, m1; cbn [sp_ptrs sp_offset sp_len]. rewrite INT64_MAX_val.
          split; [exact Hq1|]. split; [congruence|]. split; [lia|]. split; lia. }
        assert (Hptrs1 : spm_ptrs m1 = r).
        { unfold spm_ptrs, m1; cbn [sp_ptrs]. rewrite Hrecs. unfold spm_ptrs in Eptrs.
          destruct (eq_recs (sp_ptrs m)); cbn [map tl] in *; [discriminate|]. inversion Eptrs. reflexivity. }
        destruct (IH m1 o1 (acc ++ ev1) Hm1) as (m' & o' & ev' & H' & Hm' & Ht' & Hn' & Hlive' & Hu' & Hh').
        { rewrite Hptrs1. cbn [length] in Hfuel. lia. }
        exists m', o', (ev1 ++ ev'). rewrite app_assoc. split; [exact H'|].
        split; [exact Hm'|]. split; [exact Ht'|].
        split; [rewrite Hn'; unfold m1; cbn [sp_offset sp_len]; lia|].
        split; [rewrite Hlive', Hptrs1; unfold m1; cbn [sp_offset live_of N.eqb app]; reflexivity|].
        split; [unfold m1 in Hu'; cbn [sp_ptrs] in Hu'; lia|].
        intros rest. rewrite heap_run_app, Hh. unfold m1 in Hh'; cbn [sp_ptrs] in Hh'. apply Hh'.
      * exists m, o, []. rewrite app_nil_r. split; [reflexivity|]. split; [exact Hm|].
        split; [unfold spm_trimmed; rewrite Eptrs; exact Hp|].
        repeat split; try lia. rewrite Eptrs. reflexivity.
Qed.

(* ------------------------------------------------------------------ *)
(* seqptrmap_delete: cannot fail *)

Lemma spm_delete_spec m i o :
  spm_inv m -> spm_trimmed m -> (- 2 ^ 63 <= i <= INT64_MAX)%Z ->
  exists m' o' ev,
    spm_delete 2 4 2 8 m i o = Ok (m', o', ev) /\ spm_inv m' /\ spm_trimmed m' /\
    am_next (spm_abs m') = am_next (spm_abs m) /\
    am_live (spm_abs m') = am_remove (am_live (spm_abs m)) i /\
    eq_offset (sp_ptrs m') + eq_len (sp_ptrs m') <= eq_offset (sp_ptrs m) + eq_len (sp_ptrs m) /\
    (forall rest, heap_run (ea_owned_buf (eq_ea (sp_ptrs m)) ++ rest) ev =
                  Some (ea_owned_buf (eq_ea (sp_ptrs m')) ++ rest)).
Proof.
  intros Hm Ht Hi. pose proof Hm as (Hq & Hr & Hl & Ho & Hb). unfold spm_delete.
  assert (Hkeys : forall k p, In (k, p) (am_live (spm_abs m)) ->
                              (sp_offset m <= k < sp_offset m + Z.of_N (sp_len m))%Z).
  { intros k p Hin. unfold spm_abs in Hin; cbn [am_live] in Hin. apply live_of_keys in Hin.
    rewrite spm_ptrs_length, <- Hl in Hin. lia. }
  destruct (Z.ltb_spec i (sp_offset m)) as [Hlt|Hge].
  - exists m, o, []. split; [reflexivity|]. split; [exact Hm|]. split; [exact Ht|]. split; [reflexivity|].
    split; [|split; [lia|intros; reflexivity]].
    symmetry. apply am_remove_none. intros k p Hin. apply Hkeys in Hin. lia.
  - rewrite spm_index_spec by (try assumption; lia).
    destruct (N.leb_spec (sp_len m) (Z.to_N (i - sp_offset m))) as [Hout|Hin].
    + exists m, o, []. split; [reflexivity|]. split; [exact Hm|]. split; [exact Ht|]. split; [reflexivity|].
      split; [|split; [lia|intros; reflexivity]].
      symmetry. apply am_remove_none. intros k p Hin. apply Hkeys in Hin. lia.
    + set (idx := Z.to_N (i - sp_offset m)) in *.
      change (N.to_nat 8) with 8%nat.
      assert (Hpos : idx < eq_len (sp_ptrs m)) by lia.
      assert (Hrec : N.of_nat (length (le_bytes 8 0)) = eq_reclen (sp_ptrs m)) by (rewrite Hr; reflexivity).
      destruct (eq_store_spec (sp_ptrs m) idx (le_bytes 8 0) Hq Hpos Hrec)
        as (q1 & Hst & Hq1 & Hr1 & Hrecs & Ho1 & Hl1 & Ha1).
      rewrite Hst. cbn [bind].
      set (m1 := {| sp_ptrs := q1; sp_offset := sp_offset m; sp_len := sp_len m |}).
      assert (Hm1 : spm_inv m1).
      { unfold spm_inv, m1; cbn [sp_ptrs sp_offset sp_len].
        split; [exact Hq1|]. split; [congruence|]. split; [congruence|]. split; assumption. }
      assert (Hptrs1 : spm_ptrs m1 = set_nth (spm_ptrs m) (N.to_nat idx) 0).
      { unfold spm_ptrs, m1; cbn [sp_ptrs]. rewrite Hrecs, map_set_nth. reflexivity. }
      destruct (spm_trim_spec (N.to_nat (eq_getlen q1)) m1 o [] Hm1)
        as (m' & o' & ev & H' & Hm' & Ht' & Hn' & Hlive' & Hu' & Hh').
      { rewrite spm_ptrs_length. unfold m1, eq_getlen; cbn [sp_ptrs]. lia. }
      cbn [app] in H'. exists m', o', ev. split; [exact H'|]. split; [exact Hm'|]. split; [exact Ht'|].
      split; [unfold spm_abs; cbn [am_next]; rewrite Hn'; reflexivity|].
      split; [|split].
      * unfold spm_abs; cbn [am_live]. rewrite Hlive', Hptrs1. unfold m1; cbn [sp_offset].
        rewrite live_of_remove by (rewrite spm_ptrs_length; lia). do 2 f_equal. lia.
      * unfold m1 in Hu'; cbn [sp_ptrs] in Hu'. lia.
      * intros rest. specialize (Hh' rest). unfold m1 in Hh'; cbn [sp_ptrs] in Hh'.
        unfold ea_owned_buf, ea_blk in *. rewrite Ha1 in Hh'. exact Hh'.
Qed.

(* ------------------------------------------------------------------ *)
(* seqptrmap_init *)

Lemma spm_init_spec ssz qsz msz o :
  exists r o' ev,
    spm_init 2 4 2 ssz qsz msz 8 o = Ok (r, o', ev) /\
    match r with
    | Some m => refused ev = false /\ spm_inv m /\ spm_trimmed m /\
                spm_abs m = {| am_next := 0; am_live := [] |} /\
                eq_offset (sp_ptrs m) + eq_len (sp_ptrs m) = 0 /\
                forall rest, exists h, heap_run rest ev = Some h /\
                                       Permutation h (spm_owned ssz qsz msz m ++ rest)
    | None => refused ev = true /\ forall rest, exists h, heap_run rest ev = Some h /\ Permutation h rest
    end.
Proof.
  unfold spm_init. destruct (next o) as [b o1]. destruct b; cbn [negb].
  2:{ eexists _, _, _. split; [reflexivity|]. split; [reflexivity|]. intros rest. cbn. perm_refl. }
  destruct (eq_init_spec ssz qsz 8 o1 ltac:(lia)) as (r & o2 & ev & H & P).
  rewrite H. cbn [bind]. destruct r as [q|].
  - destruct P as (Hrf & Hq & Hr & Hrecs & Hu & Hh).
    eexists _, _, _. split; [reflexivity|].
    assert (Hlen : eq_len q = 0) by lia. assert (Hoff : eq_offset q = 0) by lia.
    split; [cbn; exact Hrf|]. split; [|split; [|split; [|split]]].
    + unfold spm_inv; cbn [sp_ptrs sp_offset sp_len]. rewrite INT64_MAX_val.
      split; [exact Hq|]. split; [exact Hr|]. split; [lia|]. split; lia.
    + unfold spm_trimmed, spm_ptrs; cbn [sp_ptrs]. rewrite Hrecs. exact I.
    + unfold spm_abs, spm_ptrs; cbn [sp_ptrs sp_offset sp_len]. rewrite Hrecs. reflexivity.
    + cbn [sp_ptrs]. exact Hu.
    + intros rest. cbn [heap_run heap_apply]. destruct (Hh (msz :: rest)) as (h & Hh1 & Hh2).
      exists h. split; [exact Hh1|]. eapply Permutation_trans; [exact Hh2|].
      unfold spm_owned; cbn [sp_ptrs]. rewrite <- app_assoc. apply Permutation_refl.
  - destruct P as (Hrf & Hh). eexists _, _, _. split; [reflexivity|]. split.
    + change (refused ([AMalloc msz true] ++ ev ++ [AFree msz]) = true).
      rewrite !refused_app, Hrf. apply orb_true_r.
    + intros rest. cbn [heap_run heap_apply]. rewrite heap_run_app.
      destruct (Hh (msz :: rest)) as (h & Hh1 & Hh2). rewrite Hh1.
      destruct (remove1_perm msz (msz :: rest) h rest (Permutation_sym Hh2) (remove1_head _ _))
        as (k & Hk1 & Hk2).
      cbn [heap_run heap_apply]. rewrite Hk1. eexists; split; [reflexivity|].
      apply Permutation_sym. exact Hk2.
Qed.

(* ------------------------------------------------------------------ *)
(* one operation of a client program *)

(* stored pointers are non-NULL 64-bit values (NULL is the tombstone); numbers are int64_t *)
Definition spm_op_ok (op : spm_op) : Prop :=
  match op with
  | SAdd p => 0 < p < 2 ^ 64
  | SGet i | SDelete i => (- 2 ^ 63 <= i <= INT64_MAX)%Z
  | _ => True
  end.

Definition mst_inv (st : option spmap) : Prop :=
  match st with Some m => spm_inv m /\ spm_trimmed m | None => True end.
Definition mst_abs (st : option spmap) : option amap := option_map spm_abs st.
Definition m_used (st : option spmap) : N :=
  match st with Some m => eq_offset (sp_ptrs m) + eq_len (sp_ptrs m) | None => 0 end.
Definition m_next (st : option spmap) : Z :=
  match st with Some m => am_next (spm_abs m) | None => 0%Z end.
Definition mst_owned (ssz qsz msz : N) (st : option spmap) : list N :=
  match st with Some m => spm_owned ssz qsz msz m | None => [] end.

Definition spm_err_out (op : spm_op) : spm_out :=
  match op with SAdd _ => ZNum (-1) | _ => ZRc false end.
Definition is_sdelete (op : spm_op) : bool := match op with SDelete _ => true | _ => false end.

Definition mstep_post (ssz qsz msz : N) (op : spm_op) (st : option spmap) (x : spm_out)
           (st' : option spmap) (ev : list aev) : Prop :=
  mst_inv st' /\
  spm_spec_step op (mst_abs st) (refused ev) = (x, mst_abs st') /\
  (refused ev = true -> is_sdelete op = false -> st' = st /\ x = spm_err_out op) /\
  m_used st' <= m_used st + 1 /\ (m_next st' <= m_next st + 1)%Z /\
  (forall rest, exists h, heap_run (mst_owned ssz qsz msz st ++ rest) ev = Some h /\
                          Permutation h (mst_owned ssz qsz msz st' ++ rest)).

Lemma heap_spm_owned ssz qsz msz m m' ev rest :
  (forall r, heap_run (ea_owned_buf (eq_ea (sp_ptrs m)) ++ r) ev =
             Some (ea_owned_buf (eq_ea (sp_ptrs m')) ++ r)) ->
  heap_run (spm_owned ssz qsz msz m ++ rest) ev = Some (spm_owned ssz qsz msz m' ++ rest).
Proof. intros H. unfold spm_owned, eq_owned. rewrite !ea_owned_split, <- !app_assoc. apply H. Qed.

Ltac mpost6 :=
  unfold mstep_post;
  cbn [mst_inv mst_abs option_map spm_spec_step m_used m_next mst_owned app is_sdelete spm_err_out];
  refine (conj _ (conj _ (conj _ (conj _ (conj _ _))))).

Lemma spm_abs_eta a : {| am_next := am_next a; am_live := am_live a |} = a.
Proof. destruct a; reflexivity. Qed.

Theorem spm_step_ok ssz qsz msz op st o :
  mst_inv st -> spm_op_ok op -> (m_used st + 1) * 8 < W -> (m_next st < INT64_MAX)%Z ->
  exists x st' o' ev,
    spm_step 2 4 2 ssz qsz msz 8 op st o = Ok (x, st', o', ev) /\
    mstep_post ssz qsz msz op st x st' ev.
Proof.
  intros Hi Hok HW Hnx. destruct st as [m|].
  - destruct Hi as (Hm & Ht). cbn [m_used m_next] in HW, Hnx.
    destruct op; cbn [spm_op_ok] in Hok; cbn [spm_step].
    + (* init on an existing map: skipped *)
      eexists _, _, _, _. split; [reflexivity|]. mpost6; try lia.
      * auto.
      * reflexivity.
      * discriminate.
      * intros rest. cbn [heap_run]. perm_refl.
    + (* add *)
      destruct (spm_add_spec m ptr o Hm Ht Hok HW Hnx) as (r & m1 & o1 & ev & H & P & Hh).
      rewrite H. cbn [bind]. eexists _, _, _, _. split; [reflexivity|].
      destruct P as [(-> & -> & Hrf) | (-> & Hrf & Hm1 & Ht1 & Hn1 & Hl1 & Hu1)]; mpost6; try lia.
      * auto.
      * rewrite Hrf. reflexivity.
      * intros _ _. split; reflexivity.
      * intros rest. rewrite (heap_spm_owned ssz qsz msz m m) by exact Hh. perm_refl.
      * auto.
      * rewrite Hrf. do 2 f_equal. rewrite <- Hn1, <- Hl1. apply spm_abs_eta.
      * rewrite Hrf. discriminate.
      * intros rest. rewrite (heap_spm_owned ssz qsz msz m m1) by exact Hh. perm_refl.
    + (* get *)
      rewrite spm_get_spec by assumption. cbn [bind].
      eexists _, _, _, _. split; [reflexivity|]. mpost6; try lia.
      * auto.
      * reflexivity.
      * discriminate.
      * intros rest. cbn [heap_run]. perm_refl.
    + (* getmin *)
      eexists _, _, _, _. split; [reflexivity|]. mpost6; try lia.
      * auto.
      * rewrite spm_getmin_spec by assumption. reflexivity.
      * discriminate.
      * intros rest. cbn [heap_run]. perm_refl.
    + (* delete *)
      destruct (spm_delete_spec m i o Hm Ht Hok) as (m1 & o1 & ev & H & Hm1 & Ht1 & Hn1 & Hl1 & Hu1 & Hh).
      rewrite H. cbn [bind]. eexists _, _, _, _. split; [reflexivity|]. mpost6; try lia.
      * auto.
      * do 2 f_equal. rewrite <- Hn1, <- Hl1. apply spm_abs_eta.
      * intros rest. rewrite (heap_spm_owned ssz qsz msz m m1) by exact Hh. perm_refl.
    + (* free *)
      eexists _, _, _, _. split; [reflexivity|].
      assert (Hrf : refused (spm_free_ev ssz qsz msz m) = false).
      { unfold spm_free_ev, eq_free_ev, ea_free_ev, ea_free_buf_ev.
        destruct (ea_blk (eq_ea (sp_ptrs m))); reflexivity. }
      mpost6; try lia; try reflexivity; try (rewrite Hrf; discriminate).
      * unfold spm_abs; cbn [am_next]. destruct Hm as (_ & _ & _ & ? & _). lia.
      * intros rest. unfold spm_free_ev, eq_free_ev, ea_free_ev, spm_owned, eq_owned.
        rewrite !heap_run_app. rewrite ea_owned_split, <- !app_assoc. rewrite heap_free_buf.
        cbn [app heap_run heap_apply]. rewrite remove1_head.
        cbn [app heap_run heap_apply]. rewrite remove1_head.
        cbn [app heap_run heap_apply]. rewrite remove1_head. perm_refl.
  - destruct op; cbn [spm_op_ok] in Hok; cbn [spm_step].
    2-6: (eexists _, _, _, _; (split; [reflexivity|]); mpost6; try lia; try exact I; try reflexivity;
          try discriminate; try (intros _ Hf; discriminate Hf);
          intros rest; cbn [heap_run]; perm_refl).
    (* init *)
    destruct (spm_init_spec ssz qsz msz o) as (r & o1 & ev & H & P).
    rewrite H. cbn [bind]. eexists _, _, _, _. split; [reflexivity|]. destruct r as [m|].
    + destruct P as (Hrf & Hm & Ht & Habs & Hu & Hh). mpost6; try lia.
      * auto.
      * rewrite Hrf, Habs. reflexivity.
      * rewrite Hrf. discriminate.
      * rewrite Habs. cbn. lia.
      * exact Hh.
    + destruct P as (Hrf & Hh). mpost6; try lia.
      * rewrite Hrf. reflexivity.
      * intros _ _. split; reflexivity.
      * exact Hh.
Qed.

(* ------------------------------------------------------------------ *)
(* whole programs *)

Definition mtr_out (t : spm_out * option spmap * list aev) : spm_out := fst (fst t).
Definition mtr_st (t : spm_out * option spmap * list aev) : option spmap := snd (fst t).
Definition mtr_ev (t : spm_out * option spmap * list aev) : list aev := snd t.
Definition mtr_obs (tr : list (spm_out * option spmap * list aev)) : list (spm_out * option amap) :=
  map (fun t => (mtr_out t, mst_abs (mtr_st t))) tr.
Definition mtr_flags (tr : list (spm_out * option spmap * list aev)) : list bool :=
  map (fun t => refused (mtr_ev t)) tr.

(* C12 M4: for every program of fewer than 2^60 operations and every oracle: no Fault, no
   failed assert, no fuel exhaustion, and the client sees the abstract map: numbers issued
   consecutively from 0, get = the stored pointer until deleted and NULL otherwise (below the
   offset, beyond the end, negative), getmin = least live number or -1 *)
Theorem spm_run_refines ssz qsz msz ops : forall st o,
  mst_inv st ->
  Forall spm_op_ok ops ->
  m_used st + N.of_nat (length ops) < 2 ^ 60 ->
  (m_next st + Z.of_nat (length ops) < 2 ^ 60)%Z ->
  exists tr,
    spm_run 2 4 2 ssz qsz msz 8 ops st o = Ok tr /\
    Forall (fun t => mst_inv (mtr_st t)) tr /\
    mtr_obs tr = spm_spec_run ops (mst_abs st) (mtr_flags tr).
Proof.
  induction ops as [|op ops IH]; intros st o Hi Hok HU HN.
  - exists []. repeat split. constructor.
  - inversion Hok as [|? ? Hop Hops]; subst. cbn [length] in HU, HN.
    change (2 ^ 60) with 1152921504606846976 in HU. change (2 ^ 60)%Z with 1152921504606846976%Z in HN.
    assert (HW1 : (m_used st + 1) * 8 < W) by (rewrite W_val; lia).
    assert (HN1 : (m_next st < INT64_MAX)%Z) by (rewrite INT64_MAX_val; lia).
    destruct (spm_step_ok ssz qsz msz op st o Hi Hop HW1 HN1)
      as (x & st1 & o1 & ev & Hs & Hi1 & Hspec & _ & Hu & Hn & _).
    destruct (IH st1 o1 Hi1 Hops) as (tr & Hr & Hf & Hobs).
    { change (2 ^ 60) with 1152921504606846976. lia. }
    { change (2 ^ 60)%Z with 1152921504606846976%Z. lia. }
    cbn [spm_run]. rewrite Hs. cbn [bind]. rewrite Hr. cbn [bind].
    eexists. split; [reflexivity|]. split.
    + constructor; [exact Hi1|exact Hf].
    + cbn [mtr_obs mtr_flags map spm_spec_run tl]. unfold mtr_out, mtr_st, mtr_ev; cbn [fst snd].
      rewrite Hspec. f_equal. exact Hobs.
Qed.

(* C14 M1 for the map: init / add with a refused request report failure, nothing changes *)
Theorem spm_fail_unchanged ssz qsz msz op st o x st' o' ev :
  mst_inv st -> spm_op_ok op -> (m_used st + 1) * 8 < W -> (m_next st < INT64_MAX)%Z ->
  spm_step 2 4 2 ssz qsz msz 8 op st o = Ok (x, st', o', ev) ->
  refused ev = true -> is_sdelete op = false ->
  st' = st /\ x = spm_err_out op /\ mst_inv st'.
Proof.
  intros Hi Hok HW HN H Hrf Hnd.
  destruct (spm_step_ok ssz qsz msz op st o Hi Hok HW HN) as (x1 & st1 & o1 & ev1 & Hs & Hi1 & _ & Hfail & _).
  rewrite H in Hs. inversion Hs; subst. destruct (Hfail Hrf Hnd). auto.
Qed.

(* C14 M2 for the map: delete succeeds and removes exactly the number, whatever the allocator answers *)
Theorem spm_delete_infallible ssz qsz msz m i o :
  spm_inv m -> spm_trimmed m -> (- 2 ^ 63 <= i <= INT64_MAX)%Z ->
  exists m' o' ev,
    spm_step 2 4 2 ssz qsz msz 8 (SDelete i) (Some m) o = Ok (ZUnit, Some m', o', ev) /\
    spm_inv m' /\ spm_trimmed m' /\
    spm_abs m' = {| am_next := am_next (spm_abs m); am_live := am_remove (am_live (spm_abs m)) i |}.
Proof.
  intros Hm Ht Hi. cbn [spm_step].
  destruct (spm_delete_spec m i o Hm Ht Hi) as (m1 & o1 & ev & H & Hm1 & Ht1 & Hn1 & Hl1 & _).
  rewrite H. cbn [bind]. eexists _, _, _. split; [reflexivity|]. split; [exact Hm1|]. split; [exact Ht1|].
  rewrite <- Hn1, <- Hl1. symmetry. apply spm_abs_eta.
Qed.

(* C14 M3 for one map operation *)
Theorem spm_step_no_leak ssz qsz msz op st o x st' o' ev rest :
  mst_inv st -> spm_op_ok op -> (m_used st + 1) * 8 < W -> (m_next st < INT64_MAX)%Z ->
  spm_step 2 4 2 ssz qsz msz 8 op st o = Ok (x, st', o', ev) ->
  exists h, heap_run (mst_owned ssz qsz msz st ++ rest) ev = Some h /\
            Permutation h (mst_owned ssz qsz msz st' ++ rest).
Proof.
  intros Hi Hok HW HN H.
  destruct (spm_step_ok ssz qsz msz op st o Hi Hok HW HN) as (x1 & st1 & o1 & ev1 & Hs & _ & _ & _ & _ & _ & Hh).
  rewrite H in Hs. inversion Hs; subst. apply Hh.
Qed.

(* C14 M1 for the map, both directions: within the bounds init / add report failure (NULL / -1)
   exactly when the allocator refused a request *)
Theorem spm_fail_iff ssz qsz msz op st o x st' o' ev :
  mst_inv st -> spm_op_ok op -> (m_used st + 1) * 8 < W -> (m_next st < INT64_MAX)%Z ->
  spm_step 2 4 2 ssz qsz msz 8 op st o = Ok (x, st', o', ev) ->
  is_sdelete op = false ->
  (refused ev = true <-> x = spm_err_out op).
Proof.
  intros Hi Hok HW HN H Hnd.
  destruct (spm_step_ok ssz qsz msz op st o Hi Hok HW HN) as (x1 & st1 & o1 & ev1 & Hs & _ & Hspec & Hfail & _).
  rewrite H in Hs. inversion Hs; subst. split.
  - intros Hrf. destruct (Hfail Hrf Hnd). assumption.
  - intros Hx. destruct (refused ev1); [reflexivity|]. exfalso.
    rewrite Hx in Hspec.
    destruct op, st as [m|]; cbn [mst_abs option_map spm_spec_step spm_err_out] in Hspec;
      try discriminate.
    (* add: the number issued is never -1 *)
    destruct Hi as ((_ & _ & _ & Ho & _) & _). injection Hspec as Hz _.
    unfold spm_abs in Hz. cbn [am_next] in Hz. lia.
Qed.

(* C14 M3 for whole map programs *)
Definition mtr_final (st : option spmap) (tr : list (spm_out * option spmap * list aev)) : option spmap :=
  last (map mtr_st tr) st.

Theorem spm_run_no_leak ssz qsz msz ops : forall st o tr rest,
  mst_inv st -> Forall spm_op_ok ops ->
  m_used st + N.of_nat (length ops) < 2 ^ 60 ->
  (m_next st + Z.of_nat (length ops) < 2 ^ 60)%Z ->
  spm_run 2 4 2 ssz qsz msz 8 ops st o = Ok tr ->
  exists h, heap_run (mst_owned ssz qsz msz st ++ rest) (concat (map mtr_ev tr)) = Some h /\
            Permutation h (mst_owned ssz qsz msz (mtr_final st tr) ++ rest).
Proof.
  induction ops as [|op ops IH]; intros st o tr rest Hi Hok HU HN Hr.
  - cbn in Hr. inversion Hr; subst. cbn. perm_refl.
  - inversion Hok as [|? ? Hop Hops]; subst. cbn [length] in HU, HN.
    change (2 ^ 60) with 1152921504606846976 in HU. change (2 ^ 60)%Z with 1152921504606846976%Z in HN.
    assert (HW1 : (m_used st + 1) * 8 < W) by (rewrite W_val; lia).
    assert (HN1 : (m_next st < INT64_MAX)%Z) by (rewrite INT64_MAX_val; lia).
    destruct (spm_step_ok ssz qsz msz op st o Hi Hop HW1 HN1)
      as (x & st1 & o1 & ev & Hs & Hi1 & _ & _ & Hu & Hn & Hh).
    cbn [spm_run] in Hr. rewrite Hs in Hr. cbn [bind] in Hr.
    destruct (spm_run 2 4 2 ssz qsz msz 8 ops st1 o1) as [tr1| | |] eqn:E; cbn [bind] in Hr; try discriminate.
    inversion Hr; subst tr. clear Hr.
    destruct (Hh rest) as (h1 & Hh1 & Hp1).
    cbn [map concat mtr_ev snd]. rewrite heap_run_app, Hh1.
    destruct (IH st1 o1 tr1 rest Hi1 Hops) as (h2 & Hh2 & Hp2).
    { change (2 ^ 60) with 1152921504606846976. lia. }
    { change (2 ^ 60)%Z with 1152921504606846976%Z. lia. }
    { exact E. }
    destruct (heap_run_perm _ _ _ _ (Permutation_sym Hp1) Hh2) as (h3 & Hh3 & Hp3).
    exists h3. split; [exact Hh3|].
    eapply Permutation_trans; [apply Permutation_sym; exact Hp3|].
    eapply Permutation_trans; [exact Hp2|].
    unfold mtr_final. cbn [map mtr_st fst snd].
    replace (last (st1 :: map mtr_st tr1) st) with (last (map mtr_st tr1) st1).
    2:{ symmetry. apply last_cons_cons. }
    apply Permutation_refl.
Qed.

(* ------------------------------------------------------------------ *)
(* examples *)

Definition mex_prog : list spm_op :=
  [SInit; SAdd 57005; SAdd 48879; SAdd 4660; SDelete 1; SGetmin; SGet 1; SGet 2; SDelete 0; SGetmin;
   SGet 0; SGet (-1); SGet 7; SDelete 5; SAdd 1; SGet 3; SFree].

Example mex_prog_ok : Forall spm_op_ok mex_prog.
Proof. unfold mex_prog. rewrite Forall_forall. intros op Hin. cbn in Hin.
  repeat (destruct Hin as [<-|Hin]; [cbn; try rewrite INT64_MAX_val; lia|]). destruct Hin. Qed.

Example mex_prog_runs :
  exists tr, spm_run 2 4 2 24 32 24 8 mex_prog None all_grant = Ok tr /\
             map mtr_out tr =
             [ZRc true; ZNum 0; ZNum 1; ZNum 2; ZUnit; ZNum 0; ZPtr 0; ZPtr 4660; ZUnit; ZNum 2;
              ZPtr 0; ZPtr 0; ZPtr 0; ZUnit; ZNum 3; ZPtr 1; ZUnit].
Proof. eexists. split; vm_compute; reflexivity. Qed.

(* a refused add returns -1 and the next add gets the number the refused one would have got *)
Example mex_refused :
  exists tr, spm_run 2 4 2 24 32 24 8 [SInit; SAdd 5; SAdd 6; SAdd 7; SGet 1; SGetmin] None
                     {| ans := [true; true; true; true; false]; dflt := true |} = Ok tr /\
             map mtr_out tr = [ZRc true; ZNum 0; ZNum (-1); ZNum 1; ZPtr 7; ZNum 0].
Proof. eexists. split; vm_compute; reflexivity. Qed.
