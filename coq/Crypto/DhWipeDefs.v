(* C20-M3: vocabulary for the release behaviour of crypto_dh.c:blinded_modexp.  The function is
   represented as a straight-line PROGRAM of fallible steps, each with the error label it jumps to,
   plus the release ladder behind the labels and the releases of the success path.  This
   representation is REGENERATED from the C text (tools/extract/x_dhdrbg.py -> Gen/Repo_dhwipe.v);
   the interpreter and the theorem are in DhWipeModel.v / DhWipeProofs.v.  Definitions only. *)
From Coq Require Import NArith List.
Import ListNotations.

(* bignum variables are numbered in the order of their allocation; variable 0 is the BIGNUM
   parameter a.  A label errN is the number N. *)
Inductive wstep : Type :=
| SAllocBin (dst : nat) (secret_src : bool) (lbl : nat)  (* dst = BN_bin2bn(src, ..); secret_src: src is priv / blinding *)
| SAllocNew (dst : nat) (lbl : nat)                      (* dst = BN_new() *)
| SCtxNew (lbl : nat)                                    (* ctx = BN_CTX_new() *)
| SOp (dst : nat) (srcs : list nat) (lbl : nat)          (* BN_add / BN_sub / BN_mod_exp / BN_mod_mul / BN_set_word into dst *)
| SEntropy (lbl : nat)                                   (* crypto_entropy_read(blinding, ..) *)
| SCheck (lbl : nat).                                    (* a test on the result that jumps to a label (rlen) *)

Inductive wrel : Type :=
| RClear (v : nat)       (* BN_clear_free(v) *)
| RFree (v : nat)        (* BN_free(v) *)
| RCtxFree.              (* BN_CTX_free(ctx) *)
