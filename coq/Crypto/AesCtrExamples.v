(* Non-vacuity and boundary examples for the AES-CTR theorems (all by vm_compute on the models). *)
From Coq Require Import NArith ZArith List Arith Bool Lia.
From LCP Require Import Base.CheckedMem.
From LCP Require Import Gen.Repo_aes.
From LCP Require Import Crypto.AesSpec.
From LCP Require Import Crypto.AesProofs.
From LCP Require Import Accel.AesNi.
From LCP Require Import Crypto.AesCtrArith.
From LCP Require Import Crypto.AesCtrModel.
From LCP Require Import Crypto.AesCtrRef.
From LCP Require Import Crypto.AesRepo.
From LCP Require Import Crypto.AesCtrProofs.
Import ListNotations.
Local Open Scope N_scope.

Fixpoint list_eqb (a b : list N) : bool :=
  match a, b with
  | [], [] => true
  | x :: a', y :: b' => (x =? y) && list_eqb a' b'
  | _, _ => false
  end.

Lemma list_eqb_eq : forall a b, list_eqb a b = true -> a = b.
Proof.
  induction a as [|x a IH]; destruct b as [|y b]; cbn; intros H; try discriminate; [reflexivity|].
  apply andb_true_iff in H. destruct H as [H1 H2]. apply N.eqb_eq in H1. subst. f_equal. auto.
Qed.

(* an arbitrary prior content of the stream object: what malloc returned *)
Definition junk : st := mkst 0xbebebebebebebebe (repeat 0xbe 16) (repeat 0xbe 16).
Example junk_wf : st_wf junk.
Proof. split; reflexivity. Qed.

(* -------- AES-128 under the FIPS C.1 key, five calls: 3, 0, 17, 16 and 5 bytes *)
Definition E_aes : list N -> list N := aes_encrypt sbox_fast selftest1_key.
Lemma E_aes_len : forall b, length (E_aes b) = 16%nat.
Proof. intros b. apply aes_encrypt_length. Qed.

Definition chunks_ex : list (list N) :=
  [[1; 2; 3]; []; N_seq 10 17; N_seq 100 16; [250; 251; 252; 253; 254]].

Definition run_outputs (E : list N -> list N) (hw : bool) (s : st) (chunks : list (list N)) : list N :=
  match stream_all E hw s chunks with Ok (_, outs) => concat outs | _ => [] end.

(* the hypotheses of ctr_stream_correct hold for it ... *)
Example ctr_stream_correct_instance :
  st_wf junk /\ N.of_nat (length (concat chunks_ex)) < two64.
Proof. split; [exact junk_wf | vm_compute; reflexivity]. Qed.

(* ... and the conclusion is what evaluation gives, on both paths *)
Example ctr_stream_example_aesni :
  run_outputs E_aes true (init2 15 255 7 junk) chunks_ex = ctr_spec E_aes 7 (concat chunks_ex).
Proof. apply list_eqb_eq. vm_compute. reflexivity. Qed.

Example ctr_stream_example_portable :
  run_outputs E_aes false (init2 15 255 7 junk) chunks_ex = ctr_spec E_aes 7 (concat chunks_ex).
Proof. apply list_eqb_eq. vm_compute. reflexivity. Qed.

(* -------- why C03-M2 is stated up to observation: after a call that ends on a block boundary the
   portable path has refreshed buf, the AES-NI bulk path has not (buf is dead there) *)
Example paths_differ_on_dead_buf :
  match stream_aesni E_aes (init2 15 255 7 junk) (N_seq 0 16), stream E_aes (init2 15 255 7 junk) (N_seq 0 16) with
  | Ok (s1, o1), Ok (s2, o2) =>
    list_eqb o1 o2 && (bytectr s1 =? bytectr s2) && list_eqb (pblk s1) (pblk s2)
    && negb (list_eqb (buf s1) (buf s2))
  | _, _ => false
  end = true.
Proof. vm_compute. reflexivity. Qed.

(* -------- a cheap block function to run long streams: low-byte wrap of the counter at block 256 *)
Definition E_toy (b : list N) : list N := map (fun x => N.lxor x 0x5a) (firstn 16 (b ++ repeat 0 16)).
Lemma E_toy_len : forall b, length (E_toy b) = 16%nat.
Proof.
  intros b. unfold E_toy. rewrite map_length, firstn_length, app_length, repeat_length. lia.
Qed.

Definition long_chunks : list (list N) :=
  [N_seq 0 4000; N_seq 0 7; N_seq 0 90; N_seq 0 16; N_seq 0 1; N_seq 0 700].   (* 4814 bytes = 300.9 blocks *)

Example ctr_wrap_256_example :
  run_outputs E_toy true (init2 15 255 0x0123456789abcdef junk) long_chunks
  = ctr_spec E_toy 0x0123456789abcdef (concat long_chunks) /\
  run_outputs E_toy false (init2 15 255 0x0123456789abcdef junk) long_chunks
  = ctr_spec E_toy 0x0123456789abcdef (concat long_chunks).
Proof. split; apply list_eqb_eq; vm_compute; reflexivity. Qed.

(* -------- re-initialisation of a used object (stale pblk[8..14], stale buf) restarts the stream *)
Example ctr_reinit_example :
  match stream_all E_toy true (init2 15 255 1 junk) long_chunks with
  | Ok (s1, _) =>
    list_eqb (run_outputs E_aes true (init2 15 255 2 s1) chunks_ex) (ctr_spec E_aes 2 (concat chunks_ex))
  | _ => false
  end = true.
Proof. vm_compute. reflexivity. Qed.

(* -------- white-box seek: a stream positioned 1 block before the 2^16 and before the 2^32 block
   boundary, a partial block first, then one call across the boundary, on both paths *)
Example ctr_seek_example :
  forallb (fun B =>
    forallb (fun hw =>
      list_eqb (run_outputs E_toy hw (seek (16 * B) (init2 15 255 5 junk)) [N_seq 0 4; N_seq 0 100; N_seq 0 1])
               (ctr_spec_from E_toy 5 B (N_seq 0 4 ++ N_seq 0 100 ++ N_seq 0 1)))
      [true; false])
    [65535; 4294967295; 72057594037927935] = true.
Proof. vm_compute. reflexivity. Qed.

(* -------- the 2^64-byte bound of the theorems is the domain of the C's uint64_t bytectr: from a
   state 16 bytes before the wrap (it satisfies ctr_inv) the second block is encrypted under
   counter 0 again, not under 2^60 *)
Definition near_wrap : st :=
  mkst (two64 - 16) (repeat 0 16) (be64 9 ++ be64 (two64 / 16 - 2)).
Example ctr_wraps_beyond_bound :
  match stream E_toy near_wrap (repeat 0 32) with
  | Ok (s, o) => (bytectr s =? 16) && list_eqb (skipn 16 o) (E_toy (be64 9 ++ be64 0))
                 && negb (list_eqb (skipn 16 o) (E_toy (be64 9 ++ be64 (two64 / 16))))
  | _ => false
  end = true.
Proof. vm_compute. reflexivity. Qed.

(* -------- the C integer semantics the regenerated bookkeeping is evaluated with (Crypto/AesCtrArith.v):
   with *buflen = 2^32 + 16 + 5,  *buflen & ~15U  is 16 (15U is a 32-bit unsigned int, ~ works in 32 bits,
   the result is ZERO-extended),  *buflen & ~(size_t)15  and  *buflen & ~15  (an int, -16, SIGN-extended)
   are 2^32 + 16 *)
Definition len_above_4g : env := [(V_BUFLEN, (U64, Some (4294967296 + 16 + 5)%Z))].
Example mask_unsigned_int_is_truncated :
  eval len_above_4g (EBin OAnd (EVar V_BUFLEN) (EUn UNot (ELit U32 15))) = (U64, 16%Z, true).
Proof. vm_compute. reflexivity. Qed.
Example mask_size_t_is_not :
  eval len_above_4g (EBin OAnd (EVar V_BUFLEN) (EUn UNot (ECast U64 (ELit S32 15)))) = (U64, (4294967296 + 16)%Z, true).
Proof. vm_compute. reflexivity. Qed.
Example mask_int_is_sign_extended :
  eval len_above_4g (EBin OAnd (EVar V_BUFLEN) (EUn UNot (ELit S32 15))) = (U64, (4294967296 + 16)%Z, true).
Proof. vm_compute. reflexivity. Qed.
(* an 8-bit object is promoted to int before ++ and wraps when stored back; signed overflow and a
   form the translator does not know are flagged undefined *)
Example uint8_increment_wraps :
  let r := run [(V_PBLKB, (U8, Some 255%Z))] [SAssign V_PBLKB (Some OAdd) (ELit S32 1)] in
  (get (renv r) V_PBLKB, rdef r, rok r) = ((U8, 0%Z, true), true, true).
Proof. vm_compute. reflexivity. Qed.
(* an assert that does not hold is reported, not skipped *)
Example failing_assert_is_seen :
  rok (run [(V_BUFLEN, (U64, Some 5%Z))] [SAssert (EBin OGe (EVar V_BUFLEN) (ELit S32 16))]) = false.
Proof. vm_compute. reflexivity. Qed.
Example signed_overflow_is_undefined :
  snd (eval [] (EBin OAdd (ELit S32 2147483647) (ELit S32 1))) = false /\ snd (eval [] EUnknown) = false.
Proof. split; vm_compute; reflexivity. Qed.

(* the hypotheses of stream_cfg_eq_reference / wholeblocks_aesni_eq_reference hold for a fresh stream
   and a 40-byte call, and the two sides are what evaluation gives *)
Example stream_cfg_eq_reference_instance :
  bytectr (init2 15 255 7 junk) + N.of_nat (length (N_seq 0 40)) < two64 /\
  length (pblk (init2 15 255 7 junk)) = 16%nat /\
  match stream_cfg E_toy true (init2 15 255 7 junk) (N_seq 0 40),
        Ref.stream_cfg E_toy true (init2 15 255 7 junk) (N_seq 0 40) with
  | Ok (s1, o1), Ok (s2, o2) => list_eqb o1 o2 && (bytectr s1 =? 40) && (bytectr s2 =? 40)
  | _, _ => false
  end = true.
Proof. split; [|split]; vm_compute; reflexivity. Qed.
