(* Fast evaluator for the C10 correspondence run: modular exponentiation on Bignums' BigN
   (machine-integer trees, ~0.1 s for a 2048-bit modulus under vm_compute; the same
   exponentiation on Z costs ~90 s).  The DH model is parametric in its [modexp]; the harness
   evaluates [blinded_modexp repo_params fast_modexp fast_modmul ...] inside coqc.  DhEvalProofs.v proves
   fast_modexp a e m = modexp_Z a e m for ALL a e m, so what is evaluated is the model the
   theorems are about.  No proofs here.  Also: hex printing of results for the harness. *)
From Coq Require Import ZArith NArith List Bool String Ascii.
From Bignums Require Import BigN.
From LCP Require Import Gen.Repo_dhdrbg Crypto.DhModel Crypto.DhSpec.
Import ListNotations.
Local Open Scope Z_scope.

(* square-and-multiply, most significant bit first (the recursion descends to the top bit) *)
Fixpoint powmod_pos (a : bigN) (e : positive) (m : bigN) : bigN :=
  match e with
  | xH => BigN.modulo a m
  | xO e' => let t := powmod_pos a e' m in BigN.modulo (BigN.mul t t) m
  | xI e' => let t := powmod_pos a e' m in
             BigN.modulo (BigN.mul (BigN.modulo (BigN.mul t t) m) a) m
  end.

Definition fast_modexp (a e m : Z) : Z :=
  match a, e, m with
  | Zneg _, _, _ => modexp_Z a e m                    (* never taken by the DH code: a >= 0 *)
  | _, Zneg _, _ => modexp_Z a e m
  | _, _, Zneg _ => modexp_Z a e m
  | _, _, Z0 => modexp_Z a e m
  | _, Z0, Zpos _ => 1 mod m
  | _, Zpos pe, Zpos pm =>
    let mN := BigN.of_pos pm in
    let aN := BigN.modulo (BigN.of_N (Z.to_N a)) mN in
    BigN.to_Z (powmod_pos aN pe mN)
  end.

Definition fast_modmul (a b m : Z) : Z :=
  match a, b, m with
  | Zneg _, _, _ => bn_mod_mul a b m
  | _, Zneg _, _ => bn_mod_mul a b m
  | _, _, Zpos pm =>
    BigN.to_Z (BigN.modulo (BigN.mul (BigN.of_N (Z.to_N a)) (BigN.of_N (Z.to_N b))) (BigN.of_pos pm))
  | _, _, _ => bn_mod_mul a b m
  end.

(* ---------------- result printing for cases.v ---------------- *)
Definition hexdigit (n : N) : ascii :=
  match n with
  | 0%N => "0" | 1%N => "1" | 2%N => "2" | 3%N => "3" | 4%N => "4" | 5%N => "5" | 6%N => "6" | 7%N => "7"
  | 8%N => "8" | 9%N => "9" | 10%N => "a" | 11%N => "b" | 12%N => "c" | 13%N => "d" | 14%N => "e" | _ => "f"
  end%char.

Fixpoint hex_of_bytes (l : list N) : string :=
  match l with
  | [] => EmptyString
  | b :: r => String (hexdigit (N.div b 16)) (String (hexdigit (N.modulo b 16)) (hex_of_bytes r))
  end.

Definition show_result (r : option (list N)) : string :=
  match r with
  | Some out => append "ok " (hex_of_bytes out)
  | None => "err"
  end%string.

(* the entry points used by the generated cases.v; [pre] is the byte the driver pre-fills the
   output buffer with *)
Definition prefill (pre : N) (n : N) : list N := repeat pre (N.to_nat n).

Definition run_generate_pub (pre : N) (priv : list N) (ent : option (list N)) : string :=
  show_result (dh_generate_pub repo_params fast_modexp fast_modmul (prefill pre dh_publen) priv ent).
Definition run_compute (pre : N) (pub priv : list N) (ent : option (list N)) : string :=
  show_result (dh_compute repo_params fast_modexp fast_modmul (prefill pre dh_keylen) pub priv ent).
Definition run_generate (pre : N) (ents : list (option (list N))) : string :=
  match dh_generate repo_params fast_modexp fast_modmul (prefill pre dh_publen) ents with
  | Some (pub, priv) => append (append "ok " (hex_of_bytes pub)) (append " " (hex_of_bytes priv))
  | None => "err"
  end%string.
Definition run_sanitycheck (pub : list N) : string :=
  if dh_sanitycheck repo_params pub =? 0 then "rc 0" else "rc -1".

(* with the exponents handed to BN_mod_exp (observed by the --wrap build of the driver):
   "n" prefix = negative, "-" = zero, else minimal big-endian bytes *)
Definition show_Z (z : Z) : string :=
  append (if z <? 0 then "n" else "")
         (match bn_bn2bin z with [] => "-" | l => hex_of_bytes l end).
Definition show_exps (priv : list N) (ent : option (list N)) : string :=
  match ent with
  | None => ""
  | Some bl => let '(e1, e2) := blinded_exponents repo_params priv bl in
               append " e=" (append (show_Z e1) (append "," (show_Z e2)))
  end.
Definition run_xgenerate_pub (pre : N) (priv : list N) (ent : option (list N)) : string :=
  append (run_generate_pub pre priv ent) (show_exps priv ent).
Definition run_xcompute (pre : N) (pub priv : list N) (ent : option (list N)) : string :=
  append (run_compute pre pub priv ent) (show_exps priv ent).

(* the SPEC side (independent of the model of the code): RFC prime literal, a^(2^258+x) mod p *)
Definition spec_generate_pub (priv : list N) : string :=
  show_result (Some (be_encode 256 (fast_modexp 2 (dh_exponent (be_decode priv)) rfc3526_group14))).
Definition spec_compute (pub priv : list N) : string :=
  show_result (Some (be_encode 256 (fast_modexp (be_decode pub) (dh_exponent (be_decode priv)) rfc3526_group14))).
Definition spec_sanitycheck (pub : list N) : string :=
  if dh_sane_spec (be_decode pub) then "rc 0" else "rc -1".
Definition show_rfc_prime : string := hex_of_bytes (be_encode 256 rfc3526_group14).
