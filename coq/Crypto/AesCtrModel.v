(* MODEL of crypto/crypto_aesctr.c, crypto_aesctr_shared.c and crypto_aesctr_aesni.c, inside a
   Section over an arbitrary block function E (the stream's key is fixed: E = encryption under it;
   "a new key" is another instance of the Section).

   The BOOKKEEPING ARITHMETIC is not written here: every statement of the C that updates
   stream->bytectr, *buflen / buflen, *inbuf / *outbuf, the AES-NI block counter, its loop counter
   and stream->pblk[15], every branch / loop condition over them and the (nbytes, bytemod)
   arguments of the cipherblock_use calls are REGENERATED from the C text as expression trees
   (Gen/Repo_aes_arith.v, tools/extract/x_aes.py) and EVALUATED here with C integer semantics
   (Crypto/AesCtrArith.v: literal types, integer promotions, usual arithmetic conversions, wrap at
   the width of the C type).  What stays hand-written is the control skeleton (which helper calls
   which; checked against the C text by the translator, EUnknown / SUnknown -> Fault otherwise),
   the byte loop of cipherblock_use and the __m128i statements of the AES-NI loop body (the
   translator accepts those two only in their one known spelling, up to the names of locals).
   Also read and given their meaning: assert(e) among the scalar statements (AssertFail when it
   does not hold), leading `if (c) return;` statements of the two stream functions, and the
   counter write-back of the AES-NI function as memcpy(pblk + off, arr, len) or
   be64enc(pblk + off, e).  A form the translator cannot read makes it refuse the whole module
   (pinned data, correspondence run decides); it does not emit a guess.
   *inbuf / *outbuf are tracked as offsets; the buffers being lists, an advance other than the
   number of bytes just processed has no form here: Fault.

   struct crypto_aesctr { key; uint64_t bytectr; uint8_t buf[16]; uint8_t pblk[16]; }
   becomes the record [st]; every C function that mutates through the pointer returns the new
   record.  bytectr wraps mod 2^64 where the C type does; assert() is AssertFail; a call pattern
   the C would answer by running off its buffers is Fault.  (inbuf, outbuf, buflen) are the input
   list still to be processed, the output produced, and the explicit N [buflen] of the C.
   No proofs in this file. *)
From Coq Require Import NArith ZArith List Arith Bool.
From LCP Require Import Base.CheckedMem.
From LCP Require Import Crypto.AesCtrArith.
From LCP Require Import Gen.Repo_aes_arith.
From LCP Require Import Crypto.AesSpec.
From LCP Require Import Accel.AesNi.
Import ListNotations.
Local Open Scope N_scope.
Local Open Scope res_scope.

Definition two64 : N := 18446744073709551616.

Record st := mkst { bytectr : N; buf : list N; pblk : list N }.

Section Model.
  Variable E : list N -> list N.             (* crypto_aes_encrypt_block(., ., stream->key) *)
  Variables init_idx init_byte : N.          (* stream->pblk[15] = 0xff, regenerated *)

  Definition upd_byte (l : list N) (i : nat) (v : N) : list N := upd l i v.

  (* crypto_aesctr_init2(stream, key, nonce); pblk[8..14] are NOT written *)
  Definition init2 (nonce : N) (s : st) : st :=
    let p := be64 nonce ++ skipn 8 (pblk s) in                 (* be64enc(stream->pblk, nonce) *)
    mkst 0 (buf s) (upd_byte p (N.to_nat init_idx) init_byte).

  (* NOT a library function: the white-box positioning used by the correspondence harness
     (drv_aes.c writes stream->bytectr = pos, pos a multiple of 16, right after init2).  With
     pblk[15] still 0xff the next generate re-encodes the whole counter, so the object behaves as
     a stream positioned at byte pos: counter carries at blocks 2^16, 2^24, 2^32, ... become
     reachable without producing gigabytes of keystream. *)
  Definition seek (pos : N) (s : st) : st := mkst (pos mod two64) (buf s) (pblk s).

  (* ---------------------------------------------------------------- evaluation helpers *)
  (* an object of C type t holding n (what is read from memory is a value of that type) *)
  Definition var (id : N) (t : cty) (n : N) : N * (cty * option Z) := (id, (t, Some (cvt t (Z.of_N n)))).
  Fixpoint locals (l : list (N * cty)) : env :=
    match l with [] => [] | d :: r => (fst d, (snd d, None)) :: locals r end.
  Fixpoint env_app (a b : env) : env := match a with [] => b | x :: r => x :: env_app r b end.
  Definition nonzero (z : Z) : bool := negb (Z.eqb z 0).
  (* value of an expression as N; an argument expression is first converted to the type of the
     parameter it is passed to *)
  Definition valN (r : cty * Z * bool) : N := Z.to_N (snd (fst r)).
  Definition valZ (r : cty * Z * bool) : Z := snd (fst r).
  Definition argN (t : cty) (r : cty * Z * bool) : N := Z.to_N (conv (fst (fst r)) t (snd (fst r))).
  Definition def (r : cty * Z * bool) : bool := snd r.
  (* every function below computes its result together with a flag "everything evaluated is
     defined in C and has a form here"; when the flag is false the answer is Fault *)
  Definition guard {A} (ok : bool) (r : res A) : res A := if ok then r else Fault.

  (* crypto_aesctr_stream_cipherblock_generate:
       assert(gen_assert); gen_stmts (stream->pblk[K]++); if (gen_wrap_cond) gen_be64; encrypt *)
  Definition generate (s : st) : res st :=
    let idx := N.to_nat gen_pblk_idx in
    let e := [var V_BYTECTR ty_bytectr (bytectr s); var V_PBLKB ty_pblk (nth idx (pblk s) 0)] in
    let a := eval e gen_assert in
    let e1 := run e gen_stmts in
    let b := get (renv e1) V_PBLKB in
    let p := upd_byte (pblk s) idx (valN b) in
    let w := eval (renv e1) gen_wrap_cond in
    let p' := if nonzero (valZ w) then
                match gen_be64 with
                | [SBe64 1 off x] =>                      (* be64enc(stream->pblk + off, x) *)
                  let v := eval (renv e1) x in
                  (firstn (N.to_nat off) p ++ be64 (valN v) ++ skipn (N.to_nat off + 8) p, def v)
                | _ => (p, false)
                end
              else (p, true) in
    guard (def a && rdef e1 && def b && def w && snd p')
      (if nonzero (valZ a) && rok e1 then Ok (mkst (bytectr s) (E (fst p')) (fst p')) else AssertFail).

  (* crypto_aesctr_stream_cipherblock_use: out[i] = in[i] ^ buf[bytemod + i] for i < nbytes, then
     use_stmts; returns (state, bytes written, input left, buflen left) *)
  Definition use (s : st) (inp : list N) (buflen nbytes bytemod : N) : res (st * list N * list N * N) :=
    let e := [var V_BYTECTR ty_bytectr (bytectr s); var V_BUFLEN use_ty_buflen buflen;
              var V_INOFF U64 0; var V_OUTOFF U64 0;
              var V_NBYTES use_ty_nbytes nbytes; var V_BYTEMOD use_ty_bytemod bytemod] in
    let n := N.to_nat nbytes in
    let o := xor_list (firstn n inp) (skipn (N.to_nat bytemod) (buf s)) in
    let e1 := run e use_stmts in
    let b := get (renv e1) V_BYTECTR in
    let io := get (renv e1) V_INOFF in
    let oo := get (renv e1) V_OUTOFF in
    let bl := get (renv e1) V_BUFLEN in
    guard (rdef e1 && def b && def io && def oo && def bl && Z.eqb (valZ io) (Z.of_N nbytes) && Z.eqb (valZ oo) (Z.of_N nbytes))
      (if rok e1 then Ok (mkst (valN b) (buf s) (pblk s), o, skipn n inp, valN bl) else AssertFail).

  (* crypto_aesctr_stream_pre_wholeblock; the bool is its return value:
       pre_stmts (bytemod = ..); if (pre_cond1) { if (pre_cond2) { use(pre_call1); return 1; }
       use(pre_call2); } return 0; *)
  Definition pre_whole (s : st) (inp : list N) (buflen : N) : res (st * list N * list N * N * bool) :=
    let e := env_app [var V_BYTECTR ty_bytectr (bytectr s); var V_BUFLEN pre_ty_buflen buflen] (locals pre_decls) in
    let e1 := run e pre_stmts in
    let c1 := eval (renv e1) pre_cond1 in
    let c2 := eval (renv e1) pre_cond2 in
    let nb1 := eval (renv e1) (fst pre_call1) in
    let bm1 := eval (renv e1) (snd pre_call1) in
    let nb2 := eval (renv e1) (fst pre_call2) in
    let bm2 := eval (renv e1) (snd pre_call2) in
    guard (rdef e1 && def c1)
      (if negb (rok e1) then AssertFail else
       if nonzero (valZ c1) then
         guard (def c2)
           (if nonzero (valZ c2) then
              guard (def nb1 && def bm1)
                (let* r := use s inp buflen (argN use_ty_nbytes nb1) (argN use_ty_bytemod bm1) in
                 Ok (r, true))
            else
              guard (def nb2 && def bm2)
                (let* r := use s inp buflen (argN use_ty_nbytes nb2) (argN use_ty_bytemod bm2) in
                 Ok (r, false)))
       else Ok (s, [], inp, buflen, false)).

  (* the loop  while (sw_cond) { generate; use(sw_call) }  of crypto_aesctr_stream *)
  Fixpoint whole (fuel : nat) (s : st) (inp : list N) (buflen : N) {struct fuel}
    : res (st * list N * list N * N) :=
    let e := [var V_BYTECTR ty_bytectr (bytectr s); var V_BUFLEN sw_ty_buflen buflen] in
    let c := eval e sw_cond in
    let nb := eval e (fst sw_call) in
    let bm := eval e (snd sw_call) in
    guard (def c)
      (if nonzero (valZ c) then
         match fuel with
         | O => OutOfFuel
         | S f =>
           guard (def nb && def bm)
             (let* s1 := generate s in
              let* (s2, o, rest, bl) := use s1 inp buflen (argN use_ty_nbytes nb) (argN use_ty_bytemod bm) in
              let* (s3, o', rest', bl') := whole f s2 rest bl in
              Ok (s3, o ++ o', rest', bl'))
         end
       else Ok (s, [], inp, buflen)).

  (* crypto_aesctr_stream_post_wholeblock:  if (post_cond) { generate; use(post_call) } *)
  Definition post_whole (s : st) (inp : list N) (buflen : N) : res (st * list N) :=
    let e := [var V_BYTECTR ty_bytectr (bytectr s); var V_BUFLEN post_ty_buflen buflen] in
    let c := eval e post_cond in
    let nb := eval e (fst post_call) in
    let bm := eval e (snd post_call) in
    guard (def c)
      (if nonzero (valZ c) then
         guard (def nb && def bm)
           (let* s1 := generate s in
            let* (s2, o, _, _) := use s1 inp buflen (argN use_ty_nbytes nb) (argN use_ty_bytemod bm) in
            Ok (s2, o))
       else Ok (s, [])).

  (* crypto_aesctr_stream, software path after its leading `if (c) return;` statements (sw_early;
     none in the code as it is): returns (state, bytes written to outbuf) *)
  Definition stream_main (s : st) (inp : list N) : res (st * list N) :=
    let buflen := N.of_nat (length inp) in
    let* (s1, o1, rest, bl, done) := pre_whole s inp buflen in
    if done then Ok (s1, o1) else
    let* (s2, o2, rest2, bl2) := whole (length inp) s1 rest bl in
    let* (s3, o3) := post_whole s2 rest2 bl2 in
    Ok (s3, o1 ++ o2 ++ o3).

  Definition stream (s : st) (inp : list N) : res (st * list N) :=
    let early := any_true [var V_BYTECTR ty_bytectr (bytectr s);
                           var V_BUFLEN sw_ty_buflen (N.of_nat (length inp))] sw_early in
    guard (snd early) (if fst early then Ok (s, []) else stream_main s inp).

  (* ---------------------------------------------------------------- crypto_aesctr_aesni.c *)
  (* the do { be64enc(arr, bexpr); <__m128i statements>; body } while (wb_cond) loop; returns
     (variables, bytes written, input left, block_counter_be_arr of the last iteration).
     The __m128i statements read 16 bytes at *inbuf: with fewer left they run off the buffer.
     *inbuf / *outbuf are offsets within the iteration. *)
  Fixpoint ni_loop (fuel : nat) (nonce_be : m128) (bexpr : cexpr) (body : list cstmt)
                   (e : env) (inp : list N) {struct fuel} : res (env * list N * list N * list N) :=
    match fuel with
    | O => OutOfFuel
    | S f =>
      match skipn 15 inp with
      | [] => Fault
      | _ :: _ =>
        let c := eval e bexpr in
        let arr := be64 (valN c) in                                        (* be64enc(arr, bexpr) *)
        let bufsse := E (mm_unpacklo_epi64 nonce_be (load_si64 arr)) in    (* encrypt_block_aesni_m128i *)
        let o := xor_list (firstn 16 inp) bufsse in                        (* loadu; xor; storeu *)
        let e0 := set e V_INOFF U64 0 in
        let e0' := set (fst e0) V_OUTOFF U64 0 in
        let e1 := run (fst e0') body in                                    (* block_counter++; *inbuf += 16; .. *)
        let io := get (renv e1) V_INOFF in
        let oo := get (renv e1) V_OUTOFF in
        let cnd := eval (renv e1) wb_cond in
        guard (def c && snd e0 && snd e0' && rdef e1 && def io && def oo && def cnd &&
               Z.eqb (valZ io) 16 && Z.eqb (valZ oo) 16)
          (if negb (rok e1) then AssertFail else
           if nonzero (valZ cnd) then
             let* (e2, o', rest, arr') := ni_loop f nonce_be bexpr body (renv e1) (skipn 16 inp) in
             Ok (e2, o ++ o', rest, arr')
           else Ok (renv e1, o, skipn 16 inp, arr))
      end
    end.

  (* crypto_aesctr_aesni_stream_wholeblocks: wb_prologue; the loop; wb_epilogue (its scalar
     statements in source order and the one statement that writes the counter back into
     stream->pblk: memcpy(stream->pblk + off, arr, len) or be64enc(stream->pblk + off, x)) *)
  Definition wholeblocks_aesni (s : st) (inp : list N) (buflen : N)
    : res (st * list N * list N * N) :=
    let nonce_be := load_si64 (pblk s) in
    let e := env_app [var V_BYTECTR ty_bytectr (bytectr s); var V_BUFLEN wb_ty_buflen buflen;
                      var V_INOFF U64 0; var V_OUTOFF U64 0] (locals wb_decls) in
    match body_parts wb_body, count_writeback wb_epilogue with
    | Some (bexpr, body), Some 1%nat =>
      let e1 := run e wb_prologue in
      guard (rdef e1)
        (if negb (rok e1) then AssertFail else
         let* (e2, o, rest, arr) := ni_loop (S (length inp)) nonce_be bexpr body (renv e1) inp in
         let e3 := run e2 wb_epilogue in
         let b := get (renv e3) V_BYTECTR in
         let bl := get (renv e3) V_BUFLEN in
         let p := pblk s in
         let w := match writeback e2 wb_epilogue with
                  | Some (WbCopy off len) => (N.to_nat off, firstn (N.to_nat len) arr, true)
                  | Some (WbEnc off v d) => (N.to_nat off, be64 (Z.to_N v), d)
                  | None => (O, [], false)
                  end in
         let off := fst (fst w) in
         let bytes := snd (fst w) in
         guard (rdef e3 && def b && def bl && snd w)
           (if negb (rok e3) then AssertFail else
            Ok (mkst (valN b) (buf s)
                     (firstn off p ++ bytes ++ skipn (off + length bytes) p),
                o, rest, valN bl)))
    | _, _ => Fault
    end.

  (* crypto_aesctr_aesni_stream:  [if (c) return;]* (ni_early)  pre; if (ni_cond) wholeblocks; post *)
  Definition stream_aesni_main (s : st) (inp : list N) : res (st * list N) :=
    let buflen := N.of_nat (length inp) in
    let* (s1, o1, rest, bl, done) := pre_whole s inp buflen in
    if done then Ok (s1, o1) else
    let c := eval [var V_BYTECTR ty_bytectr (bytectr s1); var V_BUFLEN ni_ty_buflen bl] ni_cond in
    let* (s2, o2, rest2, bl2) :=
       guard (def c) (if nonzero (valZ c) then wholeblocks_aesni s1 rest bl else Ok (s1, [], rest, bl)) in
    let* (s3, o3) := post_whole s2 rest2 bl2 in
    Ok (s3, o1 ++ o2 ++ o3).

  Definition stream_aesni (s : st) (inp : list N) : res (st * list N) :=
    let early := any_true [var V_BYTECTR ty_bytectr (bytectr s);
                           var V_BUFLEN ni_ty_buflen (N.of_nat (length inp))] ni_early in
    guard (snd early) (if fst early then Ok (s, []) else stream_aesni_main s inp).

  (* crypto_aesctr_stream as compiled with / without CPUSUPPORT_X86_AESNI selected:
     if ((buflen >= 16) && (hwaccel == HW_X86_AESNI)) aesni path else software path *)
  Definition stream_cfg (hw : bool) (s : st) (inp : list N) : res (st * list N) :=
    if (16 <=? N.of_nat (length inp)) && hw then stream_aesni s inp else stream s inp.

  (* a whole script of calls on one stream: outputs in order *)
  Fixpoint stream_all (hw : bool) (s : st) (chunks : list (list N)) : res (st * list (list N)) :=
    match chunks with
    | [] => Ok (s, [])
    | c :: r =>
      let* (s1, o) := stream_cfg hw s c in
      let* (s2, os) := stream_all hw s1 r in
      Ok (s2, o :: os)
    end.

  (* crypto_aesctr_buf: init2 on an uninitialised stack object, one stream call *)
  Definition aesctr_buf (hw : bool) (uninit : st) (nonce : N) (inp : list N) : res (list N) :=
    let* (_, o) := stream_cfg hw (init2 nonce uninit) inp in Ok o.
End Model.
