(* Bridge between the BigN evaluator used by the C10 correspondence run and the Z model the
   theorems are about: fast_modexp = modexp_Z and fast_modmul = bn_mod_mul on ALL arguments,
   hence evaluating the model with the fast operations evaluates the model itself.
   (These lemmas rest on Bignums/Uint63; Print Assumptions lists the primitive-integer axioms
   of the standard library.  The C10 property theorems over Z do not depend on them.) *)
From Coq Require Import ZArith NArith List Bool Lia Zpow_facts.
From Bignums Require Import BigN.
From LCP Require Import Gen.Repo_dhdrbg Crypto.DhModel Crypto.DhSpec Crypto.DhEval.
Import ListNotations.
Local Open Scope Z_scope.

Lemma powmod_pos_spec (a m : bigN) : 0 < BigN.to_Z m ->
  forall e, BigN.to_Z (powmod_pos a e m) = (BigN.to_Z a ^ Zpos e) mod BigN.to_Z m.
Proof.
  intros Hm. induction e as [e IH|e IH|].
  - cbn [powmod_pos]. rewrite BigN.spec_modulo, BigN.spec_mul, BigN.spec_modulo, BigN.spec_mul, IH.
    rewrite <- Z.mul_mod by lia. rewrite Z.mul_mod_idemp_l by lia.
    rewrite Pos2Z.inj_xI, Z.pow_add_r, Z.pow_twice_r, Z.pow_1_r by lia. reflexivity.
  - cbn [powmod_pos]. rewrite BigN.spec_modulo, BigN.spec_mul, IH.
    rewrite <- Z.mul_mod by lia.
    rewrite Pos2Z.inj_xO, Z.pow_twice_r. reflexivity.
  - cbn [powmod_pos]. rewrite BigN.spec_modulo, Z.pow_1_r. reflexivity.
Qed.

Theorem fast_modexp_correct a e m : fast_modexp a e m = modexp_Z a e m.
Proof.
  unfold fast_modexp.
  destruct a as [|pa|pa]; destruct e as [|pe|pe]; destruct m as [|pm|pm]; try reflexivity.
  - (* a = 0 *)
    rewrite powmod_pos_spec by (rewrite BigN.spec_of_pos; lia).
    rewrite BigN.spec_modulo, BigN.spec_of_N, BigN.spec_of_pos. unfold modexp_Z.
    rewrite <- Zpower_mod by lia. reflexivity.
  - rewrite powmod_pos_spec by (rewrite BigN.spec_of_pos; lia).
    rewrite BigN.spec_modulo, BigN.spec_of_N, BigN.spec_of_pos. unfold modexp_Z.
    rewrite <- Zpower_mod by lia. rewrite Z2N.id by lia. reflexivity.
Qed.

Theorem fast_modmul_correct a b m : fast_modmul a b m = bn_mod_mul a b m.
Proof.
  unfold fast_modmul.
  destruct a as [|pa|pa]; destruct b as [|pb|pb]; destruct m as [|pm|pm]; try reflexivity;
    rewrite BigN.spec_modulo, BigN.spec_mul, !BigN.spec_of_N, BigN.spec_of_pos;
    unfold bn_mod_mul; rewrite !Z2N.id by lia; reflexivity.
Qed.

(* the model does not look inside its arithmetic parameters *)
Lemma blinded_modexp_ext P f g f' g' :
  (forall a e m, f a e m = g a e m) -> (forall a b m, f' a b m = g' a b m) ->
  forall r0 a priv ent, blinded_modexp P f f' r0 a priv ent = blinded_modexp P g g' r0 a priv ent.
Proof.
  intros Hf Hf' r0 a priv ent. unfold blinded_modexp. destruct ent as [bl|]; [|reflexivity].
  destruct (blinded_exponents P priv bl) as [e1 e2]. cbv zeta. rewrite !Hf, !Hf'. reflexivity.
Qed.

(* what cases.v evaluates is the model of the theorems *)
Theorem eval_blinded_modexp_is_model r0 a priv ent :
  blinded_modexp repo_params fast_modexp fast_modmul r0 a priv ent =
  blinded_modexp repo_params modexp_Z bn_mod_mul r0 a priv ent.
Proof. apply blinded_modexp_ext; [exact fast_modexp_correct | exact fast_modmul_correct]. Qed.

Theorem eval_generate_pub_is_model pub0 priv ent :
  dh_generate_pub repo_params fast_modexp fast_modmul pub0 priv ent =
  dh_generate_pub repo_params modexp_Z bn_mod_mul pub0 priv ent.
Proof. apply eval_blinded_modexp_is_model. Qed.

Theorem eval_compute_is_model key0 pub priv ent :
  dh_compute repo_params fast_modexp fast_modmul key0 pub priv ent =
  dh_compute repo_params modexp_Z bn_mod_mul key0 pub priv ent.
Proof. apply eval_blinded_modexp_is_model. Qed.

Theorem eval_generate_is_model pub0 ents :
  dh_generate repo_params fast_modexp fast_modmul pub0 ents =
  dh_generate repo_params modexp_Z bn_mod_mul pub0 ents.
Proof.
  unfold dh_generate. destruct ents as [|[priv|] rest]; try reflexivity.
  rewrite eval_generate_pub_is_model. reflexivity.
Qed.
