(* C11 SPEC, the OS side: what "the OS entropy source delivered n bytes" / "the OS entropy source
   failed" means for a device that is opened, read until n bytes have arrived, and closed.
   Written independently of util/entropy.c (no loop over a remaining count, no goto ladder):

     - a SESSION is the answers the operating system gives to one open(2), to the read(2) calls
       and to the close(2) calls that follow it;
     - the bytes the device DELIVERED are the payloads of the reads before the first read that is
       an error, an end-of-file (0 bytes) or beyond the end of the script;
     - the session yields n bytes iff the open succeeded, at least n bytes were delivered (the
       result is the first n of them: a short read is not a failure), and the close succeeded,
       where a close interrupted by a signal (EINTR) is repeated;
     - otherwise the session FAILED: nothing is yielded.

   [spec_resolve] turns a script of sessions into the entropy oracle of DrbgSpec.v: every
   acquisition of entropy uses the next session; the generator asks for 48 bytes
   (entropy_input || nonce) while it has not been instantiated and for 32 bytes afterwards.
   Definitions only; executable. *)
From Coq Require Import NArith List Bool.
From LCP Require Import Crypto.DrbgSpec.
Import ListNotations.

(* answer to one read(fd, buf, len): RdErr = -1 (any errno, EINTR included);
   RdBytes l = l delivered (l = [] is end-of-file; a kernel never delivers more than asked:
   an answer longer than the space left is cut) *)
Inductive rd_answer : Type := RdErr | RdBytes (l : list N).

(* answer to one close(fd): 0; -1 with errno = EINTR; -1 with any other errno *)
Inductive close_answer : Type := CloseOk | CloseEintr | CloseErr.

Record session : Type := mk_session {
  s_open : bool;                        (* open("/dev/urandom", O_RDONLY) succeeded *)
  s_reads : list rd_answer;             (* answers to the reads, in order *)
  s_closes : list close_answer          (* answers to the closes, in order *)
}.

Definition payload (a : rd_answer) : list N := match a with RdErr => [] | RdBytes l => l end.

(* a read that delivered something *)
Definition good (a : rd_answer) : bool :=
  match a with RdBytes (_ :: _) => true | _ => false end.

(* the reads before the first error / end-of-file / end of the script *)
Fixpoint healthy_prefix (answers : list rd_answer) : list rd_answer :=
  match answers with
  | a :: r => if good a then a :: healthy_prefix r else []
  | [] => []
  end.

Definition delivered (answers : list rd_answer) : list N :=
  concat (map payload (healthy_prefix answers)).

(* n bytes from the device: Some = the first n delivered bytes, None = fewer than n arrived *)
Definition spec_fill (n : nat) (answers : list rd_answer) : option (list N) :=
  if Nat.leb n (length (delivered answers)) then Some (firstn n (delivered answers)) else None.

(* the close succeeded: after any number of EINTR answers the next answer is 0 *)
Fixpoint spec_close (closes : list close_answer) : bool :=
  match closes with
  | CloseEintr :: r => spec_close r
  | CloseOk :: _ => true
  | CloseErr :: _ => false
  | [] => false
  end.

Definition spec_session (n : nat) (s : session) : option (list N) :=
  if s_open s then
    match spec_fill n (s_reads s) with
    | Some bytes => if spec_close (s_closes s) then Some bytes else None
    | None => None
    end
  else None.

Definition is_some {A : Type} (x : option A) : bool := match x with Some _ => true | None => false end.

(* the oracle seen by the generator: inst = it has been instantiated already *)
Fixpoint spec_resolve (inst : bool) (ss : list session) : oracle :=
  match ss with
  | [] => []
  | s :: r =>
    let res := spec_session (if inst then spec_reseed_entropy else spec_instantiate_entropy) s in
    res :: spec_resolve (inst || is_some res) r
  end.
