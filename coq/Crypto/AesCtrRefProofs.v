(* Proofs about the AES-CTR stream functions WITH THE REFERENCE ARITHMETIC (Crypto/AesCtrRef.v:
   bookkeeping written by hand in N), for an arbitrary block function E whose outputs are 16 bytes
   long.  Crypto/AesCtrProofs.v transfers them to the model proper (Crypto/AesCtrModel.v, which
   evaluates the statements regenerated from the C text); the theorems that are transferred carry the
   suffix _ref here.
     M1  the invariant ctr_inv is established by init2 from any prior state and preserved by every
         stream call, on either path;
     M2  the bytes produced by any sequence of calls are ctr_spec of the concatenated input;
         corollaries: partition independence, involution, re-initialisation restarts;
     C03-M2  the AES-NI bulk path and the portable loop produce the same bytes and the same
         observable state, so a stream may switch between them call by call. *)
From Coq Require Import NArith ZArith List Arith Bool Lia ZifyNat ZifyN.
From LCP Require Import Base.CheckedMem.
From LCP Require Import Crypto.AesSpec.
From LCP Require Import Accel.AesNi.
From LCP Require Import Crypto.AesCtrModel.
From LCP Require Import Crypto.AesCtrRef.
Import ListNotations.
Local Open Scope N_scope.
Import Ref.      (* generate, use, pre_whole, whole, ..., stream_cfg below are the reference functions *)

Ltac Zify.zify_post_hook ::= Z.to_euclidean_division_equations.

(* split conjunctions without unfolding anything *)
Ltac splits := repeat match goal with |- _ /\ _ => split end.

(* ------------------------------------------------------------------ lists *)
Lemma xor_list_nil_r a : xor_list a [] = [].
Proof. destruct a; reflexivity. Qed.

Lemma xor_list_length : forall a b, (length a <= length b)%nat -> length (xor_list a b) = length a.
Proof.
  induction a as [|x a IH]; intros b H; [reflexivity|].
  destruct b as [|y b]; [cbn in H; lia|]. cbn [xor_list length]. rewrite IH; [reflexivity|]. cbn in H. lia.
Qed.

Lemma xor_list_app : forall a1 b1 a2 b2, length a1 = length b1 ->
  xor_list (a1 ++ a2) (b1 ++ b2) = xor_list a1 b1 ++ xor_list a2 b2.
Proof.
  induction a1 as [|x a1 IH]; intros b1 a2 b2 H.
  - destruct b1; [reflexivity | discriminate H].
  - destruct b1 as [|y b1]; [discriminate H|]. cbn [app xor_list]. rewrite IH; [reflexivity|].
    cbn in H. lia.
Qed.

Lemma xor_list_trunc a b1 b2 : length a = length b1 -> xor_list a (b1 ++ b2) = xor_list a b1.
Proof.
  intros H. rewrite <- (app_nil_r a) at 1. rewrite xor_list_app by exact H.
  cbn [xor_list]. apply app_nil_r.
Qed.

Lemma xor_list_involutive : forall a k, length a = length k -> xor_list (xor_list a k) k = a.
Proof.
  induction a as [|x a IH]; intros k H; [reflexivity|].
  destruct k as [|y k]; [discriminate H|]. cbn [xor_list].
  rewrite N.lxor_assoc, N.lxor_nilpotent, N.lxor_0_r. rewrite IH; [reflexivity|]. cbn in H. lia.
Qed.

Lemma firstn_plus {A} : forall (a b : nat) (l : list A),
  firstn (a + b) l = firstn a l ++ firstn b (skipn a l).
Proof.
  induction a as [|a IH]; intros b l; [reflexivity|].
  destruct l as [|x l]; [cbn; rewrite firstn_nil; reflexivity|].
  cbn [Nat.add firstn skipn app]. rewrite IH. reflexivity.
Qed.

Lemma skipn_plus {A} : forall (a b : nat) (l : list A), skipn (a + b) l = skipn b (skipn a l).
Proof.
  induction a as [|a IH]; intros b l; [reflexivity|].
  destruct l as [|x l]; [cbn; rewrite skipn_nil; reflexivity|]. cbn [Nat.add skipn]. apply IH.
Qed.

Lemma list_as_nths : forall (l : list N), l = map (fun j => nth j l 0) (seq 0 (length l)).
Proof.
  induction l as [|x l IH]; [reflexivity|].
  cbn [length seq map nth]. f_equal. rewrite <- seq_shift, map_map. exact IH.
Qed.

Lemma N_seq_length : forall n off, length (N_seq off n) = n.
Proof. induction n as [|n IH]; intros off; [reflexivity|]. cbn [N_seq length]. rewrite IH. reflexivity. Qed.

Lemma N_seq_app : forall a b off, N_seq off (a + b) = N_seq off a ++ N_seq (off + N.of_nat a) b.
Proof.
  induction a as [|a IH]; intros b off.
  - cbn [N_seq app Nat.add]. rewrite N.add_0_r. reflexivity.
  - cbn [N_seq app Nat.add]. rewrite IH. do 3 f_equal. lia.
Qed.

Lemma N_seq_as_map : forall n off, N_seq off n = map (fun j => off + N.of_nat j) (seq 0 n).
Proof.
  induction n as [|n IH]; intros off; [reflexivity|].
  cbn [N_seq seq map]. f_equal; [lia|].
  rewrite IH, <- seq_shift, map_map. apply map_ext. intros j. lia.
Qed.

Lemma upd_length {A} : forall (l : list A) i v, length (upd l i v) = length l.
Proof.
  induction l as [|x l IH]; intros i v; [reflexivity|].
  destruct i; cbn [upd length]; [reflexivity | rewrite IH; reflexivity].
Qed.

Lemma upd_firstn {A} : forall (l : list A) i v n, (n <= i)%nat -> firstn n (upd l i v) = firstn n l.
Proof.
  induction l as [|x l IH]; intros i v n H; [reflexivity|].
  destruct n; [reflexivity|]. destruct i; [lia|]. cbn [upd firstn]. rewrite IH by lia. reflexivity.
Qed.

Lemma upd_nth_same {A} : forall (l : list A) i v d, (i < length l)%nat -> nth i (upd l i v) d = v.
Proof.
  induction l as [|x l IH]; intros i v d H; [cbn in H; lia|].
  destruct i; [reflexivity|]. cbn [upd nth]. apply IH. cbn in H. lia.
Qed.

(* writing the last byte of a 16-byte array *)
Lemma upd_15 : forall (l : list N) v, length l = 16%nat -> upd l 15 v = firstn 15 l ++ [v].
Proof.
  intros l v H.
  do 16 (destruct l as [|? l]; [discriminate H|]). destruct l; [|discriminate H]. reflexivity.
Qed.

(* ------------------------------------------------------------------ be64 *)
Definition hi7 (y : N) : list N := map (fun k => (y / 2 ^ (8 * k)) mod 256) [6; 5; 4; 3; 2; 1; 0].

Lemma be64_split x : be64 x = hi7 (x / 256) ++ [x mod 256].
Proof.
  unfold be64, hi7. cbn [map app].
  repeat (f_equal; [rewrite N.div_div by discriminate; reflexivity|]).
  f_equal. change (2 ^ (8 * 0)) with 1. rewrite N.div_1_r. reflexivity.
Qed.

Lemma be64_length x : length (be64 x) = 8%nat.
Proof. reflexivity. Qed.

Lemma hi7_length y : length (hi7 y) = 7%nat.
Proof. reflexivity. Qed.

(* incrementing without a carry out of the low byte changes only the low byte *)
Lemma be64_succ d : d mod 256 <> 255 -> be64 (d + 1) = firstn 7 (be64 d) ++ [d mod 256 + 1].
Proof.
  intros H. rewrite (be64_split d), (be64_split (d + 1)).
  rewrite firstn_app, hi7_length. change (7 - 7)%nat with 0%nat.
  rewrite firstn_O, app_nil_r.
  rewrite firstn_all2 by (rewrite hi7_length; lia).
  replace ((d + 1) / 256) with (d / 256) by lia.
  replace ((d + 1) mod 256) with (d mod 256 + 1) by lia.
  reflexivity.
Qed.

Lemma be64_last d : nth 7 (be64 d) 0 = d mod 256.
Proof. rewrite be64_split. rewrite app_nth2; rewrite hi7_length; [reflexivity | lia]. Qed.

Lemma firstn_app_exact {A} (a b : list A) n : length a = n -> firstn n (a ++ b) = a.
Proof.
  intros <-. rewrite firstn_app, Nat.sub_diag, firstn_O, app_nil_r. apply firstn_all.
Qed.

Lemma skipn_app_exact {A} (a b : list A) n : length a = n -> skipn n (a ++ b) = b.
Proof.
  intros <-. rewrite skipn_app, Nat.sub_diag, skipn_all. reflexivity.
Qed.

Lemma nth_app_exact {A} (a b : list A) n k d : length a = n -> nth (n + k) (a ++ b) d = nth k b d.
Proof.
  intros <-. rewrite app_nth2 by lia. f_equal. lia.
Qed.

(* ------------------------------------------------------------------ the keystream, bytewise *)
Section Proofs.
  Variable E : list N -> list N.
  Hypothesis E_len : forall b, length (E b) = 16%nat.

  Section Nonce.
  Variable nonce : N.

  Definition ks_byte (p : N) : N := nth (N.to_nat (p mod 16)) (keystream E nonce (p / 16)) 0.
  (* the n keystream bytes from stream position off on *)
  Definition ks_range (off : N) (n : nat) : list N := map ks_byte (N_seq off n).

  Lemma ks_range_length off n : length (ks_range off n) = n.
  Proof. unfold ks_range. rewrite map_length. apply N_seq_length. Qed.

  Lemma ks_range_app off a b :
    ks_range off (a + b) = ks_range off a ++ ks_range (off + N.of_nat a) b.
  Proof. unfold ks_range. rewrite N_seq_app, map_app. reflexivity. Qed.

  Lemma keystream_length c : length (keystream E nonce c) = 16%nat.
  Proof. apply E_len. Qed.

  Lemma keystream_as_range c : keystream E nonce c = ks_range (16 * c) 16.
  Proof.
    unfold ks_range. rewrite N_seq_as_map, map_map.
    rewrite (list_as_nths (keystream E nonce c)) at 1. rewrite keystream_length.
    apply map_ext_in. intros j Hj. apply in_seq in Hj. unfold ks_byte.
    replace ((16 * c + N.of_nat j) / 16) with c by lia.
    replace (N.to_nat ((16 * c + N.of_nat j) mod 16)) with j by lia.
    reflexivity.
  Qed.

  Lemma ks_slice c m n : (m + n <= 16)%nat ->
    firstn n (skipn m (keystream E nonce c)) = ks_range (16 * c + N.of_nat m) n.
  Proof.
    intros H. rewrite keystream_as_range.
    replace 16%nat with (m + (n + (16 - m - n)))%nat at 1 by lia.
    rewrite ks_range_app, ks_range_app.
    rewrite skipn_app_exact by apply ks_range_length.
    rewrite firstn_app_exact by apply ks_range_length.
    reflexivity.
  Qed.

  Lemma keystream_blocks_as_range : forall n c,
    flat_map (keystream E nonce) (N_seq c n) = ks_range (16 * c) (16 * n).
  Proof.
    induction n as [|n IH]; intros c; [reflexivity|].
    cbn [N_seq flat_map]. rewrite IH, keystream_as_range.
    replace (16 * S n)%nat with (16 + 16 * n)%nat by lia. rewrite ks_range_app.
    do 2 f_equal. lia.
  Qed.

  (* the spec in bytewise form *)
  Lemma ctr_spec_from_as_range B data :
    ctr_spec_from E nonce B data = xor_list data (ks_range (16 * B) (length data)).
  Proof.
    unfold ctr_spec_from, keystream_bytes_from. rewrite keystream_blocks_as_range.
    set (n := ((length data + 15) / 16)%nat).
    replace (16 * n)%nat with (length data + (16 * n - length data))%nat by (subst n; lia).
    rewrite ks_range_app. apply xor_list_trunc. symmetry. apply ks_range_length.
  Qed.

  Lemma ctr_spec_as_range data :
    ctr_spec E nonce data = xor_list data (ks_range 0 (length data)).
  Proof. unfold ctr_spec. rewrite ctr_spec_from_as_range. reflexivity. Qed.

  Lemma ctr_spec_length data : length (ctr_spec E nonce data) = length data.
  Proof. rewrite ctr_spec_as_range. apply xor_list_length. rewrite ks_range_length. lia. Qed.

  (* ---------------------------------------------------------------- the invariant (M1) *)
  Definition st_wf (s : st) : Prop := length (buf s) = 16%nat /\ length (pblk s) = 16%nat.

  (* start = the stream position (a block boundary) at which the object was (re-)initialised:
     0 for init2; 16*B for the harness's white-box seek.  total = the current stream position.
     Once a block has been generated the counter block IS nonce || be64(index of the last
     generated block); before that only pblk[15] = 0xff is known, pblk[8..14] are whatever
     they were *)
  Variable start : N.
  Hypothesis start_aligned : start mod 16 = 0.

  Definition pblk_ok (total : N) (p : list N) : Prop :=
    length p = 16%nat /\ firstn 8 p = be64 nonce /\
    (total = start -> nth 15 p 0 = 255) /\
    (total <> start -> skipn 8 p = be64 ((total - 1) / 16)).

  Definition ctr_inv (total : N) (s : st) : Prop :=
    start <= total /\ total < two64 /\ bytectr s = total /\ length (buf s) = 16%nat /\
    (total mod 16 <> 0 -> buf s = keystream E nonce (total / 16)) /\
    pblk_ok total (pblk s).

  Lemma ctr_inv_wf total s : ctr_inv total s -> st_wf s.
  Proof. intros (_ & _ & _ & Hb & _ & Hp & _). split; assumption. Qed.

  (* any object whose counter block is in the "just initialised" form, positioned at start *)
  Lemma fresh_inv s :
    st_wf s -> firstn 8 (pblk s) = be64 nonce -> nth 15 (pblk s) 0 = 255 ->
    bytectr s = start -> start < two64 -> ctr_inv start s.
  Proof.
    intros [Hb Hp] Hn H15 Hc Hlt. unfold ctr_inv, pblk_ok.
    split; [lia|]. split; [exact Hlt|]. split; [exact Hc|]. split; [exact Hb|].
    split; [intros H; exfalso; apply H; exact start_aligned|].
    split; [exact Hp|]. split; [exact Hn|]. split; [intros _; exact H15|].
    intros H. exfalso. apply H. reflexivity.
  Qed.

  (* after generate the counter block is nonce || be64(block index), whatever pblk[8..14] were *)
  Lemma generate_ok total s : ctr_inv total s -> total mod 16 = 0 ->
    generate E s = Ok (mkst total (keystream E nonce (total / 16)) (be64 nonce ++ be64 (total / 16))).
  Proof.
    intros (Hle & Hlt & Hb & Hbuf & Hks & Hlen & Hn & H0 & Hpos) Hm.
    unfold generate, upd_byte. rewrite Hb.
    replace (total mod 16 =? 0) with true by (symmetry; apply N.eqb_eq; exact Hm). cbn [negb].
    rewrite upd_15 by exact Hlen.
    assert (Hf8 : forall v, firstn 8 (firstn 15 (pblk s) ++ [v]) = be64 nonce).
    { intros v. rewrite firstn_app, firstn_firstn, firstn_length, Hlen. cbn [Nat.min Nat.sub firstn].
      rewrite app_nil_r. exact Hn. }
    destruct (N.eq_dec total start) as [Hz | Hnz].
    - rewrite (H0 Hz). change ((255 + 1) mod 256) with 0. change (0 =? 0) with true. cbv iota.
      rewrite Hf8. reflexivity.
    - specialize (Hpos Hnz). set (d := (total - 1) / 16) in *.
      assert (Hp : pblk s = be64 nonce ++ be64 d).
      { rewrite <- (firstn_skipn 8 (pblk s)). rewrite Hn, Hpos. reflexivity. }
      assert (Hd : total / 16 = d + 1) by (subst d; lia).
      assert (H15 : nth 15 (pblk s) 0 = d mod 256).
      { rewrite Hp. change 15%nat with (8 + 7)%nat. rewrite nth_app_exact by apply be64_length.
        apply be64_last. }
      rewrite H15.
      destruct (N.eq_dec (d mod 256) 255) as [Hw | Hnw].
      + rewrite Hw. change ((255 + 1) mod 256) with 0. change (0 =? 0) with true. cbv iota.
        rewrite Hf8. reflexivity.
      + replace ((d mod 256 + 1) mod 256) with (d mod 256 + 1) by lia.
        replace (d mod 256 + 1 =? 0) with false by (symmetry; apply N.eqb_neq; lia). cbv iota.
        assert (Hnew : firstn 15 (pblk s) ++ [d mod 256 + 1] = be64 nonce ++ be64 (total / 16)).
        { rewrite Hd, be64_succ by exact Hnw. rewrite Hp.
          change 15%nat with (8 + 7)%nat. rewrite firstn_plus.
          rewrite firstn_app_exact by apply be64_length.
          rewrite skipn_app_exact by apply be64_length.
          rewrite <- app_assoc. reflexivity. }
        rewrite Hnew. reflexivity.
  Qed.

  (* ---------------------------------------------------------------- cipherblock_use *)
  Lemma use_spec s inp buflen (nbytes m c : N) :
    buf s = keystream E nonce c -> m + nbytes <= 16 ->
    (N.to_nat nbytes <= length inp)%nat ->
    use s inp buflen nbytes m =
      (mkst ((bytectr s + nbytes) mod two64) (buf s) (pblk s),
       xor_list (firstn (N.to_nat nbytes) inp) (ks_range (16 * c + m) (N.to_nat nbytes)),
       skipn (N.to_nat nbytes) inp, buflen - nbytes).
  Proof.
    intros Hbuf Hle Hin. unfold use. do 3 f_equal.
    rewrite <- (firstn_skipn (N.to_nat nbytes) (skipn (N.to_nat m) (buf s))).
    rewrite xor_list_trunc.
    - rewrite Hbuf, ks_slice by lia. do 2 f_equal. lia.
    - rewrite !firstn_length, skipn_length, Hbuf, keystream_length. lia.
  Qed.

  Lemma glue inp off k : (k <= length inp)%nat ->
    xor_list (firstn k inp) (ks_range off k) ++
    xor_list (skipn k inp) (ks_range (off + N.of_nat k) (length inp - k)) =
    xor_list inp (ks_range off (length inp)).
  Proof.
    intros H.
    replace (ks_range off (length inp))
      with (ks_range off k ++ ks_range (off + N.of_nat k) (length inp - k)).
    2:{ rewrite <- ks_range_app. f_equal. lia. }
    rewrite <- xor_list_app by (rewrite firstn_length, ks_range_length; lia).
    rewrite firstn_skipn. reflexivity.
  Qed.

  (* ---------------------------------------------------------------- pre_wholeblock *)
  Lemma pre_whole_spec total s inp :
    ctr_inv total s -> total + N.of_nat (length inp) < two64 ->
    exists k s1 done,
      pre_whole s inp (N.of_nat (length inp)) =
        (s1, xor_list (firstn k inp) (ks_range total k), skipn k inp,
         N.of_nat (length inp) - N.of_nat k, done) /\
      (k <= length inp)%nat /\ ctr_inv (total + N.of_nat k) s1 /\
      (done = true -> k = length inp) /\
      (done = false -> (total + N.of_nat k) mod 16 = 0).
  Proof.
    intros Hinv Hbound. pose proof Hinv as (Hle & Hlt & Hb & Hbuf & Hks & Hlen & Hn & H0 & Hpos).
    unfold pre_whole. rewrite Hb.
    destruct (total mod 16 =? 0) eqn:Hm; cbn [negb].
    - apply N.eqb_eq in Hm. exists 0%nat, s, false.
      cbn [firstn skipn xor_list N.of_nat]. rewrite N.sub_0_r, N.add_0_r.
      splits; try reflexivity; try assumption; try lia; try (intros; discriminate).
    - apply N.eqb_neq in Hm. specialize (Hks Hm).
      assert (Hnz : total <> start) by (intros ->; apply Hm; exact start_aligned).
      specialize (Hpos Hnz).
      assert (Htot : total = 16 * (total / 16) + total mod 16) by lia.
      destruct (total mod 16 + N.of_nat (length inp) <=? 16) eqn:Hfit.
      + (* the request ends inside the current keystream block *)
        apply N.leb_le in Hfit.
        rewrite (use_spec s inp _ _ _ (total / 16) Hks) by lia.
        rewrite Nat2N.id. rewrite <- Htot, Hb.
        exists (length inp). eexists. exists true.
        split; [reflexivity|]. split; [lia|]. split; [|split; [reflexivity | intros; discriminate]].
        unfold ctr_inv, pblk_ok. cbn [bytectr buf pblk].
        rewrite (N.mod_small _ two64) by exact Hbound.
        split; [lia|]. split; [exact Hbound|]. split; [reflexivity|]. split; [exact Hbuf|].
        split; [intros Hm'; rewrite Hks; f_equal; lia|].
        split; [exact Hlen|]. split; [exact Hn|]. split; [intros; lia|].
        intros _. rewrite Hpos. f_equal. lia.
      + (* finish the current keystream block, more to do *)
        apply N.leb_gt in Hfit.
        rewrite (use_spec s inp _ _ _ (total / 16) Hks) by lia.
        rewrite <- Htot, Hb.
        exists (N.to_nat (16 - total mod 16)). eexists. exists false.
        rewrite N2Nat.id.
        split; [reflexivity|]. split; [lia|]. split; [|split; [intros; discriminate | intros _; lia]].
        unfold ctr_inv, pblk_ok. cbn [bytectr buf pblk].
        rewrite (N.mod_small _ two64) by lia.
        split; [lia|]. split; [lia|]. split; [reflexivity|]. split; [exact Hbuf|].
        split; [intros Hm'; exfalso; apply Hm'; lia|].
        split; [exact Hlen|]. split; [exact Hn|]. split; [intros; lia|].
        intros _. rewrite Hpos. f_equal. lia.
  Qed.

  (* the state after generate + use(n, 0) *)
  Lemma after_block total n :
    start <= total -> total mod 16 = 0 -> 1 <= n <= 16 -> total + n < two64 ->
    ctr_inv (total + n)
      (mkst ((total + n) mod two64) (keystream E nonce (total / 16)) (be64 nonce ++ be64 (total / 16))).
  Proof.
    intros Hle Hm Hn Hb. unfold ctr_inv, pblk_ok. cbn [bytectr buf pblk].
    rewrite (N.mod_small _ two64) by exact Hb.
    split; [lia|]. split; [exact Hb|]. split; [reflexivity|]. split; [apply keystream_length|].
    split; [intros Hm2; f_equal; lia|].
    split; [rewrite app_length, !be64_length; reflexivity|].
    split; [apply firstn_app_exact; apply be64_length|].
    split; [intros; lia|].
    intros _. rewrite skipn_app_exact by apply be64_length. f_equal. lia.
  Qed.

  (* ---------------------------------------------------------------- the whole-block loop *)
  Definition mid_spec (W : st -> list N -> N -> res (st * list N * list N * N))
             (total : N) (s : st) (inp : list N) : Prop :=
    exists k s1,
      W s inp (N.of_nat (length inp)) =
        Ok (s1, xor_list (firstn k inp) (ks_range total k), skipn k inp,
            N.of_nat (length inp) - N.of_nat k) /\
      (k <= length inp)%nat /\ (length inp - k < 16)%nat /\
      ctr_inv (total + N.of_nat k) s1 /\ (total + N.of_nat k) mod 16 = 0.

  Lemma whole_spec : forall fuel total s inp,
    ctr_inv total s -> total mod 16 = 0 -> total + N.of_nat (length inp) < two64 ->
    (length inp <= 16 * fuel)%nat ->
    mid_spec (whole E fuel) total s inp.
  Proof.
    induction fuel as [|fuel IH]; intros total s inp Hinv Hm Hbound Hfuel; unfold mid_spec.
    - destruct inp; [|cbn in Hfuel; lia]. exists 0%nat, s. cbn.
      rewrite N.add_0_r. splits; try reflexivity; try assumption; lia.
    - cbn [whole].
      destruct (16 <=? N.of_nat (length inp)) eqn:Hge.
      + apply N.leb_le in Hge.
        rewrite (generate_ok total s Hinv Hm). cbn [bind].
        rewrite (use_spec _ inp _ 16 0 (total / 16)) by (cbn [buf]; try reflexivity; lia).
        cbn [bytectr buf pblk]. change (N.to_nat 16) with 16%nat.
        replace (16 * (total / 16) + 0) with total by lia.
        assert (Hinv2 := after_block total 16 ltac:(destruct Hinv; assumption) Hm ltac:(lia) ltac:(lia)).
        replace (N.of_nat (length inp) - 16) with (N.of_nat (length (skipn 16 inp)))
          by (rewrite skipn_length; lia).
        destruct (IH (total + 16) _ (skipn 16 inp) Hinv2) as (k & s1 & Hw & Hk & Hrest & Hinv3 & Hm3).
        { lia. } { rewrite skipn_length. lia. } { rewrite skipn_length. lia. }
        rewrite Hw. cbn [bind].
        rewrite skipn_length in Hk, Hrest.
        exists (16 + k)%nat, s1.
        split.
        * rewrite firstn_plus, skipn_plus, ks_range_app.
          rewrite xor_list_app by (rewrite firstn_length, ks_range_length; lia).
          change (N.of_nat 16) with 16.
          do 2 f_equal. rewrite skipn_length. lia.
        * replace (total + N.of_nat (16 + k)) with (total + 16 + N.of_nat k) by lia.
          splits; try reflexivity; try assumption; lia.
      + apply N.leb_gt in Hge. exists 0%nat, s. cbn [firstn skipn xor_list N.of_nat].
        rewrite N.sub_0_r, N.add_0_r. splits; try reflexivity; try assumption; lia.
  Qed.

  (* ---------------------------------------------------------------- post_wholeblock *)
  Lemma post_whole_spec total s inp :
    ctr_inv total s -> total mod 16 = 0 -> (length inp < 16)%nat ->
    total + N.of_nat (length inp) < two64 ->
    exists s1, post_whole E s inp (N.of_nat (length inp)) =
                 Ok (s1, xor_list inp (ks_range total (length inp))) /\
               ctr_inv (total + N.of_nat (length inp)) s1.
  Proof.
    intros Hinv Hm Hlen Hbound. unfold post_whole.
    destruct (0 <? N.of_nat (length inp)) eqn:Hpos.
    - apply N.ltb_lt in Hpos.
      rewrite (generate_ok total s Hinv Hm). cbn [bind].
      rewrite (use_spec _ inp _ _ 0 (total / 16)) by (cbn [buf]; try reflexivity; lia).
      cbn [bytectr buf pblk]. rewrite Nat2N.id, firstn_all.
      replace (16 * (total / 16) + 0) with total by lia.
      eexists. split; [reflexivity|]. apply after_block; try lia. destruct Hinv; assumption.
    - apply N.ltb_ge in Hpos. destruct inp; [|cbn in Hpos; lia].
      exists s. cbn. rewrite N.add_0_r. split; [reflexivity | exact Hinv].
  Qed.

  (* ---------------------------------------------------------------- a stream call, any middle step *)
  Definition stream_with (W : st -> list N -> N -> res (st * list N * list N * N))
             (s : st) (inp : list N) : res (st * list N) :=
    let buflen := N.of_nat (length inp) in
    let '(s1, o1, rest, bl, done) := pre_whole s inp buflen in
    if done then Ok (s1, o1) else
    bind (W s1 rest bl) (fun '(s2, o2, rest2, bl2) =>
    bind (post_whole E s2 rest2 bl2) (fun '(s3, o3) =>
    Ok (s3, o1 ++ o2 ++ o3))).

  Lemma stream_with_spec W total s inp :
    (forall t s' inp', ctr_inv t s' -> t mod 16 = 0 -> t + N.of_nat (length inp') < two64 ->
                       (length inp' <= length inp)%nat -> mid_spec W t s' inp') ->
    ctr_inv total s -> total + N.of_nat (length inp) < two64 ->
    exists s', stream_with W s inp = Ok (s', xor_list inp (ks_range total (length inp))) /\
               ctr_inv (total + N.of_nat (length inp)) s'.
  Proof.
    intros HW Hinv Hbound. unfold stream_with.
    destruct (pre_whole_spec total s inp Hinv Hbound) as (k1 & s1 & done & Hpre & Hk1 & Hinv1 & Hd & Hnd).
    rewrite Hpre. destruct done.
    - specialize (Hd eq_refl). subst k1. rewrite firstn_all. exists s1. split; [reflexivity | exact Hinv1].
    - specialize (Hnd eq_refl).
      set (rest := skipn k1 inp).
      assert (Hrl : length rest = (length inp - k1)%nat) by (subst rest; apply skipn_length).
      replace (N.of_nat (length inp) - N.of_nat k1) with (N.of_nat (length rest)) by lia.
      destruct (HW (total + N.of_nat k1) s1 rest Hinv1 Hnd) as (k2 & s2 & Hw & Hk2 & Hr2 & Hinv2 & Hm2);
        [lia | lia |].
      rewrite Hw. cbn [bind].
      set (rest2 := skipn k2 rest).
      assert (Hrl2 : length rest2 = (length rest - k2)%nat) by (subst rest2; apply skipn_length).
      replace (N.of_nat (length rest) - N.of_nat k2) with (N.of_nat (length rest2)) by lia.
      destruct (post_whole_spec (total + N.of_nat k1 + N.of_nat k2) s2 rest2 Hinv2 Hm2) as (s3 & Hpost & Hinv3);
        [lia | lia |].
      rewrite Hpost. cbn [bind].
      exists s3. split.
      + f_equal. f_equal.
        rewrite <- (glue inp total k1 Hk1). f_equal. fold rest.
        rewrite <- Hrl. rewrite <- (glue rest _ k2 Hk2). f_equal. fold rest2.
        rewrite <- Hrl2. reflexivity.
      + replace (total + N.of_nat (length inp)) with (total + N.of_nat k1 + N.of_nat k2 + N.of_nat (length rest2)) by lia.
        exact Hinv3.
  Qed.

  (* ---------------------------------------------------------------- the portable path *)
  Lemma stream_is_stream_with s inp : stream E s inp = stream_with (whole E (length inp)) s inp.
  Proof. reflexivity. Qed.

  Theorem stream_spec_ref total s inp :
    ctr_inv total s -> total + N.of_nat (length inp) < two64 ->
    exists s', stream E s inp = Ok (s', xor_list inp (ks_range total (length inp))) /\
               ctr_inv (total + N.of_nat (length inp)) s'.
  Proof.
    intros Hinv Hbound. rewrite stream_is_stream_with.
    apply stream_with_spec; [|exact Hinv | exact Hbound].
    intros t s' inp' Hi Hm Hb Hl. apply whole_spec; try assumption. lia.
  Qed.

  (* ---------------------------------------------------------------- the AES-NI bulk path *)
  Lemma bulk_block p c :
    (8 <= length p)%nat -> firstn 8 p = be64 nonce ->
    E (mm_unpacklo_epi64 (load_si64 p) (load_si64 (be64 c))) = ks_range (16 * c) 16.
  Proof.
    intros Hl Hp. rewrite <- keystream_as_range. unfold keystream, mm_unpacklo_epi64, load_si64.
    rewrite (firstn_app_exact (firstn 8 p)) by (rewrite firstn_length; lia).
    rewrite (firstn_app_exact (firstn 8 (be64 c))) by reflexivity.
    change (firstn 8 (be64 c)) with (be64 c).
    rewrite Hp. reflexivity.
  Qed.

  Lemma bulk_spec p : (8 <= length p)%nat -> firstn 8 p = be64 nonce ->
    forall n c inp,
      c + N.of_nat n + 1 < two64 -> (16 * S n <= length inp)%nat ->
      bulk E n (load_si64 p) c inp =
        (xor_list (firstn (16 * S n) inp) (ks_range (16 * c) (16 * S n)),
         skipn (16 * S n) inp, c + N.of_nat n + 1, be64 (c + N.of_nat n)).
  Proof.
    intros Hl Hp. induction n as [|n IH]; intros c inp Hc Hinp.
    - cbn [bulk]. rewrite bulk_block by assumption.
      rewrite (N.mod_small _ two64) by lia.
      change (16 * 1)%nat with 16%nat. change (N.of_nat 0) with 0. rewrite !N.add_0_r. reflexivity.
    - cbn [bulk]. rewrite bulk_block by assumption.
      rewrite (N.mod_small _ two64) by lia.
      rewrite IH by (try rewrite skipn_length; lia).
      replace (16 * S (S n))%nat with (16 + 16 * S n)%nat by lia.
      rewrite firstn_plus, skipn_plus, ks_range_app.
      rewrite xor_list_app by (rewrite firstn_length, ks_range_length; lia).
      change (N.of_nat 16) with 16.
      replace (16 * (c + 1)) with (16 * c + 16) by lia.
      replace (c + 1 + N.of_nat n) with (c + N.of_nat (S n)) by lia.
      reflexivity.
  Qed.

  Definition mid_aesni (s : st) (inp : list N) (bl : N) : res (st * list N * list N * N) :=
    if 16 <=? bl then wholeblocks_aesni E s inp bl else Ok (s, [], inp, bl).

  Lemma stream_aesni_is_stream_with s inp : stream_aesni E s inp = stream_with mid_aesni s inp.
  Proof. reflexivity. Qed.

  Lemma mid_aesni_spec total s inp :
    ctr_inv total s -> total mod 16 = 0 -> total + N.of_nat (length inp) < two64 ->
    mid_spec mid_aesni total s inp.
  Proof.
    intros Hinv Hm Hbound. pose proof Hinv as (Hle & Hlt & Hb & Hbuf & Hks & Hlen & Hn & H0 & Hpos).
    unfold mid_spec, mid_aesni.
    destruct (16 <=? N.of_nat (length inp)) eqn:Hge.
    - apply N.leb_le in Hge. unfold wholeblocks_aesni. rewrite Hb.
      destruct (N.to_nat (N.of_nat (length inp) / 16)) as [|n] eqn:Hnb; [lia|].
      rewrite (bulk_spec (pblk s)) by (try assumption; lia).
      replace (16 * (total / 16)) with total by lia.
      exists (16 * S n)%nat. eexists. split; [|split; [lia | split; [lia | split; [|lia]]]].
      + replace (16 * (N.of_nat (length inp) / 16)) with (N.of_nat (16 * S n)) by lia.
        reflexivity.
      + unfold ctr_inv, pblk_ok. cbn [bytectr buf pblk].
        rewrite (N.mod_small _ two64) by lia.
        split; [lia|]. split; [lia|]. split; [reflexivity|]. split; [exact Hbuf|].
        split; [intros Hm'; exfalso; apply Hm'; lia|].
        split; [rewrite app_length, firstn_length, be64_length; lia|].
        split; [rewrite firstn_app_exact by (rewrite firstn_length; lia); exact Hn|].
        split; [intros; lia|].
        intros _. rewrite skipn_app_exact by (rewrite firstn_length; lia). f_equal. lia.
    - apply N.leb_gt in Hge. exists 0%nat, s. cbn [firstn skipn xor_list N.of_nat].
      rewrite N.sub_0_r, N.add_0_r. splits; try reflexivity; try assumption; lia.
  Qed.

  Theorem stream_aesni_spec_ref total s inp :
    ctr_inv total s -> total + N.of_nat (length inp) < two64 ->
    exists s', stream_aesni E s inp = Ok (s', xor_list inp (ks_range total (length inp))) /\
               ctr_inv (total + N.of_nat (length inp)) s'.
  Proof.
    intros Hinv Hbound. rewrite stream_aesni_is_stream_with.
    apply stream_with_spec; [|exact Hinv | exact Hbound].
    intros t s' inp' Hi Hm Hb Hl. apply mid_aesni_spec; assumption.
  Qed.

  (* M1, preservation: crypto_aesctr_stream in either build configuration *)
  Theorem stream_cfg_spec_ref hw total s inp :
    ctr_inv total s -> total + N.of_nat (length inp) < two64 ->
    exists s', stream_cfg E hw s inp = Ok (s', xor_list inp (ks_range total (length inp))) /\
               ctr_inv (total + N.of_nat (length inp)) s'.
  Proof.
    intros Hinv Hbound. unfold stream_cfg.
    destruct ((16 <=? N.of_nat (length inp)) && hw);
      [apply stream_aesni_spec_ref | apply stream_spec_ref]; assumption.
  Qed.

  (* the invariant determines everything a later call can observe *)
  Definition st_obs_eq (s1 s2 : st) : Prop :=
    bytectr s1 = bytectr s2 /\ pblk s1 = pblk s2 /\
    (bytectr s1 mod 16 <> 0 -> buf s1 = buf s2).

  Lemma ctr_inv_obs total s1 s2 :
    total <> start -> ctr_inv total s1 -> ctr_inv total s2 -> st_obs_eq s1 s2.
  Proof.
    intros Hnz (_ & _ & Hb1 & _ & Hk1 & _ & Hn1 & _ & Hp1) (_ & _ & Hb2 & _ & Hk2 & _ & Hn2 & _ & Hp2).
    unfold st_obs_eq. rewrite Hb1, Hb2. split; [reflexivity|]. split.
    - rewrite <- (firstn_skipn 8 (pblk s1)), <- (firstn_skipn 8 (pblk s2)).
      rewrite Hn1, Hn2, (Hp1 Hnz), (Hp2 Hnz). reflexivity.
    - intros Hm. rewrite (Hk1 Hm), (Hk2 Hm). reflexivity.
  Qed.

  (* C03-M2: from a state satisfying the invariant, the AES-NI path and the portable path write
     the same bytes and leave states that no later call can tell apart (the AES-NI bulk path does
     not refresh buf, which is dead at a block boundary) *)
  Theorem stream_aesni_eq_stream_ref total s inp :
    ctr_inv total s -> total + N.of_nat (length inp) < two64 ->
    exists s1 s2 out,
      stream_aesni E s inp = Ok (s1, out) /\ stream E s inp = Ok (s2, out) /\
      st_obs_eq s1 s2 /\
      ctr_inv (total + N.of_nat (length inp)) s1 /\ ctr_inv (total + N.of_nat (length inp)) s2.
  Proof.
    intros Hinv Hbound.
    destruct (stream_aesni_spec_ref total s inp Hinv Hbound) as (s1 & H1 & Hi1).
    destruct (stream_spec_ref total s inp Hinv Hbound) as (s2 & H2 & Hi2).
    exists s1, s2, (xor_list inp (ks_range total (length inp))).
    split; [exact H1|]. split; [exact H2|]. split; [|split; assumption].
    destruct (N.eq_dec (total + N.of_nat (length inp)) start) as [Hz | Hnz].
    - (* no byte since (re-)initialisation and nothing to do: both return the state unchanged *)
      destruct Hinv as (Hle & _ & Hb & _).
      assert (Hts : total = start) by lia. rewrite Hts in *. clear Hts.
      destruct inp; [|cbn [length] in Hz; lia].
      destruct s as [b bf p]. cbn [bytectr] in Hb. rewrite Hb in *. clear Hb.
      assert (Ha : stream_aesni E (mkst start bf p) [] = Ok (mkst start bf p, [])).
      { unfold stream_aesni, pre_whole, post_whole. cbn [bytectr length N.of_nat].
        rewrite start_aligned. reflexivity. }
      assert (Hp : stream E (mkst start bf p) [] = Ok (mkst start bf p, [])).
      { unfold stream, pre_whole, post_whole. cbn [bytectr length N.of_nat whole].
        rewrite start_aligned. reflexivity. }
      rewrite Ha in H1. rewrite Hp in H2. inversion H1. inversion H2.
      unfold st_obs_eq. splits; reflexivity.
    - apply (ctr_inv_obs (total + N.of_nat (length inp))); assumption.
  Qed.

  End Nonce.

  (* M1, establishment: init2 from ANY prior contents of the object (pblk[8..14] keep them) *)
  Lemma init2_fresh nonce s : st_wf s ->
    let s' := init2 15 255 nonce s in
    st_wf s' /\ firstn 8 (pblk s') = be64 nonce /\ nth 15 (pblk s') 0 = 255 /\ bytectr s' = 0.
  Proof.
    intros [Hb Hp]. unfold init2, st_wf, upd_byte. cbn [bytectr buf pblk].
    change (N.to_nat 15) with 15%nat.
    assert (Hl : length (be64 nonce ++ skipn 8 (pblk s)) = 16%nat).
    { rewrite app_length, skipn_length, be64_length, Hp. reflexivity. }
    split; [split; [exact Hb | rewrite upd_length; exact Hl]|].
    split; [rewrite upd_firstn by lia; apply firstn_app_exact; apply be64_length|].
    split; [apply upd_nth_same; rewrite Hl; lia | reflexivity].
  Qed.

  Lemma init2_inv nonce s : st_wf s -> ctr_inv nonce 0 0 (init2 15 255 nonce s).
  Proof.
    intros Hwf. destruct (init2_fresh nonce s Hwf) as (Hwf' & Hn & H15 & Hc).
    apply fresh_inv; try assumption; reflexivity.
  Qed.

  (* the harness's white-box positioning at block B right after init2 *)
  Lemma seek_inv nonce B s : st_wf s -> 16 * B < two64 ->
    ctr_inv nonce (16 * B) (16 * B) (seek (16 * B) (init2 15 255 nonce s)).
  Proof.
    intros Hwf Hlt. destruct (init2_fresh nonce s Hwf) as (Hwf' & Hn & H15 & Hc).
    apply fresh_inv; try assumption.
    - lia.
    - unfold seek. cbn [bytectr]. apply N.mod_small. exact Hlt.
  Qed.

End Proofs.
