(* MODEL of the release paths crypto_aes_key_free_aesni, crypto_aes_key_free (software tail) and
   crypto_aesctr_free (C20).

   The object is the list of the bytes of the malloc'd struct.  The translator extracts from each
   free function the ordered list of its insecure_memzero(obj, SIZE) / free(obj) calls together
   with the SIZE expression text, and from the allocating function the malloc size expression.
   This file INTERPRETS that call list: an insecure_memzero whose SIZE expression is textually the
   allocation's size expression zeroes the whole object; one with any other expression is treated
   as zeroing nothing (the model cannot know how much of the object it covers); free hands the
   current bytes to the allocator, which is recorded as a release event.  No proofs here. *)
From Coq Require Import NArith List Bool.
Import ListNotations.
Local Open Scope N_scope.

Fixpoint list_eqb (a b : list N) : bool :=
  match a, b with
  | [], [] => true
  | x :: a', y :: b' => (x =? y) && list_eqb a' b'
  | _, _ => false
  end.

(* returns the contents of the blocks released, in order *)
Fixpoint run_free_calls (alloc_expr : list N) (calls : list (N * list N)) (obj : list N)
  : list (list N) :=
  match calls with
  | [] => []
  | (kind, expr) :: r =>
    if kind =? 1 then
      run_free_calls alloc_expr r (if list_eqb expr alloc_expr then repeat 0 (length obj) else obj)
    else if kind =? 2 then obj :: run_free_calls alloc_expr r obj
    else run_free_calls alloc_expr r obj
  end.

Definition all_zero (l : list N) : bool := forallb (fun b => b =? 0) l.

(* byte images of the objects, used by the correspondence run to have something non-zero to wipe *)
Definition le64 (x : N) : list N :=
  map (fun k => (x / 2 ^ (8 * k)) mod 256) [0; 1; 2; 3; 4; 5; 6; 7].
