(* Proofs about the AES-CTR model (Crypto/AesCtrModel.v), for an arbitrary block function E whose
   outputs are 16 bytes long:
     M1  the invariant ctr_inv is established by init2 from any prior state and preserved by every
         stream call, on either path;
     M2  the bytes produced by any sequence of calls are ctr_spec of the concatenated input;
         corollaries: partition independence, involution, re-initialisation restarts;
     C03-M2  the AES-NI bulk path and the portable loop produce the same bytes and the same
         observable state, so a stream may switch between them call by call. *)
From Coq Require Import NArith ZArith List Arith Bool Lia.
From LCP Require Import Base.CheckedMem Crypto.AesSpec Accel.AesNi Crypto.AesCtrModel.
Import ListNotations.
Local Open Scope N_scope.

Ltac Zify.zify_post_hook ::= Z.div_mod_to_equations.

(* ------------------------------------------------------------------ lists *)
Lemma xor_list_nil_r a : xor_list a [] = [].
Proof. destruct a; reflexivity. Qed.

Lemma xor_list_length : forall a b, (length a <= length b)%nat -> length (xor_list a b) = length a.
Proof.
  induction a as [|x a IH]; intros b H; [reflexivity|].
  destruct b as [|y b]; [cbn in H; lia|]. cbn [xor_list length]. rewrite IH; [reflexivity|]. cbn in H. lia.
Qed.

Lemma xor_list_app : forall a1 b1 a2 b2, length a1 = length b1 ->
  xor_list (a1 ++ a2) (b1 ++ b2) = xor_list a1 b1 ++ xor_list a2 b2.
Proof.
  induction a1 as [|x a1 IH]; intros b1 a2 b2 H.
  - destruct b1; [reflexivity | discriminate H].
  - destruct b1 as [|y b1]; [discriminate H|]. cbn [app xor_list]. rewrite IH; [reflexivity|].
    cbn in H. lia.
Qed.

Lemma xor_list_trunc a b1 b2 : length a = length b1 -> xor_list a (b1 ++ b2) = xor_list a b1.
Proof.
  intros H. rewrite <- (app_nil_r a) at 1. rewrite xor_list_app by exact H.
  cbn [xor_list]. apply app_nil_r.
Qed.

Lemma xor_list_involutive : forall a k, length a = length k -> xor_list (xor_list a k) k = a.
Proof.
  induction a as [|x a IH]; intros k H; [reflexivity|].
  destruct k as [|y k]; [discriminate H|]. cbn [xor_list].
  rewrite N.lxor_assoc, N.lxor_nilpotent, N.lxor_0_r. rewrite IH; [reflexivity|]. cbn in H. lia.
Qed.

Lemma firstn_plus {A} : forall (a b : nat) (l : list A),
  firstn (a + b) l = firstn a l ++ firstn b (skipn a l).
Proof.
  induction a as [|a IH]; intros b l; [reflexivity|].
  destruct l as [|x l]; [cbn; rewrite firstn_nil; reflexivity|].
  cbn [Nat.add firstn skipn app]. rewrite IH. reflexivity.
Qed.

Lemma skipn_plus {A} : forall (a b : nat) (l : list A), skipn (a + b) l = skipn b (skipn a l).
Proof.
  induction a as [|a IH]; intros b l; [reflexivity|].
  destruct l as [|x l]; [cbn; rewrite skipn_nil; reflexivity|]. cbn [Nat.add skipn]. apply IH.
Qed.

Lemma list_as_nths : forall (l : list N), l = map (fun j => nth j l 0) (seq 0 (length l)).
Proof.
  induction l as [|x l IH]; [reflexivity|].
  cbn [length seq map nth]. f_equal. rewrite <- seq_shift, map_map. exact IH.
Qed.

Lemma N_seq_length : forall n off, length (N_seq off n) = n.
Proof. induction n as [|n IH]; intros off; [reflexivity|]. cbn [N_seq length]. rewrite IH. reflexivity. Qed.

Lemma N_seq_app : forall a b off, N_seq off (a + b) = N_seq off a ++ N_seq (off + N.of_nat a) b.
Proof.
  induction a as [|a IH]; intros b off.
  - cbn [N_seq app Nat.add]. rewrite N.add_0_r. reflexivity.
  - cbn [N_seq app Nat.add]. rewrite IH. do 3 f_equal. lia.
Qed.

Lemma N_seq_as_map : forall n off, N_seq off n = map (fun j => off + N.of_nat j) (seq 0 n).
Proof.
  induction n as [|n IH]; intros off; [reflexivity|].
  cbn [N_seq seq map]. f_equal; [lia|].
  rewrite IH, <- seq_shift, map_map. apply map_ext. intros j. lia.
Qed.

Lemma upd_length {A} : forall (l : list A) i v, length (upd l i v) = length l.
Proof.
  induction l as [|x l IH]; intros i v; [reflexivity|].
  destruct i; cbn [upd length]; [reflexivity | rewrite IH; reflexivity].
Qed.

Lemma upd_firstn {A} : forall (l : list A) i v n, (n <= i)%nat -> firstn n (upd l i v) = firstn n l.
Proof.
  induction l as [|x l IH]; intros i v n H; [reflexivity|].
  destruct n; [reflexivity|]. destruct i; [lia|]. cbn [upd firstn]. rewrite IH by lia. reflexivity.
Qed.

Lemma upd_nth_same {A} : forall (l : list A) i v d, (i < length l)%nat -> nth i (upd l i v) d = v.
Proof.
  induction l as [|x l IH]; intros i v d H; [cbn in H; lia|].
  destruct i; [reflexivity|]. cbn [upd nth]. apply IH. cbn in H. lia.
Qed.

(* writing the last byte of a 16-byte array *)
Lemma upd_15 : forall (l : list N) v, length l = 16%nat -> upd l 15 v = firstn 15 l ++ [v].
Proof.
  intros l v H.
  do 16 (destruct l as [|? l]; [discriminate H|]). destruct l; [|discriminate H]. reflexivity.
Qed.

(* ------------------------------------------------------------------ be64 *)
Definition hi7 (y : N) : list N := map (fun k => (y / 2 ^ (8 * k)) mod 256) [6; 5; 4; 3; 2; 1; 0].

Lemma be64_split x : be64 x = hi7 (x / 256) ++ [x mod 256].
Proof.
  unfold be64, hi7. cbn [map app].
  repeat (f_equal; [rewrite N.div_div by discriminate; reflexivity|]).
  f_equal. change (2 ^ (8 * 0)) with 1. rewrite N.div_1_r. reflexivity.
Qed.

Lemma be64_length x : length (be64 x) = 8%nat.
Proof. reflexivity. Qed.

Lemma hi7_length y : length (hi7 y) = 7%nat.
Proof. reflexivity. Qed.

(* incrementing without a carry out of the low byte changes only the low byte *)
Lemma be64_succ d : d mod 256 <> 255 -> be64 (d + 1) = firstn 7 (be64 d) ++ [d mod 256 + 1].
Proof.
  intros H. rewrite (be64_split d), (be64_split (d + 1)).
  rewrite firstn_app, hi7_length. change (7 - 7)%nat with 0%nat.
  rewrite firstn_O, app_nil_r.
  rewrite firstn_all2 by (rewrite hi7_length; lia).
  replace ((d + 1) / 256) with (d / 256) by lia.
  replace ((d + 1) mod 256) with (d mod 256 + 1) by lia.
  reflexivity.
Qed.

Lemma be64_last d : nth 7 (be64 d) 0 = d mod 256.
Proof. rewrite be64_split. rewrite app_nth2; rewrite hi7_length; [reflexivity | lia]. Qed.
