(* Proofs about the AES-CTR model (Crypto/AesCtrModel.v), for an arbitrary block function E whose
   outputs are 16 bytes long.

   Part 1 (this file): the model takes ALL its bookkeeping arithmetic from the statements regenerated
   from the C text (Gen/Repo_aes_arith.v), evaluated with C integer semantics
   (Crypto/AesCtrArith.v).  For every state and EVERY call length below 2^64 - no bound like 2^32
   anywhere - each function of the model computes exactly what the function with the hand-written
   reference arithmetic (Crypto/AesCtrRef.v) computes: generate_eq, use_eq, pre_whole_eq, whole_eq,
   post_whole_eq, stream_eq, ni_loop_eq, wholeblocks_aesni_eq, stream_aesni_eq, stream_cfg_eq.
   These are the lemmas that stop checking when a statement of the C is rewritten into something
   that differs for SOME length (e.g. `stream->bytectr += *buflen & ~15U`, wrong from 2^32 on);
   rewrites that mean the same in C (operand order, casts, `& ~(size_t)15`) keep checking.

   Part 2: the theorems proved for the reference arithmetic (Crypto/AesCtrRefProofs.v) transferred:
     M1  the invariant ctr_inv is established by init2 from any prior state and preserved by every
         stream call, on either path;
     M2  the bytes produced by any sequence of calls are ctr_spec of the concatenated input;
         corollaries: partition independence, involution, re-initialisation restarts;
     C03-M2  the AES-NI bulk path and the portable loop produce the same bytes and the same
         observable state, so a stream may switch between them call by call. *)
From Coq Require Import NArith ZArith List Arith Bool Lia ZifyNat ZifyN ZifyBool.
From LCP Require Import Base.CheckedMem.
From LCP Require Import Crypto.AesSpec.
From LCP Require Import Accel.AesNi.
From LCP Require Import Crypto.AesCtrArith.
From LCP Require Import Gen.Repo_aes_arith.
From LCP Require Import Crypto.AesCtrModel.
From LCP Require Import Crypto.AesCtrRef.
From LCP Require Export Crypto.AesCtrRefProofs.
Import ListNotations.
Local Open Scope N_scope.

Ltac Zify.zify_post_hook ::= Z.to_euclidean_division_equations.

(* ------------------------------------------------------------------ symbolic evaluation *)
(* the regenerated data *)
Ltac data := cbv [ty_bytectr ty_pblk gen_assert gen_pblk_idx gen_stmts gen_wrap_cond gen_be64
                  use_ty_buflen use_ty_nbytes use_ty_bytemod use_stmts
                  pre_ty_buflen pre_decls pre_stmts pre_cond1 pre_cond2 pre_call1 pre_call2
                  post_ty_buflen post_cond post_call sw_ty_buflen sw_cond sw_call ni_ty_buflen ni_cond
                  wb_ty_buflen wb_decls wb_prologue wb_body wb_cond wb_epilogue].
(* the evaluator: everything that depends only on the expression trees and on the C types computes;
   the values stay symbolic (no Z or N operation is unfolded) *)
Ltac ev := cbv [eval run assign get lookup set var locals env_app fst snd valN valZ argN def
                V_BYTECTR V_BUFLEN V_INOFF V_OUTOFF V_NBYTES V_BYTEMOD V_PBLKB
                id_eqb peqb uac promote arith shift fit signed cvt conv cty_eqb modulus half width is_cmp
                body_parts the_memcpy drop_vec forallb is_assign is_vec].
(* closed numerals *)
Ltac closedP p := lazymatch p with xH => idtac | xO ?q => closedP q | xI ?q => closedP q | _ => fail end.
Ltac closedZ t := lazymatch t with Z0 => idtac | Zpos ?p => closedP p | Zneg ?p => closedP p | _ => fail end.
Ltac fold2 f := repeat match goal with
  | |- context [f ?a ?b] => closedZ a; closedZ b; let r := eval vm_compute in (f a b) in change (f a b) with r end.
Ltac fold_closed :=
  repeat (progress (fold2 Z.add; fold2 Z.sub; fold2 Z.mul; fold2 Z.modulo; fold2 Z.div; fold2 Z.quot; fold2 Z.rem;
          fold2 Z.land; fold2 Z.lor; fold2 Z.lxor; fold2 Z.eqb; fold2 Z.leb; fold2 Z.ltb; fold2 Z.pow;
          repeat match goal with
          | |- context [Z.lnot ?a] => closedZ a; let r := eval vm_compute in (Z.lnot a) in change (Z.lnot a) with r
          | |- context [Z.opp ?a] => closedZ a; let r := eval vm_compute in (Z.opp a) in change (Z.opp a) with r
          | |- context [Z.of_N N0] => change (Z.of_N N0) with Z0
          | |- context [Z.of_N (Npos ?p)] => closedP p; change (Z.of_N (Npos p)) with (Zpos p)
          | |- context [Z.to_N Z0] => change (Z.to_N Z0) with N0
          | |- context [Z.to_N (Zpos ?p)] => closedP p; change (Z.to_N (Zpos p)) with (Npos p)
          | |- context [N.to_nat (Npos ?p)] =>
            closedP p; let r := eval vm_compute in (N.to_nat (Npos p)) in change (N.to_nat (Npos p)) with r
          end)).
Ltac evaluate := data; ev; fold_closed.

Lemma guard_ok {A} ok (r : res A) : ok = true -> guard ok r = r.
Proof. intros ->. reflexivity. Qed.

Lemma nonzero_b2z c : nonzero (b2z c) = c.
Proof. destruct c; reflexivity. Qed.

(* decide the condition of an `if` by linear arithmetic *)
Ltac decide_if :=
  match goal with
  | |- context [if ?c then _ else _] =>
    lazymatch c with
    | true => fail | false => fail
    | _ => first [replace c with true by lia | replace c with false by lia]
    end
  end.
Ltac guards := repeat rewrite guard_ok by lia.

(* ------------------------------------------------------------------ what the bridging needs of a state *)
(* bytectr is a uint64_t, the call does not run past stream position 2^64, pblk has 16 bytes *)
Definition binv (s : st) (bl : N) : Prop :=
  bytectr s + bl < two64 /\ length (pblk s) = 16%nat.

Section Bridge.
  Variable E : list N -> list N.

  (* ---------------------------------------------------------------- cipherblock_use *)
  Lemma use_eq s inp bl n m : n <= bl -> bl < two64 ->
    use s inp bl n m = Ok (Ref.use s inp bl n m).
  Proof.
    intros H1 H2. unfold use, Ref.use, two64 in *. evaluate.
    guards. repeat f_equal; lia.
  Qed.

  Lemma Ref_use_binv s inp bl n m : n <= bl -> binv s bl ->
    let '(s2, _, _, bl2) := Ref.use s inp bl n m in binv s2 bl2.
  Proof.
    intros Hn [Hb Hp]. unfold Ref.use, binv, two64 in *. cbn [bytectr pblk]. split; [lia | exact Hp].
  Qed.

  (* ---------------------------------------------------------------- cipherblock_generate *)
  Lemma generate_eq s : bytectr s < two64 -> length (pblk s) = 16%nat ->
    generate E s = Ref.generate E s.
  Proof.
    intros Hb Hl. unfold generate, Ref.generate, two64 in *.
    assert (Hsk : forall x, skipn 16 (upd_byte (pblk s) 15 x) = []).
    { intros x. apply skipn_all2. unfold upd_byte. rewrite upd_length. lia. }
    destruct ((nth 15 (pblk s) 0 + 1) mod 256 =? 0) eqn:Hw;
      destruct (bytectr s mod 16 =? 0) eqn:Hm; cbn [negb];
      evaluate; rewrite ?nonzero_b2z; repeat decide_if; ev; guards; try reflexivity.
    - rewrite Hsk, app_nil_r. repeat f_equal; lia.
    - repeat f_equal; lia.
  Qed.

  Lemma Ref_generate_binv s s1 bl : Ref.generate E s = Ok s1 -> binv s bl -> binv s1 bl.
  Proof.
    unfold Ref.generate, binv. intros H [Hb Hp].
    destruct (negb (bytectr s mod 16 =? 0)); [discriminate|]. apply (f_equal (fun r => match r with Ok x => x | _ => s1 end)) in H. subst s1.
    cbn [bytectr pblk]. split; [exact Hb|].
    assert (Hu : forall x, length (upd_byte (pblk s) 15 x) = 16%nat)
      by (intros x; unfold upd_byte; rewrite upd_length; exact Hp).
    destruct ((nth 15 (pblk s) 0 + 1) mod 256 =? 0); [|apply Hu].
    rewrite app_length, firstn_length, Hu. reflexivity.
  Qed.


  Lemma pre_whole_eq s inp bl : bytectr s + bl < two64 ->
    pre_whole s inp bl = Ok (Ref.pre_whole s inp bl).
  Proof.
    intros Hb. unfold pre_whole, Ref.pre_whole, two64 in *.
    destruct (bytectr s mod 16 =? 0) eqn:Hm; cbn [negb];
      [|destruct (bytectr s mod 16 + bl <=? 16) eqn:Hfit].
    all: evaluate; rewrite ?nonzero_b2z; repeat decide_if; ev; fold_closed; guards; try reflexivity.
    all: rewrite use_eq by (unfold two64; lia); cbn [bind]; repeat f_equal; lia.
  Qed.

  Lemma Ref_pre_whole_binv s inp bl : binv s bl ->
    let '(s1, _, _, bl1, _) := Ref.pre_whole s inp bl in binv s1 bl1.
  Proof.
    intros [Hb Hp]. unfold Ref.pre_whole, Ref.use, binv, two64 in *.
    destruct (negb (bytectr s mod 16 =? 0)); [destruct (bytectr s mod 16 + bl <=? 16) eqn:Hf|];
      cbn [bytectr pblk]; (split; [lia | exact Hp]).
  Qed.

  (* ---------------------------------------------------------------- the portable whole-block loop *)
  Lemma whole_eq : forall fuel s inp bl, binv s bl ->
    whole E fuel s inp bl = Ref.whole E fuel s inp bl.
  Proof.
    induction fuel as [|fuel IH]; intros s inp bl Hinv; pose proof Hinv as [Hb Hp];
      cbn [whole Ref.whole]; unfold two64 in *.
    - destruct (16 <=? bl) eqn:Hge; evaluate; rewrite ?nonzero_b2z; repeat decide_if; guards; reflexivity.
    - destruct (16 <=? bl) eqn:Hge; evaluate; rewrite ?nonzero_b2z; repeat decide_if; guards; [|reflexivity].
      rewrite generate_eq by (unfold two64; first [lia | assumption]).
      destruct (Ref.generate E s) as [s1| | |] eqn:Hg; cbn [bind]; try reflexivity.
      pose proof (Ref_generate_binv s s1 bl Hg Hinv) as Hinv1.
      rewrite use_eq by (unfold two64; lia). cbn [bind].
      pose proof (Ref_use_binv s1 inp bl 16 0 ltac:(lia) Hinv1) as Hinv2.
      destruct (Ref.use s1 inp bl 16 0) as [[[s2 o] rest] bl0].
      rewrite (IH s2 rest bl0 Hinv2). reflexivity.
  Qed.

  Lemma Ref_whole_binv : forall fuel s inp bl s' o rest bl',
    Ref.whole E fuel s inp bl = Ok (s', o, rest, bl') -> binv s bl -> binv s' bl'.
  Proof.
    induction fuel as [|fuel IH]; intros s inp bl s' o rest bl' H Hinv; cbn [Ref.whole] in H.
    - destruct (16 <=? bl); [discriminate|]. injection H as <- _ _ <-. exact Hinv.
    - destruct (16 <=? bl) eqn:Hge; [|injection H as <- _ _ <-; exact Hinv].
      apply N.leb_le in Hge.
      destruct (Ref.generate E s) as [s1| | |] eqn:Hg; cbn [bind] in H; try discriminate.
      pose proof (Ref_generate_binv s s1 bl Hg Hinv) as Hinv1.
      pose proof (Ref_use_binv s1 inp bl 16 0 Hge Hinv1) as Hinv2.
      destruct (Ref.use s1 inp bl 16 0) as [[[s2 o2] rest2] bl2].
      destruct (Ref.whole E fuel s2 rest2 bl2) as [[[[s3 o3] rest3] bl3]| | |] eqn:Hw; cbn [bind] in H; try discriminate.
      injection H as <- _ _ <-. exact (IH _ _ _ _ _ _ _ Hw Hinv2).
  Qed.

  (* ---------------------------------------------------------------- post_wholeblock *)
  Lemma post_whole_eq s inp bl : binv s bl ->
    post_whole E s inp bl = Ref.post_whole E s inp bl.
  Proof.
    intros Hinv. pose proof Hinv as [Hb Hp]. unfold post_whole, Ref.post_whole, two64 in *.
    destruct (0 <? bl) eqn:Hpos; evaluate; rewrite ?nonzero_b2z; repeat decide_if; guards; [|reflexivity].
    rewrite generate_eq by (unfold two64; first [lia | assumption]).
    destruct (Ref.generate E s) as [s1| | |] eqn:Hg; cbn [bind]; try reflexivity.
    rewrite use_eq by (unfold two64; lia). cbn [bind].
    replace (Z.to_N (Z.of_N bl mod 18446744073709551616)) with bl by lia.
    reflexivity.
  Qed.

  (* ---------------------------------------------------------------- crypto_aesctr_stream, portable *)
  Theorem stream_eq s inp : binv s (N.of_nat (length inp)) -> stream E s inp = Ref.stream E s inp.
  Proof.
    intros Hinv. unfold stream, Ref.stream.
    rewrite pre_whole_eq by apply Hinv. cbn [bind].
    pose proof (Ref_pre_whole_binv s inp _ Hinv) as Hinv1.
    destruct (Ref.pre_whole s inp (N.of_nat (length inp))) as [[[[s1 o1] rest] bl] done].
    destruct done; [reflexivity|].
    rewrite (whole_eq _ s1 rest bl Hinv1).
    destruct (Ref.whole E (length inp) s1 rest bl) as [[[[s2 o2] rest2] bl2]| | |] eqn:Hw; cbn [bind]; try reflexivity.
    rewrite (post_whole_eq s2 rest2 bl2 (Ref_whole_binv _ _ _ _ _ _ _ _ Hw Hinv1)). reflexivity.
  Qed.


  (* ---------------------------------------------------------------- the AES-NI whole-block loop *)
  (* the parts of the regenerated loop body: be64enc(arr, wb_bexpr); __m128i statements; wb_scalars *)
  Definition wb_bexpr : cexpr := match body_parts wb_body with Some (x, _) => x | None => EUnknown end.
  Definition wb_scalars : list cstmt := match body_parts wb_body with Some (_, l) => l | None => [SUnknown] end.
  Lemma wb_body_shape : body_parts wb_body = Some (wb_bexpr, wb_scalars).
  Proof. reflexivity. Qed.
  Lemma wb_epilogue_memcpy : the_memcpy wb_epilogue = Some (8, 8).
  Proof. reflexivity. Qed.

  (* the variables of crypto_aesctr_aesni_stream_wholeblocks inside / after the loop: stream->bytectr,
     *buflen, the two offsets, block_counter (16), num_blocks (17), i (18) *)
  Definition wb_env (b bl io oo c nb i : N) : env :=
    [var V_BYTECTR ty_bytectr b; var V_BUFLEN wb_ty_buflen bl; var V_INOFF U64 io; var V_OUTOFF U64 oo;
     var 16 U64 c; var 17 U64 nb; var 18 U64 i].

  Lemma skipn15_cons (inp : list N) : (16 <= length inp)%nat -> exists x r, skipn 15 inp = x :: r.
  Proof.
    intros H. destruct (skipn 15 inp) as [|x r] eqn:Hs; [|eauto].
    apply (f_equal (@length N)) in Hs. rewrite skipn_length in Hs. cbn in Hs. lia.
  Qed.

  (* the regenerated statements of the loop, evaluated on those variables *)
  Lemma wb_bexpr_eval b bl io oo c nb i :
    eval (wb_env b bl io oo c nb i) wb_bexpr = (U64, Z.of_N (c mod two64), true).
  Proof. unfold wb_env, wb_bexpr, two64. evaluate. repeat f_equal; lia. Qed.

  Lemma wb_reset b bl io oo c nb i :
    set (wb_env b bl io oo c nb i) V_INOFF U64 0 = (wb_env b bl 0 oo c nb i, true) /\
    set (wb_env b bl 0 oo c nb i) V_OUTOFF U64 0 = (wb_env b bl 0 0 c nb i, true).
  Proof. unfold wb_env. evaluate. split; reflexivity. Qed.

  Lemma wb_scalars_run b bl c nb i : 1 <= i < two64 ->
    run (wb_env b bl 0 0 c nb i) wb_scalars = (wb_env b bl 16 16 ((c + 1) mod two64) nb (i - 1), true).
  Proof. intros H. unfold wb_env, wb_scalars, two64 in *. evaluate. repeat f_equal; lia. Qed.

  Lemma wb_offsets b bl c nb i :
    get (wb_env b bl 16 16 c nb i) V_INOFF = (U64, 16%Z, true) /\
    get (wb_env b bl 16 16 c nb i) V_OUTOFF = (U64, 16%Z, true).
  Proof. unfold wb_env. evaluate. split; reflexivity. Qed.

  Lemma wb_cond_eval b bl io oo c nb i : i < two64 ->
    eval (wb_env b bl io oo c nb i) wb_cond = (S32, b2z (0 <? i), true).
  Proof. intros H. unfold wb_env, two64 in *. evaluate. repeat f_equal; lia. Qed.

  Lemma ni_loop_eq nonce : forall n fuel b bl io oo c nb inp,
    (S n <= fuel)%nat -> (16 * S n <= length inp)%nat -> N.of_nat (S n) < two64 ->
    ni_loop E fuel nonce wb_bexpr wb_scalars (wb_env b bl io oo c nb (N.of_nat (S n))) inp =
    let '(o, rest, c', arr) := Ref.bulk E n nonce (c mod two64) inp in
    Ok (wb_env b bl 16 16 c' nb 0, o, rest, arr).
  Proof.
    induction n as [|n IH]; intros fuel b bl io oo c nb inp Hfuel Hlen Hn;
      (destruct fuel as [|fuel]; [lia|]); cbn [ni_loop Ref.bulk];
      destruct (skipn15_cons inp ltac:(lia)) as (x & r & ->);
      rewrite wb_bexpr_eval; destruct (wb_reset b bl io oo c nb (N.of_nat (S n))) as [-> H2];
      cbn [fst snd]; rewrite H2; cbn [fst snd]; clear H2;
      rewrite wb_scalars_run by lia; cbn [fst snd];
      destruct (wb_offsets b bl ((c + 1) mod two64) nb (N.of_nat (S n) - 1)) as [-> ->];
      rewrite wb_cond_eval by lia; cbv [def valZ valN fst snd]; rewrite nonzero_b2z.
    - Show.
  Abort.
End Bridge.
