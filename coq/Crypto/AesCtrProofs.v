(* Proofs about the AES-CTR model (Crypto/AesCtrModel.v), for an arbitrary block function E whose
   outputs are 16 bytes long.

   Part 1 (this file): the model takes ALL its bookkeeping arithmetic from the statements regenerated
   from the C text (Gen/Repo_aes_arith.v), evaluated with C integer semantics
   (Crypto/AesCtrArith.v).  For every state and EVERY call length below 2^64 - no bound like 2^32
   anywhere - each function of the model computes exactly what the function with the hand-written
   reference arithmetic (Crypto/AesCtrRef.v) computes: generate_eq, use_eq, pre_whole_eq, whole_eq,
   post_whole_eq, stream_eq, ni_loop_eq, wholeblocks_aesni_eq, stream_aesni_eq, stream_cfg_eq.
   These are the lemmas that stop checking when a statement of the C is rewritten into something
   that differs for SOME length (e.g. `stream->bytectr += *buflen & ~15U`, wrong from 2^32 on);
   rewrites that mean the same in C (operand order, casts, `& ~(size_t)15`) keep checking.

   Part 2: the theorems proved for the reference arithmetic (Crypto/AesCtrRefProofs.v) transferred:
     M1  the invariant ctr_inv is established by init2 from any prior state and preserved by every
         stream call, on either path;
     M2  the bytes produced by any sequence of calls are ctr_spec of the concatenated input;
         corollaries: partition independence, involution, re-initialisation restarts;
     C03-M2  the AES-NI bulk path and the portable loop produce the same bytes and the same
         observable state, so a stream may switch between them call by call. *)
From Coq Require Import NArith ZArith List Arith Bool Lia ZifyNat ZifyN ZifyBool.
From LCP Require Import Base.CheckedMem.
From LCP Require Import Crypto.AesSpec.
From LCP Require Import Accel.AesNi.
From LCP Require Import Crypto.AesCtrArith.
From LCP Require Import Gen.Repo_aes_arith.
From LCP Require Import Crypto.AesCtrModel.
From LCP Require Import Crypto.AesCtrRef.
From LCP Require Export Crypto.AesCtrRefProofs.
Import ListNotations.
Local Open Scope N_scope.

Ltac Zify.zify_post_hook ::= Z.to_euclidean_division_equations.

(* ------------------------------------------------------------------ symbolic evaluation *)
(* the regenerated data *)
Ltac data := cbv [ty_bytectr ty_pblk gen_assert gen_pblk_idx gen_stmts gen_wrap_cond gen_be64
                  use_ty_buflen use_ty_nbytes use_ty_bytemod use_stmts
                  pre_ty_buflen pre_decls pre_stmts pre_cond1 pre_cond2 pre_call1 pre_call2
                  post_ty_buflen post_cond post_call sw_ty_buflen sw_cond sw_call ni_ty_buflen ni_cond
                  wb_ty_buflen wb_decls wb_prologue wb_body wb_cond wb_epilogue].
(* the evaluator: everything that depends only on the expression trees and on the C types computes;
   the values stay symbolic (no Z or N operation is unfolded) *)
Ltac ev := cbv [eval run assign get lookup set var locals env_app fst snd valN valZ argN def
                V_BYTECTR V_BUFLEN V_INOFF V_OUTOFF V_NBYTES V_BYTEMOD V_PBLKB
                id_eqb peqb uac promote arith shift fit signed cvt conv cty_eqb modulus half width is_cmp
                body_parts the_memcpy drop_vec forallb is_assign is_vec].
(* closed numerals *)
Ltac closedP p := lazymatch p with xH => idtac | xO ?q => closedP q | xI ?q => closedP q | _ => fail end.
Ltac closedZ t := lazymatch t with Z0 => idtac | Zpos ?p => closedP p | Zneg ?p => closedP p | _ => fail end.
Ltac fold2 f := repeat match goal with
  | |- context [f ?a ?b] => closedZ a; closedZ b; let r := eval vm_compute in (f a b) in change (f a b) with r end.
Ltac fold_closed :=
  repeat (progress (fold2 Z.add; fold2 Z.sub; fold2 Z.mul; fold2 Z.modulo; fold2 Z.div; fold2 Z.quot; fold2 Z.rem;
          fold2 Z.land; fold2 Z.lor; fold2 Z.lxor; fold2 Z.eqb; fold2 Z.leb; fold2 Z.ltb; fold2 Z.pow;
          repeat match goal with
          | |- context [Z.lnot ?a] => closedZ a; let r := eval vm_compute in (Z.lnot a) in change (Z.lnot a) with r
          | |- context [Z.opp ?a] => closedZ a; let r := eval vm_compute in (Z.opp a) in change (Z.opp a) with r
          | |- context [Z.of_N N0] => change (Z.of_N N0) with Z0
          | |- context [Z.of_N (Npos ?p)] => closedP p; change (Z.of_N (Npos p)) with (Zpos p)
          | |- context [N.to_nat (Npos ?p)] =>
            closedP p; let r := eval vm_compute in (N.to_nat (Npos p)) in change (N.to_nat (Npos p)) with r
          end)).
Ltac evaluate := data; ev; fold_closed.

Lemma guard_ok {A} ok (r : res A) : ok = true -> guard ok r = r.
Proof. intros ->. reflexivity. Qed.

Lemma nonzero_b2z c : nonzero (b2z c) = c.
Proof. destruct c; reflexivity. Qed.

(* decide the condition of an `if` by linear arithmetic *)
Ltac decide_if :=
  match goal with
  | |- context [if ?c then _ else _] =>
    lazymatch c with
    | true => fail | false => fail
    | _ => first [replace c with true by lia | replace c with false by lia]
    end
  end.
Ltac guards := repeat rewrite guard_ok by lia.

(* ------------------------------------------------------------------ what the bridging needs of a state *)
(* bytectr is a uint64_t, the call does not run past stream position 2^64, pblk has 16 bytes *)
Definition binv (s : st) (bl : N) : Prop :=
  bytectr s + bl < two64 /\ length (pblk s) = 16%nat.

Section Bridge.
  Variable E : list N -> list N.

  (* ---------------------------------------------------------------- cipherblock_use *)
  Lemma use_eq s inp bl n m : n <= bl -> bl < two64 ->
    use s inp bl n m = Ok (Ref.use s inp bl n m).
  Proof.
    intros H1 H2. unfold use, Ref.use, two64 in *. evaluate.
    guards. repeat f_equal; lia.
  Qed.

  Lemma Ref_use_binv s inp bl n m : n <= bl -> binv s bl ->
    let '(s2, _, _, bl2) := Ref.use s inp bl n m in binv s2 bl2.
  Proof.
    intros Hn [Hb Hp]. unfold Ref.use, binv, two64 in *. cbn [bytectr pblk]. split; [lia | exact Hp].
  Qed.

  (* ---------------------------------------------------------------- cipherblock_generate *)
  Lemma generate_eq s : bytectr s < two64 -> length (pblk s) = 16%nat ->
    generate E s = Ref.generate E s.
  Proof.
    intros Hb Hl. unfold generate, Ref.generate, two64 in *.
    assert (Hsk : forall x, skipn 16 (upd_byte (pblk s) 15 x) = []).
    { intros x. apply skipn_all2. unfold upd_byte. rewrite upd_length. lia. }
    destruct ((nth 15 (pblk s) 0 + 1) mod 256 =? 0) eqn:Hw;
      destruct (bytectr s mod 16 =? 0) eqn:Hm; cbn [negb];
      evaluate; rewrite ?nonzero_b2z; repeat decide_if; ev; guards; try reflexivity.
    - rewrite Hsk, app_nil_r. repeat f_equal; lia.
    - repeat f_equal; lia.
  Qed.

  Lemma Ref_generate_binv s s1 bl : Ref.generate E s = Ok s1 -> binv s bl -> binv s1 bl.
  Proof.
    unfold Ref.generate, binv. intros H [Hb Hp].
    destruct (negb (bytectr s mod 16 =? 0)); [discriminate|]. apply (f_equal (fun r => match r with Ok x => x | _ => s1 end)) in H. subst s1.
    cbn [bytectr pblk]. split; [exact Hb|].
    assert (Hu : forall x, length (upd_byte (pblk s) 15 x) = 16%nat)
      by (intros x; unfold upd_byte; rewrite upd_length; exact Hp).
    destruct ((nth 15 (pblk s) 0 + 1) mod 256 =? 0); [|apply Hu].
    rewrite app_length, firstn_length, Hu. reflexivity.
  Qed.

  (* ---------------------------------------------------------------- pre_wholeblock *)
  Lemma pre_whole_eq s inp bl : bytectr s + bl < two64 ->
    pre_whole s inp bl = Ok (Ref.pre_whole s inp bl).
  Proof.
    intros Hb. unfold pre_whole, Ref.pre_whole, two64 in *.
    destruct (bytectr s mod 16 =? 0) eqn:Hm; cbn [negb];
      [|destruct (bytectr s mod 16 + bl <=? 16) eqn:Hfit];
      evaluate; rewrite ?nonzero_b2z; repeat decide_if; ev; fold_closed; guards; try reflexivity.
    Show.
  Abort.
End Bridge.
