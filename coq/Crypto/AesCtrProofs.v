(* Proofs about the AES-CTR model (Crypto/AesCtrModel.v), for an arbitrary block function E whose
   outputs are 16 bytes long.

   Part 1 (this file): the model takes ALL its bookkeeping arithmetic from the statements regenerated
   from the C text (Gen/Repo_aes_arith.v), evaluated with C integer semantics
   (Crypto/AesCtrArith.v).  For every state and EVERY call length below 2^64 - no bound like 2^32
   anywhere - each function of the model computes exactly what the function with the hand-written
   reference arithmetic (Crypto/AesCtrRef.v) computes: generate_eq, use_eq, pre_whole_eq, whole_eq,
   post_whole_eq, stream_eq, ni_loop_eq, wholeblocks_aesni_eq, stream_aesni_eq, stream_cfg_eq.
   These are the lemmas that stop checking when a statement of the C is rewritten into something
   that differs for SOME length (e.g. `stream->bytectr += *buflen & ~15U`, wrong from 2^32 on);
   rewrites that mean the same in C (operand order, casts, `& ~(size_t)15`) keep checking.

   Part 2: the theorems proved for the reference arithmetic (Crypto/AesCtrRefProofs.v) transferred:
     M1  the invariant ctr_inv is established by init2 from any prior state and preserved by every
         stream call, on either path;
     M2  the bytes produced by any sequence of calls are ctr_spec of the concatenated input;
         corollaries: partition independence, involution, re-initialisation restarts;
     C03-M2  the AES-NI bulk path and the portable loop produce the same bytes and the same
         observable state, so a stream may switch between them call by call. *)
From Coq Require Import NArith ZArith List Arith Bool Lia ZifyNat ZifyN ZifyBool.
From LCP Require Import Base.CheckedMem.
From LCP Require Import Crypto.AesSpec.
From LCP Require Import Accel.AesNi.
From LCP Require Import Crypto.AesCtrArith.
From LCP Require Import Gen.Repo_aes_arith.
From LCP Require Import Crypto.AesCtrModel.
From LCP Require Import Crypto.AesCtrRef.
From LCP Require Export Crypto.AesCtrRefProofs.
Import ListNotations.
Local Open Scope N_scope.
Local Open Scope res_scope.

Ltac Zify.zify_post_hook ::= Z.to_euclidean_division_equations.

(* ------------------------------------------------------------------ symbolic evaluation *)
(* the regenerated data *)
Ltac data := cbv [ty_bytectr ty_pblk gen_assert gen_pblk_idx gen_stmts gen_wrap_cond gen_be64
                  use_ty_buflen use_ty_nbytes use_ty_bytemod use_stmts
                  pre_ty_buflen pre_decls pre_stmts pre_cond1 pre_cond2 pre_call1 pre_call2
                  post_ty_buflen post_cond post_call sw_ty_buflen sw_early sw_cond sw_call ni_ty_buflen ni_early ni_cond
                  wb_ty_buflen wb_decls wb_prologue wb_body wb_cond wb_epilogue].
(* the evaluator: everything that depends only on the expression trees and on the C types computes;
   the values stay symbolic (no Z or N operation is unfolded) *)
Ltac ev := cbv [eval run assign get lookup set var locals env_app fst snd valN valZ argN def
                V_BYTECTR V_BUFLEN V_INOFF V_OUTOFF V_NBYTES V_BYTEMOD V_PBLKB
                id_eqb peqb uac promote arith shift fit signed cvt conv cty_eqb modulus half width is_cmp
                renv rdef rok any_true body_parts count_writeback writeback drop_vec all_scalar].
(* closed numerals *)
Ltac closedP p := lazymatch p with xH => idtac | xO ?q => closedP q | xI ?q => closedP q | _ => fail end.
Ltac closedZ t := lazymatch t with Z0 => idtac | Zpos ?p => closedP p | Zneg ?p => closedP p | _ => fail end.
Ltac fold2 f := repeat match goal with
  | |- context [f ?a ?b] => closedZ a; closedZ b; let r := eval vm_compute in (f a b) in change (f a b) with r end.
Ltac fold_closed :=
  repeat (progress (fold2 Z.add; fold2 Z.sub; fold2 Z.mul; fold2 Z.modulo; fold2 Z.div; fold2 Z.quot; fold2 Z.rem;
          fold2 Z.land; fold2 Z.lor; fold2 Z.lxor; fold2 Z.eqb; fold2 Z.leb; fold2 Z.ltb; fold2 Z.pow;
          repeat match goal with
          | |- context [Z.lnot ?a] => closedZ a; let r := eval vm_compute in (Z.lnot a) in change (Z.lnot a) with r
          | |- context [Z.opp ?a] => closedZ a; let r := eval vm_compute in (Z.opp a) in change (Z.opp a) with r
          | |- context [Z.of_N N0] => change (Z.of_N N0) with Z0
          | |- context [Z.of_N (Npos ?p)] => closedP p; change (Z.of_N (Npos p)) with (Zpos p)
          | |- context [Z.to_N Z0] => change (Z.to_N Z0) with N0
          | |- context [Z.to_N (Zpos ?p)] => closedP p; change (Z.to_N (Zpos p)) with (Npos p)
          | |- context [N.to_nat (Npos ?p)] =>
            closedP p; let r := eval vm_compute in (N.to_nat (Npos p)) in change (N.to_nat (Npos p)) with r
          end)).

(* equal data constructors / list and byte functions: compare the arguments; arithmetic (and boolean
   comparisons of numbers) is left whole for lia *)
Ltac head_of t := lazymatch t with ?f _ => head_of f | _ => t end.
Ltac is_arith h :=
  lazymatch h with
  | Z.add => idtac | Z.sub => idtac | Z.mul => idtac | Z.modulo => idtac | Z.div => idtac | Z.opp => idtac
  | Z.quot => idtac | Z.rem => idtac | Z.land => idtac | Z.lor => idtac | Z.lxor => idtac | Z.lnot => idtac
  | Z.shiftl => idtac | Z.shiftr => idtac | Z.pow => idtac | Z.of_N => idtac | Z.to_N => idtac
  | Z.of_nat => idtac | Z.to_nat => idtac | N.of_nat => idtac | N.to_nat => idtac
  | N.add => idtac | N.sub => idtac | N.mul => idtac | N.modulo => idtac | N.div => idtac
  | Z.eqb => idtac | Z.leb => idtac | Z.ltb => idtac | N.eqb => idtac | N.leb => idtac | N.ltb => idtac
  | negb => idtac | andb => idtac | orb => idtac
  | Z0 => idtac | Zpos => idtac | Zneg => idtac | N0 => idtac | Npos => idtac
  | _ => fail
  end.
Ltac struct_eq :=
  try reflexivity;
  lazymatch goal with
  | |- ?l = _ =>
    let h := head_of l in
    tryif is_arith h then idtac else first [progress f_equal; struct_eq | idtac]
  | |- _ => idtac
  end.
(* masks: x & m for a constant m whose set bits are contiguous (bits lo .. hi-1) is
   ((x mod 2^hi) / 2^lo) * 2^lo; shifts by constants are multiplications / divisions *)
Lemma land_mask x lo hi : (0 <= lo <= hi)%Z ->
  Z.land x (Z.shiftl (Z.ones (hi - lo)) lo) = Z.shiftl (Z.shiftr (x mod 2 ^ hi) lo) lo.
Proof.
  intros H. apply Z.bits_inj'. intros n Hn. rewrite Z.land_spec.
  destruct (Z.lt_ge_cases n lo).
  - rewrite !Z.shiftl_spec_low by lia. apply andb_false_r.
  - rewrite !Z.shiftl_spec by lia. rewrite Z.shiftr_spec by lia. replace (n - lo + lo)%Z with n by lia.
    destruct (Z.lt_ge_cases n hi).
    + rewrite Z.ones_spec_low by lia. rewrite Z.mod_pow2_bits_low by lia. apply andb_true_r.
    + rewrite Z.ones_spec_high by lia. rewrite Z.mod_pow2_bits_high by lia. apply andb_false_r.
Qed.

Fixpoint ptz (p : positive) : Z := match p with xO q => (1 + ptz q)%Z | _ => 0%Z end.

Ltac mask_norm :=
  repeat match goal with
  | |- context [Z.land (Zpos ?p) ?x] =>
    closedP p; lazymatch x with Zpos _ => fail | _ => rewrite (Z.land_comm (Zpos p) x) end
  | |- context [Z.land ?x (Zpos ?p)] =>
    closedP p;
    let lo := eval vm_compute in (ptz p) in
    let hi := eval vm_compute in (Z.log2 (Zpos p) + 1)%Z in
    replace (Zpos p) with (Z.shiftl (Z.ones (hi - lo)) lo) by (vm_compute; reflexivity);
    rewrite (land_mask x lo hi) by lia
  end;
  rewrite ?Z.shiftr_div_pow2, ?Z.shiftl_mul_pow2 by lia.
Ltac bools := cbn [negb andb orb].
Ltac evaluate := data; ev; fold_closed; mask_norm; fold_closed; bools.
Ltac arith_eq := struct_eq; try lia.

Lemma guard_ok {A} ok (r : res A) : ok = true -> guard ok r = r.
Proof. intros ->. reflexivity. Qed.

Lemma nonzero_b2z c : nonzero (b2z c) = c.
Proof. destruct c; reflexivity. Qed.

(* decide the condition of an `if` by linear arithmetic *)
Ltac decide_if :=
  match goal with
  | |- context [if ?c then _ else _] =>
    lazymatch c with
    | true => fail | false => fail
    | _ => first [replace c with true by lia | replace c with false by lia]
    end
  end.
Lemma b2z_nz c : negb (b2z c =? 0)%Z = c.
Proof. destruct c; reflexivity. Qed.
Ltac guards := repeat rewrite guard_ok by lia.
(* conditions of the regenerated code, decided from the case at hand *)
Ltac conds := rewrite ?nonzero_b2z, ?b2z_nz; unfold nonzero; rewrite ?b2z_nz;
              repeat (decide_if; ev; bools; rewrite ?b2z_nz).

(* ------------------------------------------------------------------ what the bridging needs of a state *)
(* bytectr is a uint64_t, the call does not run past stream position 2^64, pblk has 16 bytes *)
Definition binv (s : st) (bl : N) : Prop :=
  bytectr s + bl < two64 /\ length (pblk s) = 16%nat.

Section Bridge.
  Variable E : list N -> list N.

  (* ---------------------------------------------------------------- cipherblock_use *)
  Lemma use_eq s inp bl n m : n <= bl -> bl < two64 ->
    use s inp bl n m = Ok (Ref.use s inp bl n m).
  Proof.
    intros H1 H2. unfold use, Ref.use, two64 in *. evaluate. conds.
    guards. arith_eq.
  Qed.

  Lemma Ref_use_binv s inp bl n m : n <= bl -> binv s bl ->
    let '(s2, _, _, bl2) := Ref.use s inp bl n m in binv s2 bl2.
  Proof.
    intros Hn [Hb Hp]. unfold Ref.use, binv, two64 in *. cbn [bytectr pblk]. split; [lia | exact Hp].
  Qed.

  (* ---------------------------------------------------------------- cipherblock_generate *)
  Lemma generate_eq s : bytectr s < two64 -> length (pblk s) = 16%nat ->
    generate E s = Ref.generate E s.
  Proof.
    intros Hb Hl. unfold generate, Ref.generate, two64 in *.
    assert (Hsk : forall x, skipn 16 (upd_byte (pblk s) 15 x) = []).
    { intros x. apply skipn_all2. unfold upd_byte. rewrite upd_length. lia. }
    destruct ((nth 15 (pblk s) 0 + 1) mod 256 =? 0) eqn:Hw;
      destruct (bytectr s mod 16 =? 0) eqn:Hm; cbn [negb];
      evaluate; conds; guards; try reflexivity.
    - rewrite Hsk, app_nil_r. arith_eq.
    - arith_eq.
  Qed.

  Lemma Ref_generate_binv s s1 bl : Ref.generate E s = Ok s1 -> binv s bl -> binv s1 bl.
  Proof.
    unfold Ref.generate, binv. intros H [Hb Hp].
    destruct (negb (bytectr s mod 16 =? 0)); [discriminate|]. apply (f_equal (fun r => match r with Ok x => x | _ => s1 end)) in H. subst s1.
    cbn [bytectr pblk]. split; [exact Hb|].
    assert (Hu : forall x, length (upd_byte (pblk s) 15 x) = 16%nat)
      by (intros x; unfold upd_byte; rewrite upd_length; exact Hp).
    destruct ((nth 15 (pblk s) 0 + 1) mod 256 =? 0); [|apply Hu].
    rewrite app_length, firstn_length, Hu. reflexivity.
  Qed.

  Lemma Ref_generate_bytectr s s1 : Ref.generate E s = Ok s1 -> bytectr s1 = bytectr s.
  Proof.
    unfold Ref.generate. intros H. destruct (negb (bytectr s mod 16 =? 0)); [discriminate|].
    apply (f_equal (fun r => match r with Ok x => bytectr x | _ => bytectr s1 end)) in H. symmetry. exact H.
  Qed.

  (* ---------------------------------------------------------------- pre_wholeblock *)
  Lemma pre_whole_eq s inp bl : bytectr s + bl < two64 ->
    pre_whole s inp bl = Ok (Ref.pre_whole s inp bl).
  Proof.
    intros Hb. unfold pre_whole, Ref.pre_whole, two64 in *.
    destruct (bytectr s mod 16 =? 0) eqn:Hm; cbn [negb];
      [|destruct (bytectr s mod 16 + bl <=? 16) eqn:Hfit].
    all: evaluate; conds; fold_closed; guards; try reflexivity.
    all: rewrite use_eq by (unfold two64; lia); cbn [bind]; arith_eq.
  Qed.

  Lemma Ref_pre_whole_binv s inp bl : binv s bl ->
    let '(s1, _, _, bl1, _) := Ref.pre_whole s inp bl in binv s1 bl1.
  Proof.
    intros [Hb Hp]. unfold Ref.pre_whole, Ref.use, binv, two64 in *.
    destruct (negb (bytectr s mod 16 =? 0)); [destruct (bytectr s mod 16 + bl <=? 16) eqn:Hf|];
      cbn [bytectr pblk]; (split; [lia | exact Hp]).
  Qed.

  (* when it does not finish the request it leaves the stream on a block boundary *)
  Lemma Ref_pre_whole_aligned s inp bl : bytectr s + bl < two64 ->
    let '(s1, _, _, _, done) := Ref.pre_whole s inp bl in done = false -> bytectr s1 mod 16 = 0.
  Proof.
    intros Hb. unfold Ref.pre_whole, Ref.use, two64 in *.
    destruct (bytectr s mod 16 =? 0) eqn:Hm; cbn [negb];
      [|destruct (bytectr s mod 16 + bl <=? 16) eqn:Hf]; cbn [bytectr]; intros; try discriminate; lia.
  Qed.

  (* ---------------------------------------------------------------- the portable whole-block loop *)
  Lemma whole_eq : forall fuel s inp bl, binv s bl ->
    whole E fuel s inp bl = Ref.whole E fuel s inp bl.
  Proof.
    induction fuel as [|fuel IH]; intros s inp bl Hinv; pose proof Hinv as [Hb Hp];
      cbn [whole Ref.whole]; unfold two64 in *.
    - destruct (16 <=? bl) eqn:Hge; evaluate; conds; guards; reflexivity.
    - destruct (16 <=? bl) eqn:Hge; evaluate; conds; guards; [|reflexivity].
      rewrite generate_eq by (unfold two64; first [lia | assumption]).
      destruct (Ref.generate E s) as [s1| | |] eqn:Hg; cbn [bind]; try reflexivity.
      pose proof (Ref_generate_binv s s1 bl Hg Hinv) as Hinv1.
      rewrite use_eq by (unfold two64; lia). cbn [bind].
      pose proof (Ref_use_binv s1 inp bl 16 0 ltac:(lia) Hinv1) as Hinv2.
      destruct (Ref.use s1 inp bl 16 0) as [[[s2 o] rest] bl0].
      rewrite (IH s2 rest bl0 Hinv2). reflexivity.
  Qed.

  Lemma Ref_whole_binv : forall fuel s inp bl s' o rest bl',
    Ref.whole E fuel s inp bl = Ok (s', o, rest, bl') -> binv s bl -> binv s' bl'.
  Proof.
    induction fuel as [|fuel IH]; intros s inp bl s' o rest bl' H Hinv; cbn [Ref.whole] in H.
    - destruct (16 <=? bl); [discriminate|]. injection H as <- _ _ <-. exact Hinv.
    - destruct (16 <=? bl) eqn:Hge; [|injection H as <- _ _ <-; exact Hinv].
      apply N.leb_le in Hge.
      destruct (Ref.generate E s) as [s1| | |] eqn:Hg; cbn [bind] in H; try discriminate.
      pose proof (Ref_generate_binv s s1 bl Hg Hinv) as Hinv1.
      pose proof (Ref_use_binv s1 inp bl 16 0 Hge Hinv1) as Hinv2.
      destruct (Ref.use s1 inp bl 16 0) as [[[s2 o2] rest2] bl2].
      destruct (Ref.whole E fuel s2 rest2 bl2) as [[[[s3 o3] rest3] bl3]| | |] eqn:Hw; cbn [bind] in H; try discriminate.
      injection H as <- _ _ <-. exact (IH _ _ _ _ _ _ _ Hw Hinv2).
  Qed.

  (* ---------------------------------------------------------------- post_wholeblock *)
  Lemma post_whole_eq s inp bl : binv s bl ->
    post_whole E s inp bl = Ref.post_whole E s inp bl.
  Proof.
    intros Hinv. pose proof Hinv as [Hb Hp]. unfold post_whole, Ref.post_whole, two64 in *.
    destruct (0 <? bl) eqn:Hpos; evaluate; conds; guards; [|reflexivity].
    rewrite generate_eq by (unfold two64; first [lia | assumption]).
    destruct (Ref.generate E s) as [s1| | |] eqn:Hg; cbn [bind]; try reflexivity.
    rewrite use_eq by (unfold two64; lia). cbn [bind].
    match goal with |- context [Ref.use s1 inp bl ?n ?m] =>
      replace n with bl by lia; replace m with 0 by lia end.
    reflexivity.
  Qed.

  (* ---------------------------------------------------------------- crypto_aesctr_stream, portable *)
  Lemma stream_main_eq s inp : binv s (N.of_nat (length inp)) -> stream_main E s inp = Ref.stream E s inp.
  Proof.
    intros Hinv. unfold stream_main, Ref.stream.
    rewrite pre_whole_eq by apply Hinv. cbn [bind].
    pose proof (Ref_pre_whole_binv s inp _ Hinv) as Hinv1.
    destruct (Ref.pre_whole s inp (N.of_nat (length inp))) as [[[[s1 o1] rest] bl] done].
    destruct done; [reflexivity|].
    rewrite (whole_eq _ s1 rest bl Hinv1).
    destruct (Ref.whole E (length inp) s1 rest bl) as [[[[s2 o2] rest2] bl2]| | |] eqn:Hw; cbn [bind]; try reflexivity.
    rewrite (post_whole_eq s2 rest2 bl2 (Ref_whole_binv _ _ _ _ _ _ _ _ Hw Hinv1)). reflexivity.
  Qed.

  (* a call with nothing to do changes nothing: what an early `if (buflen == 0) return;` relies on *)
  Lemma Ref_stream_nil s : bytectr s < two64 -> Ref.stream E s [] = Ok (s, []).
  Proof.
    intros Hb. destruct s as [b bf p]. unfold Ref.stream, Ref.pre_whole, Ref.use, Ref.post_whole, two64 in *.
    cbn [length N.of_nat bytectr buf pblk Ref.whole] in *.
    destruct (b mod 16 =? 0) eqn:Hm; cbn [negb].
    - reflexivity.
    - replace (b mod 16 + 0 <=? 16) with true by lia.
      replace ((b + 0) mod 18446744073709551616) with b by lia. reflexivity.
  Qed.

  Theorem stream_eq s inp : binv s (N.of_nat (length inp)) -> stream E s inp = Ref.stream E s inp.
  Proof.
    intros Hinv. unfold stream. rewrite (stream_main_eq s inp Hinv). pose proof Hinv as [Hb Hp].
    destruct inp as [|x inp]; cbn [length] in *.
    - rewrite (Ref_stream_nil s) by lia. unfold two64 in *. evaluate.
      guards. match goal with |- (if ?c then _ else _) = _ => destruct c; reflexivity | _ => reflexivity end.
    - unfold two64 in *. evaluate. conds. guards. reflexivity.
  Qed.

  (* ---------------------------------------------------------------- the AES-NI whole-block loop *)
  (* the parts of the regenerated loop body: be64enc(arr, wb_bexpr); __m128i statements; wb_scalars *)
  Definition wb_bexpr : cexpr := match body_parts wb_body with Some (x, _) => x | None => EUnknown end.
  Definition wb_scalars : list cstmt := match body_parts wb_body with Some (_, l) => l | None => [SUnknown] end.
  Lemma wb_body_shape : body_parts wb_body = Some (wb_bexpr, wb_scalars).
  Proof. reflexivity. Qed.
  Lemma wb_epilogue_one_writeback : count_writeback wb_epilogue = Some 1%nat.
  Proof. reflexivity. Qed.

  (* the variables of crypto_aesctr_aesni_stream_wholeblocks inside / after the loop: stream->bytectr,
     *buflen, the two offsets, block_counter (16), num_blocks (17), i (18) *)
  Definition wb_env (b bl io oo c nb i : N) : env :=
    [var V_BYTECTR ty_bytectr b; var V_BUFLEN wb_ty_buflen bl; var V_INOFF U64 io; var V_OUTOFF U64 oo;
     var 16 U64 c; var 17 U64 nb; var 18 U64 i].

  Lemma skipn15_cons (inp : list N) : (16 <= length inp)%nat -> exists x r, skipn 15 inp = x :: r.
  Proof.
    intros H. destruct (skipn 15 inp) as [|x r] eqn:Hs; [|eauto].
    apply (f_equal (@length N)) in Hs. rewrite skipn_length in Hs. cbn in Hs. lia.
  Qed.

  (* the regenerated statements of the loop, evaluated on those variables.  (b, bl, nb are what the
     function was entered with: the stream position is a block boundary, nb = bl / 16 >= 1 - facts an
     assert added to the loop body may state.) *)
  Lemma wb_bexpr_eval b bl io oo c nb i :
    eval (wb_env b bl io oo c nb i) wb_bexpr = (U64, Z.of_N (c mod two64), true).
  Proof. unfold wb_env, wb_bexpr, two64. evaluate. arith_eq. Qed.

  Lemma wb_reset b bl io oo c nb i :
    set (wb_env b bl io oo c nb i) V_INOFF U64 0 = (wb_env b bl 0 oo c nb i, true) /\
    set (wb_env b bl 0 oo c nb i) V_OUTOFF U64 0 = (wb_env b bl 0 0 c nb i, true).
  Proof. unfold wb_env. evaluate. split; reflexivity. Qed.

  Lemma wb_scalars_run b bl c nb i : 1 <= i < two64 -> i <= nb -> nb = bl / 16 -> bl < two64 -> b mod 16 = 0 ->
    run (wb_env b bl 0 0 c nb i) wb_scalars = (wb_env b bl 16 16 ((c + 1) mod two64) nb (i - 1), true, true).
  Proof. intros H H0 H1 H2 H3. unfold wb_env, wb_scalars, two64 in *. evaluate. conds. arith_eq. Qed.

  Lemma wb_offsets b bl c nb i :
    get (wb_env b bl 16 16 c nb i) V_INOFF = (U64, 16%Z, true) /\
    get (wb_env b bl 16 16 c nb i) V_OUTOFF = (U64, 16%Z, true).
  Proof. unfold wb_env. evaluate. split; reflexivity. Qed.

  Lemma wb_cond_eval b bl io oo c nb i : i < two64 ->
    nonzero (valZ (eval (wb_env b bl io oo c nb i) wb_cond)) = (0 <? i) /\
    def (eval (wb_env b bl io oo c nb i) wb_cond) = true.
  Proof. intros H. unfold wb_env, two64 in *. evaluate. conds. split; [lia | reflexivity]. Qed.

  (* one iteration *)
  Lemma ni_loop_step nonce fuel b bl io oo c nb i inp :
    1 <= i < two64 -> i <= nb -> nb = bl / 16 -> bl < two64 -> b mod 16 = 0 -> (16 <= length inp)%nat ->
    ni_loop E (S fuel) nonce wb_bexpr wb_scalars (wb_env b bl io oo c nb i) inp =
    let arr := be64 (c mod two64) in
    let o := xor_list (firstn 16 inp) (E (mm_unpacklo_epi64 nonce (load_si64 arr))) in
    if 0 <? i - 1 then
      let* (e2, o', rest, arr') :=
        ni_loop E fuel nonce wb_bexpr wb_scalars (wb_env b bl 16 16 ((c + 1) mod two64) nb (i - 1)) (skipn 16 inp) in
      Ok (e2, o ++ o', rest, arr')
    else Ok (wb_env b bl 16 16 ((c + 1) mod two64) nb (i - 1), o, skipn 16 inp, arr).
  Proof.
    intros Hi Hin Hnb Hbl Hal Hlen. cbn [ni_loop]. destruct (skipn15_cons inp Hlen) as (x & r & ->).
    rewrite wb_bexpr_eval. destruct (wb_reset b bl io oo c nb i) as [-> H2].
    cbn [fst snd]. rewrite H2. cbn [fst snd]. clear H2.
    rewrite wb_scalars_run by assumption. cbv [renv rdef rok fst snd].
    destruct (wb_offsets b bl ((c + 1) mod two64) nb (i - 1)) as [-> ->].
    destruct (wb_cond_eval b bl 16 16 ((c + 1) mod two64) nb (i - 1)) as [-> ->]; [lia|].
    cbv [def valZ valN fst snd]. cbn [andb negb guard Z.eqb Pos.eqb].
    rewrite N2Z.id. reflexivity.
  Qed.

  Lemma ni_loop_eq nonce : forall n fuel b bl io oo c nb inp,
    (S n <= fuel)%nat -> (16 * S n <= length inp)%nat -> N.of_nat (S n) <= nb -> nb = bl / 16 -> bl < two64 ->
    b mod 16 = 0 ->
    ni_loop E fuel nonce wb_bexpr wb_scalars (wb_env b bl io oo c nb (N.of_nat (S n))) inp =
    let '(o, rest, c', arr) := Ref.bulk E n nonce (c mod two64) inp in
    Ok (wb_env b bl 16 16 c' nb 0, o, rest, arr).
  Proof.
    induction n as [|n IH]; intros fuel b bl io oo c nb inp Hfuel Hlen Hn Hnb Hbl Hal;
      (destruct fuel as [|fuel]; [lia|]);
      rewrite ni_loop_step by (try assumption; unfold two64 in *; lia); cbn [Ref.bulk]; cbv zeta.
    - change (N.of_nat 1 - 1) with 0. change (0 <? 0) with false. cbv iota.
      replace ((c mod two64 + 1) mod two64) with ((c + 1) mod two64) by (unfold two64; lia). reflexivity.
    - replace (0 <? N.of_nat (S (S n)) - 1) with true by lia.
      replace (N.of_nat (S (S n)) - 1) with (N.of_nat (S n)) by lia.
      rewrite IH by (try rewrite skipn_length; try assumption; lia).
      replace (((c + 1) mod two64) mod two64) with ((c mod two64 + 1) mod two64) by (unfold two64; lia).
      destruct (Ref.bulk E n nonce ((c mod two64 + 1) mod two64) (skipn 16 inp)) as [[[o' rest] c'] arr'] eqn:Hbk.
      reflexivity.
  Qed.

  (* ---------------------------------------------------------------- crypto_aesctr_aesni_stream_wholeblocks *)
  (* entered at a block boundary with at least one whole block (what asserts in the prologue may state) *)
  Lemma wb_prologue_run b bl : b + bl < two64 -> b mod 16 = 0 -> 16 <= bl ->
    run (env_app [var V_BYTECTR ty_bytectr b; var V_BUFLEN wb_ty_buflen bl; var V_INOFF U64 0; var V_OUTOFF U64 0]
                 (locals wb_decls)) wb_prologue =
    (wb_env b bl 0 0 (b / 16) (bl / 16) (bl / 16), true, true).
  Proof. intros Hb Hal Hge. unfold wb_env, two64 in *. evaluate. conds. arith_eq. Qed.

  (* THE lemma about the end-of-loop bookkeeping: for every *buflen below 2^64 (num_blocks being
     *buflen / 16) the regenerated statements subtract 16 * num_blocks from *buflen and add it to
     stream->bytectr (mod 2^64) *)
  Lemma wb_epilogue_run b bl c nb : nb = bl / 16 -> bl < two64 -> 16 <= bl -> b mod 16 = 0 ->
    run (wb_env b bl 16 16 c nb 0) wb_epilogue =
    (wb_env ((b + 16 * nb) mod two64) (bl - 16 * nb) 16 16 c nb 0, true, true).
  Proof. intros H1 H2 H3 H4. unfold wb_env, two64 in *. evaluate. conds. arith_eq. Qed.

  (* the counter written back into stream->pblk[8..15] - copied from the array the loop left, or
     re-encoded from the block counter - is the big-endian number of the last block used *)
  Lemma wb_writeback_eval b bl c' nb arr : nb = bl / 16 -> bl < two64 -> c' < two64 ->
    arr = be64 ((c' + two64 - 1) mod two64) ->
    match writeback (wb_env b bl 16 16 c' nb 0) wb_epilogue with
    | Some (WbCopy off len) => (N.to_nat off, firstn (N.to_nat len) arr, true)
    | Some (WbEnc off v d) => (N.to_nat off, be64 (Z.to_N v), d)
    | None => (O, [], false)
    end = (8%nat, arr, true).
  Proof.
    intros H1 H2 H3 ->. unfold wb_env, two64 in *. evaluate.
    first [reflexivity | arith_eq].
  Qed.

  Lemma wb_results b bl io oo c nb i : b < two64 -> bl < two64 ->
    get (wb_env b bl io oo c nb i) V_BYTECTR = (U64, Z.of_N b, true) /\
    get (wb_env b bl io oo c nb i) V_BUFLEN = (U64, Z.of_N bl, true).
  Proof. intros H1 H2. unfold wb_env, two64 in *. evaluate. split; arith_eq. Qed.

  Lemma Ref_bulk_arr nonce : forall n c inp, c < two64 ->
    let '(_, _, c', arr) := Ref.bulk E n nonce c inp in
    length arr = 8%nat /\ c' < two64 /\ arr = be64 ((c' + two64 - 1) mod two64).
  Proof.
    induction n as [|n IH]; intros c inp Hc; cbn [Ref.bulk].
    - split; [reflexivity|]. split; [apply N.mod_lt; discriminate|]. f_equal. unfold two64 in *. lia.
    - specialize (IH ((c + 1) mod two64) (skipn 16 inp) ltac:(apply N.mod_lt; discriminate)).
      destruct (Ref.bulk E n nonce ((c + 1) mod two64) (skipn 16 inp)) as [[[o r] c'] a]. exact IH.
  Qed.

  Lemma wholeblocks_aesni_eq s inp bl :
    bl = N.of_nat (length inp) -> 16 <= bl -> bytectr s mod 16 = 0 -> binv s bl ->
    wholeblocks_aesni E s inp bl = Ref.wholeblocks_aesni E s inp bl.
  Proof.
    intros Hbl Hge Hal [Hb Hp]. unfold wholeblocks_aesni, Ref.wholeblocks_aesni.
    rewrite wb_body_shape, wb_epilogue_one_writeback.
    rewrite wb_prologue_run by assumption. cbv [renv rdef rok fst snd]. cbn [guard negb].
    destruct (N.to_nat (bl / 16)) as [|n] eqn:Hn; [unfold two64 in *; lia|].
    replace (bl / 16) with (N.of_nat (S n)) by lia.
    rewrite ni_loop_eq by (try assumption; unfold two64 in *; lia).
    rewrite (N.mod_small (bytectr s / 16)) by (unfold two64 in *; lia).
    pose proof (Ref_bulk_arr (load_si64 (pblk s)) n (bytectr s / 16) inp ltac:(unfold two64 in *; lia)) as Harr.
    destruct (Ref.bulk E n (load_si64 (pblk s)) (bytectr s / 16) inp) as [[[o rest] c'] arr].
    destruct Harr as (Hlen & Hc' & Harr).
    cbn [bind]. rewrite wb_epilogue_run by (try assumption; unfold two64 in *; lia). cbv [renv rdef rok fst snd].
    rewrite (wb_writeback_eval (bytectr s) bl c' (N.of_nat (S n)) arr) by (try assumption; unfold two64 in *; lia).
    destruct (wb_results ((bytectr s + 16 * N.of_nat (S n)) mod two64) (bl - 16 * N.of_nat (S n)) 16 16 c'
                (N.of_nat (S n)) 0) as [-> ->]; [unfold two64; lia | unfold two64 in *; lia |].
    cbv [def valN valZ fst snd]. cbn [andb negb guard]. rewrite !N2Z.id. rewrite Hlen.
    change (8 + 8)%nat with 16%nat.
    rewrite (skipn_all2 (pblk s)) by lia. rewrite app_nil_r. reflexivity.
  Qed.

  (* ---------------------------------------------------------------- crypto_aesctr_aesni_stream *)
  Lemma Ref_wholeblocks_binv s inp bl s' o rest bl' : 16 <= bl -> bytectr s < two64 ->
    Ref.wholeblocks_aesni E s inp bl = Ok (s', o, rest, bl') -> binv s bl -> binv s' bl'.
  Proof.
    intros Hge Hlt H [Hb Hp]. unfold Ref.wholeblocks_aesni in H.
    destruct (N.to_nat (bl / 16)) as [|n] eqn:Hn; [discriminate|].
    pose proof (Ref_bulk_arr (load_si64 (pblk s)) n (bytectr s / 16) inp ltac:(unfold two64 in *; lia)) as Harr.
    destruct (Ref.bulk E n (load_si64 (pblk s)) (bytectr s / 16) inp) as [[[o2 rest2] c'] arr].
    destruct Harr as (Harr & _ & _).
    remember (firstn 8 (pblk s) ++ arr) as p' eqn:Hp'.
    injection H as <- _ _ <-. unfold binv, two64 in *. cbn [bytectr pblk]. split; [lia|].
    subst p'. rewrite app_length, firstn_length, Harr. lia.
  Qed.

  Lemma stream_aesni_main_eq s inp : binv s (N.of_nat (length inp)) ->
    stream_aesni_main E s inp = Ref.stream_aesni E s inp.
  Proof.
    intros Hinv. unfold stream_aesni_main, Ref.stream_aesni.
    rewrite pre_whole_eq by apply Hinv. cbn [bind].
    pose proof (Ref_pre_whole_binv s inp _ Hinv) as Hinv1.
    pose proof (Ref_pre_whole_aligned s inp _ (proj1 Hinv)) as Hal.
    assert (Hlen : let '(_, _, rest, bl, _) := Ref.pre_whole s inp (N.of_nat (length inp)) in
                   bl = N.of_nat (length rest)).
    { unfold Ref.pre_whole, Ref.use.
      destruct (negb (bytectr s mod 16 =? 0)); [destruct (bytectr s mod 16 + N.of_nat (length inp) <=? 16) eqn:Hf|];
        try rewrite skipn_length; lia. }
    destruct (Ref.pre_whole s inp (N.of_nat (length inp))) as [[[[s1 o1] rest] bl] done].
    destruct done; [reflexivity|]. specialize (Hal eq_refl).
    pose proof Hinv1 as [Hb1 Hp1].
    assert (Hlt1 : bytectr s1 < two64) by lia.
    unfold two64 in Hb1.
    assert (Hc : nonzero (valZ (eval [var V_BYTECTR ty_bytectr (bytectr s1); var V_BUFLEN ni_ty_buflen bl] ni_cond))
                 = (16 <=? bl) /\
                 def (eval [var V_BYTECTR ty_bytectr (bytectr s1); var V_BUFLEN ni_ty_buflen bl] ni_cond) = true).
    { evaluate. conds. split; [lia | reflexivity]. }
    destruct Hc as [-> ->]. cbn [guard].
    destruct (16 <=? bl) eqn:Hge.
    - apply N.leb_le in Hge. rewrite (wholeblocks_aesni_eq s1 rest bl Hlen Hge Hal Hinv1).
      destruct (Ref.wholeblocks_aesni E s1 rest bl) as [[[[s2 o2] rest2] bl2]| | |] eqn:Hw; cbn [bind]; try reflexivity.
      rewrite (post_whole_eq s2 rest2 bl2 (Ref_wholeblocks_binv _ _ _ _ _ _ _ Hge Hlt1 Hw Hinv1)).
      reflexivity.
    - cbn [bind]. rewrite (post_whole_eq s1 rest bl Hinv1). reflexivity.
  Qed.

  Lemma Ref_stream_aesni_nil s : bytectr s < two64 -> Ref.stream_aesni E s [] = Ok (s, []).
  Proof.
    intros Hb. destruct s as [b bf p]. unfold Ref.stream_aesni, Ref.pre_whole, Ref.use, Ref.post_whole, two64 in *.
    cbn [length N.of_nat bytectr buf pblk] in *.
    destruct (b mod 16 =? 0) eqn:Hm; cbn [negb].
    - reflexivity.
    - replace (b mod 16 + 0 <=? 16) with true by lia.
      replace ((b + 0) mod 18446744073709551616) with b by lia. reflexivity.
  Qed.

  Theorem stream_aesni_eq s inp : binv s (N.of_nat (length inp)) ->
    stream_aesni E s inp = Ref.stream_aesni E s inp.
  Proof.
    intros Hinv. unfold stream_aesni. rewrite (stream_aesni_main_eq s inp Hinv). pose proof Hinv as [Hb Hp].
    destruct inp as [|x inp]; cbn [length] in *.
    - rewrite (Ref_stream_aesni_nil s) by lia. unfold two64 in *. evaluate.
      guards. match goal with |- (if ?c then _ else _) = _ => destruct c; reflexivity | _ => reflexivity end.
    - unfold two64 in *. evaluate. conds. guards. reflexivity.
  Qed.

  Theorem stream_cfg_eq hw s inp : binv s (N.of_nat (length inp)) ->
    stream_cfg E hw s inp = Ref.stream_cfg E hw s inp.
  Proof.
    intros Hinv. unfold stream_cfg, Ref.stream_cfg.
    destruct ((16 <=? N.of_nat (length inp)) && hw); [apply stream_aesni_eq | apply stream_eq]; exact Hinv.
  Qed.
End Bridge.

(* the bridging theorems with their hypothesis written out (these are stated in Properties_C03_aes.v) *)
Theorem stream_cfg_eq_reference : forall (E : list N -> list N) hw s inp,
  bytectr s + N.of_nat (length inp) < two64 -> length (pblk s) = 16%nat ->
  stream_cfg E hw s inp = Ref.stream_cfg E hw s inp.
Proof. intros E hw s inp H1 H2. apply stream_cfg_eq. split; assumption. Qed.

Theorem wholeblocks_aesni_eq_reference : forall (E : list N -> list N) s inp,
  16 <= N.of_nat (length inp) -> bytectr s mod 16 = 0 ->
  bytectr s + N.of_nat (length inp) < two64 -> length (pblk s) = 16%nat ->
  wholeblocks_aesni E s inp (N.of_nat (length inp)) = Ref.wholeblocks_aesni E s inp (N.of_nat (length inp)).
Proof. intros E s inp H0 Ha H1 H2. apply wholeblocks_aesni_eq; [reflexivity | exact H0 | exact Ha | split; assumption]. Qed.

(* ================================================================== Part 2: the theorems, for the model *)
Section Proofs.
  Variable E : list N -> list N.
  Hypothesis E_len : forall b, length (E b) = 16%nat.

  Section Nonce.
  Variable nonce : N.
  Variable start : N.
  Hypothesis start_aligned : start mod 16 = 0.

  (* the invariant gives what the bridging lemmas need *)
  Lemma ctr_inv_binv total s len :
    ctr_inv E nonce start total s -> total + len < two64 -> binv s len.
  Proof.
    intros (_ & _ & Hb & _ & _ & Hp & _) Hlt. unfold binv. rewrite Hb. split; [exact Hlt | exact Hp].
  Qed.

  (* the portable path *)
  Theorem stream_spec total s inp :
    ctr_inv E nonce start total s -> total + N.of_nat (length inp) < two64 ->
    exists s', stream E s inp = Ok (s', xor_list inp (ks_range E nonce total (length inp))) /\
               ctr_inv E nonce start (total + N.of_nat (length inp)) s'.
  Proof.
    intros Hinv Hbound. rewrite stream_eq by (exact (ctr_inv_binv _ _ _ Hinv Hbound)).
    exact (stream_spec_ref E E_len nonce start start_aligned total s inp Hinv Hbound).
  Qed.

  (* the AES-NI bulk path *)
  Theorem stream_aesni_spec total s inp :
    ctr_inv E nonce start total s -> total + N.of_nat (length inp) < two64 ->
    exists s', stream_aesni E s inp = Ok (s', xor_list inp (ks_range E nonce total (length inp))) /\
               ctr_inv E nonce start (total + N.of_nat (length inp)) s'.
  Proof.
    intros Hinv Hbound. rewrite stream_aesni_eq by (exact (ctr_inv_binv _ _ _ Hinv Hbound)).
    exact (stream_aesni_spec_ref E E_len nonce start start_aligned total s inp Hinv Hbound).
  Qed.

  (* M1, preservation: crypto_aesctr_stream in either build configuration *)
  Theorem stream_cfg_spec hw total s inp :
    ctr_inv E nonce start total s -> total + N.of_nat (length inp) < two64 ->
    exists s', stream_cfg E hw s inp = Ok (s', xor_list inp (ks_range E nonce total (length inp))) /\
               ctr_inv E nonce start (total + N.of_nat (length inp)) s'.
  Proof.
    intros Hinv Hbound. rewrite stream_cfg_eq by (exact (ctr_inv_binv _ _ _ Hinv Hbound)).
    exact (stream_cfg_spec_ref E E_len nonce start start_aligned hw total s inp Hinv Hbound).
  Qed.

  (* C03-M2: from a state satisfying the invariant, the AES-NI path and the portable path write
     the same bytes and leave states that no later call can tell apart (the AES-NI bulk path does
     not refresh buf, which is dead at a block boundary) *)
  Theorem stream_aesni_eq_stream total s inp :
    ctr_inv E nonce start total s -> total + N.of_nat (length inp) < two64 ->
    exists s1 s2 out,
      stream_aesni E s inp = Ok (s1, out) /\ stream E s inp = Ok (s2, out) /\
      st_obs_eq s1 s2 /\
      ctr_inv E nonce start (total + N.of_nat (length inp)) s1 /\
      ctr_inv E nonce start (total + N.of_nat (length inp)) s2.
  Proof.
    intros Hinv Hbound.
    rewrite stream_aesni_eq, stream_eq by (exact (ctr_inv_binv _ _ _ Hinv Hbound)).
    exact (stream_aesni_eq_stream_ref E E_len nonce start start_aligned total s inp Hinv Hbound).
  Qed.

  (* ---------------------------------------------------------------- sequences of calls (M2) *)
  Lemma stream_all_spec hw : forall chunks total s,
    ctr_inv E nonce start total s -> total + N.of_nat (length (concat chunks)) < two64 ->
    exists s' outs,
      stream_all E hw s chunks = Ok (s', outs) /\
      concat outs = xor_list (concat chunks) (ks_range E nonce total (length (concat chunks))) /\
      map (@length N) outs = map (@length N) chunks /\
      ctr_inv E nonce start (total + N.of_nat (length (concat chunks))) s'.
  Proof.
    induction chunks as [|c chunks IH]; intros total s Hinv Hbound.
    - exists s, []. cbn. rewrite N.add_0_r. splits; try reflexivity. exact Hinv.
    - cbn [concat] in *. rewrite app_length in *.
      destruct (stream_cfg_spec hw total s c Hinv) as (s1 & Hs1 & Hinv1); [lia|].
      destruct (IH (total + N.of_nat (length c)) s1 Hinv1) as (s2 & outs & Hs2 & Hcat & Hlens & Hinv2); [lia|].
      cbn [stream_all]. rewrite Hs1. cbn [bind]. rewrite Hs2. cbn [bind].
      eexists. eexists. split; [reflexivity|].
      split; [|split].
      + cbn [concat]. rewrite Hcat, ks_range_app.
        rewrite xor_list_app by (rewrite ks_range_length; reflexivity). reflexivity.
      + cbn [map]. rewrite Hlens. f_equal. apply xor_list_length. rewrite ks_range_length. lia.
      + replace (total + N.of_nat (length c + length (concat chunks)))
          with (total + N.of_nat (length c) + N.of_nat (length (concat chunks))) by lia.
        exact Hinv2.
  Qed.
  End Nonce.

  (* M2: for every nonce, every prior contents of the stream object and every sequence of calls,
     the bytes written are ctr_spec of the concatenated input (and each call writes as many bytes
     as it was given), in either build configuration *)
  Theorem ctr_stream_correct : forall hw nonce any chunks,
    st_wf any -> N.of_nat (length (concat chunks)) < two64 ->
    exists s' outs,
      stream_all E hw (init2 15 255 nonce any) chunks = Ok (s', outs) /\
      concat outs = ctr_spec E nonce (concat chunks) /\
      map (@length N) outs = map (@length N) chunks.
  Proof.
    intros hw nonce any chunks Hwf Hbound.
    destruct (stream_all_spec nonce 0 eq_refl hw chunks 0 (init2 15 255 nonce any) (init2_inv E nonce any Hwf))
      as (s' & outs & Hs & Hcat & Hlens & _); [lia|].
    exists s', outs. split; [exact Hs|]. split; [|exact Hlens].
    rewrite Hcat. symmetry. apply ctr_spec_as_range; exact E_len.
  Qed.

  (* the same from a stream positioned at block B by the harness's white-box seek: the bytes are
     the spec's keystream from block B on (this is what the seek cases of the correspondence run
     are compared with) *)
  Theorem ctr_seek_stream_correct : forall hw nonce B any chunks,
    st_wf any -> 16 * B + N.of_nat (length (concat chunks)) < two64 ->
    exists s' outs,
      stream_all E hw (seek (16 * B) (init2 15 255 nonce any)) chunks = Ok (s', outs) /\
      concat outs = ctr_spec_from E nonce B (concat chunks) /\
      map (@length N) outs = map (@length N) chunks.
  Proof.
    intros hw nonce B any chunks Hwf Hbound.
    assert (Hal : (16 * B) mod 16 = 0) by lia.
    destruct (stream_all_spec nonce (16 * B) Hal hw chunks (16 * B) _ (seek_inv E nonce B any Hwf ltac:(lia)))
      as (s' & outs & Hs & Hcat & Hlens & _); [lia|].
    exists s', outs. split; [exact Hs|]. split; [|exact Hlens].
    rewrite Hcat. symmetry. apply ctr_spec_from_as_range; exact E_len.
  Qed.

  (* how the data is cut into calls does not matter *)
  Corollary ctr_partition_independent : forall hw1 hw2 nonce any1 any2 chunks1 chunks2,
    st_wf any1 -> st_wf any2 -> concat chunks1 = concat chunks2 ->
    N.of_nat (length (concat chunks1)) < two64 ->
    exists s1 outs1 s2 outs2,
      stream_all E hw1 (init2 15 255 nonce any1) chunks1 = Ok (s1, outs1) /\
      stream_all E hw2 (init2 15 255 nonce any2) chunks2 = Ok (s2, outs2) /\
      concat outs1 = concat outs2.
  Proof.
    intros hw1 hw2 nonce any1 any2 chunks1 chunks2 Hw1 Hw2 Hcat Hbound.
    destruct (ctr_stream_correct hw1 nonce any1 chunks1 Hw1 Hbound) as (s1 & o1 & H1 & Hc1 & _).
    rewrite Hcat in Hbound.
    destruct (ctr_stream_correct hw2 nonce any2 chunks2 Hw2 Hbound) as (s2 & o2 & H2 & Hc2 & _).
    exists s1, o1, s2, o2. split; [exact H1|]. split; [exact H2|]. rewrite Hc1, Hc2, Hcat. reflexivity.
  Qed.

  (* encrypting twice (fresh init with the same nonce, any partitions) restores the input *)
  Lemma ctr_spec_involutive nonce data : ctr_spec E nonce (ctr_spec E nonce data) = data.
  Proof.
    rewrite (ctr_spec_as_range E E_len nonce (ctr_spec E nonce data)), (ctr_spec_length E E_len).
    rewrite (ctr_spec_as_range E E_len). apply xor_list_involutive. rewrite ks_range_length. reflexivity.
  Qed.

  Corollary ctr_involutive : forall hw1 hw2 nonce any1 any2 chunks1 chunks2 s1 outs1,
    st_wf any1 -> st_wf any2 -> N.of_nat (length (concat chunks1)) < two64 ->
    stream_all E hw1 (init2 15 255 nonce any1) chunks1 = Ok (s1, outs1) ->
    concat chunks2 = concat outs1 ->
    exists s2 outs2,
      stream_all E hw2 (init2 15 255 nonce any2) chunks2 = Ok (s2, outs2) /\
      concat outs2 = concat chunks1.
  Proof.
    intros hw1 hw2 nonce any1 any2 chunks1 chunks2 s1 outs1 Hw1 Hw2 Hbound Hrun Hcat.
    destruct (ctr_stream_correct hw1 nonce any1 chunks1 Hw1 Hbound) as (s1' & o1 & H1 & Hc1 & _).
    rewrite Hrun in H1. inversion H1; subst s1' o1.
    assert (Hb2 : N.of_nat (length (concat chunks2)) < two64).
    { rewrite Hcat, Hc1, (ctr_spec_length E E_len). exact Hbound. }
    destruct (ctr_stream_correct hw2 nonce any2 chunks2 Hw2 Hb2) as (s2 & o2 & H2 & Hc2 & _).
    exists s2, o2. split; [exact H2|]. rewrite Hc2, Hcat, Hc1. apply ctr_spec_involutive.
  Qed.
End Proofs.

(* re-initialising a used stream object restarts the keystream: whatever key (block function E1),
   nonce and history the object has been through, init2 with a nonce - under the same key or under
   a new one (E2) - makes the following calls produce ctr_spec from position 0 again *)
Theorem ctr_reinit_restarts :
  forall (E1 E2 : list N -> list N),
    (forall b, length (E1 b) = 16%nat) -> (forall b, length (E2 b) = 16%nat) ->
    forall hw1 hw2 nonce1 nonce2 any history s1 outs1 chunks,
      st_wf any -> N.of_nat (length (concat history)) < two64 ->
      stream_all E1 hw1 (init2 15 255 nonce1 any) history = Ok (s1, outs1) ->
      N.of_nat (length (concat chunks)) < two64 ->
      exists s2 outs2,
        stream_all E2 hw2 (init2 15 255 nonce2 s1) chunks = Ok (s2, outs2) /\
        concat outs2 = ctr_spec E2 nonce2 (concat chunks).
Proof.
  intros E1 E2 HE1 HE2 hw1 hw2 nonce1 nonce2 any history s1 outs1 chunks Hwf Hb1 Hrun Hb2.
  destruct (stream_all_spec E1 HE1 nonce1 0 eq_refl hw1 history 0 (init2 15 255 nonce1 any)
              (init2_inv E1 nonce1 any Hwf)) as (s1' & o1 & H1 & _ & _ & Hinv1); [lia|].
  rewrite Hrun in H1. inversion H1; subst s1' o1.
  apply ctr_inv_wf in Hinv1.
  destruct (ctr_stream_correct E2 HE2 hw2 nonce2 s1 chunks Hinv1 Hb2) as (s2 & o2 & H2 & Hc2 & _).
  exists s2, o2. split; assumption.
Qed.
