(* util/entropy.c: MODEL of entropy_read_init / entropy_read_fill / entropy_read_done and of the
   one-shot wrapper entropy_read(), over the answers of open(2), read(2) and close(2) (a [session]
   of DrbgOsSpec.v), and crypto/crypto_entropy.c composed OVER it: [run_os] is [run_m] of
   DrbgModel.v with instantiate() and reseed() calling this model of entropy_read() (one session
   per call) instead of consulting an oracle of ready-made answers.  Mirrors the C:

     entropy_read_init   malloc (not modelled: assumed to succeed), open; -1 -> NULL
     entropy_read_fill   [entropy_read_fill_m] of DrbgModel.v: read until buflen bytes; -1 -> fail
                         (errno is not looked at: EINTR is a failure too); 0 -> fail
     entropy_read_done   while (close(fd) == -1) { if (errno != EINTR) fail }; free
     entropy_read        assert(buflen <= SSIZE_MAX); init failed -> -1; fill failed -> done (its
                         status ignored), -1; done failed -> -1; else 0

   An exhausted script answers -1 (errno != EINTR) to every call, as the driver does.
   No proofs in this file. *)
From Coq Require Import NArith List Bool.
From LCP Require Import Base.CheckedMem Gen.Repo_dhdrbg Crypto.DrbgSpec Crypto.DrbgOsSpec Crypto.DrbgModel.
Import ListNotations.
Local Open Scope N_scope.
Local Open Scope res_scope.

Definition ssize_max : N := 9223372036854775807.      (* LP64 *)

(* entropy_read_init(): the cookie exists iff open() succeeded *)
Definition er_init_m (s : session) : bool := s_open s.

(* entropy_read_done(er): (returned 0, number of close answers consumed) *)
Fixpoint er_done_m (closes : list close_answer) : bool * nat :=
  match closes with
  | [] => (false, 0%nat)                       (* script exhausted: -1, errno != EINTR *)
  | CloseOk :: _ => (true, 1%nat)
  | CloseErr :: _ => (false, 1%nat)            (* errno != EINTR: goto err1 *)
  | CloseEintr :: r => let '(ok, k) := er_done_m r in (ok, S k)      (* try again *)
  end.

(* entropy_read(buf, buflen) against one session.  Result: Some bytes = returned 0 and the buffer
   holds bytes; None = returned -1 (the buffer is then not a result); then the numbers of read
   and close answers consumed *)
Definition entropy_read_w (buflen : N) (s : session) : res (option (list N) * (nat * nat)) :=
  if ssize_max <? buflen then AssertFail               (* assert(buflen <= SSIZE_MAX) *)
  else if negb (er_init_m s) then Ok (None, (0%nat, 0%nat))          (* goto err0 *)
  else
    let* (r, rest) := entropy_read_fill_m buflen (s_reads s) in
    let nr := (length (s_reads s) - length rest)%nat in
    match r with
    | None =>                                          (* goto err1: entropy_read_done(er); *)
      let '(_, nc) := er_done_m (s_closes s) in
      Ok (None, (nr, nc))
    | Some bytes =>
      let '(ok, nc) := er_done_m (s_closes s) in
      if ok then Ok (Some bytes, (nr, nc))             (* Success! *)
      else Ok (None, (nr, nc))                         (* goto err0 *)
    end.

(* the entropy source of crypto_entropy.c: each entropy_read() call is one session *)
Definition os_oracle := list session.

Definition get_entropy_os (n : nat) (ss : os_oracle) : res (option (list N) * os_oracle) :=
  match ss with
  | [] => Ok (None, [])                                (* script exhausted: open() fails *)
  | s :: r => let* (res, _) := entropy_read_w (N.of_nat n) s in Ok (res, r)
  end.

Section ModelOs.
  Variable P : drbg_params.
  Variable hctx : Type.
  Variable h_init : list N -> hctx.
  Variable h_update : hctx -> list N -> hctx.
  Variable h_final : hctx -> list N.
  Variable h_buf : list N -> list N -> list N.

  Notation update_m' := (update_m P hctx h_init h_update h_final h_buf).
  Notation generate_m' := (generate_m P hctx h_init h_update h_final h_buf).

  (* instantiate() *)
  Definition instantiate_os (st : dstate) (ss : os_oracle) : res (bool * dstate * os_oracle * list ev) :=
    let* (r, ss1) := get_entropy_os (d_seed_inst P) ss in
    match r with
    | None => Ok (false, st, ss1, [EvInstantiate (d_seed_inst P) false])
    | Some seed =>
      let st1 := mk_dstate (repeat (d_key_init P) 32) (repeat (d_v_init P) 32) (d_ctr_init P) (dinst st) in
      Ok (true, update_m' st1 seed, ss1, [EvInstantiate (d_seed_inst P) true])
    end.

  (* reseed() *)
  Definition reseed_os (st : dstate) (ss : os_oracle) : res (bool * dstate * os_oracle * list ev) :=
    let* (r, ss1) := get_entropy_os (d_seed_reseed P) ss in
    match r with
    | None => Ok (false, st, ss1, [EvReseed (d_seed_reseed P) false (dctr st)])
    | Some seed =>
      let st1 := update_m' st seed in
      Ok (true, mk_dstate (dKey st1) (dV st1) (d_ctr_reset P) (dinst st1), ss1,
          [EvReseed (d_seed_reseed P) true (dctr st)])
    end.

  (* the chunk loop of crypto_entropy_read *)
  Fixpoint read_loop_os (fuel : nat) (st : dstate) (buflen : N) (ss : os_oracle) {struct fuel}
    : res (bool * list N * dstate * os_oracle * list ev) :=
    if 0 <? buflen then
      match fuel with
      | O => OutOfFuel
      | S f =>
        let* (ok, st1, ss1, e1) :=
          if d_interval P <? dctr st then reseed_os st ss else Ok (true, st, ss, []) in
        if negb ok then Ok (false, [], st1, ss1, e1)
        else
          let n := if d_maxlen P <? buflen then d_maxlen P else buflen in
          let* (bytes, st2) := generate_m' st1 n in
          let* (rc, more, st3, ss3, e3) := read_loop_os f st2 (buflen - n) ss1 in
          Ok (rc, bytes ++ more, st3, ss3, e1 ++ EvGenerate n (dctr st1) :: e3)
      end
    else Ok (true, [], st, ss, []).

  (* crypto_entropy_read(buf, buflen) *)
  Definition entropy_read_os_m (st : dstate) (buflen : N) (ss : os_oracle)
    : res (bool * list N * dstate * os_oracle * list ev) :=
    let* (ok, st1, ss1, e1) :=
      if negb (dinst st) then
        let* (ok, st1, ss1, e1) := instantiate_os st ss in
        Ok (ok, (if ok then mk_dstate (dKey st1) (dV st1) (dctr st1) true else st1), ss1, e1)
      else Ok (true, st, ss, []) in
    if negb ok then Ok (false, [], st1, ss1, e1)
    else
      let* (rc, bytes, st2, ss2, e2) := read_loop_os (S (N.to_nat (buflen / d_maxlen P))) st1 buflen ss1 in
      Ok (rc, bytes, st2, ss2, e1 ++ e2).

  (* a history of calls *)
  Fixpoint run_os (reqs : list N) (st : dstate) (ss : os_oracle)
    : res (list (option (list N)) * dstate * os_oracle * list ev) :=
    match reqs with
    | [] => Ok ([], st, ss, [])
    | n :: rest =>
      let* (rc, bytes, st1, ss1, e1) := entropy_read_os_m st n ss in
      let* (more, st2, ss2, e2) := run_os rest st1 ss1 in
      Ok ((if rc then Some bytes else None) :: more, st2, ss2, e1 ++ e2)
    end.
End ModelOs.
