(* Facts about the FIPS-197 spec itself: the standard's example vectors, the Figure 7 table = the
   defined S-box, length facts, and extensionality in the S-box function. *)
From Coq Require Import NArith List Arith Bool Lia.
From LCP Require Import Base.Sweep.
From LCP Require Import Gen.Repo_aes.
From LCP Require Import Crypto.AesSpec.
Import ListNotations.
Local Open Scope N_scope.

(* ------------------------------------------------------------------ the standard's own vectors *)
(* FIPS-197 Appendix C.1 (AES-128) and C.3 (AES-256), Appendix B; a transcription slip in AesSpec
   would show here *)
Example fips197_C1 :
  AES_encrypt [0;1;2;3;4;5;6;7;8;9;10;11;12;13;14;15]
              [0x00;0x11;0x22;0x33;0x44;0x55;0x66;0x77;0x88;0x99;0xaa;0xbb;0xcc;0xdd;0xee;0xff]
  = [0x69;0xc4;0xe0;0xd8;0x6a;0x7b;0x04;0x30;0xd8;0xcd;0xb7;0x80;0x70;0xb4;0xc5;0x5a].
Proof. vm_compute. reflexivity. Qed.

Example fips197_C3 :
  AES_encrypt [0;1;2;3;4;5;6;7;8;9;10;11;12;13;14;15;16;17;18;19;20;21;22;23;24;25;26;27;28;29;30;31]
              [0x00;0x11;0x22;0x33;0x44;0x55;0x66;0x77;0x88;0x99;0xaa;0xbb;0xcc;0xdd;0xee;0xff]
  = [0x8e;0xa2;0xb7;0xca;0x51;0x67;0x45;0xbf;0xea;0xfc;0x49;0x90;0x4b;0x49;0x60;0x89].
Proof. vm_compute. reflexivity. Qed.

Example fips197_B :
  AES_encrypt [0x2b;0x7e;0x15;0x16;0x28;0xae;0xd2;0xa6;0xab;0xf7;0x15;0x88;0x09;0xcf;0x4f;0x3c]
              [0x32;0x43;0xf6;0xa8;0x88;0x5a;0x30;0x8d;0x31;0x31;0x98;0xa2;0xe0;0x37;0x07;0x34]
  = [0x39;0x25;0x84;0x1d;0x02;0xdc;0x09;0xfb;0xdc;0x11;0x85;0x97;0x19;0x6a;0x0b;0x32].
Proof. vm_compute. reflexivity. Qed.

(* last words of the schedules of Appendix A.1 and A.3 *)
Example fips197_A1_last_word :
  nth 43 (AES_KeyExpansion [0x2b;0x7e;0x15;0x16;0x28;0xae;0xd2;0xa6;0xab;0xf7;0x15;0x88;0x09;0xcf;0x4f;0x3c]) []
  = [0xb6;0x63;0x0c;0xa6].
Proof. vm_compute. reflexivity. Qed.

Example fips197_A3_last_word :
  nth 59 (AES_KeyExpansion [0x60;0x3d;0xeb;0x10;0x15;0xca;0x71;0xbe;0x2b;0x73;0xae;0xf0;0x85;0x7d;0x77;0x81;
                            0x1f;0x35;0x2c;0x07;0x3b;0x61;0x08;0xd7;0x2d;0x98;0x10;0xa3;0x09;0x14;0xdf;0xf4]) []
  = [0x70;0x6c;0x63;0x1e].
Proof. vm_compute. reflexivity. Qed.

(* the self-test vectors now in crypto/crypto_aes.c are instances of the spec *)
Lemma repo_selftest1_is_fips : AES_encrypt selftest1_key selftest1_ptext = selftest1_ctext.
Proof. vm_compute. reflexivity. Qed.
Lemma repo_selftest2_is_fips : AES_encrypt selftest2_key selftest2_ptext = selftest2_ctext.
Proof. vm_compute. reflexivity. Qed.

(* ------------------------------------------------------------------ GF(2^8) sanity *)
Lemma gf_inv_is_inverse : forall x, x < 256 -> x <> 0 -> gf_mul x (gf_inv x) = 1.
Proof.
  intros x Hx Hnz.
  pose proof (sweep_byte (fun x => (x =? 0) || (gf_mul x (gf_inv x) =? 1))) as H.
  specialize (H ltac:(vm_compute; reflexivity) x Hx).
  cbv beta in H. apply orb_true_iff in H. destruct H as [H | H].
  - apply N.eqb_eq in H. contradiction.
  - apply N.eqb_eq in H. exact H.
Qed.

Lemma gf_inv_zero : gf_inv 0 = 0.
Proof. vm_compute. reflexivity. Qed.

(* ------------------------------------------------------------------ the table is the S-box *)
Lemma sbox_table_sweep : forall x, x < 256 -> (sbox_fast x =? sbox x) = true.
Proof. exact (sweep_byte (fun x => sbox_fast x =? sbox x) ltac:(vm_compute; reflexivity)). Qed.

Theorem sbox_fast_eq : forall x, sbox_fast x = sbox x.
Proof.
  intros x. destruct (x <? 256) eqn:Hlt.
  - apply N.eqb_eq. apply sbox_table_sweep. apply N.ltb_lt. exact Hlt.
  - unfold sbox_fast. rewrite Hlt. reflexivity.
Qed.

(* every entry of the table, as a flat list, is the S-box of its index *)
Lemma sbox_rows_are_sbox : concat sbox_rows = map sbox all_bytes.
Proof. vm_compute. reflexivity. Qed.

(* ------------------------------------------------------------------ lengths *)
Lemma idx16_length : length idx16 = 16%nat.
Proof. reflexivity. Qed.

Lemma AddRoundKey_length s k : length (AddRoundKey s k) = 16%nat.
Proof. unfold AddRoundKey. rewrite map_length. reflexivity. Qed.

Lemma ShiftRows_length s : length (ShiftRows s) = 16%nat.
Proof. unfold ShiftRows. rewrite map_length. reflexivity. Qed.

Lemma Cipher_length sb Nr w inp : length (Cipher sb Nr w inp) = 16%nat.
Proof. unfold Cipher, final_round. apply AddRoundKey_length. Qed.

Lemma aes_encrypt_length sb key inp : length (aes_encrypt sb key inp) = 16%nat.
Proof. apply Cipher_length. Qed.

(* ------------------------------------------------------------------ extensionality in the S-box *)
Section Ext.
  Variables f g : N -> N.
  Hypothesis fg : forall x, f x = g x.

  Lemma SubBytes_ext s : SubBytes f s = SubBytes g s.
  Proof. unfold SubBytes. apply map_ext. exact fg. Qed.

  Lemma SubWord_ext w : SubWord f w = SubWord g w.
  Proof. unfold SubWord. apply map_ext. exact fg. Qed.

  Lemma next_word_ext Nk w : next_word f Nk w = next_word g Nk w.
  Proof. unfold next_word. rewrite !SubWord_ext. reflexivity. Qed.

  Lemma expand_ext Nk n : forall w, expand f Nk n w = expand g Nk n w.
  Proof.
    induction n as [|n IH]; intros w; [reflexivity|].
    cbn [expand]. rewrite next_word_ext. apply IH.
  Qed.

  Lemma KeyExpansion_ext key : KeyExpansion f key = KeyExpansion g key.
  Proof. unfold KeyExpansion. apply expand_ext. Qed.

  Lemma mid_round_ext s k : mid_round f s k = mid_round g s k.
  Proof. unfold mid_round. rewrite SubBytes_ext. reflexivity. Qed.

  Lemma final_round_ext s k : final_round f s k = final_round g s k.
  Proof. unfold final_round. rewrite SubBytes_ext. reflexivity. Qed.

  Lemma fold_mid_ext w l : forall s,
    fold_left (fun s r => mid_round f s (round_key w r)) l s =
    fold_left (fun s r => mid_round g s (round_key w r)) l s.
  Proof.
    induction l as [|r l IH]; intros s; [reflexivity|].
    cbn [fold_left]. rewrite mid_round_ext. apply IH.
  Qed.

  Lemma Cipher_ext Nr w inp : Cipher f Nr w inp = Cipher g Nr w inp.
  Proof. unfold Cipher. rewrite fold_mid_ext, final_round_ext. reflexivity. Qed.

  Lemma aes_encrypt_ext key inp : aes_encrypt f key inp = aes_encrypt g key inp.
  Proof. unfold aes_encrypt. rewrite KeyExpansion_ext. apply Cipher_ext. Qed.
End Ext.

(* the executable instances (table S-box) are the standard's functions *)
Theorem fast_key_expansion_eq key : KeyExpansion sbox_fast key = AES_KeyExpansion key.
Proof. apply KeyExpansion_ext. exact sbox_fast_eq. Qed.

Theorem fast_cipher_eq Nr w inp : Cipher sbox_fast Nr w inp = Cipher sbox Nr w inp.
Proof. apply Cipher_ext. exact sbox_fast_eq. Qed.

Theorem fast_aes_encrypt_eq key inp : aes_encrypt sbox_fast key inp = AES_encrypt key inp.
Proof. apply aes_encrypt_ext. exact sbox_fast_eq. Qed.
