(* SPEC: FIPS-197 (AES) and SP 800-38A counter mode with the nonce||counter block layout of
   crypto_aesctr.h, written from the standards and independently of the C.

   Everything that touches the S-box is parametric in the S-box function [sb], so that
   - the standard's functions are the instances at [sbox] (DEFINED as multiplicative inverse in
     GF(2^8) followed by the affine map, FIPS-197 section 5.1.1),
   - the executable instances used by the correspondence run are the instances at [sbox_fast]
     (the literal table of FIPS-197 Figure 7), proved equal to [sbox] on every N in AesProofs.v,
   - the lane algebra of the AES-NI key schedule is proved for an arbitrary [sb].
   No proofs in this file. *)
From Coq Require Import NArith List Arith Bool.
Import ListNotations.
Local Open Scope N_scope.

(* ------------------------------------------------------------------ GF(2^8), section 4 *)
(* multiplication by x modulo m(x) = x^8 + x^4 + x^3 + x + 1 *)
Definition xtime (b : N) : N :=
  if 128 <=? b then N.lxor (2 * b) 0x11b else 2 * b.

(* a . b by the shift-and-add of section 4.2.1: sum over the set bits i of b of xtime^i a
   (stops as soon as no bit of b is left) *)
Fixpoint gf_mul_bits (n : nat) (a b : N) : N :=
  match n with
  | O => 0
  | S n' =>
    if b =? 0 then 0
    else N.lxor (if N.odd b then a else 0) (gf_mul_bits n' (xtime a) (N.div2 b))
  end.
Definition gf_mul (a b : N) : N := gf_mul_bits 8 a b.

Fixpoint N_seq (start : N) (n : nat) : list N :=
  match n with O => [] | S n' => start :: N_seq (start + 1) n' end.

Definition all_bytes : list N := N_seq 0 256.

(* multiplicative inverse, 0 mapped to 0: the y with x . y = 1, found by search *)
Definition gf_inv (x : N) : N :=
  match find (fun y => gf_mul x y =? 1) all_bytes with Some y => y | None => 0 end.

(* affine transformation (5.1): b'_i = b_i + b_(i+4) + b_(i+5) + b_(i+6) + b_(i+7) + c_i, c = 0x63 *)
Definition affine_bit (b : N) (i : N) : bool :=
  xorb (N.testbit b i)
  (xorb (N.testbit b ((i + 4) mod 8))
  (xorb (N.testbit b ((i + 5) mod 8))
  (xorb (N.testbit b ((i + 6) mod 8))
  (xorb (N.testbit b ((i + 7) mod 8)) (N.testbit 0x63 i))))).
Definition affine (b : N) : N :=
  fold_right (fun i acc => (if affine_bit b i then 2 ^ i else 0) + acc) 0 (N_seq 0 8).

Definition sbox (x : N) : N := affine (gf_inv x).

(* FIPS-197 Figure 7, row = high nibble, column = low nibble *)
Definition sbox_rows : list (list N) :=
  [[0x63; 0x7c; 0x77; 0x7b; 0xf2; 0x6b; 0x6f; 0xc5; 0x30; 0x01; 0x67; 0x2b; 0xfe; 0xd7; 0xab; 0x76];
   [0xca; 0x82; 0xc9; 0x7d; 0xfa; 0x59; 0x47; 0xf0; 0xad; 0xd4; 0xa2; 0xaf; 0x9c; 0xa4; 0x72; 0xc0];
   [0xb7; 0xfd; 0x93; 0x26; 0x36; 0x3f; 0xf7; 0xcc; 0x34; 0xa5; 0xe5; 0xf1; 0x71; 0xd8; 0x31; 0x15];
   [0x04; 0xc7; 0x23; 0xc3; 0x18; 0x96; 0x05; 0x9a; 0x07; 0x12; 0x80; 0xe2; 0xeb; 0x27; 0xb2; 0x75];
   [0x09; 0x83; 0x2c; 0x1a; 0x1b; 0x6e; 0x5a; 0xa0; 0x52; 0x3b; 0xd6; 0xb3; 0x29; 0xe3; 0x2f; 0x84];
   [0x53; 0xd1; 0x00; 0xed; 0x20; 0xfc; 0xb1; 0x5b; 0x6a; 0xcb; 0xbe; 0x39; 0x4a; 0x4c; 0x58; 0xcf];
   [0xd0; 0xef; 0xaa; 0xfb; 0x43; 0x4d; 0x33; 0x85; 0x45; 0xf9; 0x02; 0x7f; 0x50; 0x3c; 0x9f; 0xa8];
   [0x51; 0xa3; 0x40; 0x8f; 0x92; 0x9d; 0x38; 0xf5; 0xbc; 0xb6; 0xda; 0x21; 0x10; 0xff; 0xf3; 0xd2];
   [0xcd; 0x0c; 0x13; 0xec; 0x5f; 0x97; 0x44; 0x17; 0xc4; 0xa7; 0x7e; 0x3d; 0x64; 0x5d; 0x19; 0x73];
   [0x60; 0x81; 0x4f; 0xdc; 0x22; 0x2a; 0x90; 0x88; 0x46; 0xee; 0xb8; 0x14; 0xde; 0x5e; 0x0b; 0xdb];
   [0xe0; 0x32; 0x3a; 0x0a; 0x49; 0x06; 0x24; 0x5c; 0xc2; 0xd3; 0xac; 0x62; 0x91; 0x95; 0xe4; 0x79];
   [0xe7; 0xc8; 0x37; 0x6d; 0x8d; 0xd5; 0x4e; 0xa9; 0x6c; 0x56; 0xf4; 0xea; 0x65; 0x7a; 0xae; 0x08];
   [0xba; 0x78; 0x25; 0x2e; 0x1c; 0xa6; 0xb4; 0xc6; 0xe8; 0xdd; 0x74; 0x1f; 0x4b; 0xbd; 0x8b; 0x8a];
   [0x70; 0x3e; 0xb5; 0x66; 0x48; 0x03; 0xf6; 0x0e; 0x61; 0x35; 0x57; 0xb9; 0x86; 0xc1; 0x1d; 0x9e];
   [0xe1; 0xf8; 0x98; 0x11; 0x69; 0xd9; 0x8e; 0x94; 0x9b; 0x1e; 0x87; 0xe9; 0xce; 0x55; 0x28; 0xdf];
   [0x8c; 0xa1; 0x89; 0x0d; 0xbf; 0xe6; 0x42; 0x68; 0x41; 0x99; 0x2d; 0x0f; 0xb0; 0x54; 0xbb; 0x16]].

(* table lookup on bytes, the definition elsewhere: equal to [sbox] on ALL of N (AesProofs.sbox_fast_eq) *)
Definition sbox_fast (x : N) : N :=
  if x <? 256 then nth (N.to_nat (N.land x 15)) (nth (N.to_nat (N.shiftr x 4)) sbox_rows []) 0
  else sbox x.

(* ------------------------------------------------------------------ the state, section 3.4 *)
(* A state / block / round key is the list of its 16 bytes in input order: s[r,c] = in[r + 4c]. *)
Definition idx16 : list nat := seq 0 16.

Section WithSbox.
  Variable sb : N -> N.

  Definition SubBytes (s : list N) : list N := map sb s.

  (* s'[r,c] = s[r, (c + r) mod 4] (5.1.2) *)
  Definition ShiftRows (s : list N) : list N :=
    map (fun i => nth ((i mod 4) + 4 * ((i / 4 + i mod 4) mod 4))%nat s 0) idx16.

  (* one column times the fixed matrix of (5.6) *)
  Definition mix_column (a0 a1 a2 a3 : N) : list N :=
    [N.lxor (N.lxor (gf_mul a0 2) (gf_mul a1 3)) (N.lxor a2 a3);
     N.lxor (N.lxor a0 (gf_mul a1 2)) (N.lxor (gf_mul a2 3) a3);
     N.lxor (N.lxor a0 a1) (N.lxor (gf_mul a2 2) (gf_mul a3 3));
     N.lxor (N.lxor (gf_mul a0 3) a1) (N.lxor a2 (gf_mul a3 2))].
  Definition MixColumns (s : list N) : list N :=
    flat_map (fun c => mix_column (nth (4 * c)%nat s 0) (nth (4 * c + 1)%nat s 0)
                                  (nth (4 * c + 2)%nat s 0) (nth (4 * c + 3)%nat s 0)) [0; 1; 2; 3]%nat.

  Definition AddRoundKey (s k : list N) : list N :=
    map (fun i => N.lxor (nth i s 0) (nth i k 0)) idx16.

  (* -------------------------------------------------------------- key expansion, section 5.2 *)
  (* a word is the list of its 4 bytes [a0; a1; a2; a3] *)
  Definition word := list N.
  Definition SubWord (w : word) : word := map sb w.
  Definition RotWord (w : word) : word :=
    match w with a0 :: r => r ++ [a0] | [] => [] end.
  Definition xor_word (a b : word) : word :=
    map (fun i => N.lxor (nth i a 0) (nth i b 0)) [0; 1; 2; 3]%nat.
  (* Rcon[j] = [x^(j-1); 0; 0; 0] *)
  Definition Rcon (j : nat) : word := [Nat.iter (j - 1) xtime 1; 0; 0; 0].

  Fixpoint words_of (bytes : list N) (n : nat) : list word :=
    match n with
    | O => []
    | S n' => firstn 4 bytes :: words_of (skipn 4 bytes) n'
    end.

  (* w[i] from w[0..i-1], Figure 11 *)
  Definition next_word (Nk : nat) (w : list word) : word :=
    let i := length w in
    let temp := nth (i - 1) w [] in
    let temp :=
      if (i mod Nk =? 0)%nat then xor_word (SubWord (RotWord temp)) (Rcon (i / Nk))
      else if ((6 <? Nk) && (i mod Nk =? 4))%nat then SubWord temp
      else temp in
    xor_word (nth (i - Nk) w []) temp.

  Fixpoint expand (Nk : nat) (n : nat) (w : list word) : list word :=
    match n with
    | O => w
    | S n' => expand Nk n' (w ++ [next_word Nk w])
    end.

  (* key of 4*Nk bytes -> the 4*(Nr+1) words of the schedule, Nr = Nk + 6 *)
  Definition KeyExpansion (key : list N) : list word :=
    let Nk := (length key / 4)%nat in
    let Nr := (Nk + 6)%nat in
    expand Nk (4 * (Nr + 1) - Nk) (words_of key Nk).

  Definition round_key (w : list word) (r : nat) : list N :=
    concat (firstn 4 (skipn (4 * r) w)).

  (* the schedule as Nr+1 round keys of 16 bytes *)
  Definition round_keys (w : list word) : list (list N) :=
    map (round_key w) (seq 0 (length w / 4)).

  (* -------------------------------------------------------------- Cipher, Figure 5 *)
  Definition mid_round (s k : list N) : list N :=
    AddRoundKey (MixColumns (ShiftRows (SubBytes s))) k.
  Definition final_round (s k : list N) : list N :=
    AddRoundKey (ShiftRows (SubBytes s)) k.

  Definition Cipher (Nr : nat) (w : list word) (inp : list N) : list N :=
    let s := AddRoundKey inp (round_key w 0) in
    let s := fold_left (fun s r => mid_round s (round_key w r)) (seq 1 (Nr - 1)) s in
    final_round s (round_key w Nr).

  Definition Nr_of (key : list N) : nat := (length key / 4 + 6)%nat.

  (* AES-128 / AES-256 (and, incidentally, AES-192) block encryption *)
  Definition aes_encrypt (key inp : list N) : list N :=
    Cipher (Nr_of key) (KeyExpansion key) inp.
End WithSbox.

(* The standard's functions *)
Definition AES_KeyExpansion := KeyExpansion sbox.
Definition AES_encrypt := aes_encrypt sbox.

(* ------------------------------------------------------------------ counter mode *)
(* the 8 bytes of x mod 2^64, most significant first *)
Definition be64 (x : N) : list N :=
  map (fun k => (x / 2 ^ (8 * k)) mod 256) [7; 6; 5; 4; 3; 2; 1; 0].

Fixpoint xor_list (a b : list N) : list N :=
  match a, b with
  | x :: a', y :: b' => N.lxor x y :: xor_list a' b'
  | _, _ => []
  end.

Section Ctr.
  Variable E : list N -> list N.          (* the block cipher under the stream's key *)

  (* keystream block i: E(nonce_be64 || i_be64) *)
  Definition keystream (nonce i : N) : list N := E (be64 nonce ++ be64 i).

  (* n consecutive keystream blocks starting with block B, concatenated *)
  Definition keystream_bytes_from (nonce B : N) (n : nat) : list N :=
    flat_map (keystream nonce) (N_seq B n).

  (* data XOR the keystream from block B on, as many blocks as the data needs (CTR mode is random
     access: this is what a stream positioned at byte 16*B must produce) *)
  Definition ctr_spec_from (nonce B : N) (data : list N) : list N :=
    xor_list data (keystream_bytes_from nonce B ((length data + 15) / 16)%nat).

  (* the first n keystream blocks, and the stream from its beginning *)
  Definition keystream_bytes (nonce : N) (n : nat) : list N := keystream_bytes_from nonce 0 n.
  Definition ctr_spec (nonce : N) (data : list N) : list N := ctr_spec_from nonce 0 data.
End Ctr.
