(* MODEL of the implementation selection of crypto/crypto_aes.c and crypto/crypto_aesctr.c.

   Each of the two translation units has its own  static enum {...} hwaccel = HW_UNSET  and its own
   hwaccel_init().  The translator (tools/extract/x_aes.py, output Gen/Repo_aes_sel.v) turns the two
   hwaccel_init bodies into statement lists and the functions that test hwaccel into dispatch lists,
   for the build with CPUSUPPORT_X86_AESNI defined (prefix ni_) and for the build with no feature
   macro (prefix none_).  This file INTERPRETS those lists as functions of the two facts the C
   consults at run time:

     cpu      : bool   cpusupport_x86_aesni() != 0            (the CPU reports AES-NI)
     selftest : bool   functest(x86_aesni_oneshot) == 0       (the first-use self-test of the AES-NI
                                                               code succeeded, its allocations included)

   A statement / expression / callee name the interpreter does not know is Fault: the model then
   has no value and every theorem about the selection breaks (rather than the extraction).

   The key object returned by crypto_aes_key_expand is either a struct crypto_aes_key_aesni or an
   OpenSSL AES_KEY behind the same opaque pointer type.  [lib_stream] makes the consequence
   explicit: a callee applied to the other kind of object is Fault (the C reads a 244-byte AES_KEY
   as round-key pointer + round count).  OpenSSL itself is NOT modelled: it enters as the Section
   variable [ossl] (key -> block -> block, AES_set_encrypt_key followed by AES_encrypt).
   No proofs in this file. *)
From Coq Require Import NArith List Bool Arith String Ascii.
From LCP Require Import Base.CheckedMem.
From LCP Require Import Gen.Repo_aes.
From LCP Require Import Gen.Repo_aes_sel.
From LCP Require Import Crypto.AesSpec.
From LCP Require Import Accel.AesNi.
From LCP Require Import Crypto.AesCtrModel.
From LCP Require Import Crypto.AesWipe.
From LCP Require Import Crypto.AesRepo.
Import ListNotations.
Local Open Scope N_scope.
Local Open Scope res_scope.

(* C text as the translator writes it: the bytes of the text *)
Definition txt (s : string) : list N := map N_of_ascii (list_ascii_of_string s).

Definition prog := list (N * list N * list N * list N * N).

(* the one macro body this interpreter knows the meaning of (whitespace removed):
   run the check only if the CPU predicate holds; on check == 0 assign and RETURN; else warn and go on *)
Definition known_validate_macro : list N :=
  txt "do{if((cpusupport_checks)){if((check)==0){(hwvar)=(success_value);return;}else{warn0(""Disabling""#success_value""duetofailedself-test"");}}}while(0)".

Section Interp.
  Variable validate_body : list N.          (* CPUSUPPORT_VALIDATE as it is in cpusupport.h now *)
  Variable eval : list N -> option N.       (* the value of a C expression text, if known *)

  (* values V of the `case V:` labels of the switch over [scrut] *)
  Definition case_values (whole : prog) (scrut : list N) : list N :=
    flat_map (fun e => let '(k, _, ex, _, v) := e in
                       if ((k =? 5) || (k =? 6)) && list_eqb ex scrut then [v] else []) whole.

  (* hwaccel_init: returns the value of hwaccel when the function returns *)
  Fixpoint run_init (whole p : prog) (hw : list N) {struct p} : res (list N) :=
    match p with
    | [] => Ok hw
    | (k, v, e1, e2, num) :: r =>
      if k =? 1 then                       (* if (hwaccel != V) return; *)
        if list_eqb hw v then run_init whole r hw else Ok hw
      else if k =? 2 then                  (* hwaccel = V; *)
        run_init whole r v
      else if k =? 3 then                  (* CPUSUPPORT_VALIDATE(hwaccel, V, e1, e2); *)
        if negb (list_eqb validate_body known_validate_macro) then Fault else
        match eval e1 with
        | None => Fault
        | Some c =>
          if c =? 0 then run_init whole r hw else
          match eval e2 with
          | None => Fault
          | Some t => if t =? 0 then Ok v else run_init whole r hw
          end
        end
      else if k =? 4 then                  (* if (e1) { warn0(..); abort(); } *)
        match eval e1 with
        | None => Fault
        | Some c => if c =? 0 then run_init whole r hw else AssertFail
        end
      else if k =? 5 then                  (* switch (e1) { case num: hwaccel = V; break; *)
        match eval e1 with
        | None => Fault
        | Some c => run_init whole r (if c =? num then v else hw)
        end
      else if k =? 6 then                  (* case num: break; *)
        match eval e1 with
        | None => Fault
        | Some _ => run_init whole r hw
        end
      else if k =? 7 then                  (* default: assert(0); *)
        match eval e1 with
        | None => Fault
        | Some c => if existsb (N.eqb c) (case_values whole e1) then run_init whole r hw else AssertFail
        end
      else if k =? 8 then                  (* if (e1) hwaccel = V; *)
        match eval e1 with
        | None => Fault
        | Some c => run_init whole r (if c =? 0 then hw else v)
        end
      else Fault                           (* a statement the translator had no form for *)
    end.

  (* a function that tests hwaccel.  Returns (hwaccel afterwards, what it returns / whom it calls) *)
  Fixpoint dispatch (init : prog) (p : prog) (buflen : N) (hw : list N) {struct p}
    : res (list N * list N) :=
    match p with
    | [] => Fault
    | (k, v, result, cond, _) :: r =>
      if k =? 21 then                      (* hwaccel_init(); *)
        let* hw' := run_init init init hw in dispatch init r buflen hw'
      else if k =? 22 then                 (* if (cond && hwaccel == V) -> result *)
        let* c := (if list_eqb cond [] then Ok true
                   else if list_eqb cond (txt "buflen>=16") then Ok (16 <=? buflen)
                   else Fault) in
        if c && list_eqb hw v then Ok (hw, result) else dispatch init r buflen hw
      else if k =? 23 then Ok (hw, result) (* the fall-through code *)
      else Fault
    end.

  (* hwaccel after a function that only (possibly) calls hwaccel_init: crypto_aesctr_init2 *)
  Fixpoint run_calls (init : prog) (p : prog) (hw : list N) {struct p} : res (list N) :=
    match p with
    | [] => Ok hw
    | (k, _, _, _, _) :: r =>
      if k =? 21 then let* hw' := run_init init init hw in run_calls init r hw' else Fault
    end.
End Interp.

Definition b2n (b : bool) : N := if b then 1 else 0.

(* decimal text of a return value *)
Definition num_of_txt (t : list N) : option N :=
  if list_eqb t (txt "0") then Some 0 else if list_eqb t (txt "1") then Some 1
  else if list_eqb t (txt "2") then Some 2 else None.

(* the regenerated selection data of one build configuration *)
Record seldata := mkseldata {
  validate_body : list N;                                   (* cpusupport.h *)
  aes_unset : list N; aes_init : prog;                      (* crypto_aes.c: hwaccel, hwaccel_init *)
  aes_can_use : prog; aes_key_expand : prog; aes_encrypt_block : prog;
  ctr_unset : list N; ctr_init : prog;                      (* crypto_aesctr.c: hwaccel, hwaccel_init *)
  ctr_init2 : prog; ctr_stream : prog }.

Inductive keyobj :=
| KeyAesni (k : list m128 * N)       (* struct crypto_aes_key_aesni: round keys, nr *)
| KeyOpenssl (key : list N).         (* AES_KEY, as filled by AES_set_encrypt_key(key) *)

Section Select.
  Variable d : seldata.
  Variables cpu selftest : bool.

  (* ---- crypto_aes.c.  functest(openssl_oneshot) is taken to succeed (part of the assumption that
     OpenSSL is FIPS-197: the vectors are, C02_selftest_vectors_are_fips197); on failure the C aborts. *)
  Definition eval_aes (e : list N) : option N :=
    if list_eqb e (txt "cpusupport_x86_aesni()") then Some (b2n cpu)
    else if list_eqb e (txt "functest(x86_aesni_oneshot)") then Some (if selftest then 0 else 4294967295)
    else if list_eqb e (txt "functest(openssl_oneshot)") then Some 0
    else None.

  (* hwaccel of crypto_aes.c after the first hwaccel_init() *)
  Definition aes_hw : res (list N) := run_init (validate_body d) eval_aes (aes_init d) (aes_init d) (aes_unset d).

  (* crypto_aes_can_use_intrinsics(), called with hwaccel = hw: (hwaccel afterwards, value) *)
  Definition aes_can_use_from (hw : list N) : res (list N * N) :=
    let* (hw', t) := dispatch (validate_body d) eval_aes (aes_init d) (aes_can_use d) 0 hw in
    match num_of_txt t with Some n => Ok (hw', n) | None => Fault end.

  (* the first crypto_aes_key_expand of the process: (hwaccel afterwards, constructor called) *)
  Definition aes_key_expand_callee : res (list N * list N) :=
    dispatch (validate_body d) eval_aes (aes_init d) (aes_key_expand d) 0 (aes_unset d).

  (* crypto_aes_encrypt_block with hwaccel = hw: the block function applied to the key object *)
  Definition aes_encrypt_callee (hw : list N) : res (list N) :=
    let* (_, t) := dispatch (validate_body d) eval_aes (aes_init d) (aes_encrypt_block d) 0 hw in Ok t.

  (* ---- crypto_aesctr.c.  It runs after crypto_aes.c has latched its choice (a stream needs an
     expanded key), so crypto_aes_can_use_intrinsics() is evaluated from that hwaccel. *)
  Definition eval_ctr (aes_hw_now : list N) (e : list N) : option N :=
    if list_eqb e (txt "crypto_aes_can_use_intrinsics()") then
      match aes_can_use_from aes_hw_now with Ok (_, n) => Some n | _ => None end
    else if list_eqb e (txt "cpusupport_x86_aesni()") then Some (b2n cpu)
    else None.

  (* hwaccel of crypto_aesctr.c after crypto_aesctr_init2 *)
  Definition ctr_hw (aes_hw_now : list N) : res (list N) :=
    run_calls (validate_body d) (eval_ctr aes_hw_now) (ctr_init d) (ctr_init2 d) (ctr_unset d).

  (* crypto_aesctr_stream with hwaccel = hw and a buflen-byte call: whom it hands the call to *)
  Definition ctr_stream_callee (aes_hw_now hw : list N) (buflen : N) : res (list N) :=
    let* (_, t) := dispatch (validate_body d) (eval_ctr aes_hw_now) (ctr_init d) (ctr_stream d) buflen hw in Ok t.

  (* ---- summary of one process: what the four observable choices are *)
  Definition key_is_aesni : res bool :=                    (* key objects are struct crypto_aes_key_aesni *)
    let* (_, t) := aes_key_expand_callee in
    if list_eqb t (txt "crypto_aes_key_expand_aesni") then Ok true
    else if list_eqb t (txt "AES_set_encrypt_key") then Ok false else Fault.
  Definition block_is_aesni : res bool :=                  (* crypto_aes_encrypt_block reads them as such *)
    let* (hw, _) := aes_key_expand_callee in
    let* t := aes_encrypt_callee hw in
    if list_eqb t (txt "crypto_aes_encrypt_block_aesni") then Ok true
    else if list_eqb t (txt "AES_encrypt") then Ok false else Fault.
  Definition can_use : res N :=                            (* crypto_aes_can_use_intrinsics() *)
    let* (hw, _) := aes_key_expand_callee in
    let* (_, n) := aes_can_use_from hw in Ok n.
  Definition bulk_is_aesni (buflen : N) : res bool :=      (* crypto_aesctr_stream hands a buflen-byte call to the AES-NI code *)
    let* (hwa, _) := aes_key_expand_callee in
    let* hwc := ctr_hw hwa in
    let* t := ctr_stream_callee hwa hwc buflen in
    if list_eqb t (txt "crypto_aesctr_aesni_stream") then Ok true
    else if list_eqb t (txt "portable") then Ok false else Fault.

  (* ---- the data path under that selection *)
  Variable ossl : list N -> list N -> list N.              (* OpenSSL: key -> block -> block; NOT modelled *)


  (* crypto_aes_key_expand *)
  Definition lib_key_expand (key : list N) : res keyobj :=
    let* ni := key_is_aesni in
    if ni then match x_key_expand_aesni key with Some k => Ok (KeyAesni k) | None => AssertFail end
    else if ((List.length key =? 16) || (List.length key =? 32))%nat then Ok (KeyOpenssl key) else AssertFail.

  (* crypto_aes_encrypt_block(., ., ko) *)
  Definition lib_block (ko : keyobj) : res (list N -> list N) :=
    let* ni := block_is_aesni in
    match ni, ko with
    | true, KeyAesni k => Ok (x_encrypt_block_aesni k)
    | false, KeyOpenssl key => Ok (ossl key)
    | _, _ => Fault                                       (* the object is of the other kind *)
    end.

  (* crypto_aesctr_stream(stream, inp, ., length inp), stream->key = ko *)
  Definition lib_stream (ko : keyobj) (s : st) (inp : list N) : res (st * list N) :=
    let* bulk := bulk_is_aesni (N.of_nat (List.length inp)) in
    if bulk then
      match ko with                                        (* crypto_aesctr_aesni_stream: aesenc on ko's round keys *)
      | KeyAesni k => stream_aesni (x_encrypt_block_aesni k) s inp
      | KeyOpenssl _ => Fault
      end
    else
      let* E := lib_block ko in stream E s inp.

  Fixpoint lib_stream_all (ko : keyobj) (s : st) (chunks : list (list N)) : res (st * list (list N)) :=
    match chunks with
    | [] => Ok (s, [])
    | c :: r =>
      let* (s1, o) := lib_stream ko s c in
      let* (s2, os) := lib_stream_all ko s1 r in
      Ok (s2, o :: os)
    end.

  (* key_expand; init2 on an object with arbitrary prior content; the calls *)
  Definition lib_aesctr (key : list N) (nonce : N) (any : st) (chunks : list (list N))
    : res (st * list (list N)) :=
    let* ko := lib_key_expand key in
    lib_stream_all ko (x_init2 nonce any) chunks.
End Select.

(* ---- instances with the regenerated data *)
Definition ni_data : seldata :=          (* build with CPUSUPPORT_X86_AESNI *)
  mkseldata validate_macro ni_aes_unset ni_aes_init ni_aes_can_use ni_aes_key_expand ni_aes_encrypt_block
            ni_ctr_unset ni_ctr_init ni_ctr_init2 ni_ctr_stream.
Definition none_data : seldata :=        (* build with no feature macro *)
  mkseldata validate_macro none_aes_unset none_aes_init none_aes_can_use none_aes_key_expand none_aes_encrypt_block
            none_ctr_unset none_ctr_init none_ctr_init2 none_ctr_stream.

Definition x_key_is_aesni := key_is_aesni ni_data.
Definition x_block_is_aesni := block_is_aesni ni_data.
Definition x_can_use := can_use ni_data.
Definition x_bulk_is_aesni := bulk_is_aesni ni_data.
Definition x_aes_hw := aes_hw ni_data.
Definition x_lib_key_expand := lib_key_expand ni_data.
Definition x_lib_block := lib_block ni_data.
Definition x_lib_stream := lib_stream ni_data.
Definition x_lib_stream_all := lib_stream_all ni_data.
Definition x_lib_aesctr := lib_aesctr ni_data.

Definition x0_key_is_aesni := key_is_aesni none_data.
Definition x0_block_is_aesni := block_is_aesni none_data.
Definition x0_can_use := can_use none_data.
Definition x0_bulk_is_aesni := bulk_is_aesni none_data.
Definition x0_lib_aesctr := lib_aesctr none_data.

(* what the correspondence run asks the extracted model: (can_use, key objects AES-NI?, block function
   AES-NI?, a 16-byte call handed to the AES-NI stream code?, a 15-byte call?) for one (cpu, selftest) *)
Definition x_selection (cpu selftest : bool) : res (N * bool * bool * bool * bool) :=
  let* n := x_can_use cpu selftest in
  let* k := x_key_is_aesni cpu selftest in
  let* b := x_block_is_aesni cpu selftest in
  let* s16 := x_bulk_is_aesni cpu selftest 16 in
  let* s15 := x_bulk_is_aesni cpu selftest 15 in
  Ok (n, k, b, s16, s15).
