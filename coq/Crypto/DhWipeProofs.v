(* C20-M3 proofs: on EVERY path through crypto_dh_compute / crypto_dh_generate_pub (every
   failure oracle over the fallible steps of the program regenerated from crypto_dh.c), every
   bignum that holds a value derived from priv or blinding is released by BN_clear_free, and every
   allocated bignum / BN_CTX is released exactly once. *)
From Coq Require Import Arith NArith List Bool.
From LCP Require Import Crypto.DhWipeDefs Gen.Repo_dhwipe Crypto.DhWipeModel.
Import ListNotations.

(* the outcome depends only on the oracle's entries up to the first failure: split the oracle
   entry by entry; a finished oracle ([]) or a failure (false :: _) fixes the whole event list
   (never run vm_compute on a goal whose next oracle entry is still symbolic) *)
Ltac split_oracle o :=
  destruct o as [|[|] o];
  [ vm_compute; split; reflexivity | | vm_compute; split; reflexivity ].

(* compute consumes 1 + 20 oracle entries, generate_pub 2 + 20; 30 splits leave room *)
Theorem compute_w_ok : forall o,
  secrets_cleared (snd (compute_w o)) = true /\ balanced (snd (compute_w o)) = true.
Proof. intros o. do 30 (split_oracle o). vm_compute. split; reflexivity. Qed.

Theorem generate_pub_w_ok : forall o,
  secrets_cleared (snd (generate_pub_w o)) = true /\ balanced (snd (generate_pub_w o)) = true.
Proof. intros o. do 30 (split_oracle o). vm_compute. split; reflexivity. Qed.

(* blinded_modexp on its own, whatever the secrecy of the base a: every release of a secret is
   a clearing one (a itself is released by the caller) *)
Theorem blinded_modexp_w_secrets_cleared : forall a_secret o,
  secrets_cleared (snd (fst (repo_blinded_modexp_w a_secret o))) = true.
Proof.
  intros a_secret o. destruct a_secret;
    (do 30 (destruct o as [|[|] o]; [vm_compute; reflexivity | | vm_compute; reflexivity]));
    vm_compute; reflexivity.
Qed.

(* the taint is not vacuous: on the success path five bignums are secret (priv_bn, blinding_bn,
   priv_blinded, r1, r2) and all five are clear-freed; two_exp_256_bn, m_bn and a are not secret *)
Example success_path_events :
  snd (compute_w []) =
  [BnAlloc 0; BnAlloc 1; BnAlloc 2; BnAlloc 3; BnAlloc 4; BnAlloc 5; CtxAlloc; BnAlloc 6; BnAlloc 7;
   BnFree 7 true true; BnFree 6 true true; CtxFree; BnFree 5 false false; BnFree 4 true true;
   BnFree 3 true true; BnFree 2 true true; BnFree 1 false false; BnFree 0 false false].
Proof. vm_compute. reflexivity. Qed.

(* the predicates do reject: a plain free of a secret, a missing free, a double free *)
Example predicates_reject :
  secrets_cleared [BnAlloc 2; BnFree 2 true false] = false /\
  balanced [BnAlloc 1; BnAlloc 2; BnFree 2 true true] = false /\
  balanced [BnAlloc 1; BnFree 1 false false; BnFree 1 false false] = false /\
  balanced [BnFree 1 false false] = false /\ balanced [CtxAlloc] = false.
Proof. vm_compute. repeat split. Qed.
