(* C10 SPEC: Diffie-Hellman in the RFC 3526 group 14, written independently of the C code.
   The prime below is transcribed from RFC 3526 section 3 ("2048-bit MODP Group"); it is NOT
   derived from crypto/crypto_dh_group14.c (that table is regenerated into Gen.Repo_dhdrbg and
   compared with this literal by the lemma repo_group14_eq_rfc3526). *)
From Coq Require Import ZArith NArith List.
Import ListNotations.
Local Open Scope Z_scope.

(* RFC 3526, section 3: 2^2048 - 2^1984 - 1 + 2^64 * { [2^1918 pi] + 124476 }, hexadecimal value: *)
Definition rfc3526_group14 : Z :=
  0xFFFFFFFFFFFFFFFFC90FDAA22168C234C4C6628B80DC1CD129024E088A67CC74020BBEA63B139B22514A08798E3404DDEF9519B3CD3A431B302B0A6DF25F14374FE1356D6D51C245E485B576625E7EC6F44C42E9A637ED6B0BFF5CB6F406B7EDEE386BFB5A899FA5AE9F24117C4B1FE649286651ECE45B3DC2007CB8A163BF0598DA48361C55D39A69163FA8FD24CF5F83655D23DCA3AD961C62F356208552BB9ED529077096966D670C354E4ABC9804F1746C08CA18217C32905E462E36CE3BE39E772C180E86039B2783A2EC07A28FB5C55DF06F4C52C9DE2BCBF6955817183995497CEA956AE515D2261898FA051015728E5A8AACAA68FFFFFFFFFFFFFFFF.

(* the exponent used for a 256-bit private value x *)
Definition dh_exponent (x : Z) : Z := 2 ^ 258 + x.

(* public value for private value x; shared key from the peer's value y and own private value x *)
Definition dh_pub_spec (x : Z) : Z := (2 ^ dh_exponent x) mod rfc3526_group14.
Definition dh_key_spec (y x : Z) : Z := (y ^ dh_exponent x) mod rfc3526_group14.

(* a public value is sane iff it is numerically below p *)
Definition dh_sane_spec (y : Z) : bool := y <? rfc3526_group14.
