(* C20-M3 MODEL: release events of crypto_dh.c under a failure oracle.
   The program of blinded_modexp (steps / error ladder / success releases) is regenerated from
   the C text into Gen/Repo_dhwipe.v; this file interprets it:
     - every fallible step consumes one entry of the oracle (list bool; exhausted = success);
       a failing step jumps to its label and the releases behind that label run, falling through
       to the end of the ladder; if no step fails the success releases run;
     - secrecy is a taint computed by dataflow: BN_bin2bn of priv / blinding is secret; the
       destination of BN_add / BN_sub / BN_mod_exp / BN_mod_mul becomes secret if any bignum
       operand is (also when the call then fails: a partial result may have been written);
     - events: BnAlloc v, BnFree v secret cleared, CtxAlloc, CtxFree.
   The two public wrappers crypto_dh_generate_pub / crypto_dh_compute are modelled by hand (they
   allocate variable 0, call blinded_modexp, BN_free(variable 0)).  No proofs here. *)
From Coq Require Import Arith NArith List Bool.
From LCP Require Import Crypto.DhWipeDefs Gen.Repo_dhwipe.
Import ListNotations.

Inductive wev : Type :=
| BnAlloc (v : nat)
| BnFree (v : nat) (secret cleared : bool)
| CtxAlloc
| CtxFree.

Definition pop (o : list bool) : bool * list bool :=
  match o with [] => (true, []) | b :: r => (b, r) end.

(* taint environment: the list of secret variables *)
Definition tainted (env : list nat) (v : nat) : bool := existsb (Nat.eqb v) env.
Definition taint_if (b : bool) (env : list nat) (v : nat) : list nat := if b then v :: env else env.

Definition rel_event (env : list nat) (r : wrel) : wev :=
  match r with
  | RClear v => BnFree v (tainted env v) true
  | RFree v => BnFree v (tainted env v) false
  | RCtxFree => CtxFree
  end.

(* the releases executed after a jump to [lbl]: everything from that label to the end *)
Fixpoint ladder_from (ladder : list (nat * list wrel)) (lbl : nat) : list wrel :=
  match ladder with
  | [] => []
  | (l, rs) :: rest => if Nat.eqb l lbl then rs ++ concat (map snd rest) else ladder_from rest lbl
  end.

(* run the steps: (None = all done | Some lbl = jumped to lbl, taint env, events, rest of oracle) *)
Fixpoint run_steps (steps : list wstep) (o : list bool) (env : list nat)
  : option nat * list nat * list wev * list bool :=
  match steps with
  | [] => (None, env, [], o)
  | s :: rest =>
    let '(ok, o1) := pop o in
    let '(env1, evs, lbl) :=
      match s with
      | SAllocBin d sec l => (taint_if (ok && sec) env d, (if ok then [BnAlloc d] else []), l)
      | SAllocNew d l => (env, (if ok then [BnAlloc d] else []), l)
      | SCtxNew l => (env, (if ok then [CtxAlloc] else []), l)
      | SOp d srcs l => (taint_if (existsb (tainted env) srcs) env d, [], l)
      | SEntropy l => (env, [], l)
      | SCheck l => (env, [], l)
      end in
    if ok then
      let '(r, env2, evs2, o2) := run_steps rest o1 env1 in (r, env2, evs ++ evs2, o2)
    else (Some lbl, env1, evs, o1)
  end.

(* blinded_modexp(r, a, priv): [a_secret] = taint of the parameter a (variable 0).
   Returns (reached the end without a jump, events, rest of the oracle) *)
Definition blinded_modexp_w (steps : list wstep) (succ : list wrel) (ladder : list (nat * list wrel))
           (a_secret : bool) (o : list bool) : bool * list wev * list bool :=
  let '(r, env, evs, o1) := run_steps steps o (taint_if a_secret [] 0) in
  match r with
  | None => (true, evs ++ map (rel_event env) succ, o1)
  | Some lbl => (false, evs ++ map (rel_event env) (ladder_from ladder lbl), o1)
  end.

Definition repo_blinded_modexp_w := blinded_modexp_w dh_bm_steps dh_bm_success_releases dh_bm_ladder.

(* crypto_dh_generate_pub: two = BN_new(); BN_set_word(two, 2); blinded_modexp(pub, two, priv); BN_free(two) *)
Definition generate_pub_w (o : list bool) : bool * list wev :=
  let '(ok1, o) := pop o in
  if negb ok1 then (false, [])
  else
    let '(ok2, o) := pop o in
    if negb ok2 then (false, [BnAlloc 0; BnFree 0 false false])
    else
      let '(ok3, evs, _) := repo_blinded_modexp_w false o in
      (ok3, BnAlloc 0 :: evs ++ [BnFree 0 false false]).

(* crypto_dh_compute: a = BN_bin2bn(pub, ..); blinded_modexp(key, a, priv); BN_free(a).  The
   peer's public value is not a secret. *)
Definition compute_w (o : list bool) : bool * list wev :=
  let '(ok1, o) := pop o in
  if negb ok1 then (false, [])
  else
    let '(ok3, evs, _) := repo_blinded_modexp_w false o in
    (ok3, BnAlloc 0 :: evs ++ [BnFree 0 false false]).

(* ---------------- the predicates of the theorem (boolean, so they also run in the harness) ---------------- *)
(* every bignum holding a secret is clear-freed *)
Definition secrets_cleared (evs : list wev) : bool :=
  forallb (fun e => match e with BnFree _ s c => c || negb s | _ => true end) evs.

(* every allocated bignum / context is freed exactly once, after its allocation, and nothing
   is allocated twice: replay with the set of live variables and the set of all seen ones *)
Fixpoint balanced_go (live seen : list nat) (ctx : bool) (evs : list wev) : bool :=
  match evs with
  | [] => match live with [] => negb ctx | _ => false end
  | BnAlloc v :: r => negb (existsb (Nat.eqb v) seen) && balanced_go (v :: live) (v :: seen) ctx r
  | BnFree v _ _ :: r => existsb (Nat.eqb v) live && balanced_go (filter (fun x => negb (Nat.eqb v x)) live) seen ctx r
  | CtxAlloc :: r => negb ctx && balanced_go live seen true r
  | CtxFree :: r => ctx && balanced_go live seen false r
  end.
Definition balanced (evs : list wev) : bool := balanced_go [] [] false evs.

(* ---------------- for the harness ---------------- *)
(* the oracle that makes the k-th fallible CALL fail (SCheck steps are not calls and succeed) *)
Fixpoint oracle_failing_call (steps : list wstep) (k : nat) : list bool :=
  match steps with
  | [] => []
  | SCheck _ :: rest => true :: oracle_failing_call rest k
  | _ :: rest => match k with O => [false] | S k' => true :: oracle_failing_call rest k' end
  end.

(* rendering, same format as harness/drv_dh.c prints for "wipe" case lines *)
From Coq Require Import String Ascii.
Local Open Scope string_scope.

Definition digit (n : nat) : string :=
  match n with
  | 0 => "0" | 1 => "1" | 2 => "2" | 3 => "3" | 4 => "4" | 5 => "5" | 6 => "6" | 7 => "7" | 8 => "8" | _ => "9"
  end%nat.
Definition show_nat (n : nat) : string :=
  if Nat.ltb n 10 then digit n else append (digit (Nat.div n 10)) (digit (Nat.modulo n 10)).   (* n < 100 *)
Definition show_wev (e : wev) : string :=
  match e with
  | BnAlloc v => append "A" (show_nat v)
  | BnFree v _ true => append "C" (show_nat v)
  | BnFree v _ false => append "F" (show_nat v)
  | CtxAlloc => "X+"
  | CtxFree => "X-"
  end.
Fixpoint show_wevs (l : list wev) : string :=
  match l with
  | [] => ""
  | [e] => show_wev e
  | e :: r => append (show_wev e) (append "," (show_wevs r))
  end.
Definition show_wipe (r : bool * list wev) : string :=
  let '(ok, evs) := r in
  append (if ok then "rc=0 ev=" else "rc=-1 ev=")
    (append (show_wevs evs)
      (append (if secrets_cleared evs then " leak=0" else " leak=1")
              (if balanced evs then " live=0" else " live=unbalanced"))).

(* k = None: nothing fails; Some k: the k-th fallible call of the whole API call fails *)
Definition wipe_compute_case (k : option nat) : string :=
  show_wipe (compute_w (match k with
                        | None => []
                        | Some O => [false]
                        | Some (S k') => true :: oracle_failing_call dh_bm_steps k'
                        end)).
Definition wipe_generate_pub_case (k : option nat) : string :=
  show_wipe (generate_pub_w (match k with
                             | None => []
                             | Some O => [false]
                             | Some (S O) => [true; false]
                             | Some (S (S k')) => true :: true :: oracle_failing_call dh_bm_steps k'
                             end)).
