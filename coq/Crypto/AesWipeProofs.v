(* C20-M2 for the AES objects: interpreting the insecure_memzero / free call lists regenerated from
   crypto_aes_key_free_aesni, crypto_aes_key_free (software tail) and crypto_aesctr_free, exactly
   one block is handed to the allocator and every byte of it is zero, whatever the object held. *)
From Coq Require Import NArith List Bool Lia.
From LCP Require Import Gen.Repo_aes.
From LCP Require Import Crypto.AesWipe.
From LCP Require Import Crypto.AesRepo.
Import ListNotations.
Local Open Scope N_scope.

Lemma all_zero_repeat n : all_zero (repeat 0 n) = true.
Proof. induction n as [|n IH]; [reflexivity|]. cbn [repeat all_zero forallb]. exact IH. Qed.

Definition released_zeroed (free_fn : list N -> list (list N)) : Prop :=
  forall obj, exists z, free_fn obj = [z] /\ length z = length obj /\ all_zero z = true.

Lemma zeroed_intro (free_fn : list N -> list (list N)) :
  (forall obj, free_fn obj = [repeat 0 (length obj)]) -> released_zeroed free_fn.
Proof.
  intros H obj. exists (repeat 0 (length obj)). split; [apply H|].
  split; [apply repeat_length | apply all_zero_repeat].
Qed.

Theorem key_free_aesni_zero : released_zeroed x_key_free_aesni.
Proof. apply zeroed_intro. intros obj. reflexivity. Qed.

Theorem key_free_sw_zero : released_zeroed x_key_free_sw.
Proof. apply zeroed_intro. intros obj. reflexivity. Qed.

Theorem key_free_sw_ni_zero : released_zeroed x_key_free_sw_ni.
Proof. apply zeroed_intro. intros obj. reflexivity. Qed.

Theorem aesctr_free_zero : released_zeroed x_aesctr_free.
Proof. apply zeroed_intro. intros obj. reflexivity. Qed.

(* non-vacuity / sensitivity: an object full of key bytes is released as zeros, and the interpreter
   does report a dirty release when the wipe is missing or covers a different size *)
Example wipe_example :
  x_aesctr_free [1; 2; 3; 4; 5; 6; 7; 8] = [[0; 0; 0; 0; 0; 0; 0; 0]].
Proof. reflexivity. Qed.

Example wipe_missing_is_seen :
  run_free_calls alloc_expr_ctr [(2, [])] [1; 2; 3] = [[1; 2; 3]].
Proof. reflexivity. Qed.

Example wipe_wrong_size_is_seen :
  run_free_calls alloc_expr_ctr [(1, [115; 105; 122; 101; 111; 102; 40; 115; 116; 114; 101; 97; 109; 41]); (2, [])] [1; 2; 3]
  = [[1; 2; 3]].
Proof. reflexivity. Qed.
