(* Proofs about the implementation selection of crypto_aes.c / crypto_aesctr.c (model: AesSelect.v,
   data: Gen/Repo_aes_sel.v regenerated from the C text).

   1. sel_agree (and sel_agree_none): for each of the four outcomes of (CPU reports AES-NI, first-use
      self-test passes) the two modules make the SAME choice: key objects are AES-NI objects, the
      block function reads them as such, crypto_aes_can_use_intrinsics() says so, and
      crypto_aesctr_stream hands a call to the AES-NI stream code - all exactly when cpu && selftest
      (and, for the last, the call has >= 16 bytes).
   2. aes_choice_is_latched: once made, the choice of crypto_aes.c does not change, whatever the
      CPU predicate / self-test would answer later.
   3. aesctr_any_selection_is_ctr_of_fips197: hence, for every outcome, key size 16/32, nonce, prior
      object content and partition into calls, the library's AES-CTR output is ctr_spec of FIPS-197
      AES and no call is applied to a key object of the other kind (the model has no Fault);
      ASSUMING that OpenSSL's AES_set_encrypt_key + AES_encrypt is FIPS-197 AES (hypothesis on the
      Section variable ossl; OpenSSL is not modelled).
   4. aesctr_any_build_any_selection_same_bytes: two builds (with / without CPUSUPPORT_X86_AESNI),
      two outcomes, two partitions of the same data: the same bytes. *)
From Coq Require Import NArith List Arith Bool Lia.
From LCP Require Import Base.CheckedMem.
From LCP Require Import Gen.Repo_aes.
From LCP Require Import Gen.Repo_aes_sel.
From LCP Require Import Crypto.AesSpec.
From LCP Require Import Crypto.AesProofs.
From LCP Require Import Accel.AesNi.
From LCP Require Import Crypto.AesCtrModel.
From LCP Require Import Crypto.AesRepo.
From LCP Require Import Accel.AesNiProofs.
From LCP Require Import Accel.AesNiKeyProofs.
From LCP Require Import Crypto.AesCtrProofs.
From LCP Require Import Crypto.AesTop.
From LCP Require Import Crypto.AesSelect.
Import ListNotations.
Local Open Scope N_scope.

(* ------------------------------------------------------------------ 1. the two modules agree *)
Definition agree (d : seldata) (cpu selftest : bool) (b hw : bool) : Prop :=
  key_is_aesni d cpu selftest = Ok b /\
  block_is_aesni d cpu selftest = Ok b /\
  can_use d cpu selftest = Ok (b2n b) /\
  (forall n, bulk_is_aesni d cpu selftest n = Ok ((16 <=? n) && hw)).

Lemma sel_agree : forall cpu selftest,
  agree ni_data cpu selftest (cpu && selftest) (cpu && selftest).
Proof.
  intros cpu selftest. unfold agree.
  destruct cpu, selftest; (split; [vm_compute; reflexivity|]); (split; [vm_compute; reflexivity|]);
    (split; [vm_compute; reflexivity|]); intros n;
    unfold bulk_is_aesni; cbv -[N.leb]; destruct (16 <=? n); reflexivity.
Qed.

(* the build without any feature macro: everything is the OpenSSL / portable code *)
Lemma sel_agree_none : forall cpu selftest, agree none_data cpu selftest false false.
Proof.
  intros cpu selftest. unfold agree.
  destruct cpu, selftest; (split; [vm_compute; reflexivity|]); (split; [vm_compute; reflexivity|]);
    (split; [vm_compute; reflexivity|]); intros n;
    unfold bulk_is_aesni; cbv -[N.leb]; destruct (16 <=? n); reflexivity.
Qed.

(* the form quoted in the property file *)
Theorem aes_ctr_selection_agree : forall cpu selftest n,
  exists key_ni bulk_ni,
    x_key_is_aesni cpu selftest = Ok key_ni /\
    x_block_is_aesni cpu selftest = Ok key_ni /\
    x_can_use cpu selftest = Ok (if key_ni then 1 else 0) /\
    x_bulk_is_aesni cpu selftest n = Ok bulk_ni /\
    key_ni = (cpu && selftest)%bool /\
    bulk_ni = ((16 <=? n) && key_ni)%bool.
Proof.
  intros cpu selftest n. destruct (sel_agree cpu selftest) as (H1 & H2 & H3 & H4).
  exists (cpu && selftest)%bool, ((16 <=? n) && (cpu && selftest))%bool.
  repeat split; try assumption. apply H4.
Qed.

(* in particular: a call is handed to the AES-NI stream code only if the key object is an AES-NI object *)
Corollary bulk_only_on_aesni_keys : forall cpu selftest n,
  x_bulk_is_aesni cpu selftest n = Ok true -> x_key_is_aesni cpu selftest = Ok true.
Proof.
  intros cpu selftest n H. destruct (sel_agree cpu selftest) as (H1 & _ & _ & H4).
  change (x_bulk_is_aesni cpu selftest n) with (bulk_is_aesni ni_data cpu selftest n) in H.
  rewrite H4 in H. injection H as H. apply andb_prop in H. destruct H as [_ H].
  unfold x_key_is_aesni. rewrite H1, H. reflexivity.
Qed.

(* ------------------------------------------------------------------ 2. the choice is latched *)
Theorem aes_choice_is_latched : forall cpu selftest cpu' selftest' hw,
  x_aes_hw cpu selftest = Ok hw ->
  run_init (validate_body ni_data) (eval_aes cpu' selftest') (aes_init ni_data) (aes_init ni_data) hw = Ok hw.
Proof.
  intros cpu selftest cpu' selftest' hw H.
  destruct cpu, selftest; vm_compute in H; injection H as <-;
    destruct cpu', selftest'; vm_compute; reflexivity.
Qed.

(* ------------------------------------------------------------------ 3. the data path *)
Section DataPath.
  Variable ossl : list N -> list N -> list N.
  Hypothesis ossl_is_fips197 : forall key b,
    (length key = 16 \/ length key = 32)%nat -> ossl key b = AES_encrypt key b.

  Variable d : seldata.
  Variables cpu selftest b hw : bool.
  Hypothesis Hagree : agree d cpu selftest b hw.
  Hypothesis Hhw : hw = true -> b = true.

  (* a key object and the block function it stands for, as the selection b builds them *)
  Definition matches (ko : keyobj) (E : list N -> list N) : Prop :=
    match ko with
    | KeyAesni k => b = true /\ E = x_encrypt_block_aesni k
    | KeyOpenssl key => b = false /\ E = ossl key
    end.

  Lemma lib_stream_eq ko E s inp :
    matches ko E -> lib_stream d cpu selftest ossl ko s inp = stream_cfg E hw s inp.
  Proof.
    intros Hm. pose proof Hagree as (_ & Hblk & _ & Hbulk).
    unfold lib_stream, stream_cfg. rewrite Hbulk. cbn [bind].
    destruct ((16 <=? N.of_nat (length inp)) && hw)%bool eqn:Hc.
    - apply andb_prop in Hc. destruct Hc as [_ Hc]. specialize (Hhw Hc).
      destruct ko as [k|key]; destruct Hm as [Hb HE].
      + rewrite HE. reflexivity.
      + congruence.
    - unfold lib_block. rewrite Hblk. cbn [bind].
      destruct ko as [k|key]; destruct Hm as [Hb HE]; rewrite Hb, HE; reflexivity.
  Qed.

  Lemma lib_stream_all_eq ko E chunks : forall s,
    matches ko E -> lib_stream_all d cpu selftest ossl ko s chunks = stream_all E hw s chunks.
  Proof.
    induction chunks as [|c r IH]; intros s Hm; [reflexivity|].
    cbn [lib_stream_all stream_all]. rewrite (lib_stream_eq ko E s c Hm).
    destruct (stream_cfg E hw s c) as [[s1 o]| | |]; cbn [bind]; try reflexivity.
    rewrite (IH s1 Hm). reflexivity.
  Qed.

  Lemma lib_aesctr_correct : forall key nonce any chunks,
    (length key = 16 \/ length key = 32)%nat ->
    st_wf any -> N.of_nat (length (concat chunks)) < two64 ->
    exists s' outs,
      lib_aesctr d cpu selftest ossl key nonce any chunks = Ok (s', outs) /\
      concat outs = ctr_spec (AES_encrypt key) nonce (concat chunks) /\
      map (@length N) outs = map (@length N) chunks.
  Proof.
    intros key nonce any chunks Hlen Hwf Hb.
    unfold lib_aesctr, lib_key_expand. pose proof Hagree as (Hkey & _). rewrite Hkey. cbn [bind].
    destruct (Bool.bool_dec b true) as [Eb|Eb]; [|apply not_true_is_false in Eb]; rewrite Eb.
    - destruct (aesni_key_expand_defined key Hlen) as [k Hk]. rewrite Hk. cbn [bind].
      rewrite (lib_stream_all_eq (KeyAesni k) (x_encrypt_block_aesni k) chunks _ (conj Eb eq_refl)).
      destruct (ctr_stream_correct (x_encrypt_block_aesni k)
                  (repo_encrypt_block_aesni_length sbox_fast k) hw nonce any chunks Hwf Hb)
        as (s' & outs & Hrun & Hcat & Hl).
      exists s', outs. split; [exact Hrun|]. split; [|exact Hl].
      rewrite Hcat. apply ctr_spec_ext. intros blk. apply (x_aesni_block_is_fips197 key k blk Hk).
    - assert (Hk : (((length key =? 16) || (length key =? 32))%nat = true)).
      { destruct Hlen as [-> | ->]; reflexivity. }
      rewrite Hk. cbn [bind].
      rewrite (lib_stream_all_eq (KeyOpenssl key) (ossl key) chunks _ (conj Eb eq_refl)).
      assert (HE : forall blk, length (ossl key blk) = 16%nat).
      { intros blk. rewrite (ossl_is_fips197 key blk Hlen). apply (aes_encrypt_length sbox key). }
      destruct (ctr_stream_correct (ossl key) HE hw nonce any chunks Hwf Hb)
        as (s' & outs & Hrun & Hcat & Hl).
      exists s', outs. split; [exact Hrun|]. split; [|exact Hl].
      rewrite Hcat. apply ctr_spec_ext. intros blk. apply (ossl_is_fips197 key blk Hlen).
  Qed.
End DataPath.

(* the AES-NI build: every outcome of (cpu, selftest) *)
Theorem aesctr_any_selection_is_ctr_of_fips197 :
  forall (ossl : list N -> list N -> list N),
    (forall key b, (length key = 16 \/ length key = 32)%nat -> ossl key b = AES_encrypt key b) ->
    forall cpu selftest key nonce any chunks,
      (length key = 16 \/ length key = 32)%nat ->
      st_wf any -> N.of_nat (length (concat chunks)) < two64 ->
      exists s' outs,
        x_lib_aesctr cpu selftest ossl key nonce any chunks = Ok (s', outs) /\
        concat outs = ctr_spec (AES_encrypt key) nonce (concat chunks) /\
        map (@length N) outs = map (@length N) chunks.
Proof.
  intros ossl Hossl cpu selftest. unfold x_lib_aesctr.
  apply (lib_aesctr_correct ossl Hossl ni_data cpu selftest (cpu && selftest) (cpu && selftest)
           (sel_agree cpu selftest) (fun H => H)).
Qed.

(* the build with no CPU feature macro *)
Theorem aesctr_none_is_ctr_of_fips197 :
  forall (ossl : list N -> list N -> list N),
    (forall key b, (length key = 16 \/ length key = 32)%nat -> ossl key b = AES_encrypt key b) ->
    forall cpu selftest key nonce any chunks,
      (length key = 16 \/ length key = 32)%nat ->
      st_wf any -> N.of_nat (length (concat chunks)) < two64 ->
      exists s' outs,
        x0_lib_aesctr cpu selftest ossl key nonce any chunks = Ok (s', outs) /\
        concat outs = ctr_spec (AES_encrypt key) nonce (concat chunks) /\
        map (@length N) outs = map (@length N) chunks.
Proof.
  intros ossl Hossl cpu selftest. unfold x0_lib_aesctr.
  apply (lib_aesctr_correct ossl Hossl none_data cpu selftest false false
           (sel_agree_none cpu selftest)). discriminate.
Qed.

(* ------------------------------------------------------------------ 4. any two builds / outcomes / partitions *)
Definition build_data (with_aesni : bool) : seldata := if with_aesni then ni_data else none_data.

Theorem aesctr_any_build_any_selection_same_bytes :
  forall (ossl : list N -> list N -> list N),
    (forall key b, (length key = 16 \/ length key = 32)%nat -> ossl key b = AES_encrypt key b) ->
    forall build1 cpu1 selftest1 build2 cpu2 selftest2 key nonce any1 any2 chunks1 chunks2,
      (length key = 16 \/ length key = 32)%nat ->
      st_wf any1 -> st_wf any2 -> concat chunks1 = concat chunks2 ->
      N.of_nat (length (concat chunks1)) < two64 ->
      exists s1 outs1 s2 outs2,
        lib_aesctr (build_data build1) cpu1 selftest1 ossl key nonce any1 chunks1 = Ok (s1, outs1) /\
        lib_aesctr (build_data build2) cpu2 selftest2 ossl key nonce any2 chunks2 = Ok (s2, outs2) /\
        concat outs1 = concat outs2.
Proof.
  intros ossl Hossl build1 cpu1 st1 build2 cpu2 st2 key nonce any1 any2 chunks1 chunks2 Hlen Hw1 Hw2 Hcat Hb.
  assert (H : forall bd cpu st any chunks, st_wf any -> N.of_nat (length (concat chunks)) < two64 ->
            exists s' outs, lib_aesctr (build_data bd) cpu st ossl key nonce any chunks = Ok (s', outs) /\
                            concat outs = ctr_spec (AES_encrypt key) nonce (concat chunks)).
  { intros bd cpu st any chunks Hw Hbb. destruct bd.
    - destruct (aesctr_any_selection_is_ctr_of_fips197 ossl Hossl cpu st key nonce any chunks Hlen Hw Hbb)
        as (s' & outs & Hr & Hc & _). exists s', outs. split; assumption.
    - destruct (aesctr_none_is_ctr_of_fips197 ossl Hossl cpu st key nonce any chunks Hlen Hw Hbb)
        as (s' & outs & Hr & Hc & _). exists s', outs. split; assumption. }
  destruct (H build1 cpu1 st1 any1 chunks1 Hw1 Hb) as (s1 & outs1 & Hr1 & Hc1).
  assert (Hb2 : N.of_nat (length (concat chunks2)) < two64) by (rewrite <- Hcat; exact Hb).
  destruct (H build2 cpu2 st2 any2 chunks2 Hw2 Hb2) as (s2 & outs2 & Hr2 & Hc2).
  exists s1, outs1, s2, outs2. split; [exact Hr1|]. split; [exact Hr2|].
  rewrite Hc1, Hc2, Hcat. reflexivity.
Qed.

(* ------------------------------------------------------------------ the hypothesis is satisfiable *)
(* a non-trivial instance of the OpenSSL hypothesis: the table-S-box cipher that the model runner
   uses as the software block function (a different function text, proved equal) *)
Example ossl_hypothesis_instance :
  forall key b, (length key = 16 \/ length key = 32)%nat ->
    (fun key => x_cipher (x_nr_of key) (x_key_expansion key)) key b = AES_encrypt key b.
Proof. intros key b _. apply fast_aes_encrypt_eq. Qed.

(* and the theorem is not vacuous on a concrete run: self-test refused on an AES-NI CPU *)
Example lib_aesctr_runs_after_failed_selftest :
  exists s' outs,
    x_lib_aesctr true false (fun key => x_cipher (x_nr_of key) (x_key_expansion key))
      selftest1_key 1 (mkst 0 (repeat 190 16) (repeat 190 16)) [[1; 2; 3]; repeat 7 20] = Ok (s', outs) /\
    concat outs = ctr_spec (AES_encrypt selftest1_key) 1 ([1; 2; 3] ++ repeat 7 20).
Proof.
  destruct (aesctr_any_selection_is_ctr_of_fips197 _ ossl_hypothesis_instance true false
              selftest1_key 1 (mkst 0 (repeat 190 16) (repeat 190 16)) [[1; 2; 3]; repeat 7 20])
    as (s' & outs & Hr & Hc & _).
  - left; reflexivity.
  - split; reflexivity.
  - vm_compute; reflexivity.
  - exists s', outs. split; [exact Hr|]. rewrite Hc. cbn [concat]. rewrite app_nil_r. reflexivity.
Qed.
