(* crypto/crypto_entropy.c: MODEL.  Mirrors the C: the statics (drbg.Key, drbg.V,
   drbg.reseed_counter, instantiated), update() done with the STREAMING HMAC interface
   (Init / Update(Vx, 33) / Update(data, datalen) / Final, then HMAC_SHA256_Buf) with the
   datalen != 0 second round, generate()'s 32-byte loop with the partial last copy followed by
   update(NULL, 0) and reseed_counter += 1, and crypto_entropy_read()'s instantiate-on-first-use,
   the reseed test inside the chunk loop and the GENERATE_MAXLEN chunking.  entropy_read() is the
   oracle of DrbgSpec.v.  RDRAND mixing (#ifdef CPUSUPPORT_X86_RDRAND) is outside the model: the
   property is observed on a build without it.
   Parametric in the HMAC implementation and in the constants of the C source ([drbg_params],
   instantiated from Gen.Repo_dhdrbg).  Every instantiate, reseed and generate is also recorded
   in a ghost trace (list of [ev]) that the theorems about the schedule speak about.
   No proofs in this file. *)
From Coq Require Import NArith List Bool.
From LCP Require Import Base.CheckedMem Gen.Repo_dhdrbg Crypto.DrbgSpec Crypto.DrbgOsSpec.
Import ListNotations.
Local Open Scope N_scope.
Local Open Scope res_scope.

Record drbg_params : Type := {
  d_interval : N;        (* RESEED_INTERVAL *)
  d_maxlen : N;          (* GENERATE_MAXLEN *)
  d_seed_inst : nat;     (* entropy_read(seed_material, 48) in instantiate *)
  d_seed_reseed : nat;   (* entropy_read(seed_material, 32) in reseed *)
  d_sep1 : N;            (* Vx[32] = 0x00 *)
  d_sep2 : N;            (* Vx[32] = 0x01 *)
  d_key_init : N;        (* memset(drbg.Key, 0x00, 32) *)
  d_v_init : N;          (* memset(drbg.V, 0x01, 32) *)
  d_ctr_init : N;        (* drbg.reseed_counter = 1 in instantiate *)
  d_ctr_reset : N;       (* drbg.reseed_counter = 1 in reseed *)
  d_ctr_step : N;        (* drbg.reseed_counter += 1 *)
  d_blk : N              (* bufpos += 32 *)
}.

Definition repo_drbg_params : drbg_params := {|
  d_interval := drbg_reseed_interval;
  d_maxlen := drbg_generate_maxlen;
  d_seed_inst := N.to_nat drbg_instantiate_seedlen;
  d_seed_reseed := N.to_nat drbg_reseed_seedlen;
  d_sep1 := drbg_sep_first;
  d_sep2 := drbg_sep_second;
  d_key_init := drbg_key_init;
  d_v_init := drbg_v_init;
  d_ctr_init := drbg_counter_init;
  d_ctr_reset := drbg_counter_reset;
  d_ctr_step := drbg_counter_step;
  d_blk := drbg_block_step
|}.

(* the statics of crypto_entropy.c *)
Record dstate : Type := mk_dstate {
  dKey : list N;           (* drbg.Key[32] *)
  dV : list N;             (* drbg.V[32] *)
  dctr : N;                (* drbg.reseed_counter (uint32_t) *)
  dinst : bool             (* instantiated != 0 *)
}.

(* static storage is zero-initialised *)
Definition dstate0 : dstate := mk_dstate (repeat 0 32) (repeat 0 32) 0 false.

(* ghost trace *)
Inductive ev : Type :=
| EvInstantiate (len : nat) (ok : bool)          (* instantiate(): entropy_read(buf, len) returned 0 (ok) / -1 *)
| EvReseed (len : nat) (ok : bool) (ctr : N)     (* reseed() entered with reseed_counter = ctr; its entropy_read *)
| EvGenerate (n : N) (ctr : N).                  (* generate(buf, n) entered with reseed_counter = ctr *)

Section Model.
  Variable P : drbg_params.
  Variable hctx : Type.
  Variable h_init : list N -> hctx.               (* HMAC_SHA256_Init(&ctx, K, 32) *)
  Variable h_update : hctx -> list N -> hctx.     (* HMAC_SHA256_Update(&ctx, in, len) *)
  Variable h_final : hctx -> list N.              (* HMAC_SHA256_Final(digest, &ctx) *)
  Variable h_buf : list N -> list N -> list N.    (* HMAC_SHA256_Buf(K, 32, in, len, digest) *)

  (* one mixing stage of update(): K <- HMAC(K, V || sep || data); V <- HMAC(K, V) *)
  Definition update_round (sep : N) (K V : list N) (data : list N) : list N * list N :=
    let Vx := V ++ [sep] in                                  (* memcpy(Vx, V, 32); Vx[32] = sep *)
    let ctx := h_init K in
    let ctx := h_update ctx Vx in                            (* 33 bytes *)
    let ctx := h_update ctx data in
    let K := h_final ctx in
    let V := h_buf K V in                                    (* HMAC_SHA256_Buf(K, 32, Vx, 32, Vx) *)
    (K, V).

  (* update(data, datalen) *)
  Definition update_m (st : dstate) (data : list N) : dstate :=
    let '(K, V) := update_round (d_sep1 P) (dKey st) (dV st) data in
    let '(K, V) :=
      if negb (N.of_nat (length data) =? 0)                  (* if (datalen != 0) *)
      then update_round (d_sep2 P) K V data
      else (K, V) in
    mk_dstate K V (dctr st) (dinst st).

  (* instantiate(): (ok, state, rest of the oracle, trace) *)
  Definition instantiate_m (st : dstate) (o : oracle) : bool * dstate * oracle * list ev :=
    match get_entropy (d_seed_inst P) o with
    | (None, o1) => (false, st, o1, [EvInstantiate (d_seed_inst P) false])
    | (Some seed, o1) =>
      let st1 := mk_dstate (repeat (d_key_init P) 32) (repeat (d_v_init P) 32) (d_ctr_init P) (dinst st) in
      (true, update_m st1 seed, o1, [EvInstantiate (d_seed_inst P) true])
    end.

  (* reseed() *)
  Definition reseed_m (st : dstate) (o : oracle) : bool * dstate * oracle * list ev :=
    match get_entropy (d_seed_reseed P) o with
    | (None, o1) => (false, st, o1, [EvReseed (d_seed_reseed P) false (dctr st)])
    | (Some seed, o1) =>
      let st1 := update_m st seed in
      (true, mk_dstate (dKey st1) (dV st1) (d_ctr_reset P) (dinst st1), o1,
       [EvReseed (d_seed_reseed P) true (dctr st)])
    end.

  (* for (bufpos = 0; bufpos < buflen; bufpos += 32) { V = HMAC(Key, V); copy min(32, rest) } *)
  Fixpoint gen_loop (fuel : nat) (bufpos buflen : N) (K V : list N) {struct fuel}
    : res (list N * list N) :=
    if bufpos <? buflen then
      match fuel with
      | O => OutOfFuel
      | S f =>
        let V1 := h_buf K V in
        let n := if d_blk P <=? buflen - bufpos then d_blk P else buflen - bufpos in
        let* (rest, Vf) := gen_loop f (bufpos + d_blk P) buflen K V1 in
        Ok (firstn (N.to_nat n) V1 ++ rest, Vf)
      end
    else Ok ([], V).

  (* generate(buf, buflen): bytes written to buf, new state *)
  Definition generate_m (st : dstate) (buflen : N) : res (list N * dstate) :=
    if d_maxlen P <? buflen then AssertFail                      (* assert(buflen <= GENERATE_MAXLEN) *)
    else if d_interval P <? dctr st then AssertFail              (* assert(reseed_counter <= RESEED_INTERVAL) *)
    else
      let* (bytes, V1) := gen_loop (S (N.to_nat (buflen / d_blk P))) 0 buflen (dKey st) (dV st) in
      let st1 := update_m (mk_dstate (dKey st) V1 (dctr st) (dinst st)) [] in
      Ok (bytes, mk_dstate (dKey st1) (dV st1) ((dctr st1 + d_ctr_step P) mod 4294967296) (dinst st1)).

  (* while (buflen > 0) { reseed if needed; generate min(buflen, MAXLEN) }:
     (return code is 0, bytes written so far, state, oracle, trace) *)
  Fixpoint read_loop (fuel : nat) (st : dstate) (buflen : N) (o : oracle) {struct fuel}
    : res (bool * list N * dstate * oracle * list ev) :=
    if 0 <? buflen then
      match fuel with
      | O => OutOfFuel
      | S f =>
        let '(ok, st1, o1, e1) :=
          if d_interval P <? dctr st then reseed_m st o else (true, st, o, []) in
        if negb ok then Ok (false, [], st1, o1, e1)
        else
          let n := if d_maxlen P <? buflen then d_maxlen P else buflen in
          let* (bytes, st2) := generate_m st1 n in
          let* (rc, more, st3, o3, e3) := read_loop f st2 (buflen - n) o1 in
          Ok (rc, bytes ++ more, st3, o3, e1 ++ EvGenerate n (dctr st1) :: e3)
      end
    else Ok (true, [], st, o, []).

  (* crypto_entropy_read(buf, buflen) *)
  Definition entropy_read_m (st : dstate) (buflen : N) (o : oracle)
    : res (bool * list N * dstate * oracle * list ev) :=
    let '(ok, st1, o1, e1) :=
      if negb (dinst st) then
        let '(ok, st1, o1, e1) := instantiate_m st o in
        (ok, (if ok then mk_dstate (dKey st1) (dV st1) (dctr st1) true else st1), o1, e1)
      else (true, st, o, []) in
    if negb ok then Ok (false, [], st1, o1, e1)
    else
      let* (rc, bytes, st2, o2, e2) := read_loop (S (N.to_nat (buflen / d_maxlen P))) st1 buflen o1 in
      Ok (rc, bytes, st2, o2, e1 ++ e2).

  (* a history of calls, starting from the given statics.  Per call: Some bytes = returned 0 and
     the buffer holds bytes; None = returned -1 (the partially written buffer is not a result) *)
  Fixpoint run_m (reqs : list N) (st : dstate) (o : oracle)
    : res (list (option (list N)) * dstate * oracle * list ev) :=
    match reqs with
    | [] => Ok ([], st, o, [])
    | n :: rest =>
      let* (rc, bytes, st1, o1, e1) := entropy_read_m st n o in
      let* (more, st2, o2, e2) := run_m rest st1 o1 in
      Ok ((if rc then Some bytes else None) :: more, st2, o2, e1 ++ e2)
    end.
End Model.

(* abstraction to the spec's state: not instantiated = no state *)
Definition abs_state (st : dstate) : option sstate :=
  if dinst st then Some (mk_sstate (dKey st) (dV st) (dctr st)) else None.

(* ---------------- util/entropy.c: entropy_read_fill ---------------- *)
(* answers of read(fd, buf, buflen): [rd_answer] of DrbgOsSpec.v: RdErr = -1, RdBytes l = l bytes
   delivered (l = [] is EOF).  The rest of util/entropy.c is modelled in DrbgOsModel.v. *)

(* while (buflen > 0) { lenread = read(fd, buf, buflen); -1 -> fail; 0 -> fail; advance }.
   The kernel never returns more than asked: a longer answer is cut to buflen (the driver does the
   same).  Result: Some bytes = returned 0 with the buffer filled; None = returned -1. *)
Fixpoint fill_m (fuel : nat) (buflen : N) (answers : list rd_answer) {struct fuel}
  : res (option (list N) * list rd_answer) :=
  if 0 <? buflen then
    match fuel with
    | O => OutOfFuel
    | S f =>
      match answers with
      | [] => Ok (None, [])
      | RdErr :: r => Ok (None, r)
      | RdBytes l :: r =>
        let got := firstn (N.to_nat buflen) l in
        if N.of_nat (length got) =? 0 then Ok (None, r)
        else
          let* (res, r') := fill_m f (buflen - N.of_nat (length got)) r in
          Ok (match res with Some more => Some (got ++ more) | None => None end, r')
      end
    end
  else Ok (Some [], answers).

Definition entropy_read_fill_m (buflen : N) (answers : list rd_answer) :=
  fill_m (S (N.to_nat buflen)) buflen answers.
