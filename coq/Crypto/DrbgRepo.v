(* The DRBG model and spec instantiated for execution: the model with the constants regenerated
   from crypto_entropy.c and the hash area's MODEL of the streaming HMAC-SHA256 interface of
   alg/sha256.c (Alg.HashRepo); the spec with the hash area's SPEC (RFC 2104 over FIPS 180-4).
   These are the functions that are extracted and run against the compiled C.  Definitions only. *)
From Coq Require Import NArith List.
From LCP Require Import Base.CheckedMem Gen.Repo_dhdrbg Alg.HashRepo Alg.HashSpecs Crypto.DrbgSpec Crypto.DrbgOsSpec Crypto.DrbgModel Crypto.DrbgOsModel.
Import ListNotations.

Definition drbg_h_final (c : hctx256) : list N := fst (hmac256_final c).

Definition drbg_run (reqs : list N) (o : oracle) :=
  run_m repo_drbg_params hctx256 hmac256_init hmac256_update drbg_h_final hmac256_buf reqs dstate0 o.

Definition drbg_spec_run (reqs : list N) (o : oracle) :=
  spec_run HMAC_SHA256_spec reqs None o.

(* the same over the model of util/entropy.c's entropy_read() and a script of open/read/close
   answers, one session per entropy_read() call: what runs against the C built with the real
   util/entropy.c and interposed system calls *)
Definition drbg_os_run (reqs : list N) (ss : os_oracle) :=
  run_os repo_drbg_params hctx256 hmac256_init hmac256_update drbg_h_final hmac256_buf reqs dstate0 ss.

(* the spec fed with what the sessions delivered (DrbgOsSpec.v) *)
Definition drbg_os_spec_run (reqs : list N) (ss : list session) :=
  spec_run HMAC_SHA256_spec reqs None (spec_resolve false ss).
