(* The models instantiated with the constants regenerated from the C sources (Gen/Repo_aes.v) and
   with the table S-box (equal to the FIPS-197 S-box on all of N, AesProofs.sbox_fast_eq).
   These are the functions that are extracted and run against the compiled library.
   No proofs in this file. *)
From Coq Require Import NArith List.
From LCP Require Import Base.CheckedMem.
From LCP Require Import Gen.Repo_aes.
From LCP Require Import Crypto.AesSpec.
From LCP Require Import Accel.AesNi.
From LCP Require Import Crypto.AesCtrModel.
From LCP Require Import Crypto.AesWipe.
Import ListNotations.
Local Open Scope N_scope.

Section WithSbox.
  Variable sb : N -> N.
  Definition repo_key_expand_128_aesni : list N -> list m128 :=
    key_expand_128_aesni sb rkeys_slots loads128 mkrkey128 mk128_s_off mk128_t_off mk128_shuffle mk128_slli.
  Definition repo_key_expand_256_aesni : list N -> list m128 :=
    key_expand_256_aesni sb rkeys_slots loads256 mkrkey256 mk256_s_off mk256_t_off mk256_slli.
  Definition repo_key_expand_aesni : list N -> option (list m128 * N) :=
    key_expand_aesni nr128 nr256 repo_key_expand_128_aesni repo_key_expand_256_aesni.
  Definition repo_encrypt_block_aesni : list m128 * N -> m128 -> m128 :=
    encrypt_block_aesni sb enc_first enc_pre enc_threshold enc_branch.
End WithSbox.

(* AES-NI path, executable *)
Definition x_key_expand_aesni := repo_key_expand_aesni sbox_fast.
Definition x_encrypt_block_aesni := repo_encrypt_block_aesni sbox_fast.
(* FIPS-197, executable (table S-box) and definitional (inverse + affine map) *)
Definition x_key_expansion := KeyExpansion sbox_fast.
Definition x_cipher := Cipher sbox_fast.
Definition x_nr_of := Nr_of.
Definition x_aes_encrypt_slow := AES_encrypt.

(* CTR *)
Definition x_init2 := init2 ctr_init_index ctr_init_byte.
Definition x_stream_cfg := stream_cfg.
Definition x_aesctr_buf (E : list N -> list N) := aesctr_buf E ctr_init_index ctr_init_byte.
Definition x_ctr_spec := ctr_spec.
Definition x_ctr_spec_from := ctr_spec_from.
Definition x_seek := seek.

(* release paths *)
Definition x_key_free_aesni := run_free_calls alloc_expr_key_aesni free_calls_key_aesni.
Definition x_key_free_sw := run_free_calls alloc_expr_key_sw free_calls_key_sw.
(* the software tail of crypto_aes_key_free as compiled with CPUSUPPORT_X86_AESNI (an OpenSSL key object
   freed by the AES-NI build: CPU without AES-NI or failed self-test) *)
Definition x_key_free_sw_ni := run_free_calls alloc_expr_key_sw free_calls_key_sw_ni.
Definition x_aesctr_free := run_free_calls alloc_expr_ctr free_calls_ctr.
