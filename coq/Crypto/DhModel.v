(* crypto/crypto_dh.c: MODEL over Z.  OpenSSL's BN_* are taken at their documented meaning
   (bin2bn = big-endian decode, add, sub, mod_exp a e m = a^e mod m, mod_mul, num_bits/num_bytes,
   bn2bin = minimal big-endian encoding of the magnitude).  The model is parametric in
     - the constants of the C source (record [dh_params], instantiated from Gen.Repo_dhdrbg), and
     - the implementation of modular exponentiation and multiplication ([modexp_Z], [bn_mod_mul]
       for the theorems; the BigN evaluators of DhEval.v for the correspondence run, connected
       by proved bridge lemmas).
   No proofs in this file. *)
From Coq Require Import ZArith NArith List Bool.
From LCP Require Import Gen.Repo_dhdrbg.
Import ListNotations.
Local Open Scope Z_scope.

(* ---------------- byte strings and big-endian integers ---------------- *)
Definition be_decode (l : list N) : Z :=
  fold_left (fun acc b => acc * 256 + Z.of_N b) l 0.

Fixpoint be_encode (n : nat) (v : Z) : list N :=
  match n with
  | O => []
  | S k => be_encode k (Z.shiftr v 8) ++ [Z.to_N (Z.land v 255)]     (* v / 256, v mod 256 *)
  end.

Definition byte_okb (b : N) : bool := N.ltb b 256.
Definition bytes_okb (l : list N) : bool := forallb byte_okb l.

(* ---------------- OpenSSL BIGNUM operations at their documented meaning ---------------- *)
Definition bn_bin2bn (s : list N) (len : nat) : Z := be_decode (firstn len s).
Definition bn_num_bits (v : Z) : Z := if v =? 0 then 0 else Z.log2 (Z.abs v) + 1.
Definition bn_num_bytes (v : Z) : Z := (bn_num_bits v + 7) / 8.        (* the BN_num_bytes macro *)
Definition bn_bn2bin (v : Z) : list N := be_encode (Z.to_nat (bn_num_bytes v)) (Z.abs v).
Definition bn_mod_mul (a b m : Z) : Z := (a * b) mod m.                (* non-negative remainder *)
Definition modexp_Z (a e m : Z) : Z := (a ^ e) mod m.                  (* BN_mod_exp *)

(* ---------------- libc ---------------- *)
(* memset(buf, c, n) on the object [buf] *)
Definition memset_m (buf : list N) (c : N) (n : nat) : list N := repeat c n ++ skipn n buf.
(* copying [data] to &buf[off] (what BN_bn2bin does with its output pointer) *)
Definition write_at (buf : list N) (off : nat) (data : list N) : list N :=
  firstn off buf ++ data ++ skipn (off + length data) buf.
(* memcmp on two equally long byte strings: sign of the first difference *)
Fixpoint memcmp_m (a b : list N) : Z :=
  match a, b with
  | x :: a', y :: b' => if N.eqb x y then memcmp_m a' b' else Z.of_N x - Z.of_N y
  | _, _ => 0
  end.

(* ---------------- constants of the C source ---------------- *)
Record dh_params := {
  p_group14 : list N;        (* crypto_dh_group14[] *)
  p_modlen : nat;            (* BN_bin2bn(crypto_dh_group14, 256, NULL) *)
  p_cmplen : nat;            (* memcmp(pub, crypto_dh_group14, 256) *)
  p_two256 : list N;         (* two_exp_256[] *)
  p_two256_len : nat;        (* BN_bin2bn(two_exp_256, 33, NULL) *)
  p_nadd : nat;              (* how many times BN_add(priv_bn, priv_bn, two_exp_256_bn) is written *)
  p_nbadd : nat;             (* how many times BN_add(blinding_bn, blinding_bn, two_exp_256_bn) *)
  p_privlen : nat;           (* CRYPTO_DH_PRIVLEN *)
  p_publen : nat;            (* CRYPTO_DH_PUBLEN *)
  p_keylen : nat;            (* CRYPTO_DH_KEYLEN *)
  p_generator : Z            (* BN_set_word(two, 2) *)
}.

Definition repo_params : dh_params := {|
  p_group14 := dh_group14;
  p_modlen := N.to_nat dh_modulus_len;
  p_cmplen := N.to_nat dh_memcmp_len;
  p_two256 := dh_two_exp_256;
  p_two256_len := N.to_nat dh_two_exp_256_len;
  p_nadd := N.to_nat dh_priv_add_count;
  p_nbadd := N.to_nat dh_blinding_add_count;
  p_privlen := N.to_nat dh_privlen;
  p_publen := N.to_nat dh_publen;
  p_keylen := N.to_nat dh_keylen;
  p_generator := Z.of_N dh_generator
|}.

Fixpoint add_times (n : nat) (x d : Z) : Z :=
  match n with O => x | S k => add_times k (x + d) d end.

Section Model.
  Variable P : dh_params.
  Variable modexp : Z -> Z -> Z -> Z.          (* BN_mod_exp(r, a, e, m, ctx) *)
  Variable modmul : Z -> Z -> Z -> Z.          (* BN_mod_mul(r, a, b, m, ctx) *)

  Definition modulus : Z := bn_bin2bn (p_group14 P) (p_modlen P).

  (* blinded_modexp(r, a, priv): [r0] is the content of the caller's output buffer before the
     call; [ent] is what crypto_entropy_read(blinding, CRYPTO_DH_PRIVLEN) delivers (None = it
     failed).  None = returned -1, Some r = returned 0 and the buffer now holds r.  All OpenSSL
     calls succeed here; their failure ladders are the subject of DhWipeModel.v. *)
  (* the two exponents handed to BN_mod_exp: blinding' = blinding + 2^256 and
     (priv + 4 * 2^256) - blinding' *)
  Definition blinded_exponents (priv blinding : list N) : Z * Z :=
    let two_exp_256_bn := bn_bin2bn (p_two256 P) (p_two256_len P) in
    let priv_bn := bn_bin2bn priv (p_privlen P) in
    let priv_bn := add_times (p_nadd P) priv_bn two_exp_256_bn in
    let blinding_bn := bn_bin2bn blinding (p_privlen P) in
    let blinding_bn := add_times (p_nbadd P) blinding_bn two_exp_256_bn in
    let priv_blinded := priv_bn - blinding_bn in                  (* BN_sub(priv_blinded, priv_bn, blinding_bn) *)
    (blinding_bn, priv_blinded).

  Definition blinded_modexp (r0 : list N) (a : Z) (priv : list N)
             (ent : option (list N)) : option (list N) :=
    let outlen := p_publen P in                 (* CRYPTO_DH_PUBLEN, also when called for a key *)
    match ent with
    | None => None
    | Some blinding =>
      let '(blinding_bn, priv_blinded) := blinded_exponents priv blinding in
      let m_bn := modulus in
      let r1 := modexp a blinding_bn m_bn in
      let r2 := modexp a priv_blinded m_bn in
      let r1 := modmul r1 r2 m_bn in
      let rlen := bn_num_bytes r1 in
      if rlen <? 0 then None
      else if rlen >? Z.of_nat outlen then None
      else
        let pad := (outlen - Z.to_nat rlen)%nat in
        let r := memset_m r0 0%N pad in
        Some (write_at r pad (bn_bn2bin r1))
    end.

  (* crypto_dh_generate_pub(pub, priv) *)
  Definition dh_generate_pub (pub0 : list N) (priv : list N) (ent : option (list N)) : option (list N) :=
    blinded_modexp pub0 (p_generator P) priv ent.

  (* crypto_dh_compute(pub, priv, key) *)
  Definition dh_compute (key0 : list N) (pub priv : list N) (ent : option (list N)) : option (list N) :=
    let a := bn_bin2bn pub (p_publen P) in
    blinded_modexp key0 a priv ent.

  (* crypto_dh_generate(pub, priv): two reads of the entropy source; Some (pub, priv) = returned 0 *)
  Definition dh_generate (pub0 : list N) (ents : list (option (list N))) : option (list N * list N) :=
    match ents with
    | Some priv :: rest =>
      let priv := firstn (p_privlen P) priv in
      match dh_generate_pub pub0 priv (match rest with e :: _ => e | [] => None end) with
      | Some pub => Some (pub, priv)
      | None => None
      end
    | _ => None
    end.

  (* crypto_dh_sanitycheck(pub): the C return value *)
  Definition dh_sanitycheck (pub : list N) : Z :=
    if memcmp_m (firstn (p_cmplen P) pub) (firstn (p_cmplen P) (p_group14 P)) >=? 0 then -1 else 0.
End Model.
