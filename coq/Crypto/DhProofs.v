(* Proofs about the Diffie-Hellman model (C10): exactness of blinded_modexp for every private
   value, peer value and blinding value; padding; agreement; sanity check = numeric comparison;
   regenerated modulus = RFC 3526 literal. *)
From Coq Require Import ZArith NArith List Bool Lia Zpow_facts.
From LCP Require Import Gen.Repo_dhdrbg Crypto.DhModel Crypto.DhSpec.
Import ListNotations.
Local Open Scope Z_scope.

Definition bytes_ok (l : list N) : Prop := Forall (fun b => (b < 256)%N) l.

Lemma bytes_okb_spec l : bytes_okb l = true <-> bytes_ok l.
Proof.
  unfold bytes_okb, bytes_ok, byte_okb. rewrite forallb_forall, Forall_forall.
  split; intros H x Hx; specialize (H x Hx); apply N.ltb_lt; exact H.
Qed.

Lemma bytes_ok_firstn n : forall l, bytes_ok l -> bytes_ok (firstn n l).
Proof.
  induction n as [|n IH]; intros l H; [constructor|]. destruct l as [|x r]; [constructor|].
  inversion H; subst. cbn [firstn]. constructor; [assumption|]. apply IH. assumption.
Qed.

(* ---------------- big-endian decode / encode ---------------- *)
Lemma fold_be_acc l : forall acc,
  fold_left (fun a b => a * 256 + Z.of_N b) l acc = acc * 256 ^ Z.of_nat (length l) + be_decode l.
Proof.
  unfold be_decode. induction l as [|x r IH]; intros acc.
  - simpl. lia.
  - cbn [fold_left length]. rewrite IH. rewrite (IH (0 * 256 + Z.of_N x)).
    rewrite Nat2Z.inj_succ, Z.pow_succ_r by lia. ring.
Qed.

Lemma be_decode_nil : be_decode [] = 0.
Proof. reflexivity. Qed.

Lemma be_decode_cons x l : be_decode (x :: l) = Z.of_N x * 256 ^ Z.of_nat (length l) + be_decode l.
Proof. unfold be_decode at 1. cbn [fold_left]. rewrite fold_be_acc. ring. Qed.

Lemma be_decode_app l1 l2 :
  be_decode (l1 ++ l2) = be_decode l1 * 256 ^ Z.of_nat (length l2) + be_decode l2.
Proof. unfold be_decode at 1. rewrite fold_left_app. fold (be_decode l1). apply fold_be_acc. Qed.

Lemma be_decode_snoc l x : be_decode (l ++ [x]) = be_decode l * 256 + Z.of_N x.
Proof. rewrite be_decode_app. cbn [length]. change (256 ^ Z.of_nat 1) with 256. unfold be_decode at 2. simpl. lia. Qed.

Lemma be_decode_bound l : bytes_ok l -> 0 <= be_decode l < 256 ^ Z.of_nat (length l).
Proof.
  induction 1 as [|x r Hx Hr IH].
  - rewrite be_decode_nil. simpl. lia.
  - rewrite be_decode_cons. cbn [length]. rewrite Nat2Z.inj_succ, Z.pow_succ_r by lia.
    assert (0 <= Z.of_N x <= 255) by lia.
    assert (0 < 256 ^ Z.of_nat (length r)) by (apply Z.pow_pos_nonneg; lia). nia.
Qed.

Lemma be_decode_repeat0 k : be_decode (repeat 0%N k) = 0.
Proof.
  induction k as [|k IH]; [reflexivity|]. cbn [repeat]. rewrite be_decode_cons, IH. simpl. lia.
Qed.

Lemma shiftr8 v : Z.shiftr v 8 = v / 256.
Proof. rewrite Z.shiftr_div_pow2 by lia. reflexivity. Qed.

Lemma land255 v : Z.land v 255 = v mod 256.
Proof. change 255 with (Z.ones 8). rewrite Z.land_ones by lia. reflexivity. Qed.

Lemma be_encode_S n v : be_encode (S n) v = be_encode n (v / 256) ++ [Z.to_N (v mod 256)].
Proof. cbn [be_encode]. rewrite shiftr8, land255. reflexivity. Qed.

Lemma be_encode_length n : forall v, length (be_encode n v) = n.
Proof. induction n as [|n IH]; intros v; cbn [be_encode]; [reflexivity|]. rewrite app_length, IH. simpl. lia. Qed.

Lemma be_encode_bytes_ok n : forall v, bytes_ok (be_encode n v).
Proof.
  induction n as [|n IH]; intros v; [constructor|]. rewrite be_encode_S.
  apply Forall_app. split; [apply IH|]. constructor; [|constructor].
  pose proof (Z.mod_pos_bound v 256). lia.
Qed.

Lemma be_decode_encode n : forall v, 0 <= v < 256 ^ Z.of_nat n -> be_decode (be_encode n v) = v.
Proof.
  induction n as [|n IH]; intros v Hv.
  - simpl in Hv. cbn [be_encode]. rewrite be_decode_nil. lia.
  - rewrite be_encode_S. rewrite be_decode_snoc.
    rewrite Nat2Z.inj_succ, Z.pow_succ_r in Hv by lia.
    rewrite IH.
    + rewrite Z2N.id by (apply Z.mod_pos_bound; lia). pose proof (Z.div_mod v 256). lia.
    + split; [apply Z.div_pos; lia|]. apply Z.div_lt_upper_bound; lia.
Qed.

Lemma be_encode_decode l : bytes_ok l -> be_encode (length l) (be_decode l) = l.
Proof.
  induction l as [|x r IH] using rev_ind; intros H; [reflexivity|].
  apply Forall_app in H. destruct H as [Hr Hx]. inversion Hx as [|? ? Hx' _]; subst.
  rewrite app_length. cbn [length]. rewrite Nat.add_1_r. rewrite be_encode_S.
  rewrite be_decode_snoc.
  assert (E1 : (be_decode r * 256 + Z.of_N x) / 256 = be_decode r).
  { rewrite Z.div_add_l by lia. rewrite Z.div_small by lia. lia. }
  assert (E2 : (be_decode r * 256 + Z.of_N x) mod 256 = Z.of_N x).
  { rewrite Z.add_comm, Z.mod_add by lia. apply Z.mod_small. lia. }
  rewrite E1, E2, (IH Hr), N2Z.id. reflexivity.
Qed.

(* encoding into more bytes than needed pads with zero bytes on the left *)
Lemma be_encode_zero n : be_encode n 0 = repeat 0%N n.
Proof.
  induction n as [|n IH]; [reflexivity|]. rewrite be_encode_S. rewrite Z.div_0_l, IH by lia.
  change (Z.to_N (0 mod 256)) with 0%N. change [0%N] with (repeat 0%N 1).
  rewrite <- repeat_app. rewrite Nat.add_1_r. reflexivity.
Qed.

Lemma be_encode_pad n : forall k v, 0 <= v < 256 ^ Z.of_nat n ->
  be_encode (k + n) v = repeat 0%N k ++ be_encode n v.
Proof.
  induction n as [|n IH]; intros k v Hv.
  - simpl in Hv. assert (v = 0) by lia. subst. rewrite Nat.add_0_r. cbn [be_encode].
    rewrite app_nil_r. apply be_encode_zero.
  - rewrite Nat.add_succ_r. rewrite !be_encode_S. rewrite IH.
    + rewrite app_assoc. reflexivity.
    + rewrite Nat2Z.inj_succ, Z.pow_succ_r in Hv by lia.
      split; [apply Z.div_pos; lia|]. apply Z.div_lt_upper_bound; lia.
Qed.

(* ---------------- BN_num_bytes / BN_bn2bin ---------------- *)
Lemma num_bytes_nonneg v : 0 <= bn_num_bytes v.
Proof.
  unfold bn_num_bytes, bn_num_bits. pose proof (Z.log2_nonneg (Z.abs v)).
  destruct (v =? 0); apply Z.div_pos; lia.
Qed.

Lemma num_bytes_fits v : 0 <= v -> v < 256 ^ bn_num_bytes v.
Proof.
  intros Hv. unfold bn_num_bytes, bn_num_bits. destruct (Z.eqb_spec v 0) as [->|Hne].
  - reflexivity.
  - rewrite Z.abs_eq by lia. assert (Hpos : 0 < v) by lia.
    pose proof (Z.log2_spec v Hpos) as [_ Hlt]. pose proof (Z.log2_nonneg v) as Hl.
    set (nb := (Z.log2 v + 1 + 7) / 8).
    assert (Hnb : Z.log2 v + 1 <= 8 * nb).
    { unfold nb. pose proof (Z.div_mod (Z.log2 v + 1 + 7) 8). pose proof (Z.mod_pos_bound (Z.log2 v + 1 + 7) 8). lia. }
    replace 256 with (2 ^ 8) by reflexivity. rewrite <- Z.pow_mul_r by lia.
    eapply Z.lt_le_trans; [exact Hlt|]. rewrite <- Z.add_1_r. apply Z.pow_le_mono_r; lia.
Qed.

Lemma num_bytes_le v n : 0 <= v < 256 ^ Z.of_nat n -> bn_num_bytes v <= Z.of_nat n.
Proof.
  intros [Hv Hlt]. unfold bn_num_bytes, bn_num_bits. destruct (Z.eqb_spec v 0) as [->|Hne].
  - change ((0 + 7) / 8) with 0. lia.
  - rewrite Z.abs_eq by lia. assert (Hpos : 0 < v) by lia.
    replace 256 with (2 ^ 8) in Hlt by reflexivity. rewrite <- Z.pow_mul_r in Hlt by lia.
    assert (Z.log2 v < 8 * Z.of_nat n).
    { apply Z.log2_lt_pow2; [lia|exact Hlt]. }
    assert ((Z.log2 v + 1 + 7) / 8 < Z.of_nat n + 1) by (apply Z.div_lt_upper_bound; lia). lia.
Qed.

(* memset of the leading bytes followed by BN_bn2bin at the right offset = fixed-width encoding *)
Lemma pad_then_bn2bin (n : nat) (r0 : list N) (v : Z) :
  length r0 = n -> 0 <= v < 256 ^ Z.of_nat n ->
  let rlen := bn_num_bytes v in
  let pad := (n - Z.to_nat rlen)%nat in
  write_at (memset_m r0 0%N pad) pad (bn_bn2bin v) = be_encode n v.
Proof.
  intros Hlen Hv rlen pad.
  pose proof (num_bytes_nonneg v) as H0. pose proof (num_bytes_le v n Hv) as H1.
  pose proof (num_bytes_fits v (proj1 Hv)) as H2. fold rlen in H0, H1, H2.
  assert (Hn : n = (pad + Z.to_nat rlen)%nat) by (unfold pad; lia).
  unfold write_at, memset_m, bn_bn2bin. fold rlen. rewrite Z.abs_eq by lia.
  rewrite be_encode_length.
  rewrite firstn_app, repeat_length, Nat.sub_diag, firstn_O, app_nil_r.
  rewrite firstn_all2 by (rewrite repeat_length; lia).
  rewrite skipn_all2.
  2:{ rewrite app_length, repeat_length, skipn_length. lia. }
  rewrite app_nil_r. rewrite <- be_encode_pad by (rewrite Z2Nat.id by lia; lia).
  f_equal. symmetry. exact Hn.
Qed.

(* ---------------- modular exponent algebra ---------------- *)
Lemma modexp_split a b c m : 0 <= b -> 0 <= c -> 0 < m ->
  bn_mod_mul (modexp_Z a b m) (modexp_Z a c m) m = modexp_Z a (b + c) m.
Proof.
  intros Hb Hc Hm. unfold bn_mod_mul, modexp_Z.
  rewrite <- Z.mul_mod by lia. rewrite <- Z.pow_add_r by lia. reflexivity.
Qed.

Lemma modexp_modexp a b c m : 0 <= b -> 0 <= c -> 0 < m ->
  modexp_Z (modexp_Z a b m) c m = modexp_Z a (b * c) m.
Proof.
  intros Hb Hc Hm. unfold modexp_Z.
  rewrite <- Zpower_mod by lia. rewrite <- Z.pow_mul_r by lia. reflexivity.
Qed.

Lemma add_times_eq n : forall x d, add_times n x d = x + Z.of_nat n * d.
Proof. induction n as [|n IH]; intros x d; cbn [add_times]; [lia|]. rewrite IH. lia. Qed.

(* ---------------- the parametric core ---------------- *)
Section Core.
  Variable P : dh_params.
  Hypothesis Hmod_ok : bytes_ok (firstn (p_modlen P) (p_group14 P)).
  Hypothesis Hmod_len : (length (firstn (p_modlen P) (p_group14 P)) <= p_publen P)%nat.
  Hypothesis Hmod_pos : 0 < modulus P.
  Hypothesis Htwo : bn_bin2bn (p_two256 P) (p_two256_len P) = 2 ^ 256.
  Hypothesis Hnadd : p_nadd P = 4%nat.
  Hypothesis Hnbadd : p_nbadd P = 1%nat.
  Hypothesis Hprivlen : p_privlen P = 32%nat.

  Lemma modulus_bound : modulus P < 256 ^ Z.of_nat (p_publen P).
  Proof.
    unfold modulus, bn_bin2bn. pose proof (be_decode_bound _ Hmod_ok) as [_ H].
    eapply Z.lt_le_trans; [exact H|]. apply Z.pow_le_mono_r; lia.
  Qed.

  Lemma priv_bound (priv : list N) : bytes_ok priv ->
    0 <= bn_bin2bn priv (p_privlen P) < 2 ^ 256.
  Proof using Hprivlen.
    clear Hmod_ok Hmod_len Hmod_pos Htwo Hnadd Hnbadd. intros Hp. unfold bn_bin2bn.
    assert (Hok : bytes_ok (firstn (p_privlen P) priv)) by (apply bytes_ok_firstn; exact Hp).
    pose proof (be_decode_bound _ Hok) as [H0 H1]. split; [exact H0|].
    eapply Z.lt_le_trans; [exact H1|]. rewrite firstn_length, Hprivlen.
    replace (2 ^ 256) with (256 ^ Z.of_nat 32) by reflexivity. apply Z.pow_le_mono_r; lia.
  Qed.

  (* M1, parametric: for EVERY blinding value the result is the fixed-width big-endian encoding
     of a^(2^258 + priv) mod p; in particular it does not depend on the blinding. *)
  Lemma blinded_modexp_core (r0 : list N) (a : Z) (priv blinding : list N) :
    length r0 = p_publen P -> bytes_ok priv -> bytes_ok blinding ->
    blinded_modexp P modexp_Z bn_mod_mul r0 a priv (Some blinding) =
    Some (be_encode (p_publen P) (modexp_Z a (2 ^ 258 + bn_bin2bn priv (p_privlen P)) (modulus P))).
  Proof.
    intros Hr0 Hp Hb. unfold blinded_modexp, blinded_exponents.
    rewrite Htwo, Hnadd, Hnbadd, !add_times_eq.
    pose proof (priv_bound priv Hp) as Hx. pose proof (priv_bound blinding Hb) as Hbl.
    set (x := bn_bin2bn priv (p_privlen P)) in *.
    set (bl := bn_bin2bn blinding (p_privlen P)) in *.
    assert (H256 : 0 < 2 ^ 256) by (apply Z.pow_pos_nonneg; lia).
    assert (E258 : 2 ^ 258 = 4 * 2 ^ 256) by (change 258 with (2 + 256); rewrite Z.pow_add_r by lia; reflexivity).
    rewrite modexp_split; [| lia | lia | exact Hmod_pos].
    replace (bl + Z.of_nat 1 * 2 ^ 256 + (x + Z.of_nat 4 * 2 ^ 256 - (bl + Z.of_nat 1 * 2 ^ 256)))
      with (2 ^ 258 + x) by lia.
    set (v := modexp_Z a (2 ^ 258 + x) (modulus P)).
    assert (Hv : 0 <= v < modulus P) by (unfold v, modexp_Z; apply Z.mod_pos_bound; exact Hmod_pos).
    pose proof modulus_bound as Hmb.
    assert (Hv' : 0 <= v < 256 ^ Z.of_nat (p_publen P)) by lia.
    pose proof (num_bytes_nonneg v) as H0. pose proof (num_bytes_le v _ Hv') as H1.
    destruct (Z.ltb_spec (bn_num_bytes v) 0); [lia|].
    destruct (Z.gtb_spec (bn_num_bytes v) (Z.of_nat (p_publen P))); [lia|].
    f_equal. apply pad_then_bn2bin; assumption.
  Qed.

  (* the exponent split: both exponents handed to BN_mod_exp are positive and add up to 2^258 + priv *)
  Lemma blinded_exponents_core (priv blinding : list N) :
    bytes_ok priv -> bytes_ok blinding ->
    let '(e1, e2) := blinded_exponents P priv blinding in
    0 < e1 /\ 0 < e2 /\ e1 + e2 = 2 ^ 258 + bn_bin2bn priv (p_privlen P).
  Proof using Htwo Hnadd Hnbadd Hprivlen.
    clear Hmod_ok Hmod_len Hmod_pos. intros Hp Hb. unfold blinded_exponents. rewrite Htwo, Hnadd, Hnbadd, !add_times_eq.
    pose proof (priv_bound priv Hp) as Hx. pose proof (priv_bound blinding Hb) as Hbl.
    assert (H256 : 0 < 2 ^ 256) by (apply Z.pow_pos_nonneg; lia).
    assert (E258 : 2 ^ 258 = 4 * 2 ^ 256) by (change 258 with (2 + 256); rewrite Z.pow_add_r by lia; reflexivity).
    lia.
  Qed.

  (* entropy failure is reported *)
  Lemma blinded_modexp_entropy_failure r0 a priv : blinded_modexp P modexp_Z bn_mod_mul r0 a priv None = None.
  Proof. reflexivity. Qed.
End Core.

(* ---------------- memcmp on equal-length strings = numeric order ---------------- *)
Lemma memcmp_sign a : forall b, length a = length b -> bytes_ok a -> bytes_ok b ->
  (memcmp_m a b < 0 <-> be_decode a < be_decode b) /\
  (memcmp_m a b = 0 <-> be_decode a = be_decode b).
Proof.
  induction a as [|x a IH]; intros b Hl Ha Hb; destruct b as [|y b]; try discriminate.
  - rewrite be_decode_nil. cbn [memcmp_m]. lia.
  - cbn [memcmp_m]. inversion Ha as [|? ? Hx Ha']; inversion Hb as [|? ? Hy Hb']; subst.
    cbn [length] in Hl. assert (Hl' : length a = length b) by lia.
    rewrite !be_decode_cons, Hl'.
    pose proof (be_decode_bound a Ha') as Ba. pose proof (be_decode_bound b Hb') as Bb.
    rewrite Hl' in Ba. set (W := 256 ^ Z.of_nat (length b)) in *.
    destruct (N.eqb_spec x y) as [->|Hne].
    + specialize (IH b Hl' Ha' Hb'). lia.
    + assert (Z.of_N x <> Z.of_N y) by lia. nia.
Qed.

(* ---------------- the repository's constants ---------------- *)
Lemma repo_group14_eq_rfc3526 : be_decode dh_group14 = rfc3526_group14 /\ length dh_group14 = 256%nat.
Proof. split; vm_compute; reflexivity. Qed.

Lemma repo_modulus : modulus repo_params = rfc3526_group14.
Proof. vm_compute. reflexivity. Qed.

Lemma repo_mod_ok : bytes_ok (firstn (p_modlen repo_params) (p_group14 repo_params)).
Proof. apply bytes_okb_spec. vm_compute. reflexivity. Qed.

Lemma repo_group14_ok : bytes_ok dh_group14.
Proof. apply bytes_okb_spec. vm_compute. reflexivity. Qed.

Lemma repo_two256 : bn_bin2bn (p_two256 repo_params) (p_two256_len repo_params) = 2 ^ 256.
Proof. vm_compute. reflexivity. Qed.

Lemma rfc_pos : 0 < rfc3526_group14.
Proof. reflexivity. Qed.

Lemma repo_lengths :
  p_publen repo_params = 256%nat /\ p_keylen repo_params = 256%nat /\ p_privlen repo_params = 32%nat /\
  p_cmplen repo_params = 256%nat /\ p_modlen repo_params = 256%nat /\ p_generator repo_params = 2.
Proof. split; [|split; [|split; [|split; [|split]]]]; vm_compute; reflexivity. Qed.

(* M1 for the repository's constants *)
Theorem blinded_modexp_correct (r0 : list N) (a : Z) (priv blinding : list N) :
  length r0 = 256%nat -> bytes_ok priv -> length priv = 32%nat -> bytes_ok blinding ->
  blinded_modexp repo_params modexp_Z bn_mod_mul r0 a priv (Some blinding) =
  Some (be_encode 256 ((a ^ (2 ^ 258 + be_decode priv)) mod rfc3526_group14)).
Proof.
  intros Hr0 Hp Hpl Hb.
  assert (Hlen : (length (firstn (p_modlen repo_params) (p_group14 repo_params)) <= p_publen repo_params)%nat)
    by (apply Nat.leb_le; vm_compute; reflexivity).
  assert (Hpos : 0 < modulus repo_params) by (rewrite repo_modulus; exact rfc_pos).
  rewrite (blinded_modexp_core repo_params repo_mod_ok Hlen Hpos repo_two256 eq_refl eq_refl eq_refl
             r0 a priv blinding Hr0 Hp Hb).
  rewrite repo_modulus. unfold bn_bin2bn.
  replace (p_privlen repo_params) with 32%nat by reflexivity.
  replace (p_publen repo_params) with 256%nat by reflexivity.
  rewrite firstn_all2 by lia. unfold modexp_Z. reflexivity.
Qed.

Theorem blinded_exponents_split (priv blinding : list N) :
  bytes_ok priv -> length priv = 32%nat -> bytes_ok blinding ->
  let '(e1, e2) := blinded_exponents repo_params priv blinding in
  0 < e1 /\ 0 < e2 /\ e1 + e2 = 2 ^ 258 + be_decode priv.
Proof.
  intros Hp Hpl Hb.
  pose proof (blinded_exponents_core repo_params repo_two256 eq_refl eq_refl eq_refl priv blinding Hp Hb) as H.
  destruct (blinded_exponents repo_params priv blinding) as [e1 e2].
  unfold bn_bin2bn in H. replace (p_privlen repo_params) with 32%nat in H by reflexivity.
  rewrite firstn_all2 in H by lia. exact H.
Qed.

(* the same statement for integers: every 256-bit private value x, every a >= 0, every 256-bit r *)
Corollary blinded_modexp_correct_Z (r0 : list N) (a x r : Z) :
  length r0 = 256%nat -> 0 <= x < 2 ^ 256 -> 0 <= r < 2 ^ 256 ->
  blinded_modexp repo_params modexp_Z bn_mod_mul r0 a (be_encode 32 x) (Some (be_encode 32 r)) =
  Some (be_encode 256 ((a ^ (2 ^ 258 + x)) mod rfc3526_group14)).
Proof.
  intros Hr0 Hx Hr.
  rewrite blinded_modexp_correct; auto using be_encode_bytes_ok, be_encode_length.
  rewrite be_decode_encode; [reflexivity|]. exact Hx.
Qed.

(* the output is a 256-byte string that decodes to the residue (so the padding is right) *)
Lemma result_shape v : 0 <= v < rfc3526_group14 ->
  length (be_encode 256 v) = 256%nat /\ be_decode (be_encode 256 v) = v /\ bytes_ok (be_encode 256 v).
Proof.
  intros Hv. split; [apply be_encode_length|]. split; [|apply be_encode_bytes_ok].
  apply be_decode_encode. assert (rfc3526_group14 < 256 ^ Z.of_nat 256) by (vm_compute; reflexivity). lia.
Qed.

(* blinding independence, stated on its own *)
Corollary blinding_independent r0 r0' a priv b1 b2 :
  length r0 = 256%nat -> length r0' = 256%nat -> bytes_ok priv -> length priv = 32%nat ->
  bytes_ok b1 -> bytes_ok b2 ->
  blinded_modexp repo_params modexp_Z bn_mod_mul r0 a priv (Some b1) =
  blinded_modexp repo_params modexp_Z bn_mod_mul r0' a priv (Some b2).
Proof. intros. rewrite !blinded_modexp_correct by assumption. reflexivity. Qed.

(* M2 *)
Theorem generate_pub_correct pub0 priv blinding :
  length pub0 = 256%nat -> bytes_ok priv -> length priv = 32%nat -> bytes_ok blinding ->
  dh_generate_pub repo_params modexp_Z bn_mod_mul pub0 priv (Some blinding) =
  Some (be_encode 256 (dh_pub_spec (be_decode priv))).
Proof.
  intros. unfold dh_generate_pub. rewrite blinded_modexp_correct by assumption.
  unfold dh_pub_spec, dh_exponent. replace (p_generator repo_params) with 2 by reflexivity. reflexivity.
Qed.

Theorem compute_correct key0 pub priv blinding :
  length key0 = 256%nat -> length pub = 256%nat -> bytes_ok priv -> length priv = 32%nat -> bytes_ok blinding ->
  dh_compute repo_params modexp_Z bn_mod_mul key0 pub priv (Some blinding) =
  Some (be_encode 256 (dh_key_spec (be_decode pub) (be_decode priv))).
Proof.
  intros Hk Hpub Hp Hpl Hb. unfold dh_compute. rewrite blinded_modexp_correct by assumption.
  unfold bn_bin2bn. replace (p_publen repo_params) with 256%nat by reflexivity.
  rewrite firstn_all2 by lia. unfold dh_key_spec, dh_exponent. reflexivity.
Qed.

Theorem generate_correct pub0 priv blinding rest :
  length pub0 = 256%nat -> bytes_ok priv -> length priv = 32%nat -> bytes_ok blinding ->
  dh_generate repo_params modexp_Z bn_mod_mul pub0 (Some priv :: Some blinding :: rest) =
  Some (be_encode 256 (dh_pub_spec (be_decode priv)), priv).
Proof.
  intros Hpub Hp Hpl Hb. unfold dh_generate.
  replace (p_privlen repo_params) with 32%nat by reflexivity. rewrite firstn_all2 by lia.
  rewrite generate_pub_correct by assumption. reflexivity.
Qed.

Lemma dh_exponent_nonneg x : 0 <= x -> 0 <= dh_exponent x.
Proof. intros. unfold dh_exponent. assert (0 < 2 ^ 258) by (apply Z.pow_pos_nonneg; lia). lia. Qed.

Lemma spec_agreement xA xB : 0 <= xA -> 0 <= xB ->
  dh_key_spec (dh_pub_spec xB) xA = dh_key_spec (dh_pub_spec xA) xB.
Proof.
  intros HA HB. unfold dh_key_spec, dh_pub_spec.
  pose proof (dh_exponent_nonneg xA HA). pose proof (dh_exponent_nonneg xB HB).
  change ((2 ^ dh_exponent xB) mod rfc3526_group14) with (modexp_Z 2 (dh_exponent xB) rfc3526_group14).
  change ((2 ^ dh_exponent xA) mod rfc3526_group14) with (modexp_Z 2 (dh_exponent xA) rfc3526_group14).
  fold (modexp_Z (modexp_Z 2 (dh_exponent xB) rfc3526_group14) (dh_exponent xA) rfc3526_group14).
  fold (modexp_Z (modexp_Z 2 (dh_exponent xA) rfc3526_group14) (dh_exponent xB) rfc3526_group14).
  rewrite !modexp_modexp by (try assumption; exact rfc_pos). f_equal. ring.
Qed.

Lemma some_inj {A} (x y : A) : Some x = Some y -> x = y.
Proof. intros H. inversion H. reflexivity. Qed.

(* two parties: A has (privA), B has (privB); each publishes generate_pub and computes with the
   other's public value; whatever the four blinding values and prior buffer contents, the keys
   are equal *)
Theorem agreement pubA0 pubB0 keyA0 keyB0 privA privB bA bB bA' bB' pubA pubB :
  length pubA0 = 256%nat -> length pubB0 = 256%nat -> length keyA0 = 256%nat -> length keyB0 = 256%nat ->
  bytes_ok privA -> length privA = 32%nat -> bytes_ok privB -> length privB = 32%nat ->
  bytes_ok bA -> bytes_ok bB -> bytes_ok bA' -> bytes_ok bB' ->
  dh_generate_pub repo_params modexp_Z bn_mod_mul pubA0 privA (Some bA) = Some pubA ->
  dh_generate_pub repo_params modexp_Z bn_mod_mul pubB0 privB (Some bB) = Some pubB ->
  exists key,
    dh_compute repo_params modexp_Z bn_mod_mul keyA0 pubB privA (Some bA') = Some key /\
    dh_compute repo_params modexp_Z bn_mod_mul keyB0 pubA privB (Some bB') = Some key.
Proof.
  intros HlA0 HlB0 HkA0 HkB0 HpA HlA HpB HlB HbA HbB HbA' HbB' EA EB.
  rewrite generate_pub_correct in EA, EB by assumption.
  apply some_inj in EA. apply some_inj in EB. subst pubA pubB.
  pose proof (be_decode_bound privA HpA) as [HA0 _]. pose proof (be_decode_bound privB HpB) as [HB0 _].
  assert (SA : 0 <= dh_pub_spec (be_decode privA) < rfc3526_group14)
    by (apply Z.mod_pos_bound; exact rfc_pos).
  assert (SB : 0 <= dh_pub_spec (be_decode privB) < rfc3526_group14)
    by (apply Z.mod_pos_bound; exact rfc_pos).
  destruct (result_shape _ SA) as (LA & DA & _). destruct (result_shape _ SB) as (LB & DB & _).
  eexists. split.
  - rewrite compute_correct by assumption. rewrite DB. reflexivity.
  - rewrite compute_correct by assumption. rewrite DA. f_equal. f_equal. apply spec_agreement; assumption.
Qed.

(* M3 *)
Theorem sanitycheck_iff pub : length pub = 256%nat -> bytes_ok pub ->
  (dh_sanitycheck repo_params pub = 0 <-> be_decode pub < rfc3526_group14) /\
  (dh_sanitycheck repo_params pub = -1 <-> rfc3526_group14 <= be_decode pub).
Proof.
  intros Hl Hok. unfold dh_sanitycheck.
  replace (p_cmplen repo_params) with 256%nat by reflexivity.
  replace (p_group14 repo_params) with dh_group14 by reflexivity.
  destruct repo_group14_eq_rfc3526 as [Ep Lp].
  rewrite !firstn_all2 by lia.
  destruct (memcmp_sign pub dh_group14 (eq_trans Hl (eq_sym Lp)) Hok repo_group14_ok) as [Hlt _].
  rewrite Ep in Hlt.
  destruct (Z.geb_spec (memcmp_m pub dh_group14) 0); split; split; intros; try lia; try discriminate.
Qed.

(* ---------------- non-vacuity: the hypotheses of the theorems are satisfiable ---------------- *)
Example blinded_modexp_instance :
  let priv := be_encode 32 5 in let bl := be_encode 32 7 in
  length (repeat 170%N 256) = 256%nat /\ bytes_ok priv /\ length priv = 32%nat /\ bytes_ok bl.
Proof.
  intros priv bl. split; [apply repeat_length|]. split; [apply be_encode_bytes_ok|].
  split; [apply be_encode_length|apply be_encode_bytes_ok].
Qed.

Example sanitycheck_instances :
  dh_sanitycheck repo_params (be_encode 256 (rfc3526_group14 - 1)) = 0 /\
  dh_sanitycheck repo_params (be_encode 256 rfc3526_group14) = -1 /\
  dh_sanitycheck repo_params (be_encode 256 (rfc3526_group14 + 1)) = -1 /\
  dh_sanitycheck repo_params (be_encode 256 0) = 0.
Proof. split; [|split; [|split]]; vm_compute; reflexivity. Qed.
