(* The HMAC hypotheses of DrbgProofs.v discharged for alg/sha256.c with the hash area's theorems
   (Alg/HashRepoProofs.v, C01): the functions that are extracted and run against the C
   (Crypto/DrbgRepo.v) refine SP 800-90A HMAC_DRBG over HMAC-SHA256 as RFC 2104 / FIPS 180-4
   state it, with no hypothesis left. *)
From Coq Require Import NArith List.
From LCP Require Import Base.CheckedMem Gen.Repo_dhdrbg Alg.HashRepo Alg.HashSpecs Alg.HashRepoProofs.
From LCP Require Import Crypto.DrbgSpec Crypto.DrbgOsSpec Crypto.DrbgModel Crypto.DrbgOsModel Crypto.DrbgProofs Crypto.DrbgOsProofs Crypto.DrbgRepo.
Import ListNotations.
Local Open Scope N_scope.

Lemma sha256_h_stream K a b :
  drbg_h_final (hmac256_update (hmac256_update (hmac256_init K) a) b) = HMAC_SHA256_spec K (a ++ b).
Proof. unfold drbg_h_final. rewrite repo_hmac_sha256_stream2_eq_buf. apply repo_hmac_sha256_buf. Qed.

Theorem drbg_run_refines_spec reqs o :
  exists results st' o' tr,
    drbg_run reqs o = Ok (results, st', o', tr) /\
    drbg_spec_run reqs o = (results, abs_state st', o').
Proof.
  unfold drbg_run, drbg_spec_run.
  destruct (repo_drbg_refines_spec HMAC_SHA256_spec hctx256 hmac256_init hmac256_update drbg_h_final hmac256_buf
              sha256_h_stream repo_hmac_sha256_buf HMAC_SHA256_spec_length reqs dstate0 o)
    as (results & st' & o' & tr & E & Es).
  exists results, st', o', tr. split; [exact E|exact Es].
Qed.

Theorem drbg_run_schedule reqs o results st' o' tr :
  drbg_run reqs o = Ok (results, st', o', tr) ->
  (exists b, pos_run None tr = Some b) /\
  sched_run None tr = Some (astate_of st') /\
  trace_oracle tr o = Some o' /\
  (forall bytes, In (Some bytes) results -> In (EvInstantiate 48 true) tr).
Proof.
  unfold drbg_run. intros H. split.
  - exact (repo_reseed_schedule HMAC_SHA256_spec hctx256 hmac256_init hmac256_update drbg_h_final hmac256_buf
             sha256_h_stream repo_hmac_sha256_buf HMAC_SHA256_spec_length _ _ _ _ _ _ H).
  - exact (repo_no_unseeded_output HMAC_SHA256_spec hctx256 hmac256_init hmac256_update drbg_h_final hmac256_buf
             sha256_h_stream repo_hmac_sha256_buf HMAC_SHA256_spec_length _ _ _ _ _ _ H).
Qed.

(* the generator over the real entropy wrapper and the system calls *)
Theorem drbg_os_run_refines_spec reqs ss :
  exists results st' ss' tr,
    drbg_os_run reqs ss = Ok (results, st', ss', tr) /\
    drbg_os_spec_run reqs ss = (results, abs_state st', spec_resolve (dinst st') ss') /\
    suffix ss' ss.
Proof.
  unfold drbg_os_run, drbg_os_spec_run.
  exact (repo_os_refines_spec HMAC_SHA256_spec hctx256 hmac256_init hmac256_update drbg_h_final hmac256_buf
           sha256_h_stream repo_hmac_sha256_buf HMAC_SHA256_spec_length reqs dstate0 ss).
Qed.

(* ... and its trace obeys the same schedule: the run over the sessions IS the run over the
   oracle [spec_resolve false ss] *)
Theorem drbg_os_run_schedule reqs ss results st' ss' tr :
  drbg_os_run reqs ss = Ok (results, st', ss', tr) ->
  (exists b, pos_run None tr = Some b) /\
  sched_run None tr = Some (astate_of st') /\
  trace_oracle tr (spec_resolve false ss) = Some (spec_resolve (dinst st') ss') /\
  (forall bytes, In (Some bytes) results -> In (EvInstantiate 48 true) tr).
Proof.
  unfold drbg_os_run. intros H.
  apply (drbg_run_schedule reqs (spec_resolve false ss) results st' (spec_resolve (dinst st') ss') tr). unfold drbg_run.
  rewrite repo_params_eq_spec in *.
  destruct (run_sim hctx256 hmac256_init hmac256_update drbg_h_final hmac256_buf reqs dstate0 ss) as [H1 _].
  rewrite H in H1. cbn [to_m] in H1. symmetry. exact H1.
Qed.
