(* The HMAC hypotheses of DrbgProofs.v discharged for alg/sha256.c with the hash area's theorems
   (Alg/HashRepoProofs.v, C01): the functions that are extracted and run against the C
   (Crypto/DrbgRepo.v) refine SP 800-90A HMAC_DRBG over HMAC-SHA256 as RFC 2104 / FIPS 180-4
   state it, with no hypothesis left. *)
From Coq Require Import NArith List.
From LCP Require Import Base.CheckedMem Gen.Repo_dhdrbg Alg.HashRepo Alg.HashSpecs Alg.HashRepoProofs.
From LCP Require Import Crypto.DrbgSpec Crypto.DrbgModel Crypto.DrbgProofs Crypto.DrbgRepo.
Import ListNotations.
Local Open Scope N_scope.

Lemma sha256_h_stream K a b :
  drbg_h_final (hmac256_update (hmac256_update (hmac256_init K) a) b) = HMAC_SHA256_spec K (a ++ b).
Proof. unfold drbg_h_final. rewrite repo_hmac_sha256_stream2_eq_buf. apply repo_hmac_sha256_buf. Qed.

Theorem drbg_run_refines_spec reqs o :
  exists results st' o' tr,
    drbg_run reqs o = Ok (results, st', o', tr) /\
    drbg_spec_run reqs o = (results, abs_state st', o').
Proof.
  unfold drbg_run, drbg_spec_run.
  destruct (repo_drbg_refines_spec HMAC_SHA256_spec hctx256 hmac256_init hmac256_update drbg_h_final hmac256_buf
              sha256_h_stream repo_hmac_sha256_buf HMAC_SHA256_spec_length reqs dstate0 o)
    as (results & st' & o' & tr & E & Es).
  exists results, st', o', tr. split; [exact E|exact Es].
Qed.

Theorem drbg_run_schedule reqs o results st' o' tr :
  drbg_run reqs o = Ok (results, st', o', tr) ->
  (exists b, pos_run None tr = Some b) /\
  sched_run None tr = Some (astate_of st') /\
  trace_oracle tr o = Some o' /\
  (forall bytes, In (Some bytes) results -> In (EvInstantiate 48 true) tr).
Proof.
  unfold drbg_run. intros H. split.
  - exact (repo_reseed_schedule HMAC_SHA256_spec hctx256 hmac256_init hmac256_update drbg_h_final hmac256_buf
             sha256_h_stream repo_hmac_sha256_buf HMAC_SHA256_spec_length _ _ _ _ _ _ H).
  - exact (repo_no_unseeded_output HMAC_SHA256_spec hctx256 hmac256_init hmac256_update drbg_h_final hmac256_buf
             sha256_h_stream repo_hmac_sha256_buf HMAC_SHA256_spec_length _ _ _ _ _ _ H).
Qed.
