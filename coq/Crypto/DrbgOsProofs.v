(* Proofs about the model of util/entropy.c (DrbgOsModel.v) and its composition under the model
   of crypto/crypto_entropy.c (C11):
     E1  entropy_read_fill, for EVERY answer sequence: never aborts, result = [spec_fill]; it
         succeeds when the consumed answers all delivered something and together reach buflen
         (short reads are tolerated); it fails only because the last consumed answer is -1, is 0
         bytes (EOF), or the answers ran out before buflen bytes had arrived;
     E2  entropy_read (the one-shot wrapper), for every session: returns 0 iff open succeeded AND
         the fill succeeded AND close succeeded (EINTR retried); result = [spec_session];
     E3  crypto_entropy_read over entropy_read over the system calls = the model over the oracle
         [spec_resolve] computes from the sessions - hence (with DrbgProofs.v) = the SP 800-90A
         machine fed with the bytes the sessions delivered, a call failing exactly when one of its
         sessions failed. *)
From Coq Require Import Arith NArith ZArith List Bool Lia.
From LCP Require Import Base.CheckedMem Gen.Repo_dhdrbg Crypto.DrbgSpec Crypto.DrbgOsSpec Crypto.DrbgModel.
From LCP Require Import Crypto.DrbgOsModel Crypto.DrbgProofs.
Import ListNotations.
Local Open Scope N_scope.

(* every answer delivered at least one byte *)
Definition all_good (l : list rd_answer) : Prop := Forall (fun a => good a = true) l.
(* bytes delivered by these answers together *)
Definition total (l : list rd_answer) : nat := length (concat (map payload l)).
(* close() answered 0 after k >= 0 answers of -1/EINTR *)
Definition close_succeeds (closes : list close_answer) : Prop :=
  exists k r, closes = repeat CloseEintr k ++ CloseOk :: r.
Definition suffix {A : Type} (l' l : list A) : Prop := exists used, l = used ++ l'.

Lemma suffix_refl {A} (l : list A) : suffix l l.
Proof. exists []. reflexivity. Qed.
Lemma suffix_trans {A} (a b c : list A) : suffix a b -> suffix b c -> suffix a c.
Proof. intros [u ->] [v ->]. exists (v ++ u). rewrite app_assoc. reflexivity. Qed.
Lemma suffix_tl {A} (x : A) (l : list A) : suffix l (x :: l).
Proof. exists [x]. reflexivity. Qed.
Lemma suffix_nil {A} (l : list A) : suffix [] l.
Proof. exists l. rewrite app_nil_r. reflexivity. Qed.

(* ---------------- the spec of the read loop ---------------- *)
Lemma total_cons a l : total (a :: l) = (length (payload a) + total l)%nat.
Proof. unfold total. cbn [map concat]. apply app_length. Qed.

Lemma healthy_prefix_app used rest :
  all_good used -> healthy_prefix (used ++ rest) = used ++ healthy_prefix rest.
Proof.
  induction 1 as [|a l Ha Hl IH]; [reflexivity|].
  cbn [app healthy_prefix]. rewrite Ha, IH. reflexivity.
Qed.

Lemma spec_fill_some n used rest :
  all_good used -> (n <= total used)%nat ->
  spec_fill n (used ++ rest) = Some (firstn n (concat (map payload used))).
Proof.
  intros Hg Hn. unfold spec_fill, delivered, total in *.
  rewrite (healthy_prefix_app _ _ Hg), map_app, concat_app, app_length.
  destruct (Nat.leb_spec n (length (concat (map payload used)) + length (concat (map payload (healthy_prefix rest)))));
    [|lia].
  rewrite firstn_app. replace (n - length (concat (map payload used)))%nat with 0%nat by lia.
  rewrite firstn_O, app_nil_r. reflexivity.
Qed.

Lemma spec_fill_none n pre tail :
  all_good pre -> (total pre < n)%nat ->
  (tail = [] \/ exists a r, tail = a :: r /\ good a = false) ->
  spec_fill n (pre ++ tail) = None.
Proof.
  intros Hg Hn Ht. unfold spec_fill, delivered, total in *.
  rewrite (healthy_prefix_app _ _ Hg).
  assert (E : healthy_prefix tail = []).
  { destruct Ht as [->|(a & r & -> & Ha)]; [reflexivity|]. cbn [healthy_prefix]. rewrite Ha. reflexivity. }
  rewrite E, app_nil_r.
  destruct (Nat.leb_spec n (length (concat (map payload pre)))); [lia|reflexivity].
Qed.

(* ---------------- E1: entropy_read_fill ---------------- *)
Lemma fill_m_master : forall (fuel : nat) buflen answers, (N.to_nat buflen <= fuel)%nat ->
  exists res rest, fill_m fuel buflen answers = Ok (res, rest) /\
    match res with
    | Some bytes => exists used, answers = used ++ rest /\ all_good used /\
        (N.to_nat buflen <= total used)%nat /\
        bytes = firstn (N.to_nat buflen) (concat (map payload used))
    | None => exists pre, all_good pre /\ (total pre < N.to_nat buflen)%nat /\
        (answers = pre ++ RdErr :: rest \/ answers = pre ++ RdBytes [] :: rest \/
         (answers = pre /\ rest = []))
    end.
Proof.
  assert (Hzero : forall answers : list rd_answer,
    exists used, answers = used ++ answers /\ all_good used /\ (N.to_nat 0 <= total used)%nat /\
                 [] = firstn (N.to_nat 0) (concat (map payload used))).
  { intros answers. exists []. split; [reflexivity|]. split; [constructor|]. split; [cbn; lia|reflexivity]. }
  induction fuel as [|f IH]; intros buflen answers Hf.
  - assert (buflen = 0) by lia. subst. cbn [fill_m N.ltb N.compare].
    exists (Some []), answers. split; [reflexivity|apply Hzero].
  - cbn [fill_m]. destruct (N.ltb_spec 0 buflen) as [Hpos|Hz].
    2:{ assert (buflen = 0) by lia. subst. exists (Some []), answers. split; [reflexivity|apply Hzero]. }
    destruct answers as [|[|l] r].
    + exists None, []. split; [reflexivity|]. exists []. split; [constructor|]. split; [cbn; lia|].
      right. right. split; reflexivity.
    + exists None, r. split; [reflexivity|]. exists []. split; [constructor|]. split; [cbn; lia|].
      left. reflexivity.
    + set (got := firstn (N.to_nat buflen) l).
      assert (Hgl : length got = Nat.min (N.to_nat buflen) (length l)) by (unfold got; apply firstn_length).
      destruct (N.eqb_spec (N.of_nat (length got)) 0) as [Hz|Hnz].
      * (* read returned 0: EOF *)
        assert (l = []) by (destruct l; [reflexivity|cbn [length] in Hgl; lia]). subst l.
        exists None, r. split; [reflexivity|]. exists []. split; [constructor|]. split; [cbn; lia|].
        right. left. reflexivity.
      * assert (Hgood : good (RdBytes l) = true).
        { destruct l; [cbn [length] in Hgl; rewrite Nat.min_0_r in Hgl; lia|reflexivity]. }
        destruct (IH (buflen - N.of_nat (length got)) r) as (res & rest & E & Hres); [lia|].
        rewrite E. cbn [bind].
        destruct res as [more|].
        -- destruct Hres as (used & Ea & Hg & Ht & Hm).
           eexists _, rest. split; [reflexivity|].
           exists (RdBytes l :: used). split; [rewrite Ea; reflexivity|].
           split; [constructor; assumption|].
           rewrite total_cons. cbn [payload]. split; [lia|].
           cbn [map payload concat]. rewrite firstn_app. fold got. f_equal.
           rewrite Hm. f_equal. lia.
        -- destruct Hres as (pre & Hg & Ht & Hwhy).
           eexists _, rest. split; [reflexivity|].
           exists (RdBytes l :: pre). split; [constructor; assumption|].
           rewrite total_cons. cbn [payload]. split; [lia|].
           destruct Hwhy as [->|[->|[-> ->]]]; [left|right; left|right; right; split]; reflexivity.
Qed.

(* entropy_read_fill never aborts and computes [spec_fill], for every answer sequence *)
Theorem entropy_read_fill_exact buflen answers :
  exists rest, entropy_read_fill_m buflen answers = Ok (spec_fill (N.to_nat buflen) answers, rest) /\
               suffix rest answers.
Proof.
  unfold entropy_read_fill_m.
  destruct (fill_m_master (S (N.to_nat buflen)) buflen answers) as (res & rest & E & Hres); [lia|].
  exists rest. rewrite E. destruct res as [bytes|].
  - destruct Hres as (used & -> & Hg & Ht & ->).
    rewrite (spec_fill_some _ _ _ Hg Ht). split; [reflexivity|exists used; reflexivity].
  - destruct Hres as (pre & Hg & Ht & Hwhy).
    destruct Hwhy as [->|[->|[-> ->]]].
    + rewrite (spec_fill_none _ _ _ Hg Ht); [|right; eexists _, _; split; reflexivity].
      split; [reflexivity|]. exists (pre ++ [RdErr]). rewrite <- app_assoc. reflexivity.
    + rewrite (spec_fill_none _ _ _ Hg Ht); [|right; eexists _, _; split; reflexivity].
      split; [reflexivity|]. exists (pre ++ [RdBytes []]). rewrite <- app_assoc. reflexivity.
    + rewrite <- (app_nil_r pre) at 1. rewrite (spec_fill_none _ _ _ Hg Ht); [|left; reflexivity].
      split; [reflexivity|apply suffix_nil].
Qed.

(* short reads are tolerated: whenever the answers to be consumed each deliver something and
   together reach buflen, the call succeeds with the first buflen bytes delivered *)
Theorem entropy_read_fill_succeeds buflen used rest :
  all_good used -> (N.to_nat buflen <= total used)%nat ->
  exists rest', entropy_read_fill_m buflen (used ++ rest) =
                Ok (Some (firstn (N.to_nat buflen) (concat (map payload used))), rest').
Proof.
  intros Hg Ht. destruct (entropy_read_fill_exact buflen (used ++ rest)) as (rest' & E & _).
  exists rest'. rewrite E, (spec_fill_some _ _ _ Hg Ht). reflexivity.
Qed.

(* the only reasons for failure: after reads that delivered fewer than buflen bytes together,
   read() returned -1, or returned 0, or the answers ran out *)
Theorem entropy_read_fill_fails_why buflen answers rest :
  entropy_read_fill_m buflen answers = Ok (None, rest) ->
  exists pre, all_good pre /\ (total pre < N.to_nat buflen)%nat /\
    (answers = pre ++ RdErr :: rest \/ answers = pre ++ RdBytes [] :: rest \/ (answers = pre /\ rest = [])).
Proof.
  unfold entropy_read_fill_m. intros H.
  destruct (fill_m_master (S (N.to_nat buflen)) buflen answers) as (res & rest' & E & Hres); [lia|].
  rewrite E in H. injection H as -> ->. exact Hres.
Qed.

(* ... and the conditions of success *)
Theorem entropy_read_fill_success_why buflen answers bytes rest :
  entropy_read_fill_m buflen answers = Ok (Some bytes, rest) ->
  exists used, answers = used ++ rest /\ all_good used /\ (N.to_nat buflen <= total used)%nat /\
    bytes = firstn (N.to_nat buflen) (concat (map payload used)) /\ length bytes = N.to_nat buflen.
Proof.
  unfold entropy_read_fill_m. intros H.
  destruct (fill_m_master (S (N.to_nat buflen)) buflen answers) as (res & rest' & E & Hres); [lia|].
  rewrite E in H. injection H as -> ->. destruct Hres as (used & Ea & Hg & Ht & Hb).
  exists used. repeat split; try assumption. rewrite Hb, firstn_length. unfold total in Ht. lia.
Qed.

(* ---------------- E2: entropy_read_done and the wrapper ---------------- *)
Lemma er_done_spec closes : fst (er_done_m closes) = spec_close closes.
Proof.
  induction closes as [|[| |] r IH]; cbn [er_done_m spec_close fst]; try reflexivity.
  destruct (er_done_m r). exact IH.
Qed.

Lemma spec_close_iff closes : spec_close closes = true <-> close_succeeds closes.
Proof.
  unfold close_succeeds. induction closes as [|[| |] r IH]; cbn [spec_close].
  - split; [discriminate|]. intros (k & r & H). destruct k; discriminate.
  - split; [|reflexivity]. intros _. exists 0%nat, r. reflexivity.
  - rewrite IH. split.
    + intros (k & r' & ->). exists (S k), r'. reflexivity.
    + intros (k & r' & H). destruct k as [|k]; [discriminate|]. injection H as ->. exists k, r'. reflexivity.
  - split; [discriminate|]. intros (k & r' & H). destruct k; discriminate.
Qed.

(* the wrapper never aborts on a legal length and computes [spec_session] *)
Theorem entropy_read_w_exact buflen s : buflen <= ssize_max ->
  exists lg, entropy_read_w buflen s = Ok (spec_session (N.to_nat buflen) s, lg).
Proof.
  intros Hb. unfold entropy_read_w, spec_session, er_init_m.
  destruct (N.ltb_spec ssize_max buflen); [lia|].
  destruct (s_open s); cbn [negb]; [|eexists; reflexivity].
  destruct (entropy_read_fill_exact buflen (s_reads s)) as (rest & -> & _). cbn [bind].
  pose proof (er_done_spec (s_closes s)) as Hd.
  destruct (er_done_m (s_closes s)) as [ok nc]. cbn [fst] in Hd. rewrite <- Hd.
  destruct (spec_fill (N.to_nat buflen) (s_reads s)); [destruct ok|]; eexists; reflexivity.
Qed.

(* E2 as the C reads: entropy_read returns 0 with the buffer = bytes iff open() succeeded, AND
   entropy_read_fill returned 0 having stored bytes, AND entropy_read_done returned 0 (close
   answered 0 after any number of EINTR); in every other case it returns -1 *)
Theorem entropy_read_w_iff buflen s : buflen <= ssize_max ->
  exists res lg, entropy_read_w buflen s = Ok (res, lg) /\
    (forall bytes, res = Some bytes <->
       s_open s = true /\
       (exists rest, entropy_read_fill_m buflen (s_reads s) = Ok (Some bytes, rest)) /\
       close_succeeds (s_closes s)) /\
    (forall bytes, res = Some bytes -> length bytes = N.to_nat buflen).
Proof.
  intros Hb. destruct (entropy_read_w_exact buflen s Hb) as (lg & E).
  eexists _, lg. split; [exact E|].
  destruct (entropy_read_fill_exact buflen (s_reads s)) as (rest & Ef & _).
  assert (Hiff : forall bytes, spec_session (N.to_nat buflen) s = Some bytes <->
       s_open s = true /\
       (exists rest, entropy_read_fill_m buflen (s_reads s) = Ok (Some bytes, rest)) /\
       close_succeeds (s_closes s)).
  { intros bytes. unfold spec_session. rewrite Ef, <- spec_close_iff.
    destruct (s_open s); [|split; [discriminate|intros [H _]; discriminate]].
    destruct (spec_fill (N.to_nat buflen) (s_reads s)) as [b|].
    - destruct (spec_close (s_closes s)).
      + split.
        * intros H. injection H as ->. split; [reflexivity|]. split; [exists rest; reflexivity|reflexivity].
        * intros (_ & (r' & H) & _). injection H as -> _. reflexivity.
      + split; [discriminate|]. intros (_ & _ & H). discriminate.
    - split; [discriminate|]. intros (_ & (r' & H) & _). discriminate. }
  split; [exact Hiff|].
  intros bytes H. apply Hiff in H. destruct H as (_ & (r' & H) & _).
  destruct (entropy_read_fill_success_why _ _ _ _ H) as (used & _ & _ & _ & _ & Hl). exact Hl.
Qed.

Lemma spec_session_length n s b : spec_session n s = Some b -> length b = n.
Proof.
  unfold spec_session, spec_fill. destruct (s_open s); [|discriminate].
  destruct (Nat.leb_spec n (length (delivered (s_reads s)))) as [Hle|Hgt]; [|discriminate].
  destruct (spec_close (s_closes s)); [|discriminate].
  intros E. injection E as <-. rewrite firstn_length. lia.
Qed.

(* ---------------- E3: composition under crypto_entropy.c ---------------- *)
Lemma take_pad_id n b : length b = n -> take_pad n b = b.
Proof.
  intros <-. unfold take_pad. rewrite firstn_app, Nat.sub_diag, firstn_O, app_nil_r. apply firstn_all.
Qed.

Definition seedlen (inst : bool) : nat := if inst then spec_reseed_entropy else spec_instantiate_entropy.

Lemma get_os_eq inst ss :
  get_entropy_os (seedlen inst) ss =
  Ok (match ss with [] => (None, []) | s :: r => (spec_session (seedlen inst) s, r) end).
Proof.
  destruct ss as [|s r]; [reflexivity|]. cbn [get_entropy_os].
  destruct (entropy_read_w_exact (N.of_nat (seedlen inst)) s) as (lg & ->).
  { destruct inst; vm_compute; discriminate. }
  cbn [bind]. rewrite Nat2N.id. reflexivity.
Qed.

Lemma get_resolve_eq inst ss :
  get_entropy (seedlen inst) (spec_resolve inst ss) =
  match ss with
  | [] => (None, [])
  | s :: r => (spec_session (seedlen inst) s,
               spec_resolve (inst || is_some (spec_session (seedlen inst) s)) r)
  end.
Proof.
  destruct ss as [|s r]; [reflexivity|]. cbn [spec_resolve]. fold (seedlen inst).
  destruct (spec_session (seedlen inst) s) as [b|] eqn:E; cbn [get_entropy is_some]; [|reflexivity].
  rewrite (take_pad_id _ _ (spec_session_length _ _ _ E)). reflexivity.
Qed.

(* results of the OS-level model, seen as results of the oracle-level model *)
Definition to_mi {X : Type} (i : bool) (r : res (X * dstate * os_oracle * list ev))
  : res (X * dstate * oracle * list ev) :=
  match r with
  | Ok (x, st', ss', tr) => Ok (x, st', spec_resolve i ss', tr)
  | Fault => Fault | AssertFail => AssertFail | OutOfFuel => OutOfFuel
  end.
Definition to_m {X : Type} (r : res (X * dstate * os_oracle * list ev))
  : res (X * dstate * oracle * list ev) :=
  match r with
  | Ok (x, st', ss', tr) => Ok (x, st', spec_resolve (dinst st') ss', tr)
  | Fault => Fault | AssertFail => AssertFail | OutOfFuel => OutOfFuel
  end.
Definition ok_inst {X : Type} (r : res (X * dstate * os_oracle * list ev)) : Prop :=
  match r with Ok (_, st', _, _) => dinst st' = true | _ => True end.
Definition ok_suffix {X : Type} (ss : os_oracle) (r : res (X * dstate * os_oracle * list ev)) : Prop :=
  match r with Ok (_, _, ss', _) => suffix ss' ss | _ => True end.

Section Simulation.
  Variable hctx : Type.
  Variable h_init : list N -> hctx.
  Variable h_update : hctx -> list N -> hctx.
  Variable h_final : hctx -> list N.
  Variable h_buf : list N -> list N -> list N.

  Notation P := spec_params.
  Notation update_m' := (update_m P hctx h_init h_update h_final h_buf).
  Notation generate_m' := (generate_m P hctx h_init h_update h_final h_buf).
  Notation reseed_m' := (reseed_m P hctx h_init h_update h_final h_buf).
  Notation instantiate_m' := (instantiate_m P hctx h_init h_update h_final h_buf).
  Notation read_loop' := (read_loop P hctx h_init h_update h_final h_buf).
  Notation entropy_read_m' := (entropy_read_m P hctx h_init h_update h_final h_buf).
  Notation run_m' := (run_m P hctx h_init h_update h_final h_buf).
  Notation reseed_os' := (reseed_os P hctx h_init h_update h_final h_buf).
  Notation instantiate_os' := (instantiate_os P hctx h_init h_update h_final h_buf).
  Notation read_loop_os' := (read_loop_os P hctx h_init h_update h_final h_buf).
  Notation entropy_read_os_m' := (entropy_read_os_m P hctx h_init h_update h_final h_buf).
  Notation run_os' := (run_os P hctx h_init h_update h_final h_buf).

  Lemma update_m_dinst st data : dinst (update_m' st data) = dinst st.
  Proof.
    unfold update_m. destruct (update_round _ _ _ _ _ _ _ _ _) as [K V].
    destruct (negb _); [destruct (update_round _ _ _ _ _ _ _ _ _)|]; reflexivity.
  Qed.

  Lemma generate_m_dinst st n bytes st2 : generate_m' st n = Ok (bytes, st2) -> dinst st2 = dinst st.
  Proof.
    unfold generate_m. destruct (_ <? n); [discriminate|]. destruct (_ <? dctr st); [discriminate|].
    destruct (gen_loop _ _ _ _ _ _ _) as [[b V1]| | |]; cbn [bind]; try discriminate.
    intros H. injection H as _ <-. cbn [dinst]. try rewrite update_m_dinst. reflexivity.
  Qed.

  (* reseed() over a session = reseed() over the resolved oracle *)
  Lemma reseed_sim st ss :
    exists ok st1 ss1 e1,
      reseed_os' st ss = Ok (ok, st1, ss1, e1) /\
      reseed_m' st (spec_resolve true ss) = (ok, st1, spec_resolve true ss1, e1) /\
      dinst st1 = dinst st /\ suffix ss1 ss.
  Proof.
    unfold reseed_os, reseed_m. cbn [d_seed_reseed d_ctr_reset spec_params].
    change 32%nat with (seedlen true). rewrite get_os_eq, get_resolve_eq. cbn [bind orb].
    destruct ss as [|s r].
    - eexists _, _, _, _. split; [reflexivity|]. split; [reflexivity|]. split; [reflexivity|apply suffix_refl].
    - destruct (spec_session (seedlen true) s) as [seed|].
      + eexists _, _, _, _. split; [reflexivity|]. split; [reflexivity|].
        split; [cbn [dinst]; apply update_m_dinst|apply suffix_tl].
      + eexists _, _, _, _. split; [reflexivity|]. split; [reflexivity|]. split; [reflexivity|apply suffix_tl].
  Qed.

  (* the chunk loop *)
  Lemma read_loop_sim : forall (fuel : nat) st buflen ss, dinst st = true ->
    to_mi true (read_loop_os' fuel st buflen ss) = read_loop' fuel st buflen (spec_resolve true ss) /\
    ok_inst (read_loop_os' fuel st buflen ss) /\ ok_suffix ss (read_loop_os' fuel st buflen ss).
  Proof.
    induction fuel as [|f IH]; intros st buflen ss Hi.
    - cbn [read_loop_os read_loop]. destruct (0 <? buflen); cbn [to_mi ok_inst ok_suffix];
        (split; [reflexivity|]); (split; [auto|]); try exact I. apply suffix_refl.
    - cbn [read_loop_os read_loop]. destruct (0 <? buflen).
      2:{ cbn [to_mi ok_inst ok_suffix]. split; [reflexivity|]. split; [exact Hi|apply suffix_refl]. }
      assert (Hres : exists ok st1 ss1 e1,
        (if d_interval P <? dctr st then reseed_os' st ss else Ok (true, st, ss, [])) = Ok (ok, st1, ss1, e1) /\
        (if d_interval P <? dctr st then reseed_m' st (spec_resolve true ss) else (true, st, spec_resolve true ss, []))
          = (ok, st1, spec_resolve true ss1, e1) /\
        dinst st1 = true /\ suffix ss1 ss).
      { destruct (d_interval P <? dctr st).
        - destruct (reseed_sim st ss) as (ok & st1 & ss1 & e1 & E1 & E2 & Hd & Hs).
          exists ok, st1, ss1, e1. rewrite Hd. auto.
        - exists true, st, ss, []. split; [reflexivity|]. split; [reflexivity|]. split; [exact Hi|apply suffix_refl]. }
      destruct Hres as (ok & st1 & ss1 & e1 & -> & -> & Hi1 & Hs1). cbn [bind].
      destruct ok; cbn [negb].
      2:{ cbn [to_mi ok_inst ok_suffix]. split; [reflexivity|]. split; assumption. }
      set (n := if d_maxlen P <? buflen then d_maxlen P else buflen).
      destruct (generate_m' st1 n) as [[bytes st2]| | |] eqn:Eg; cbn [bind to_mi ok_inst ok_suffix];
        try (split; [reflexivity|split; exact I]).
      destruct (IH st2 (buflen - n) ss1) as (IH1 & IH2 & IH3).
      { rewrite (generate_m_dinst _ _ _ _ Eg). exact Hi1. }
      rewrite <- IH1.
      destruct (read_loop_os' f st2 (buflen - n) ss1) as [[[[[rc more] st3] ss3] e3]| | |];
        cbn [bind to_mi ok_inst ok_suffix] in *; (split; [reflexivity|]); (split; [auto|]); try exact I.
      eapply suffix_trans; eassumption.
  Qed.

  (* crypto_entropy_read *)
  Lemma entropy_read_sim st n ss :
    to_m (entropy_read_os_m' st n ss) = entropy_read_m' st n (spec_resolve (dinst st) ss) /\
    ok_suffix ss (entropy_read_os_m' st n ss).
  Proof.
    unfold entropy_read_os_m, entropy_read_m.
    destruct (dinst st) eqn:Ei; cbn [negb bind].
    - destruct (read_loop_sim (S (N.to_nat (n / d_maxlen P))) st n ss Ei) as (H1 & H2 & H3).
      rewrite <- H1.
      destruct (read_loop_os' _ st n ss) as [[[[[rc b] st2] ss2] e2]| | |];
        cbn [bind to_m to_mi ok_inst ok_suffix] in *; try (split; [reflexivity|exact I]).
      rewrite H2. split; [reflexivity|exact H3].
    - unfold instantiate_os, instantiate_m. cbn [d_seed_inst d_key_init d_v_init d_ctr_init spec_params].
      change 48%nat with (seedlen false). rewrite get_os_eq, get_resolve_eq. cbn [bind orb].
      destruct ss as [|s r].
      + cbn [bind negb to_m ok_suffix spec_resolve]. split; [reflexivity|apply suffix_refl].
      + destruct (spec_session (seedlen false) s) as [seed|]; cbn [bind negb is_some].
        * set (st1 := mk_dstate _ _ _ true).
          destruct (read_loop_sim (S (N.to_nat (n / d_maxlen P))) st1 n r eq_refl) as (H1 & H2 & H3).
          rewrite <- H1.
          destruct (read_loop_os' _ st1 n r) as [[[[[rc b] st2] ss2] e2]| | |];
            cbn [bind to_m to_mi ok_inst ok_suffix] in *; try (split; [reflexivity|exact I]).
          rewrite H2. split; [reflexivity|]. eapply suffix_trans; [exact H3|apply suffix_tl].
        * cbn [bind negb to_m ok_suffix]. rewrite Ei. split; [reflexivity|apply suffix_tl].
  Qed.

  (* whole histories *)
  Lemma run_sim : forall reqs st ss,
    to_m (run_os' reqs st ss) = run_m' reqs st (spec_resolve (dinst st) ss) /\
    ok_suffix ss (run_os' reqs st ss).
  Proof.
    induction reqs as [|n rest IH]; intros st ss.
    - cbn [run_os run_m to_m ok_suffix]. split; [reflexivity|apply suffix_refl].
    - cbn [run_os run_m]. destruct (entropy_read_sim st n ss) as [H1 H2]. rewrite <- H1.
      destruct (entropy_read_os_m' st n ss) as [[[[[rc b] st1] ss1] e1]| | |];
        cbn [bind to_m ok_suffix] in *; try (split; [reflexivity|exact I]).
      destruct (IH st1 ss1) as [I1 I2]. rewrite <- I1.
      destruct (run_os' rest st1 ss1) as [[[[more st2] ss2] e2]| | |];
        cbn [bind to_m ok_suffix] in *; try (split; [reflexivity|exact I]).
      split; [reflexivity|]. eapply suffix_trans; eassumption.
  Qed.

  (* ---- with the HMAC hypotheses: the composed generator = the SP 800-90A machine ---- *)
  Variable hmac : list N -> list N -> list N.
  Hypothesis h_stream : forall K a b, h_final (h_update (h_update (h_init K) a) b) = hmac K (a ++ b).
  Hypothesis h_buf_eq : forall K m, h_buf K m = hmac K m.
  Hypothesis hmac_len : forall K m, length (hmac K m) = 32%nat.

  Theorem os_refines_spec reqs st ss :
    exists results st' ss' tr,
      run_os' reqs st ss = Ok (results, st', ss', tr) /\
      spec_run hmac reqs (abs_state st) (spec_resolve (dinst st) ss) =
        (results, abs_state st', spec_resolve (dinst st') ss') /\
      suffix ss' ss.
  Proof.
    destruct (drbg_refines_spec hmac hctx h_init h_update h_final h_buf h_stream h_buf_eq hmac_len
                reqs st (spec_resolve (dinst st) ss)) as (results & st' & o' & tr & Em & Es).
    destruct (run_sim reqs st ss) as [H1 H2]. rewrite Em in H1.
    destruct (run_os' reqs st ss) as [[[[results1 st1] ss1] tr1]| | |]; cbn [to_m ok_suffix] in *;
      try discriminate.
    injection H1 as -> -> <- ->.
    exists results, st', ss1, tr. split; [reflexivity|]. split; [exact Es|exact H2].
  Qed.

  Theorem os_call_facts st n ss rc bytes st' ss' tr :
    entropy_read_os_m' st n ss = Ok (rc, bytes, st', ss', tr) ->
    trace_oracle tr (spec_resolve (dinst st) ss) = Some (spec_resolve (dinst st') ss') /\
    forallb ev_ok tr = rc /\ suffix ss' ss /\
    (rc = true -> dinst st' = true /\ gen_sizes tr = spec_chunks n /\ length bytes = N.to_nat n /\
                  (dinst st = false -> In (EvInstantiate 48 true) tr)) /\
    (dinst st = false -> dinst st' = false -> rc = false /\ st' = st /\ tr = [EvInstantiate 48 false]).
  Proof.
    intros H. destruct (entropy_read_sim st n ss) as [H1 H2]. rewrite H in H1, H2.
    cbn [to_m ok_suffix] in *. symmetry in H1.
    destruct (call_facts hmac hctx h_init h_update h_final h_buf h_stream h_buf_eq hmac_len _ _ _ _ _ _ _ _ H1)
      as (Ht & Hf & Hs & Hn).
    split; [exact Ht|]. split; [exact Hf|]. split; [exact H2|]. split; [exact Hs|exact Hn].
  Qed.
End Simulation.

(* ---------------- the same for the constants now in crypto_entropy.c ---------------- *)
Section RepoOs.
  Variable hmac : list N -> list N -> list N.
  Variable hctx : Type.
  Variable h_init : list N -> hctx.
  Variable h_update : hctx -> list N -> hctx.
  Variable h_final : hctx -> list N.
  Variable h_buf : list N -> list N -> list N.
  Hypothesis h_stream : forall K a b, h_final (h_update (h_update (h_init K) a) b) = hmac K (a ++ b).
  Hypothesis h_buf_eq : forall K m, h_buf K m = hmac K m.
  Hypothesis hmac_len : forall K m, length (hmac K m) = 32%nat.

  Theorem repo_os_refines_spec : forall reqs st ss,
    exists results st' ss' tr,
      run_os repo_drbg_params hctx h_init h_update h_final h_buf reqs st ss = Ok (results, st', ss', tr) /\
      spec_run hmac reqs (abs_state st) (spec_resolve (dinst st) ss) =
        (results, abs_state st', spec_resolve (dinst st') ss') /\
      suffix ss' ss.
  Proof. rewrite repo_params_eq_spec. apply os_refines_spec; assumption. Qed.

  Theorem repo_os_call_facts : forall st n ss rc bytes st' ss' tr,
    entropy_read_os_m repo_drbg_params hctx h_init h_update h_final h_buf st n ss = Ok (rc, bytes, st', ss', tr) ->
    trace_oracle tr (spec_resolve (dinst st) ss) = Some (spec_resolve (dinst st') ss') /\
    forallb ev_ok tr = rc /\ suffix ss' ss /\
    (rc = true -> dinst st' = true /\ gen_sizes tr = spec_chunks n /\ length bytes = N.to_nat n /\
                  (dinst st = false -> In (EvInstantiate 48 true) tr)) /\
    (dinst st = false -> dinst st' = false -> rc = false /\ st' = st /\ tr = [EvInstantiate 48 false]).
  Proof. rewrite repo_params_eq_spec. apply (os_call_facts hctx h_init h_update h_final h_buf hmac); assumption. Qed.
End RepoOs.

(* ---------------- non-vacuity ---------------- *)
Example fill_hypotheses_instance :
  let used := [RdBytes [1; 2]; RdBytes [3]; RdBytes [4; 5; 6]] in
  all_good used /\ (N.to_nat 5 <= total used)%nat /\
  entropy_read_fill_m 5 (used ++ [RdErr]) = Ok (Some [1; 2; 3; 4; 5], [RdErr]).
Proof. cbv zeta. split; [repeat constructor|]. split; [cbn; lia|reflexivity]. Qed.

Example wrapper_instances :
  let reads := [RdBytes [1; 2]; RdBytes [3]; RdBytes [4; 5; 6]] in
  (* short reads, close interrupted twice: success *)
  entropy_read_w 5 (mk_session true reads [CloseEintr; CloseEintr; CloseOk]) = Ok (Some [1; 2; 3; 4; 5], (3, 3)%nat) /\
  (* the fill fails (error after a short read), the close succeeds: failure *)
  entropy_read_w 5 (mk_session true [RdBytes [1; 2]; RdErr] [CloseOk]) = Ok (None, (2, 1)%nat) /\
  (* EOF *)
  entropy_read_w 5 (mk_session true [RdBytes [1; 2]; RdBytes []] [CloseOk]) = Ok (None, (2, 1)%nat) /\
  (* the fill succeeds, the close fails: failure *)
  entropy_read_w 5 (mk_session true reads [CloseErr]) = Ok (None, (3, 1)%nat) /\
  (* open fails *)
  entropy_read_w 5 (mk_session false reads [CloseOk]) = Ok (None, (0, 0)%nat).
Proof. cbv zeta. repeat split; reflexivity. Qed.
