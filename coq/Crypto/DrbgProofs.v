(* Proofs about the model of crypto/crypto_entropy.c (C11):
     M1  the model refines the SP 800-90A machine of DrbgSpec.v for every request sequence and
         every entropy oracle (outputs, return codes, final Key/V/counter, oracle consumption);
     M2  a request of n bytes makes ceil(n/65536) generate calls; reseeds happen exactly before
         generate calls number 257, 513, ... since instantiation;
     M3  no output from an unseeded or stale state; a failing entropy source fails the call.
   Parametric in HMAC: a one-shot function [hmac] with 32-byte output, and a streaming interface
   with the hypothesis streaming = one-shot (discharged for alg/sha256.c by the hash area, C01). *)
From Coq Require Import Arith NArith ZArith List Bool Lia.
From LCP Require Import Base.CheckedMem Gen.Repo_dhdrbg Crypto.DrbgSpec Crypto.DrbgOsSpec Crypto.DrbgModel.
Import ListNotations.
Local Open Scope N_scope.

Ltac Zify.zify_post_hook ::= Z.div_mod_to_equations.

(* the constants the spec states as literals, as a parameter record *)
Definition spec_params : drbg_params := {|
  d_interval := 256; d_maxlen := 65536; d_seed_inst := 48; d_seed_reseed := 32;
  d_sep1 := 0; d_sep2 := 1; d_key_init := 0; d_v_init := 1;
  d_ctr_init := 1; d_ctr_reset := 1; d_ctr_step := 1; d_blk := 32 |}.

(* the constants now in crypto_entropy.c are those *)
Lemma repo_params_eq_spec : repo_drbg_params = spec_params.
Proof. vm_compute. reflexivity. Qed.

Definition s_of (st : dstate) : sstate := mk_sstate (dKey st) (dV st) (dctr st).
Definition d_of (s : sstate) (i : bool) : dstate := mk_dstate (sK s) (sV s) (sctr s) i.

Lemma abs_state_true st : dinst st = true -> abs_state st = Some (s_of st).
Proof. intros H. unfold abs_state. rewrite H. reflexivity. Qed.
Lemma abs_state_false st : dinst st = false -> abs_state st = None.
Proof. intros H. unfold abs_state. rewrite H. reflexivity. Qed.

(* ---------------- trace vocabulary ---------------- *)
Definition gen_sizes (tr : list ev) : list N :=
  flat_map (fun e => match e with EvGenerate n _ => [n] | _ => [] end) tr.
Definition ev_ok (e : ev) : bool :=
  match e with EvInstantiate _ ok => ok | EvReseed _ ok _ => ok | EvGenerate _ _ => true end.

(* the entropy reads recorded in a trace are, in order, what the oracle answered *)
Fixpoint trace_oracle (tr : list ev) (o : oracle) : option oracle :=
  match tr with
  | [] => Some o
  | EvGenerate _ _ :: r => trace_oracle r o
  | EvInstantiate len ok :: r | EvReseed len ok _ :: r =>
    let '(res, o1) := get_entropy len o in
    if Bool.eqb (match res with Some _ => true | None => false end) ok then trace_oracle r o1 else None
  end.

(* counter automaton: state None = not instantiated, Some c = reseed_counter c.
   A generate is legal only with c <= 256, a reseed only with c > 256 (required, not early) *)
Definition sched_step (a : option N) (e : ev) : option (option N) :=
  match e, a with
  | EvInstantiate len ok, None =>
    if Nat.eqb len 48 then Some (if ok then Some 1 else None) else None
  | EvReseed len ok c, Some c' =>
    if Nat.eqb len 32 && (c =? c') && (256 <? c) then Some (if ok then Some 1 else Some c) else None
  | EvGenerate n c, Some c' =>
    if (c =? c') && (c <=? 256) && (0 <? n) && (n <=? 65536) then Some (Some (c + 1)) else None
  | _, _ => None
  end.
Fixpoint sched_run (a : option N) (tr : list ev) : option (option N) :=
  match tr with
  | [] => Some a
  | e :: r => match sched_step a e with Some a' => sched_run a' r | None => None end
  end.

Lemma sched_run_app a tr1 tr2 :
  sched_run a (tr1 ++ tr2) = match sched_run a tr1 with Some a' => sched_run a' tr2 | None => None end.
Proof.
  revert a. induction tr1 as [|e r IH]; intros a; [reflexivity|]. cbn [app sched_run].
  destruct (sched_step a e); [apply IH|reflexivity].
Qed.

Lemma trace_oracle_app tr1 tr2 o :
  trace_oracle (tr1 ++ tr2) o = match trace_oracle tr1 o with Some o1 => trace_oracle tr2 o1 | None => None end.
Proof.
  revert o. induction tr1 as [|e r IH]; intros o; [reflexivity|]. cbn [app trace_oracle].
  destruct e; try apply IH; destruct (get_entropy len o) as [res o1];
    destruct (Bool.eqb _ ok); try apply IH; reflexivity.
Qed.

Lemma gen_sizes_app tr1 tr2 : gen_sizes (tr1 ++ tr2) = gen_sizes tr1 ++ gen_sizes tr2.
Proof. unfold gen_sizes. apply flat_map_app. Qed.

Definition astate_of (st : dstate) : option N := if dinst st then Some (dctr st) else None.

(* ---------------- chunking ---------------- *)
Lemma spec_chunks_0 : spec_chunks 0 = [].
Proof. reflexivity. Qed.

Lemma spec_chunks_step n : 0 < n ->
  let c := if 65536 <? n then 65536 else n in
  spec_chunks n = c :: spec_chunks (n - c).
Proof.
  intros Hn. cbv zeta. unfold spec_chunks, spec_max_request.
  destruct (N.ltb_spec 65536 n) as [Hbig|Hsmall].
  - (* more than one chunk *)
    assert (E1 : n / 65536 = N.succ ((n - 65536) / 65536)) by lia.
    assert (E2 : n mod 65536 = (n - 65536) mod 65536).
    { assert (E : n = (n - 65536) + 1 * 65536) by lia. rewrite E at 1. apply N.mod_add. lia. }
    rewrite E1, E2, N2Nat.inj_succ. reflexivity.
  - destruct (N.eq_dec n 65536) as [->|Hne].
    + reflexivity.
    + assert (E1 : n / 65536 = 0) by (apply N.div_small; lia).
      assert (E2 : n mod 65536 = n) by (apply N.mod_small; lia).
      rewrite E1, E2, N.sub_diag. cbn [N.to_nat repeat app].
      destruct (N.eqb_spec n 0); [lia|]. reflexivity.
Qed.

Lemma spec_chunks_length n : N.of_nat (length (spec_chunks n)) = (n + 65535) / 65536.
Proof.
  unfold spec_chunks, spec_max_request. rewrite app_length, repeat_length.
  pose proof (N.div_mod n 65536 ltac:(lia)) as E. pose proof (N.mod_lt n 65536 ltac:(lia)) as Hr.
  set (q := n / 65536) in *. set (r := n mod 65536) in *.
  destruct (N.eqb_spec r 0); cbn [length].
  - replace ((n + 65535) / 65536) with q; [lia|]. apply N.div_unique with 65535; lia.
  - replace ((n + 65535) / 65536) with (q + 1); [lia|]. apply N.div_unique with (r - 1); lia.
Qed.

Lemma spec_chunks_sum n : fold_right N.add 0 (spec_chunks n) = n.
Proof.
  unfold spec_chunks, spec_max_request. rewrite fold_right_app.
  assert (H : forall k acc, fold_right N.add acc (repeat 65536 k) = N.of_nat k * 65536 + acc).
  { induction k as [|k IH]; intros acc; cbn [repeat fold_right]; [lia|]. rewrite IH. lia. }
  pose proof (N.div_mod n 65536 ltac:(lia)) as E.
  rewrite H. destruct (N.eqb_spec (n mod 65536) 0); cbn [fold_right]; lia.
Qed.

Section Refinement.
  Variable hmac : list N -> list N -> list N.
  Variable hctx : Type.
  Variable h_init : list N -> hctx.
  Variable h_update : hctx -> list N -> hctx.
  Variable h_final : hctx -> list N.
  Variable h_buf : list N -> list N -> list N.
  (* streaming interface = the one-shot function; HMAC_SHA256_Buf = the one-shot function *)
  Hypothesis h_stream : forall K a b, h_final (h_update (h_update (h_init K) a) b) = hmac K (a ++ b).
  Hypothesis h_buf_eq : forall K m, h_buf K m = hmac K m.
  (* the MAC is 32 bytes long *)
  Hypothesis hmac_len : forall K m, length (hmac K m) = 32%nat.

  Notation P := spec_params.
  Notation update_m' := (update_m P hctx h_init h_update h_final h_buf).
  Notation generate_m' := (generate_m P hctx h_init h_update h_final h_buf).
  Notation gen_loop' := (gen_loop P h_buf).
  Notation reseed_m' := (reseed_m P hctx h_init h_update h_final h_buf).
  Notation instantiate_m' := (instantiate_m P hctx h_init h_update h_final h_buf).
  Notation read_loop' := (read_loop P hctx h_init h_update h_final h_buf).
  Notation entropy_read_m' := (entropy_read_m P hctx h_init h_update h_final h_buf).
  Notation run_m' := (run_m P hctx h_init h_update h_final h_buf).

  (* ---- update() = HMAC_DRBG_Update ---- *)
  Lemma update_round_eq sep K V data :
    update_round hctx h_init h_update h_final h_buf sep K V data =
    (hmac K (V ++ [sep] ++ data), hmac (hmac K (V ++ [sep] ++ data)) V).
  Proof. unfold update_round. rewrite h_stream, h_buf_eq, <- app_assoc. reflexivity. Qed.

  Lemma update_m_eq st data :
    update_m' st data =
    let '(K, V) := spec_update hmac data (dKey st) (dV st) in mk_dstate K V (dctr st) (dinst st).
  Proof.
    unfold update_m, spec_update. cbn [d_sep1 d_sep2 spec_params]. rewrite update_round_eq.
    destruct data as [|x l].
    - reflexivity.
    - cbn [length]. replace (N.of_nat (S (length l)) =? 0) with false
        by (symmetry; apply N.eqb_neq; lia).
      cbn [negb]. rewrite update_round_eq. reflexivity.
  Qed.

  (* ---- the block loop of generate() ---- *)
  Lemma gen_loop_eq : forall (k fuel : nat) bufpos buflen K V,
    N.to_nat ((buflen - bufpos + 31) / 32) = k -> (k <= fuel)%nat ->
    gen_loop' fuel bufpos buflen K V =
    Ok (firstn (N.to_nat (buflen - bufpos)) (fst (spec_blocks hmac k K V)), snd (spec_blocks hmac k K V)).
  Proof.
    induction k as [|k IH]; intros fuel bufpos buflen K V Hk Hf.
    - assert (Hle : buflen <= bufpos) by lia.
      destruct fuel; cbn [gen_loop]; (destruct (N.ltb_spec bufpos buflen); [lia|]);
        cbn [spec_blocks fst snd]; rewrite firstn_nil; reflexivity.
    - destruct fuel as [|f]; [lia|].
      assert (Hlt : bufpos < buflen) by lia.
      cbn [gen_loop]. destruct (N.ltb_spec bufpos buflen); [|lia].
      cbn [d_blk spec_params]. rewrite h_buf_eq.
      rewrite (IH f (bufpos + 32) buflen K (hmac K V)); [| lia | lia].
      cbn [bind spec_blocks].
      destruct (spec_blocks hmac k K (hmac K V)) as [t Vf] eqn:E. cbn [fst snd].
      f_equal. f_equal.
      rewrite firstn_app, hmac_len.
      destruct (N.leb_spec 32 (buflen - bufpos)) as [Hge|Hsm].
      + rewrite (firstn_all2 (n := N.to_nat (buflen - bufpos))) by (rewrite hmac_len; lia).
        change (N.to_nat 32) with 32%nat.
        rewrite (firstn_all2 (n := 32%nat)) by (rewrite hmac_len; lia).
        f_equal. f_equal. lia.
      + f_equal. replace (N.to_nat (buflen - (bufpos + 32))) with 0%nat by lia.
        replace (N.to_nat (buflen - bufpos) - 32)%nat with 0%nat by lia. reflexivity.
  Qed.

  (* ---- generate() = HMAC_DRBG_Generate, for requests within the limit ---- *)
  Lemma generate_m_eq st n : n <= 65536 ->
    generate_m' st n =
    match spec_generate hmac (s_of st) n with
    | Some (bytes, s') => Ok (bytes, d_of s' (dinst st))
    | None => AssertFail
    end.
  Proof.
    intros Hn. unfold generate_m, spec_generate. cbn [d_maxlen d_interval d_blk d_ctr_step spec_params].
    destruct (N.ltb_spec 65536 n); [lia|].
    unfold spec_reseed_interval. cbn [s_of sctr sK sV].
    destruct (N.ltb_spec 256 (dctr st)) as [Hbig|Hok]; [reflexivity|].
    rewrite (gen_loop_eq (N.to_nat ((n + 31) / 32))); [| f_equal; lia | lia].
    cbn [bind]. rewrite N.sub_0_r.
    destruct (spec_blocks hmac (N.to_nat ((n + 31) / 32)) (dKey st) (dV st)) as [temp V1]. cbn [fst snd].
    rewrite update_m_eq. cbn [dKey dV dctr dinst].
    destruct (spec_update hmac [] (dKey st) V1) as [K2 V2]. cbn [dKey dV dctr dinst].
    unfold d_of. cbn [sK sV sctr]. f_equal. f_equal. f_equal. apply N.mod_small. lia.
  Qed.

  Lemma spec_generate_some s n : sctr s <= 256 -> exists bytes s',
    spec_generate hmac s n = Some (bytes, s') /\ sctr s' = sctr s + 1 /\ length bytes = N.to_nat n.
  Proof.
    intros Hc. unfold spec_generate, spec_reseed_interval.
    destruct (N.ltb_spec 256 (sctr s)); [lia|].
    assert (Hlen : forall k K V, length (fst (spec_blocks hmac k K V)) = (32 * k)%nat).
    { induction k as [|k IH]; intros K V; cbn [spec_blocks]; [reflexivity|].
      specialize (IH K (hmac K V)). destruct (spec_blocks hmac k K (hmac K V)) as [t Vf].
      cbn [fst] in *. rewrite app_length, hmac_len, IH. lia. }
    specialize (Hlen (N.to_nat ((n + 31) / 32)) (sK s) (sV s)).
    destruct (spec_blocks hmac (N.to_nat ((n + 31) / 32)) (sK s) (sV s)) as [temp V1]. cbn [fst] in Hlen.
    destruct (spec_update hmac [] (sK s) V1) as [K2 V2].
    eexists _, _. split; [reflexivity|]. split; [reflexivity|].
    rewrite firstn_length, Hlen. lia.
  Qed.

  (* ---- reseed() / instantiate() ---- *)
  Lemma reseed_m_eq st o :
    reseed_m' st o =
    match get_entropy 32 o with
    | (None, o1) => (false, st, o1, [EvReseed 32 false (dctr st)])
    | (Some e, o1) => (true, d_of (spec_reseed hmac (s_of st) e) (dinst st), o1, [EvReseed 32 true (dctr st)])
    end.
  Proof.
    unfold reseed_m. cbn [d_seed_reseed d_ctr_reset spec_params].
    destruct (get_entropy 32 o) as [[e|] o1]; [|reflexivity].
    rewrite update_m_eq. unfold spec_reseed. cbn [s_of sK sV].
    destruct (spec_update hmac e (dKey st) (dV st)) as [K V]. reflexivity.
  Qed.

  Lemma instantiate_m_eq st o :
    instantiate_m' st o =
    match get_entropy 48 o with
    | (None, o1) => (false, st, o1, [EvInstantiate 48 false])
    | (Some seed, o1) => (true, d_of (spec_instantiate hmac seed) (dinst st), o1, [EvInstantiate 48 true])
    end.
  Proof.
    unfold instantiate_m. cbn [d_seed_inst d_key_init d_v_init d_ctr_init spec_params].
    destruct (get_entropy 48 o) as [[seed|] o1]; [|reflexivity].
    rewrite update_m_eq. unfold spec_instantiate, spec_outlen. cbn [dKey dV dctr dinst].
    destruct (spec_update hmac seed (repeat 0 32) (repeat 1 32)) as [K V]. reflexivity.
  Qed.

  Lemma spec_instantiate_ctr seed : sctr (spec_instantiate hmac seed) = 1.
  Proof.
    unfold spec_instantiate.
    destruct (spec_update hmac seed (repeat 0 spec_outlen) (repeat 1 spec_outlen)). reflexivity.
  Qed.

  (* ---- the chunk loop of crypto_entropy_read ---- *)
  (* everything the theorems need about one run of the loop, in one invariant-style statement *)
  Definition loop_post (st : dstate) (buflen : N) (o : oracle)
             (r : bool * list N * dstate * oracle * list ev) : Prop :=
    let '(rc, bytes, st', o', tr) := r in
    spec_serve hmac (spec_chunks buflen) (s_of st) o = ((if rc then Some bytes else None), s_of st', o') /\
    dinst st' = dinst st /\
    sched_run (Some (dctr st)) tr = Some (Some (dctr st')) /\
    trace_oracle tr o = Some o' /\
    forallb ev_ok tr = rc /\
    (rc = true -> gen_sizes tr = spec_chunks buflen /\ length bytes = N.to_nat buflen) /\
    (rc = false -> 256 < dctr st').

  Lemma read_loop_refines : forall (fuel : nat) st buflen o,
    (N.to_nat ((buflen + 65535) / 65536) <= fuel)%nat ->
    exists r, read_loop' fuel st buflen o = Ok r /\ loop_post st buflen o r.
  Proof.
    induction fuel as [|f IH]; intros st buflen o Hfuel.
    - assert (buflen = 0) by lia. subst buflen. cbn [read_loop]. cbn [N.ltb N.compare].
      eexists. split; [reflexivity|]. unfold loop_post. rewrite spec_chunks_0. cbn.
      repeat split; try reflexivity; intros; discriminate.
    - cbn [read_loop]. destruct (N.ltb_spec 0 buflen) as [Hpos|Hz].
      2:{ assert (buflen = 0) by lia. subst buflen.
          eexists. split; [reflexivity|]. unfold loop_post. rewrite spec_chunks_0. cbn.
          repeat split; try reflexivity; intros; discriminate. }
      cbn [d_interval d_maxlen spec_params].
      pose proof (spec_chunks_step buflen Hpos) as Hch. cbv zeta in Hch.
      set (n := if 65536 <? buflen then 65536 else buflen) in *.
      assert (Hn : 0 < n <= 65536 /\ n <= buflen) by (unfold n; destruct (N.ltb_spec 65536 buflen); lia).
      (* the reseed decision *)
      assert (Hres : exists ok st1 o1 e1,
        (if 256 <? dctr st then reseed_m' st o else (true, st, o, [])) = (ok, st1, o1, e1) /\
        dinst st1 = dinst st /\
        trace_oracle e1 o = Some o1 /\ forallb ev_ok e1 = ok /\ gen_sizes e1 = [] /\
        (ok = false -> st1 = st /\ 256 < dctr st /\ e1 = [EvReseed 32 false (dctr st)] /\
                       get_entropy spec_reseed_entropy o = (None, o1)) /\
        (ok = true -> dctr st1 <= 256 /\ sched_run (Some (dctr st)) e1 = Some (Some (dctr st1)) /\
           (if spec_reseed_interval <? sctr (s_of st)
            then match get_entropy spec_reseed_entropy o with
                 | (Some e, o1') => Some (spec_reseed hmac (s_of st) e, o1')
                 | (None, _) => None
                 end
            else Some (s_of st, o)) = Some (s_of st1, o1))).
      { unfold spec_reseed_interval, spec_reseed_entropy. cbn [s_of sctr].
        destruct (N.ltb_spec 256 (dctr st)) as [Hbig|Hsmall].
        - rewrite reseed_m_eq. destruct (get_entropy 32 o) as [[e|] o1] eqn:Eg.
          + eexists true, _, o1, _. split; [reflexivity|].
            cbn [trace_oracle forallb ev_ok gen_sizes flat_map app]. rewrite Eg. cbn [Bool.eqb].
            repeat split; try reflexivity; try discriminate.
            * unfold spec_reseed. cbn [s_of sK sV]. destruct (spec_update hmac e (dKey st) (dV st)). cbn. lia.
            * cbn [sched_run sched_step]. rewrite N.eqb_refl. cbn [Nat.eqb andb].
              destruct (N.ltb_spec 256 (dctr st)); [|lia]. cbn [andb].
              unfold spec_reseed. cbn [s_of sK sV]. destruct (spec_update hmac e (dKey st) (dV st)). reflexivity.
            * unfold spec_reseed, d_of, s_of. cbn [sK sV sctr dKey dV dctr].
              destruct (spec_update hmac e (dKey st) (dV st)). reflexivity.
          + eexists false, st, o1, _. split; [reflexivity|].
            cbn [trace_oracle forallb ev_ok gen_sizes flat_map app]. rewrite Eg. cbn [Bool.eqb].
            repeat split; try reflexivity; try discriminate; try lia.
        - eexists true, st, o, []. split; [reflexivity|].
          repeat split; try reflexivity; try discriminate; try lia. }
      destruct Hres as (ok & st1 & o1 & e1 & -> & Hi1 & Hto1 & Hok1 & Hgs1 & Hfail & Hsucc).
      destruct ok; cbn [negb].
      + (* reseed not needed or succeeded: generate *)
        destruct (Hsucc eq_refl) as (Hc1 & Hs1 & Hspec1).
        rewrite generate_m_eq by lia.
        destruct (spec_generate_some (s_of st1) n) as (bytes & s2 & Eg & Hc2 & Hlb); [cbn; lia|].
        rewrite Eg. cbn [bind].
        destruct (IH (d_of s2 (dinst st1)) (buflen - n) o1) as (r & Er & Hpost).
        { destruct (N.ltb_spec 65536 buflen); unfold n in *; lia. }
        rewrite Er. destruct r as [[[[rc more] st3] o3] e3]. cbn [bind].
        eexists. split; [reflexivity|].
        unfold loop_post in *. destruct Hpost as (Hsv & Hi3 & Hsch & Hto & Hfo & Hrc1 & Hrc0).
        rewrite Hch. cbn [spec_serve]. rewrite Hspec1, Eg.
        replace (s_of (d_of s2 (dinst st1))) with s2 in Hsv by (destruct s2; reflexivity).
        rewrite Hsv.
        split; [destruct rc; reflexivity|].
        split; [rewrite Hi3; cbn [d_of dinst]; exact Hi1|].
        split.
        { rewrite sched_run_app, Hs1. cbn [sched_run sched_step].
          rewrite N.eqb_refl. destruct (N.leb_spec (dctr st1) 256); [|lia].
          destruct (N.ltb_spec 0 n); [|lia]. destruct (N.leb_spec n 65536); [|lia]. cbn [andb].
          cbn [d_of dctr] in Hsch. rewrite Hc2 in Hsch. exact Hsch. }
        split; [rewrite trace_oracle_app, Hto1; cbn [trace_oracle]; exact Hto|].
        split; [rewrite forallb_app, Hok1; cbn [forallb ev_ok andb]; exact Hfo|].
        split.
        * intros ->. destruct (Hrc1 eq_refl) as [Hg Hl].
          rewrite gen_sizes_app, Hgs1. cbn [app gen_sizes flat_map]. fold (gen_sizes e3). rewrite Hg.
          split; [reflexivity|]. rewrite app_length, Hlb, Hl. lia.
        * exact Hrc0.
      + (* reseed failed: return -1 *)
        destruct (Hfail eq_refl) as (-> & Hbig & -> & Hge).
        eexists. split; [reflexivity|]. unfold loop_post.
        rewrite Hch. cbn [spec_serve]. unfold spec_reseed_interval at 1. cbn [s_of sctr].
        destruct (N.ltb_spec 256 (dctr st)); [|lia]. rewrite Hge. cbn [snd].
        split; [reflexivity|]. split; [reflexivity|].
        split.
        { cbn [sched_run sched_step]. rewrite N.eqb_refl. destruct (N.ltb_spec 256 (dctr st)); [|lia]. reflexivity. }
        split; [exact Hto1|]. split; [reflexivity|]. split; [discriminate|]. intros _. exact Hbig.
  Qed.

  (* ---- crypto_entropy_read ---- *)
  Definition call_post (st : dstate) (n : N) (o : oracle)
             (r : bool * list N * dstate * oracle * list ev) : Prop :=
    let '(rc, bytes, st', o', tr) := r in
    spec_read hmac (abs_state st) n o = ((if rc then Some bytes else None), abs_state st', o') /\
    sched_run (astate_of st) tr = Some (astate_of st') /\
    trace_oracle tr o = Some o' /\
    forallb ev_ok tr = rc /\
    (rc = true -> dinst st' = true /\ gen_sizes tr = spec_chunks n /\ length bytes = N.to_nat n /\
                  (dinst st = false -> In (EvInstantiate 48 true) tr)) /\
    (rc = false -> dinst st = false -> dinst st' = false -> st' = st /\ tr = [EvInstantiate 48 false]) /\
    (dinst st = true -> dinst st' = true) /\
    (dinst st = false -> dinst st' = true -> In (EvInstantiate 48 true) tr).

  Lemma entropy_read_refines st n o :
    exists r, entropy_read_m' st n o = Ok r /\ call_post st n o r.
  Proof.
    unfold entropy_read_m. cbn [d_maxlen spec_params].
    destruct (dinst st) eqn:Ei; cbn [negb].
    - (* already instantiated *)
      destruct (read_loop_refines (S (N.to_nat (n / 65536))) st n o) as (r & Er & Hpost); [lia|].
      rewrite Er. destruct r as [[[[rc bytes] st2] o2] e2]. cbn [bind app].
      eexists. split; [reflexivity|]. unfold call_post, loop_post in *.
      destruct Hpost as (Hsv & Hi & Hsch & Hto & Hfo & Hrc1 & Hrc0).
      rewrite (abs_state_true st Ei), (abs_state_true st2) by congruence.
      cbn [spec_read]. rewrite Hsv.
      unfold astate_of. rewrite Ei, Hi, Ei.
      split; [reflexivity|]. split; [exact Hsch|]. split; [exact Hto|]. split; [exact Hfo|]. split.
      + intros ->. destruct (Hrc1 eq_refl) as [Hg Hl].
        split; [congruence|]. split; [exact Hg|]. split; [exact Hl|]. intros; congruence.
      + split; [intros _ Hc; congruence|]. split; [intros _; congruence|]. intros Hc; congruence.
    - (* instantiate first *)
      rewrite instantiate_m_eq.
      destruct (get_entropy 48 o) as [[seed|] o1] eqn:Eg; cbn [negb].
      + set (st1 := mk_dstate _ _ _ true).
        destruct (read_loop_refines (S (N.to_nat (n / 65536))) st1 n o1) as (r & Er & Hpost); [lia|].
        rewrite Er. destruct r as [[[[rc bytes] st2] o2] e2]. cbn [bind].
        eexists. split; [reflexivity|]. unfold call_post, loop_post in *.
        unfold spec_read, spec_instantiate_entropy. rewrite (abs_state_false st Ei), Eg.
        destruct Hpost as (Hsv & Hi & Hsch & Hto & Hfo & Hrc1 & Hrc0).
        assert (Hs1 : s_of st1 = spec_instantiate hmac seed)
          by (unfold st1, s_of, d_of; cbn; destruct (spec_instantiate hmac seed); reflexivity).
        rewrite Hs1 in Hsv. rewrite Hsv.
        assert (Hi2 : dinst st2 = true) by (rewrite Hi; reflexivity).
        rewrite (abs_state_true st2 Hi2).
        split; [reflexivity|].
        split.
        { unfold astate_of. rewrite Ei, Hi2. cbn [app sched_run sched_step Nat.eqb].
          replace (dctr st1) with 1 in Hsch; [exact Hsch|].
          unfold st1. cbn [dctr d_of]. symmetry. apply spec_instantiate_ctr. }
        split; [cbn [app trace_oracle]; rewrite Eg; cbn [Bool.eqb]; exact Hto|].
        split; [cbn [app forallb ev_ok andb]; exact Hfo|].
        split.
        * intros ->. destruct (Hrc1 eq_refl) as [Hg Hl].
          split; [exact Hi2|]. split; [cbn [app gen_sizes flat_map]; exact Hg|]. split; [exact Hl|].
          intros _. left. reflexivity.
        * split; [intros -> _ Hc; congruence|]. split; [intros Hc; congruence|].
          intros _ _. left. reflexivity.
      + eexists. split; [reflexivity|]. unfold call_post.
        unfold spec_read, spec_instantiate_entropy. rewrite (abs_state_false st Ei), Eg.
        split; [reflexivity|].
        unfold astate_of. rewrite Ei. cbn [sched_run sched_step Nat.eqb trace_oracle]. rewrite Eg.
        split; [reflexivity|]. split; [reflexivity|]. split; [reflexivity|].
        split; [discriminate|]. split; [intros _ _ _; split; reflexivity|].
        split; [intros Hc; congruence|]. intros _ Hc. congruence.
  Qed.

  (* ---- whole histories ---- *)
  (* M1 *)
  Theorem drbg_refines_spec : forall reqs st o,
    exists results st' o' tr,
      run_m' reqs st o = Ok (results, st', o', tr) /\
      spec_run hmac reqs (abs_state st) o = (results, abs_state st', o').
  Proof.
    induction reqs as [|n rest IH]; intros st o.
    - eexists _, _, _, _. split; reflexivity.
    - cbn [run_m spec_run].
      destruct (entropy_read_refines st n o) as (r & Er & Hpost). rewrite Er.
      destruct r as [[[[rc bytes] st1] o1] e1]. cbn [bind].
      destruct Hpost as (Hsr & _). rewrite Hsr.
      destruct (IH st1 o1) as (more & st2 & o2 & e2 & Em & Es). rewrite Em, Es. cbn [bind].
      eexists _, _, _, _. split; reflexivity.
  Qed.

  (* the run never aborts (no assert fires, no fuel runs out), the schedule automaton accepts
     its trace, and the trace's entropy reads are the oracle's answers in order *)
  Theorem run_trace_ok : forall reqs st o results st' o' tr,
    run_m' reqs st o = Ok (results, st', o', tr) ->
    sched_run (astate_of st) tr = Some (astate_of st') /\ trace_oracle tr o = Some o'.
  Proof.
    induction reqs as [|n rest IH]; intros st o results st' o' tr H.
    - cbn [run_m] in H. injection H as <- <- <- <-. split; reflexivity.
    - cbn [run_m] in H.
      destruct (entropy_read_refines st n o) as (r & Er & Hpost). rewrite Er in H.
      destruct r as [[[[rc bytes] st1] o1] e1]. cbn [bind] in H.
      destruct Hpost as (_ & Hsch & Hto & _).
      destruct (run_m' rest st1 o1) as [[[[more st2] o2] e2]| | |] eqn:Em; cbn [bind] in H; try discriminate.
      injection H as <- <- <- <-.
      destruct (IH _ _ _ _ _ _ Em) as [Hs2 Ht2].
      rewrite sched_run_app, Hsch, trace_oracle_app, Hto. split; assumption.
  Qed.

  (* one call, everything the property says about it *)
  Theorem call_facts st n o rc bytes st' o' tr :
    entropy_read_m' st n o = Ok (rc, bytes, st', o', tr) ->
    (* the entropy reads of the call are the oracle's answers; the call fails iff one of them failed *)
    trace_oracle tr o = Some o' /\ forallb ev_ok tr = rc /\
    (* success: seeded, exactly ceil(n/65536) generate calls of the chunk sizes, n bytes *)
    (rc = true -> dinst st' = true /\ gen_sizes tr = spec_chunks n /\ length bytes = N.to_nat n /\
                  (dinst st = false -> In (EvInstantiate 48 true) tr)) /\
    (* a failed instantiation leaves the statics untouched and uninstantiated *)
    (dinst st = false -> dinst st' = false -> rc = false /\ st' = st /\ tr = [EvInstantiate 48 false]).
  Proof.
    intros H. destruct (entropy_read_refines st n o) as (r & Er & Hpost). rewrite Er in H.
    injection H as ->. unfold call_post in Hpost.
    destruct Hpost as (_ & _ & Hto & Hfo & Hrc1 & Hrc0 & _ & _).
    split; [exact Hto|]. split; [exact Hfo|]. split; [exact Hrc1|].
    intros Hi Hi'. destruct rc.
    - destruct (Hrc1 eq_refl) as (Hc & _). congruence.
    - destruct (Hrc0 eq_refl Hi Hi') as [-> ->]. repeat split; reflexivity.
  Qed.
  (* M2a: a successful request of n bytes makes exactly ceil(n / 65536) generate calls *)
  Theorem generate_count st n o bytes st' o' tr :
    entropy_read_m' st n o = Ok (true, bytes, st', o', tr) ->
    N.of_nat (length (gen_sizes tr)) = (n + 65535) / 65536 /\
    fold_right N.add 0 (gen_sizes tr) = n /\ Forall (fun c => 0 < c <= 65536) (gen_sizes tr).
  Proof.
    intros H. destruct (call_facts _ _ _ _ _ _ _ _ H) as (_ & _ & Hrc1 & _).
    destruct (Hrc1 eq_refl) as (_ & Hg & _). rewrite Hg.
    split; [apply spec_chunks_length|]. split; [apply spec_chunks_sum|].
    unfold spec_chunks, spec_max_request. apply Forall_app. split.
    - apply Forall_forall. intros x Hx. apply repeat_spec in Hx. subst x. lia.
    - destruct (N.eqb_spec (n mod 65536) 0) as [|Hne]; constructor; [|constructor].
      pose proof (N.mod_lt n 65536 ltac:(lia)). set (r := n mod 65536) in *. clearbody r. lia.
  Qed.

  (* instantiated only ever goes from 0 to 1, and only through a successful instantiate() *)
  Lemma run_instantiated : forall reqs st o results st' o' tr,
    run_m' reqs st o = Ok (results, st', o', tr) ->
    (dinst st = true -> dinst st' = true) /\
    (dinst st' = true -> dinst st = true \/ In (EvInstantiate 48 true) tr) /\
    (forall bytes, In (Some bytes) results -> dinst st' = true).
  Proof.
    induction reqs as [|n rest IH]; intros st o results st' o' tr H.
    - cbn [run_m] in H. injection H as <- <- <- <-.
      split; [tauto|]. split; [tauto|]. intros bytes [].
    - cbn [run_m] in H.
      destruct (entropy_read_refines st n o) as (r & Er & Hpost). rewrite Er in H.
      destruct r as [[[[rc bytes] st1] o1] e1]. cbn [bind] in H.
      destruct Hpost as (_ & _ & _ & _ & Hrc1 & _ & Hmono & Hinst).
      destruct (run_m' rest st1 o1) as [[[[more st2] o2] e2]| | |] eqn:Em; cbn [bind] in H; try discriminate.
      injection H as <- <- <- <-.
      destruct (IH _ _ _ _ _ _ Em) as (Hm2 & Hi2 & Hr2).
      split; [tauto|]. split.
      + intros Hst'. destruct (dinst st) eqn:Ei; [left; reflexivity|right].
        apply in_or_app. destruct (Hi2 Hst') as [H1|H1]; [left; apply Hinst; auto|right; exact H1].
      + intros b [Hb|Hb].
        * destruct rc; [|discriminate]. apply Hm2. apply (Hrc1 eq_refl).
        * eapply Hr2; eassumption.
  Qed.
End Refinement.

(* ---------------- reading the counter automaton ---------------- *)
(* in an accepted trace every generate ran with reseed_counter <= 256 and a size in (0, 65536] *)
Lemma sched_generate_bounds : forall tr a a' n c,
  sched_run a tr = Some a' -> In (EvGenerate n c) tr -> c <= 256 /\ 0 < n <= 65536.
Proof.
  induction tr as [|e r IH]; intros a a' n c Hrun Hin; [destruct Hin|].
  cbn [sched_run] in Hrun. destruct (sched_step a e) as [a1|] eqn:Es; [|discriminate].
  destruct Hin as [->|Hin]; [|eapply IH; eassumption].
  destruct a as [c'|]; cbn [sched_step] in Es; [|discriminate].
  destruct (c =? c'); [|discriminate].
  destruct (N.leb_spec c 256); [|discriminate].
  destruct (N.ltb_spec 0 n); [|discriminate].
  destruct (N.leb_spec n 65536); [|discriminate]. lia.
Qed.

(* ... and, starting uninstantiated, is preceded in the trace by a successful instantiate *)
Lemma sched_generate_after_instantiate : forall tr a' pre n c post,
  sched_run None tr = Some a' -> tr = pre ++ EvGenerate n c :: post -> In (EvInstantiate 48 true) pre.
Proof.
  intros tr a' pre. revert tr a'. induction pre as [|e pre IH]; intros tr a' n c post Hrun ->.
  - cbn in Hrun. discriminate.
  - cbn [app sched_run] in Hrun. destruct e as [len ok|len ok c0|n0 c0]; cbn [sched_step] in Hrun; try discriminate.
    destruct (Nat.eqb_spec len 48) as [->|]; [|discriminate].
    destruct ok; [left; reflexivity|]. right. eapply IH; [exact Hrun|reflexivity].
Qed.

(* ---------------- M2: the reseed schedule by position ---------------- *)
(* position automaton: None = not instantiated; Some (j, fresh): j generate calls so far since
   instantiation, fresh = a reseed succeeded since the last generate call *)
Definition boundary (j : N) : bool := (0 <? j) && (j mod 256 =? 0).

Definition pos_step (a : option (N * bool)) (e : ev) : option (option (N * bool)) :=
  match e, a with
  | EvInstantiate _ ok, None => Some (if ok then Some (0, false) else None)
  | EvReseed _ ok _, Some (j, false) =>
    if boundary j then Some (Some (j, ok)) else None            (* only before calls 257, 513, ... *)
  | EvGenerate _ _, Some (j, fresh) =>
    if Bool.eqb (boundary j) fresh then Some (Some (j + 1, false)) else None   (* and always there *)
  | _, _ => None
  end.
Fixpoint pos_run (a : option (N * bool)) (tr : list ev) : option (option (N * bool)) :=
  match tr with
  | [] => Some a
  | e :: r => match pos_step a e with Some a' => pos_run a' r | None => None end
  end.

(* the counter automaton simulates the position automaton *)
Definition pos_rel (a : option N) (b : option (N * bool)) : Prop :=
  match a, b with
  | None, None => True
  | Some c, Some (j, fresh) =>
    (fresh = true -> boundary j = true) /\
    (if boundary j && negb fresh then c = 257 else c = j mod 256 + 1)
  | _, _ => False
  end.

Lemma boundary_true j : boundary j = true -> 0 < j /\ j mod 256 = 0.
Proof.
  unfold boundary. intros H. apply andb_true_iff in H. destruct H as [H1 H2].
  apply N.ltb_lt in H1. apply N.eqb_eq in H2. split; assumption.
Qed.

Lemma succ_mod j : (j + 1) mod 256 = if j mod 256 =? 255 then 0 else j mod 256 + 1.
Proof.
  pose proof (N.div_mod j 256 ltac:(lia)) as E. pose proof (N.mod_lt j 256 ltac:(lia)) as Hr.
  set (q := j / 256) in *. set (r := j mod 256) in *.
  destruct (N.eqb_spec r 255) as [Hr255|Hne]; symmetry.
  - apply N.mod_unique with (q + 1); lia.
  - apply N.mod_unique with q; lia.
Qed.

Lemma boundary_succ j : boundary (j + 1) = (j mod 256 =? 255).
Proof.
  unfold boundary. rewrite succ_mod. destruct (N.ltb_spec 0 (j + 1)); [|lia].
  destruct (N.eqb_spec (j mod 256) 255); cbn [andb]; [reflexivity|].
  apply N.eqb_neq. cbv iota. rewrite N.add_1_r. apply N.neq_succ_0.
Qed.

Lemma sched_implies_pos : forall tr a b a',
  pos_rel a b -> sched_run a tr = Some a' -> exists b', pos_run b tr = Some b' /\ pos_rel a' b'.
Proof.
  induction tr as [|e r IH]; intros a b a' Hrel Hrun.
  - cbn in Hrun. injection Hrun as <-. exists b. split; [reflexivity|exact Hrel].
  - cbn [sched_run] in Hrun. destruct (sched_step a e) as [a1|] eqn:Es; [|discriminate].
    assert (Hstep : exists b1, pos_step b e = Some b1 /\ pos_rel a1 b1).
    { destruct e as [len ok|len ok c|n c]; destruct a as [c'|]; destruct b as [[j fresh]|];
        cbn [sched_step pos_step pos_rel] in *; try contradiction; try discriminate.
      - (* instantiate *)
        destruct (Nat.eqb len 48); [|discriminate]. injection Es as <-.
        destruct ok; eexists; (split; [reflexivity|]); cbn [pos_rel]; [|exact I].
        split; [discriminate|]. reflexivity.
      - (* reseed: only at c > 256, hence at an unrefreshed boundary *)
        destruct Hrel as [Hf Hc].
        destruct (Nat.eqb len 32); [|discriminate]. cbn [andb] in Es.
        destruct (N.eqb_spec c c'); [subst c'|discriminate].
        destruct (N.ltb_spec 256 c) as [Hbig|]; [|discriminate]. cbn [andb] in Es. injection Es as <-.
        pose proof (N.mod_lt j 256 ltac:(lia)) as Hr.
        destruct (boundary j) eqn:Bj; destruct fresh; cbn [andb negb] in Hc; try lia.
        destruct (boundary_true j Bj) as [Hj0 Hjm].
        exists (Some (j, ok)). split; [reflexivity|].
        destruct ok; cbn [pos_rel]; rewrite Bj; cbn [andb negb].
        + split; [reflexivity|]. lia.
        + split; [discriminate|]. exact Hc.
      - (* generate: only at c <= 256 *)
        destruct Hrel as [Hf Hc].
        destruct (N.eqb_spec c c'); [subst c'|discriminate].
        destruct (N.leb_spec c 256) as [Hle|]; [|discriminate].
        destruct (0 <? n); [|discriminate]. destruct (n <=? 65536); [|discriminate].
        cbn [andb] in Es. injection Es as <-.
        pose proof (N.mod_lt j 256 ltac:(lia)) as Hr.
        assert (Hbf : Bool.eqb (boundary j) fresh = true /\ c = j mod 256 + 1).
        { destruct (boundary j) eqn:Bj; destruct fresh; cbn [andb negb] in Hc; cbn [Bool.eqb];
            try (split; [reflexivity|exact Hc]); try lia; try (specialize (Hf eq_refl); discriminate). }
        destruct Hbf as [Hb ->]. rewrite Hb.
        exists (Some (j + 1, false)). split; [reflexivity|]. cbn [pos_rel].
        split; [discriminate|]. rewrite boundary_succ, succ_mod.
        destruct (N.eqb_spec (j mod 256) 255) as [E|E]; cbn [andb negb]; lia. }
    destruct Hstep as (b1 & Eb & Hrel1). cbn [pos_run]. rewrite Eb. eapply IH; eassumption.
Qed.

(* ---------------- non-vacuity ---------------- *)
(* a function satisfying the three HMAC hypotheses exists (so the section is not vacuous) *)
Example hmac_hypotheses_satisfiable :
  let hmac := fun (K m : list N) => firstn 32 (K ++ m ++ repeat 0 32) in
  let h_init := fun K : list N => (K, @nil N) in
  let h_update := fun (c : list N * list N) d => (fst c, snd c ++ d) in
  let h_final := fun c : list N * list N => hmac (fst c) (snd c) in
  (forall K a b, h_final (h_update (h_update (h_init K) a) b) = hmac K (a ++ b)) /\
  (forall K m, length (hmac K m) = 32%nat).
Proof.
  cbv zeta. split.
  - intros K a b. reflexivity.
  - intros K m. rewrite firstn_length, !app_length, repeat_length. lia.
Qed.

Example automata_accept_a_reseed :
  let tr := [EvInstantiate 48 true; EvGenerate 5 1] in
  sched_run None tr = Some (Some 2) /\ pos_run None tr = Some (Some (1, false)) /\
  sched_run (Some 257) [EvReseed 32 true 257; EvGenerate 1 1] = Some (Some 2) /\
  pos_run (Some (256, false)) [EvReseed 32 true 257; EvGenerate 1 1] = Some (Some (257, false)) /\
  pos_run (Some (256, false)) [EvGenerate 1 1] = None /\
  pos_run (Some (255, false)) [EvReseed 32 true 256; EvGenerate 1 1] = None.
Proof. cbv zeta. split; [|split; [|split; [|split; [|split]]]]; vm_compute; reflexivity. Qed.

(* ---------------- the same theorems for the constants now in crypto_entropy.c ---------------- *)
Section Repo.
  Variable hmac : list N -> list N -> list N.
  Variable hctx : Type.
  Variable h_init : list N -> hctx.
  Variable h_update : hctx -> list N -> hctx.
  Variable h_final : hctx -> list N.
  Variable h_buf : list N -> list N -> list N.
  Hypothesis h_stream : forall K a b, h_final (h_update (h_update (h_init K) a) b) = hmac K (a ++ b).
  Hypothesis h_buf_eq : forall K m, h_buf K m = hmac K m.
  Hypothesis hmac_len : forall K m, length (hmac K m) = 32%nat.

  Notation run_r := (run_m repo_drbg_params hctx h_init h_update h_final h_buf).
  Notation read_r := (entropy_read_m repo_drbg_params hctx h_init h_update h_final h_buf).

  Theorem repo_drbg_refines_spec : forall reqs st o,
    exists results st' o' tr,
      run_r reqs st o = Ok (results, st', o', tr) /\
      spec_run hmac reqs (abs_state st) o = (results, abs_state st', o').
  Proof. rewrite repo_params_eq_spec. apply drbg_refines_spec; assumption. Qed.

  Theorem repo_generate_count : forall st n o bytes st' o' tr,
    read_r st n o = Ok (true, bytes, st', o', tr) ->
    N.of_nat (length (gen_sizes tr)) = (n + 65535) / 65536 /\
    fold_right N.add 0 (gen_sizes tr) = n /\ Forall (fun c => 0 < c <= 65536) (gen_sizes tr).
  Proof. rewrite repo_params_eq_spec. apply (generate_count hmac); assumption. Qed.

  (* M2b: starting from the zeroed statics, for every history and every oracle the trace is
     accepted by the position automaton: a reseed is attempted only, and succeeds always, between
     generate calls number 256k and 256k+1 (k >= 1) since instantiation *)
  Theorem repo_reseed_schedule : forall reqs o results st' o' tr,
    run_r reqs dstate0 o = Ok (results, st', o', tr) ->
    exists b, pos_run None tr = Some b.
  Proof.
    rewrite repo_params_eq_spec. intros reqs o results st' o' tr H.
    destruct (run_trace_ok hmac hctx h_init h_update h_final h_buf h_stream h_buf_eq hmac_len _ _ _ _ _ _ _ H)
      as [Hs _].
    destruct (sched_implies_pos tr None None _ I Hs) as (b & Hb & _). exists b. exact Hb.
  Qed.

  (* M3 *)
  Theorem repo_no_unseeded_output : forall reqs o results st' o' tr,
    run_r reqs dstate0 o = Ok (results, st', o', tr) ->
    (* every generate ran seeded with reseed_counter <= 256, reseeds only when required *)
    sched_run None tr = Some (astate_of st') /\
    (* the entropy reads are the oracle's answers, in order *)
    trace_oracle tr o = Some o' /\
    (* a call that returned 0 implies a successful instantiate in the history *)
    (forall bytes, In (Some bytes) results -> In (EvInstantiate 48 true) tr).
  Proof.
    rewrite repo_params_eq_spec. intros reqs o results st' o' tr H.
    destruct (run_trace_ok hmac hctx h_init h_update h_final h_buf h_stream h_buf_eq hmac_len _ _ _ _ _ _ _ H)
      as [Hs Ht].
    split; [exact Hs|]. split; [exact Ht|]. intros bytes Hin.
    destruct (run_instantiated hmac hctx h_init h_update h_final h_buf h_stream h_buf_eq hmac_len _ _ _ _ _ _ _ H)
      as (_ & Hi & Hr).
    destruct (Hi (Hr _ Hin)) as [Hc|Hc]; [discriminate Hc|exact Hc].
  Qed.

  Theorem repo_call_facts : forall st n o rc bytes st' o' tr,
    read_r st n o = Ok (rc, bytes, st', o', tr) ->
    trace_oracle tr o = Some o' /\ forallb ev_ok tr = rc /\
    (rc = true -> dinst st' = true /\ gen_sizes tr = spec_chunks n /\ length bytes = N.to_nat n /\
                  (dinst st = false -> In (EvInstantiate 48 true) tr)) /\
    (dinst st = false -> dinst st' = false -> rc = false /\ st' = st /\ tr = [EvInstantiate 48 false]).
  Proof. rewrite repo_params_eq_spec. apply (call_facts hmac); assumption. Qed.
End Repo.

(* ---------------- util/entropy.c: entropy_read_fill ---------------- *)
(* [payload] is defined in DrbgOsSpec.v *)

Lemma fill_m_spec : forall (fuel : nat) buflen answers, (N.to_nat buflen <= fuel)%nat ->
  exists res rest used,
    fill_m fuel buflen answers = Ok (res, rest) /\ answers = used ++ rest /\
    (forall bytes, res = Some bytes ->
       bytes = firstn (N.to_nat buflen) (concat (map payload used)) /\ length bytes = N.to_nat buflen).
Proof.
  induction fuel as [|f IH]; intros buflen answers Hf.
  - assert (buflen = 0) by lia. subst. cbn [fill_m N.ltb N.compare].
    exists (Some []), answers, []. split; [reflexivity|]. split; [reflexivity|].
    intros bytes Hb. injection Hb as <-. split; reflexivity.
  - cbn [fill_m]. destruct (N.ltb_spec 0 buflen) as [Hpos|Hz].
    2:{ assert (buflen = 0) by lia. subst.
        exists (Some []), answers, []. split; [reflexivity|]. split; [reflexivity|].
        intros bytes Hb. injection Hb as <-. split; reflexivity. }
    destruct answers as [|[|l] r].
    + exists None, [], []. split; [reflexivity|]. split; [reflexivity|]. intros b Hb; discriminate.
    + exists None, r, [RdErr]. split; [reflexivity|]. split; [reflexivity|]. intros b Hb; discriminate.
    + set (got := firstn (N.to_nat buflen) l).
      destruct (N.eqb_spec (N.of_nat (length got)) 0) as [Hz|Hnz].
      * exists None, r, [RdBytes l]. split; [reflexivity|]. split; [reflexivity|]. intros b Hb; discriminate.
      * assert (Hgl : (length got <= N.to_nat buflen)%nat) by (unfold got; rewrite firstn_length; lia).
        destruct (IH (buflen - N.of_nat (length got)) r) as (res & rest & used & E & Ea & Hres); [lia|].
        rewrite E. cbn [bind].
        eexists _, rest, (RdBytes l :: used). split; [reflexivity|].
        split; [rewrite Ea; reflexivity|].
        intros bytes Hb. destruct res as [more|]; [|discriminate]. injection Hb as <-.
        destruct (Hres more eq_refl) as [Hm Hl].
        cbn [map payload concat]. rewrite firstn_app. fold got.
        split.
        -- f_equal. rewrite Hm. f_equal. unfold got. rewrite firstn_length. lia.
        -- rewrite app_length, Hl. lia.
Qed.

(* entropy_read_fill never aborts; on success the buffer holds exactly buflen bytes: the answers
   of read() in order, cut to the space left *)
Theorem entropy_read_fill_correct buflen answers :
  exists res rest used,
    entropy_read_fill_m buflen answers = Ok (res, rest) /\ answers = used ++ rest /\
    (forall bytes, res = Some bytes ->
       bytes = firstn (N.to_nat buflen) (concat (map payload used)) /\ length bytes = N.to_nat buflen).
Proof. unfold entropy_read_fill_m. apply fill_m_spec. lia. Qed.
