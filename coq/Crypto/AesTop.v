(* The end-to-end statements for the AES area, assembled from
     AesProofs      (the table S-box is the S-box; FIPS-197 vectors)
     AesNiProofs    (M3: aesenc chain = Cipher on a correct schedule)
     AesNiKeyProofs (G4: MKRKEY chains = KeyExpansion; hence AES-NI block encryption = FIPS-197)
     AesCtrProofs   (M1, M2, C03-M2 for an arbitrary block function). *)
From Coq Require Import NArith List Arith Bool Lia.
From LCP Require Import Base.CheckedMem.
From LCP Require Import Gen.Repo_aes.
From LCP Require Import Crypto.AesSpec.
From LCP Require Import Crypto.AesProofs.
From LCP Require Import Accel.AesNi.
From LCP Require Import Crypto.AesCtrModel.
From LCP Require Import Crypto.AesRepo.
From LCP Require Import Accel.AesNiProofs.
From LCP Require Import Accel.AesNiKeyProofs.
From LCP Require Import Crypto.AesCtrProofs.
From LCP Require Import Crypto.AesCtrExamples.
Import ListNotations.
Local Open Scope N_scope.

(* the regenerated init2 constants are what the proofs were done for *)
Lemma repo_init_consts : ctr_init_index = 15 /\ ctr_init_byte = 255.
Proof. split; reflexivity. Qed.

(* ------------------------------------------------------------------ block encryption *)
(* crypto_aes_key_expand_aesni + crypto_aes_encrypt_block_aesni, with the FIPS-197 S-box *)
Theorem aesni_block_is_fips197 : forall key k b,
  repo_key_expand_aesni sbox key = Some k ->
  repo_encrypt_block_aesni sbox k b = AES_encrypt key b.
Proof. intros key k b H. apply (aesni_block_eq_fips sbox key k b H). Qed.

(* the key schedules themselves *)
Theorem aesni_key_expand_128_is_fips197 : forall key, length key = 16%nat ->
  firstn 11 (repo_key_expand_128_aesni sbox key) = round_keys (AES_KeyExpansion key).
Proof. exact (key_expand_128_aesni_eq sbox). Qed.

Theorem aesni_key_expand_256_is_fips197 : forall key, length key = 32%nat ->
  repo_key_expand_256_aesni sbox key = round_keys (AES_KeyExpansion key).
Proof. exact (key_expand_256_aesni_eq sbox). Qed.

(* the executable instance that is run against the library (table S-box) is the same function *)
Theorem x_aesni_block_is_fips197 : forall key k b,
  x_key_expand_aesni key = Some k -> x_encrypt_block_aesni k b = AES_encrypt key b.
Proof.
  intros key k b H. unfold x_encrypt_block_aesni.
  rewrite (aesni_block_eq_fips sbox_fast key k b H). apply fast_aes_encrypt_eq.
Qed.

Theorem aesni_key_expand_defined : forall key, (length key = 16 \/ length key = 32)%nat ->
  exists k, x_key_expand_aesni key = Some k.
Proof. exact (repo_key_expand_aesni_some sbox_fast). Qed.

(* ------------------------------------------------------------------ CTR over AES *)
Lemma ctr_spec_from_ext E1 E2 nonce B data :
  (forall b, E1 b = E2 b) -> ctr_spec_from E1 nonce B data = ctr_spec_from E2 nonce B data.
Proof.
  intros H. unfold ctr_spec_from, keystream_bytes_from. f_equal. apply flat_map_ext.
  intros i. unfold keystream. apply H.
Qed.

Lemma ctr_spec_ext E1 E2 nonce data :
  (forall b, E1 b = E2 b) -> ctr_spec E1 nonce data = ctr_spec E2 nonce data.
Proof. intros H. unfold ctr_spec. apply ctr_spec_from_ext. exact H. Qed.

(* AES-NI build: key expansion, block function and stream routing all as modelled from the C;
   the bytes written by any sequence of calls are SP 800-38A CTR over FIPS-197 AES *)
Theorem aesctr_aesni_is_ctr_of_fips197 : forall key k nonce any chunks,
  x_key_expand_aesni key = Some k ->
  st_wf any -> N.of_nat (length (concat chunks)) < two64 ->
  exists s' outs,
    stream_all (x_encrypt_block_aesni k) true (x_init2 nonce any) chunks = Ok (s', outs) /\
    concat outs = ctr_spec (AES_encrypt key) nonce (concat chunks) /\
    map (@length N) outs = map (@length N) chunks.
Proof.
  intros key k nonce any chunks Hk Hwf Hb.
  destruct (ctr_stream_correct (x_encrypt_block_aesni k)
              (repo_encrypt_block_aesni_length sbox_fast k) true nonce any chunks Hwf Hb)
    as (s' & outs & Hrun & Hcat & Hlen).
  exists s', outs. split; [exact Hrun|]. split; [|exact Hlen].
  rewrite Hcat. apply ctr_spec_ext. intros b. apply (x_aesni_block_is_fips197 key k b Hk).
Qed.

(* the same for an object positioned at block B by the correspondence harness (white-box seek) *)
Theorem aesctr_aesni_seek_is_ctr_of_fips197 : forall key k nonce B any chunks,
  x_key_expand_aesni key = Some k ->
  st_wf any -> 16 * B + N.of_nat (length (concat chunks)) < two64 ->
  exists s' outs,
    stream_all (x_encrypt_block_aesni k) true (x_seek (16 * B) (x_init2 nonce any)) chunks = Ok (s', outs) /\
    concat outs = ctr_spec_from (AES_encrypt key) nonce B (concat chunks) /\
    map (@length N) outs = map (@length N) chunks.
Proof.
  intros key k nonce B any chunks Hk Hwf Hb.
  destruct (ctr_seek_stream_correct (x_encrypt_block_aesni k)
              (repo_encrypt_block_aesni_length sbox_fast k) true nonce B any chunks Hwf Hb)
    as (s' & outs & Hrun & Hcat & Hlen).
  exists s', outs. split; [exact Hrun|]. split; [|exact Hlen].
  rewrite Hcat. apply ctr_spec_from_ext. intros b. apply (x_aesni_block_is_fips197 key k b Hk).
Qed.

(* software build: the block function is OpenSSL's, which is NOT modelled; with E = FIPS-197 AES
   assumed for it, the portable loop gives the same result *)
Theorem aesctr_portable_over_fips197 : forall key nonce any chunks,
  st_wf any -> N.of_nat (length (concat chunks)) < two64 ->
  exists s' outs,
    stream_all (AES_encrypt key) false (x_init2 nonce any) chunks = Ok (s', outs) /\
    concat outs = ctr_spec (AES_encrypt key) nonce (concat chunks) /\
    map (@length N) outs = map (@length N) chunks.
Proof.
  intros key nonce any chunks.
  apply (ctr_stream_correct (AES_encrypt key) (aes_encrypt_length sbox key) false nonce any chunks).
Qed.
