(* C integer expressions and scalar assignment statements as DATA, with an evaluator that follows the
   C rules (C11 6.3.1: integer promotions and usual arithmetic conversions; LP64 as on the build
   host: int 32 bits, long / size_t / uint64_t 64 bits).

   The translator (tools/extract/x_aes.py) emits the bookkeeping statements of crypto_aesctr.c,
   crypto_aesctr_shared.c and crypto_aesctr_aesni.c in this form (Gen/Repo_aes_arith.v); the stream
   model (Crypto/AesCtrModel.v) takes its arithmetic from [eval] / [run] over that data.

   What makes `*buflen & ~15U` differ from `*buflen & ~(size_t)15` is here: a literal carries the C
   type its spelling gives it (15U : unsigned int, 32 bits), [~] works in the promoted type of its
   operand (32 bits for 15U: 0xfffffff0), and only then is the value converted - zero-extended - to
   the 64-bit type of the other operand.  `~15` (a signed int, -16) is sign-extended instead and is
   harmless.  Signed overflow, division by zero and out-of-range shifts are undefined in C: the
   evaluation is flagged undefined.
   No proofs in this file. *)
From Coq Require Import NArith ZArith List Bool.
Import ListNotations.
Local Open Scope Z_scope.

Inductive cty := U8 | U16 | U32 | U64 | S8 | S16 | S32 | S64.

Inductive unop := UNot (* ~ *) | UNeg (* - *) | ULnot (* ! *).
Inductive binop :=
| OAdd | OSub | OMul | ODiv | OMod | OAnd | OOr | OXor | OShl | OShr
| OEq | ONe | OLt | OLe | OGt | OGe.

Inductive cexpr :=
| ELit (t : cty) (v : Z)                   (* an integer literal with the type its spelling has in C *)
| EVar (id : N)
| EUn (op : unop) (a : cexpr)
| EBin (op : binop) (a b : cexpr)
| ECast (t : cty) (a : cexpr)
| EUnknown.                                (* the translator has no form for it: undefined *)

(* statements of the regenerated function bodies *)
Inductive cstmt :=
| SAssign (lv : N) (op : option binop) (e : cexpr)   (* lv = e;  lv op= e;  lv++ is lv += 1 (int 1) *)
| SBe64 (dst off : N) (e : cexpr)          (* be64enc(dst + off, e); dst 0 = the local 8-byte array, 1 = stream->pblk *)
| SMemcpy (off len : N)                    (* memcpy(stream->pblk + off, <the local 8-byte array>, len) *)
| SVec                                     (* a statement over __m128i values (hand-modelled) *)
| SAssert (e : cexpr)                      (* assert(e); *)
| SUnknown.                                (* no form *)

(* ---------------------------------------------------------------- types *)
Definition modulus (t : cty) : Z :=
  match t with
  | U8 | S8 => 256
  | U16 | S16 => 65536
  | U32 | S32 => 4294967296
  | U64 | S64 => 18446744073709551616
  end.

Definition half (t : cty) : Z :=
  match t with
  | U8 | S8 => 128
  | U16 | S16 => 32768
  | U32 | S32 => 2147483648
  | U64 | S64 => 9223372036854775808
  end.

Definition width (t : cty) : Z :=
  match t with U8 | S8 => 8 | U16 | S16 => 16 | U32 | S32 => 32 | U64 | S64 => 64 end.

Definition signed (t : cty) : bool :=
  match t with S8 | S16 | S32 | S64 => true | _ => false end.

(* integer promotions: everything narrower than int becomes int *)
Definition promote (t : cty) : cty :=
  match t with U8 | U16 | S8 | S16 => S32 | _ => t end.

(* usual arithmetic conversions, on promoted types *)
Definition uac (a b : cty) : cty :=
  match a, b with
  | U64, _ | _, U64 => U64
  | S64, _ | _, S64 => S64                  (* long holds every unsigned int *)
  | U32, _ | _, U32 => U32
  | _, _ => S32
  end.

(* conversion of a value to a type (6.3.1.3): modulo 2^N for unsigned; for signed the
   implementation-defined result of gcc (wrap) *)
Definition cvt (t : cty) (z : Z) : Z :=
  if signed t then (z + half t) mod modulus t - half t else z mod modulus t.

Definition cty_eqb (a b : cty) : bool :=
  match a, b with
  | U8, U8 | U16, U16 | U32, U32 | U64, U64 | S8, S8 | S16, S16 | S32, S32 | S64, S64 => true
  | _, _ => false
  end.

(* conversion of a value OF TYPE a to type b: nothing to do when the types are the same (every value
   produced below lies in the range of its type) *)
Definition conv (a b : cty) (z : Z) : Z := if cty_eqb a b then z else cvt b z.

(* the result of an arithmetic operation in type t: wraps for unsigned; signed overflow is undefined.
   Every evaluation below yields (value, defined): the value is meaningful only if defined = true.
   (Keeping the two apart - instead of an option - lets all case distinctions over the expression
   and over the types reduce by computation while the values stay symbolic.) *)
Definition fit (t : cty) (z : Z) : Z * bool :=
  if signed t then (z, (- half t <=? z) && (z <? half t)) else (z mod modulus t, true).

Definition b2z (b : bool) : Z := if b then 1 else 0.

(* ---------------------------------------------------------------- environments *)
(* variable -> declared type and, once assigned, value; an association list whose shape never
   changes (assignment replaces in place) *)
Definition env := list (N * (cty * option Z)).

(* equality of variable numbers (a private copy of N.eqb: the proofs compute with this one and leave
   N.eqb on stream values alone) *)
Fixpoint peqb (p q : positive) {struct p} : bool :=
  match p, q with
  | xH, xH => true
  | xO p', xO q' => peqb p' q'
  | xI p', xI q' => peqb p' q'
  | _, _ => false
  end.
Definition id_eqb (a b : N) : bool :=
  match a, b with N0, N0 => true | Npos p, Npos q => peqb p q | _, _ => false end.

Fixpoint lookup (e : env) (id : N) : option (cty * option Z) :=
  match e with
  | [] => None
  | (j, tv) :: r => if id_eqb j id then Some tv else lookup r id
  end.

(* (type, value, defined); reading a variable that was never declared or never assigned: undefined *)
Definition get (e : env) (id : N) : cty * Z * bool :=
  match lookup e id with
  | Some (t, Some v) => (t, v, true)
  | Some (t, None) => (t, 0, false)
  | None => (S32, 0, false)
  end.

(* storing a value of type tz converts it to the declared type; (new env, the variable exists) *)
Fixpoint set (e : env) (id : N) (tz : cty) (z : Z) : env * bool :=
  match e with
  | [] => ([], false)
  | (j, (t, v)) :: r =>
    if id_eqb j id then ((j, (t, Some (conv tz t z))) :: r, true)
    else let '(r', ok) := set r id tz z in ((j, (t, v)) :: r', ok)
  end.

(* ---------------------------------------------------------------- expressions *)
Definition is_cmp (op : binop) : bool :=
  match op with OEq | ONe | OLt | OLe | OGt | OGe => true | _ => false end.

Definition arith (t : cty) (op : binop) (x y : Z) : Z * bool :=
  match op with
  | OAdd => fit t (x + y)
  | OSub => fit t (x - y)
  | OMul => fit t (x * y)
  | ODiv => let '(v, d) := fit t (if signed t then Z.quot x y else x / y) in (v, d && negb (y =? 0))
  | OMod => let '(v, d) := fit t (if signed t then Z.rem x y else x mod y) in (v, d && negb (y =? 0))
  | OAnd => (cvt t (Z.land x y), true)
  | OOr => (cvt t (Z.lor x y), true)
  | OXor => (cvt t (Z.lxor x y), true)
  | OEq => (b2z (x =? y), true)
  | ONe => (b2z (negb (x =? y)), true)
  | OLt => (b2z (x <? y), true)
  | OLe => (b2z (x <=? y), true)
  | OGt => (b2z (y <? x), true)
  | OGe => (b2z (y <=? x), true)
  | OShl | OShr => (0, false)
  end.

(* x << n, x >> n in the promoted type of x; n must be in 0 .. width-1, and a negative x may
   not be shifted left *)
Definition shift (t : cty) (op : binop) (x n : Z) : Z * bool :=
  let inr := (0 <=? n) && (n <? width t) in
  match op with
  | OShl => let '(v, d) := fit t (x * 2 ^ n) in (v, d && inr && negb (signed t && (x <? 0)))
  | _ => (Z.shiftr x n, inr)
  end.

Fixpoint eval (e : env) (x : cexpr) {struct x} : cty * Z * bool :=
  match x with
  | ELit t v => (t, v, true)
  | EVar id => get e id
  | ECast t a => let '(ta, va, da) := eval e a in (t, conv ta t va, da)
  | EUn op a =>
    let '(ta, va, da) := eval e a in
    let t := promote ta in
    match op with
    | UNot => (t, cvt t (Z.lnot va), da)
    | UNeg => let '(v, d) := fit t (- va) in (t, v, da && d)
    | ULnot => (S32, b2z (va =? 0), da)
    end
  | EBin op a b =>
    let '(ta, va, da) := eval e a in
    let '(tb, vb, db) := eval e b in
    match op with
    | OShl | OShr =>
      let t := promote ta in
      let '(v, d) := shift t op va vb in (t, v, da && db && d)
    | _ =>
      let t := uac (promote ta) (promote tb) in
      let '(v, d) := arith t op (conv ta t va) (conv tb t vb) in
      (if is_cmp op then S32 else t, v, da && db && d)
    end
  | EUnknown => (S32, 0, false)
  end.

(* ---------------------------------------------------------------- statements *)
(* lv op= e  is  lv = lv op e  with lv evaluated once (it is a plain variable here) *)
Definition assign (e : env) (lv : N) (op : option binop) (x : cexpr) : env * bool :=
  let '(t, v, d) := eval e (match op with None => x | Some o => EBin o (EVar lv) x end) in
  let '(e', ok) := set e lv t v in (e', d && ok).

(* the scalar statements of a list, in order: (variables afterwards, every evaluation was defined,
   every assert held).  SBe64 / SMemcpy / SVec are the byte and vector statements the model places
   itself and are skipped here; SUnknown has no meaning *)
Fixpoint run (e : env) (l : list cstmt) {struct l} : env * bool * bool :=
  match l with
  | [] => (e, true, true)
  | SAssign lv op x :: r =>
    let '(e', d) := assign e lv op x in
    let '(e'', d', a') := run e' r in (e'', d && d', a')
  | SAssert x :: r =>
    let '(_, v, d) := eval e x in
    let '(e', d', a') := run e r in (e', d && d', negb (v =? 0) && a')
  | SUnknown :: _ => (e, false, true)
  | _ :: r => run e r
  end.
Definition renv (r : env * bool * bool) : env := fst (fst r).
Definition rdef (r : env * bool * bool) : bool := snd (fst r).
Definition rok (r : env * bool * bool) : bool := snd r.

(* early exits `if (c) return;`: (some c is true, every c was defined) *)
Fixpoint any_true (e : env) (l : list cexpr) {struct l} : bool * bool :=
  match l with
  | [] => (false, true)
  | x :: r =>
    let '(_, v, d) := eval e x in
    let '(b, d') := any_true e r in (negb (v =? 0) || b, d && d')
  end.

Fixpoint all_scalar (l : list cstmt) : bool :=
  match l with
  | [] => true
  | SAssign _ _ _ :: r => all_scalar r
  | SAssert _ :: r => all_scalar r
  | _ :: _ => false
  end.

(* the body of the AES-NI whole-block loop must be: be64enc(arr, e); vector statements; scalar
   statements - the positions the hand-written vector part of the model assumes *)
Fixpoint drop_vec (l : list cstmt) : list cstmt :=
  match l with SVec :: r => drop_vec r | _ => l end.
Definition body_parts (l : list cstmt) : option (cexpr * list cstmt) :=
  match l with
  | SBe64 0%N 0%N e :: r =>
    match r with
    | SVec :: _ => let s := drop_vec r in if all_scalar s then Some (e, s) else None
    | _ => None
    end
  | _ => None
  end.

(* the epilogue of the AES-NI whole-block function: scalar statements and exactly one statement that
   writes the counter back into stream->pblk - memcpy(stream->pblk + off, arr, len) or
   be64enc(stream->pblk + off, x) - which is evaluated where it stands *)
Fixpoint count_writeback (l : list cstmt) : option nat :=
  match l with
  | [] => Some O
  | SMemcpy _ _ :: r => match count_writeback r with Some n => Some (S n) | None => None end
  | SBe64 1%N _ _ :: r => match count_writeback r with Some n => Some (S n) | None => None end
  | SAssign _ _ _ :: r => count_writeback r
  | SAssert _ :: r => count_writeback r
  | _ :: _ => None
  end.
Inductive wback :=
| WbCopy (off len : N)                     (* memcpy(stream->pblk + off, arr, len) *)
| WbEnc (off : N) (v : Z) (d : bool).      (* be64enc(stream->pblk + off, <value v, defined d>) *)
Fixpoint writeback (e : env) (l : list cstmt) {struct l} : option wback :=
  match l with
  | [] => None
  | SMemcpy off len :: _ => Some (WbCopy off len)
  | SBe64 1%N off x :: _ => let '(_, v, d) := eval e x in Some (WbEnc off v d)
  | SAssign lv op x :: r => writeback (fst (assign e lv op x)) r
  | _ :: r => writeback e r
  end.

(* variable numbering shared with the translator *)
Definition V_BYTECTR : N := 1.     (* stream->bytectr *)
Definition V_BUFLEN : N := 2.      (* *buflen / *buflen_p / buflen *)
Definition V_INOFF : N := 3.       (* *inbuf, as an offset from its value at entry *)
Definition V_OUTOFF : N := 4.      (* *outbuf, likewise *)
Definition V_NBYTES : N := 5.
Definition V_BYTEMOD : N := 6.
Definition V_PBLKB : N := 7.       (* stream->pblk[K], K = gen_pblk_idx *)
(* locals of a function: 16, 17, ... in the order of their first assignment *)
