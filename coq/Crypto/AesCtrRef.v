(* REFERENCE ARITHMETIC of the AES-CTR stream model: the functions of Crypto/AesCtrModel.v with the
   bookkeeping arithmetic of crypto_aesctr.c, crypto_aesctr_shared.c and crypto_aesctr_aesni.c
   written out by hand in unbounded N (with an explicit mod 2^64 where bytectr wraps).
   The invariant and keystream proofs (Crypto/AesCtrRefProofs.v) are done for these functions;
   Crypto/AesCtrProofs.v proves that the model - which EVALUATES the statements regenerated from the
   C text (Gen/Repo_aes_arith.v) under C integer semantics - computes the same, for every state and
   every call length below 2^64, and transfers the theorems.  Nothing here is extracted or run.
   No proofs in this file. *)
From Coq Require Import NArith List Arith Bool.
From LCP Require Import Base.CheckedMem.
From LCP Require Import Crypto.AesSpec.
From LCP Require Import Accel.AesNi.
From LCP Require Import Crypto.AesCtrModel.
Import ListNotations.
Local Open Scope N_scope.
Local Open Scope res_scope.

Module Ref.
Section Model.
  Variable E : list N -> list N.             (* crypto_aes_encrypt_block(., ., stream->key) *)

  (* crypto_aesctr_stream_cipherblock_generate *)
  Definition generate (s : st) : res st :=
    if negb (bytectr s mod 16 =? 0) then AssertFail else
    let p15 := (nth 15 (pblk s) 0 + 1) mod 256 in              (* stream->pblk[15]++ (uint8_t) *)
    let p := upd_byte (pblk s) 15 p15 in
    let p := if p15 =? 0
             then firstn 8 p ++ be64 (bytectr s / 16)          (* be64enc(pblk + 8, bytectr / 16) *)
             else p in
    Ok (mkst (bytectr s) (E p) p).

  (* crypto_aesctr_stream_cipherblock_use: out[i] = in[i] ^ buf[bytemod + i] for i < nbytes;
     returns (state, bytes written, input left, buflen left) *)
  Definition use (s : st) (inp : list N) (buflen nbytes bytemod : N) : st * list N * list N * N :=
    let n := N.to_nat nbytes in
    (mkst ((bytectr s + nbytes) mod two64) (buf s) (pblk s),
     xor_list (firstn n inp) (skipn (N.to_nat bytemod) (buf s)),
     skipn n inp,
     buflen - nbytes).

  (* crypto_aesctr_stream_pre_wholeblock; the bool is its return value *)
  Definition pre_whole (s : st) (inp : list N) (buflen : N) : st * list N * list N * N * bool :=
    let bytemod := bytectr s mod 16 in
    if negb (bytemod =? 0) then
      if bytemod + buflen <=? 16 then
        (use s inp buflen buflen bytemod, true)
      else
        (use s inp buflen (16 - bytemod) bytemod, false)
    else (s, [], inp, buflen, false).

  (* the loop  while (buflen >= 16) { generate; use(16, 0) }  of crypto_aesctr_stream *)
  Fixpoint whole (fuel : nat) (s : st) (inp : list N) (buflen : N) {struct fuel}
    : res (st * list N * list N * N) :=
    if 16 <=? buflen then
      match fuel with
      | O => OutOfFuel
      | S f =>
        let* s1 := generate s in
        let '(s2, o, rest, bl) := use s1 inp buflen 16 0 in
        let* (s3, o', rest', bl') := whole f s2 rest bl in
        Ok (s3, o ++ o', rest', bl')
      end
    else Ok (s, [], inp, buflen).

  (* crypto_aesctr_stream_post_wholeblock *)
  Definition post_whole (s : st) (inp : list N) (buflen : N) : res (st * list N) :=
    if 0 <? buflen then
      let* s1 := generate s in
      let '(s2, o, _, _) := use s1 inp buflen buflen 0 in
      Ok (s2, o)
    else Ok (s, []).

  (* crypto_aesctr_stream, software path: returns (state, bytes written to outbuf) *)
  Definition stream (s : st) (inp : list N) : res (st * list N) :=
    let buflen := N.of_nat (length inp) in
    let '(s1, o1, rest, bl, done) := pre_whole s inp buflen in
    if done then Ok (s1, o1) else
    let* (s2, o2, rest2, bl2) := whole (length inp) s1 rest bl in
    let* (s3, o3) := post_whole s2 rest2 bl2 in
    Ok (s3, o1 ++ o2 ++ o3).

  (* ---------------------------------------------------------------- crypto_aesctr_aesni.c *)
  (* the do { ... } while (--i > 0) body, executed n+1 times; returns
     (bytes written, input left, block_counter, block_counter_be_arr of the last iteration) *)
  Fixpoint bulk (n : nat) (nonce_be : m128) (block_counter : N) (inp : list N) {struct n}
    : list N * list N * N * list N :=
    let arr := be64 block_counter in                                   (* be64enc(arr, block_counter) *)
    let bufsse := E (mm_unpacklo_epi64 nonce_be (load_si64 arr)) in    (* encrypt_block_aesni_m128i *)
    let o := xor_list (firstn 16 inp) bufsse in                        (* loadu; xor; storeu *)
    let ctr' := (block_counter + 1) mod two64 in                       (* block_counter++ *)
    match n with
    | O => (o, skipn 16 inp, ctr', arr)
    | S n' =>
      let '(o', rest, c, a) := bulk n' nonce_be ctr' (skipn 16 inp) in
      (o ++ o', rest, c, a)
    end.

  (* crypto_aesctr_aesni_stream_wholeblocks; entered with num_blocks = 0 the do-while would run
     2^64 times over the buffers: Fault *)
  Definition wholeblocks_aesni (s : st) (inp : list N) (buflen : N)
    : res (st * list N * list N * N) :=
    let nonce_be := load_si64 (pblk s) in
    let block_counter := bytectr s / 16 in
    let num_blocks := buflen / 16 in
    match N.to_nat num_blocks with
    | O => Fault
    | S n =>
      let '(o, rest, _, arr) := bulk n nonce_be block_counter inp in
      Ok (mkst ((bytectr s + 16 * num_blocks) mod two64) (buf s)
               (firstn 8 (pblk s) ++ arr),                 (* memcpy(pblk + 8, arr, 8) *)
          o, rest, buflen - 16 * num_blocks)
    end.

  (* crypto_aesctr_aesni_stream *)
  Definition stream_aesni (s : st) (inp : list N) : res (st * list N) :=
    let buflen := N.of_nat (length inp) in
    let '(s1, o1, rest, bl, done) := pre_whole s inp buflen in
    if done then Ok (s1, o1) else
    let* (s2, o2, rest2, bl2) :=
       if 16 <=? bl then wholeblocks_aesni s1 rest bl else Ok (s1, [], rest, bl) in
    let* (s3, o3) := post_whole s2 rest2 bl2 in
    Ok (s3, o1 ++ o2 ++ o3).

  (* crypto_aesctr_stream as compiled with / without CPUSUPPORT_X86_AESNI selected:
     if ((buflen >= 16) && (hwaccel == HW_X86_AESNI)) aesni path else software path *)
  Definition stream_cfg (hw : bool) (s : st) (inp : list N) : res (st * list N) :=
    if (16 <=? N.of_nat (length inp)) && hw then stream_aesni s inp else stream s inp.

  (* a whole script of calls on one stream: outputs in order *)
  Fixpoint stream_all (hw : bool) (s : st) (chunks : list (list N)) : res (st * list (list N)) :=
    match chunks with
    | [] => Ok (s, [])
    | c :: r =>
      let* (s1, o) := stream_cfg hw s c in
      let* (s2, os) := stream_all hw s1 r in
      Ok (s2, o :: os)
    end.
End Model.
End Ref.
