(* C11 SPEC: NIST SP 800-90A Rev.1 section 10.1.2, HMAC_DRBG, transcribed with a one-shot HMAC
   (no personalization string, no additional input, no prediction resistance), together with the
   envelope the property states: instantiate on first use from 48 bytes of OS entropy
   (entropy_input || nonce), serve a request of n bytes as consecutive Generate calls of at most
   65536 bytes (SP 800-90A table 2: max_number_of_bits_per_request = 2^19), and when Generate
   would report "reseed required" (reseed_counter > reseed_interval = 256) obtain 32 bytes of
   fresh entropy and Reseed first.  If the entropy source fails the call fails.
   Written independently of crypto/crypto_entropy.c; every constant here is a literal.
   Definitions only; executable (the failing-input search runs it). *)
From Coq Require Import NArith List Bool.
Import ListNotations.
Local Open Scope N_scope.

Definition spec_outlen : nat := 32.                (* HMAC-SHA256 output, bytes *)
Definition spec_reseed_interval : N := 256.
Definition spec_max_request : N := 65536.          (* bytes per Generate *)
Definition spec_instantiate_entropy : nat := 48.   (* entropy_input (32) || nonce (16) *)
Definition spec_reseed_entropy : nat := 32.

Record sstate : Type := mk_sstate { sK : list N; sV : list N; sctr : N }.

(* the entropy source as an oracle: one entry per call; None (or an exhausted oracle) = failure;
   Some bytes = the source delivered bytes (the first n of them are what a request for n gets) *)
Definition oracle := list (option (list N)).
Definition take_pad (n : nat) (l : list N) : list N := firstn n (l ++ repeat 0 n).
Definition get_entropy (n : nat) (o : oracle) : option (list N) * oracle :=
  match o with
  | [] => (None, [])
  | None :: r => (None, r)
  | Some e :: r => (Some (take_pad n e), r)
  end.

Section Spec.
  Variable hmac : list N -> list N -> list N.      (* HMAC(K, data) *)

  (* 10.1.2.2 HMAC_DRBG_Update (provided_data, K, V) *)
  Definition spec_update (data K V : list N) : list N * list N :=
    let K1 := hmac K (V ++ [0x00] ++ data) in
    let V1 := hmac K1 V in
    match data with
    | [] => (K1, V1)
    | _ =>
      let K2 := hmac K1 (V1 ++ [0x01] ++ data) in
      let V2 := hmac K2 V1 in
      (K2, V2)
    end.

  (* 10.1.2.3 HMAC_DRBG_Instantiate_algorithm (seed_material = entropy_input || nonce) *)
  Definition spec_instantiate (seed_material : list N) : sstate :=
    let '(K, V) := spec_update seed_material (repeat 0x00 spec_outlen) (repeat 0x01 spec_outlen) in
    mk_sstate K V 1.

  (* 10.1.2.4 HMAC_DRBG_Reseed_algorithm *)
  Definition spec_reseed (st : sstate) (entropy_input : list N) : sstate :=
    let '(K, V) := spec_update entropy_input (sK st) (sV st) in
    mk_sstate K V 1.

  (* step 4 of 10.1.2.5: temp = Null; while len(temp) < requested: V = HMAC(K, V); temp = temp || V *)
  Fixpoint spec_blocks (k : nat) (K V : list N) : list N * list N :=
    match k with
    | O => ([], V)
    | S k' => let V1 := hmac K V in
              let '(t, Vf) := spec_blocks k' K V1 in (V1 ++ t, Vf)
    end.

  (* 10.1.2.5 HMAC_DRBG_Generate_algorithm; None = "reseed required" *)
  Definition spec_generate (st : sstate) (n : N) : option (list N * sstate) :=
    if spec_reseed_interval <? sctr st then None
    else
      let nblocks := N.to_nat ((n + 31) / 32) in
      let '(temp, V1) := spec_blocks nblocks (sK st) (sV st) in
      let returned_bits := firstn (N.to_nat n) temp in
      let '(K2, V2) := spec_update [] (sK st) V1 in
      Some (returned_bits, mk_sstate K2 V2 (sctr st + 1)).

  (* a request of n bytes is served as Generate calls of at most 65536 bytes *)
  Definition spec_chunks (n : N) : list N :=
    repeat spec_max_request (N.to_nat (n / spec_max_request)) ++
    (if n mod spec_max_request =? 0 then [] else [n mod spec_max_request]).

  (* result of one library call: Some output = success (return 0); None = failure (return -1) *)
  Fixpoint spec_serve (chunks : list N) (st : sstate) (o : oracle)
    : option (list N) * sstate * oracle :=
    match chunks with
    | [] => (Some [], st, o)
    | n :: rest =>
      (* reseed when required *)
      let r := if spec_reseed_interval <? sctr st
               then match get_entropy spec_reseed_entropy o with
                    | (Some e, o1) => Some (spec_reseed st e, o1)
                    | (None, o1) => None
                    end
               else Some (st, o) in
      match r with
      | None => (None, st, snd (get_entropy spec_reseed_entropy o))
      | Some (st1, o1) =>
        match spec_generate st1 n with
        | None => (None, st1, o1)                     (* cannot happen: just reseeded *)
        | Some (bytes, st2) =>
          let '(res, st3, o3) := spec_serve rest st2 o1 in
          (match res with Some more => Some (bytes ++ more) | None => None end, st3, o3)
        end
      end
    end.

  (* one call of the library's random function in state [st] (None = not yet instantiated) *)
  Definition spec_read (st : option sstate) (n : N) (o : oracle)
    : option (list N) * option sstate * oracle :=
    match st with
    | Some s => let '(res, s', o') := spec_serve (spec_chunks n) s o in (res, Some s', o')
    | None =>
      match get_entropy spec_instantiate_entropy o with
      | (None, o1) => (None, None, o1)
      | (Some seed, o1) =>
        let '(res, s', o') := spec_serve (spec_chunks n) (spec_instantiate seed) o1 in (res, Some s', o')
      end
    end.

  (* a whole history of requests *)
  Fixpoint spec_run (reqs : list N) (st : option sstate) (o : oracle)
    : list (option (list N)) * option sstate * oracle :=
    match reqs with
    | [] => ([], st, o)
    | n :: rest =>
      let '(res, st1, o1) := spec_read st n o in
      let '(more, st2, o2) := spec_run rest st1 o1 in
      (res :: more, st2, o2)
    end.
End Spec.
