(* C06: asynchronous read / write / connect / accept complete exactly once, byte-exact.
   Only statements, each closed by [exact], with Print Assumptions.  Models: Net/NetRW.v,
   NetAccept.v, NetConnect.v (mirrors of network_{read,write,accept,connect}.c); the errno sets
   of the retry conditions are regenerated from the C text (Gen/Repo_net.v).
   "A readiness callback is delivered at most once per registration and only while registered"
   is C04 (event loop) and is what drives these machines. *)
From Coq Require Import NArith ZArith List Bool Arith.
From LCP Require Import Base.CheckedMem Gen.Repo_net Net.NetRW Net.NetAccept Net.NetConnect.
From LCP Require Import Net.NetRWProofs Net.NetAcceptProofs Net.NetConnectProofs Net.NetTie.
Import ListNotations.
Local Open Scope nat_scope.

(* ---- the retry conditions in the code are the ones the property names *)
Theorem C06_read_retry_set : forall e,
  is_retry read_retry e = true <-> (e = EAGAIN \/ e = EWOULDBLOCK \/ e = EINTR).
Proof. exact read_retry_set. Qed.
Print Assumptions C06_read_retry_set.

Theorem C06_write_retry_set : forall e,
  is_retry write_retry e = true <-> (e = EAGAIN \/ e = EWOULDBLOCK \/ e = EINTR).
Proof. exact write_retry_set. Qed.
Print Assumptions C06_write_retry_set.

Theorem C06_accept_retry_set : forall e,
  acc_is_retry accept_retry e = true <->
  (e = EAGAIN \/ e = EWOULDBLOCK \/ e = ECONNABORTED \/ e = EINTR).
Proof. exact accept_retry_set. Qed.
Print Assumptions C06_accept_retry_set.

(* ---- M1: for every (buflen, min) with 0 < buflen, min <= buflen and EVERY sequence l of kernel
   answers (data of any length the kernel may return, any errno, EOF anywhere) paired with the
   outcome of a possible re-registration: the request makes its single callback at the first
   terminal answer (enough data / EOF / hard error / cannot re-arm) and consumes nothing after
   it; the value is n = all bytes received with min <= n <= buflen, or 0, or -1; the buffer holds
   exactly the received bytes in order followed by its untouched rest.  Without a terminal
   answer there is no callback and the request stays registered.
   [first_terminal], [recvd], [cb_value], [req_list] are characterised by
   C06_first_terminal_is_first and C06_read_requests_exact below. *)
Theorem C06_read_exactly_once : forall buflen min buf0 (l : list (ranswer * bool)),
  0 < buflen -> min <= buflen -> length buf0 = buflen ->
  kernel_ok read_retry buflen min 0 l ->
  let C0 := mkRd buf0 buflen min 0 in
  match first_terminal read_retry min 0 l with
  | None => read_run read_retry C0 l = (req_list buflen 0 l, None)
  | Some k =>
    exists C',
      let got := recvd (firstn (S k) l) in
      let v := cb_value min (length (recvd (firstn k l))) (nth k l dflt) in
      read_run read_retry C0 l = (req_list buflen 0 (firstn (S k) l), Some (v, C')) /\
      length got <= buflen /\
      rd_buf C' = got ++ skipn (length got) buf0 /\
      match fst (nth k l dflt) with
      | RData [] => v = 0%Z
      | RData _ => (v = Z.of_nat (length got) /\ min <= length got) \/
                   (v = (-1)%Z /\ snd (nth k l dflt) = false /\ length got < min)
      | RErrno e => v = (-1)%Z /\ (is_retry read_retry e = false \/ snd (nth k l dflt) = false)
      end
  end.
Proof. exact (read_exactly_once_lemma read_retry). Qed.
Print Assumptions C06_read_exactly_once.

(* the index returned by first_terminal is the least index whose answer is terminal at the
   position (= bytes received before it) where it arrives *)
Theorem C06_first_terminal_is_first : forall min (l : list (ranswer * bool)) pos k,
  first_terminal read_retry min pos l = Some k ->
  k < length l /\
  terminal read_retry min (pos + length (recvd (firstn k l))) (nth k l dflt) = true /\
  forall i, i < k -> terminal read_retry min (pos + length (recvd (firstn i l))) (nth i l dflt) = false.
Proof. exact (first_terminal_some read_retry). Qed.
Print Assumptions C06_first_terminal_is_first.

Theorem C06_no_terminal_means_none : forall min (l : list (ranswer * bool)) pos,
  first_terminal read_retry min pos l = None ->
  forall i, i < length l ->
    terminal read_retry min (pos + length (recvd (firstn i l))) (nth i l dflt) = false.
Proof. exact (first_terminal_none read_retry). Qed.
Print Assumptions C06_no_terminal_means_none.

(* every recv was asked for exactly buflen - bufpos bytes at offset bufpos (bufpos = bytes received
   so far): a non-empty range that never leaves the buffer *)
Theorem C06_read_requests_exact : forall buflen min buf0 (l : list (ranswer * bool)),
  0 < buflen -> min <= buflen -> length buf0 = buflen ->
  kernel_ok read_retry buflen min 0 l ->
  let reqs := fst (read_run read_retry (mkRd buf0 buflen min 0) l) in
  forall i, i < length reqs ->
    let pos := length (recvd (firstn i l)) in
    nth i reqs (0, 0) = (pos, buflen - pos) /\ pos < buflen.
Proof. exact (read_requests_exact read_retry). Qed.
Print Assumptions C06_read_requests_exact.

(* ---- M2: the same for network_write; the bytes handed to send, in order, are exactly
   firstn n buf.  Hypothesis wkernel_ok: send with a non-zero length returns neither 0 nor more
   than asked (a 0 answer is the assert(len != 0) of the code: AssertFail in the model). *)
Theorem C06_write_exactly_once : forall buf min (l : list (sanswer * bool)),
  0 < length buf -> min <= length buf ->
  wkernel_ok write_retry (length buf) min 0 l ->
  let C0 := mkWr buf (length buf) min 0 in
  match wfirst_terminal write_retry min 0 l with
  | None => write_run write_retry C0 l = Ok (wreq_list (length buf) 0 l, firstn (total_sent l) buf, None)
  | Some k =>
    exists C',
      let n := total_sent (firstn (S k) l) in
      let v := wcb_value min (total_sent (firstn k l)) (nth k l sdflt) in
      write_run write_retry C0 l =
        Ok (wreq_list (length buf) 0 (firstn (S k) l), firstn n buf, Some (v, C')) /\
      n <= length buf /\
      match fst (nth k l sdflt) with
      | SSent _ => (v = Z.of_nat n /\ min <= n) \/
                   (v = (-1)%Z /\ snd (nth k l sdflt) = false /\ n < min)
      | SErrno e => v = (-1)%Z /\ (is_retry write_retry e = false \/ snd (nth k l sdflt) = false)
      end
  end.
Proof. exact (write_exactly_once_lemma write_retry). Qed.
Print Assumptions C06_write_exactly_once.

Theorem C06_write_first_terminal_is_first : forall min (l : list (sanswer * bool)) pos k,
  wfirst_terminal write_retry min pos l = Some k ->
  k < length l /\
  wterminal write_retry min (pos + total_sent (firstn k l)) (nth k l sdflt) = true /\
  forall i, i < k -> wterminal write_retry min (pos + total_sent (firstn i l)) (nth i l sdflt) = false.
Proof. exact (wfirst_terminal_some write_retry). Qed.
Print Assumptions C06_write_first_terminal_is_first.

Theorem C06_write_requests_exact : forall buf min (l : list (sanswer * bool)),
  0 < length buf -> min <= length buf ->
  wkernel_ok write_retry (length buf) min 0 l ->
  forall reqs wire fin, write_run write_retry (mkWr buf (length buf) min 0) l = Ok (reqs, wire, fin) ->
  forall i, i < length reqs ->
    let pos := total_sent (firstn i l) in
    nth i reqs (0, 0) = (pos, length buf - pos) /\ pos < length buf.
Proof. exact (write_requests_exact write_retry). Qed.
Print Assumptions C06_write_requests_exact.

(* ---- M3: cancel.  Histories of kernel answers and cancels offered to the registration slot of
   one request: after a cancel nothing at all is observed (no callback, no recv) and the slot is
   free; at most one callback in any history; none if the cancel came while still registered. *)
Theorem C06_cancel_silences : forall slot pre post,
  rd_life read_retry slot (pre ++ InCancel :: post) =
    (None,
     snd (rd_life read_retry slot pre) ++
     match fst (rd_life read_retry slot pre) with Some _ => [ObsCancelled] | None => [] end).
Proof. exact (cancel_silences_lemma read_retry). Qed.
Print Assumptions C06_cancel_silences.

Theorem C06_read_callback_at_most_once : forall ins slot,
  length (filter is_cb (snd (rd_life read_retry slot ins))) <= 1.
Proof. exact (rd_life_callback_once_lemma read_retry). Qed.
Print Assumptions C06_read_callback_at_most_once.

Theorem C06_cancelled_never_calls_back : forall C pre post C',
  fst (rd_life read_retry (Some C) pre) = Some C' ->
  filter is_cb (snd (rd_life read_retry (Some C) (pre ++ InCancel :: post))) = [].
Proof. exact (cancelled_never_calls_back_lemma read_retry). Qed.
Print Assumptions C06_cancelled_never_calls_back.

Theorem C06_write_cancel_silences : forall pre slot post s o,
  wr_life write_retry slot pre = Ok (s, o) ->
  wr_life write_retry slot (pre ++ WInCancel :: post) =
    Ok (None, o ++ match s with Some _ => [ObsWCancelled] | None => [] end).
Proof. exact (write_cancel_silences_lemma write_retry). Qed.
Print Assumptions C06_write_cancel_silences.

(* ---- M4: connect over EVERY address list (fail at once with or without a descriptor, fail
   asynchronously, time out, succeed, in any order), with or without per-address timeout.
   Hypotheses: an asynchronous error is not 0, and an address that never answers needs the
   timeout (otherwise the request rightly waits for ever).  [winner], [reached] are plain
   recursions over the list (NetConnectProofs.v) characterised by C06_winner_is_first_ok. *)
Theorem C06_connect_first_success : forall timeo sas,
  Forall wf_outcome sas -> Forall (no_hang timeo) sas ->
  exists trace,
    conn_run timeo sas = Ok (trace, Finished 0%Z) /\
    callbacks trace = [winner 0 sas] /\
    attempted trace = seq 0 (reached sas) /\
    created trace = seq 0 (length (created trace)) /\
    created trace = closes trace ++ match winner 0 sas with Some s => [s] | None => [] end /\
    count is_timer_on trace = count is_timer_off trace /\
    count is_net_reg trace = count is_net_off trace.
Proof. exact connect_first_success_lemma. Qed.
Print Assumptions C06_connect_first_success.

Theorem C06_winner_is_first_ok : forall sas i,
  first_ok sas = Some i ->
  i < length sas /\ is_ok (nth i sas OSockFail) = true /\
  forall j, j < i -> is_ok (nth j sas OSockFail) = false.
Proof. exact first_ok_some. Qed.
Print Assumptions C06_winner_is_first_ok.

(* cancel is safe in every state a started request can be in: no assert, the descriptor of the
   attempt in progress is closed, no callback *)
Theorem C06_connect_cancel_safe : forall st,
  cancel_safe st ->
  exists obs, connect_cancel st = Ok obs /\
              closes obs = match c_s st with Some s => [s] | None => [] end /\
              callbacks obs = [].
Proof. exact cancel_ok_lemma. Qed.
Print Assumptions C06_connect_cancel_safe.

Theorem C06_connect_states_cancel_safe :
  (forall timeo sas next st obs,
     network_connect timeo sas next true all_ok = (Running st, obs) -> cancel_safe st) /\
  (forall st ev rg st' obs,
     cancel_safe st -> conn_step st ev rg = (Running st', obs) -> cancel_safe st').
Proof. exact (conj connect_states_cancel_safe_lemma conn_step_running_safe). Qed.
Print Assumptions C06_connect_states_cancel_safe.

(* ---- M5: accept.  (Re-registrations succeed; when one fails the code reports through the event
   loop's return value instead of a callback: DESIGN section 6, "not findings".) *)
Theorem C06_accept_once : forall l : list aanswer,
  let run := accept_run accept_retry (map (fun a => (a, true)) l) in
  match first_final accept_retry l with
  | None => run = (length l, None)
  | Some k => run = (S k, Some (Some (acc_value (nth k l (AErrno 0%N)))))
  end.
Proof. exact (accept_once_lemma accept_retry). Qed.
Print Assumptions C06_accept_once.

Theorem C06_accept_first_final_is_first : forall l k,
  first_final accept_retry l = Some k ->
  k < length l /\ acc_retries accept_retry (nth k l (AErrno 0%N)) = false /\
  forall i, i < k -> acc_retries accept_retry (nth i l (AErrno 0%N)) = true.
Proof. exact (first_final_some accept_retry). Qed.
Print Assumptions C06_accept_first_final_is_first.

Theorem C06_accept_cancel_silences : forall pre armed post,
  acc_life accept_retry armed (pre ++ AInCancel :: post) =
    (false, snd (acc_life accept_retry armed pre) ++
            (if fst (acc_life accept_retry armed pre) then [ObsAccCancelled] else [])).
Proof. exact (accept_cancel_silences_lemma accept_retry). Qed.
Print Assumptions C06_accept_cancel_silences.
