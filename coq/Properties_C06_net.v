(* C06: asynchronous read / write / connect / accept complete exactly once, byte-exact.
   Only statements, each closed by [exact], with Print Assumptions.  Models: Net/NetRW.v,
   NetAccept.v, NetConnect.v (mirrors of network_{read,write,accept,connect}.c); the errno sets
   of the retry conditions are regenerated from the C text (Gen/Repo_net.v).
   "A readiness callback is delivered at most once per registration and only while registered"
   is C04 (event loop) and is what drives these machines.

   BUILD CONFIGURATIONS of network_write.c.  callback_buf exists in two configurations: the default
   one (send with MSG_NOSIGNAL) and -DPOSIXFAIL_MSG_NOSIGNAL (send with flag 0 between
   signal(SIGPIPE, SIG_IGN) and the restoring signal(), errno saved over the latter).  The write
   machine [write_cb] is configuration-independent: it is the function of the send() ANSWERS (return
   value, and errno as left by send itself) that both configurations have to implement; the
   SIGPIPE / errno bookkeeping around the call is not modelled.  That each configuration implements
   this function - in particular that a failed send() is classified on send()'s own errno - and
   that MSG_NOSIGNAL is passed (default) resp. SIGPIPE is ignored around the call and restored
   (POSIXFAIL) is decided by the correspondence run: areas/net.py builds the driver in both
   configurations and runs every write scenario on both against the one model log, with a scripted
   poll()/signal() that leave a rotating errno behind.

   CANCEL.  The single-slot life-cycle theorems (C06_cancel_silences, C06_write_cancel_silences,
   C06_accept_cancel_silences, C06_cancelled_never_calls_back) are about [rd_life] / [wr_life] /
   [acc_life], whose step functions ignore every input offered to an empty slot BY DEFINITION: they
   record the slot discipline assumed from C04 (C04_invoke_only_while_registered) and say little
   more.  The statements with content are the COMPOSED ones further down (C06_cancel_silences_composed,
   C06_callbacks_le_starts_composed, C06_slots_exclusive, C06_cancel_frees_slot,
   C06_restart_after_cancel): an invariant of Net/NetWorld.v - the executable composition of the
   request machines, the netbuf layer, the registration slots and the scripted kernel that the
   correspondence run compares with the C - proved for every script.  The event loop of events*.c
   itself is not composed in Coq (NetWorld has its own stand-in: one slot per (descriptor,
   direction)); that the C behaves like NetWorld is what the correspondence run decides. *)
From Coq Require Import NArith ZArith List Bool Arith.
From LCP Require Import Base.CheckedMem Gen.Repo_net Net.NetRW Net.NetAccept Net.NetConnect.
From LCP Require Import Net.NetRWProofs Net.NetAcceptProofs Net.NetConnectProofs Net.NetTie.
From LCP Require Import Net.NetWorld Net.NetWorldProofs.
Import ListNotations.
Local Open Scope nat_scope.

(* ---- the retry conditions in the code are the ones the property names *)
Theorem C06_read_retry_set : forall e,
  is_retry read_retry e = true <-> (e = EAGAIN \/ e = EWOULDBLOCK \/ e = EINTR).
Proof. exact read_retry_set. Qed.
Print Assumptions C06_read_retry_set.

Theorem C06_write_retry_set : forall e,
  is_retry write_retry e = true <-> (e = EAGAIN \/ e = EWOULDBLOCK \/ e = EINTR).
Proof. exact write_retry_set. Qed.
Print Assumptions C06_write_retry_set.

Theorem C06_accept_retry_set : forall e,
  acc_is_retry accept_retry e = true <->
  (e = EAGAIN \/ e = EWOULDBLOCK \/ e = ECONNABORTED \/ e = EINTR).
Proof. exact accept_retry_set. Qed.
Print Assumptions C06_accept_retry_set.

(* ---- M1: for every (buflen, min) with 0 < buflen, min <= buflen and EVERY sequence l of kernel
   answers (data of any length the kernel may return, any errno, EOF anywhere) paired with the
   outcome of a possible re-registration: the request makes its single callback at the first
   terminal answer (enough data / EOF / hard error / cannot re-arm) and consumes nothing after
   it; the value is n = all bytes received with min <= n <= buflen, or 0, or -1; the buffer holds
   exactly the received bytes in order followed by its untouched rest.  Without a terminal
   answer there is no callback and the request stays registered.
   [first_terminal], [recvd], [cb_value], [req_list] are characterised by
   C06_first_terminal_is_first and C06_read_requests_exact below. *)
Theorem C06_read_exactly_once : forall buflen min buf0 (l : list (ranswer * bool)),
  0 < buflen -> min <= buflen -> length buf0 = buflen ->
  kernel_ok read_retry buflen min 0 l ->
  let C0 := mkRd buf0 buflen min 0 in
  match first_terminal read_retry min 0 l with
  | None => read_run read_retry C0 l = (req_list buflen 0 l, None)
  | Some k =>
    exists C',
      let got := recvd (firstn (S k) l) in
      let v := cb_value min (length (recvd (firstn k l))) (nth k l dflt) in
      read_run read_retry C0 l = (req_list buflen 0 (firstn (S k) l), Some (v, C')) /\
      length got <= buflen /\
      rd_buf C' = got ++ skipn (length got) buf0 /\
      match fst (nth k l dflt) with
      | RData [] => v = 0%Z
      | RData _ => (v = Z.of_nat (length got) /\ min <= length got) \/
                   (v = (-1)%Z /\ snd (nth k l dflt) = false /\ length got < min)
      | RErrno e => v = (-1)%Z /\ (is_retry read_retry e = false \/ snd (nth k l dflt) = false)
      end
  end.
Proof. exact (read_exactly_once_lemma read_retry). Qed.
Print Assumptions C06_read_exactly_once.

(* the index returned by first_terminal is the least index whose answer is terminal at the
   position (= bytes received before it) where it arrives *)
Theorem C06_first_terminal_is_first : forall min (l : list (ranswer * bool)) pos k,
  first_terminal read_retry min pos l = Some k ->
  k < length l /\
  terminal read_retry min (pos + length (recvd (firstn k l))) (nth k l dflt) = true /\
  forall i, i < k -> terminal read_retry min (pos + length (recvd (firstn i l))) (nth i l dflt) = false.
Proof. exact (first_terminal_some read_retry). Qed.
Print Assumptions C06_first_terminal_is_first.

Theorem C06_no_terminal_means_none : forall min (l : list (ranswer * bool)) pos,
  first_terminal read_retry min pos l = None ->
  forall i, i < length l ->
    terminal read_retry min (pos + length (recvd (firstn i l))) (nth i l dflt) = false.
Proof. exact (first_terminal_none read_retry). Qed.
Print Assumptions C06_no_terminal_means_none.

(* every recv was asked for exactly buflen - bufpos bytes at offset bufpos (bufpos = bytes received
   so far): a non-empty range that never leaves the buffer *)
Theorem C06_read_requests_exact : forall buflen min buf0 (l : list (ranswer * bool)),
  0 < buflen -> min <= buflen -> length buf0 = buflen ->
  kernel_ok read_retry buflen min 0 l ->
  let reqs := fst (read_run read_retry (mkRd buf0 buflen min 0) l) in
  forall i, i < length reqs ->
    let pos := length (recvd (firstn i l)) in
    nth i reqs (0, 0) = (pos, buflen - pos) /\ pos < buflen.
Proof. exact (read_requests_exact read_retry). Qed.
Print Assumptions C06_read_requests_exact.

(* ---- M2: the same for network_write; the bytes handed to send, in order, are exactly
   firstn n buf.  Hypothesis wkernel_ok: send with a non-zero length returns neither 0 nor more
   than asked (a 0 answer is the assert(len != 0) of the code: AssertFail in the model). *)
Theorem C06_write_exactly_once : forall buf min (l : list (sanswer * bool)),
  0 < length buf -> min <= length buf ->
  wkernel_ok write_retry (length buf) min 0 l ->
  let C0 := mkWr buf (length buf) min 0 in
  match wfirst_terminal write_retry min 0 l with
  | None => write_run write_retry C0 l = Ok (wreq_list (length buf) 0 l, firstn (total_sent l) buf, None)
  | Some k =>
    exists C',
      let n := total_sent (firstn (S k) l) in
      let v := wcb_value min (total_sent (firstn k l)) (nth k l sdflt) in
      write_run write_retry C0 l =
        Ok (wreq_list (length buf) 0 (firstn (S k) l), firstn n buf, Some (v, C')) /\
      n <= length buf /\
      match fst (nth k l sdflt) with
      | SSent _ => (v = Z.of_nat n /\ min <= n) \/
                   (v = (-1)%Z /\ snd (nth k l sdflt) = false /\ n < min)
      | SErrno e => v = (-1)%Z /\ (is_retry write_retry e = false \/ snd (nth k l sdflt) = false)
      end
  end.
Proof. exact (write_exactly_once_lemma write_retry). Qed.
Print Assumptions C06_write_exactly_once.

Theorem C06_write_first_terminal_is_first : forall min (l : list (sanswer * bool)) pos k,
  wfirst_terminal write_retry min pos l = Some k ->
  k < length l /\
  wterminal write_retry min (pos + total_sent (firstn k l)) (nth k l sdflt) = true /\
  forall i, i < k -> wterminal write_retry min (pos + total_sent (firstn i l)) (nth i l sdflt) = false.
Proof. exact (wfirst_terminal_some write_retry). Qed.
Print Assumptions C06_write_first_terminal_is_first.

Theorem C06_write_requests_exact : forall buf min (l : list (sanswer * bool)),
  0 < length buf -> min <= length buf ->
  wkernel_ok write_retry (length buf) min 0 l ->
  forall reqs wire fin, write_run write_retry (mkWr buf (length buf) min 0) l = Ok (reqs, wire, fin) ->
  forall i, i < length reqs ->
    let pos := total_sent (firstn i l) in
    nth i reqs (0, 0) = (pos, length buf - pos) /\ pos < length buf.
Proof. exact (write_requests_exact write_retry). Qed.
Print Assumptions C06_write_requests_exact.

(* ---- M3: cancel, one registration slot in isolation.  Histories of kernel answers and cancels
   offered to the slot of one request.  NOTE: [rd_life_step] maps every input offered to an empty
   slot to "no observation" by definition (the slot discipline of C04), so C06_cancel_silences,
   C06_cancelled_never_calls_back, C06_write_cancel_silences and C06_accept_cancel_silences unfold
   that definition along a history; what they add is only that the bookkeeping is consistent (a
   cancel empties the slot, the observations before it are unchanged).  The "at most one callback
   in ANY history" theorems do say something about read_cb / write_cb / accept_cb: a callback always
   empties the slot.  The composed statements are in section M6. *)
Theorem C06_cancel_silences : forall slot pre post,
  rd_life read_retry slot (pre ++ InCancel :: post) =
    (None,
     snd (rd_life read_retry slot pre) ++
     match fst (rd_life read_retry slot pre) with Some _ => [ObsCancelled] | None => [] end).
Proof. exact (cancel_silences_lemma read_retry). Qed.
Print Assumptions C06_cancel_silences.

Theorem C06_read_callback_at_most_once : forall ins slot,
  length (filter is_cb (snd (rd_life read_retry slot ins))) <= 1.
Proof. exact (rd_life_callback_once_lemma read_retry). Qed.
Print Assumptions C06_read_callback_at_most_once.

Theorem C06_cancelled_never_calls_back : forall C pre post C',
  fst (rd_life read_retry (Some C) pre) = Some C' ->
  filter is_cb (snd (rd_life read_retry (Some C) (pre ++ InCancel :: post))) = [].
Proof. exact (cancelled_never_calls_back_lemma read_retry). Qed.
Print Assumptions C06_cancelled_never_calls_back.

Theorem C06_write_cancel_silences : forall pre slot post s o,
  wr_life write_retry slot pre = Ok (s, o) ->
  wr_life write_retry slot (pre ++ WInCancel :: post) =
    Ok (None, o ++ match s with Some _ => [ObsWCancelled] | None => [] end).
Proof. exact (write_cancel_silences_lemma write_retry). Qed.
Print Assumptions C06_write_cancel_silences.

Theorem C06_write_callback_at_most_once : forall ins slot s o,
  wr_life write_retry slot ins = Ok (s, o) -> length (filter is_wcb o) <= 1.
Proof. exact (wr_life_callback_once_lemma write_retry). Qed.
Print Assumptions C06_write_callback_at_most_once.

Theorem C06_write_cancelled_never_calls_back : forall C pre post C' o,
  wr_life write_retry (Some C) pre = Ok (Some C', o) ->
  exists o', wr_life write_retry (Some C) (pre ++ WInCancel :: post) = Ok (None, o') /\
             filter is_wcb o' = [].
Proof. exact (write_cancelled_never_calls_back_lemma write_retry). Qed.
Print Assumptions C06_write_cancelled_never_calls_back.

(* ---- M4: connect over EVERY address list (fail at once with or without a descriptor, fail
   asynchronously, time out, succeed, in any order), with or without per-address timeout.
   Hypotheses, about the addresses the request actually gets to only ([reached sas] = up to and
   including the first one that connects; what the kernel would do for later ones is never asked):
   an asynchronous error is not 0, and an address that never answers needs the timeout (otherwise
   the request rightly waits for ever).  [winner], [reached] are plain recursions over the list
   (NetConnectProofs.v) characterised by C06_winner_is_first_ok. *)
Theorem C06_connect_first_success : forall timeo sas,
  Forall wf_outcome (firstn (reached sas) sas) -> Forall (no_hang timeo) (firstn (reached sas) sas) ->
  exists trace,
    conn_run timeo sas = Ok (trace, Finished 0%Z) /\
    callbacks trace = [winner 0 sas] /\
    attempted trace = seq 0 (reached sas) /\
    created trace = seq 0 (length (created trace)) /\
    created trace = closes trace ++ match winner 0 sas with Some s => [s] | None => [] end /\
    count is_timer_on trace = count is_timer_off trace /\
    count is_net_reg trace = count is_net_off trace.
Proof. exact connect_first_success_lemma. Qed.
Print Assumptions C06_connect_first_success.

Theorem C06_winner_is_first_ok : forall sas i,
  first_ok sas = Some i ->
  i < length sas /\ is_ok (nth i sas OSockFail) = true /\
  forall j, j < i -> is_ok (nth j sas OSockFail) = false.
Proof. exact first_ok_some. Qed.
Print Assumptions C06_winner_is_first_ok.

(* cancel is safe in every state a started request can be in, whatever the outcomes of the
   allocation and of the registrations made so far (rg): no assert, the descriptor of the attempt in
   progress is closed, no callback *)
Theorem C06_connect_cancel_safe : forall st,
  cancel_safe st ->
  exists obs, connect_cancel st = Ok obs /\
              closes obs = match c_s st with Some s => [s] | None => [] end /\
              callbacks obs = [].
Proof. exact cancel_ok_lemma. Qed.
Print Assumptions C06_connect_cancel_safe.

Theorem C06_connect_states_cancel_safe :
  (forall timeo sas next cookie_ok rg st obs,
     network_connect timeo sas next cookie_ok rg = (Running st, obs) -> cancel_safe st) /\
  (forall st ev rg st' obs,
     cancel_safe st -> conn_step st ev rg = (Running st', obs) -> cancel_safe st').
Proof. exact (conj connect_states_cancel_safe_any_lemma conn_step_running_safe). Qed.
Print Assumptions C06_connect_states_cancel_safe.

(* ---- M5: accept.  (Re-registrations succeed; when one fails the code reports through the event
   loop's return value instead of a callback: DESIGN section 6, "not findings".) *)
Theorem C06_accept_once : forall l : list aanswer,
  let run := accept_run accept_retry (map (fun a => (a, true)) l) in
  match first_final accept_retry l with
  | None => run = (length l, None)
  | Some k => run = (S k, Some (Some (acc_value (nth k l (AErrno 0%N)))))
  end.
Proof. exact (accept_once_lemma accept_retry). Qed.
Print Assumptions C06_accept_once.

Theorem C06_accept_first_final_is_first : forall l k,
  first_final accept_retry l = Some k ->
  k < length l /\ acc_retries accept_retry (nth k l (AErrno 0%N)) = false /\
  forall i, i < k -> acc_retries accept_retry (nth i l (AErrno 0%N)) = true.
Proof. exact (first_final_some accept_retry). Qed.
Print Assumptions C06_accept_first_final_is_first.

Theorem C06_accept_cancel_silences : forall pre armed post,
  acc_life accept_retry armed (pre ++ AInCancel :: post) =
    (false, snd (acc_life accept_retry armed pre) ++
            (if fst (acc_life accept_retry armed pre) then [ObsAccCancelled] else [])).
Proof. exact (accept_cancel_silences_lemma accept_retry). Qed.
Print Assumptions C06_accept_cancel_silences.

Theorem C06_accept_callback_at_most_once : forall ins armed,
  length (filter is_acb (snd (acc_life accept_retry armed ins))) <= 1.
Proof. exact (accept_callback_once_lemma accept_retry). Qed.
Print Assumptions C06_accept_callback_at_most_once.

(* ---- M6: the composition.  Net/NetWorld.v runs the request machines above, the netbuf reader and
   writer, one registration slot per (descriptor, direction) and the scripted kernel together; its
   interpreter [go] executes the scripts of the correspondence run (requests started from inside
   callbacks, cancels at any instant, several descriptors, read + write on one descriptor).
   [world_events fuel ops] is the log of the run in chronological order (run_script = this log
   followed by the trailer).  For EVERY script ops, every amount of fuel and every fill byte: *)

(* at most one request is registered per (descriptor, direction) *)
Theorem C06_slots_exclusive : forall fill fuel ops,
  NoDup (map key (wd_reqs (final_world read_retry write_retry accept_retry (N.to_nat WBUFLEN)
                             (N.to_nat RBUF_INIT) (N.to_nat RBUF_GROW) fill fuel ops))).
Proof.
  exact (fun fill => slots_exclusive_lemma read_retry write_retry accept_retry (N.to_nat WBUFLEN)
                       (N.to_nat RBUF_INIT) (N.to_nat RBUF_GROW) fill).
Qed.
Print Assumptions C06_slots_exclusive.

(* after "cancel id" no callback of request id is logged, unless a request with that id was
   successfully started again in between *)
Theorem C06_cancel_silences_composed : forall fill fuel ops id pre mid v b post,
  world_events read_retry write_retry accept_retry (N.to_nat WBUFLEN) (N.to_nat RBUF_INIT)
               (N.to_nat RBUF_GROW) fill fuel ops = pre ++ LgCancel id :: mid ++ LgCb id v b :: post ->
  exists k, In (LgStart k id true) mid.
Proof.
  exact (fun fill => cancel_silences_world_lemma read_retry write_retry accept_retry (N.to_nat WBUFLEN)
                       (N.to_nat RBUF_INIT) (N.to_nat RBUF_GROW) fill).
Qed.
Print Assumptions C06_cancel_silences_composed.

(* callbacks of id never outnumber the successful starts of id (read, write and accept alike) *)
Theorem C06_callbacks_le_starts_composed : forall fill fuel ops id,
  let ev := world_events read_retry write_retry accept_retry (N.to_nat WBUFLEN) (N.to_nat RBUF_INIT)
                         (N.to_nat RBUF_GROW) fill fuel ops in
  length (filter (is_cb_of id) ev) <= length (filter (is_start_of id) ev).
Proof.
  exact (fun fill => callbacks_le_starts_lemma read_retry write_retry accept_retry (N.to_nat WBUFLEN)
                       (N.to_nat RBUF_INIT) (N.to_nat RBUF_GROW) fill).
Qed.
Print Assumptions C06_callbacks_le_starts_composed.

(* in any world satisfying the invariant (every reachable one: world_inv_lemma) a cancel frees the
   (descriptor, direction) of the request it cancels, and the next read on it is accepted *)
Theorem C06_cancel_frees_slot : forall fill w id q,
  winv w -> In q (wd_reqs w) -> is_user_id id q = true ->
  busy (do_op (N.to_nat WBUFLEN) (N.to_nat RBUF_INIT) (N.to_nat RBUF_GROW) fill w (OpCancel id))
       (q_fd q) (q_wr q) = false.
Proof.
  exact (fun fill => cancel_frees_slot_lemma (N.to_nat WBUFLEN) (N.to_nat RBUF_INIT) (N.to_nat RBUF_GROW) fill).
Qed.
Print Assumptions C06_cancel_frees_slot.

Theorem C06_restart_after_cancel : forall fill w id q id2 buflen min cont,
  winv w -> In q (wd_reqs w) -> is_user_id id q = true -> q_wr q = false -> 0 < buflen ->
  let d := do_op (N.to_nat WBUFLEN) (N.to_nat RBUF_INIT) (N.to_nat RBUF_GROW) fill in
  hd LgSkip (wd_log (d (d w (OpCancel id)) (OpRead id2 (q_fd q) buflen min cont))) = LgStart 0 id2 true.
Proof.
  exact (fun fill => restart_after_cancel_lemma (N.to_nat WBUFLEN) (N.to_nat RBUF_INIT) (N.to_nat RBUF_GROW) fill).
Qed.
Print Assumptions C06_restart_after_cancel.

Theorem C06_reachable_worlds_invariant : forall fill fuel ops,
  winv (final_world read_retry write_retry accept_retry (N.to_nat WBUFLEN) (N.to_nat RBUF_INIT)
                    (N.to_nat RBUF_GROW) fill fuel ops).
Proof.
  exact (fun fill => world_inv_lemma read_retry write_retry accept_retry (N.to_nat WBUFLEN)
                       (N.to_nat RBUF_INIT) (N.to_nat RBUF_GROW) fill).
Qed.
Print Assumptions C06_reachable_worlds_invariant.
