(* aws/aws_readkeys.c: model with release events (C20-M4: on every failing path the block that held
   the secret key is zeroed before it is handed to free) and an allocation oracle for strdup.
   The file is an arbitrary byte string (NULs, over-long and unterminated lines included). *)
From Coq Require Import NArith List Bool.
Import ListNotations.
Local Open Scope N_scope.

Definition bytes := list N.

(* fgets(buf, n, f): reads at most n-1 bytes, stops after a newline; None when no byte is left *)
Fixpoint fgets_take (k : nat) (inp : bytes) : bytes * bytes :=
  match k with
  | O => ([], inp)
  | S k' =>
    match inp with
    | [] => ([], [])
    | c :: r => if c =? 10 then ([c], r) else let (l, rest) := fgets_take k' r in (c :: l, rest)
    end
  end.

Definition fgets (n : nat) (inp : bytes) : option (bytes * bytes) :=
  match inp with
  | [] => None
  | _ => Some (fgets_take (n - 1) inp)
  end.

(* the C string held in buf: bytes up to the first NUL *)
Fixpoint cstring (l : bytes) : bytes :=
  match l with
  | [] => []
  | c :: r => if c =? 0 then [] else c :: cstring r
  end.

(* strcspn(s, "\r\n") split: (prefix, found an EOL character?) *)
Fixpoint split_eol (s : bytes) : bytes * bool :=
  match s with
  | [] => ([], false)
  | c :: r => if (c =? 13) || (c =? 10) then ([], true)
              else let (p, f) := split_eol r in (c :: p, f)
  end.

(* strchr(s, '=') split: Some (name, value) *)
Fixpoint split_eq (s : bytes) : option (bytes * bytes) :=
  match s with
  | [] => None
  | c :: r => if c =? 61 then Some ([], r)
              else match split_eq r with Some (a, v) => Some (c :: a, v) | None => None end
  end.

Fixpoint beq (a c : bytes) {struct a} : bool :=
  match a, c with
  | [], [] => true
  | x :: a', y :: c' => (x =? y) && beq a' c'
  | _, _ => false
  end.

(* events observable at the allocator boundary *)
Inductive event :=
| EAllocId (content : bytes)        (* strdup of the key id succeeded *)
| EAllocSecret (content : bytes)    (* strdup of the secret succeeded *)
| EFreeId (content : bytes)         (* free of the key id block, with its content at that moment *)
| EFreeSecret (content : bytes).    (* free of the secret block, with its content at that moment *)

Inductive outcome :=
| Success (id secret : bytes)
| Failure.

Record st := { kid : option bytes; ksec : option bytes; oracle : list bool; evs : list event }.

(* err1: free the key id; if a secret was read: insecure_memzero(secret, strlen(secret)); free it *)
Definition err1 (wipe : bool) (s : st) : outcome * list event :=
  let e1 := match kid s with Some i => [EFreeId i] | None => [] end in
  let e2 := match ksec s with
            | Some k => [EFreeSecret (if wipe then map (fun _ => 0) k else k)]
            | None => []
            end in
  (Failure, evs s ++ e1 ++ e2).

Section Model.
  Variable name_id name_secret : bytes.    (* "ACCESS_KEY_ID", "ACCESS_KEY_SECRET" *)
  Variable bufsize : nat.                  (* sizeof(buf) = 1024 *)
  Variable wipe : bool.                    (* true = the code as it is; false = the wipe removed *)

  Definition take_oracle (s : st) : bool * st :=
    match oracle s with
    | [] => (true, s)
    | a :: r => (a, {| kid := kid s; ksec := ksec s; oracle := r; evs := evs s |})
    end.

  Definition finish (s : st) : outcome * list event :=
    match kid s, ksec s with
    | Some i, Some k => (Success i k, evs s)
    | _, _ => err1 wipe s
    end.

  (* the while loop; fuel = number of fgets calls still allowed (file length + 1 suffices) *)
  Fixpoint loop (fuel : nat) (inp : bytes) (s : st) : outcome * list event :=
    match fuel with
    | O => err1 wipe s    (* unreachable with enough fuel *)
    | S fuel' =>
      match fgets bufsize inp with
      | None => finish s
      | Some (raw, rest) =>
        let line := cstring raw in
        let (content, haseol) := split_eol line in
        if negb haseol then finish s     (* "Missing EOL": break *)
        else
          match split_eq content with
          | None => err1 wipe s            (* err3 -> err2 -> err1 *)
          | Some (nm, val) =>
            if beq nm name_id then
              match kid s with
              | Some _ => err1 wipe s      (* specified twice *)
              | None =>
                let (ok, s1) := take_oracle s in
                if ok then
                  loop fuel' rest {| kid := Some val; ksec := ksec s1; oracle := oracle s1;
                                     evs := evs s1 ++ [EAllocId val] |}
                else err1 wipe s1
              end
            else if beq nm name_secret then
              match ksec s with
              | Some _ => err1 wipe s
              | None =>
                let (ok, s1) := take_oracle s in
                if ok then
                  loop fuel' rest {| kid := kid s1; ksec := Some val; oracle := oracle s1;
                                     evs := evs s1 ++ [EAllocSecret val] |}
                else err1 wipe s1
              end
            else err1 wipe s
          end
      end
    end.
End Model.
