(* C20-M4: on every path of aws_readkeys, for every file content, every allocation-failure pattern
   and every fuel, a secret block is all-zero when it is freed; every block allocated is freed
   exactly once on failure and handed to the caller on success. *)
From Coq Require Import NArith List Bool Lia.
From LCP Require Import Wipe.Readkeys.
Import ListNotations.
Local Open Scope N_scope.

Definition is_free (e : event) : bool :=
  match e with EFreeId _ | EFreeSecret _ => true | _ => false end.

Definition zero_block (c : bytes) : bool := forallb (fun x => x =? 0) c.

Definition wiped_event (e : event) : bool :=
  match e with EFreeSecret c => zero_block c | _ => true end.

Definition nofree (l : list event) : bool := negb (existsb is_free l).
Definition wiped (l : list event) : bool := forallb wiped_event l.

Lemma zero_block_map (k : bytes) : zero_block (map (fun _ => 0) k) = true.
Proof. induction k as [|x r IH]; [reflexivity|]. cbn. exact IH. Qed.

Lemma nofree_wiped l : nofree l = true -> wiped l = true.
Proof.
  unfold nofree, wiped. induction l as [|e r IH]; [reflexivity|]. cbn [existsb forallb].
  rewrite negb_orb. intros H. apply andb_true_iff in H. destruct H as [H1 H2].
  rewrite (IH H2), andb_true_r. destruct e; try reflexivity. discriminate.
Qed.

Lemma nofree_app l e : nofree l = true -> is_free e = false -> nofree (l ++ [e]) = true.
Proof.
  unfold nofree. rewrite existsb_app. cbn [existsb]. intros H He.
  rewrite He. apply negb_true_iff in H. rewrite H. reflexivity.
Qed.

Lemma wiped_app a c : wiped (a ++ c) = wiped a && wiped c.
Proof. apply forallb_app. Qed.

Lemma err1_wiped s : nofree (evs s) = true -> wiped (snd (err1 true s)) = true.
Proof.
  intros H. unfold err1. cbn [snd]. rewrite !wiped_app, (nofree_wiped _ H). cbn [andb].
  destruct (kid s), (ksec s); cbn; rewrite ?zero_block_map; reflexivity.
Qed.

Section Model.
  Variable name_id name_secret : bytes.
  Variable bufsize : nat.

  Lemma take_oracle_evs s : evs (snd (take_oracle s)) = evs s /\
                            kid (snd (take_oracle s)) = kid s /\ ksec (snd (take_oracle s)) = ksec s.
  Proof. unfold take_oracle. destruct (oracle s); cbn; auto. Qed.

  Lemma finish_wiped s : nofree (evs s) = true -> wiped (snd (finish true s)) = true.
  Proof.
    intros H. unfold finish. destruct (kid s) eqn:E1, (ksec s) eqn:E2;
      try (apply err1_wiped; exact H). cbn [snd]. apply nofree_wiped, H.
  Qed.

  (* the main statement: every fuel, every input, every oracle *)
  Theorem readkeys_wipes_secret fuel inp s :
    nofree (evs s) = true ->
    wiped (snd (loop name_id name_secret bufsize true fuel inp s)) = true.
  Proof.
    revert inp s. induction fuel as [|fuel IH]; intros inp s H; cbn [loop].
    - apply err1_wiped, H.
    - destruct (fgets bufsize inp) as [[raw rest]|]; [|apply finish_wiped, H].
      destruct (split_eol (cstring raw)) as [content haseol].
      destruct haseol; cbn [negb]; [|apply finish_wiped, H].
      destruct (split_eq content) as [[nm val]|]; [|apply err1_wiped, H].
      destruct (beq nm name_id).
      + destruct (kid s) eqn:Ek; [apply err1_wiped, H|].
        destruct (take_oracle s) as [ok s1] eqn:Et.
        pose proof (take_oracle_evs s) as (T1 & T2 & T3). rewrite Et in T1, T2, T3. cbn [snd] in *.
        destruct ok.
        * apply IH. cbn [evs]. apply nofree_app; [rewrite T1; exact H | reflexivity].
        * apply err1_wiped. rewrite T1. exact H.
      + destruct (beq nm name_secret); [|apply err1_wiped, H].
        destruct (ksec s) eqn:Ek; [apply err1_wiped, H|].
        destruct (take_oracle s) as [ok s1] eqn:Et.
        pose proof (take_oracle_evs s) as (T1 & T2 & T3). rewrite Et in T1, T2, T3. cbn [snd] in *.
        destruct ok.
        * apply IH. cbn [evs]. apply nofree_app; [rewrite T1; exact H | reflexivity].
        * apply err1_wiped. rewrite T1. exact H.
  Qed.
End Model.

(* ---- every block is released exactly once on failure, handed over on success ---- *)
Definition allocs_id (l : list event) : list bytes :=
  flat_map (fun e => match e with EAllocId c => [c] | _ => [] end) l.
Definition allocs_sec (l : list event) : list bytes :=
  flat_map (fun e => match e with EAllocSecret c => [c] | _ => [] end) l.
Definition frees_id (l : list event) : list bytes :=
  flat_map (fun e => match e with EFreeId c => [c] | _ => [] end) l.
Definition frees_sec (l : list event) : list bytes :=
  flat_map (fun e => match e with EFreeSecret c => [c] | _ => [] end) l.

Definition olist (o : option bytes) : list bytes := match o with Some x => [x] | None => [] end.

Definition tracked (s : st) : Prop :=
  nofree (evs s) = true /\ allocs_id (evs s) = olist (kid s) /\ allocs_sec (evs s) = olist (ksec s).

Definition balanced (r : outcome * list event) : Prop :=
  match fst r with
  | Success i k => nofree (snd r) = true /\ allocs_id (snd r) = [i] /\ allocs_sec (snd r) = [k]
  | Failure => frees_id (snd r) = allocs_id (snd r) /\
               map (@length N) (frees_sec (snd r)) = map (@length N) (allocs_sec (snd r))
  end.

Lemma nofree_frees l : nofree l = true -> frees_id l = [] /\ frees_sec l = [].
Proof.
  unfold nofree. induction l as [|e r IH]; [auto|]. cbn [existsb]. rewrite negb_orb.
  intros H. apply andb_true_iff in H. destruct H as [H1 H2]. destruct (IH H2) as [I1 I2].
  unfold frees_id, frees_sec in *. cbn [flat_map]. rewrite I1, I2.
  destruct e; try discriminate; auto.
Qed.

Lemma err1_balanced w s : tracked s -> balanced (err1 w s).
Proof.
  intros (H1 & H2 & H3). unfold balanced, err1. cbn [fst snd].
  destruct (nofree_frees _ H1) as [F1 F2].
  unfold frees_id, frees_sec, allocs_id, allocs_sec in *. rewrite !flat_map_app.
  rewrite F1, F2, H2, H3. destruct (kid s), (ksec s), w; cbn; rewrite ?map_length; auto.
Qed.

Section Balance.
  Variable name_id name_secret : bytes.
  Variable bufsize : nat.
  Variable w : bool.

  Lemma finish_balanced s : tracked s -> balanced (finish w s).
  Proof.
    intros H. unfold finish. destruct (kid s) eqn:E1, (ksec s) eqn:E2; try (apply err1_balanced; exact H).
    destruct H as (H1 & H2 & H3). unfold balanced. cbn [fst snd]. rewrite E1 in H2. rewrite E2 in H3. auto.
  Qed.

  Lemma tracked_oracle s : tracked s -> tracked (snd (take_oracle s)).
  Proof.
    intros (H1 & H2 & H3). destruct (take_oracle_evs s) as (T1 & T2 & T3).
    unfold tracked. rewrite T1, T2, T3. auto.
  Qed.

  Theorem readkeys_balanced fuel inp s :
    tracked s -> balanced (loop name_id name_secret bufsize w fuel inp s).
  Proof.
    revert inp s. induction fuel as [|fuel IH]; intros inp s H; cbn [loop].
    - apply err1_balanced, H.
    - destruct (fgets bufsize inp) as [[raw rest]|]; [|apply finish_balanced, H].
      destruct (split_eol (cstring raw)) as [content haseol].
      destruct haseol; cbn [negb]; [|apply finish_balanced, H].
      destruct (split_eq content) as [[nm val]|]; [|apply err1_balanced, H].
      destruct (beq nm name_id).
      + destruct (kid s) eqn:Ek; [apply err1_balanced, H|].
        pose proof (tracked_oracle s H) as Ht. pose proof (take_oracle_evs s) as (_ & T2 & _).
        destruct (take_oracle s) as [ok s1]. cbn [snd] in *.
        destruct ok; [|apply err1_balanced, Ht].
        apply IH. destruct Ht as (H1 & H2 & H3). unfold tracked. cbn [evs kid ksec].
        split; [apply nofree_app; [exact H1 | reflexivity]|].
        unfold allocs_id, allocs_sec in *. rewrite !flat_map_app. cbn [flat_map app].
        rewrite H2, H3, T2, Ek, !app_nil_r. auto.
      + destruct (beq nm name_secret); [|apply err1_balanced, H].
        destruct (ksec s) eqn:Ek; [apply err1_balanced, H|].
        pose proof (tracked_oracle s H) as Ht. pose proof (take_oracle_evs s) as (_ & _ & T3).
        destruct (take_oracle s) as [ok s1]. cbn [snd] in *.
        destruct ok; [|apply err1_balanced, Ht].
        apply IH. destruct Ht as (H1 & H2 & H3). unfold tracked. cbn [evs kid ksec].
        split; [apply nofree_app; [exact H1 | reflexivity]|].
        unfold allocs_id, allocs_sec in *. rewrite !flat_map_app. cbn [flat_map app].
        rewrite H2, H3, T3, Ek, !app_nil_r. auto.
  Qed.
End Balance.

Definition init_st (orc : list bool) : st := {| kid := None; ksec := None; oracle := orc; evs := [] |}.

(* aws_readkeys on a file: fuel = length + 1 fgets calls always suffices (each call consumes a byte) *)
Definition aws_readkeys_m (name_id name_secret : bytes) (bufsize : nat) (wipe : bool)
           (file : bytes) (orc : list bool) : outcome * list event :=
  loop name_id name_secret bufsize wipe (S (length file)) file (init_st orc).

Corollary aws_readkeys_wipes name_id name_secret bufsize file orc :
  wiped (snd (aws_readkeys_m name_id name_secret bufsize true file orc)) = true.
Proof. apply readkeys_wipes_secret. reflexivity. Qed.

Corollary aws_readkeys_balanced name_id name_secret bufsize w file orc :
  balanced (aws_readkeys_m name_id name_secret bufsize w file orc).
Proof. apply readkeys_balanced. repeat split; reflexivity. Qed.

(* what the theorem is worth: with the wipe removed the same run frees the secret in clear *)
Definition kv (name val : list N) : list N := name ++ [61] ++ val ++ [10].
Example readkeys_unwiped_refuted :
  let id := [65; 95; 73] in let sec := [65; 95; 83] in
  let file := kv sec [115; 51; 99; 114; 51; 116] ++ kv sec [120] in   (* secret given twice *)
  wiped (snd (aws_readkeys_m id sec 1024 false file [])) = false /\
  wiped (snd (aws_readkeys_m id sec 1024 true file [])) = true /\
  snd (aws_readkeys_m id sec 1024 true file []) =
    [EAllocSecret [115; 51; 99; 114; 51; 116]; EFreeSecret [0; 0; 0; 0; 0; 0]].
Proof. vm_compute. repeat split; reflexivity. Qed.
