(* C16: numeric text parsing is exact (util/parsenum.h, util/humansize.c).
   Only statements, each closed by [exact], with Print Assumptions.
   Models: Util/Strto.v (strtoumax/strtoimax), Util/Parsenum.v (macro logic + inline functions),
   Util/Humansize.v (instantiated with the literals regenerated from the C in Gen/Repo_parsenum.v).
   Specs: Util/ParsenumSpec.v (numeral grammar over Z), Util/HumansizeSpec.v. *)
From Coq Require Import NArith ZArith List.
From LCP Require Import Base.CheckedMem Util.ParsenumSpec Util.Strto Util.Parsenum Util.ParsenumProofs Util.Humansize Util.HumansizeSpec Util.HumansizeProofs.
Import ListNotations.
Local Open Scope Z_scope.

(* M1: PARSENUM_EX(&x, s, min, max, base, trailing) with x a signed integer of 8/16/32/64 bits and the
   bounds inside that type: for EVERY C string s the outcome (value / EINVAL / ERANGE) is the one the
   grammar-level spec prescribes; in particular the run never leaves the string (it is an Ok). *)
Theorem C16_parsenum_signed_exact :
  forall w min max base trailing s sd,
    width_ok w ->
    typemin KSigned w <= min <= typemax KSigned w -> typemin KSigned w <= max <= typemax KSigned w ->
    base_ok base -> bytes_ok s -> no_nul s ->
    map_res presult_of (parsenum_ex6 {| ck := KSigned; cw := w |} (cstr s) min max base trailing sd)
    = Ok (parse_spec KSigned w min max base trailing s).
Proof. exact parsenum_signed_exact_proof. Qed.
Print Assumptions C16_parsenum_signed_exact.

(* M2: the same for unsigned targets (uint8..64, size_t, uintmax_t), for ANY bounds a caller can write
   (values of 64-bit integer expressions, negative ones included).  True of the code as it is now
   (after the fix that rejects negative numerals); false of the code before it, see C16_regression_F4. *)
Theorem C16_parsenum_unsigned_exact :
  forall w min max base trailing s sd,
    width_ok w -> IMIN <= min <= UMAX -> IMIN <= max <= UMAX ->
    base_ok base -> bytes_ok s -> no_nul s ->
    map_res presult_of (parsenum_ex6 {| ck := KUnsigned; cw := w |} (cstr s) min max base trailing sd)
    = Ok (parse_spec KUnsigned w min max base trailing s).
Proof. exact parsenum_unsigned_exact_proof. Qed.
Print Assumptions C16_parsenum_unsigned_exact.

(* PARSENUM(&x, s) and PARSENUM_EX(&x, s, base, trailing): the bounds are the limits of the type *)
Theorem C16_parsenum_unsigned_nobounds_exact :
  forall w base trailing s sd,
    width_ok w -> base_ok base -> bytes_ok s -> no_nul s ->
    map_res presult_of (parsenum_ex4 {| ck := KUnsigned; cw := w |} (cstr s) base trailing sd)
    = Ok (parse_spec KUnsigned w 0 (typemax KUnsigned w) base trailing s).
Proof. exact parsenum_ex4_unsigned_exact_proof. Qed.
Print Assumptions C16_parsenum_unsigned_nobounds_exact.

(* M3: floating-point targets.  strtod itself is libc's (its answer sd is data: characters consumed,
   its own range error, the two comparison outcomes, the class).  The wrapper reports EINVAL iff
   nothing was converted or junk follows (and trailing is off); ERANGE iff converted, no junk, and the
   value is below min, above max or strtod raised a range error; a NaN passes any bounds. *)
Theorem C16_parsenum_float_wrapper :
  forall w min max trailing s sd,
    no_nul s -> (sd_consumed sd <= length s)%nat ->
    exists e,
      parsenum_ex6 {| ck := KFloat; cw := w |} (cstr s) min max 0 trailing sd = Ok {| o_errno := e; o_stored := 0 |} /\
      parsenum_ex4 {| ck := KFloat; cw := w |} (cstr s) 0 trailing sd = Ok {| o_errno := e; o_stored := 0 |} /\
      let converted := sd_consumed sd <> 0%nat in
      let junk := trailing = false /\ sd_consumed sd <> length s in
      (e = EInval <-> (~ converted \/ junk)) /\
      (e = ERange <-> (converted /\ ~ junk /\
                       (sd_lt_min sd = true \/ sd_gt_max sd = true \/ sd_erange sd = true))) /\
      (converted -> ~ junk -> sd_class sd = FNan -> sd_lt_min sd = false -> sd_gt_max sd = false ->
       sd_erange sd = false -> e = ENone).
Proof. exact parsenum_float_wrapper_proof. Qed.
Print Assumptions C16_parsenum_float_wrapper.

(* regression for finding F4: without the sign test the old parsenum_unsigned stored 2^64-1 for "-1"
   into a uintmax_t and reported success, against the spec; the code as it is now reports ERANGE *)
Theorem C16_regression_F4 :
  parsenum_ex6_unsigned_old 64 (cstr [45; 49]%N) 0 UMAX 0 false
    = Ok {| o_errno := ENone; o_stored := 18446744073709551615 |} /\
  parse_spec KUnsigned 64 0 UMAX 0 false [45; 49]%N = ERANGE /\
  map_res presult_of (parsenum_ex6 {| ck := KUnsigned; cw := 64 |} (cstr [45; 49]%N) 0 UMAX 0 false sd_none) = Ok ERANGE.
Proof. exact old_code_accepts_minus_one. Qed.
Print Assumptions C16_regression_F4.

(* M4: humansize_parse, with the literals now in the C source, accepts exactly
   digit+ ' '? [kMGTPE]? 'B'?  whose value digits * 1000^k is below 2^64, and yields that value *)
Theorem C16_humansize_parse_exact :
  forall s, bytes_ok s -> no_nul s ->
    map_res result_of (humansize_parse_repo (cstr s)) = Ok (hs_parse_spec s).
Proof. exact humansize_parse_exact_proof. Qed.
Print Assumptions C16_humansize_parse_exact.

(* M5: for every 64-bit n, humansize(n) is the rendering of a documented form whose value is the
   greatest representable value not above n *)
Theorem C16_humansize_greatest :
  forall n, 0 <= n < 2 ^ 64 ->
    exists f, valid_form f /\ humansize_repo n = Ok (render f) /\
              form_value f <= n /\
              forall v, representable v -> v <= n -> v <= form_value f.
Proof. exact humansize_greatest_proof. Qed.
Print Assumptions C16_humansize_greatest.

(* the executable form of M5 that the correspondence run and the failing-input search evaluate
   (greatest value among all 7480 documented forms, rendered) is what humansize returns *)
Theorem C16_humansize_is_spec :
  forall n, 0 <= n < 2 ^ 64 -> humansize_repo n = Ok (hs_format_spec n).
Proof. exact humansize_is_spec_proof. Qed.
Print Assumptions C16_humansize_is_spec.
